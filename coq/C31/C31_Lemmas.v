(** C31 helper lemmas about the word-level SFMT model (no property statements here). *)
From Coq Require Import NArith ZArith List Bool Lia.
Require Import C31_Model.
Import ListNotations.
Local Open Scope N_scope.

(* ------------------------------------------------------------------ 32/64-bit words *)
Lemma m32_ones : m32 = N.ones 32. Proof. reflexivity. Qed.
Lemma m64_ones : m64 = N.ones 64. Proof. reflexivity. Qed.

Lemma w32_mod x : w32 x = x mod 2 ^ 32.
Proof. unfold w32. rewrite m32_ones. apply N.land_ones. Qed.
Lemma w64_mod x : w64 x = x mod 2 ^ 64.
Proof. unfold w64. rewrite m64_ones. apply N.land_ones. Qed.

Lemma w32_lt x : w32 x < 2 ^ 32.
Proof. rewrite w32_mod. apply N.mod_lt. discriminate. Qed.
Lemma w64_lt x : w64 x < 2 ^ 64.
Proof. rewrite w64_mod. apply N.mod_lt. discriminate. Qed.

Lemma w32_small x : x < 2 ^ 32 -> w32 x = x.
Proof. intros. rewrite w32_mod. now apply N.mod_small. Qed.
Lemma w64_small x : x < 2 ^ 64 -> w64 x = x.
Proof. intros. rewrite w64_mod. now apply N.mod_small. Qed.

Lemma land_lxor_distr_l a b c : N.land (N.lxor a b) c = N.lxor (N.land a c) (N.land b c).
Proof.
  apply N.bits_inj. intro n.
  rewrite N.land_spec, !N.lxor_spec, !N.land_spec.
  destruct (N.testbit a n), (N.testbit b n), (N.testbit c n); reflexivity.
Qed.

Lemma lxor_lt32 a b : a < 2 ^ 32 -> b < 2 ^ 32 -> N.lxor a b < 2 ^ 32.
Proof.
  intros Ha Hb. rewrite <- (w32_small a Ha), <- (w32_small b Hb).
  unfold w32. rewrite <- land_lxor_distr_l. apply w32_lt.
Qed.

Lemma land_lt32_r a m : m < 2 ^ 32 -> N.land a m < 2 ^ 32.
Proof.
  intros Hm. rewrite <- (w32_small m Hm). unfold w32.
  rewrite N.land_assoc. apply w32_lt.
Qed.

Lemma lor_lt64 a b : a < 2 ^ 64 -> b < 2 ^ 64 -> N.lor a b < 2 ^ 64.
Proof.
  intros Ha Hb. rewrite <- (w64_small a Ha), <- (w64_small b Hb).
  unfold w64. rewrite <- N.land_lor_distr_l. apply w64_lt.
Qed.

Lemma cat64_lt hi lo : hi < 2 ^ 32 -> lo < 2 ^ 32 -> cat64 hi lo < 2 ^ 64.
Proof.
  intros Hh Hl. unfold cat64. apply lor_lt64.
  - rewrite N.shiftl_mul_pow2. change (2 ^ 64) with (2 ^ 32 * 2 ^ 32).
    apply N.mul_lt_mono_pos_r; [reflexivity | assumption].
  - eapply N.lt_trans; [eassumption | reflexivity].
Qed.

(* ------------------------------------------------------------------ lanes *)
Definition word_ok (x : N) : Prop := x < 2 ^ 32.
Definition lane_ok (l : lane) : Prop :=
  let '(a, b, c, d) := l in word_ok a /\ word_ok b /\ word_ok c /\ word_ok d.

Lemma MSK_lt : MSK1 < 2 ^ 32 /\ MSK2 < 2 ^ 32 /\ MSK3 < 2 ^ 32 /\ MSK4 < 2 ^ 32.
Proof. repeat split; reflexivity. Qed.

Lemma rec1_ok a x b y d msk :
  word_ok a -> word_ok x -> word_ok y -> msk < 2 ^ 32 -> word_ok (rec1 a x b y d msk).
Proof.
  unfold word_ok, rec1. intros Ha Hx Hy Hm.
  repeat apply lxor_lt32; auto using w32_lt, land_lt32_r.
Qed.

Lemma lshift128_ok a s : lane_ok (lshift128 a s).
Proof. destruct a as [[[u0 u1] u2] u3]. cbv [lshift128 lane_ok word_ok]. repeat split; apply w32_lt. Qed.
Lemma rshift128_ok a s : lane_ok (rshift128 a s).
Proof. destruct a as [[[u0 u1] u2] u3]. cbv [rshift128 lane_ok word_ok]. repeat split; apply w32_lt. Qed.

Lemma do_recursion_ok a b c d : lane_ok a -> lane_ok (do_recursion a b c d).
Proof.
  intros Ha. unfold do_recursion.
  pose proof (lshift128_ok a SL2) as Hx. pose proof (rshift128_ok c SR2) as Hy.
  destruct (lshift128 a SL2) as [[[x0 x1] x2] x3].
  destruct (rshift128 c SR2) as [[[y0 y1] y2] y3].
  destruct a as [[[a0 a1] a2] a3], b as [[[b0 b1] b2] b3], d as [[[d0 d1] d2] d3].
  destruct Ha as (?&?&?&?), Hx as (?&?&?&?), Hy as (?&?&?&?), MSK_lt as (?&?&?&?).
  repeat split; apply rec1_ok; assumption.
Qed.

Lemma zl_ok : lane_ok zl.
Proof. repeat split; reflexivity. Qed.

Lemma nth_ok (w : list lane) k : Forall lane_ok w -> lane_ok (nth k w zl).
Proof.
  intros H. revert k. induction H as [|x l Hx Hl IH]; intros [|k]; simpl.
  - apply zl_ok.
  - apply zl_ok.
  - exact Hx.
  - apply IH.
Qed.

Lemma next_lane_ok w : Forall lane_ok w -> lane_ok (next_lane w).
Proof. intros. unfold next_lane. apply do_recursion_ok. now apply nth_ok. Qed.

Lemma tl_ok (w : list lane) : Forall lane_ok w -> Forall lane_ok (tl w).
Proof. intros H. destruct H; simpl; auto. Qed.

Lemma extend_ok n : forall w, Forall lane_ok w ->
  Forall lane_ok (fst (extend n w)) /\ Forall lane_ok (snd (extend n w)).
Proof.
  induction n as [|n IH]; intros w Hw; simpl.
  - split; auto.
  - pose proof (next_lane_ok w Hw) as Hx.
    specialize (IH (tl w ++ [next_lane w])).
    destruct (extend n (tl w ++ [next_lane w])) as [o w'] eqn:E. simpl in *.
    destruct IH as [Ho Hw'].
    + apply Forall_app. split; [now apply tl_ok | now constructor].
    + split; [constructor|]; assumption.
Qed.

(* block-size independence of the recursion *)
Lemma extend_app a : forall b w,
  extend (a + b) w =
  (fst (extend a w) ++ fst (extend b (snd (extend a w))), snd (extend b (snd (extend a w)))).
Proof.
  induction a as [|a IH]; intros b w; simpl.
  - now destruct (extend b w).
  - rewrite IH. destruct (extend a (tl w ++ [next_lane w])) as [o w'] eqn:E. simpl.
    reflexivity.
Qed.

Lemma extend_length n : forall w, length (fst (extend n w)) = n.
Proof.
  induction n as [|n IH]; intros w; simpl; auto.
  specialize (IH (tl w ++ [next_lane w])).
  destruct (extend n (tl w ++ [next_lane w])). simpl in *. now rewrite IH.
Qed.

(* ------------------------------------------------------------------ init *)
Lemma init_words_ok n : forall i prev, Forall word_ok (init_words n i prev).
Proof. induction n; intros; cbn [init_words]; constructor; [apply w32_lt | apply IHn]. Qed.

Lemma to_lanes_ok l : Forall word_ok l -> Forall lane_ok (to_lanes l).
Proof.
  assert (H : forall n (l : list N), (length l <= n)%nat -> Forall word_ok l -> Forall lane_ok (to_lanes l)).
  { induction n; intros [|a [|b [|c [|d t]]]] Hl Hf; cbn [to_lanes]; try (constructor; fail);
      cbn [length] in Hl; try lia.
    repeat match goal with H : Forall _ (_ :: _) |- _ => inversion H; clear H; subst end.
    constructor.
    - repeat split; assumption.
    - apply IHn; [lia | assumption]. }
  intros. eapply H; eauto.
Qed.

Lemma certify_lane_ok l : lane_ok l -> lane_ok (certify_lane l).
Proof.
  intros Hl. unfold certify_lane.
  destruct (N.eqb (inner_of l) 1); [assumption|].
  destruct l as [[[a b] c] d]. cbn [parity]. change (negb (N.eqb 1 0)) with true. cbv iota.
  destruct Hl as (Ha & Hb & Hc & Hd). repeat split; auto.
  apply lxor_lt32; [assumption | reflexivity].
Qed.

Lemma init_gen_rand_ok seed : Forall lane_ok (init_gen_rand seed).
Proof.
  unfold init_gen_rand, period_certification.
  pose proof (to_lanes_ok (init_psfmt32 seed)) as H.
  assert (Hw : Forall word_ok (init_psfmt32 seed)).
  { unfold init_psfmt32. constructor; [apply w32_lt | apply init_words_ok]. }
  specialize (H Hw). destruct (to_lanes (init_psfmt32 seed)); [constructor|].
  inversion H; subst. constructor; [now apply certify_lane_ok | assumption].
Qed.

(* ------------------------------------------------------------------ parity fold is linear over xor *)
Definition pstep (k x : N) : N := N.lxor x (N.shiftr x k).
Lemma pstep_lxor k a b : pstep k (N.lxor a b) = N.lxor (pstep k a) (pstep k b).
Proof.
  unfold pstep. rewrite N.shiftr_lxor. rewrite !N.lxor_assoc. f_equal.
  rewrite <- !N.lxor_assoc. f_equal. apply N.lxor_comm.
Qed.
Lemma fold_par_steps x : fold_par x = N.land (pstep 1 (pstep 2 (pstep 4 (pstep 8 (pstep 16 x))))) 1.
Proof. reflexivity. Qed.
Lemma fold_par_lxor x y : fold_par (N.lxor x y) = N.lxor (fold_par x) (fold_par y).
Proof. rewrite !fold_par_steps, !pstep_lxor. apply land_lxor_distr_l. Qed.

Lemma fold_par_bit x : fold_par x = 0 \/ fold_par x = 1.
Proof.
  unfold fold_par.
  match goal with |- N.land ?t 1 = 0 \/ _ => generalize t end. intro t.
  replace (N.land t 1) with (t mod 2) by (symmetry; apply (N.land_ones t 1)).
  assert (H : t mod 2 < 2) by (apply N.mod_lt; discriminate).
  revert H. generalize (t mod 2). intros m H. lia.
Qed.
