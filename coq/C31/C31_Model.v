(** C31 model (hand-written, executable): SFMT19937 as compiled in /repo (standard-C path of
    SimTKcommon/Random/src/SFMT.cpp: no SSE2/Altivec, little endian, not ONLY64), the 53-bit
    conversion [to_res53] of SFMT.h, and the transforms of SimTKcommon/Random/src/Random.cpp.

    Words are [N]; a 128-bit lane is four 32-bit words (u0,u1,u2,u3) as in [w128_t].
    No proofs in this file. *)
From Coq Require Import NArith ZArith List Bool.
From Flocq Require Import Core.Core IEEE754.BinarySingleNaN.
Import ListNotations.
Local Open Scope N_scope.

(* ------------------------------------------------------------------ words *)
Definition m32 : N := 4294967295.              (* 2^32-1 *)
Definition m64 : N := 18446744073709551615.    (* 2^64-1 *)
Definition w32 (x : N) : N := N.land x m32.    (* conversion to uint32_t *)
Definition w64 (x : N) : N := N.land x m64.    (* conversion to uint64_t *)

Definition lane := (N * N * N * N)%type.
Definition zl : lane := (0, 0, 0, 0).

(* SFMT-params19937.h *)
Definition POS1 : nat := 122.
Definition NL : nat := 156.                    (* N = MEXP/128 + 1 *)
Definition SL1 : N := 18.
Definition SL2 : N := 1.
Definition SR1 : N := 11.
Definition SR2 : N := 1.
Definition MSK1 : N := 0xdfffffef.
Definition MSK2 : N := 0xddfecb7f.
Definition MSK3 : N := 0xbffaffff.
Definition MSK4 : N := 0xbffffff6.
Definition parity : lane := (0x00000001, 0x00000000, 0x00000000, 0x13c9e684).

(* ((uint64_t)hi << 32) | lo *)
Definition cat64 (hi lo : N) : N := N.lor (N.shiftl hi 32) lo.

(* rshift128 / lshift128 (the #else, little-endian versions), shift in bytes *)
Definition rshift128 (a : lane) (s : N) : lane :=
  let '(u0, u1, u2, u3) := a in
  let th := cat64 u3 u2 in
  let tl := cat64 u1 u0 in
  let oh := N.shiftr th (s * 8) in
  let ol := N.lor (N.shiftr tl (s * 8)) (w64 (N.shiftl th (64 - s * 8))) in
  (w32 ol, w32 (N.shiftr ol 32), w32 oh, w32 (N.shiftr oh 32)).

Definition lshift128 (a : lane) (s : N) : lane :=
  let '(u0, u1, u2, u3) := a in
  let th := cat64 u3 u2 in
  let tl := cat64 u1 u0 in
  let oh := N.lor (w64 (N.shiftl th (s * 8))) (N.shiftr tl (64 - s * 8)) in
  let ol := w64 (N.shiftl tl (s * 8)) in
  (w32 ol, w32 (N.shiftr ol 32), w32 oh, w32 (N.shiftr oh 32)).

(* one 32-bit column of do_recursion:
   a ^ x ^ ((b >> SR1) & MSK) ^ y ^ (d << SL1) *)
Definition rec1 (a x b y d msk : N) : N :=
  N.lxor (N.lxor (N.lxor (N.lxor a x) (N.land (N.shiftr b SR1) msk)) y) (w32 (N.shiftl d SL1)).

Definition do_recursion (a b c d : lane) : lane :=
  let x := lshift128 a SL2 in
  let y := rshift128 c SR2 in
  let '(a0, a1, a2, a3) := a in
  let '(b0, b1, b2, b3) := b in
  let '(d0, d1, d2, d3) := d in
  let '(x0, x1, x2, x3) := x in
  let '(y0, y1, y2, y3) := y in
  (rec1 a0 x0 b0 y0 d0 MSK1, rec1 a1 x1 b1 y1 d1 MSK2,
   rec1 a2 x2 b2 y2 d2 MSK3, rec1 a3 x3 b3 y3 d3 MSK4).

(* ------------------------------------------------------------------ init_gen_rand *)
(* psfmt32[i] = 1812433253UL * (psfmt32[i-1] ^ (psfmt32[i-1] >> 30)) + i, stored as uint32_t *)
Fixpoint init_words (n : nat) (i : N) (prev : N) : list N :=
  match n with
  | O => []
  | S k => let w := w32 (1812433253 * (N.lxor prev (N.shiftr prev 30)) + i) in
           w :: init_words k (i + 1) w
  end.

Definition init_psfmt32 (seed : N) : list N :=
  let s := w32 seed in s :: init_words 623 1 s.

Fixpoint to_lanes (l : list N) : list lane :=
  match l with
  | a :: b :: c :: d :: t => (a, b, c, d) :: to_lanes t
  | _ => []
  end.

(* period_certification *)
Definition fold_par (x : N) : N :=
  let x := N.lxor x (N.shiftr x 16) in
  let x := N.lxor x (N.shiftr x 8) in
  let x := N.lxor x (N.shiftr x 4) in
  let x := N.lxor x (N.shiftr x 2) in
  let x := N.lxor x (N.shiftr x 1) in
  N.land x 1.

Definition inner_of (l0 : lane) : N :=
  let '(a, b, c, d) := l0 in
  let '(p0, p1, p2, p3) := parity in
  fold_par (N.lxor (N.lxor (N.lxor (N.land a p0) (N.land b p1)) (N.land c p2)) (N.land d p3)).

Fixpoint lowp (q : positive) : positive :=
  match q with xO r => xO (lowp r) | _ => xH end.
(* lowest set bit of p as a mask: the first [work] with (work & p) != 0 *)
Definition lowbit (p : N) : N := match p with N0 => 0 | Npos q => Npos (lowp q) end.

Definition certify_lane (l0 : lane) : lane :=
  if N.eqb (inner_of l0) 1 then l0 else
  let '(a, b, c, d) := l0 in
  let '(p0, p1, p2, p3) := parity in
  if negb (N.eqb p0 0) then (N.lxor a (lowbit p0), b, c, d)
  else if negb (N.eqb p1 0) then (a, N.lxor b (lowbit p1), c, d)
  else if negb (N.eqb p2 0) then (a, b, N.lxor c (lowbit p2), d)
  else if negb (N.eqb p3 0) then (a, b, c, N.lxor d (lowbit p3))
  else l0.

Definition period_certification (s : list lane) : list lane :=
  match s with [] => [] | l0 :: t => certify_lane l0 :: t end.

(* the state after init_gen_rand(seed): 156 lanes, idx = N32 *)
Definition init_gen_rand (seed : N) : list lane :=
  period_certification (to_lanes (init_psfmt32 seed)).

(* ------------------------------------------------------------------ the recursion as a stream *)
(* [w] is the window of the last N lanes, oldest first.  gen_rand_all and gen_rand_array both
   compute lane k = do_recursion(lane[k-N], lane[k-N+POS1], lane[k-2], lane[k-1]). *)
Definition next_lane (w : list lane) : lane :=
  do_recursion (nth 0 w zl) (nth POS1 w zl) (nth 154 w zl) (nth 155 w zl).

Fixpoint extend (n : nat) (w : list lane) : list lane * list lane :=
  match n with
  | O => ([], w)
  | S k => let x := next_lane w in
           let '(o, w') := extend k (tl w ++ [x]) in (x :: o, w')
  end.

(* a lane read as 32-bit and as 64-bit outputs (little endian) *)
Definition words32 (l : lane) : list N := let '(a, b, c, d) := l in [a; b; c; d].
Definition words64 (l : lane) : list N := let '(a, b, c, d) := l in [cat64 b a; cat64 d c].

(* first [n] lanes generated after seeding: what gen_rand32/gen_rand64/fill_array deliver *)
Definition sfmt_lanes (seed : N) (n : nat) : list lane := fst (extend n (init_gen_rand seed)).
Definition sfmt_out32 (seed : N) (n : nat) : list N := flat_map words32 (sfmt_lanes seed n).
Definition sfmt_out64 (seed : N) (n : nat) : list N := flat_map words64 (sfmt_lanes seed n).

(* ------------------------------------------------------------------ Random::RandomImpl *)
(* state: SFMT window + the not yet consumed part of the 1024-entry uint64 buffer *)
Record rstate := mkR { r_win : list lane; r_buf : list N }.

Definition bufferLanes : nat := 512.           (* bufferSize = 1024 uint64 = 512 lanes *)

Definition set_seed (seed : N) : rstate := mkR (init_gen_rand seed) [].

(* the raw 64-bit value consumed by one getNextRandom() *)
Definition next_raw (st : rstate) : N * rstate :=
  match r_buf st with
  | v :: t => (v, mkR (r_win st) t)
  | [] => let '(o, w) := extend bufferLanes (r_win st) in
          match flat_map words64 o with
          | v :: t => (v, mkR w t)
          | [] => (0, mkR w [])
          end
  end.

Fixpoint raw_seq (n : nat) (st : rstate) : list N * rstate :=
  match n with
  | O => ([], st)
  | S k => let '(v, st1) := next_raw st in
           let '(l, st2) := raw_seq k st1 in (v :: l, st2)
  end.

(* ------------------------------------------------------------------ binary64 *)
Definition prec : Z := 53.
Definition emax : Z := 1024.
Definition b64 := binary_float prec emax.
Definition Hprec : Prec_gt_0 prec := eq_refl.
Definition Hemax : Prec_lt_emax prec emax := eq_refl.
Definition fmul : b64 -> b64 -> b64 := @Bmult prec emax Hprec Hemax mode_NE.
Definition fadd : b64 -> b64 -> b64 := @Bplus prec emax Hprec Hemax mode_NE.
Definition fsub : b64 -> b64 -> b64 := @Bminus prec emax Hprec Hemax mode_NE.
(* round-to-nearest-even of m * 2^e into binary64 *)
Definition fofZ2 (m e : Z) : b64 :=
  binary_normalize prec emax Hprec Hemax mode_NE m e false.
Definition fofZ (m : Z) : b64 := fofZ2 m 0.

(* to_res53: v * (1.0/18446744073709551616.0L).  The constant is a long double, so the product is
   formed in the x87 64-bit-mantissa format where it is exact (v < 2^64, factor 2^-64), and the
   return converts it to double: one round-to-nearest-even of v * 2^-64.  (Evaluating in double
   instead gives the same value: (double)v rounds v the same way and the scaling is exact.) *)
Definition res53 (v : N) : b64 := fofZ2 (Z.of_N v) (-64).

(* floor of a finite binary64 as an integer; 0 for non-finite (the C++ cast is undefined there) *)
Definition floorZ (x : b64) : Z :=
  match x with
  | B754_finite s m e _ =>
      let z := cond_Zopp s (Zpos m) in
      if (0 <=? e)%Z then (z * 2 ^ e)%Z else (z / 2 ^ (- e))%Z
  | _ => 0%Z
  end.

(* Random::Uniform: range = max - min at construction.
   [uniform_raw] is the expression min + getNextRandom()*range that getValue returned before commit
   181ff92a; in binary64 it can round up to max.  Since that commit getValue is
     value = min + r*range;  if (value >= max && min < max) return std::nextafter(max, min);  return value;
   which is [uniform_expr]; getIntValue = (int) floor(getValue()). *)
Definition fleb : b64 -> b64 -> bool := @Bleb prec emax.
Definition fltb : b64 -> b64 -> bool := @Bltb prec emax.
Definition fpred : b64 -> b64 := @Bpred prec emax Hprec Hemax.      (* nextafter(x, y) for y < x *)
Definition uniform_raw (mn mx r : b64) : b64 := fadd mn (fmul r (fsub mx mn)).
Definition uniform_expr (mn mx r : b64) : b64 :=
  let v := uniform_raw mn mx r in
  if fleb mx v && fltb mn mx then fpred mx else v.
(* the same with the stored member [range] (set by the constructor, setMin and setMax) *)
Definition uniform_expr_stored (mn mx range r : b64) : b64 :=
  let v := fadd mn (fmul r range) in
  if fleb mx v && fltb mn mx then fpred mx else v.
Definition uniform_value (mn mx : b64) (v : N) : b64 := uniform_expr mn mx (res53 v).
Definition uniform_int (mn mx : b64) (v : N) : Z := floorZ (uniform_value mn mx v).
(* the pre-fix expression on a raw draw (kept for the regression lemmas) *)
Definition uniform_value_raw (mn mx : b64) (v : N) : b64 := uniform_raw mn mx (res53 v).
Definition uniform_int_raw (mn mx : b64) (v : N) : Z := floorZ (uniform_value_raw mn mx v).

(* sign/mantissa/exponent view used by the drivers and the bit-level I/O *)
Definition bits_of (x : b64) : Z :=
  match x with
  | B754_zero s => if s then (2 ^ 63)%Z else 0%Z
  | B754_infinity s => ((if s then 2 ^ 63 else 0) + 2047 * 2 ^ 52)%Z
  | B754_nan => (2047 * 2 ^ 52 + 2 ^ 51)%Z
  | B754_finite s m e _ =>
      let sg := (if s then 2 ^ 63 else 0)%Z in
      if (Zpos m <? 2 ^ 52)%Z then (sg + Zpos m)%Z             (* subnormal: e = -1074 *)
      else (sg + (e + 1075) * 2 ^ 52 + (Zpos m - 2 ^ 52))%Z
  end.

(* a binary64 from its IEEE bit pattern (finite and infinite patterns; NaN patterns give NaN) *)
Definition of_bits (b : Z) : b64 :=
  let s := (2 ^ 63 <=? b)%Z in
  let r := (b mod 2 ^ 63)%Z in
  let ex := (r / 2 ^ 52)%Z in
  let mt := (r mod 2 ^ 52)%Z in
  if (ex =? 2047)%Z then (if (mt =? 0)%Z then B754_infinity s else B754_nan)
  else if (ex =? 0)%Z then
    match fofZ2 mt (-1074) with B754_zero _ => B754_zero s | y => if s then Bopp y else y end
  else let y := fofZ2 (mt + 2 ^ 52) (ex - 1075) in if s then Bopp y else y.

(* ------------------------------------------------------------------ Random::Gaussian *)
(* Generic in the number type: instantiated with R for the theorems and with OCaml floats in the
   driver.  [us] is the sequence of getNextRandom() values still to come. *)
Record GOps (T : Type) := mkG {
  g_add : T -> T -> T; g_sub : T -> T -> T; g_mul : T -> T -> T; g_div : T -> T -> T;
  g_sqrt : T -> T; g_ln : T -> T; g_one : T; g_two : T; g_zero : T;
  g_geb : T -> T -> bool;     (* r2 >= 1.0 *)
  g_eqb : T -> T -> bool }.   (* r2 == 0.0 *)
Arguments g_add {T}. Arguments g_sub {T}. Arguments g_mul {T}. Arguments g_div {T}.
Arguments g_sqrt {T}. Arguments g_ln {T}. Arguments g_one {T}. Arguments g_two {T}.
Arguments g_zero {T}. Arguments g_geb {T}. Arguments g_eqb {T}.

Section Gauss.
Context {T : Type} (G : GOps T).
Definition centred (r : T) : T := g_sub G (g_mul G (g_two G) r) (g_one G).      (* 2*r - 1 *)
Definition accepted (x y : T) : bool :=
  let r2 := g_add G (g_mul G x x) (g_mul G y y) in
  negb (g_geb G r2 (g_one G) || g_eqb G r2 (g_zero G)).
Definition multiplier (x y : T) : T :=
  let r2 := g_add G (g_mul G x x) (g_mul G y y) in
  g_sqrt G (g_div G (g_mul G (g_sub G (g_zero G) (g_two G)) (g_ln G r2)) r2).    (* sqrt((-2*log(r2))/r2) *)

(* the do/while loop, [fuel] iterations at most; returns (x, y, multiplier, rest of the stream) *)
Fixpoint polar (fuel : nat) (us : list T) : option (T * T * T * list T) :=
  match fuel with
  | O => None
  | S k => match us with
           | r1 :: r2 :: rest =>
               let x := centred r1 in let y := centred r2 in
               if accepted x y then Some (x, y, multiplier x y, rest) else polar k rest
           | _ => None
           end
  end.

(* GaussianImpl state: cached second value (nextGaussianIsValid, nextGaussian) *)
Definition gstate := option T.
(* getValue: (value, new cache, rest of stream) *)
Definition gauss_value (fuel : nat) (mean sd : T) (c : gstate) (us : list T)
  : option (T * gstate * list T) :=
  match c with
  | Some g => Some (g_add G mean (g_mul G sd g), None, us)
  | None => match polar fuel us with
            | Some (x, y, m, rest) =>
                Some (g_add G mean (g_mul G (g_mul G sd x) m), Some (g_mul G y m), rest)
            | None => None
            end
  end.
End Gauss.

(* ------------------------------------------------------------------ histories of one generator object *)
(* Random::Uniform used over time: draws interleaved with setMin / setMax / setSeed.  UniformImpl keeps
   min, max and range = max - min (recomputed by the constructor, setMin and setMax). *)
Inductive uop : Type := UGet | UGetInt | USetMin (x : b64) | USetMax (x : b64) | USetSeed (seed : N).
Record uobj := mkUO { uo_min : b64; uo_max : b64; uo_range : b64; uo_st : rstate }.
Definition unew (mn mx : b64) (seed : N) : uobj := mkUO mn mx (fsub mx mn) (set_seed seed).
(* one returned value: the raw 64-bit draw consumed, the value of getValue(), and its floor for getIntValue() *)
Record uout := mkUOut { uo_raw : N; uo_val : b64; uo_is_int : bool }.

Definition uget (o : uobj) : b64 * N * uobj :=
  let '(v, st') := next_raw (uo_st o) in
  (uniform_expr_stored (uo_min o) (uo_max o) (uo_range o) (res53 v), v,
   mkUO (uo_min o) (uo_max o) (uo_range o) st').

Definition ustep (o : uobj) (op : uop) : option uout * uobj :=
  match op with
  | UGet => let '(x, v, o') := uget o in (Some (mkUOut v x false), o')
  | UGetInt => let '(x, v, o') := uget o in (Some (mkUOut v x true), o')
  | USetMin x => (None, mkUO x (uo_max o) (fsub (uo_max o) x) (uo_st o))
  | USetMax x => (None, mkUO (uo_min o) x (fsub x (uo_min o)) (uo_st o))
  | USetSeed s => (None, mkUO (uo_min o) (uo_max o) (uo_range o) (set_seed s))
  end.

Fixpoint urun (o : uobj) (ops : list uop) : list uout * uobj :=
  match ops with
  | [] => ([], o)
  | op :: t => let '(r, o1) := ustep o op in
               let '(l, o2) := urun o1 t in
               (match r with Some x => x :: l | None => l end, o2)
  end.

(* Random::Gaussian used over time.  GaussianImpl keeps mean, stddev and the cached second deviate of a
   pair, stored UNSCALED (nextGaussian = y*multiplier); the parameters are applied when a value is
   handed out.  A reseed supplies the unit draws of the new stream and clears the cache. *)
Section GaussHistory.
Context {T : Type} (G : GOps T).
Inductive gop : Type := GGet | GSetMean (m : T) | GSetSd (s : T) | GSetSeed (us : list T).
Record gobj := mkGO { go_mean : T; go_sd : T; go_cache : option T; go_us : list T }.
(* one returned value: parameters in force at the call, the unit deviate used, the value *)
Record gout := mkGOut { o_mean : T; o_sd : T; o_dev : T; o_val : T }.

Definition gget (fuel : nat) (o : gobj) : option (gout * gobj) :=
  match go_cache o with
  | Some g => Some (mkGOut (go_mean o) (go_sd o) g (g_add G (go_mean o) (g_mul G (go_sd o) g)),
                    mkGO (go_mean o) (go_sd o) None (go_us o))
  | None => match polar G fuel (go_us o) with
            | Some (x, y, m, rest) =>
                Some (mkGOut (go_mean o) (go_sd o) (g_mul G x m)
                        (g_add G (go_mean o) (g_mul G (g_mul G (go_sd o) x) m)),
                      mkGO (go_mean o) (go_sd o) (Some (g_mul G y m)) rest)
            | None => None
            end
  end.

(* outputs of the getValue calls of a history; None = the loop ran out of fuel / of supplied draws *)
Fixpoint grun (fuel : nat) (o : gobj) (ops : list gop) : list (option gout) :=
  match ops with
  | [] => []
  | GGet :: t => match gget fuel o with
                 | Some (r, o') => Some r :: grun fuel o' t
                 | None => [None]
                 end
  | GSetMean m :: t => grun fuel (mkGO m (go_sd o) (go_cache o) (go_us o)) t
  | GSetSd s :: t => grun fuel (mkGO (go_mean o) s (go_cache o) (go_us o)) t
  | GSetSeed us :: t => grun fuel (mkGO (go_mean o) (go_sd o) None us) t
  end.

(* the parameters in force at each getValue, read off the history alone *)
Fixpoint gparams (m s : T) (ops : list gop) : list (T * T) :=
  match ops with
  | [] => []
  | GGet :: t => (m, s) :: gparams m s t
  | GSetMean m' :: t => gparams m' s t
  | GSetSd s' :: t => gparams m s' t
  | GSetSeed _ :: t => gparams m s t
  end.
(* the history with the parameter changes removed *)
Fixpoint gerase (ops : list gop) : list gop :=
  match ops with
  | [] => []
  | GSetMean _ :: t => gerase t
  | GSetSd _ :: t => gerase t
  | op :: t => op :: gerase t
  end.
End GaussHistory.
Arguments GGet {T}. Arguments GSetMean {T} _. Arguments GSetSd {T} _. Arguments GSetSeed {T} _.
