(** C31 property statements and their proofs.  Every Lemma/Example here is listed in
    Props/Properties_C31.v (helpers live in C31_Lemmas.v and C31_FloatLemmas.v). *)
From Coq Require Import NArith ZArith Reals Lia Lra List Bool.
From Flocq Require Import Core.Core IEEE754.BinarySingleNaN.
From Coq Require Import SpecFloat.
Require Import C31_Model C31_Lemmas C31_FloatLemmas.

(* ================================================================ SFMT / Random stream *)
Local Open Scope N_scope.
Import ListNotations.

Example sfmt_reference_vector :
  firstn 5 (sfmt_out32 1234 2) = [3440181298; 1564997079; 1510669302; 2930277156; 1452439940].
Proof. vm_compute. reflexivity. Qed.

Lemma sfmt_block_size_independent a b w :
  fst (extend (a + b) w) = fst (extend a w) ++ fst (extend b (snd (extend a w))) /\
  snd (extend (a + b) w) = snd (extend b (snd (extend a w))).
Proof. rewrite extend_app. split; reflexivity. Qed.

Lemma sfmt_outputs_in_range32 seed n v : In v (sfmt_out32 seed n) -> v < 2 ^ 32.
Proof.
  unfold sfmt_out32, sfmt_lanes. intros H. apply in_flat_map in H. destruct H as (l & Hl & Hv).
  pose proof (proj1 (extend_ok n _ (init_gen_rand_ok seed))) as F.
  rewrite Forall_forall in F. specialize (F l Hl).
  destruct l as [[[a b] c] d]. destruct F as (?&?&?&?).
  cbn [words32 In] in Hv. intuition subst; assumption.
Qed.

Lemma words64_in_range l v : lane_ok l -> In v (words64 l) -> v < 2 ^ 64.
Proof.
  destruct l as [[[a b] c] d]. intros (?&?&?&?) Hv. cbn [words64 In] in Hv.
  intuition subst; apply cat64_lt; assumption.
Qed.

Lemma sfmt_outputs_in_range64 seed n v : In v (sfmt_out64 seed n) -> v < 2 ^ 64.
Proof.
  unfold sfmt_out64, sfmt_lanes. intros H. apply in_flat_map in H. destruct H as (l & Hl & Hv).
  pose proof (proj1 (extend_ok n _ (init_gen_rand_ok seed))) as F.
  rewrite Forall_forall in F. eapply words64_in_range; eauto.
Qed.

Lemma certify_lane_inner l : inner_of (certify_lane l) = 1.
Proof.
  unfold certify_lane. destruct (N.eqb_spec (inner_of l) 1) as [E|E]; [assumption|].
  destruct l as [[[a b] c] d]. cbn [parity]. change (negb (N.eqb 1 0)) with true. cbv iota.
  unfold inner_of in *. cbn [parity] in *. change (lowbit 1) with 1.
  set (rest := N.lxor (N.lxor (N.land b 0) (N.land c 0)) (N.land d 331998852)).
  assert (R : forall x, N.lxor (N.lxor (N.lxor (N.land x 1) (N.land b 0)) (N.land c 0)) (N.land d 331998852)
                        = N.lxor (N.land x 1) rest).
  { intros. unfold rest. now rewrite !N.lxor_assoc. }
  rewrite R in *. rewrite land_lxor_distr_l. change (N.land 1 1) with 1.
  rewrite (N.lxor_comm (N.land a 1) 1), N.lxor_assoc, fold_par_lxor.
  change (fold_par 1) with 1.
  destruct (fold_par_bit (N.lxor (N.land a 1) rest)) as [Z|Z]; rewrite Z in *; [reflexivity | congruence].
Qed.

Lemma init_period_certified seed : inner_of (hd zl (init_gen_rand seed)) = 1.
Proof.
  unfold init_gen_rand, init_psfmt32.
  change 623%nat with (S (S (S 620))). generalize 620%nat. intros k.
  cbn [init_words to_lanes period_certification hd]. apply certify_lane_inner.
Qed.

(* the buffered draws of Random::RandomImpl are the SFMT 64-bit stream *)
Definition stream64 (w : list lane) (m : nat) : list N := flat_map words64 (fst (extend m w)).

Lemma stream64_app w a b : stream64 w (a + b) = stream64 w a ++ stream64 (snd (extend a w)) b.
Proof. unfold stream64. rewrite extend_app. cbn [fst]. apply flat_map_app. Qed.

Lemma raw_seq_stream n : forall st,
  exists m, fst (raw_seq n st) = firstn n (r_buf st ++ stream64 (r_win st) m).
Proof.
  induction n as [|n IH]; intros [w buf].
  - exists 0%nat. reflexivity.
  - cbn [raw_seq]. unfold next_raw. cbn [r_buf r_win].
    destruct buf as [|v t].
    + destruct (extend bufferLanes w) as [o w'] eqn:E.
      destruct (flat_map words64 o) as [|v t] eqn:F.
      * exfalso. assert (L : length o = bufferLanes) by (rewrite <- (extend_length bufferLanes w), E; reflexivity).
        destruct o as [|[[[a b] c] d] o']; [discriminate L | discriminate F].
      * destruct (IH (mkR w' t)) as [m Hm]. cbn [r_buf r_win] in Hm.
        exists (bufferLanes + m)%nat.
        destruct (raw_seq n (mkR w' t)) as [l st2]. cbn [fst] in *.
        rewrite stream64_app. unfold stream64 at 1. rewrite E. cbn [fst snd]. rewrite F.
        cbn [app firstn]. now rewrite Hm.
    + destruct (IH (mkR w t)) as [m Hm]. cbn [r_buf r_win] in Hm. exists m.
      destruct (raw_seq n (mkR w t)) as [l st2]. cbn [fst] in *. cbn [app firstn]. now rewrite Hm.
Qed.

Lemma random_draws_are_sfmt_stream seed n :
  exists m, fst (raw_seq n (set_seed seed)) = firstn n (sfmt_out64 seed m).
Proof.
  unfold set_seed, sfmt_out64, sfmt_lanes. generalize (init_gen_rand seed). intros w.
  destruct (raw_seq_stream n (mkR w [])) as [m H]. exists m. exact H.
Qed.

Lemma raw_draws_in_range seed n v : In v (fst (raw_seq n (set_seed seed))) -> v < 2 ^ 64.
Proof.
  destruct (random_draws_are_sfmt_stream seed n) as [m E]. rewrite E. intros H.
  apply (sfmt_outputs_in_range64 seed m).
  rewrite <- (firstn_skipn n (sfmt_out64 seed m)). apply in_or_app. now left.
Qed.

Lemma raw_seq_app a : forall b st,
  raw_seq (a + b) st =
  (fst (raw_seq a st) ++ fst (raw_seq b (snd (raw_seq a st))), snd (raw_seq b (snd (raw_seq a st)))).
Proof.
  induction a as [|a IH]; intros b st; cbn [raw_seq Nat.add].
  - cbn [fst snd app]. destruct (raw_seq b st); reflexivity.
  - destruct (next_raw st) as [v st1]. rewrite IH.
    destruct (raw_seq a st1) as [l st2]. reflexivity.
Qed.

Lemma raw_seq_length n : forall st, length (fst (raw_seq n st)) = n.
Proof.
  induction n as [|n IH]; intros st; cbn [raw_seq]; [reflexivity|].
  destruct (next_raw st) as [v st1]. specialize (IH st1).
  destruct (raw_seq n st1). cbn [fst length] in *. now rewrite IH.
Qed.

(* a sequence is determined by the seed alone: any longer run from the same seed starts with it *)
Lemma deterministic_stream seed n k :
  fst (raw_seq n (set_seed seed)) = firstn n (fst (raw_seq (n + k) (set_seed seed))).
Proof.
  rewrite raw_seq_app. cbn [fst].
  rewrite firstn_app, raw_seq_length, Nat.sub_diag. cbn [firstn]. rewrite app_nil_r.
  rewrite <- (raw_seq_length n (set_seed seed)) at 2. now rewrite firstn_all.
Qed.
(* ================================================================ unit interval, Uniform *)
Local Open Scope R_scope.

Lemma res53_in_unit_interval_closed v : (v < 2 ^ 64)%N -> 0 <= B2R (res53 v) <= 1.
Proof. apply res53_unit_closed. Qed.

Lemma res53_in_unit_interval_partial v :
  (v < 2 ^ 64 - 2 ^ 10)%N -> is_finite (res53 v) = true /\ 0 <= B2R (res53 v) <= 1 - / 9007199254740992 /\ B2R (res53 v) < 1.
Proof.
  intros H. assert (H' : (v < 2 ^ 64)%N) by lia.
  pose proof (res53_below_one v H) as B. rewrite bpow_m53 in B.
  pose proof (res53_unit_closed v H') as C. destruct (res53_spec v H') as [_ F].
  repeat split; try tauto; lra.
Qed.

Lemma res53_in_unit_interval_refuted : exists v, (v < 2 ^ 64)%N /\ B2R (res53 v) = 1.
Proof. exists 18446744073709551615%N. split; [reflexivity | apply res53_top_is_one]. Qed.

(* exactly the 1024 largest raw values give 1.0: probability 2^-54 per draw for an ideal generator *)
Lemma res53_equals_one_iff v : (v < 2 ^ 64)%N -> (B2R (res53 v) = 1 <-> (2 ^ 64 - 2 ^ 10 <= v)%N).
Proof. apply res53_one_iff. Qed.

Lemma res53_monotone v1 v2 : (v1 <= v2)%N -> (v2 < 2 ^ 64)%N -> B2R (res53 v1) <= B2R (res53 v2).
Proof. apply res53_mono. Qed.

Lemma uniform_real_in_range (mn mx r : R) : mn < mx -> 0 <= r < 1 -> mn <= mn + r * (mx - mn) < mx.
Proof. intros. nra. Qed.

Lemma uniform_int_in_range_real (a b : Z) (r : R) :
  (a < b)%Z -> 0 <= r < 1 -> (a <= Zfloor (IZR a + r * (IZR b - IZR a)) < b)%Z.
Proof.
  intros Hab Hr. apply IZR_lt in Hab.
  assert (H : IZR a <= IZR a + r * (IZR b - IZR a) < IZR b) by nra.
  split.
  - apply Zfloor_lub. tauto.
  - apply lt_IZR. apply Rle_lt_trans with (IZR a + r * (IZR b - IZR a)); [apply Zfloor_lb | tauto].
Qed.

(* ---- binary64, the code since commit 181ff92a (clamped expression): the documented range [min,max)
   holds for integer bounds and EVERY 64-bit draw, including the 1024 draws whose unit value is 1.0 *)
Lemma uniform_value_in_range_binary64 a b v :
  (- 2 ^ 31 <= a)%Z -> (a < b)%Z -> (b <= 2 ^ 31)%Z -> (v < 2 ^ 64)%N ->
  is_finite (uniform_value (fofZ a) (fofZ b) v) = true /\
  IZR a <= B2R (uniform_value (fofZ a) (fofZ b) v) < IZR b.
Proof. intros Ha Hab Hb Hv. destruct (uniform_value_clamped_spec a b v Ha Hab Hb Hv) as (F & R & _). now split. Qed.

Lemma uniform_int_in_range_binary64 a b v :
  (- 2 ^ 31 <= a)%Z -> (a < b)%Z -> (b <= 2 ^ 31)%Z -> (v < 2 ^ 64)%N ->
  (a <= uniform_int (fofZ a) (fofZ b) v < b)%Z.
Proof.
  intros Ha Hab Hb Hv. destruct (uniform_value_clamped_spec a b v Ha Hab Hb Hv) as (F & [R1 R2] & _).
  unfold uniform_int. rewrite floorZ_spec by assumption. split.
  - now apply Zfloor_lub.
  - apply lt_IZR. eapply Rle_lt_trans; [apply Zfloor_lb | exact R2].
Qed.

(* the fix changes a result only when the old expression was outside the documented range *)
Lemma uniform_clamp_inactive a b v :
  (- 2 ^ 31 <= a)%Z -> (a < b)%Z -> (b <= 2 ^ 31)%Z -> (v < 2 ^ 64)%N ->
  B2R (uniform_value_raw (fofZ a) (fofZ b) v) < IZR b ->
  B2R (uniform_value (fofZ a) (fofZ b) v) = B2R (uniform_value_raw (fofZ a) (fofZ b) v).
Proof.
  intros Ha Hab Hb Hv H. destruct (uniform_value_raw_spec a b v Ha Hab Hb Hv) as [E _]. rewrite E in *.
  destruct (uniform_value_clamped_spec a b v Ha Hab Hb Hv) as (_ & _ & K). now apply K.
Qed.

(* the old witnesses stay in range now: draw 1903775 of seed 1 for Uniform(2^30,2^30+1), and the raw value
   2^64-1 (unit value exactly 1.0) for Uniform(0,1) gives the largest double below 1 *)
Example fixed_witness_in_range :
  uniform_int (fofZ 1073741824) (fofZ 1073741825) 18446742594892032221 = 1073741824%Z /\
  bits_of (uniform_value (fofZ 0) (fofZ 1) 18446744073709551615) = 4607182418800017407%Z /\
  uniform_int (fofZ 1) (fofZ 2) (2 ^ 64 - 2 ^ 10 - 1) = 1%Z.
Proof. vm_compute. repeat split; reflexivity. Qed.

(* ---- regression lemmas about the expression min + r*range that getValue returned before commit 181ff92a
   (uniform_value_raw / uniform_int_raw): they say when the clamp of the fix is inactive and record the old
   overshoot.  binary64: the draw that hit max.  v is the raw 64-bit value of draw 1903775 after setSeed(1). *)
Lemma prefix_uniform_int_overshoot :
  exists v, (v < 2 ^ 64 - 2 ^ 10)%N /\ B2R (res53 v) < 1 /\
    uniform_int_raw (fofZ 1073741824) (fofZ 1073741825) v = 1073741825%Z.
Proof.
  exists 18446742594892032221%N. split; [reflexivity|]. split.
  - apply res53_in_unit_interval_partial. reflexivity.
  - vm_compute. reflexivity.
Qed.

Lemma prefix_uniform_int_lower_bound a b v :
  (- 2 ^ 31 <= a)%Z -> (a < b)%Z -> (b <= 2 ^ 31)%Z -> (v < 2 ^ 64)%N ->
  (a <= uniform_int_raw (fofZ a) (fofZ b) v)%Z.
Proof.
  intros. rewrite uniform_int_raw_spec by assumption. apply Zfloor_lub.
  apply uniform_R_ge_min; [lia | assumption | apply res53_unit_closed; assumption].
Qed.

Lemma prefix_uniform_value_closed a b v :
  (- 2 ^ 31 <= a)%Z -> (a < b)%Z -> (b <= 2 ^ 31)%Z -> (v < 2 ^ 64)%N ->
  IZR a <= B2R (uniform_value_raw (fofZ a) (fofZ b) v) <= IZR b.
Proof.
  intros Ha Hab Hb Hv. destruct (uniform_value_raw_spec a b v Ha Hab Hb Hv) as [E _]. rewrite E.
  pose proof (res53_unit_closed v Hv) as Hr. split.
  - apply uniform_R_ge_min; [lia | assumption | tauto].
  - unfold uniform_R. apply rnd_le_generic; [apply fmt_IZR; lia|].
    assert (L : 0 < IZR (b - a)) by (apply IZR_lt; lia).
    assert (rnd (B2R (res53 v) * IZR (b - a)) <= IZR (b - a)).
    { apply rnd_le_generic; [apply fmt_IZR; lia | nra]. }
    rewrite minus_IZR in *. lra.
Qed.

Lemma prefix_uniform_int_monotone a b v1 v2 :
  (- 2 ^ 31 <= a)%Z -> (a < b)%Z -> (b <= 2 ^ 31)%Z -> (v1 <= v2)%N -> (v2 < 2 ^ 64)%N ->
  (uniform_int_raw (fofZ a) (fofZ b) v1 <= uniform_int_raw (fofZ a) (fofZ b) v2)%Z.
Proof.
  intros Ha Hab Hb H12 H2. rewrite !uniform_int_raw_spec by (assumption || lia).
  apply Zfloor_le. apply uniform_R_mono; [assumption | now apply res53_mono].
Qed.

(* the range claim for one interval is decided by the single largest draw below 1 *)
Lemma prefix_uniform_int_criterion a b :
  (- 2 ^ 31 <= a)%Z -> (a < b)%Z -> (b <= 2 ^ 31)%Z ->
  (uniform_int_raw (fofZ a) (fofZ b) (2 ^ 64 - 2 ^ 10 - 1) < b)%Z ->
  forall v, (v < 2 ^ 64 - 2 ^ 10)%N -> (a <= uniform_int_raw (fofZ a) (fofZ b) v < b)%Z.
Proof.
  intros Ha Hab Hb Htop v Hv. split.
  - apply prefix_uniform_int_lower_bound; (assumption || lia).
  - eapply Z.le_lt_trans; [|exact Htop].
    apply prefix_uniform_int_monotone; (assumption || lia).
Qed.

Lemma prefix_uniform_int_min0 b v :
  (1 <= b)%Z -> (b <= 2 ^ 31)%Z -> (v < 2 ^ 64 - 2 ^ 10)%N ->
  (0 <= uniform_int_raw (fofZ 0) (fofZ b) v < b)%Z.
Proof.
  intros Hb1 Hb2 Hv. assert (Hv' : (v < 2 ^ 64)%N) by lia. split.
  - apply prefix_uniform_int_lower_bound; (assumption || lia).
  - rewrite uniform_int_raw_spec by (assumption || lia). unfold uniform_R.
    rewrite Z.sub_0_r, Rplus_0_l. rewrite (rnd_generic (rnd _)) by apply rnd_format.
    pose proof (res53_below_one v Hv) as Hr. fold u1 in Hr.
    pose proof (res53_unit_closed v Hv') as Hr0.
    assert (Hb : 1 <= IZR b) by (apply IZR_le; assumption).
    assert (L : rnd (B2R (res53 v) * IZR b) < IZR b).
    { apply rnd_below; [apply fmt_IZR; lia | assumption | nra]. }
    apply lt_IZR. eapply Rle_lt_trans; [apply Zfloor_lb | exact L].
Qed.
(* ================================================================ Gaussian (over the reals) *)
Definition RG : GOps R := mkG R Rplus Rminus Rmult Rdiv sqrt ln 1 2 0
  (fun a b => if Rle_dec b a then true else false)
  (fun a b => if Req_EM_T a b then true else false).

Definition mirror (r : R) : R := 1 - r.

Lemma centred_mirror r : centred RG (mirror r) = - centred RG r.
Proof. unfold centred, mirror. cbn. ring. Qed.

Lemma accepted_neg x y : accepted RG (- x) (- y) = accepted RG x y.
Proof. unfold accepted. cbn. replace (- x * - x + - y * - y) with (x * x + y * y) by ring. reflexivity. Qed.

Lemma multiplier_neg x y : multiplier RG (- x) (- y) = multiplier RG x y.
Proof. unfold multiplier. cbn. replace (- x * - x + - y * - y) with (x * x + y * y) by ring. reflexivity. Qed.

Definition neg_result (o : option (R * R * R * list R)) : option (R * R * R * list R) :=
  match o with Some (x, y, m, rest) => Some (- x, - y, m, map mirror rest) | None => None end.

(* mirroring every uniform draw (r -> 1-r) negates the accepted point and keeps the multiplier *)
Lemma polar_symmetric fuel : forall us, polar RG fuel (map mirror us) = neg_result (polar RG fuel us).
Proof.
  induction fuel as [|k IH]; intros us; [reflexivity|].
  destruct us as [|r1 [|r2 rest]]; try reflexivity.
  cbn [map polar]. rewrite !centred_mirror, accepted_neg, multiplier_neg.
  destruct (accepted RG (centred RG r1) (centred RG r2)); [reflexivity | apply IH].
Qed.

(* the Gaussian value for the mirrored stream is the reflection of the value about the mean *)
Lemma gauss_symmetric fuel mean sd us v c rest :
  gauss_value RG fuel mean sd None us = Some (v, c, rest) ->
  gauss_value RG fuel mean sd None (map mirror us) =
    Some (2 * mean - v, option_map Ropp c, map mirror rest).
Proof.
  unfold gauss_value. rewrite polar_symmetric.
  destruct (polar RG fuel us) as [[[[x y] m] rest']|]; [|discriminate].
  intros H. injection H as <- <- <-. cbn [neg_result option_map g_add g_mul RG].
  replace (mean + sd * - x * m) with (2 * mean - (mean + sd * x * m)) by ring.
  replace (- y * m) with (- (y * m)) by ring. reflexivity.
Qed.

(* the loop ends as soon as a pair is accepted, provided the fuel covers the rejected pairs before it *)
Lemma gauss_terminates k : forall fuel pre r1 r2 rest,
  length pre = (2 * k)%nat -> (k < fuel)%nat ->
  accepted RG (centred RG r1) (centred RG r2) = true ->
  exists x y m rest', polar RG fuel (pre ++ r1 :: r2 :: rest) = Some (x, y, m, rest') /\
                      0 < x * x + y * y < 1.
Proof.
  assert (ACC : forall x y, accepted RG x y = true -> 0 < x * x + y * y < 1).
  { intros x y. unfold accepted. cbn.
    destruct (Rle_dec 1 (x * x + y * y)); [discriminate|].
    destruct (Req_EM_T (x * x + y * y) 0); [discriminate|]. intros _. nra. }
  induction k as [|k IH]; intros fuel pre r1 r2 rest Hl Hf Hacc.
  - destruct pre; [|cbn [length] in Hl; lia]. destruct fuel; [lia|]. cbn [app polar]. rewrite Hacc.
    do 4 eexists. split; [reflexivity | now apply ACC].
  - destruct pre as [|p1 [|p2 pre]]; [cbn [length] in Hl; lia | cbn [length] in Hl; lia |]. destruct fuel; [lia|].
    cbn [app polar]. destruct (accepted RG (centred RG p1) (centred RG p2)) eqn:A.
    + do 4 eexists. split; [reflexivity | now apply ACC].
    + apply IH; [cbn [length] in Hl; lia | lia | assumption].
Qed.

(* second value of a pair comes from the cache without consuming draws *)
Lemma gauss_cached_second fuel mean sd g us :
  gauss_value RG fuel mean sd (Some g) us = Some (mean + sd * g, None, us).
Proof. reflexivity. Qed.

Lemma gauss_pair_values fuel mean sd us x y m rest :
  polar RG fuel us = Some (x, y, m, rest) ->
  exists c, gauss_value RG fuel mean sd None us = Some (mean + sd * x * m, Some c, rest) /\
            gauss_value RG fuel mean sd (Some c) rest = Some (mean + sd * (y * m), None, rest).
Proof. intros H. unfold gauss_value. rewrite H. eexists. split; reflexivity. Qed.

(* Box-Muller radius identity for an accepted point *)
Lemma gauss_radius x y : 0 < x * x + y * y < 1 ->
  (x * multiplier RG x y) * (x * multiplier RG x y) + (y * multiplier RG x y) * (y * multiplier RG x y)
  = - 2 * ln (x * x + y * y).
Proof.
  intros H. unfold multiplier. cbn. set (r2 := x * x + y * y) in *.
  assert (L : ln r2 < 0) by (rewrite <- ln_1; apply ln_increasing; lra).
  assert (P : 0 <= (0 - 2) * ln r2 / r2).
  { apply Rmult_le_pos; [nra | apply Rlt_le, Rinv_0_lt_compat; lra]. }
  transitivity (r2 * (sqrt ((0 - 2) * ln r2 / r2) * sqrt ((0 - 2) * ln r2 / r2))); [unfold r2; ring|].
  rewrite sqrt_sqrt by assumption. field. lra.
Qed.

(* ================================================================ non-vacuity / concrete instances *)
(* pre-fix expression: the criterion's hypothesis holds for (-5,5) and fails already for (1,2): with the
   largest unit value below 1, min + r*range = 2 - 2^-53 rounds to 2 *)
Example criterion_holds_m5_5 : (uniform_int_raw (fofZ (-5)) (fofZ 5) (2 ^ 64 - 2 ^ 10 - 1) < 5)%Z.
Proof. vm_compute. reflexivity. Qed.
Example criterion_fails_1_2 : uniform_int_raw (fofZ 1) (fofZ 2) (2 ^ 64 - 2 ^ 10 - 1) = 2%Z.
Proof. vm_compute. reflexivity. Qed.
Example criterion_fails_100_101 : uniform_int_raw (fofZ 100) (fofZ 101) (2 ^ 64 - 2 ^ 10 - 1) = 101%Z.
Proof. vm_compute. reflexivity. Qed.
Example gauss_accepts_example : accepted RG (centred RG (1 / 2)) (centred RG (3 / 4)) = true.
Proof.
  unfold accepted, centred. cbn.
  destruct (Rle_dec 1 _) as [H|H]; [exfalso; lra|].
  destruct (Req_EM_T _ 0) as [E|E]; [exfalso; lra | reflexivity].
Qed.
Example res53_small_values : bits_of (res53 0) = 0%Z /\ bits_of (res53 1) = 4318952042648305664%Z.
Proof. vm_compute. split; reflexivity. Qed.

(* ================================================================ histories: parameters never go stale *)
(* Uniform: a reference interpreter without the stored member [range] *)
Definition uspec_step (mn mx : b64) (st : rstate) (op : uop) : option uout * (b64 * b64 * rstate) :=
  match op with
  | UGet => let '(v, st') := next_raw st in (Some (mkUOut v (uniform_value mn mx v) false), (mn, mx, st'))
  | UGetInt => let '(v, st') := next_raw st in (Some (mkUOut v (uniform_value mn mx v) true), (mn, mx, st'))
  | USetMin x => (None, (x, mx, st))
  | USetMax x => (None, (mn, x, st))
  | USetSeed s => (None, (mn, mx, set_seed s))
  end.
Fixpoint uspec_run (mn mx : b64) (st : rstate) (ops : list uop) : list uout :=
  match ops with
  | [] => []
  | op :: t => let '(r, (mn', mx', st')) := uspec_step mn mx st op in
               match r with Some x => x :: uspec_run mn' mx' st' t | None => uspec_run mn' mx' st' t end
  end.

Definition uinv (o : uobj) : Prop := uo_range o = fsub (uo_max o) (uo_min o).

Lemma ustep_refines o op : uinv o ->
  uinv (snd (ustep o op)) /\
  fst (ustep o op) = fst (uspec_step (uo_min o) (uo_max o) (uo_st o) op) /\
  (uo_min (snd (ustep o op)), uo_max (snd (ustep o op)), uo_st (snd (ustep o op)))
    = snd (uspec_step (uo_min o) (uo_max o) (uo_st o) op).
Proof.
  intros I. destruct o as [mn mx rg st]. unfold uinv in *. cbn [uo_min uo_max uo_range uo_st] in *. subst rg.
  destruct op; cbn [ustep uspec_step]; unfold uget; cbn [uo_min uo_max uo_range uo_st];
    try (destruct (next_raw st) as [v st']); cbn [fst snd uo_min uo_max uo_range uo_st]; repeat split; reflexivity.
Qed.

(* every value of a history of draws, setMin, setMax and setSeed is the value for the bounds in force at that
   call and the next raw draw of the stream: the stored range = max - min never goes stale *)
Lemma uniform_history_refines ops : forall o, uinv o ->
  fst (urun o ops) = uspec_run (uo_min o) (uo_max o) (uo_st o) ops.
Proof.
  induction ops as [|op t IH]; intros o I; [reflexivity|].
  cbn [urun uspec_run]. destruct (ustep_refines o op I) as (I' & E1 & E2).
  destruct (ustep o op) as [r o1]. cbn [fst snd] in *.
  destruct (uspec_step (uo_min o) (uo_max o) (uo_st o) op) as [r' [[mn' mx'] st']]. cbn [fst snd] in *.
  subst r'. injection E2 as <- <- <-. specialize (IH o1 I').
  destruct (urun o1 t) as [l o2]. cbn [fst] in *. rewrite IH. destruct r; reflexivity.
Qed.

Lemma uniform_history_new mn mx seed ops :
  fst (urun (unew mn mx seed) ops) = uspec_run mn mx (set_seed seed) ops.
Proof. apply (uniform_history_refines ops (unew mn mx seed)). reflexivity. Qed.

(* Gaussian *)
Fixpoint somes {A : Type} (l : list (option A)) : list A :=
  match l with [] => [] | Some x :: t => x :: somes t | None :: t => somes t end.

(* the value handed out is mean + stddev * (unit deviate), with the parameters in force at the call *)
Lemma gget_value_law fuel o r o' : gget RG fuel o = Some (r, o') ->
  o_val r = o_mean r + o_sd r * o_dev r /\ o_mean r = go_mean o /\ o_sd r = go_sd o /\
  go_mean o' = go_mean o /\ go_sd o' = go_sd o.
Proof.
  unfold gget. destruct (go_cache o) as [g|].
  - intros H. injection H as <- <-. cbn. repeat split; ring.
  - destruct (polar RG fuel (go_us o)) as [[[[x y] m] rest]|]; [|discriminate].
    intros H. injection H as <- <-. cbn. repeat split; ring.
Qed.

Lemma gauss_history_value_law fuel ops : forall o r, In (Some r) (grun RG fuel o ops) ->
  o_val r = o_mean r + o_sd r * o_dev r.
Proof.
  induction ops as [|op t IH]; intros o r H; [destruct H|].
  destruct op; cbn [grun] in H; try (eapply IH; eassumption).
  destruct (gget RG fuel o) as [[r1 o1]|] eqn:E.
  - destruct H as [H|H]; [injection H as <-; now apply (gget_value_law fuel o r1 o1) | eapply IH; eassumption].
  - destruct H as [H|[]]. discriminate.
Qed.

(* stddev := 0 makes the next value exactly the mean, whatever was cached *)
Lemma gauss_history_zero_sd fuel ops o r : In (Some r) (grun RG fuel o ops) -> o_sd r = 0 -> o_val r = o_mean r.
Proof. intros H Z. rewrite (gauss_history_value_law fuel ops o r H), Z. ring. Qed.

(* the parameters attached to the values are exactly the latest ones set before each call *)
Lemma gauss_history_params fuel ops : forall o, ~ In None (grun RG fuel o ops) ->
  map (fun r => (o_mean r, o_sd r)) (somes (grun RG fuel o ops)) = gparams (go_mean o) (go_sd o) ops.
Proof.
  induction ops as [|op t IH]; intros o NS; [reflexivity|].
  destruct op; cbn [grun gparams] in *; try (apply (IH (mkGO _ _ _ _)); exact NS).
  destruct (gget RG fuel o) as [[r1 o1]|] eqn:E.
  - destruct (gget_value_law fuel o r1 o1 E) as (_ & M & S & M' & S').
    cbn [somes map]. rewrite M, S. f_equal. rewrite <- M', <- S'. apply IH.
    intros C. apply NS. now right.
  - exfalso. apply NS. now left.
Qed.

(* the unit deviates depend on the stream and on the reseeds only, not on mean / stddev or on when they change *)
Section DeviatesIndependent.
Context {T : Type} (G : GOps T).
Lemma gget_params_irrelevant fuel o m s :
  match gget G fuel o, gget G fuel (mkGO m s (go_cache o) (go_us o)) with
  | Some (r, o'), Some (r2, o2) => o_dev r = o_dev r2 /\ go_cache o' = go_cache o2 /\ go_us o' = go_us o2 /\
                                    go_mean o2 = m /\ go_sd o2 = s
  | None, None => True
  | _, _ => False
  end.
Proof.
  unfold gget. cbn [go_cache go_us go_mean go_sd]. destruct (go_cache o) as [g|]; [cbn; tauto|].
  destruct (polar G fuel (go_us o)) as [[[[x y] mm] rest]|]; cbn; tauto.
Qed.

Lemma gauss_history_deviates_independent fuel ops : forall o m s,
  map (@o_dev T) (somes (grun G fuel o ops)) =
  map (@o_dev T) (somes (grun G fuel (mkGO m s (go_cache o) (go_us o)) (gerase ops))).
Proof.
  induction ops as [|op t IH]; intros o m s; [reflexivity|].
  destruct op; cbn [grun gerase].
  - pose proof (gget_params_irrelevant fuel o m s) as P.
    destruct (gget G fuel o) as [[r o']|], (gget G fuel (mkGO m s (go_cache o) (go_us o))) as [[r2 o2]|]; try contradiction.
    + destruct P as (D & C & U & M & S). cbn [somes map]. rewrite D. f_equal.
      rewrite (IH o' m s). destruct o2 as [m2 s2 c2 u2]. cbn in *. subst. reflexivity.
    + reflexivity.
  - apply (IH (mkGO m0 (go_sd o) (go_cache o) (go_us o)) m s).
  - apply (IH (mkGO (go_mean o) s0 (go_cache o) (go_us o)) m s).
  - cbn [go_mean go_sd]. apply (IH (mkGO (go_mean o) (go_sd o) None us) m s).
Qed.
End DeviatesIndependent.

(* a reseed discards the cached second deviate: the next value starts a fresh pair of the new stream *)
Lemma gauss_reseed_clears_cache fuel o us t :
  grun RG fuel o (GSetSeed us :: GGet :: t) =
  match polar RG fuel us with
  | Some (x, y, m, rest) =>
      Some (mkGOut (go_mean o) (go_sd o) (x * m) (go_mean o + go_sd o * x * m))
      :: grun RG fuel (mkGO (go_mean o) (go_sd o) (Some (y * m)) rest) t
  | None => [None]
  end.
Proof. cbn [grun]. unfold gget. cbn [go_cache go_us go_mean go_sd]. destruct (polar RG fuel us) as [[[[x y] m] rest]|]; reflexivity. Qed.

(* getValue of the history machine is the getValue of the single-call model above *)
Lemma gget_matches_gauss_value fuel o :
  match gget RG fuel o, gauss_value RG fuel (go_mean o) (go_sd o) (go_cache o) (go_us o) with
  | Some (r, o'), Some (v, c, rest) => o_val r = v /\ go_cache o' = c /\ go_us o' = rest
  | None, None => True
  | _, _ => False
  end.
Proof.
  unfold gget, gauss_value. destruct (go_cache o); [cbn; tauto|].
  destruct (polar RG fuel (go_us o)) as [[[[x y] m] rest]|]; cbn; tauto.
Qed.

(* non-vacuity: a history with a parameter change after ONE draw; the second value uses the new parameters *)
Example gauss_history_example :
  let o := mkGO 10 2 None [1 / 2; 3 / 4] in
  exists z1 z2, grun RG 4 o [GGet; GSetMean 100; GSetSd 0; GGet]
    = [Some (mkGOut 10 2 z1 (10 + 2 * 0 * multiplier RG 0 (1 / 2))); Some (mkGOut 100 0 z2 (100 + 0 * z2))].
Proof.
  cbn [grun]. unfold gget. cbn [go_cache go_us go_mean go_sd polar].
  replace (centred RG (1 / 2)) with 0 by (unfold centred; cbn; lra).
  replace (centred RG (3 / 4)) with (1 / 2) by (unfold centred; cbn; lra).
  assert (A : accepted RG 0 (1 / 2) = true).
  { unfold accepted. cbn. destruct (Rle_dec 1 _) as [H|H]; [exfalso; lra|].
    destruct (Req_EM_T _ 0) as [E|E]; [exfalso; lra | reflexivity]. }
  rewrite A. cbn [go_cache go_us go_mean go_sd g_add g_mul RG]. eexists. eexists. reflexivity.
Qed.
