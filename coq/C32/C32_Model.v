(** C32 model (hand-written, executable): text -> value conversions of SimTK::String
    (SimTKcommon/src/String.cpp, String.h: trimWhiteSpace, toLower, tryConvertToBool/Float/Double after
    the "whole string must be consumed" fix, the generic tryConvertStringTo<int>), String(x) for the
    special floating values, and the unformatted write/read of Serialize.h / Array.h / BigMatrix.h
    (space/newline separated tokens, istream eof/fail flags).

    Characters are their codes in [N] (C locale, 7-bit ASCII); strings are [list N].
    libc number formatting/parsing (snprintf "%.17g"/"%.9g", strtod behind operator>>) is NOT modelled:
    it enters as the Section variables of [Conv] below.  No proofs in this file. *)
From Coq Require Import NArith ZArith List Bool.
Import ListNotations.
Local Open Scope N_scope.

Definition str := list N.

(* ------------------------------------------------------------------ characters *)
(* std::isspace in the C locale: space, \t \n \v \f \r *)
Definition is_space (c : N) : bool := (c =? 32) || ((9 <=? c) && (c <=? 13)).
Definition is_digit (c : N) : bool := (48 <=? c) && (c <=? 57).
(* std::tolower in the C locale *)
Definition lower (c : N) : N := if (65 <=? c) && (c <=? 90) then c + 32 else c.
Definition to_lower (s : str) : str := map lower s.

Fixpoint drop_ws (s : str) : str :=
  match s with c :: t => if is_space c then drop_ws t else s | [] => [] end.
(* String::trimWhiteSpace *)
Definition trim (s : str) : str := rev (drop_ws (rev (drop_ws s))).
(* cleanUp() of String.cpp *)
Definition clean (s : str) : str := to_lower (trim s).

Fixpoint str_eqb (a b : str) : bool :=
  match a, b with
  | [], [] => true
  | x :: a', y :: b' => (x =? y) && str_eqb a' b'
  | _, _ => false
  end.

(* literal strings used by the code *)
Definition s_true : str := [116; 114; 117; 101].
Definition s_false : str := [102; 97; 108; 115; 101].
Definition s_nan : str := [110; 97; 110].
Definition s_inf : str := [105; 110; 102].
Definition s_infinity : str := [105; 110; 102; 105; 110; 105; 116; 121].
Definition c_plus : N := 43.
Definition c_minus : N := 45.
Definition c_dot : N := 46.
Definition c_e : N := 101.
Definition c_E : N := 69.

(* ------------------------------------------------------------------ integer scanning (num_get) *)
Fixpoint take_digits (s : str) : str * str :=
  match s with
  | c :: t => if is_digit c then let '(d, r) := take_digits t in (c :: d, r) else ([], s)
  | [] => ([], [])
  end.

Definition digit_val (c : N) : Z := Z.of_N (c - 48).
Definition dec_val (ds : str) : Z := fold_left (fun a c => (10 * a + digit_val c)%Z) ds 0%Z.

(* optional sign: (negative?, rest) *)
Definition take_sign (s : str) : bool * str :=
  match s with
  | c :: t => if c =? c_minus then (true, t) else if c =? c_plus then (false, t) else (false, s)
  | [] => (false, [])
  end.

(* operator>>(istream&, integer): skip white space, sign, digits; (value, unread rest) *)
Definition scan_int (s : str) : option (Z * str) :=
  let s1 := drop_ws s in
  let '(neg, s2) := take_sign s1 in
  let '(ds, r) := take_digits s2 in
  match ds with
  | [] => None
  | _ => Some ((if neg then - dec_val ds else dec_val ds)%Z, r)
  end.

Definition all_space (s : str) : bool := forallb is_space s.

Definition int_min : Z := (- 2147483648)%Z.
Definition int_max : Z := 2147483647%Z.

(* tryConvertStringTo<int>: extraction must not fail (overflow sets failbit), then eof or only
   white space may remain *)
Definition conv_int (s : str) : option Z :=
  match scan_int s with
  | Some (z, r) => if (int_min <=? z)%Z && (z <=? int_max)%Z && all_space r then Some z else None
  | None => None
  end.

(* String::tryConvertToBool (after the fix): "true"/"false" in any case, else operator>>(bool)
   without boolalpha = a long that must be 0 or 1, and nothing may follow in the trimmed string *)
Definition conv_bool (s : str) : option bool :=
  let a := clean s in
  if str_eqb a s_true then Some true
  else if str_eqb a s_false then Some false
  else match scan_int a with
       | Some (z, []) => if (z =? 0)%Z then Some false else if (z =? 1)%Z then Some true else None
       | _ => None
       end.

(* ------------------------------------------------------------------ floating literal syntax *)
(* what operator>>(double) accepts in full: [sign] (digits+ [. digits*] | . digits+) [e [sign] digits+];
   the scanner below mirrors num_get's accumulation and the final strtod validity test *)
Definition scan_exp (s : str) : option str :=        (* after the mantissa: optional exponent; returns rest *)
  match s with
  | c :: t =>
      if (c =? c_e) || (c =? c_E) then
        let '(_, t1) := take_sign t in
        let '(ds, r) := take_digits t1 in
        match ds with [] => None | _ => Some r end   (* "1e", "1e+" : strtod rejects the accumulated text *)
      else Some s
  | [] => Some []
  end.

Definition scan_float (s : str) : option str :=      (* returns the unread rest after a valid literal *)
  let '(_, s1) := take_sign s in
  let '(ip, s2) := take_digits s1 in
  match s2 with
  | c :: t =>
      if c =? c_dot then
        let '(fp, s3) := take_digits t in
        match ip, fp with
        | [], [] => None                              (* "." *)
        | _, _ => scan_exp s3
        end
      else match ip with [] => None | _ => scan_exp s2 end
  | [] => match ip with [] => None | _ => Some [] end
  end.

Definition is_float_lit (s : str) : bool :=
  match scan_float s with Some [] => true | _ => false end.

(* ------------------------------------------------------------------ floating values *)
Inductive fval (F : Type) : Type :=
  | FNaN : fval F | FPInf : fval F | FNInf : fval F | FFin : F -> fval F.
Arguments FNaN {F}. Arguments FPInf {F}. Arguments FNInf {F}. Arguments FFin {F} _.

Section Conv.
(* libc as an oracle: F = the finite values of the floating type; [strto s] = Some x when strtod/strtof
   converts the literal s to the finite value x, None when it overflows to +-HUGE_VAL (operator>> then
   sets failbit); [fmt x] = snprintf(buf, fmt, x) with the default format of String(double)/String(float). *)
Variable F : Type.
Variable strto : str -> option F.
Variable fmt : F -> str.

(* String::tryConvertToDouble / tryConvertToFloat (after the fix) *)
Definition conv_float (s : str) : option (fval F) :=
  let a := clean s in
  if str_eqb a s_nan then Some FNaN
  else if str_eqb a s_inf || str_eqb a s_infinity
       || str_eqb a (c_plus :: s_inf) || str_eqb a (c_plus :: s_infinity) then Some FPInf
  else if str_eqb a (c_minus :: s_inf) || str_eqb a (c_minus :: s_infinity) then Some FNInf
  else if is_float_lit a then match strto a with Some x => Some (FFin x) | None => None end
  else None.

(* String::String(double) / String(float) *)
Definition print_float (x : fval F) : str :=
  match x with
  | FNaN => [78; 97; 78]            (* "NaN" *)
  | FPInf => [73; 110; 102]         (* "Inf" *)
  | FNInf => [45; 73; 110; 102]     (* "-Inf" *)
  | FFin y => fmt y
  end.
End Conv.

(* String(bool) and String(int) *)
Definition print_bool (b : bool) : str := if b then s_true else s_false.
Fixpoint print_pos_fuel (fuel : nat) (z : Z) (acc : str) : str :=
  match fuel with
  | O => acc
  | S k => let acc' := (Z.to_N (z mod 10) + 48) :: acc in
           if (z <? 10)%Z then acc' else print_pos_fuel k (z / 10)%Z acc'
  end.
Definition print_int (z : Z) : str :=                 (* "%d" *)
  if (z <? 0)%Z then c_minus :: print_pos_fuel 12 (- z) [] else print_pos_fuel 12 z [].

(* ------------------------------------------------------------------ unformatted streams *)
(* an istream over a string: unread characters and the eofbit (failbit = the operation returns None) *)
Record istream := mkS { s_rest : str; s_eof : bool }.
Definition is_nil (s : str) : bool := match s with [] => true | _ => false end.

Definition open_stream (s : str) : istream := mkS s false.

(* std::ws: skips white space, sets eofbit when it runs into the end *)
Definition skip_ws (st : istream) : istream :=
  let r := drop_ws (s_rest st) in mkS r (s_eof st || is_nil r).

Fixpoint take_token (s : str) : str * str :=
  match s with
  | c :: t => if is_space c then ([], s) else let '(k, r) := take_token t in (c :: k, r)
  | [] => ([], [])
  end.

(* readOneTokenUnformatted *)
Definition read_token (st : istream) : option (str * istream) :=
  if s_eof st then None else
  let st1 := skip_ws st in
  if s_eof st1 then None else
  let '(tok, r) := take_token (s_rest st1) in
  if is_nil tok then None else Some (tok, mkS r (is_nil r)).

(* values written without brackets: a tree whose inner nodes carry the separator the writer puts
   between their children (32 = " " for complex/Vec/Row/Vector/Array, 10 = endl between Mat rows) *)
Inductive tree (A : Type) : Type :=
  | Leaf : A -> tree A
  | Node : N -> list (tree A) -> tree A.
Arguments Leaf {A} _. Arguments Node {A} _ _.

Inductive shape : Type :=
  | SLeaf : shape
  | SNode : N -> list shape -> shape.

Section Unformatted.
Variable A : Type.
Variable print : A -> str.                 (* String(v) of a scalar *)
Variable parse : str -> option A.          (* token.tryConvertTo<T>(v) *)

Fixpoint join (sep : N) (l : list str) : str :=
  match l with
  | [] => []
  | [x] => x
  | x :: t => x ++ sep :: join sep t
  end.

(* writeUnformatted *)
Fixpoint write (t : tree A) : str :=
  match t with
  | Leaf x => print x
  | Node sep l => join sep (map write l)
  end.

Fixpoint shape_of (t : tree A) : shape :=
  match t with
  | Leaf _ => SLeaf
  | Node sep l => SNode sep (map shape_of l)
  end.

(* readUnformatted for the fixed-size types (scalar, complex, Vec, Row, Mat, ArrayView, VectorView):
   the children are read one after the other *)
Fixpoint read_fixed (sh : shape) (st : istream) : option (tree A * istream) :=
  match sh with
  | SLeaf => match read_token st with
             | Some (tok, st') => match parse tok with Some x => Some (Leaf x, st') | None => None end
             | None => None
             end
  | SNode sep l =>
      match (fix go (l : list shape) (st : istream) {struct l} : option (list (tree A) * istream) :=
               match l with
               | [] => Some ([], st)
               | sh1 :: l' => match read_fixed sh1 st with
                              | Some (t1, st1) => match go l' st1 with
                                                  | Some (ts, st2) => Some (t1 :: ts, st2)
                                                  | None => None
                                                  end
                              | None => None
                              end
               end) l st with
      | Some (ts, st') => Some (Node sep ts, st')
      | None => None
      end
  end.

(* readUnformatted(istream&, Array_<T>&) (also used by the resizable Vector_): clear; ws; then elements
   while not at eof; succeeds iff no element read failed *)
Fixpoint read_array_loop (fuel : nat) (sh : shape) (st : istream) : option (list (tree A)) :=
  if s_eof st then Some [] else
  match fuel with
  | O => None
  | S k => match read_fixed sh st with
           | Some (t, st') => match read_array_loop k sh st' with
                              | Some ts => Some (t :: ts)
                              | None => None
                              end
           | None => None
           end
  end.

Definition read_array (sh : shape) (s : str) : option (list (tree A)) :=
  read_array_loop (S (length s)) sh (skip_ws (open_stream s)).

(* writeUnformatted(ostream&, Array_<T>) *)
Definition write_array (l : list (tree A)) : str := join 32 (map write l).
End Unformatted.

(* ------------------------------------------------------------------ XML character data (TinyXML as used by Xml.cpp) *)
(* Bytes of element text and attribute values.  Writer: TiXmlBase::EncodeString (tinyxml.cpp); reader:
   TiXmlBase::GetEntity / GetChar / ReadText (tinyxmlparser.cpp) and the blank-text rule of
   TiXmlElement::ReadValue.  Input bytes are 7-bit (UTF-8 lead bytes in the INPUT are not modelled; numeric
   references above 127 are, through ConvertUTF32ToUTF8). *)
Definition c_amp : N := 38.
Definition c_hash : N := 35.
Definition c_x : N := 120.
Definition c_semi : N := 59.
Definition e_amp : str := [38; 97; 109; 112; 59].            (* "&amp;" *)
Definition e_lt : str := [38; 108; 116; 59].                 (* "&lt;" *)
Definition e_gt : str := [38; 103; 116; 59].                 (* "&gt;" *)
Definition e_quot : str := [38; 113; 117; 111; 116; 59].     (* "&quot;" *)
Definition e_apos : str := [38; 97; 112; 111; 115; 59].      (* "&apos;" *)

Definition hex_upper (d : N) : N := if d <? 10 then d + 48 else d + 55.      (* "%X" of one digit *)
(* one character through EncodeString: [cw] = condenseWhiteSpace, [kq] = keepQuotes *)
Definition enc1 (cw kq : bool) (c : N) : str :=
  if c =? 38 then e_amp
  else if c =? 60 then e_lt
  else if c =? 62 then e_gt
  else if (c =? 34) && negb kq then e_quot
  else if (c =? 39) && negb kq then e_apos
  else if (c <? 32) && (cw || negb (is_space c)) then [38; 35; 120; hex_upper (c / 16); hex_upper (c mod 16); 59]   (* "&#x%02X;" *)
  else [c].

(* EncodeString.  [pass] = inside the loop that copies an existing "&#x...;" through unchanged *)
Fixpoint xml_enc (cw kq pass : bool) (s : str) : str :=
  match s with
  | [] => []
  | c :: t =>
      if pass then
        match t with
        | [] => enc1 cw kq c
        | d :: _ => c :: xml_enc cw kq (negb (d =? c_semi)) t
        end
      else
        match t with
        | d1 :: d2 :: _ => if (c =? c_amp) && (d1 =? c_hash) && (d2 =? c_x) then c :: xml_enc cw kq true t
                           else enc1 cw kq c ++ xml_enc cw kq false t
        | _ => enc1 cw kq c ++ xml_enc cw kq false t
        end
  end.
Definition xml_encode (cw kq : bool) (s : str) : str := xml_enc cw kq false s.

Fixpoint split_at (ch : N) (s : str) : option (str * str) :=      (* strchr: text before the first ch, text after it *)
  match s with
  | [] => None
  | c :: t => if c =? ch then Some ([], t)
              else match split_at ch t with Some (a, b) => Some (c :: a, b) | None => None end
  end.

Definition hex_digit (c : N) : option N :=
  if (48 <=? c) && (c <=? 57) then Some (c - 48)
  else if (97 <=? c) && (c <=? 102) then Some (c - 87)
  else if (65 <=? c) && (c <=? 70) then Some (c - 55)
  else None.
Definition dec_digit (c : N) : option N := if (48 <=? c) && (c <=? 57) then Some (c - 48) else None.

(* the backward accumulation loops of GetEntity: digits from the last one down to the stop character;
   mult is an unsigned (32 bit), ucs an unsigned long *)
Fixpoint acc_digits (dig : N -> option N) (base stop : N) (rev_digits : str) (ucs mult : N) : option N :=
  match rev_digits with
  | [] => Some ucs
  | c :: t => if c =? stop then Some ucs
              else match dig c with
                   | Some d => acc_digits dig base stop t (ucs + mult * d) ((mult * base) mod 4294967296)
                   | None => None
                   end
  end.

(* ConvertUTF32ToUTF8 *)
Definition utf8_of (u : N) : str :=
  if u <? 128 then [u]
  else if u <? 2048 then [192 + u / 64; 128 + u mod 64]
  else if u <? 65536 then [224 + u / 4096; 128 + (u / 64) mod 64; 128 + u mod 64]
  else if u <? 2097152 then [240 + u / 262144; 128 + (u / 4096) mod 64; 128 + (u / 64) mod 64; 128 + u mod 64]
  else [].

Fixpoint prefix_eqb (pre s : str) : bool :=
  match pre, s with
  | [], _ => true
  | x :: p, y :: t => (x =? y) && prefix_eqb p t
  | _, [] => false
  end.
Fixpoint drop (n : nat) (s : str) : str := match n, s with O, _ => s | S k, _ :: t => drop k t | _, [] => [] end.

(* GetEntity on the text following the '&': (bytes produced, unread rest); None = parse error *)
Definition get_entity (utf8 : bool) (t : str) : option (str * str) :=
  let numeric (u : N) (rest : str) := Some (if utf8 then utf8_of u else [u mod 256], rest) in
  match t with
  | h :: c2 :: t2 =>
      if h =? c_hash then
        if c2 =? c_x then
          match t2 with
          | [] => None
          | _ => match split_at c_semi t2 with
                 | Some (ds, rest) => match acc_digits hex_digit 16 c_x (rev ds) 0 1 with
                                      | Some u => numeric u rest | None => None end
                 | None => None
                 end
          end
        else
          match split_at c_semi (c2 :: t2) with
          | Some (ds, rest) => match acc_digits dec_digit 10 c_hash (rev ds) 0 1 with
                               | Some u => numeric u rest | None => None end
          | None => None
          end
      else
        let s := c_amp :: t in
        if prefix_eqb e_amp s then Some ([38], drop 4 t)
        else if prefix_eqb e_lt s then Some ([60], drop 3 t)
        else if prefix_eqb e_gt s then Some ([62], drop 3 t)
        else if prefix_eqb e_quot s then Some ([34], drop 5 t)
        else if prefix_eqb e_apos s then Some ([39], drop 5 t)
        else Some ([], t)                              (* unrecognized: the '&' is dropped *)
  | _ =>
      let s := c_amp :: t in                           (* "&" or "&c" at the end of the input *)
      if prefix_eqb e_amp s then Some ([38], drop 4 t) else Some ([], t)
  end.

(* GetChar on 7-bit input *)
Definition get_char (utf8 : bool) (s : str) : option (str * str) :=
  match s with
  | [] => Some ([], [])
  | c :: t => if c =? c_amp then get_entity utf8 t else Some ([c], t)
  end.

(* ReadText reads up to the end tag: "<" for element text, the opening quote for an attribute value.  The
   input is the rest of the DOCUMENT (content followed by the delimiter and whatever comes after it), because
   GetEntity looks ahead for ';' without regard to the end of the value. *)
(* white space kept (attribute values always; element text when condensing is off) *)
Fixpoint read_keep (utf8 : bool) (stop : N) (fuel : nat) (s : str) : option str :=
  match s with
  | [] => Some []
  | c :: _ =>
      if c =? stop then Some [] else
      match fuel with
      | O => None
      | S k => match get_char utf8 s with
               | Some (v, rest) => match read_keep utf8 stop k rest with Some r => Some (v ++ r) | None => None end
               | None => None
               end
      end
  end.

(* with condensing: leading white space skipped, runs become one blank, trailing dropped; decoded references are
   never treated as white space *)
Fixpoint read_condense (utf8 : bool) (stop : N) (fuel : nat) (pending : bool) (s : str) : option str :=
  match s with
  | [] => Some []
  | c :: t =>
      if c =? stop then Some [] else
      match fuel with
      | O => None
      | S k => if is_space c then read_condense utf8 stop k true t
               else match get_char utf8 s with
                    | Some (v, rest) => match read_condense utf8 stop k false rest with
                                        | Some r => Some ((if pending then [32] else []) ++ v ++ r)
                                        | None => None
                                        end
                    | None => None
                    end
      end
  end.

(* element text as getValue() sees it ([doc] = content followed by "</tag>..."): blank text nodes are dropped
   (TiXmlElement::ReadValue) *)
Definition xml_read_text (cw utf8 : bool) (doc : str) : option str :=
  match (if cw then read_condense utf8 60 (S (length doc)) false (drop_ws doc) else read_keep utf8 60 (S (length doc)) doc) with
  | Some r => Some (if all_space r then [] else r)
  | None => None
  end.
(* attribute value ([doc] = content followed by the closing quote [q] and the rest of the document) *)
Definition xml_read_attr (utf8 : bool) (q : N) (doc : str) : option str := read_keep utf8 q (S (length doc)) doc.
