(** C32 model (hand-written, executable): text -> value conversions of SimTK::String
    (SimTKcommon/src/String.cpp, String.h: trimWhiteSpace, toLower, tryConvertToBool/Float/Double after
    the "whole string must be consumed" fix, the generic tryConvertStringTo<int>), String(x) for the
    special floating values, and the unformatted write/read of Serialize.h / Array.h / BigMatrix.h
    (space/newline separated tokens, istream eof/fail flags).

    Characters are their codes in [N] (C locale, 7-bit ASCII); strings are [list N].
    libc number formatting/parsing (snprintf "%.17g"/"%.9g", strtod behind operator>>) is NOT modelled:
    it enters as the Section variables of [Conv] below.  No proofs in this file. *)
From Coq Require Import NArith ZArith List Bool.
Import ListNotations.
Local Open Scope N_scope.

Definition str := list N.

(* ------------------------------------------------------------------ characters *)
(* std::isspace in the C locale: space, \t \n \v \f \r *)
Definition is_space (c : N) : bool := (c =? 32) || ((9 <=? c) && (c <=? 13)).
Definition is_digit (c : N) : bool := (48 <=? c) && (c <=? 57).
(* std::tolower in the C locale *)
Definition lower (c : N) : N := if (65 <=? c) && (c <=? 90) then c + 32 else c.
Definition to_lower (s : str) : str := map lower s.

Fixpoint drop_ws (s : str) : str :=
  match s with c :: t => if is_space c then drop_ws t else s | [] => [] end.
(* String::trimWhiteSpace *)
Definition trim (s : str) : str := rev (drop_ws (rev (drop_ws s))).
(* cleanUp() of String.cpp *)
Definition clean (s : str) : str := to_lower (trim s).

Fixpoint str_eqb (a b : str) : bool :=
  match a, b with
  | [], [] => true
  | x :: a', y :: b' => (x =? y) && str_eqb a' b'
  | _, _ => false
  end.

(* literal strings used by the code *)
Definition s_true : str := [116; 114; 117; 101].
Definition s_false : str := [102; 97; 108; 115; 101].
Definition s_nan : str := [110; 97; 110].
Definition s_inf : str := [105; 110; 102].
Definition s_infinity : str := [105; 110; 102; 105; 110; 105; 116; 121].
Definition c_plus : N := 43.
Definition c_minus : N := 45.
Definition c_dot : N := 46.
Definition c_e : N := 101.
Definition c_E : N := 69.

(* ------------------------------------------------------------------ integer scanning (num_get) *)
Fixpoint take_digits (s : str) : str * str :=
  match s with
  | c :: t => if is_digit c then let '(d, r) := take_digits t in (c :: d, r) else ([], s)
  | [] => ([], [])
  end.

Definition digit_val (c : N) : Z := Z.of_N (c - 48).
Definition dec_val (ds : str) : Z := fold_left (fun a c => (10 * a + digit_val c)%Z) ds 0%Z.

(* optional sign: (negative?, rest) *)
Definition take_sign (s : str) : bool * str :=
  match s with
  | c :: t => if c =? c_minus then (true, t) else if c =? c_plus then (false, t) else (false, s)
  | [] => (false, [])
  end.

(* operator>>(istream&, integer): skip white space, sign, digits; (value, unread rest) *)
Definition scan_int (s : str) : option (Z * str) :=
  let s1 := drop_ws s in
  let '(neg, s2) := take_sign s1 in
  let '(ds, r) := take_digits s2 in
  match ds with
  | [] => None
  | _ => Some ((if neg then - dec_val ds else dec_val ds)%Z, r)
  end.

Definition all_space (s : str) : bool := forallb is_space s.

Definition int_min : Z := (- 2147483648)%Z.
Definition int_max : Z := 2147483647%Z.

(* tryConvertStringTo<int>: extraction must not fail (overflow sets failbit), then eof or only
   white space may remain *)
Definition conv_int (s : str) : option Z :=
  match scan_int s with
  | Some (z, r) => if (int_min <=? z)%Z && (z <=? int_max)%Z && all_space r then Some z else None
  | None => None
  end.

(* String::tryConvertToBool (after the fix): "true"/"false" in any case, else operator>>(bool)
   without boolalpha = a long that must be 0 or 1, and nothing may follow in the trimmed string *)
Definition conv_bool (s : str) : option bool :=
  let a := clean s in
  if str_eqb a s_true then Some true
  else if str_eqb a s_false then Some false
  else match scan_int a with
       | Some (z, []) => if (z =? 0)%Z then Some false else if (z =? 1)%Z then Some true else None
       | _ => None
       end.

(* ------------------------------------------------------------------ floating literal syntax *)
(* what operator>>(double) accepts in full: [sign] (digits+ [. digits*] | . digits+) [e [sign] digits+];
   the scanner below mirrors num_get's accumulation and the final strtod validity test *)
Definition scan_exp (s : str) : option str :=        (* after the mantissa: optional exponent; returns rest *)
  match s with
  | c :: t =>
      if (c =? c_e) || (c =? c_E) then
        let '(_, t1) := take_sign t in
        let '(ds, r) := take_digits t1 in
        match ds with [] => None | _ => Some r end   (* "1e", "1e+" : strtod rejects the accumulated text *)
      else Some s
  | [] => Some []
  end.

Definition scan_float (s : str) : option str :=      (* returns the unread rest after a valid literal *)
  let '(_, s1) := take_sign s in
  let '(ip, s2) := take_digits s1 in
  match s2 with
  | c :: t =>
      if c =? c_dot then
        let '(fp, s3) := take_digits t in
        match ip, fp with
        | [], [] => None                              (* "." *)
        | _, _ => scan_exp s3
        end
      else match ip with [] => None | _ => scan_exp s2 end
  | [] => match ip with [] => None | _ => Some [] end
  end.

Definition is_float_lit (s : str) : bool :=
  match scan_float s with Some [] => true | _ => false end.

(* ------------------------------------------------------------------ floating values *)
Inductive fval (F : Type) : Type :=
  | FNaN : fval F | FPInf : fval F | FNInf : fval F | FFin : F -> fval F.
Arguments FNaN {F}. Arguments FPInf {F}. Arguments FNInf {F}. Arguments FFin {F} _.

Section Conv.
(* libc as an oracle: F = the finite values of the floating type; [strto s] = Some x when strtod/strtof
   converts the literal s to the finite value x, None when it overflows to +-HUGE_VAL (operator>> then
   sets failbit); [fmt x] = snprintf(buf, fmt, x) with the default format of String(double)/String(float). *)
Variable F : Type.
Variable strto : str -> option F.
Variable fmt : F -> str.

(* String::tryConvertToDouble / tryConvertToFloat (after the fix) *)
Definition conv_float (s : str) : option (fval F) :=
  let a := clean s in
  if str_eqb a s_nan then Some FNaN
  else if str_eqb a s_inf || str_eqb a s_infinity
       || str_eqb a (c_plus :: s_inf) || str_eqb a (c_plus :: s_infinity) then Some FPInf
  else if str_eqb a (c_minus :: s_inf) || str_eqb a (c_minus :: s_infinity) then Some FNInf
  else if is_float_lit a then match strto a with Some x => Some (FFin x) | None => None end
  else None.

(* String::String(double) / String(float) *)
Definition print_float (x : fval F) : str :=
  match x with
  | FNaN => [78; 97; 78]            (* "NaN" *)
  | FPInf => [73; 110; 102]         (* "Inf" *)
  | FNInf => [45; 73; 110; 102]     (* "-Inf" *)
  | FFin y => fmt y
  end.
End Conv.

(* String(bool) and String(int) *)
Definition print_bool (b : bool) : str := if b then s_true else s_false.
Fixpoint print_pos_fuel (fuel : nat) (z : Z) (acc : str) : str :=
  match fuel with
  | O => acc
  | S k => let acc' := (Z.to_N (z mod 10) + 48) :: acc in
           if (z <? 10)%Z then acc' else print_pos_fuel k (z / 10)%Z acc'
  end.
Definition print_int (z : Z) : str :=                 (* "%d" *)
  if (z <? 0)%Z then c_minus :: print_pos_fuel 12 (- z) [] else print_pos_fuel 12 z [].

(* ------------------------------------------------------------------ unformatted streams *)
(* an istream over a string: unread characters and the eofbit (failbit = the operation returns None) *)
Record istream := mkS { s_rest : str; s_eof : bool }.
Definition is_nil (s : str) : bool := match s with [] => true | _ => false end.

Definition open_stream (s : str) : istream := mkS s false.

(* std::ws: skips white space, sets eofbit when it runs into the end *)
Definition skip_ws (st : istream) : istream :=
  let r := drop_ws (s_rest st) in mkS r (s_eof st || is_nil r).

Fixpoint take_token (s : str) : str * str :=
  match s with
  | c :: t => if is_space c then ([], s) else let '(k, r) := take_token t in (c :: k, r)
  | [] => ([], [])
  end.

(* readOneTokenUnformatted *)
Definition read_token (st : istream) : option (str * istream) :=
  if s_eof st then None else
  let st1 := skip_ws st in
  if s_eof st1 then None else
  let '(tok, r) := take_token (s_rest st1) in
  if is_nil tok then None else Some (tok, mkS r (is_nil r)).

(* values written without brackets: a tree whose inner nodes carry the separator the writer puts
   between their children (32 = " " for complex/Vec/Row/Vector/Array, 10 = endl between Mat rows) *)
Inductive tree (A : Type) : Type :=
  | Leaf : A -> tree A
  | Node : N -> list (tree A) -> tree A.
Arguments Leaf {A} _. Arguments Node {A} _ _.

Inductive shape : Type :=
  | SLeaf : shape
  | SNode : N -> list shape -> shape.

Section Unformatted.
Variable A : Type.
Variable print : A -> str.                 (* String(v) of a scalar *)
Variable parse : str -> option A.          (* token.tryConvertTo<T>(v) *)

Fixpoint join (sep : N) (l : list str) : str :=
  match l with
  | [] => []
  | [x] => x
  | x :: t => x ++ sep :: join sep t
  end.

(* writeUnformatted *)
Fixpoint write (t : tree A) : str :=
  match t with
  | Leaf x => print x
  | Node sep l => join sep (map write l)
  end.

Fixpoint shape_of (t : tree A) : shape :=
  match t with
  | Leaf _ => SLeaf
  | Node sep l => SNode sep (map shape_of l)
  end.

(* readUnformatted for the fixed-size types (scalar, complex, Vec, Row, Mat, ArrayView, VectorView):
   the children are read one after the other *)
Fixpoint read_fixed (sh : shape) (st : istream) : option (tree A * istream) :=
  match sh with
  | SLeaf => match read_token st with
             | Some (tok, st') => match parse tok with Some x => Some (Leaf x, st') | None => None end
             | None => None
             end
  | SNode sep l =>
      match (fix go (l : list shape) (st : istream) {struct l} : option (list (tree A) * istream) :=
               match l with
               | [] => Some ([], st)
               | sh1 :: l' => match read_fixed sh1 st with
                              | Some (t1, st1) => match go l' st1 with
                                                  | Some (ts, st2) => Some (t1 :: ts, st2)
                                                  | None => None
                                                  end
                              | None => None
                              end
               end) l st with
      | Some (ts, st') => Some (Node sep ts, st')
      | None => None
      end
  end.

(* readUnformatted(istream&, Array_<T>&) (also used by the resizable Vector_): clear; ws; then elements
   while not at eof; succeeds iff no element read failed *)
Fixpoint read_array_loop (fuel : nat) (sh : shape) (st : istream) : option (list (tree A)) :=
  if s_eof st then Some [] else
  match fuel with
  | O => None
  | S k => match read_fixed sh st with
           | Some (t, st') => match read_array_loop k sh st' with
                              | Some ts => Some (t :: ts)
                              | None => None
                              end
           | None => None
           end
  end.

Definition read_array (sh : shape) (s : str) : option (list (tree A)) :=
  read_array_loop (S (length s)) sh (skip_ws (open_stream s)).

(* writeUnformatted(ostream&, Array_<T>) *)
Definition write_array (l : list (tree A)) : str := join 32 (map write l).
End Unformatted.
