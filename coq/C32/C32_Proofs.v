(** C32 proofs: acceptance grammars of String::tryConvertTo<int/bool/float/double>, String(x) round trips for
    the special floating values and (given libc) all values, unformatted write/read round trips. *)
From Coq Require Import NArith ZArith List Bool Lia.
Require Import C32_Model.
Import ListNotations.
Local Open Scope N_scope.

(* ------------------------------------------------------------------ basic facts *)
Lemma str_eqb_eq a : forall b, str_eqb a b = true <-> a = b.
Proof.
  induction a as [|x a IH]; intros [|y b]; cbn [str_eqb]; split; intros H; try discriminate; try reflexivity.
  - apply andb_true_iff in H. destruct H as [H1 H2]. apply N.eqb_eq in H1. apply IH in H2. now subst.
  - injection H as -> ->. apply andb_true_iff. split; [apply N.eqb_refl | now apply IH].
Qed.

Lemma all_space_app a b : all_space (a ++ b) = all_space a && all_space b.
Proof. apply forallb_app. Qed.

Lemma drop_ws_all l : all_space l = true -> forall m, drop_ws (l ++ m) = drop_ws m.
Proof.
  induction l as [|c l IH]; intros H m; [reflexivity|].
  cbn [all_space forallb] in H. apply andb_true_iff in H. destruct H as [Hc Hl].
  cbn [app drop_ws]. rewrite Hc. now apply IH.
Qed.

Lemma drop_ws_head c t : is_space c = false -> drop_ws (c :: t) = c :: t.
Proof. intros H. cbn [drop_ws]. now rewrite H. Qed.

Lemma drop_ws_split s : exists l, s = l ++ drop_ws s /\ all_space l = true.
Proof.
  induction s as [|c s IH]; [exists []; split; reflexivity|].
  cbn [drop_ws]. destruct (is_space c) eqn:E.
  - destruct IH as (l & H1 & H2). exists (c :: l). split; [cbn [app]; now f_equal|].
    cbn [all_space forallb]. now rewrite E.
  - exists []. split; reflexivity.
Qed.

Lemma drop_ws_first s c t : drop_ws s = c :: t -> is_space c = false.
Proof.
  induction s as [|d s IH]; cbn [drop_ws]; [discriminate|].
  destruct (is_space d) eqn:E; [assumption|]. intros H. injection H as -> _. assumption.
Qed.

Lemma all_space_rev l : all_space (rev l) = all_space l.
Proof.
  induction l as [|c l IH]; [reflexivity|]. cbn [rev]. rewrite all_space_app, IH.
  cbn [all_space forallb]. rewrite andb_true_r. apply andb_comm.
Qed.

(* String::trimWhiteSpace: removes exactly the surrounding white space *)
Lemma trim_decompose s :
  exists l r, s = l ++ trim s ++ r /\ all_space l = true /\ all_space r = true.
Proof.
  destruct (drop_ws_split s) as (l & H1 & H2).
  destruct (drop_ws_split (rev (drop_ws s))) as (r' & H3 & H4).
  exists l, (rev r'). repeat split; [|assumption | now rewrite all_space_rev].
  unfold trim. rewrite <- rev_app_distr, <- H3, rev_involutive. exact H1.
Qed.

Lemma trim_ends s c t : trim s = c :: t -> is_space c = false /\ is_space (last (c :: t) c) = false.
Proof.
  unfold trim. intros H. split.
  - (* first char: drop_ws s starts with it *)
    assert (E : rev (c :: t) = drop_ws (rev (drop_ws s))) by (rewrite <- H; now rewrite rev_involutive).
    destruct (drop_ws_split (rev (drop_ws s))) as (r' & H3 & H4).
    rewrite <- E in H3. apply (f_equal (@rev N)) in H3. rewrite rev_involutive, rev_app_distr, rev_involutive in H3.
    cbn [app] in H3. eapply drop_ws_first. exact H3.
  - assert (E : rev (c :: t) = drop_ws (rev (drop_ws s))) by (rewrite <- H; now rewrite rev_involutive).
    destruct (rev (c :: t)) as [|d u] eqn:R.
    + apply (f_equal (@length N)) in R. rewrite rev_length in R. discriminate.
    + assert (L : last (c :: t) c = d).
      { apply (f_equal (@rev N)) in R. rewrite rev_involutive in R. rewrite R. cbn [rev]. apply last_last. }
      rewrite L. symmetry in E. eapply drop_ws_first. exact E.
Qed.

Lemma trim_of_padded l m r c t :
  m = c :: t -> is_space c = false -> is_space (last m c) = false ->
  all_space l = true -> all_space r = true -> trim (l ++ m ++ r) = m.
Proof.
  intros Hm Hc Hl Sl Sr. unfold trim. rewrite drop_ws_all by assumption.
  rewrite Hm at 1. cbn [app]. rewrite drop_ws_head by assumption.
  change (c :: t ++ r) with ((c :: t) ++ r). rewrite <- Hm.
  rewrite rev_app_distr. rewrite drop_ws_all by now rewrite all_space_rev.
  destruct (rev m) as [|d u] eqn:R.
  - apply (f_equal (@length N)) in R. rewrite rev_length, Hm in R. discriminate.
  - assert (L : last m c = d).
    { apply (f_equal (@rev N)) in R. rewrite rev_involutive in R. rewrite R. cbn [rev]. apply last_last. }
    rewrite drop_ws_head by now rewrite <- L. rewrite <- R. apply rev_involutive.
Qed.
(* ------------------------------------------------------------------ digits and signs *)
Definition all_digits (s : str) : bool := forallb is_digit s.
Definition is_sign (sg : str) : Prop := sg = [] \/ sg = [c_plus] \/ sg = [c_minus].
Definition signed_val (sg ds : str) : Z := if str_eqb sg [c_minus] then (- dec_val ds)%Z else dec_val ds.

Lemma digit_not_space c : is_digit c = true -> is_space c = false.
Proof.
  unfold is_digit, is_space. intros H. apply andb_true_iff in H. destruct H as [H1 H2].
  apply N.leb_le in H1. apply N.leb_le in H2.
  destruct (N.eqb_spec c 32); [lia|]. destruct (N.leb_spec 9 c), (N.leb_spec c 13); cbn; try reflexivity; lia.
Qed.
Lemma space_not_digit c : is_space c = true -> is_digit c = false.
Proof. intros H. destruct (is_digit c) eqn:E; [|reflexivity]. apply digit_not_space in E. congruence. Qed.
Lemma digit_not_sign c : is_digit c = true -> (c =? c_minus) = false /\ (c =? c_plus) = false.
Proof.
  unfold is_digit, c_minus, c_plus. intros H. apply andb_true_iff in H. destruct H as [H1 H2].
  apply N.leb_le in H1. apply N.leb_le in H2. split; apply N.eqb_neq; lia.
Qed.

Lemma take_digits_spec s : forall ds r, take_digits s = (ds, r) ->
  s = ds ++ r /\ all_digits ds = true /\ (match r with c :: _ => is_digit c = false | [] => True end).
Proof.
  induction s as [|c s IH]; intros ds r H; cbn [take_digits] in H.
  - injection H as <- <-. repeat split.
  - destruct (is_digit c) eqn:E.
    + destruct (take_digits s) as [d r'] eqn:T. injection H as <- <-.
      destruct (IH d r' eq_refl) as (H1 & H2 & H3). repeat split; [cbn [app]; now f_equal | | assumption].
      cbn [all_digits forallb]. now rewrite E.
    + injection H as <- <-. repeat split. assumption.
Qed.

Lemma take_digits_app ds r : all_digits ds = true ->
  (match r with c :: _ => is_digit c = false | [] => True end) -> take_digits (ds ++ r) = (ds, r).
Proof.
  induction ds as [|c ds IH]; intros H Hr.
  - cbn [app]. destruct r as [|c r]; [reflexivity|]. cbn [take_digits]. now rewrite Hr.
  - cbn [all_digits forallb] in H. apply andb_true_iff in H. destruct H as [Hc Hd].
    cbn [app take_digits]. rewrite Hc. now rewrite IH.
Qed.

Lemma take_sign_spec s : forall neg r, take_sign s = (neg, r) ->
  exists sg, s = sg ++ r /\ is_sign sg /\ neg = str_eqb sg [c_minus] /\
             (sg = [] -> match r with c :: _ => (c =? c_minus) = false /\ (c =? c_plus) = false | [] => True end).
Proof.
  intros neg r H. destruct s as [|c t]; cbn [take_sign] in H.
  - injection H as <- <-. exists []. split; [reflexivity|]. split; [now left|]. split; [reflexivity | trivial].
  - destruct (N.eqb_spec c c_minus) as [->|N1].
    + injection H as <- <-. exists [c_minus]. split; [reflexivity|]. split; [right; now right|].
      split; [reflexivity | discriminate].
    + destruct (N.eqb_spec c c_plus) as [->|N2].
      * injection H as <- <-. exists [c_plus]. split; [reflexivity|]. split; [right; now left|].
        split; [reflexivity | discriminate].
      * injection H as <- <-. exists []. split; [reflexivity|]. split; [now left|]. split; [reflexivity|].
        intros _. split; now apply N.eqb_neq.
Qed.

Lemma take_sign_app sg r : is_sign sg ->
  (sg = [] -> match r with c :: _ => (c =? c_minus) = false /\ (c =? c_plus) = false | [] => True end) ->
  take_sign (sg ++ r) = (str_eqb sg [c_minus], r).
Proof.
  intros [->|[->| ->]] Hr; [|reflexivity | reflexivity].
  cbn [app]. destruct r as [|c r]; [reflexivity|]. destruct (Hr eq_refl) as [H1 H2].
  cbn [take_sign]. now rewrite H1, H2.
Qed.

(* ------------------------------------------------------------------ int *)
(* s denotes the int z: optional white space, optional sign, decimal digits, optional white space,
   value representable *)
Definition int_denotes (s : str) (z : Z) : Prop :=
  exists l sg ds r, s = l ++ sg ++ ds ++ r /\ all_space l = true /\ all_space r = true /\
    is_sign sg /\ ds <> [] /\ all_digits ds = true /\ z = signed_val sg ds /\
    (int_min <= z <= int_max)%Z.

Lemma all_space_head_not_digit r : all_space r = true -> match r with c :: _ => is_digit c = false | [] => True end.
Proof.
  destruct r as [|c r]; [trivial|]. cbn [all_space forallb]. intros H. apply andb_true_iff in H.
  apply space_not_digit. tauto.
Qed.

Lemma scan_int_spec s z r : scan_int s = Some (z, r) <->
  exists l sg ds, s = l ++ sg ++ ds ++ r /\ all_space l = true /\ is_sign sg /\ ds <> [] /\ all_digits ds = true /\
    z = signed_val sg ds /\ (match r with c :: _ => is_digit c = false | [] => True end).
Proof.
  unfold scan_int. split.
  - destruct (drop_ws_split s) as (l & Hl & Sl).
    destruct (take_sign (drop_ws s)) as [neg s2] eqn:TS.
    destruct (take_digits s2) as [ds r'] eqn:TD.
    destruct ds as [|d ds]; [discriminate|]. intros H. injection H as <- <-.
    destruct (take_sign_spec _ _ _ TS) as (sg & E1 & Hsg & Hneg & _).
    destruct (take_digits_spec _ _ _ TD) as (E2 & Hd & Hr).
    exists l, sg, (d :: ds). repeat split; try assumption; try discriminate.
    + rewrite Hl at 1. now rewrite E1, E2.
    + unfold signed_val. now rewrite <- Hneg.
  - intros (l & sg & ds & E & Sl & Hsg & Hne & Hd & Hz & Hr). subst s.
    rewrite drop_ws_all by assumption.
    assert (Hfirst : exists c t, sg ++ ds ++ r = c :: t /\ is_space c = false).
    { destruct ds as [|d ds]; [congruence|]. cbn [all_digits forallb] in Hd. apply andb_true_iff in Hd.
      destruct Hsg as [->|[->| ->]]; cbn [app]; eexists; eexists; split; try reflexivity.
      now apply digit_not_space. } 
    destruct Hfirst as (c & t & E & Hc). rewrite E, drop_ws_head by assumption. rewrite <- E.
    rewrite take_sign_app; [|assumption|].
    + rewrite take_digits_app by assumption. destruct ds; [congruence|]. subst z. reflexivity.
    + intros ->. destruct ds as [|d ds]; [congruence|]. cbn [app].
      cbn [all_digits forallb] in Hd. apply andb_true_iff in Hd. apply digit_not_sign. tauto.
Qed.

(* tryConvertTo<int> succeeds exactly on the strings that denote an int, and yields that int *)
Lemma int_accepts_iff_denotes s z : conv_int s = Some z <-> int_denotes s z.
Proof.
  unfold conv_int, int_denotes. split.
  - destruct (scan_int s) as [[z' r]|] eqn:SC; [|discriminate].
    destruct ((int_min <=? z')%Z && (z' <=? int_max)%Z && all_space r) eqn:C; [|discriminate].
    intros H. injection H as <-. apply andb_true_iff in C. destruct C as [C Sr].
    apply andb_true_iff in C. destruct C as [C1 C2]. apply Z.leb_le in C1. apply Z.leb_le in C2.
    apply scan_int_spec in SC. destruct SC as (l & sg & ds & E & Sl & Hsg & Hne & Hd & Hz & _).
    exists l, sg, ds, r. repeat split; assumption.
  - intros (l & sg & ds & r & E & Sl & Sr & Hsg & Hne & Hd & Hz & R1 & R2).
    assert (SC : scan_int s = Some (z, r)).
    { apply scan_int_spec. exists l, sg, ds. repeat split; try assumption. now apply all_space_head_not_digit. }
    rewrite SC. apply Z.leb_le in R1. apply Z.leb_le in R2. now rewrite R1, R2, Sr.
Qed.
(* ------------------------------------------------------------------ lower case *)
Lemma lower_inv c d : lower c = d -> (d < 97 \/ 122 < d) -> c = d.
Proof.
  unfold lower. destruct (N.leb_spec 65 c), (N.leb_spec c 90); cbn [andb]; intros; lia.
Qed.
Lemma lower_id c : (c < 65 \/ 90 < c) -> lower c = c.
Proof. unfold lower. destruct (N.leb_spec 65 c), (N.leb_spec c 90); cbn [andb]; intros; lia. Qed.

Lemma to_lower_inv m : forall a, to_lower m = a -> (forall c, In c a -> c < 97 \/ 122 < c) -> m = a.
Proof.
  induction m as [|c m IH]; intros [|d a] H Ha; try discriminate; [reflexivity|].
  cbn [to_lower map] in H. injection H as H1 H2. f_equal.
  - apply lower_inv; [assumption | apply Ha; now left].
  - apply IH; [assumption | intros x Hx; apply Ha; now right].
Qed.

Lemma space_code c : is_space c = true -> c = 32 \/ (9 <= c <= 13).
Proof.
  unfold is_space. destruct (N.eqb_spec c 32); [now left|]. cbn [orb]. intros H.
  apply andb_true_iff in H. destruct H as [H1 H2]. apply N.leb_le in H1. apply N.leb_le in H2. right. lia.
Qed.
Lemma digit_code c : is_digit c = true -> 48 <= c <= 57.
Proof. unfold is_digit. intros H. apply andb_true_iff in H. destruct H as [H1 H2]. apply N.leb_le in H1. apply N.leb_le in H2. lia. Qed.

Lemma lower_space c : is_space (lower c) = is_space c.
Proof.
  unfold lower. destruct (N.leb_spec 65 c), (N.leb_spec c 90); cbn [andb]; try reflexivity.
  unfold is_space. destruct (N.eqb_spec (c + 32) 32), (N.eqb_spec c 32); try lia.
  cbn [orb]. destruct (N.leb_spec 9 (c + 32)), (N.leb_spec (c + 32) 13), (N.leb_spec 9 c), (N.leb_spec c 13); cbn [andb]; try reflexivity; lia.
Qed.

Lemma signdigits_low sg ds : is_sign sg -> all_digits ds = true -> forall c, In c (sg ++ ds) -> c < 97 \/ 122 < c.
Proof.
  intros Hsg Hd c Hc. apply in_app_or in Hc. destruct Hc as [Hc|Hc].
  - destruct Hsg as [->|[->| ->]]; cbn in Hc; unfold c_plus, c_minus in *; intuition lia.
  - unfold all_digits in Hd. rewrite forallb_forall in Hd. apply Hd, digit_code in Hc. lia.
Qed.

Lemma to_lower_signdigits sg ds : is_sign sg -> all_digits ds = true -> to_lower (sg ++ ds) = sg ++ ds.
Proof.
  intros Hsg Hd. unfold to_lower. rewrite <- (map_id (sg ++ ds)) at 2. apply map_ext_in.
  intros c Hc. apply lower_id. apply in_app_or in Hc. destruct Hc as [Hc|Hc].
  - destruct Hsg as [->|[->| ->]]; cbn in Hc; unfold c_plus, c_minus in *; intuition lia.
  - unfold all_digits in Hd. rewrite forallb_forall in Hd. apply Hd, digit_code in Hc. lia.
Qed.

Lemma last_app_nonempty (a b : str) d : b <> [] -> last (a ++ b) d = last b d.
Proof.
  intros Hb. induction a as [|x a IH]; [reflexivity|]. cbn [app]. 
  destruct (a ++ b) as [|n l] eqn:E.
  - exfalso. destruct a, b; try discriminate; congruence.
  - rewrite <- IH. reflexivity.
Qed.

Lemma last_digits ds d : ds <> [] -> all_digits ds = true -> is_digit (last ds d) = true.
Proof.
  induction ds as [|c ds IH]; [congruence|]. intros _ H. cbn [all_digits forallb] in H.
  apply andb_true_iff in H. destruct H as [Hc Hd]. destruct ds as [|c2 ds]; [exact Hc|].
  change (last (c :: c2 :: ds) d) with (last (c2 :: ds) d). apply IH; [discriminate | exact Hd].
Qed.

(* a nonempty sign+digits string starts and ends with a non-space character *)
Lemma signdigits_ends sg ds : is_sign sg -> ds <> [] -> all_digits ds = true ->
  exists c t, sg ++ ds = c :: t /\ is_space c = false /\ is_space (last (sg ++ ds) c) = false.
Proof.
  intros Hsg Hne Hd.
  assert (L : forall d, is_space (last (sg ++ ds) d) = false).
  { intros d. rewrite last_app_nonempty by assumption. apply digit_not_space. now apply last_digits. }
  destruct ds as [|d ds]; [congruence|].
  assert (Hd0 : is_digit d = true) by (cbn [all_digits forallb] in Hd; apply andb_true_iff in Hd; tauto).
  destruct Hsg as [->|[->| ->]]; cbn [app] in *; eexists; eexists; (split; [reflexivity|]); split; try apply L;
    try reflexivity. now apply digit_not_space.
Qed.

(* ------------------------------------------------------------------ bool *)
Definition bool_denotes (s : str) (b : bool) : Prop :=
  exists l m r, s = l ++ m ++ r /\ all_space l = true /\ all_space r = true /\
    ((to_lower m = s_true /\ b = true) \/ (to_lower m = s_false /\ b = false) \/
     (exists sg ds, m = sg ++ ds /\ is_sign sg /\ ds <> [] /\ all_digits ds = true /\
                    signed_val sg ds = (if b then 1 else 0)%Z)).

Lemma word_ends (m w : str) : to_lower m = w -> w <> [] -> (forall c, In c w -> is_space c = false) ->
  exists c t, m = c :: t /\ is_space c = false /\ is_space (last m c) = false.
Proof.
  intros H Hw Hns.
  assert (A : forall c, In c m -> is_space c = false).
  { intros c Hc. rewrite <- lower_space. apply Hns. rewrite <- H. unfold to_lower. now apply in_map. }
  destruct m as [|c t]; [cbn in H; congruence|]. exists c, t. split; [reflexivity|]. split.
  - apply A. now left.
  - apply A. destruct (exists_last (l := c :: t)) as (u & z & E); [discriminate|].
    rewrite E. rewrite last_last. apply in_or_app. right. now left.
Qed.

Lemma bool_accepts_iff_denotes s b : conv_bool s = Some b <-> bool_denotes s b.
Proof.
  unfold conv_bool, bool_denotes, clean. split.
  - destruct (trim_decompose s) as (l & r & E & Sl & Sr). intros H.
    exists l, (trim s), r. split; [exact E|]. split; [exact Sl|]. split; [exact Sr|].
    destruct (str_eqb (to_lower (trim s)) s_true) eqn:T.
    { injection H as <-. left. split; [now apply str_eqb_eq | reflexivity]. }
    destruct (str_eqb (to_lower (trim s)) s_false) eqn:Fa.
    { injection H as <-. right. left. split; [now apply str_eqb_eq | reflexivity]. }
    right. right.
    destruct (scan_int (to_lower (trim s))) as [[z [|c0 r0]]|] eqn:SC; try discriminate.
    apply scan_int_spec in SC. destruct SC as (l' & sg & ds & E' & Sl' & Hsg & Hne & Hd & Hz & _).
    rewrite app_nil_r in E'.
    assert (Hl' : l' = []).
    { destruct l' as [|c l']; [reflexivity|]. exfalso.
      cbn [all_space forallb] in Sl'. apply andb_true_iff in Sl'. destruct Sl' as [Sc _].
      destruct (trim s) as [|c1 t1] eqn:TR; [discriminate|].
      cbn [to_lower map app] in E'. injection E' as E1 _.
      destruct (trim_ends s c1 t1 TR) as [Hns _]. rewrite <- lower_space, E1 in Hns. congruence. }
    subst l'. cbn [app] in E'.
    exists sg, ds. split; [apply to_lower_inv; [exact E' | now apply signdigits_low]|].
    split; [exact Hsg|]. split; [exact Hne|]. split; [exact Hd|].
    rewrite <- Hz. destruct (Z.eqb_spec z 0) as [->|N0].
    { injection H as <-. reflexivity. }
    destruct (Z.eqb_spec z 1) as [->|N1]; [|discriminate]. injection H as <-. reflexivity.
  - intros (l & m & r & E & Sl & Sr & D). subst s.
    assert (ENDS : exists c t, m = c :: t /\ is_space c = false /\ is_space (last m c) = false).
    { destruct D as [[D _]|[[D _]|(sg & ds & -> & Hsg & Hne & Hd & _)]].
      - eapply word_ends; [exact D | discriminate|]. intros c Hc. cbn in Hc. intuition (subst; reflexivity).
      - eapply word_ends; [exact D | discriminate|]. intros c Hc. cbn in Hc. intuition (subst; reflexivity).
      - now apply signdigits_ends. }
    destruct ENDS as (c & t & Hm & Hc & Hl).
    rewrite (trim_of_padded l m r c t Hm Hc Hl Sl Sr).
    destruct D as [[D ->]|[[D ->]|(sg & ds & -> & Hsg & Hne & Hd & Hv)]].
    + rewrite D. reflexivity.
    + rewrite D. reflexivity.
    + rewrite to_lower_signdigits by assumption.
      assert (NT : forall w, (exists x u, w = x :: u /\ 97 <= x) -> str_eqb (sg ++ ds) w = false).
      { intros w (x & u & -> & Hx). destruct (str_eqb (sg ++ ds) (x :: u)) eqn:Q; [|reflexivity].
        apply str_eqb_eq in Q. exfalso.
        assert (In x (sg ++ ds)) by (rewrite Q; now left).
        apply (signdigits_low sg ds Hsg Hd) in H.
        assert (x <= 122).
        { destruct Hsg as [->|[->| ->]]; destruct ds as [|d ds]; try congruence; cbn [app] in Q; injection Q as Q1 _;
          cbn [all_digits forallb] in Hd; try (apply andb_true_iff in Hd; destruct Hd as [Hd0 _]; apply digit_code in Hd0);
          unfold c_plus, c_minus in *; lia. }
        lia. }
      rewrite (NT s_true) by (eexists; eexists; split; [reflexivity | cbv; discriminate]).
      rewrite (NT s_false) by (eexists; eexists; split; [reflexivity | cbv; discriminate]).
      assert (SC : scan_int (sg ++ ds) = Some (signed_val sg ds, [])).
      { apply scan_int_spec. exists [], sg, ds. rewrite app_nil_r. repeat split; try assumption. }
      rewrite SC, Hv. destruct b; reflexivity.
Qed.
(* ------------------------------------------------------------------ floating literals *)
Definition is_fchar (c : N) : bool :=
  is_digit c || (c =? c_plus) || (c =? c_minus) || (c =? c_dot) || (c =? c_e) || (c =? c_E).

Lemma fchar_not_space c : is_fchar c = true -> is_space c = false.
Proof.
  unfold is_fchar. intros H.
  destruct (is_space c) eqn:S; [|reflexivity]. exfalso. apply space_code in S.
  repeat (apply orb_true_iff in H; destruct H as [H|H]);
    [apply digit_code in H | apply N.eqb_eq in H .. ]; unfold c_plus, c_minus, c_dot, c_e, c_E in *; lia.
Qed.

Definition all_fchars (s : str) : bool := forallb is_fchar s.

Lemma digits_fchars ds : all_digits ds = true -> all_fchars ds = true.
Proof.
  unfold all_digits, all_fchars. rewrite !forallb_forall. intros H c Hc. unfold is_fchar. now rewrite (H c Hc).
Qed.
Lemma sign_fchars sg : is_sign sg -> all_fchars sg = true.
Proof. intros [->|[->| ->]]; reflexivity. Qed.
Lemma all_fchars_app a b : all_fchars (a ++ b) = all_fchars a && all_fchars b.
Proof. apply forallb_app. Qed.

Lemma scan_exp_chars s r : scan_exp s = Some r -> exists k, s = k ++ r /\ all_fchars k = true.
Proof.
  unfold scan_exp. destruct s as [|c t].
  - intros H. injection H as <-. exists []. split; reflexivity.
  - destruct ((c =? c_e) || (c =? c_E)) eqn:E.
    + destruct (take_sign t) as [ng t1] eqn:TS. destruct (take_digits t1) as [ds r'] eqn:TD.
      destruct ds as [|d ds]; [discriminate|]. intros H. injection H as <-.
      destruct (take_sign_spec _ _ _ TS) as (sg & E1 & Hsg & _).
      destruct (take_digits_spec _ _ _ TD) as (E2 & Hd & _).
      exists (c :: sg ++ d :: ds). split.
      * cbn [app]. f_equal. rewrite E1, E2. now rewrite <- app_assoc.
      * cbn [all_fchars forallb]. fold (all_fchars (sg ++ d :: ds)). rewrite all_fchars_app.
        rewrite (sign_fchars sg Hsg), (digits_fchars _ Hd). unfold is_fchar.
        apply orb_true_iff in E. destruct E as [E|E]; rewrite E; rewrite ?orb_true_r; reflexivity.
    + intros H. injection H as <-. exists []. split; reflexivity.
Qed.

Lemma scan_float_chars s r : scan_float s = Some r -> exists k, s = k ++ r /\ k <> [] /\ all_fchars k = true.
Proof.
  unfold scan_float.
  destruct (take_sign s) as [ng s1] eqn:TS. destruct (take_digits s1) as [ip s2] eqn:TD.
  destruct (take_sign_spec _ _ _ TS) as (sg & E1 & Hsg & _).
  destruct (take_digits_spec _ _ _ TD) as (E2 & Hd & _).
  destruct s2 as [|c t].
  - destruct ip as [|d ip]; [discriminate|]. intros H. injection H as <-.
    exists (sg ++ d :: ip). rewrite app_nil_r in *. split; [now rewrite E1, E2|]. split.
    + destruct sg; discriminate.
    + rewrite all_fchars_app, (sign_fchars sg Hsg), (digits_fchars _ Hd). reflexivity.
  - destruct (N.eqb_spec c c_dot) as [->|ND].
    + destruct (take_digits t) as [fp s3] eqn:TF. destruct (take_digits_spec _ _ _ TF) as (E3 & Hf & _).
      intros H.
      assert (H' : scan_exp s3 = Some r) by (destruct ip, fp; try discriminate; assumption).
      destruct (scan_exp_chars _ _ H') as (k & E4 & Hk).
      exists (sg ++ ip ++ c_dot :: fp ++ k). split; [|split].
      * rewrite E1, E2, E3, E4. rewrite <- !app_assoc. cbn [app]. now rewrite <- !app_assoc.
      * destruct sg, ip; discriminate.
      * rewrite !all_fchars_app. cbn [all_fchars forallb]. fold (all_fchars (fp ++ k)). rewrite all_fchars_app.
        now rewrite (sign_fchars sg Hsg), (digits_fchars _ Hd), (digits_fchars _ Hf), Hk.
    + destruct ip as [|d ip]; [discriminate|]. intros H.
      destruct (scan_exp_chars _ _ H) as (k & E4 & Hk).
      exists (sg ++ (d :: ip) ++ k). split; [|split].
      * rewrite E1, E2, E4. now rewrite <- !app_assoc.
      * destruct sg; discriminate.
      * rewrite !all_fchars_app. now rewrite (sign_fchars sg Hsg), (digits_fchars _ Hd), Hk.
Qed.

Lemma float_lit_chars a : is_float_lit a = true -> a <> [] /\ all_fchars a = true.
Proof.
  unfold is_float_lit. destruct (scan_float a) as [[|c r]|] eqn:S; try discriminate. intros _.
  destruct (scan_float_chars _ _ S) as (k & E & Hne & Hk). rewrite app_nil_r in E. subst k. tauto.
Qed.

(* ------------------------------------------------------------------ float / double *)
Section FloatThms.
Variable F : Type.
Variable strto : str -> option F.
Variable fmt : F -> str.

Definition pinf_words : list str := [s_inf; s_infinity; c_plus :: s_inf; c_plus :: s_infinity].
Definition ninf_words : list str := [c_minus :: s_inf; c_minus :: s_infinity].

(* s denotes the floating value v: white space, then (in any letter case) nan, [+-]inf, [+-]infinity, or a
   decimal floating literal that libc converts without overflow, then white space *)
Definition float_denotes (s : str) (v : fval F) : Prop :=
  exists l m r, s = l ++ m ++ r /\ all_space l = true /\ all_space r = true /\
    ((to_lower m = s_nan /\ v = FNaN) \/
     (In (to_lower m) pinf_words /\ v = FPInf) \/
     (In (to_lower m) ninf_words /\ v = FNInf) \/
     (is_float_lit (to_lower m) = true /\ exists x, strto (to_lower m) = Some x /\ v = FFin x)).

Lemma special_not_literal w : In w (s_nan :: pinf_words ++ ninf_words) -> is_float_lit w = false.
Proof. cbn. intros H. repeat (destruct H as [<-|H]; [reflexivity|]). destruct H. Qed.

Lemma special_no_space w : In w (s_nan :: pinf_words ++ ninf_words) -> w <> [] /\ forall c, In c w -> is_space c = false.
Proof.
  cbn. intros H. repeat (destruct H as [<-|H]; [split; [discriminate|]; intros c Hc; cbn in Hc; intuition (subst; reflexivity)|]).
  destruct H.
Qed.

Lemma float_accepts_iff_denotes s v : conv_float F strto s = Some v <-> float_denotes s v.
Proof.
  unfold conv_float, float_denotes, clean. split.
  - destruct (trim_decompose s) as (l & r & E & Sl & Sr). intros H.
    exists l, (trim s), r. split; [exact E|]. split; [exact Sl|]. split; [exact Sr|].
    set (a := to_lower (trim s)) in *.
    destruct (str_eqb a s_nan) eqn:Q1.
    { injection H as <-. left. split; [now apply str_eqb_eq | reflexivity]. }
    destruct (str_eqb a s_inf || str_eqb a s_infinity || str_eqb a (c_plus :: s_inf) || str_eqb a (c_plus :: s_infinity)) eqn:Q2.
    { injection H as <-. right. left. split; [|reflexivity].
      repeat (apply orb_true_iff in Q2; destruct Q2 as [Q2|Q2]); apply str_eqb_eq in Q2; rewrite Q2; cbn; tauto. }
    destruct (str_eqb a (c_minus :: s_inf) || str_eqb a (c_minus :: s_infinity)) eqn:Q3.
    { injection H as <-. right. right. left. split; [|reflexivity].
      apply orb_true_iff in Q3; destruct Q3 as [Q3|Q3]; apply str_eqb_eq in Q3; rewrite Q3; cbn; tauto. }
    destruct (is_float_lit a) eqn:L; [|discriminate].
    destruct (strto a) as [x|] eqn:ST; [|discriminate]. injection H as <-.
    right. right. right. split; [reflexivity|]. exists x. split; reflexivity.
  - intros (l & m & r & E & Sl & Sr & D). subst s.
    assert (ENDS : exists c t, m = c :: t /\ is_space c = false /\ is_space (last m c) = false).
    { assert (W : forall w, In w (s_nan :: pinf_words ++ ninf_words) -> to_lower m = w ->
                  exists c t, m = c :: t /\ is_space c = false /\ is_space (last m c) = false).
      { intros w Hw Hm. destruct (special_no_space w Hw) as [N1 N2]. eapply word_ends; eauto. }
      destruct D as [[D _]|[[D _]|[[D _]|[D _]]]].
      - apply (W s_nan); [now left | assumption].
      - apply (W (to_lower m)); [right; apply in_or_app; now left | reflexivity].
      - apply (W (to_lower m)); [right; apply in_or_app; now right | reflexivity].
      - destruct (float_lit_chars _ D) as [Hne Hc].
        eapply word_ends; [reflexivity | exact Hne|]. intros c Hin. apply fchar_not_space.
        unfold all_fchars in Hc. rewrite forallb_forall in Hc. now apply Hc. }
    destruct ENDS as (c & t & Hm & Hc & Hl).
    rewrite (trim_of_padded l m r c t Hm Hc Hl Sl Sr).
    set (a := to_lower m) in *.
    destruct D as [[D ->]|[[D ->]|[[D ->]|[D (x & ST & ->)]]]].
    + rewrite D. reflexivity.
    + cbn in D. destruct D as [<-|[<-|[<-|[<-|[]]]]]; reflexivity.
    + cbn in D. destruct D as [<-|[<-|[]]]; reflexivity.
    + assert (NS : forall w, In w (s_nan :: pinf_words ++ ninf_words) -> str_eqb a w = false).
      { intros w Hw. destruct (str_eqb a w) eqn:Q; [|reflexivity]. apply str_eqb_eq in Q.
        rewrite Q, (special_not_literal w Hw) in D. discriminate. }
      rewrite !NS by (cbn; tauto). cbn [orb]. now rewrite D, ST.
Qed.

(* String(x) for the special values converts back to the same special value *)
Lemma special_values_roundtrip :
  conv_float F strto (print_float F fmt FNaN) = Some FNaN /\
  conv_float F strto (print_float F fmt FPInf) = Some FPInf /\
  conv_float F strto (print_float F fmt FNInf) = Some FNInf.
Proof. repeat split; reflexivity. Qed.

(* and so do the finite values, given what is assumed of libc: the printed text is a floating literal
   (after lower-casing) that strtod converts back to the same value *)
Lemma finite_values_roundtrip :
  (forall x, is_float_lit (clean (fmt x)) = true) ->
  (forall x, strto (clean (fmt x)) = Some x) ->
  forall v, conv_float F strto (print_float F fmt v) = Some v.
Proof.
  intros H1 H2 [| | |x]; try reflexivity.
  cbn [print_float]. unfold conv_float.
  assert (NS : forall w, In w (s_nan :: pinf_words ++ ninf_words) -> str_eqb (clean (fmt x)) w = false).
  { intros w Hw. destruct (str_eqb (clean (fmt x)) w) eqn:Q; [|reflexivity]. apply str_eqb_eq in Q.
    specialize (H1 x). rewrite Q, (special_not_literal w Hw) in H1. discriminate. }
  rewrite !NS by (cbn; tauto). cbn [orb]. now rewrite H1, H2.
Qed.
End FloatThms.

Lemma bool_values_roundtrip b : conv_bool (print_bool b) = Some b.
Proof. destruct b; reflexivity. Qed.
(* ------------------------------------------------------------------ unformatted write / read *)
Section TreeInd.
Variable A : Type.
Variable P : tree A -> Prop.
Hypothesis Hleaf : forall x, P (Leaf x).
Hypothesis Hnode : forall sep l, Forall P l -> P (Node sep l).
Fixpoint tree_ind' (t : tree A) : P t :=
  match t with
  | Leaf x => Hleaf x
  | Node sep l => Hnode sep l
      ((fix go (l : list (tree A)) : Forall P l :=
          match l with [] => Forall_nil P | t1 :: l' => Forall_cons t1 (tree_ind' t1) (go l') end) l)
  end.
End TreeInd.

Section UnformattedThms.
Variable A : Type.
Variable print : A -> str.
Variable parse : str -> option A.
(* what is assumed of the scalar layer (for double/float/bool/int it is the String round trip above):
   a printed scalar is a non-empty token without white space that parses back to the same value *)
Hypothesis parse_print : forall x, parse (print x) = Some x.
Hypothesis print_nonempty : forall x, print x <> [].
Hypothesis print_nospace : forall x c, In c (print x) -> is_space c = false.

(* well-formed value trees: inner nodes (complex, Vec, Row, Mat, ...) are non-empty and their separator is white space *)
Inductive wf : tree A -> Prop :=
  | wf_leaf x : wf (Leaf x)
  | wf_node sep l : is_space sep = true -> l <> [] -> Forall wf l -> wf (Node sep l).

Definition tail_ok (tl : str) : Prop := match tl with [] => True | c :: _ => is_space c = true end.

Lemma take_token_app k : forall tl, (forall c, In c k -> is_space c = false) -> tail_ok tl ->
  take_token (k ++ tl) = (k, tl).
Proof.
  induction k as [|c k IH]; intros tl Hk Ht.
  - cbn [app]. destruct tl as [|d tl]; [reflexivity|]. cbn [take_token]. cbn in Ht. now rewrite Ht.
  - cbn [app take_token]. rewrite (Hk c) by now left. rewrite IH; [reflexivity | | assumption].
    intros d Hd. apply Hk. now right.
Qed.

Lemma is_nil_app_nonempty (k tl : str) : k <> [] -> is_nil (k ++ tl) = false.
Proof. destruct k; [congruence | reflexivity]. Qed.

Lemma read_token_written pre x tl : all_space pre = true -> tail_ok tl ->
  read_token (mkS (pre ++ print x ++ tl) false) = Some (print x, mkS tl (is_nil tl)).
Proof.
  intros Hp Ht. unfold read_token, skip_ws. cbn [s_eof s_rest orb].
  rewrite drop_ws_all by assumption.
  destruct (print x) as [|c k] eqn:E; [now apply print_nonempty in E|].
  assert (Hc : forall d, In d (c :: k) -> is_space d = false) by (intros d Hd; apply (print_nospace x); now rewrite E).
  cbn [app]. rewrite drop_ws_head by (apply Hc; now left). cbn [is_nil s_eof s_rest].
  change (c :: k ++ tl) with ((c :: k) ++ tl). rewrite take_token_app by assumption. reflexivity.
Qed.

(* the text written for a well-formed tree is non-empty and starts with a non-space character *)
Lemma write_head t : wf t -> exists c k, write A print t = c :: k /\ is_space c = false.
Proof.
  induction t as [x|sep l IH] using tree_ind'; intros W.
  - cbn [write]. destruct (print x) as [|c k] eqn:E; [now apply print_nonempty in E|].
    exists c, k. split; [reflexivity|]. apply (print_nospace x). rewrite E. now left.
  - inversion W as [|? ? Hs Hne Hf]; subst. destruct l as [|t1 l']; [congruence|].
    inversion IH as [|? ? IH1 _]; subst. inversion Hf as [|? ? W1 _]; subst.
    destruct (IH1 W1) as (c & k & E & Hc). cbn [write map]. 
    destruct l' as [|t2 l'']; cbn [join map]; rewrite E; cbn [app]; eexists; eexists; split; try reflexivity; assumption.
Qed.

Lemma join_cons2 sep (x y : str) l : join sep (x :: y :: l) = x ++ sep :: join sep (y :: l).
Proof. reflexivity. Qed.

Lemma tail_ok_sep sep rest : is_space sep = true -> tail_ok (sep :: rest).
Proof. intros H. exact H. Qed.

(* reading the written text of a well-formed tree (after any white space, before end of input or white
   space) gives the tree back and leaves the stream right after it *)
Lemma read_fixed_written t : wf t -> forall pre tl, all_space pre = true -> tail_ok tl ->
  read_fixed A parse (shape_of A t) (mkS (pre ++ write A print t ++ tl) false) = Some (t, mkS tl (is_nil tl)).
Proof.
  induction t as [x|sep l IH] using tree_ind'; intros W pre tl Hp Ht.
  - cbn [shape_of read_fixed write]. rewrite read_token_written by assumption. now rewrite parse_print.
  - inversion W as [|? ? Hs Hne Hf]; subst. cbn [shape_of read_fixed write].
    (* the inner loop over the children *)
    assert (G : forall l, l <> [] -> Forall wf l ->
              Forall (fun t => wf t -> forall pre tl, all_space pre = true -> tail_ok tl ->
                  read_fixed A parse (shape_of A t) (mkS (pre ++ write A print t ++ tl) false) = Some (t, mkS tl (is_nil tl))) l ->
              forall pre, all_space pre = true ->
              (fix go (l0 : list shape) (st : istream) {struct l0} : option (list (tree A) * istream) :=
                 match l0 with
                 | [] => Some ([], st)
                 | sh1 :: l' => match read_fixed A parse sh1 st with
                                | Some (t1, st1) => match go l' st1 with
                                                    | Some (ts, st2) => Some (t1 :: ts, st2)
                                                    | None => None
                                                    end
                                | None => None
                                end
                 end) (map (shape_of A) l) (mkS (pre ++ join sep (map (write A print) l) ++ tl) false)
              = Some (l, mkS tl (is_nil tl))).
    { clear l IH W Hne Hf pre Hp. induction l as [|t1 l' IHl]; intros Hne Hf IH pre Hp; [congruence|].
      inversion Hf as [|? ? W1 Wl]; subst. inversion IH as [|? ? IH1 IHl']; subst.
      destruct l' as [|t2 l''].
      - cbn [map join]. rewrite (IH1 W1 pre tl Hp Ht). reflexivity.
      - cbn [map]. rewrite join_cons2. rewrite <- app_assoc. cbn [app].
        rewrite (IH1 W1 pre (sep :: join sep (write A print t2 :: map (write A print) l'') ++ tl) Hp (tail_ok_sep _ _ Hs)).
        cbn [is_nil].
        assert (Hsep : all_space [sep] = true) by (cbn [all_space forallb]; now rewrite Hs).
        specialize (IHl ltac:(discriminate) Wl IHl' [sep] Hsep). cbn [map app] in IHl.
        rewrite IHl. reflexivity. }
    rewrite (G l Hne Hf IH pre Hp). reflexivity.
Qed.

(* readUnformatted(writeUnformatted(v)) = v for the fixed-size types *)
Lemma unformatted_roundtrip_fixed t : wf t ->
  read_fixed A parse (shape_of A t) (open_stream (write A print t)) = Some (t, mkS [] true).
Proof.
  intros W. pose proof (read_fixed_written t W [] [] eq_refl I) as H. cbn [app] in H.
  rewrite app_nil_r in H. exact H.
Qed.

Lemma write_length t : wf t -> (1 <= length (write A print t))%nat.
Proof. intros W. destruct (write_head t W) as (c & k & E & _). rewrite E. cbn [length]. lia. Qed.

Lemma join_length l : Forall wf l -> (length l <= length (join 32 (map (write A print) l)))%nat.
Proof.
  induction l as [|t1 l IH]; intros Hf; [cbn; lia|]. inversion Hf as [|? ? W1 Wl]; subst.
  pose proof (write_length t1 W1). destruct l as [|t2 l'].
  - cbn [map join length]. lia.
  - cbn [map]. rewrite join_cons2. rewrite app_length. cbn [length]. specialize (IH Wl). cbn [map length] in IH. lia.
Qed.

Lemma read_array_loop_written sh : forall l, l <> [] -> Forall wf l -> (forall t, In t l -> shape_of A t = sh) ->
  forall fuel pre, all_space pre = true -> (length l < fuel)%nat ->
  read_array_loop A parse fuel sh (mkS (pre ++ join 32 (map (write A print) l)) false) = Some l.
Proof.
  induction l as [|t1 l IH]; intros Hne Hf Hsh fuel pre Hp Hfuel; [congruence|].
  inversion Hf as [|? ? W1 Wl]; subst.
  destruct fuel as [|k]; [lia|]. cbn [read_array_loop s_eof].
  rewrite <- (Hsh t1) by now left.
  destruct l as [|t2 l'].
  - cbn [map join]. rewrite <- (app_nil_r (write A print t1)).
    rewrite (read_fixed_written t1 W1 pre [] Hp I). cbn [is_nil].
    destruct k; reflexivity.
  - cbn [map]. rewrite join_cons2.
    assert (Hs : is_space 32 = true) by reflexivity.
    rewrite (read_fixed_written t1 W1 pre (32 :: join 32 (write A print t2 :: map (write A print) l')) Hp Hs).
    cbn [is_nil].
    specialize (IH ltac:(discriminate) Wl (fun t Ht => Hsh t (or_intror Ht)) k [32] eq_refl).
    cbn [map app] in IH. rewrite (Hsh t1) by now left. rewrite IH; [reflexivity|]. cbn [length] in *. lia.
Qed.

(* readUnformatted(writeUnformatted(a)) = a for Array_<T> / resizable Vector_<T> of fixed-size elements *)
Lemma unformatted_roundtrip_array sh l : Forall wf l -> (forall t, In t l -> shape_of A t = sh) ->
  read_array A parse sh (write_array A print l) = Some l.
Proof.
  intros Hf Hsh. unfold read_array, write_array.
  destruct l as [|t1 l'].
  - reflexivity.
  - set (s := join 32 (map (write A print) (t1 :: l'))).
    assert (Hh : exists c k, s = c :: k /\ is_space c = false).
    { inversion Hf as [|? ? W1 _]; subst. destruct (write_head t1 W1) as (c & k & E & Hc).
      unfold s. destruct l' as [|t2 l'']; [cbn [map join] | cbn [map]; rewrite join_cons2]; rewrite E; cbn [app];
        eexists; eexists; (split; [reflexivity | assumption]). }
    destruct Hh as (c & k & E & Hc).
    unfold skip_ws, open_stream. cbn [s_rest s_eof orb]. rewrite E, drop_ws_head by assumption. cbn [is_nil].
    rewrite <- E. unfold s.
    apply (read_array_loop_written sh (t1 :: l') ltac:(discriminate) Hf Hsh _ [] eq_refl).
    pose proof (join_length (t1 :: l') Hf) as HL. cbn [length] in *. lia.
Qed.
End UnformattedThms.

(* ------------------------------------------------------------------ instances *)
(* composites of floating values: the scalar layer's assumptions follow from those on libc *)
Section FloatingTrees.
Variable F : Type.
Variable strto : str -> option F.
Variable fmt : F -> str.
Hypothesis fmt_literal : forall x, is_float_lit (clean (fmt x)) = true.
Hypothesis fmt_strto : forall x, strto (clean (fmt x)) = Some x.
Hypothesis fmt_nonempty : forall x, fmt x <> [].
Hypothesis fmt_nospace : forall x c, In c (fmt x) -> is_space c = false.

Lemma print_float_nonempty v : print_float F fmt v <> [].
Proof. destruct v; cbn [print_float]; try discriminate. apply fmt_nonempty. Qed.
Lemma print_float_nospace v c : In c (print_float F fmt v) -> is_space c = false.
Proof.
  destruct v; cbn [print_float]; try (intros H; cbn in H; intuition (subst; reflexivity)). apply fmt_nospace.
Qed.

Lemma unformatted_roundtrip_floating_fixed (t : tree (fval F)) : wf (fval F) t ->
  read_fixed _ (conv_float F strto) (shape_of _ t) (open_stream (write _ (print_float F fmt) t)) = Some (t, mkS [] true).
Proof.
  apply unformatted_roundtrip_fixed.
  - apply finite_values_roundtrip; assumption.
  - apply print_float_nonempty.
  - apply print_float_nospace.
Qed.

Lemma unformatted_roundtrip_floating_array sh (l : list (tree (fval F))) :
  Forall (wf (fval F)) l -> (forall t, In t l -> shape_of _ t = sh) ->
  read_array _ (conv_float F strto) sh (write_array _ (print_float F fmt) l) = Some l.
Proof.
  apply unformatted_roundtrip_array.
  - apply finite_values_roundtrip; assumption.
  - apply print_float_nonempty.
  - apply print_float_nospace.
Qed.
End FloatingTrees.

(* composites of bool: no assumption left *)
Lemma unformatted_roundtrip_bool_fixed (t : tree bool) : wf bool t ->
  read_fixed _ conv_bool (shape_of _ t) (open_stream (write _ print_bool t)) = Some (t, mkS [] true).
Proof.
  apply unformatted_roundtrip_fixed.
  - apply bool_values_roundtrip.
  - intros []; discriminate.
  - intros [] c H; cbn in H; intuition (subst; reflexivity).
Qed.

(* ------------------------------------------------------------------ a quirk of the Array_ reader *)
(* "continues reading ... until error or eof": white space after the last element is read as a failed
   element, so surrounding white space is NOT ignored by readUnformatted(Array_) *)
Lemma array_trailing_space_refuted :
  exists s l, read_array bool conv_bool SLeaf s = Some l /\ read_array bool conv_bool SLeaf (s ++ [32]) = None.
Proof. exists [49; 32; 48], [Leaf true; Leaf false]. split; reflexivity. Qed.

(* ------------------------------------------------------------------ non-vacuity: concrete strings *)
Example int_example : conv_int [32; 43; 49; 50; 9] = Some 12%Z /\ int_denotes [32; 43; 49; 50; 9] 12%Z.
Proof. split; [reflexivity | apply int_accepts_iff_denotes; reflexivity]. Qed.
Example int_rejects : conv_int [49; 50; 120] = None /\ conv_int [50; 49; 52; 55; 52; 56; 51; 54; 52; 56] = None
                      /\ conv_int [45; 50; 49; 52; 55; 52; 56; 51; 54; 52; 56] = Some (-2147483648)%Z.
Proof. repeat split; reflexivity. Qed.
Example bool_example : conv_bool [32; 84; 82; 117; 69; 10] = Some true /\ conv_bool [45; 48; 48] = Some false
                       /\ conv_bool [49; 120] = None /\ conv_bool [50] = None.
Proof. repeat split; reflexivity. Qed.
Example float_example (strto : str -> option Z) :
  conv_float Z strto [32; 45; 73; 110; 70; 105; 110; 105; 116; 121] = Some FNInf /\
  conv_float Z strto [43; 110; 97; 110] = None /\
  conv_float Z strto [49; 46; 53; 97; 98; 99] = None /\
  conv_float Z strto [49; 101] = None /\
  conv_float Z strto [46; 53; 69; 45; 51] = match strto [46; 53; 101; 45; 51] with Some x => Some (FFin x) | None => None end.
Proof. repeat split; reflexivity. Qed.
Example tree_example :
  let t := Node 10 [Node 32 [Leaf true; Leaf false]; Node 32 [Leaf false; Leaf true]] in
  write bool print_bool t = [116;114;117;101; 32; 102;97;108;115;101; 10; 102;97;108;115;101; 32; 116;114;117;101]
  /\ wf bool t.
Proof.
  split; [reflexivity|]. repeat (constructor; try reflexivity; try discriminate).
Qed.

(* ------------------------------------------------------------------ the floating literal syntax, declaratively *)
Definition exponent_syntax (ex : str) : Prop :=
  ex = [] \/ exists e sg2 ds, ex = e :: sg2 ++ ds /\ (e = c_e \/ e = c_E) /\ is_sign sg2 /\ ds <> [] /\ all_digits ds = true.

(* [sign] (digits+ | digits* . digits*, at least one digit) [ (e|E) [sign] digits+ ] *)
Definition float_syntax (a : str) : Prop :=
  exists sg ip dotfp ex, a = sg ++ ip ++ dotfp ++ ex /\ is_sign sg /\ all_digits ip = true /\
    ((dotfp = [] /\ ip <> []) \/ (exists fp, dotfp = c_dot :: fp /\ all_digits fp = true /\ (ip <> [] \/ fp <> []))) /\
    exponent_syntax ex.

Lemma scan_exp_syntax s : scan_exp s = Some [] <-> exponent_syntax s.
Proof.
  unfold scan_exp, exponent_syntax. split.
  - destruct s as [|c t]; [now left|].
    destruct ((c =? c_e) || (c =? c_E)) eqn:E; [|discriminate].
    destruct (take_sign t) as [ng t1] eqn:TS. destruct (take_digits t1) as [ds r] eqn:TD.
    destruct ds as [|d ds]; [discriminate|]. intros H. injection H as ->.
    destruct (take_sign_spec _ _ _ TS) as (sg & E1 & Hsg & _).
    destruct (take_digits_spec _ _ _ TD) as (E2 & Hd & _). rewrite app_nil_r in E2.
    right. exists c, sg, (d :: ds). split; [now rewrite E1, E2|]. split.
    + apply orb_true_iff in E. destruct E as [E|E]; apply N.eqb_eq in E; tauto.
    + repeat split; try assumption. discriminate.
  - intros [->|(e & sg2 & ds & -> & He & Hsg & Hne & Hd)]; [reflexivity|].
    assert (E : (e =? c_e) || (e =? c_E) = true) by (destruct He as [->| ->]; reflexivity). rewrite E.
    rewrite take_sign_app; [|assumption|].
    + rewrite <- (app_nil_r ds) at 1. rewrite take_digits_app by (assumption || exact I).
      destruct ds; [congruence | reflexivity].
    + intros _. destruct ds as [|d ds]; [congruence|].
      cbn [all_digits forallb] in Hd. apply andb_true_iff in Hd. apply digit_not_sign. tauto.
Qed.

Lemma exponent_head ex : exponent_syntax ex ->
  match ex with c :: _ => is_digit c = false /\ (c =? c_dot) = false /\ (c =? c_minus) = false /\ (c =? c_plus) = false | [] => True end.
Proof. intros [->|(e & sg2 & ds & -> & [->| ->] & _)]; [exact I | |]; repeat split; reflexivity. Qed.

Lemma float_literal_syntax a : is_float_lit a = true <-> float_syntax a.
Proof.
  unfold is_float_lit, float_syntax, scan_float. split.
  - destruct (take_sign a) as [ng s1] eqn:TS. destruct (take_digits s1) as [ip s2] eqn:TD.
    destruct (take_sign_spec _ _ _ TS) as (sg & E1 & Hsg & _).
    destruct (take_digits_spec _ _ _ TD) as (E2 & Hd & _).
    destruct s2 as [|c t].
    + destruct ip as [|d ip]; [discriminate|]. intros _.
      exists sg, (d :: ip), [], []. rewrite !app_nil_r in *. split; [now rewrite E1, E2|].
      repeat split; try assumption. left. split; [reflexivity | discriminate]. now left.
    + destruct (N.eqb_spec c c_dot) as [->|ND].
      * destruct (take_digits t) as [fp s3] eqn:TF. destruct (take_digits_spec _ _ _ TF) as (E3 & Hf & _).
        intros H.
        assert (H' : scan_exp s3 = Some [] /\ (ip <> [] \/ fp <> [])).
        { destruct ip, fp; try discriminate; (split; [destruct (scan_exp s3) as [[|]|]; try discriminate; reflexivity|]);
            try (left; discriminate); right; discriminate. }
        destruct H' as [H1 H2]. apply scan_exp_syntax in H1.
        exists sg, ip, (c_dot :: fp), s3. split; [rewrite E1, E2, E3; reflexivity|].
        repeat split; try assumption. right. exists fp. repeat split; assumption.
      * destruct ip as [|d ip]; [discriminate|]. intros H.
        assert (H1 : scan_exp (c :: t) = Some []) by (destruct (scan_exp (c :: t)) as [[|]|]; try discriminate; reflexivity).
        apply scan_exp_syntax in H1.
        exists sg, (d :: ip), [], (c :: t). split; [now rewrite E1, E2|].
        repeat split; try assumption. left. split; [reflexivity | discriminate].
  - intros (sg & ip & dotfp & ex & -> & Hsg & Hd & Hm & Hex).
    pose proof (exponent_head ex Hex) as HX.
    rewrite take_sign_app; [|assumption|].
    + destruct Hm as [[-> Hne]|(fp & -> & Hf & Hne)].
      * cbn [app]. rewrite take_digits_app; [|assumption|destruct ex; tauto].
        destruct ex as [|c t].
        { destruct ip; [congruence | reflexivity]. }
        destruct HX as (_ & H2 & _). rewrite H2. destruct ip; [congruence|].
        apply scan_exp_syntax in Hex. now rewrite Hex.
      * rewrite take_digits_app; [|assumption|reflexivity].
        cbn [app]. rewrite N.eqb_refl. rewrite take_digits_app; [|assumption|destruct ex; tauto].
        apply scan_exp_syntax in Hex. rewrite Hex.
        destruct ip, fp; try reflexivity. destruct Hne; congruence.
    + intros ->. destruct ip as [|d ip].
      * destruct Hm as [[_ Hne]|(fp & -> & _)]; [congruence|]. cbn [app]. split; reflexivity.
      * cbn [app]. cbn [all_digits forallb] in Hd. apply andb_true_iff in Hd. apply digit_not_sign. tauto.
Qed.

(* the acceptance theorem for float/double with the declarative syntax in place of the scanner *)
Lemma float_accepts_iff_syntax (F : Type) (strto : str -> option F) s v :
  conv_float F strto s = Some v <->
  exists l m r, s = l ++ m ++ r /\ all_space l = true /\ all_space r = true /\
    ((to_lower m = s_nan /\ v = FNaN) \/
     (In (to_lower m) pinf_words /\ v = FPInf) \/
     (In (to_lower m) ninf_words /\ v = FNInf) \/
     (float_syntax (to_lower m) /\ exists x, strto (to_lower m) = Some x /\ v = FFin x)).
Proof.
  rewrite (float_accepts_iff_denotes F strto (fun _ => [])). unfold float_denotes.
  split; intros (l & m & r & E & Sl & Sr & D); exists l, m, r; (split; [exact E|]); (split; [exact Sl|]); (split; [exact Sr|]);
    (destruct D as [D|[D|[D|[D1 D2]]]]; [now left | right; now left | right; right; now left | right; right; right]);
    (split; [apply float_literal_syntax; exact D1 | exact D2]).
Qed.

(* ------------------------------------------------------------------ String(int) converts back *)
Lemma dec_val_snoc ds c : dec_val (ds ++ [c]) = (10 * dec_val ds + digit_val c)%Z.
Proof. unfold dec_val. now rewrite fold_left_app. Qed.

Lemma digit_char_ok z : (0 <= z < 10)%Z -> is_digit (Z.to_N z + 48) = true /\ digit_val (Z.to_N z + 48) = z.
Proof.
  intros H. unfold is_digit, digit_val. split.
  - apply andb_true_iff. split; apply N.leb_le; lia.
  - rewrite N.add_sub. lia.
Qed.

Lemma print_pos_spec fuel : forall z acc, (0 <= z < 10 ^ Z.of_nat fuel)%Z -> (0 < fuel)%nat ->
  exists ds, print_pos_fuel fuel z acc = ds ++ acc /\ ds <> [] /\ all_digits ds = true /\ dec_val ds = z.
Proof.
  induction fuel as [|k IH]; intros z acc Hz Hf; [lia|].
  cbn [print_pos_fuel].
  assert (Hm : (0 <= z mod 10 < 10)%Z) by (apply Z.mod_pos_bound; lia).
  destruct (digit_char_ok _ Hm) as [Hd Hv].
  destruct (Z.ltb_spec z 10) as [Hlt|Hge].
  - exists [Z.to_N (z mod 10) + 48]. split; [reflexivity|]. split; [discriminate|]. split.
    + cbn [all_digits forallb]. now rewrite Hd.
    + unfold dec_val. cbn [fold_left]. rewrite Hv. rewrite Z.mod_small by lia. lia.
  - assert (Hk : (0 < k)%nat).
    { destruct k; [|lia]. cbn in Hz. lia. }
    destruct (IH (z / 10)%Z ((Z.to_N (z mod 10) + 48) :: acc)) as (ds & E & Hne & Hds & Hval); [|assumption|].
    + split; [apply Z.div_pos; lia|]. apply Z.div_lt_upper_bound; [lia|].
      rewrite Nat2Z.inj_succ, Z.pow_succ_r in Hz by lia. lia.
    + exists (ds ++ [Z.to_N (z mod 10) + 48]). split; [rewrite E; now rewrite <- app_assoc|].
      split; [destruct ds; discriminate|]. split.
      * unfold all_digits in *. rewrite forallb_app, Hds. cbn [forallb]. now rewrite Hd.
      * rewrite dec_val_snoc, Hval, Hv. symmetry. rewrite (Z.div_mod z 10) at 1 by lia. lia.
Qed.

Lemma int_values_roundtrip z : (int_min <= z <= int_max)%Z -> conv_int (print_int z) = Some z.
Proof.
  intros Hz. apply int_accepts_iff_denotes. unfold print_int.
  assert (B : (- 10 ^ 12 < z < 10 ^ 12)%Z) by (unfold int_min, int_max in Hz; lia).
  destruct (Z.ltb_spec z 0) as [Hn|Hp].
  - destruct (print_pos_spec 12 (- z) []) as (ds & E & Hne & Hd & Hv); [cbn; lia | lia|].
    rewrite app_nil_r in E. exists [], [c_minus], ds, []. rewrite E, app_nil_r.
    split; [reflexivity|]. split; [reflexivity|]. split; [reflexivity|].
    split; [right; now right|]. split; [assumption|]. split; [assumption|]. split; [|assumption].
    unfold signed_val. cbn [str_eqb]. rewrite N.eqb_refl. cbn [andb]. lia.
  - destruct (print_pos_spec 12 z []) as (ds & E & Hne & Hd & Hv); [cbn; lia | lia|].
    rewrite app_nil_r in E. exists [], [], ds, []. rewrite E, app_nil_r.
    split; [reflexivity|]. split; [reflexivity|]. split; [reflexivity|].
    split; [now left|]. split; [assumption|]. split; [assumption|]. split; [|assumption].
    unfold signed_val. cbn [str_eqb]. lia.
Qed.

(* ================================================================ XML character data *)
Lemma lt32_cases c : c < 32 -> In c [0;1;2;3;4;5;6;7;8;9;10;11;12;13;14;15;16;17;18;19;20;21;22;23;24;25;26;27;28;29;30;31].
Proof.
  intros H. rewrite <- (N2Nat.id c). change [0;1;2;3;4;5;6;7;8;9;10;11;12;13;14;15;16;17;18;19;20;21;22;23;24;25;26;27;28;29;30;31]
    with (map N.of_nat (seq 0 32)). apply in_map. apply in_seq. lia.
Qed.

(* every character written by EncodeString is read back as that character, whatever follows it:
   the five named entities, "&#x%02X;" for every control character, and ordinary characters *)
Lemma xml_char_roundtrip utf8 cw kq c rest :
  get_char utf8 (enc1 cw kq c ++ rest) = Some ([c], rest).
Proof.
  destruct (N.ltb_spec c 32) as [L|G].
  - apply lt32_cases in L. cbn [In] in L.
    repeat (destruct L as [<-|L]; [destruct cw, kq, utf8; reflexivity|]). destruct L.
  - unfold enc1. assert (E32 : (c <? 32) = false) by (apply N.ltb_ge; assumption). rewrite E32. cbn [andb].
    destruct (N.eqb_spec c 38) as [->|N1]; [destruct utf8; reflexivity|].
    destruct (N.eqb_spec c 60) as [->|N2]; [destruct utf8; reflexivity|].
    destruct (N.eqb_spec c 62) as [->|N3]; [destruct utf8; reflexivity|].
    destruct (N.eqb_spec c 34) as [->|N4]; [destruct kq, utf8; reflexivity|].
    destruct (N.eqb_spec c 39) as [->|N5]; [destruct kq, utf8; reflexivity|].
    cbn [andb app get_char]. unfold c_amp. apply N.eqb_neq in N1. now rewrite N1.
Qed.

(* the numeric references: the writer's upper-case form for every control character *)
Lemma xml_control_reference_roundtrip utf8 kq c rest : 1 <= c < 32 ->
  enc1 true kq c = [38; 35; 120; hex_upper (c / 16); hex_upper (c mod 16); 59] /\
  get_entity utf8 ([35; 120; hex_upper (c / 16); hex_upper (c mod 16); 59] ++ rest) = Some ([c], rest).
Proof.
  intros [L1 L2]. apply lt32_cases in L2. cbn [In] in L2.
  destruct L2 as [<-|L2]; [lia|].
  repeat (destruct L2 as [<-|L2]; [destruct kq, utf8; split; reflexivity|]). destruct L2.
Qed.

(* hexadecimal digits are read the same in both letter cases *)
Lemma xml_hex_digit_case c : 65 <= c <= 70 -> hex_digit c = Some (c - 55) /\ hex_digit (c + 32) = Some (c - 55).
Proof.
  intros H. assert (In c [65;66;67;68;69;70]).
  { rewrite <- (N2Nat.id c). change [65;66;67;68;69;70] with (map N.of_nat (seq 65 6)). apply in_map, in_seq. lia. }
  cbn [In] in H0. repeat (destruct H0 as [<-|H0]; [split; reflexivity|]). destruct H0.
Qed.

(* no "&#x" inside the string: EncodeString's pass-through of existing references is not triggered *)
Fixpoint no_ref (s : str) : bool :=
  match s with
  | [] => true
  | c :: t => match t with
              | d1 :: d2 :: _ => negb ((c =? c_amp) && (d1 =? c_hash) && (d2 =? c_x))
              | _ => true
              end && no_ref t
  end.

Lemma xml_enc_step cw kq c t : no_ref (c :: t) = true ->
  xml_enc cw kq false (c :: t) = enc1 cw kq c ++ xml_enc cw kq false t.
Proof.
  intros H. cbn [no_ref] in H. apply andb_true_iff in H. destruct H as [H _].
  destruct t as [|d1 [|d2 t']]; cbn [xml_enc]; try reflexivity.
  apply negb_true_iff in H. now rewrite H.
Qed.

Lemma enc1_nonempty cw kq c : enc1 cw kq c <> [].
Proof.
  unfold enc1. repeat match goal with |- context [if ?b then _ else _] => destruct b end; discriminate.
Qed.

(* the delimiter never occurs as the first character of something the writer emits:
   '<' is always escaped, the quotes are escaped in attribute values (keepQuotes = false) *)
Definition stop_ok (kq : bool) (stop : N) : Prop := stop = 60 \/ (kq = false /\ (stop = 34 \/ stop = 39)).

Lemma enc1_head cw kq c stop : stop_ok kq stop -> exists h t, enc1 cw kq c = h :: t /\ (h =? stop) = false.
Proof.
  intros SO. unfold enc1.
  assert (A : (38 =? stop) = false) by (destruct SO as [->|[_ [->| ->]]]; reflexivity).
  destruct (N.eqb_spec c 38); [eexists; eexists; split; [reflexivity | exact A]|].
  destruct (N.eqb_spec c 60); [eexists; eexists; split; [reflexivity | exact A]|].
  destruct (N.eqb_spec c 62); [eexists; eexists; split; [reflexivity | exact A]|].
  destruct ((c =? 34) && negb kq) eqn:Q1; [eexists; eexists; split; [reflexivity | exact A]|].
  destruct ((c =? 39) && negb kq) eqn:Q2; [eexists; eexists; split; [reflexivity | exact A]|].
  destruct ((c <? 32) && (cw || negb (is_space c))); [eexists; eexists; split; [reflexivity | exact A]|].
  exists c, []. split; [reflexivity|]. apply N.eqb_neq.
  destruct SO as [->|[-> [->| ->]]]; try assumption.
  - rewrite andb_true_r in Q1. now apply N.eqb_neq.
  - rewrite andb_true_r in Q2. now apply N.eqb_neq.
Qed.

Lemma xml_read_keep_encoded utf8 cw kq stop s rest : no_ref s = true -> stop_ok kq stop ->
  forall fuel, (length (xml_enc cw kq false s) <= fuel)%nat ->
  read_keep utf8 stop fuel (xml_enc cw kq false s ++ stop :: rest) = Some s.
Proof.
  intros NR SO. induction s as [|c t IH]; intros fuel Hf.
  - cbn [xml_enc app]. destruct fuel; cbn [read_keep]; now rewrite N.eqb_refl.
  - rewrite xml_enc_step in * by assumption.
    assert (NRt : no_ref t = true) by (cbn [no_ref] in NR; apply andb_true_iff in NR; tauto).
    destruct (enc1_head cw kq c stop SO) as (h & tl & E & Hh).
    rewrite <- app_assoc. rewrite E in *.
    destruct fuel as [|k]; [cbn [length app] in Hf; lia|].
    cbn [app read_keep]. rewrite Hh.
    change (h :: tl ++ xml_enc cw kq false t ++ stop :: rest) with ((h :: tl) ++ xml_enc cw kq false t ++ stop :: rest).
    rewrite <- E. rewrite xml_char_roundtrip. rewrite (IH NRt k).
    + reflexivity.
    + cbn [length app] in Hf. rewrite app_length in Hf. lia.
Qed.

(* attribute values written by the library are read back unchanged (any bytes, any white space), whichever quote
   delimits them and whatever follows in the document *)
Lemma xml_attribute_roundtrip utf8 cw q s rest : no_ref s = true -> q = 34 \/ q = 39 ->
  xml_read_attr utf8 q (xml_encode cw false s ++ q :: rest) = Some s.
Proof.
  intros H Q. unfold xml_read_attr, xml_encode. apply xml_read_keep_encoded; [assumption | right; tauto|].
  rewrite app_length. lia.
Qed.

(* element text, white space kept (condensing switched off): read back unchanged unless it is all white space *)
Lemma xml_text_roundtrip_keep utf8 s rest : no_ref s = true -> all_space s = false ->
  xml_read_text false utf8 (xml_encode false true s ++ 60 :: rest) = Some s.
Proof.
  intros H B. unfold xml_read_text, xml_encode.
  rewrite xml_read_keep_encoded; [now rewrite B | assumption | now left|]. rewrite app_length. lia.
Qed.

(* REFUTED for arbitrary strings: text that already looks like a hexadecimal reference is written unescaped
   and comes back decoded ("&#x41;" -> "A"), and "a&#x" produces a document that cannot be parsed *)
Lemma xml_roundtrip_refuted :
  xml_read_attr true 34 (xml_encode true false [38; 35; 120; 52; 49; 59] ++ [34; 32; 47; 62]) = Some [65] /\
  xml_read_attr true 34 (xml_encode true false [97; 38; 35; 120] ++ [34; 32; 47; 62]) = None.
Proof. split; reflexivity. Qed.

(* blank element text is dropped by the reader in both modes *)
Lemma xml_blank_text_refuted : xml_read_text true true (xml_encode true true [9] ++ [60; 47; 114; 62]) = Some [] /\
                               xml_read_text false true (xml_encode false true [32] ++ [60; 47; 114; 62]) = Some [].
Proof. split; reflexivity. Qed.

(* hand-written references: lower case, upper case and decimal denote the same character; condensing does
   not touch decoded characters; a reference above 127 becomes UTF-8 in UTF-8 mode and one byte otherwise; an
   unterminated reference looks for its ';' beyond the end of the value *)
Example xml_reference_examples :
  xml_read_attr true 34 ([38;35;120;48;97;59; 38;35;120;48;65;59; 38;35;49;48;59] ++ [34]) = Some [10; 10; 10] /\
  xml_read_text true true ([32; 97; 32; 32; 38;35;120;48;65;59; 98; 32] ++ [60]) = Some [97; 32; 10; 98] /\
  xml_read_attr true 34 ([38;35;50;51;51;59] ++ [34]) = Some [195; 169] /\
  xml_read_attr false 34 ([38;35;50;51;51;59] ++ [34]) = Some [233] /\
  xml_read_attr true 34 ([38;35;120;90;59] ++ [34]) = None /\
  xml_read_attr true 34 ([38;35] ++ [34; 62; 60; 47; 114; 62]) = None.
Proof. repeat split; reflexivity. Qed.
