(** C33: the bridge between part (i) and part (ii) for Parallel2DExecutor.
    In one pass (= one ParallelExecutor::execute round, C33_PE.v) worker w runs exactly the task indices
    [stripe w T (length pass)] (theorem pe_round_executes_stripes), and rounds do not overlap
    (pe_execute_returns_only_when_all_finished).  Here: the invocations run by two different workers in the same
    pass never share an index, so invocations that share an index are either in different passes or run
    sequentially by the same worker. *)
From Coq Require Import Arith List Bool Lia.
Import ListNotations.
Require Import C33_Index C33_IndexProofs.

Lemma stripes_distinct T n w1 w2 k1 k2 :
  w1 < T -> w2 < T -> w1 <> w2 -> In k1 (stripe w1 T n) -> In k2 (stripe w2 T n) -> k1 <> k2.
Proof.
  intros L1 L2 N I1 I2 E.
  apply stripe_spec in I1; [|lia]. apply stripe_spec in I2; [|lia].
  destruct I1 as (_ & a & ->). destruct I2 as (_ & b & E2).
  assert (H1 : (w1 + a * T) mod T = w1) by (rewrite Nat.mod_add by lia; apply Nat.mod_small; auto).
  assert (H2 : (w2 + b * T) mod T = w2) by (rewrite Nat.mod_add by lia; apply Nat.mod_small; auto).
  rewrite E, E2, H2 in H1. congruence.
Qed.

Theorem p2d_different_workers_never_share_an_index gridSize np rt T pass w1 w2 k1 k2 ta tb p q :
  In pass (p2d_passes gridSize np rt) ->
  w1 < T -> w2 < T -> w1 <> w2 ->
  In k1 (stripe w1 T (length pass)) -> In k2 (stripe w2 T (length pass)) ->
  nth_error pass k1 = Some ta -> nth_error pass k2 = Some tb ->
  In p ta -> In q tb -> share_index p q = false.
Proof.
  intros HP L1 L2 N I1 I2 E1 E2 Ip Iq.
  apply (p2d_same_pass_tasks_disjoint_indices gridSize np rt pass k1 k2 ta tb p q); auto.
  apply (stripes_distinct T (length pass) w1 w2); auto.
Qed.

(** the same for the constructor taking an existing ParallelExecutor (nproc >= 2) *)
Theorem p2d_ext_different_workers_never_share_an_index gridSize nproc rt T pass w1 w2 k1 k2 ta tb p q :
  nproc >= 2 -> In pass (p2d_passes_ext gridSize nproc rt) ->
  w1 < T -> w2 < T -> w1 <> w2 ->
  In k1 (stripe w1 T (length pass)) -> In k2 (stripe w2 T (length pass)) ->
  nth_error pass k1 = Some ta -> nth_error pass k2 = Some tb ->
  In p ta -> In q tb -> share_index p q = false.
Proof.
  intros HN HP L1 L2 N I1 I2 E1 E2 Ip Iq.
  apply (p2d_ext_same_pass_tasks_disjoint_indices gridSize nproc rt pass k1 k2 ta tb p q); auto.
  apply (stripes_distinct T (length pass) w1 w2); auto.
Qed.

(** non-vacuity: pass 1 of p2d_passes 9 4 HalfMatrix run by 2 workers: worker 0 runs task 0, worker 1 task 1, both non-empty *)
Example p2d_workers_nonvac :
  exists pass ta tb, nth_error (p2d_passes 9 4 HalfMatrix) 1 = Some pass /\
    In 0 (stripe 0 2 (length pass)) /\ In 1 (stripe 1 2 (length pass)) /\
    nth_error pass 0 = Some ta /\ nth_error pass 1 = Some tb /\ ta <> [] /\ tb <> [].
Proof. vm_compute. do 3 eexists. repeat split; try reflexivity; auto; discriminate. Qed.
