(** C33 part (i): pure index functions of ParallelExecutor / Parallel2DExecutor (hand-written model).
    Executable Gallina over nat, no proofs here (they are in C33_IndexProofs.v).

    Anchors (SimTKcommon/src):
      ParallelExecutor.cpp   threadBody:   index = info.index; while (index < count) { execute(index); index += threadCount; }
                             execute():    numMaxThreads < 2  -> sequential 0..times-1 on the caller
      Parallel2DExecutor.cpp init():       levels loop, bins = 1<<levels, binStart[i] = floor(0.5+i*gridSize/(double)bins)
                             addSquare / addTriangle: recursive construction of squares[pass-1]
                             TriangleTask::execute, SquareTask::execute: loops per RangeType
                             execute():    triangle pass (width 2, bins/2 tasks), then one ParallelExecutor::execute per squares[i]
    Integers are unbounded here; the C++ uses int (assumption: gridSize*bins and times+threads below 2^31). *)
From Coq Require Import Arith List Bool.
Import ListNotations.

(* ------------------------------------------------------------------ ParallelExecutor *)

(** the worker loop [while (index < count) { execute(index); index += threadCount; }], fuel = number of loop tests *)
Fixpoint stripe_loop (fuel index count threadCount : nat) : list nat :=
  match fuel with
  | 0 => []
  | S f => if index <? count then index :: stripe_loop f (index + threadCount) count threadCount else []
  end.

(** indices executed, in order, by worker [t] of [T] for a task count [n] ([S n] loop tests always suffice when T > 0) *)
Definition stripe (t T n : nat) : list nat := stripe_loop (S n) t n T.

(** per-thread execution lists of ParallelExecutor(maxThreads).execute(task, n):
    one list (the caller) when maxThreads < 2, else one list per worker thread *)
Definition pe_workers (maxThreads n : nat) : list (list nat) :=
  if maxThreads <? 2 then [seq 0 n] else map (fun t => stripe t maxThreads n) (seq 0 maxThreads).

(** number of initialize() (= number of finish()) calls of one execute() *)
Definition pe_init_calls (maxThreads : nat) : nat := if maxThreads <? 2 then 1 else maxThreads.

(* ------------------------------------------------------------------ Parallel2DExecutor *)

Inductive rangeType := FullMatrix | HalfMatrix | HalfPlusDiagonal.

(** [levels = 1; while (1<<levels < numProcessors) levels++;]   (fuel = numProcessors suffices) *)
Fixpoint lev_loop (fuel levels np : nat) : nat :=
  match fuel with
  | 0 => levels
  | S f => if 2 ^ levels <? np then lev_loop f (S levels) np else levels
  end.
(** ... followed by [levels++] *)
Definition levels_of (np : nat) : nat := S (lev_loop np 1 np).

(** binStart[i] = (int) floor(0.5 + i*gridSize/(double)bins) for i < bins (bins is a power of two, so the
    division and the addition are exact in binary64), binStart[bins] = gridSize *)
Definition binStart (bins n i : nat) : nat :=
  if i <? bins then (2 * i * n + bins) / (2 * bins) else n.

(** addSquare / addTriangle: the list of [squares[pass-1].push_back((x,y))] calls in program order, as (pass,(x,y)) *)
Fixpoint addSquare (x y pass level : nat) : list (nat * (nat * nat)) :=
  match level with
  | 0 => [(pass, (x, y))]
  | S l => addSquare (2*x)   (2*y+1) (2*pass+1) l ++ addSquare (2*x+1) (2*y+2) (2*pass+1) l
        ++ addSquare (2*x)   (2*y+2) (2*pass+2) l ++ addSquare (2*x+1) (2*y+1) (2*pass+2) l
  end.

Fixpoint addTriangle (x y pass level : nat) : list (nat * (nat * nat)) :=
  match level with
  | S (S _ as l) => addSquare (2*x) (2*y) (2*pass) l
                 ++ addTriangle (2*x) (2*y) (2*pass) l ++ addTriangle (2*x+1) (2*y+1) (2*pass) l
  | _ => []
  end.

(** contents of squares[i] after init() (push order preserved) *)
Definition squares_of (levels i : nat) : list (nat * nat) :=
  map snd (filter (fun e => fst e =? S i) (addTriangle 0 0 0 levels)).

(** TriangleTask::execute body for the index range [start,end_) *)
Definition tri_pairs (rt : rangeType) (start end_ : nat) : list (nat * nat) :=
  match rt with
  | FullMatrix       => flat_map (fun i => map (pair i) (seq start (end_ - start))) (seq start (end_ - start))
  | HalfMatrix       => flat_map (fun i => map (pair i) (seq start (i - start)))    (seq start (end_ - start))
  | HalfPlusDiagonal => flat_map (fun i => map (pair i) (seq start (S i - start)))  (seq start (end_ - start))
  end.

(** SquareTask::execute body for rows [istart,iend) and columns [jstart,jend) *)
Definition sq_pairs (rt : rangeType) (istart iend jstart jend : nat) : list (nat * nat) :=
  match rt with
  | FullMatrix => flat_map (fun i => flat_map (fun j => [(i, j); (j, i)]) (seq jstart (jend - jstart)))
                           (seq istart (iend - istart))
  | _          => flat_map (fun i => map (pair i) (seq jstart (jend - jstart))) (seq istart (iend - istart))
  end.

Definition triangleTask (rt : rangeType) (bs : nat -> nat) (width index : nat) : list (nat * nat) :=
  tri_pairs rt (bs (width * index)) (bs (width * (index + 1))).

Definition squareTask (rt : rangeType) (bs : nat -> nat) (sq : nat * nat) : list (nat * nat) :=
  let (x, y) := sq in sq_pairs rt (bs (y + 1)) (bs (y + 2)) (bs x) (bs (x + 1)).

(** the parallel branch of execute() for a given number of levels: list of passes, each a list of tasks
    (task k of a pass is index k of that ParallelExecutor::execute call), each the pairs it executes in order *)
Definition p2d_par (levels n : nat) (rt : rangeType) : list (list (list (nat * nat))) :=
  let bins := 2 ^ levels in
  let bs := binStart bins n in
  map (triangleTask rt bs 2) (seq 0 (bins / 2))
  :: map (fun i => map (squareTask rt bs) (squares_of levels i)) (seq 0 (bins - 1)).

(** the executor == 0 branch *)
Definition p2d_seq (n : nat) (rt : rangeType) : list (list (list (nat * nat))) :=
  [[triangleTask rt (binStart 1 n) 1 0]].

(** Parallel2DExecutor(gridSize, numProcessors).execute(task, rt) *)
Definition p2d_passes (gridSize numProcessors : nat) (rt : rangeType) : list (list (list (nat * nat))) :=
  let np := Nat.min numProcessors (gridSize / 2) in
  if np <? 2 then p2d_seq gridSize rt else p2d_par (levels_of np) gridSize rt.

(** number of threads of the owned ParallelExecutor (0 = none, everything runs on the caller) *)
Definition p2d_threads (gridSize numProcessors : nat) : nat :=
  let np := Nat.min numProcessors (gridSize / 2) in if np <? 2 then 0 else np.

(** Parallel2DExecutor(gridSize, ParallelExecutor&): init(getNumProcessors()) where getNumProcessors() is the static
    machine processor count [nproc]; the executor pointer is never null, so execute() always takes the parallel
    branch; with nproc < 2 init() leaves bins = 1 and an empty square table. *)
Definition p2d_passes_ext (gridSize nproc : nat) (rt : rangeType) : list (list (list (nat * nat))) :=
  if nproc <? 2
  then [map (triangleTask rt (binStart 1 gridSize) 2) (seq 0 (1 / 2))]
  else p2d_par (levels_of nproc) gridSize rt.

(** bins+1 entries of the binStart table and the square table, as init() leaves them (for the structural comparison) *)
Definition p2d_bins (np : nat) : nat := if np <? 2 then 1 else 2 ^ levels_of np.
Definition p2d_binStart_table (gridSize np : nat) : list nat :=
  map (binStart (p2d_bins np) gridSize) (seq 0 (S (p2d_bins np))).
Definition p2d_squares_table (np : nat) : list (list (nat * nat)) :=
  if np <? 2 then [] else map (squares_of (levels_of np)) (seq 0 (2 ^ levels_of np - 1)).

(** the requested range *)
Definition in_range (n : nat) (rt : rangeType) (p : nat * nat) : bool :=
  let (i, j) := p in
  match rt with
  | FullMatrix => (i <? n) && (j <? n)
  | HalfMatrix => (i <? n) && (j <? i)
  | HalfPlusDiagonal => (i <? n) && (j <=? i)
  end.

(** two invocations share an index *)
Definition share_index (p q : nat * nat) : bool :=
  (fst p =? fst q) || (fst p =? snd q) || (snd p =? fst q) || (snd p =? snd q).

(** the argument init() is called with: min(numProcessors, gridSize/2) for the owning constructor, the machine's
    processor count [nproc] for the constructor taking a ParallelExecutor *)
Definition p2d_np (gridSize numProcessors : nat) : nat := Nat.min numProcessors (gridSize / 2).
Definition p2d_init_np (ext : bool) (gridSize numProcessors nproc : nat) : nat :=
  if ext then nproc else p2d_np gridSize numProcessors.
