(** C33 part (i), proofs: index arithmetic of ParallelExecutor / Parallel2DExecutor (model in C33_Index.v).

    ParallelExecutor    stripe_spec, stripe_increasing, stripes_partition, pe_workers_partition
    binStart            binStart_monotone_covers
    square table        addSquare_bounds, addTriangle_pass_bounds, squares_bins_in_table
    cover exactly once  p2d_par_cover_exactly_once, p2d_cover_exactly_once, p2d_ext_cover_exactly_once,
                        p2d_ext_single_processor_refuted, p2d_pairs_nodup, p2d_pairs_in
    same-pass tasks     p2d_par_same_pass_disjoint, p2d_same_pass_tasks_disjoint_indices,
                        p2d_ext_same_pass_tasks_disjoint_indices
    The recursive cover and the disjointness are proved for an arbitrary monotone bin table [bs] and
    instantiated with [binStart bins n] through binStart_monotone_covers. *)
From Coq Require Import Arith List Bool Lia ZifyBool Permutation Sorted.
Import ListNotations.
Require Import C33_Index.

(* ================================================================== ParallelExecutor: stripes *)

Lemma stripe_loop_spec fuel : forall t T n i,
  In i (stripe_loop fuel t n T) <-> i < n /\ exists k, k < fuel /\ i = t + k * T.
Proof.
  induction fuel as [|f IH]; intros t T n i; cbn [stripe_loop].
  - split; [intros [] | intros [_ [k [Hk _]]]; lia].
  - destruct (t <? n) eqn:E.
    + apply Nat.ltb_lt in E. cbn [In]. rewrite IH. split.
      * intros [H | [Hi [k [Hk Hik]]]].
        -- subst i. split; [lia|]. exists 0. split; lia.
        -- split; [lia|]. exists (S k). split; [lia|]. rewrite Hik. cbn [Nat.mul]. lia.
      * intros [Hi [k [Hk Hik]]]. destruct k as [|k].
        -- left. lia.
        -- right. split; [lia|]. exists k. split; [lia|]. rewrite Hik. cbn [Nat.mul]. lia.
    + apply Nat.ltb_ge in E. split; [intros [] | intros [Hi [k [Hk Hik]]]; lia].
Qed.

Theorem stripe_spec t T n i : T > 0 -> (In i (stripe t T n) <-> i < n /\ exists k, i = t + k * T).
Proof.
  intros HT. unfold stripe. rewrite stripe_loop_spec. split.
  - intros [Hi [k [_ Hk]]]. split; [lia|]. exists k. exact Hk.
  - intros [Hi [k Hk]]. split; [lia|]. exists k. split; [|exact Hk].
    assert (k * 1 <= k * T) by (apply Nat.mul_le_mono_l; lia). lia.
Qed.

Lemma stripe_loop_sorted fuel : forall t T n, T > 0 -> StronglySorted lt (stripe_loop fuel t n T).
Proof.
  induction fuel as [|f IH]; intros t T n HT; cbn [stripe_loop].
  - constructor.
  - destruct (t <? n); [|constructor]. constructor; [apply IH; exact HT|].
    apply Forall_forall. intros i Hi. apply stripe_loop_spec in Hi.
    destruct Hi as [_ [k [_ Hk]]]. lia.
Qed.

Theorem stripe_increasing t T n : T > 0 -> StronglySorted lt (stripe t T n).
Proof. intros. apply stripe_loop_sorted. assumption. Qed.

Lemma StronglySorted_lt_NoDup l : StronglySorted lt l -> NoDup l.
Proof.
  induction 1 as [|a l Hs IH Hf]; constructor; [|exact IH].
  intros Hin. rewrite Forall_forall in Hf. specialize (Hf a Hin). lia.
Qed.

Lemma NoDup_app_intro {A} (l1 l2 : list A) :
  NoDup l1 -> NoDup l2 -> (forall x, In x l1 -> In x l2 -> False) -> NoDup (l1 ++ l2).
Proof.
  induction l1 as [|a l1 IH]; intros H1 H2 Hd; cbn [app]; [exact H2|].
  inversion H1; subst. constructor.
  - rewrite in_app_iff. intros [H | H]; [contradiction|]. apply (Hd a); [left; reflexivity | exact H].
  - apply IH; [assumption | assumption |]. intros x Hx1 Hx2. apply (Hd x); [right; exact Hx1 | exact Hx2].
Qed.

Lemma NoDup_concat_map {A B} (f : A -> list B) (L : list A) :
  NoDup L -> (forall a, In a L -> NoDup (f a)) ->
  (forall a b x, In a L -> In b L -> a <> b -> In x (f a) -> In x (f b) -> False) ->
  NoDup (concat (map f L)).
Proof.
  induction L as [|a L IH]; intros HL Hf Hd; cbn [map concat]; [constructor|].
  inversion HL; subst. apply NoDup_app_intro.
  - apply Hf. left; reflexivity.
  - apply IH; [assumption | intros; apply Hf; right; assumption |].
    intros a' b' x Ha Hb. apply Hd; right; assumption.
  - intros x Hx1 Hx2. apply in_concat in Hx2. destruct Hx2 as [l' [Hl' Hx2]].
    apply in_map_iff in Hl'. destruct Hl' as [b [Hb1 Hb2]]. subst l'.
    apply (Hd a b x); [left; reflexivity | right; exact Hb2 | | exact Hx1 | exact Hx2].
    intros ->. contradiction.
Qed.

Lemma residue_unique T t1 k1 t2 k2 : t1 < T -> t2 < T -> t1 + k1 * T = t2 + k2 * T -> t1 = t2.
Proof.
  intros H1 H2 He.
  assert (E1 : (t1 + k1 * T) mod T = t1) by (rewrite Nat.mod_add by lia; apply Nat.mod_small; exact H1).
  assert (E2 : (t2 + k2 * T) mod T = t2) by (rewrite Nat.mod_add by lia; apply Nat.mod_small; exact H2).
  rewrite He in E1. congruence.
Qed.

Theorem stripes_partition n T : T > 0 ->
  Permutation (concat (map (fun t => stripe t T n) (seq 0 T))) (seq 0 n).
Proof.
  intros HT. apply NoDup_Permutation.
  - apply NoDup_concat_map.
    + apply seq_NoDup.
    + intros a _. apply StronglySorted_lt_NoDup. apply stripe_increasing. exact HT.
    + intros a b x Ha Hb Hab Hxa Hxb. apply in_seq in Ha. apply in_seq in Hb.
      apply stripe_spec in Hxa; [|exact HT]. apply stripe_spec in Hxb; [|exact HT].
      destruct Hxa as [_ [k1 E1]]. destruct Hxb as [_ [k2 E2]].
      apply Hab. apply (residue_unique T a k1 b k2); lia.
  - apply seq_NoDup.
  - intros i. rewrite in_seq. split.
    + intros H. apply in_concat in H. destruct H as [l [Hl Hi]].
      apply in_map_iff in Hl. destruct Hl as [t [<- _]].
      apply stripe_spec in Hi; [|exact HT]. lia.
    + intros Hi. apply in_concat. exists (stripe (i mod T) T n). split.
      * apply in_map_iff. exists (i mod T). split; [reflexivity|]. apply in_seq.
        assert (i mod T < T) by (apply Nat.mod_upper_bound; lia). lia.
      * apply stripe_spec; [exact HT|]. split; [lia|]. exists (i / T).
        pose proof (Nat.div_mod i T ltac:(lia)) as E. lia.
Qed.

Theorem pe_workers_partition m n : m > 0 -> Permutation (concat (pe_workers m n)) (seq 0 n).
Proof.
  intros Hm. unfold pe_workers. destruct (m <? 2).
  - cbn [concat]. rewrite app_nil_r. apply Permutation_refl.
  - apply stripes_partition. exact Hm.
Qed.

Example stripes_nonvac : concat (map (fun t => stripe t 3 10) (seq 0 3)) = [0;3;6;9;1;4;7;2;5;8].
Proof. vm_compute. reflexivity. Qed.

Example pe_workers_nonvac : pe_workers 4 10 = [[0;4;8];[1;5;9];[2;6];[3;7]] /\ pe_workers 1 3 = [[0;1;2]].
Proof. vm_compute. split; reflexivity. Qed.

(* ================================================================== binStart *)

Theorem binStart_monotone_covers bins n : bins > 0 ->
  binStart bins n 0 = 0 /\ binStart bins n bins = n /\
  forall i j, i <= j -> binStart bins n i <= binStart bins n j.
Proof.
  intros Hb. unfold binStart. split; [|split].
  - destruct (0 <? bins) eqn:E; [|apply Nat.ltb_ge in E; lia].
    apply Nat.div_small. lia.
  - rewrite Nat.ltb_irrefl. reflexivity.
  - intros i j Hij.
    destruct (i <? bins) eqn:Ei; destruct (j <? bins) eqn:Ej;
      try apply Nat.ltb_lt in Ei; try apply Nat.ltb_ge in Ei;
      try apply Nat.ltb_lt in Ej; try apply Nat.ltb_ge in Ej; try lia.
    + apply Nat.div_le_mono; [lia|].
      assert (i * n <= j * n) by (apply Nat.mul_le_mono_r; exact Hij). lia.
    + assert (H : (2 * i * n + bins) / (2 * bins) < n + 1); [|lia].
      apply Nat.div_lt_upper_bound; [lia|].
      assert (i * n <= bins * n) by (apply Nat.mul_le_mono_r; lia). lia.
Qed.

(* ================================================================== counting *)

Definition pair_eq_dec : forall p q : nat * nat, {p = q} + {p <> q}.
Proof. decide equality; apply Nat.eq_dec. Defined.

Definition cnt (l : list (nat * nat)) (p : nat * nat) : nat := count_occ pair_eq_dec l p.

Lemma cnt_nil p : cnt [] p = 0.
Proof. reflexivity. Qed.

Lemma cnt_app l1 l2 p : cnt (l1 ++ l2) p = cnt l1 p + cnt l2 p.
Proof. apply count_occ_app. Qed.

Lemma cnt_cons a b l i j :
  cnt ((a, b) :: l) (i, j) = Nat.b2n ((a =? i) && (b =? j)) + cnt l (i, j).
Proof.
  unfold cnt. cbn [count_occ]. destruct (pair_eq_dec (a, b) (i, j)) as [E | E].
  - inversion E; subst. rewrite !Nat.eqb_refl. reflexivity.
  - destruct (a =? i) eqn:E1; destruct (b =? j) eqn:E2; try reflexivity.
    apply Nat.eqb_eq in E1. apply Nat.eqb_eq in E2. subst. contradiction.
Qed.

Lemma cnt_row a len : forall lo i j,
  cnt (map (pair a) (seq lo len)) (i, j) = Nat.b2n ((a =? i) && (lo <=? j) && (j <? lo + len)).
Proof.
  induction len as [|len IH]; intros lo i j; cbn [seq map].
  - rewrite cnt_nil. lia.
  - rewrite cnt_cons, IH. destruct (a =? i); cbn [andb Nat.b2n Nat.add]; lia.
Qed.

Lemma cnt_rows (lo len : nat -> nat) n : forall s i j,
  cnt (flat_map (fun a => map (pair a) (seq (lo a) (len a))) (seq s n)) (i, j)
  = Nat.b2n ((s <=? i) && (i <? s + n) && (lo i <=? j) && (j <? lo i + len i)).
Proof.
  induction n as [|n IH]; intros s i j; cbn [seq flat_map].
  - rewrite cnt_nil. lia.
  - rewrite cnt_app, cnt_row, IH. destruct (Nat.eq_dec s i) as [->|]; lia.
Qed.

Lemma cnt_row2 a jn : forall js i j,
  cnt (flat_map (fun b => [(a, b); (b, a)]) (seq js jn)) (i, j)
  = Nat.b2n ((a =? i) && (js <=? j) && (j <? js + jn)) + Nat.b2n ((a =? j) && (js <=? i) && (i <? js + jn)).
Proof.
  induction jn as [|jn IH]; intros js i j; cbn [seq flat_map app].
  - rewrite cnt_nil. lia.
  - rewrite !cnt_cons, IH. rewrite (andb_comm (js =? i) (a =? j)).
    destruct (a =? i); destruct (a =? j); cbn [andb Nat.b2n Nat.add]; lia.
Qed.

Lemma cnt_rows2 js jn n : forall s i j,
  cnt (flat_map (fun a => flat_map (fun b => [(a, b); (b, a)]) (seq js jn)) (seq s n)) (i, j)
  = Nat.b2n ((s <=? i) && (i <? s + n) && (js <=? j) && (j <? js + jn))
  + Nat.b2n ((s <=? j) && (j <? s + n) && (js <=? i) && (i <? js + jn)).
Proof.
  induction n as [|n IH]; intros s i j; cbn [seq flat_map].
  - rewrite cnt_nil. lia.
  - rewrite cnt_app, cnt_row2, IH.
    destruct (js <=? j); destruct (j <? js + jn); destruct (js <=? i); destruct (i <? js + jn);
      rewrite ?andb_false_r, ?andb_true_r; cbn [Nat.b2n Nat.add]; lia.
Qed.

(** indicator of the rectangle rows [r0,r1) x columns [c0,c1) *)
Definition rect (r0 r1 c0 c1 i j : nat) : bool := (r0 <=? i) && (i <? r1) && (c0 <=? j) && (j <? c1).

Definition sqI (rt : rangeType) (r0 r1 c0 c1 : nat) (p : nat * nat) : nat :=
  let (i, j) := p in
  match rt with
  | FullMatrix => Nat.b2n (rect r0 r1 c0 c1 i j) + Nat.b2n (rect r0 r1 c0 c1 j i)
  | _ => Nat.b2n (rect r0 r1 c0 c1 i j)
  end.

(** the diagonal block [lo,hi) of the requested range *)
Definition in_block (rt : rangeType) (lo hi : nat) (p : nat * nat) : bool :=
  let (i, j) := p in
  match rt with
  | FullMatrix => rect lo hi lo hi i j
  | HalfMatrix => (lo <=? i) && (i <? hi) && (lo <=? j) && (j <? i)
  | HalfPlusDiagonal => (lo <=? i) && (i <? hi) && (lo <=? j) && (j <=? i)
  end.

Definition inr (lo hi i : nat) : bool := (lo <=? i) && (i <? hi).
Lemma b2n_rect r0 r1 c0 c1 i j : Nat.b2n (rect r0 r1 c0 c1 i j) = Nat.b2n (inr r0 r1 i) * Nat.b2n (inr c0 c1 j).
Proof. unfold rect, inr. destruct (r0 <=? i), (i <? r1), (c0 <=? j), (j <? c1); reflexivity. Qed.
Lemma inr_split a b c i : a <= b -> b <= c -> Nat.b2n (inr a c i) = Nat.b2n (inr a b i) + Nat.b2n (inr b c i).
Proof. unfold inr. lia. Qed.
Lemma rect_split4 r0 r1 r2 c0 c1 c2 i j : r0 <= r1 -> r1 <= r2 -> c0 <= c1 -> c1 <= c2 ->
  Nat.b2n (rect r0 r1 c0 c1 i j) + Nat.b2n (rect r1 r2 c1 c2 i j)
  + Nat.b2n (rect r1 r2 c0 c1 i j) + Nat.b2n (rect r0 r1 c1 c2 i j) = Nat.b2n (rect r0 r2 c0 c2 i j).
Proof. intros. rewrite !b2n_rect. rewrite (inr_split r0 r1 r2), (inr_split c0 c1 c2) by assumption. ring. Qed.
Lemma sqI_split4 rt r0 r1 r2 c0 c1 c2 p : r0 <= r1 -> r1 <= r2 -> c0 <= c1 -> c1 <= c2 ->
  sqI rt r0 r1 c0 c1 p + sqI rt r1 r2 c1 c2 p + sqI rt r1 r2 c0 c1 p + sqI rt r0 r1 c1 c2 p = sqI rt r0 r2 c0 c2 p.
Proof.
  intros. destruct p as [i j]. unfold sqI. destruct rt.
  - rewrite <- (rect_split4 r0 r1 r2 c0 c1 c2 i j), <- (rect_split4 r0 r1 r2 c0 c1 c2 j i) by assumption. ring.
  - apply rect_split4; assumption.
  - apply rect_split4; assumption.
Qed.
Lemma block_split rt A B C p : A <= B -> B <= C ->
  Nat.b2n (in_block rt A B p) + Nat.b2n (in_block rt B C p) + sqI rt B C A B p = Nat.b2n (in_block rt A C p).
Proof.
  intros. destruct p as [i j]. (destruct rt; unfold in_block, sqI, rect; lia).
Qed.

Lemma cnt_sq_pairs rt r0 r1 c0 c1 i j : cnt (sq_pairs rt r0 r1 c0 c1) (i, j) = sqI rt r0 r1 c0 c1 (i, j).
Proof.
  pose proof (cnt_rows (fun _ => c0) (fun _ => c1 - c0) (r1 - r0) r0 i j) as H. cbv beta in H.
  destruct rt; unfold sq_pairs, sqI, rect.
  - rewrite cnt_rows2. lia.
  - rewrite H. lia.
  - rewrite H. lia.
Qed.

Lemma cnt_tri_pairs rt lo hi i j : cnt (tri_pairs rt lo hi) (i, j) = Nat.b2n (in_block rt lo hi (i, j)).
Proof.
  destruct rt; unfold tri_pairs, in_block, rect.
  - pose proof (cnt_rows (fun _ => lo) (fun _ => hi - lo) (hi - lo) lo i j) as H. cbv beta in H.
    rewrite H. lia.
  - pose proof (cnt_rows (fun _ => lo) (fun a => a - lo) (hi - lo) lo i j) as H. cbv beta in H.
    rewrite H. lia.
  - pose proof (cnt_rows (fun _ => lo) (fun a => S a - lo) (hi - lo) lo i j) as H. cbv beta in H.
    rewrite H. lia.
Qed.

Lemma in_block_in_range n rt p : in_block rt 0 n p = in_range n rt p.
Proof. destruct p as [i j]. destruct rt; unfold in_block, in_range, rect; lia. Qed.

(* ------------------------------------------------------------------ recursive cover, arbitrary monotone table *)

Section Cover.
  Variable rt : rangeType.
  Variable bs : nat -> nat.
  Hypothesis Hmono : forall a b, a <= b -> bs a <= bs b.

  Lemma sq_cnt : forall l x y p c0 r0, c0 = x * 2 ^ l -> r0 = (y + 1) * 2 ^ l -> forall i j,
    cnt (flat_map (squareTask rt bs) (map snd (addSquare x y p l))) (i, j)
    = sqI rt (bs r0) (bs (r0 + 2 ^ l)) (bs c0) (bs (c0 + 2 ^ l)) (i, j).
  Proof.
    induction l as [|l IH]; intros x y p c0 r0 Hc Hr i j.
    - cbn [addSquare map snd flat_map squareTask]. rewrite app_nil_r, cnt_sq_pairs.
      cbn [Nat.pow] in *.
      replace (y + 1) with r0 by lia. replace (y + 2) with (r0 + 1) by lia.
      replace (x + 1) with (c0 + 1) by lia. replace x with c0 by lia. reflexivity.
    - cbn [addSquare]. rewrite !map_app, !flat_map_app, !cnt_app.
      rewrite Nat.pow_succ_r' in *. set (P := 2 ^ l) in *. clearbody P.
      rewrite (IH (2 * x) (2 * y + 1) (2 * p + 1) c0 r0) by lia.
      rewrite (IH (2 * x + 1) (2 * y + 2) (2 * p + 1) (c0 + P) (r0 + P)) by lia.
      rewrite (IH (2 * x) (2 * y + 2) (2 * p + 2) c0 (r0 + P)) by lia.
      rewrite (IH (2 * x + 1) (2 * y + 1) (2 * p + 2) (c0 + P) r0) by lia.
      replace (r0 + 2 * P) with (r0 + P + P) by lia.
      replace (c0 + 2 * P) with (c0 + P + P) by lia.
      rewrite !Nat.add_assoc. apply sqI_split4; apply Hmono; lia.
  Qed.

  Lemma tri_cnt : forall l t p c0, c0 = t * 2 ^ (S l) -> forall i j,
    cnt (flat_map (triangleTask rt bs 2) (seq (t * 2 ^ l) (2 ^ l))
         ++ flat_map (squareTask rt bs) (map snd (addTriangle t t p (S l)))) (i, j)
    = Nat.b2n (in_block rt (bs c0) (bs (c0 + 2 ^ (S l))) (i, j)).
  Proof.
    induction l as [|l IH]; intros t p c0 Hc i j.
    - cbn [addTriangle map flat_map Nat.pow seq app] in *. rewrite !app_nil_r.
      unfold triangleTask. rewrite cnt_tri_pairs.
      replace (2 * (t * 1)) with c0 by lia. replace (2 * (t * 1 + 1)) with (c0 + 2 * 1) by lia.
      reflexivity.
    - change (addTriangle t t p (S (S l)))
        with (addSquare (2 * t) (2 * t) (2 * p) (S l)
              ++ addTriangle (2 * t) (2 * t) (2 * p) (S l)
              ++ addTriangle (2 * t + 1) (2 * t + 1) (2 * p) (S l)).
      rewrite !map_app, !flat_map_app, !cnt_app.
      rewrite (Nat.pow_succ_r' 2 (S l)) in *.
      rewrite (sq_cnt (S l) (2 * t) (2 * t) (2 * p) c0 (c0 + 2 ^ S l)) by lia.
      pose proof (IH (2 * t) (2 * p) c0 ltac:(lia) i j) as IH1.
      pose proof (IH (2 * t + 1) (2 * p) (c0 + 2 ^ S l) ltac:(lia) i j) as IH2.
      clear IH.
      rewrite cnt_app in IH1, IH2.
      rewrite (Nat.pow_succ_r' 2 l) in *. set (Q := 2 ^ l) in *. clearbody Q.
      replace (2 * Q) with (Q + Q) at 2 by lia. rewrite seq_app, flat_map_app, cnt_app.
      replace (t * (2 * Q)) with (2 * t * Q) by lia.
      replace (2 * t * Q + Q) with ((2 * t + 1) * Q) by lia.
      set (P := 2 * Q) in *.
      replace (c0 + 2 * P) with (c0 + P + P) by lia.
      rewrite <- (block_split rt (bs c0) (bs (c0 + P)) (bs (c0 + P + P)) (i, j)) by (apply Hmono; lia).
      rewrite <- IH1, <- IH2. ring.
  Qed.

End Cover.

(* ================================================================== bounds of the recursive construction *)

Theorem addSquare_bounds level : forall x y p q x' y',
  In (q, (x', y')) (addSquare x y p level) ->
  x * 2 ^ level <= x' < (x + 1) * 2 ^ level /\
  (y + 1) * 2 ^ level <= y' + 1 < (y + 2) * 2 ^ level /\
  (p + 1) * 2 ^ level <= q + 1 < (p + 2) * 2 ^ level.
Proof.
  induction level as [|l IH]; intros x y p q x' y' H.
  - cbn [addSquare In] in H. destruct H as [H | []]. inversion H; subst. cbn [Nat.pow]. lia.
  - cbn [addSquare] in H. rewrite !in_app_iff in H. rewrite Nat.pow_succ_r'.
    destruct H as [H | [H | [H | H]]]; apply IH in H; set (P := 2 ^ l) in *; clearbody P; lia.
Qed.

Lemma addTriangle_SS x y p l :
  addTriangle x y p (S (S l)) =
  addSquare (2 * x) (2 * y) (2 * p) (S l)
  ++ addTriangle (2 * x) (2 * y) (2 * p) (S l) ++ addTriangle (2 * x + 1) (2 * y + 1) (2 * p) (S l).
Proof. reflexivity. Qed.

Lemma addTriangle_bounds L : forall t p q x' y',
  In (q, (x', y')) (addTriangle t t p L) ->
  t * 2 ^ L <= x' /\ x' < y' + 1 /\ y' + 2 <= (t + 1) * 2 ^ L /\
  p * 2 ^ L + 2 <= q + 1 /\ q + 1 < (p + 1) * 2 ^ L.
Proof.
  induction L as [|L IH]; intros t p q x' y' H; [destruct H|].
  destruct L as [|l]; [destruct H|].
  rewrite addTriangle_SS, !in_app_iff in H.
  rewrite (Nat.pow_succ_r' 2 (S l)).
  assert (HQ : 2 ^ l > 0) by (apply Nat.neq_0_lt_0, Nat.pow_nonzero; lia).
  destruct H as [H | [H | H]].
  - apply addSquare_bounds in H. rewrite (Nat.pow_succ_r' 2 l) in *.
    set (Q := 2 ^ l) in *; clearbody Q. lia.
  - apply IH in H. rewrite (Nat.pow_succ_r' 2 l) in *.
    set (Q := 2 ^ l) in *; clearbody Q. lia.
  - apply IH in H. rewrite (Nat.pow_succ_r' 2 l) in *.
    set (Q := 2 ^ l) in *; clearbody Q. lia.
Qed.

Theorem addTriangle_pass_bounds levels q xy :
  In (q, xy) (addTriangle 0 0 0 levels) -> 1 <= q /\ q + 2 <= 2 ^ levels.
Proof. destruct xy as [x y]. intros H. apply addTriangle_bounds in H. lia. Qed.

Theorem squares_bins_in_table levels i x y :
  In (x, y) (squares_of levels i) -> x < y + 1 /\ y + 2 <= 2 ^ levels.
Proof.
  unfold squares_of. intros H. apply in_map_iff in H. destruct H as [[q [x' y']] [E H]].
  cbn [snd] in E. inversion E; subst. apply filter_In in H. destruct H as [H _].
  apply addTriangle_bounds in H. lia.
Qed.

(* ================================================================== from passes to the emission order *)

Lemma filter_all_false {A} (f : A -> bool) l : (forall a, In a l -> f a = false) -> filter f l = [].
Proof.
  induction l as [|a l IH]; intros H; cbn [filter]; [reflexivity|].
  rewrite (H a (or_introl eq_refl)). apply IH. intros b Hb. apply H. right. exact Hb.
Qed.

Lemma filter_all_true {A} (f : A -> bool) l : (forall a, In a l -> f a = true) -> filter f l = l.
Proof.
  induction l as [|a l IH]; intros H; cbn [filter]; [reflexivity|].
  rewrite (H a (or_introl eq_refl)). f_equal. apply IH. intros b Hb. apply H. right. exact Hb.
Qed.

Lemma filt_split (g : nat * nat -> list (nat * nat)) p (f1 f2 f3 : nat * (nat * nat) -> bool) em :
  (forall e, In e em -> f3 e = f1 e || f2 e) -> (forall e, In e em -> f1 e && f2 e = false) ->
  cnt (flat_map g (map snd (filter f1 em))) p + cnt (flat_map g (map snd (filter f2 em))) p
  = cnt (flat_map g (map snd (filter f3 em))) p.
Proof.
  induction em as [|a em IH]; intros H3 H12; [reflexivity|].
  assert (IH' := IH (fun e He => H3 e (or_intror He)) (fun e He => H12 e (or_intror He))).
  pose proof (H3 a (or_introl eq_refl)) as E3. pose proof (H12 a (or_introl eq_refl)) as E12.
  cbn [filter]. rewrite E3.
  destruct (f1 a); destruct (f2 a); try discriminate; cbn [orb map flat_map]; rewrite ?cnt_app; lia.
Qed.

Lemma passes_cnt (g : nat * nat -> list (nat * nat)) em p m : forall s,
  cnt (concat (concat (map (fun i => map g (map snd (filter (fun e => fst e =? S i) em))) (seq s m)))) p
  = cnt (flat_map g (map snd (filter (fun e => (s <? fst e) && (fst e <=? s + m)) em))) p.
Proof.
  induction m as [|m IH]; intros s.
  - cbn [seq map concat]. rewrite filter_all_false; [reflexivity|]. intros a _. lia.
  - cbn [seq map concat]. rewrite concat_app, cnt_app, IH, <- flat_map_concat_map.
    apply filt_split; intros e _; lia.
Qed.

(* ================================================================== Parallel2DExecutor: cover exactly once *)

Lemma p2d_par_eq levels n rt :
  p2d_par levels n rt =
  map (triangleTask rt (binStart (2 ^ levels) n) 2) (seq 0 (2 ^ levels / 2))
  :: map (fun i => map (squareTask rt (binStart (2 ^ levels) n)) (squares_of levels i)) (seq 0 (2 ^ levels - 1)).
Proof. reflexivity. Qed.

Lemma b2n_if (b : bool) : Nat.b2n b = if b then 1 else 0.
Proof. destruct b; reflexivity. Qed.

Lemma pow2_pos l : 2 ^ l > 0.
Proof. apply Nat.neq_0_lt_0, Nat.pow_nonzero. lia. Qed.

Lemma pow2_S_half l : 2 ^ S l / 2 = 2 ^ l.
Proof. rewrite Nat.pow_succ_r', Nat.mul_comm. apply Nat.div_mul. lia. Qed.

Theorem p2d_par_cover_exactly_once levels n rt p : levels >= 1 ->
  cnt (concat (concat (p2d_par levels n rt))) p = if in_range n rt p then 1 else 0.
Proof.
  intros Hl. destruct levels as [|l]; [lia|]. destruct p as [i j].
  rewrite p2d_par_eq. set (bs := binStart (2 ^ S l) n).
  destruct (binStart_monotone_covers (2 ^ S l) n (pow2_pos (S l))) as [H0 [Hn Hmono]]. fold bs in H0, Hn, Hmono.
  cbn [concat]. rewrite concat_app, cnt_app. unfold squares_of.
  rewrite (passes_cnt (squareTask rt bs)). rewrite filter_all_true.
  2:{ intros [q xy] H. apply addTriangle_pass_bounds in H. cbn [fst]. lia. }
  rewrite <- flat_map_concat_map, pow2_S_half, <- cnt_app.
  replace (seq 0 (2 ^ l)) with (seq (0 * 2 ^ l) (2 ^ l)) by reflexivity.
  rewrite (tri_cnt rt bs Hmono l 0 0 0 eq_refl i j).
  cbn [Nat.add]. rewrite H0, Hn, in_block_in_range. apply b2n_if.
Qed.

Lemma levels_of_ge1 np : levels_of np >= 1.
Proof. unfold levels_of. lia. Qed.

Lemma binStart_1 n : binStart 1 n 0 = 0 /\ binStart 1 n 1 = n.
Proof. split; reflexivity. Qed.

Lemma p2d_seq_cover n rt p : cnt (concat (concat (p2d_seq n rt))) p = if in_range n rt p then 1 else 0.
Proof.
  destruct p as [i j]. unfold p2d_seq, triangleTask. cbn [concat app Nat.mul Nat.add]. rewrite !app_nil_r.
  change (binStart 1 n 0) with 0. change (binStart 1 n 1) with n.
  rewrite cnt_tri_pairs, in_block_in_range. apply b2n_if.
Qed.

Theorem p2d_cover_exactly_once gridSize np rt p :
  cnt (concat (concat (p2d_passes gridSize np rt))) p = if in_range gridSize rt p then 1 else 0.
Proof.
  unfold p2d_passes. cbv zeta. destruct (Nat.min np (gridSize / 2) <? 2).
  - apply p2d_seq_cover.
  - apply p2d_par_cover_exactly_once, levels_of_ge1.
Qed.

Theorem p2d_ext_cover_exactly_once gridSize nproc rt p : nproc >= 2 ->
  cnt (concat (concat (p2d_passes_ext gridSize nproc rt))) p = if in_range gridSize rt p then 1 else 0.
Proof.
  intros H. unfold p2d_passes_ext. destruct (nproc <? 2) eqn:E; [apply Nat.ltb_lt in E; lia|].
  apply p2d_par_cover_exactly_once, levels_of_ge1.
Qed.

Theorem p2d_ext_single_processor_refuted :
  exists gridSize rt p, in_range gridSize rt p = true /\ cnt (concat (concat (p2d_passes_ext gridSize 1 rt))) p = 0.
Proof. exists 3, FullMatrix, (0, 0). split; vm_compute; reflexivity. Qed.

Theorem p2d_pairs_nodup gridSize np rt : NoDup (concat (concat (p2d_passes gridSize np rt))).
Proof.
  apply (NoDup_count_occ' pair_eq_dec). intros p Hp.
  apply (count_occ_In pair_eq_dec) in Hp.
  pose proof (p2d_cover_exactly_once gridSize np rt p) as H. unfold cnt in H.
  destruct (in_range gridSize rt p); lia.
Qed.

Theorem p2d_pairs_in gridSize np rt p :
  In p (concat (concat (p2d_passes gridSize np rt))) <-> in_range gridSize rt p = true.
Proof.
  rewrite (count_occ_In pair_eq_dec).
  pose proof (p2d_cover_exactly_once gridSize np rt p) as H. unfold cnt in H.
  destruct (in_range gridSize rt p); split; intros; try lia; try reflexivity; try discriminate.
Qed.

Example p2d_nonvac : length (concat (concat (p2d_passes 9 4 HalfMatrix))) = 36.
Proof. vm_compute. reflexivity. Qed.

Example p2d_nonvac_full : length (concat (concat (p2d_passes 9 4 FullMatrix))) = 81.
Proof. vm_compute. reflexivity. Qed.

Example p2d_nonvac_hpd : length (concat (concat (p2d_passes 9 4 HalfPlusDiagonal))) = 45.
Proof. vm_compute. reflexivity. Qed.

Example p2d_par_nonvac : length (concat (concat (p2d_par 3 11 HalfMatrix))) = 55 /\ length (p2d_par 3 11 HalfMatrix) = 8.
Proof. vm_compute. split; reflexivity. Qed.

Example p2d_ext_nonvac : length (concat (concat (p2d_passes_ext 7 2 FullMatrix))) = 49.
Proof. vm_compute. reflexivity. Qed.

(* ================================================================== same-pass disjointness: bin level *)

(** square (x,y) uses column bin x and row bin y+1 *)
Definition bins_disjoint (s1 s2 : nat * nat) : Prop :=
  fst s1 <> fst s2 /\ fst s1 <> snd s2 + 1 /\ snd s1 + 1 <> fst s2 /\ snd s1 <> snd s2.

Definition same_pass_disjoint (e1 e2 : nat * (nat * nat)) : Prop :=
  fst e1 = fst e2 -> bins_disjoint (snd e1) (snd e2).

Lemma bins_disjoint_sym s1 s2 : bins_disjoint s1 s2 -> bins_disjoint s2 s1.
Proof. unfold bins_disjoint. lia. Qed.

Lemma FOP_app {A} (R : A -> A -> Prop) l1 l2 :
  ForallOrdPairs R l1 -> ForallOrdPairs R l2 -> (forall a b, In a l1 -> In b l2 -> R a b) ->
  ForallOrdPairs R (l1 ++ l2).
Proof.
  induction 1 as [|a l1 Ha H1 IH]; intros H2 Hc; cbn [app]; [exact H2|].
  constructor.
  - apply Forall_app. split; [exact Ha|]. apply Forall_forall. intros b Hb. apply Hc; [left; reflexivity | exact Hb].
  - apply IH; [exact H2|]. intros a' b Ha' Hb. apply Hc; [right; exact Ha' | exact Hb].
Qed.

Lemma FOP_filter {A} (R : A -> A -> Prop) (f : A -> bool) l :
  ForallOrdPairs R l -> ForallOrdPairs R (filter f l).
Proof.
  induction 1 as [|a l Ha H IH]; cbn [filter]; [constructor|].
  destruct (f a); [|exact IH]. constructor; [|exact IH].
  rewrite Forall_forall in *. intros b Hb. apply filter_In in Hb. apply Ha, Hb.
Qed.

Lemma FOP_nth {A} (R : A -> A -> Prop) l : ForallOrdPairs R l ->
  forall a b ea eb, a < b -> nth_error l a = Some ea -> nth_error l b = Some eb -> R ea eb.
Proof.
  induction 1 as [|x l Hx H IH]; intros a b ea eb Hab Ea Eb.
  - destruct a; discriminate.
  - destruct b as [|b]; [lia|]. cbn [nth_error] in Eb. destruct a as [|a].
    + cbn [nth_error] in Ea. inversion Ea; subst. rewrite Forall_forall in Hx. apply Hx.
      eapply nth_error_In. exact Eb.
    + cbn [nth_error] in Ea. apply (IH a b); [lia | exact Ea | exact Eb].
Qed.

Lemma addSquare_FOP l : forall x y p, x <= y -> ForallOrdPairs same_pass_disjoint (addSquare x y p l).
Proof.
  induction l as [|l IH]; intros x y p Hxy.
  - cbn [addSquare]. constructor; constructor.
  - cbn [addSquare].
    assert (HP : 2 ^ l > 0) by apply pow2_pos.
    repeat apply FOP_app; try (apply IH; lia);
      intros [q1 [x1 y1]] [q2 [x2 y2]] H1 H2; rewrite ?in_app_iff in H2;
      repeat (destruct H2 as [H2 | H2]);
      apply addSquare_bounds in H1; apply addSquare_bounds in H2;
      unfold same_pass_disjoint, bins_disjoint; cbn [fst snd];
      set (P := 2 ^ l) in *; clearbody P; intros ->;
      assert (x * P <= y * P) by (apply Nat.mul_le_mono_r; exact Hxy); lia.
Qed.

Lemma addTriangle_FOP L : forall t p, ForallOrdPairs same_pass_disjoint (addTriangle t t p L).
Proof.
  induction L as [|L IH]; intros t p; [constructor|].
  destruct L as [|l]; [constructor|].
  rewrite addTriangle_SS.
  assert (HP : 2 ^ S l > 0) by apply pow2_pos.
  apply FOP_app; [apply addSquare_FOP; lia | apply FOP_app; [apply IH | apply IH |] |].
  - intros [q1 [x1 y1]] [q2 [x2 y2]] H1 H2. apply addTriangle_bounds in H1. apply addTriangle_bounds in H2.
    unfold same_pass_disjoint, bins_disjoint; cbn [fst snd].
    set (P := 2 ^ S l) in *; clearbody P; intros ->; lia.
  - intros [q1 [x1 y1]] [q2 [x2 y2]] H1 H2. apply addSquare_bounds in H1.
    rewrite in_app_iff in H2. destruct H2 as [H2 | H2]; apply addTriangle_bounds in H2;
    unfold same_pass_disjoint, bins_disjoint; cbn [fst snd];
    set (P := 2 ^ S l) in *; clearbody P; intros ->; lia.
Qed.

Lemma squares_of_disjoint levels i a b sa sb : a <> b ->
  nth_error (squares_of levels i) a = Some sa -> nth_error (squares_of levels i) b = Some sb ->
  bins_disjoint sa sb.
Proof.
  assert (Hlt : forall a b sa sb, a < b ->
    nth_error (squares_of levels i) a = Some sa -> nth_error (squares_of levels i) b = Some sb ->
    bins_disjoint sa sb).
  { clear. intros a b sa sb Hab Ea Eb. unfold squares_of in Ea, Eb. rewrite nth_error_map in Ea, Eb.
    destruct (nth_error _ a) as [ea|] eqn:Fa; [|discriminate].
    destruct (nth_error _ b) as [eb|] eqn:Fb; [|discriminate].
    cbn [option_map] in Ea, Eb. inversion Ea; inversion Eb; subst.
    pose proof (FOP_nth _ _ (FOP_filter _ (fun e => fst e =? S i) _ (addTriangle_FOP levels 0 0)) a b ea eb Hab Fa Fb) as HR.
    apply HR. apply nth_error_In in Fa. apply nth_error_In in Fb.
    apply filter_In in Fa. apply filter_In in Fb. destruct Fa as [_ Fa]. destruct Fb as [_ Fb].
    apply Nat.eqb_eq in Fa. apply Nat.eqb_eq in Fb. congruence. }
  intros Hab Ea Eb. destruct (Nat.lt_ge_cases a b) as [H | H].
  - apply (Hlt a b); assumption.
  - apply bins_disjoint_sym. apply (Hlt b a); [lia | assumption | assumption].
Qed.

(* ================================================================== same-pass disjointness: index level *)

Lemma in_tri_pairs rt lo hi i j : In (i, j) (tri_pairs rt lo hi) -> (lo <= i < hi) /\ (lo <= j < hi).
Proof.
  intros H. apply (count_occ_In pair_eq_dec) in H. fold (cnt (tri_pairs rt lo hi) (i, j)) in H.
  rewrite cnt_tri_pairs in H. destruct rt; unfold in_block, rect in H; lia.
Qed.

Lemma in_sq_pairs rt r0 r1 c0 c1 i j : In (i, j) (sq_pairs rt r0 r1 c0 c1) ->
  (r0 <= i < r1 \/ c0 <= i < c1) /\ (r0 <= j < r1 \/ c0 <= j < c1).
Proof.
  intros H. apply (count_occ_In pair_eq_dec) in H. fold (cnt (sq_pairs rt r0 r1 c0 c1) (i, j)) in H.
  rewrite cnt_sq_pairs in H. destruct rt; unfold sqI, rect in H; lia.
Qed.

Section Disjoint.
  Variable rt : rangeType.
  Variable bs : nat -> nat.
  Hypothesis Hmono : forall a b, a <= b -> bs a <= bs b.

  Definition inbin (b u : nat) : Prop := bs b <= u < bs (b + 1).

  Lemma inbin_disjoint b b' u v : b <> b' -> inbin b u -> inbin b' v -> u <> v.
  Proof.
    unfold inbin. intros Hb Hu Hv.
    destruct (Nat.lt_ge_cases b b') as [H | H].
    - pose proof (Hmono (b + 1) b' ltac:(lia)). lia.
    - pose proof (Hmono (b' + 1) b ltac:(lia)). lia.
  Qed.

  Lemma in_squareTask x y i j : In (i, j) (squareTask rt bs (x, y)) ->
    (inbin x i \/ inbin (y + 1) i) /\ (inbin x j \/ inbin (y + 1) j).
  Proof.
    unfold squareTask, inbin. intros H. apply in_sq_pairs in H.
    replace (y + 1 + 1) with (y + 2) by lia. lia.
  Qed.

  Lemma squareTask_disjoint s1 s2 p q : bins_disjoint s1 s2 ->
    In p (squareTask rt bs s1) -> In q (squareTask rt bs s2) -> share_index p q = false.
  Proof.
    destruct s1 as [x1 y1], s2 as [x2 y2], p as [i1 j1], q as [i2 j2].
    unfold bins_disjoint; cbn [fst snd]. intros [D1 [D2 [D3 D4]]] Hp Hq.
    apply in_squareTask in Hp. apply in_squareTask in Hq.
    assert (D4' : y1 + 1 <> y2 + 1) by lia.
    unfold share_index; cbn [fst snd]. rewrite !orb_false_iff, !Nat.eqb_neq.
    destruct Hp as [[Hi1 | Hi1] [Hj1 | Hj1]]; destruct Hq as [[Hi2 | Hi2] [Hj2 | Hj2]];
      repeat split; (eapply inbin_disjoint; [| eassumption | eassumption]; assumption).
  Qed.

  Lemma triangleTask_disjoint a b p q : a <> b ->
    In p (triangleTask rt bs 2 a) -> In q (triangleTask rt bs 2 b) -> share_index p q = false.
  Proof.
    destruct p as [i1 j1], q as [i2 j2]. unfold triangleTask. intros Hab Hp Hq.
    apply in_tri_pairs in Hp. apply in_tri_pairs in Hq.
    unfold share_index; cbn [fst snd]. rewrite !orb_false_iff, !Nat.eqb_neq.
    destruct (Nat.lt_ge_cases a b) as [H | H].
    - pose proof (Hmono (2 * (a + 1)) (2 * b) ltac:(lia)). lia.
    - pose proof (Hmono (2 * (b + 1)) (2 * a) ltac:(lia)). lia.
  Qed.
End Disjoint.

Lemma nth_error_map_seq0 {A} (f : nat -> A) n a x : nth_error (map f (seq 0 n)) a = Some x -> x = f a.
Proof.
  rewrite nth_error_map. destruct (nth_error (seq 0 n) a) as [k|] eqn:E; [|discriminate].
  cbn [option_map]. intros H. inversion H.
  assert (Ha : a < n).
  { assert (a < length (seq 0 n)) by (apply nth_error_Some; congruence). rewrite seq_length in *. assumption. }
  rewrite (nth_error_nth' _ 0) in E by (rewrite seq_length; exact Ha).
  rewrite seq_nth in E by exact Ha. inversion E. reflexivity.
Qed.

Theorem p2d_par_same_pass_disjoint levels n rt pass a b ta tb p q : levels >= 1 ->
  In pass (p2d_par levels n rt) -> a <> b ->
  nth_error pass a = Some ta -> nth_error pass b = Some tb ->
  In p ta -> In q tb -> share_index p q = false.
Proof.
  intros Hl Hpass Hab Ea Eb Hp Hq. rewrite p2d_par_eq in Hpass.
  destruct (binStart_monotone_covers (2 ^ levels) n (pow2_pos levels)) as [_ [_ Hmono]].
  destruct Hpass as [Hpass | Hpass].
  - subst pass. apply nth_error_map_seq0 in Ea. apply nth_error_map_seq0 in Eb. subst ta tb.
    eapply triangleTask_disjoint; eassumption.
  - apply in_map_iff in Hpass. destruct Hpass as [i [Hpass _]]. subst pass.
    rewrite nth_error_map in Ea, Eb.
    destruct (nth_error (squares_of levels i) a) as [sa|] eqn:Fa; [|discriminate].
    destruct (nth_error (squares_of levels i) b) as [sb|] eqn:Fb; [|discriminate].
    cbn [option_map] in Ea, Eb. inversion Ea; inversion Eb; subst.
    eapply squareTask_disjoint; [exact Hmono | | eassumption | eassumption].
    eapply squares_of_disjoint; eassumption.
Qed.

Theorem p2d_same_pass_tasks_disjoint_indices gridSize np rt pass a b ta tb p q :
  In pass (p2d_passes gridSize np rt) -> a <> b ->
  nth_error pass a = Some ta -> nth_error pass b = Some tb ->
  In p ta -> In q tb -> share_index p q = false.
Proof.
  unfold p2d_passes. cbv zeta. destruct (Nat.min np (gridSize / 2) <? 2).
  - unfold p2d_seq. intros [<- | []] Hab Ea Eb _ _. exfalso.
    destruct a as [|a]; [|destruct a; discriminate]. destruct b as [|b]; [lia|destruct b; discriminate].
  - apply p2d_par_same_pass_disjoint, levels_of_ge1.
Qed.

Theorem p2d_ext_same_pass_tasks_disjoint_indices gridSize nproc rt pass a b ta tb p q : nproc >= 2 ->
  In pass (p2d_passes_ext gridSize nproc rt) -> a <> b ->
  nth_error pass a = Some ta -> nth_error pass b = Some tb ->
  In p ta -> In q tb -> share_index p q = false.
Proof.
  intros H. unfold p2d_passes_ext. destruct (nproc <? 2) eqn:E; [apply Nat.ltb_lt in E; lia|].
  apply p2d_par_same_pass_disjoint, levels_of_ge1.
Qed.

(** non-vacuity: a square pass with two non-empty tasks, and the triangle pass with four *)
Example p2d_disjoint_nonvac :
  exists pass ta tb, In pass (p2d_passes 9 4 HalfMatrix) /\
    nth_error pass 0 = Some ta /\ nth_error pass 1 = Some tb /\ ta <> [] /\ tb <> [] /\
    forallb (fun p => forallb (fun q => negb (share_index p q)) tb) ta = true.
Proof.
  exists (nth 2 (p2d_passes 9 4 HalfMatrix) []).
  exists (nth 0 (nth 2 (p2d_passes 9 4 HalfMatrix) []) []).
  exists (nth 1 (nth 2 (p2d_passes 9 4 HalfMatrix) []) []).
  vm_compute. repeat split; try discriminate. right; right; left; reflexivity.
Qed.

Example p2d_triangle_pass_nonvac :
  map (@length _) (hd [] (p2d_passes 9 4 HalfMatrix)) = [1; 3; 1; 1].
Proof. vm_compute. reflexivity. Qed.

Example binStart_nonvac : map (binStart 8 9) (seq 0 9) = [0; 1; 2; 3; 5; 6; 7; 8; 9].
Proof. vm_compute. reflexivity. Qed.

Example squares_nonvac :
  squares_of 3 0 = [(0, 1); (1, 2); (4, 5); (5, 6)] /\ squares_of 3 5 = [(0, 6); (1, 5); (2, 4); (3, 3)] /\ squares_of 3 6 = [].
Proof. vm_compute. repeat split; reflexivity. Qed.
