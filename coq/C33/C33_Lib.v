(** C33 shared list utilities for the protocol models (hand-written, executable part + basic lemmas).
    [upd i v l] replaces position i; [countb f n] counts the w < n with f w = true. *)
From Coq Require Import Arith List Bool Lia.
Import ListNotations.

Fixpoint upd {A} (i : nat) (v : A) (l : list A) : list A :=
  match l with
  | [] => []
  | x :: r => match i with 0 => v :: r | S i' => x :: upd i' v r end
  end.

Lemma upd_length {A} i (v : A) l : length (upd i v l) = length l.
Proof. revert i; induction l; intros [|i]; simpl; auto. Qed.

Lemma nth_upd_eq {A} i (v d : A) l : i < length l -> nth i (upd i v l) d = v.
Proof. revert i; induction l; intros [|i] H; simpl in *; try lia; auto. apply IHl; lia. Qed.

Lemma nth_upd_neq {A} i j (v d : A) l : i <> j -> nth j (upd i v l) d = nth j l d.
Proof. revert i j; induction l; intros [|i] [|j] H; simpl; auto; try congruence. Qed.

Lemma nth_upd {A} i j (v d : A) l :
  nth j (upd i v l) d = if (i =? j) && (i <? length l) then v else nth j l d.
Proof.
  destruct (Nat.eqb_spec i j) as [->|N]; simpl.
  - destruct (Nat.ltb_spec j (length l)). apply nth_upd_eq; auto.
    rewrite !nth_overflow; auto; rewrite ?upd_length; lia.
  - apply nth_upd_neq; auto.
Qed.

Lemma nth_map_d {A B} (f : A -> B) l i d d' : i < length l -> nth i (map f l) d' = f (nth i l d).
Proof. revert i; induction l; intros [|i] H; simpl in *; try lia; auto. apply IHl; lia. Qed.

Lemma nth_repeat_lt {A} (x d : A) n i : i < n -> nth i (repeat x n) d = x.
Proof. revert i; induction n; intros [|i] H; simpl; try lia; auto. apply IHn; lia. Qed.

(** number of w < n with f w = true *)
Fixpoint countb (f : nat -> bool) (n : nat) : nat :=
  match n with 0 => 0 | S m => (if f m then 1 else 0) + countb f m end.

Lemma countb_le f n : countb f n <= n.
Proof. induction n; simpl; auto. destruct (f n); lia. Qed.

Lemma countb_ext f g n : (forall w, w < n -> f w = g w) -> countb f n = countb g n.
Proof. induction n; simpl; intros H; auto. rewrite (H n), IHn; auto. Qed.

Lemma countb_full f n : countb f n = n -> forall w, w < n -> f w = true.
Proof.
  induction n; simpl; intros H w L. lia.
  pose proof (countb_le f n). destruct (f n) eqn:E; try lia.
  destruct (Nat.eq_dec w n) as [->|]; auto. apply IHn; lia.
Qed.

Lemma countb_all f n : (forall w, w < n -> f w = true) -> countb f n = n.
Proof. induction n; simpl; intros H; auto. rewrite H, IHn; auto. Qed.

Lemma countb_none f n : (forall w, w < n -> f w = false) -> countb f n = 0.
Proof. induction n; simpl; intros H; auto. rewrite H, IHn; auto. Qed.

Lemma countb_zero f n : countb f n = 0 -> forall w, w < n -> f w = false.
Proof.
  induction n; simpl; intros H w L. lia.
  destruct (f n) eqn:E; try lia. destruct (Nat.eq_dec w n) as [->|]; auto. apply IHn; lia.
Qed.

(** changing one position from false to true adds one *)
Lemma countb_set f g n w0 : w0 < n -> f w0 = false -> g w0 = true ->
  (forall w, w < n -> w <> w0 -> f w = g w) -> countb g n = S (countb f n).
Proof.
  induction n; simpl; intros L F G E. lia.
  destruct (Nat.eq_dec w0 n) as [->|N].
  - rewrite F, G. rewrite (countb_ext f g n); auto. intros; apply E; lia.
  - rewrite <- (E n) by lia. rewrite (IHn ltac:(lia) F G). lia. intros; apply E; lia.
Qed.

Lemma countb_clear f g n w0 : w0 < n -> f w0 = true -> g w0 = false ->
  (forall w, w < n -> w <> w0 -> f w = g w) -> countb f n = S (countb g n).
Proof. intros. apply (countb_set g f n w0); auto. intros; symmetry; auto. Qed.

Lemma countb_pos f n : 0 < countb f n -> exists w, w < n /\ f w = true.
Proof.
  induction n; simpl; intros H. lia.
  destruct (f n) eqn:E. exists n; auto. destruct IHn as (w & ? & ?); auto. exists w; auto.
Qed.

Lemma countb_lt_ex f n : countb f n < n -> exists w, w < n /\ f w = false.
Proof.
  induction n; simpl; intros H. lia.
  destruct (f n) eqn:E. destruct IHn as (w & ? & ?); try lia. exists w; auto. exists n; auto.
Qed.
