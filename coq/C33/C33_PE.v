(** C33 part (ii): lock / condition-variable protocol of ParallelExecutor (hand-written model, executable).
    Anchors: SimTKcommon/src/ParallelExecutor.cpp  execute(), incrementWaitingThreads(), threadBody(),
    ~ParallelExecutorImpl().  Parallel2DExecutor::execute() is a sequence of ParallelExecutor::execute() calls
    (one per pass), so its protocol is this model with [todo] = the list of pass sizes.

    Small-step transition system, one transition per hook event of patches/C33_hook_ParallelExecutor.diff:
      threads   : Main (the single caller of execute()/destructor) and workers 0..T-1, each with a program counter;
      mutex     : [mtx] = owner; lock is enabled only when free;
      condvars  : runCondition's wait set = workers at WBlocked, waitCondition's wait set = Main at MBlocked;
                  notify moves waiters to W/MWoken; a woken waiter re-acquires the mutex and re-tests its predicate
                  ([AWaitExit] if true, hidden [ARecheck] back to blocked if false); a blocked waiter may wake up
                  spuriously ([ASpurExit]);
      shared    : running[i], waitingThreadCount, finished, currentTaskCount.
    The two unlocked reads of [finished] in threadBody (while condition, if condition) are modelled as an atomic read
    taking place at an arbitrary instant between the reader's previous and next event: the worker remembers whether
    [finished] was false when it arrived ([sawF]) and may take the "false" branch iff [sawF], the "true" branch iff
    [finished] holds now.  (The memory-model level below this is not modelled.)
    T and the list of task counts are arbitrary. *)
From Coq Require Import Arith List Bool.
Import ListNotations.
Require Import C33_Lib.

Inductive thr := Main | W (w : nat).

Inductive wpc :=
  | WStart                      (* thread created, threadBody not yet entered *)
  | WTop (sawF : bool)          (* about to evaluate while (!isFinished()) *)
  | WLock                       (* about to lock runMutex *)
  | WWaitEnter                  (* holds mutex, about to call runCondition.wait(lock, running) *)
  | WBlocked | WWoken           (* inside wait: in the wait set / notified, needs the mutex *)
  | WWaitDone                   (* wait returned, holds mutex, about to unlock *)
  | WChk (sawF : bool)          (* about to evaluate if (!isFinished()) *)
  | WInit (cnt : nat)           (* count read; about to call task.initialize() *)
  | WExec (idx cnt : nat)       (* loop test index < count *)
  | WLock2                      (* running=false written; incrementWaitingThreads: about to lock *)
  | WFin | WInFin               (* holds mutex; before / inside task.finish() *)
  | WIncr | WNotify | WUnlock2  (* waitingThreadCount++ ; notify_one ; leaving the lock_guard scope *)
  | WIterEnd                    (* end of the while body *)
  | WExited.

Inductive mpc :=
  | MIdle | MLock | MSet | MNotify | MWaitEnter | MBlocked | MWoken | MWaitDone | MRet
  | MDLock | MDSet | MDNotify | MDUnlock | MJoin | MDone.

Inductive act :=
  (* worker *)
  | AStart | ALoop | AExit | ALock | AWaitEnter | AWaitExit | ASpurExit | ARecheck | AUnlock | AGo | AIterEnd
  | AInit | AExec (i : nat) | AClear | ALock2 | AFinB | AFinE | AIncr | ANotify | AUnlock2
  (* main: execute(task, n) *)
  | MExecBegin (n : nat) | MLockA | MSetA | MNotifyA | MWaitEnterA | MWaitExitA | MSpurExitA | MRecheckA | MUnlockA | MExecEnd
  (* main: destructor *)
  | DBegin | DLock | DSet | DNotify | DUnlock | DJoined.

Definition event := (thr * act)%type.

Record st := mkst {
  mtx : option thr;
  running : list bool;
  waiting : nat;
  finished : bool;
  count : nat;
  wpcs : list wpc;
  mp : mpc;
  arg : nat;               (* the [times] argument of the execute() call in progress *)
  todo : list nat          (* task counts of the execute() calls still to come; then the destructor *)
}.

Definition nthreads (s : st) : nat := length (wpcs s).
Definition pcw (s : st) (w : nat) : wpc := nth w (wpcs s) WExited.
Definition runw (s : st) (w : nat) : bool := nth w (running s) false.

Definition init (T : nat) (todo : list nat) : st :=
  mkst None (repeat false T) 0 false 0 (repeat WStart T) MIdle 0 todo.

Definition set_pc (s : st) (w : nat) (p : wpc) : st :=
  mkst (mtx s) (running s) (waiting s) (finished s) (count s) (upd w p (wpcs s)) (mp s) (arg s) (todo s).
Definition set_mtx (s : st) (m : option thr) : st :=
  mkst m (running s) (waiting s) (finished s) (count s) (wpcs s) (mp s) (arg s) (todo s).
Definition set_mp (s : st) (p : mpc) : st :=
  mkst (mtx s) (running s) (waiting s) (finished s) (count s) (wpcs s) p (arg s) (todo s).
Definition set_running (s : st) (r : list bool) : st :=
  mkst (mtx s) r (waiting s) (finished s) (count s) (wpcs s) (mp s) (arg s) (todo s).
Definition set_waiting (s : st) (n : nat) : st :=
  mkst (mtx s) (running s) n (finished s) (count s) (wpcs s) (mp s) (arg s) (todo s).

Definition mtx_free (s : st) : bool := match mtx s with None => true | Some _ => false end.

Definition wake (p : wpc) : wpc := match p with WBlocked => WWoken | _ => p end.
Definition is_exited (p : wpc) : bool := match p with WExited => true | _ => false end.

(** worker transitions *)
Definition fire_w (s : st) (w : nat) (a : act) : option st :=
  if negb (w <? nthreads s) then None else
  match pcw s w, a with
  | WStart, AStart => Some (set_pc s w (WTop (negb (finished s))))
  | WTop sawF, ALoop => if sawF then Some (set_pc s w WLock) else None
  | WTop _, AExit => if finished s then Some (set_pc s w WExited) else None
  | WLock, ALock => if mtx_free s then Some (set_pc (set_mtx s (Some (W w))) w WWaitEnter) else None
  | WWaitEnter, AWaitEnter =>
      if runw s w then Some (set_pc s w WWaitDone) else Some (set_pc (set_mtx s None) w WBlocked)
  | WWoken, AWaitExit | WBlocked, ASpurExit =>
      if mtx_free s && runw s w then Some (set_pc (set_mtx s (Some (W w))) w WWaitDone) else None
  | WWoken, ARecheck => if mtx_free s && negb (runw s w) then Some (set_pc s w WBlocked) else None
  | WWaitDone, AUnlock => Some (set_pc (set_mtx s None) w (WChk (negb (finished s))))
  | WChk sawF, AGo => if sawF then Some (set_pc s w (WInit (count s))) else None
  | WChk _, AIterEnd => if finished s then Some (set_pc s w (WTop (negb (finished s)))) else None
  | WInit cnt, AInit => Some (set_pc s w (WExec w cnt))
  | WExec idx cnt, AExec i =>
      if (i =? idx) && (idx <? cnt) then Some (set_pc s w (WExec (idx + nthreads s) cnt)) else None
  | WExec idx cnt, AClear =>
      if idx <? cnt then None else Some (set_pc (set_running s (upd w false (running s))) w WLock2)
  | WLock2, ALock2 => if mtx_free s then Some (set_pc (set_mtx s (Some (W w))) w WFin) else None
  | WFin, AFinB => Some (set_pc s w WInFin)
  | WInFin, AFinE => Some (set_pc s w WIncr)
  | WIncr, AIncr =>
      Some (set_pc (set_waiting s (S (waiting s))) w (if S (waiting s) =? nthreads s then WNotify else WUnlock2))
  | WNotify, ANotify =>
      Some (set_pc (match mp s with MBlocked => set_mp s MWoken | _ => s end) w WUnlock2)
  | WUnlock2, AUnlock2 => Some (set_pc (set_mtx s None) w WIterEnd)
  | WIterEnd, AIterEnd => Some (set_pc s w (WTop (negb (finished s))))
  | _, _ => None
  end.

Definition all_true (n : nat) : list bool := repeat true n.

(** main-thread transitions *)
Definition fire_m (s : st) (a : act) : option st :=
  match mp s, a with
  | MIdle, MExecBegin n =>
      match todo s with
      | m :: rest => if n =? m then Some (mkst (mtx s) (running s) (waiting s) (finished s) (count s) (wpcs s) MLock n rest)
                     else None
      | [] => None
      end
  | MIdle, DBegin => match todo s with [] => Some (set_mp s MDLock) | _ => None end
  | MLock, MLockA => if mtx_free s then Some (set_mp (set_mtx s (Some Main)) MSet) else None
  | MSet, MSetA =>
      Some (mkst (mtx s) (all_true (nthreads s)) 0 (finished s) (arg s) (wpcs s) MNotify (arg s) (todo s))
  | MNotify, MNotifyA =>
      Some (mkst (mtx s) (running s) (waiting s) (finished s) (count s) (map wake (wpcs s)) MWaitEnter (arg s) (todo s))
  | MWaitEnter, MWaitEnterA =>
      if waiting s =? nthreads s then Some (set_mp s MWaitDone) else Some (set_mp (set_mtx s None) MBlocked)
  | MWoken, MWaitExitA | MBlocked, MSpurExitA =>
      if mtx_free s && (waiting s =? nthreads s) then Some (set_mp (set_mtx s (Some Main)) MWaitDone) else None
  | MWoken, MRecheckA => if mtx_free s && negb (waiting s =? nthreads s) then Some (set_mp s MBlocked) else None
  | MWaitDone, MUnlockA => Some (set_mp (set_mtx s None) MRet)
  | MRet, MExecEnd => Some (set_mp s MIdle)
  | MDLock, DLock => if mtx_free s then Some (set_mp (set_mtx s (Some Main)) MDSet) else None
  | MDSet, DSet =>
      Some (mkst (mtx s) (all_true (nthreads s)) (waiting s) true (count s) (wpcs s) MDNotify (arg s) (todo s))
  | MDNotify, DNotify =>
      Some (mkst (mtx s) (running s) (waiting s) (finished s) (count s) (map wake (wpcs s)) MDUnlock (arg s) (todo s))
  | MDUnlock, DUnlock => Some (set_mp (set_mtx s None) MJoin)
  | MJoin, DJoined => if forallb is_exited (wpcs s) then Some (set_mp s MDone) else None
  | _, _ => None
  end.

Definition fire (s : st) (e : event) : option st :=
  match fst e with Main => fire_m s (snd e) | W w => fire_w s w (snd e) end.

(** spurious wake-ups are the only steps that need no cause *)
Definition is_spurious (a : act) : bool :=
  match a with ASpurExit | MSpurExitA => true | _ => false end.
(** hidden steps (no hook event): a notified waiter finding its predicate false goes back to sleep *)
Definition is_hidden (a : act) : bool :=
  match a with ARecheck | MRecheckA => true | _ => false end.

Definition final (s : st) : bool := match mp s with MDone => true | _ => false end.

(** candidate actions of a thread in a state (at most a handful), and the executable successor function *)
Definition cand_w (s : st) (w : nat) : list act :=
  match pcw s w with
  | WStart => [AStart] | WTop _ => [ALoop; AExit] | WLock => [ALock] | WWaitEnter => [AWaitEnter]
  | WBlocked => [ASpurExit] | WWoken => [AWaitExit; ARecheck] | WWaitDone => [AUnlock]
  | WChk _ => [AGo; AIterEnd] | WInit _ => [AInit] | WExec idx _ => [AExec idx; AClear] | WLock2 => [ALock2]
  | WFin => [AFinB] | WInFin => [AFinE] | WIncr => [AIncr] | WNotify => [ANotify] | WUnlock2 => [AUnlock2]
  | WIterEnd => [AIterEnd] | WExited => []
  end.
Definition cand_m (s : st) : list act :=
  match mp s with
  | MIdle => match todo s with n :: _ => [MExecBegin n] | [] => [DBegin] end
  | MLock => [MLockA] | MSet => [MSetA] | MNotify => [MNotifyA] | MWaitEnter => [MWaitEnterA]
  | MBlocked => [MSpurExitA] | MWoken => [MWaitExitA; MRecheckA] | MWaitDone => [MUnlockA] | MRet => [MExecEnd]
  | MDLock => [DLock] | MDSet => [DSet] | MDNotify => [DNotify] | MDUnlock => [DUnlock] | MJoin => [DJoined]
  | MDone => []
  end.
Definition succs_of (s : st) (t : thr) (acts : list act) : list (event * st) :=
  flat_map (fun a => match fire s (t, a) with Some s' => [((t, a), s')] | None => [] end) acts.
Definition enabled (s : st) : list (event * st) :=
  succs_of s Main (cand_m s) ++ flat_map (fun w => succs_of s (W w) (cand_w s w)) (seq 0 (nthreads s)).

(** runs: the trace is kept newest-first *)
Inductive run (T : nat) (td : list nat) : list event -> st -> Prop :=
  | run0 : run T td [] (init T td)
  | runS tr s e s' : run T td tr s -> fire s e = Some s' -> run T td (e :: tr) s'.

(* ------------------------------------------------------------------ trace acceptor for hook traces *)

(** A hook trace contains one record per non-hidden transition; the record "wait returned" does not say whether the
    wake-up was caused by a notify, so the acceptor resolves it from the waiter's state. *)
Definition resolve (s : st) (e : event) : event :=
  match e with
  | (W w, AWaitExit) => match pcw s w with WBlocked => (W w, ASpurExit) | _ => e end
  | (Main, MWaitExitA) => match mp s with MBlocked => (Main, MSpurExitA) | _ => e end
  | _ => e
  end.

(** The hooks record "wait entered" and "wait returned" around every condition-variable wait, also when the
    predicate was already true and the thread never blocked.  In that case the model's wait-enter step goes straight
    to the post-wait pc (the thread keeps the mutex) and the following "wait returned" record of that thread
    corresponds to no transition: the acceptor remembers such threads in [pend] and consumes that record. *)
Definition thr_eqb (a b : thr) : bool :=
  match a, b with Main, Main => true | W x, W y => x =? y | _, _ => false end.
Definition is_wait_enter (a : act) : bool := match a with AWaitEnter | MWaitEnterA => true | _ => false end.
Definition is_wait_exit (a : act) : bool := match a with AWaitExit | MWaitExitA => true | _ => false end.
Definition holds_mtx (s : st) (t : thr) : bool := match mtx s with Some u => thr_eqb u t | None => false end.
Definition memt (t : thr) (l : list thr) : bool := existsb (thr_eqb t) l.
Definition remt (t : thr) (l : list thr) : list thr := filter (fun u => negb (thr_eqb t u)) l.

(** one acceptor step: [None] = reject; [Some (s', pend', fired)] with [fired] the model transition taken, if any *)
Definition accept_step (s : st) (pend : list thr) (e : event) : option (st * list thr * option event) :=
  if is_hidden (snd e) || is_spurious (snd e) then None
  else if memt (fst e) pend then
    (if is_wait_exit (snd e) then Some (s, remt (fst e) pend, None) else None)
  else match fire s (resolve s e) with
       | Some s' => Some (s', (if is_wait_enter (snd e) && holds_mtx s' (fst e) then fst e :: pend else pend),
                          Some (resolve s e))
       | None => None
       end.

(** returns the final state and the model transitions taken, newest first *)
Fixpoint accepts_from (s : st) (pend : list thr) (fired : list event) (tr : list event) : option (st * list event) :=
  match tr with
  | [] => Some (s, fired)
  | e :: r => match accept_step s pend e with
              | Some (s', pend', f) => accepts_from s' pend' (match f with Some x => x :: fired | None => fired end) r
              | None => None
              end
  end.

(** [accepts ... tr]: the chronological hook trace [tr] is (after removing the wait-returned records of waits that
    never blocked) a trace of the model; [accepts_complete] additionally asks that it ends in the final state *)
Definition accepts (T : nat) (td : list nat) (tr : list event) : bool :=
  match accepts_from (init T td) [] [] tr with Some _ => true | None => false end.
Definition accepts_complete (T : nat) (td : list nat) (tr : list event) : bool :=
  match accepts_from (init T td) [] [] tr with Some (s, _) => final s | None => false end.
(** index of the first rejected record (for diagnostics) *)
Fixpoint reject_pos (s : st) (pend : list thr) (tr : list event) (k : nat) : option nat :=
  match tr with
  | [] => None
  | e :: r => match accept_step s pend e with
              | Some (s', pend', _) => reject_pos s' pend' r (S k)
              | None => Some k
              end
  end.
