(** C33 part (ii), proofs: lock / condition-variable protocol of ParallelExecutor (model: C33_PE.v).

    A  pe_enabled_complete / pe_enabled_sound      [enabled] is exactly [fire]
    B  pe_mutex_exclusive                          the mutex owner is exactly the thread inside a critical section
    C  pe_finish_mutually_exclusive(_trace)        task.finish() calls never overlap
    D  pe_init_before_exec_before_finish_per_worker   per worker the calls are in (initialize execute* finish)*
    E  pe_execute_returns_only_when_all_finished, pe_execute_state
    F  pe_round_executes_stripes                   between MExecBegin n and MExecEnd every worker w ran exactly
                                                   initialize, execute(i) for i in stripe w T n in order, finish
    G  pe_no_deadlock                              every reachable non-final state has a non-spurious enabled step
    H  pe_accepts_sound                            traces accepted by the hook-trace acceptor are runs of the model
    I  pe_demo_accepted / pe_demo_round / pe_demo_stripes   non-vacuity (2 workers, one task of count 3, destructor)

    Method: [fire_w]/[fire_m] are inverted once into the relations [wstep]/[mstep] (one constructor per
    pc/action/branch with an explicit post-state); the invariants [mutex_inv], [pe_inv], [phase_rel], [j_inv] are
    then shown preserved constructor by constructor. *)
From Coq Require Import Arith List Bool Lia.
Import ListNotations.
Require Import C33_Lib C33_Index C33_PE.

(* ================================================================== 0. small-step inversion *)

(** [fire_w] / [fire_m] as relations: one constructor per (pc, action, branch); the post-state is always an
    explicit term over the pre-state.  The 18 x 36 case analysis is done once, here. *)
Inductive wstep (s : st) (w : nat) : act -> st -> Prop :=
  | ws_start : pcw s w = WStart -> wstep s w AStart (set_pc s w (WTop (negb (finished s))))
  | ws_loop : pcw s w = WTop true -> wstep s w ALoop (set_pc s w WLock)
  | ws_exit sf : pcw s w = WTop sf -> finished s = true -> wstep s w AExit (set_pc s w WExited)
  | ws_lock : pcw s w = WLock -> mtx s = None -> wstep s w ALock (set_pc (set_mtx s (Some (W w))) w WWaitEnter)
  | ws_wait_go : pcw s w = WWaitEnter -> runw s w = true -> wstep s w AWaitEnter (set_pc s w WWaitDone)
  | ws_wait_block : pcw s w = WWaitEnter -> runw s w = false ->
      wstep s w AWaitEnter (set_pc (set_mtx s None) w WBlocked)
  | ws_waitexit : pcw s w = WWoken -> mtx s = None -> runw s w = true ->
      wstep s w AWaitExit (set_pc (set_mtx s (Some (W w))) w WWaitDone)
  | ws_spur : pcw s w = WBlocked -> mtx s = None -> runw s w = true ->
      wstep s w ASpurExit (set_pc (set_mtx s (Some (W w))) w WWaitDone)
  | ws_recheck : pcw s w = WWoken -> mtx s = None -> runw s w = false -> wstep s w ARecheck (set_pc s w WBlocked)
  | ws_unlock : pcw s w = WWaitDone -> wstep s w AUnlock (set_pc (set_mtx s None) w (WChk (negb (finished s))))
  | ws_go : pcw s w = WChk true -> wstep s w AGo (set_pc s w (WInit (count s)))
  | ws_chkend sf : pcw s w = WChk sf -> finished s = true ->
      wstep s w AIterEnd (set_pc s w (WTop (negb (finished s))))
  | ws_init c : pcw s w = WInit c -> wstep s w AInit (set_pc s w (WExec w c))
  | ws_exec idx c : pcw s w = WExec idx c -> idx < c ->
      wstep s w (AExec idx) (set_pc s w (WExec (idx + nthreads s) c))
  | ws_clear idx c : pcw s w = WExec idx c -> c <= idx ->
      wstep s w AClear (set_pc (set_running s (upd w false (running s))) w WLock2)
  | ws_lock2 : pcw s w = WLock2 -> mtx s = None -> wstep s w ALock2 (set_pc (set_mtx s (Some (W w))) w WFin)
  | ws_finb : pcw s w = WFin -> wstep s w AFinB (set_pc s w WInFin)
  | ws_fine : pcw s w = WInFin -> wstep s w AFinE (set_pc s w WIncr)
  | ws_incr : pcw s w = WIncr ->
      wstep s w AIncr (set_pc (set_waiting s (S (waiting s))) w
                         (if S (waiting s) =? nthreads s then WNotify else WUnlock2))
  | ws_notify_b : pcw s w = WNotify -> mp s = MBlocked -> wstep s w ANotify (set_pc (set_mp s MWoken) w WUnlock2)
  | ws_notify_o : pcw s w = WNotify -> mp s <> MBlocked -> wstep s w ANotify (set_pc s w WUnlock2)
  | ws_unlock2 : pcw s w = WUnlock2 -> wstep s w AUnlock2 (set_pc (set_mtx s None) w WIterEnd)
  | ws_iterend : pcw s w = WIterEnd -> wstep s w AIterEnd (set_pc s w (WTop (negb (finished s)))).

Definition set_wpcs (s : st) (l : list wpc) : st :=
  mkst (mtx s) (running s) (waiting s) (finished s) (count s) l (mp s) (arg s) (todo s).

Inductive mstep (s : st) : act -> st -> Prop :=
  | ms_begin n rest : mp s = MIdle -> todo s = n :: rest ->
      mstep s (MExecBegin n) (mkst (mtx s) (running s) (waiting s) (finished s) (count s) (wpcs s) MLock n rest)
  | ms_dbegin : mp s = MIdle -> todo s = [] -> mstep s DBegin (set_mp s MDLock)
  | ms_lock : mp s = MLock -> mtx s = None -> mstep s MLockA (set_mp (set_mtx s (Some Main)) MSet)
  | ms_set : mp s = MSet ->
      mstep s MSetA (mkst (mtx s) (all_true (nthreads s)) 0 (finished s) (arg s) (wpcs s) MNotify (arg s) (todo s))
  | ms_notify : mp s = MNotify -> mstep s MNotifyA (set_wpcs (set_mp s MWaitEnter) (map wake (wpcs s)))
  | ms_waitenter_d : mp s = MWaitEnter -> waiting s = nthreads s -> mstep s MWaitEnterA (set_mp s MWaitDone)
  | ms_waitenter_b : mp s = MWaitEnter -> waiting s <> nthreads s ->
      mstep s MWaitEnterA (set_mp (set_mtx s None) MBlocked)
  | ms_waitexit : mp s = MWoken -> mtx s = None -> waiting s = nthreads s ->
      mstep s MWaitExitA (set_mp (set_mtx s (Some Main)) MWaitDone)
  | ms_spur : mp s = MBlocked -> mtx s = None -> waiting s = nthreads s ->
      mstep s MSpurExitA (set_mp (set_mtx s (Some Main)) MWaitDone)
  | ms_recheck : mp s = MWoken -> mtx s = None -> waiting s <> nthreads s -> mstep s MRecheckA (set_mp s MBlocked)
  | ms_unlock : mp s = MWaitDone -> mstep s MUnlockA (set_mp (set_mtx s None) MRet)
  | ms_end : mp s = MRet -> mstep s MExecEnd (set_mp s MIdle)
  | ms_dlock : mp s = MDLock -> mtx s = None -> mstep s DLock (set_mp (set_mtx s (Some Main)) MDSet)
  | ms_dset : mp s = MDSet ->
      mstep s DSet (mkst (mtx s) (all_true (nthreads s)) (waiting s) true (count s) (wpcs s) MDNotify (arg s) (todo s))
  | ms_dnotify : mp s = MDNotify -> mstep s DNotify (set_wpcs (set_mp s MDUnlock) (map wake (wpcs s)))
  | ms_dunlock : mp s = MDUnlock -> mstep s DUnlock (set_mp (set_mtx s None) MJoin)
  | ms_djoined : mp s = MJoin -> forallb is_exited (wpcs s) = true -> mstep s DJoined (set_mp s MDone).

Lemma mtx_free_true s : mtx_free s = true -> mtx s = None.
Proof. unfold mtx_free; destruct (mtx s); congruence. Qed.
Lemma mtx_free_None s : mtx s = None -> mtx_free s = true.
Proof. unfold mtx_free; intros ->; reflexivity. Qed.

Ltac split_ifs H :=
  repeat match type of H with
         | (if ?c then _ else _) = Some _ => let E := fresh "E" in destruct c eqn:E
         | match ?c with _ => _ end = Some _ => let E := fresh "E" in destruct c eqn:E
         end; try discriminate H.

Ltac prep_conds :=
  repeat match goal with
         | H : andb _ _ = true |- _ => apply andb_prop in H; destruct H
         | H : negb _ = true |- _ => apply negb_true_iff in H
         | H : negb _ = false |- _ => apply negb_false_iff in H
         | H : mtx_free _ = true |- _ => apply mtx_free_true in H
         | H : (_ =? _) = true |- _ => apply Nat.eqb_eq in H
         | H : (_ =? _) = false |- _ => apply Nat.eqb_neq in H
         | H : (_ <? _) = true |- _ => apply Nat.ltb_lt in H
         | H : (_ <? _) = false |- _ => apply Nat.ltb_ge in H
         end.

Lemma fire_w_inv s w a s' : fire_w s w a = Some s' -> w < nthreads s /\ wstep s w a s'.
Proof.
  unfold fire_w. destruct (w <? nthreads s) eqn:L; cbn [negb]; [|discriminate].
  apply Nat.ltb_lt in L. intros H; split; auto.
  destruct (pcw s w) eqn:P; destruct a; try discriminate H; split_ifs H;
    injection H as <-; prep_conds; subst; try (econstructor; eauto; congruence).
  - change false with (negb true). rewrite <- E. econstructor; eauto.
  - destruct (mp s) eqn:M; try (apply ws_notify_o; congruence). apply ws_notify_b; auto.
Qed.

Lemma fire_m_inv s a s' : fire_m s a = Some s' -> mstep s a s'.
Proof.
  unfold fire_m. intros H.
  destruct (mp s) eqn:P; destruct a; try discriminate H; split_ifs H;
    injection H as <-; prep_conds; subst; try (econstructor; eauto; congruence).
Qed.

(* ------------------------------------------------------------------ converse: the relations imply fire *)

Lemma ltb_true a b : a < b -> (a <? b) = true.
Proof. apply Nat.ltb_lt. Qed.
Lemma ltb_false a b : b <= a -> (a <? b) = false.
Proof. apply Nat.ltb_ge. Qed.

Lemma wstep_fire s w a s' : w < nthreads s -> wstep s w a s' -> fire_w s w a = Some s'.
Proof.
  intros L H. unfold fire_w. rewrite (ltb_true _ _ L). cbn [negb].
  destruct H;
    repeat match goal with
           | H : pcw s w = _ |- _ => rewrite H; clear H
           | H : mtx s = None |- _ => rewrite (mtx_free_None _ H); clear H
           | H : runw s w = _ |- _ => rewrite H; clear H
           | H : finished s = true |- _ => rewrite H
           | H : _ < _ |- _ => rewrite (ltb_true _ _ H); clear H
           | H : _ <= _ |- _ => rewrite (ltb_false _ _ H); clear H
           | H : mp s = MBlocked |- _ => rewrite H
           end; cbn [andb negb]; rewrite ?Nat.eqb_refl; cbn [andb negb]; try reflexivity.
  destruct (mp s); try congruence; reflexivity.
Qed.

Lemma eqb_true a b : a = b -> (a =? b) = true.
Proof. intros ->; apply Nat.eqb_refl. Qed.
Lemma eqb_false a b : a <> b -> (a =? b) = false.
Proof. apply Nat.eqb_neq. Qed.

Lemma mstep_fire s a s' : mstep s a s' -> fire_m s a = Some s'.
Proof.
  intros H. unfold fire_m.
  destruct H;
    repeat match goal with
           | H : mp s = _ |- _ => rewrite H; clear H
           | H : todo s = _ |- _ => rewrite H; clear H
           | H : mtx s = None |- _ => rewrite (mtx_free_None _ H); clear H
           | H : waiting s = nthreads s |- _ => rewrite (eqb_true _ _ H); clear H
           | H : waiting s <> nthreads s |- _ => rewrite (eqb_false _ _ H); clear H
           | H : forallb _ _ = true |- _ => rewrite H; clear H
           end; cbn [andb negb]; rewrite ?Nat.eqb_refl; try reflexivity.
Qed.

Lemma fire_inv s e s' :
  fire s e = Some s' ->
  match fst e with
  | Main => mstep s (snd e) s'
  | W w => w < nthreads s /\ wstep s w (snd e) s'
  end.
Proof. unfold fire. destruct (fst e); [apply fire_m_inv | apply fire_w_inv]. Qed.

(* ================================================================== A. [enabled] is exactly [fire] *)

Lemma in_succs_of s t acts e s' :
  In (e, s') (succs_of s t acts) <-> exists a, In a acts /\ e = (t, a) /\ fire s (t, a) = Some s'.
Proof.
  unfold succs_of. rewrite in_flat_map. split.
  - intros (a & Ia & H). exists a. destruct (fire s (t, a)) eqn:F; cbn in H; [|tauto].
    destruct H as [H|[]]. inversion H; subst; auto.
  - intros (a & Ia & -> & F). exists a. rewrite F. cbn; auto.
Qed.

Lemma cand_w_complete s w a s' : wstep s w a s' -> In a (cand_w s w).
Proof. unfold cand_w. destruct 1; rewrite H; cbn; auto. Qed.

Lemma cand_m_complete s a s' : mstep s a s' -> In a (cand_m s).
Proof. unfold cand_m. destruct 1; rewrite H; try rewrite H0; cbn; auto. Qed.

Theorem pe_enabled_sound s e s' : In (e, s') (enabled s) -> fire s e = Some s'.
Proof.
  unfold enabled. rewrite in_app_iff, in_flat_map.
  intros [H|(w & _ & H)]; apply in_succs_of in H; destruct H as (a & _ & -> & F); exact F.
Qed.

Theorem pe_enabled_complete s e s' : fire s e = Some s' -> In (e, s') (enabled s).
Proof.
  intros F. pose proof (fire_inv _ _ _ F) as I. destruct e as [[|w] a]; cbn [fst snd] in I.
  - unfold enabled. apply in_or_app; left. apply in_succs_of. exists a; repeat split; auto.
    eapply cand_m_complete; eauto.
  - destruct I as [L I]. unfold enabled. apply in_or_app; right. apply in_flat_map. exists w; split.
    + apply in_seq; lia.
    + apply in_succs_of. exists a; repeat split; auto. eapply cand_w_complete; eauto.
Qed.

(* ================================================================== projections of post-states *)

Lemma pcw_upd m r wt f c s w p q a td w' : w < nthreads s ->
  pcw (mkst m r wt f c (upd w p (wpcs s)) q a td) w' = if w =? w' then p else pcw s w'.
Proof. intros L. unfold pcw; cbn [wpcs]. rewrite nth_upd. fold (nthreads s). rewrite (ltb_true _ _ L), andb_true_r; auto. Qed.
Lemma pcw_same m r wt f c s q a td w' : pcw (mkst m r wt f c (wpcs s) q a td) w' = pcw s w'.
Proof. reflexivity. Qed.
Lemma pcw_wake m r wt f c s q a td w' : pcw (mkst m r wt f c (map wake (wpcs s)) q a td) w' = wake (pcw s w').
Proof. unfold pcw; cbn [wpcs]. change WExited with (wake WExited) at 1. apply map_nth. Qed.
Lemma runw_same m s wt f c l q a td w' : runw (mkst m (running s) wt f c l q a td) w' = runw s w'.
Proof. reflexivity. Qed.
Lemma runw_upd m s w wt f c l q a td w' :
  runw (mkst m (upd w false (running s)) wt f c l q a td) w' = if w =? w' then false else runw s w'.
Proof.
  unfold runw; cbn [running]. rewrite nth_upd. destruct (w =? w') eqn:E; cbn [andb]; auto.
  apply Nat.eqb_eq in E; subst. destruct (w' <? length (running s)) eqn:L; auto.
  apply Nat.ltb_ge in L. apply nth_overflow; auto.
Qed.
Lemma runw_all m n wt f c l q a td w' : w' < n -> runw (mkst m (all_true n) wt f c l q a td) w' = true.
Proof. intros. unfold runw, all_true; cbn [running]. apply nth_repeat_lt; auto. Qed.
Lemma nthreads_upd m r wt f c s w p q a td : nthreads (mkst m r wt f c (upd w p (wpcs s)) q a td) = nthreads s.
Proof. unfold nthreads; cbn [wpcs]. apply upd_length. Qed.
Lemma nthreads_same m r wt f c s q a td : nthreads (mkst m r wt f c (wpcs s) q a td) = nthreads s.
Proof. reflexivity. Qed.
Lemma nthreads_wake m r wt f c s q a td : nthreads (mkst m r wt f c (map wake (wpcs s)) q a td) = nthreads s.
Proof. unfold nthreads; cbn [wpcs]. apply map_length. Qed.

(** normalise every projection of an explicit post-state in the goal *)
Ltac stnorm :=
  unfold set_pc, set_mtx, set_mp, set_running, set_waiting, set_wpcs;
  cbn [mtx running waiting finished count wpcs mp arg todo];
  rewrite ?pcw_same, ?pcw_wake, ?runw_same, ?runw_upd, ?nthreads_upd, ?nthreads_same, ?nthreads_wake;
  rewrite ?pcw_upd by assumption;
  rewrite ?upd_length; unfold all_true; rewrite ?repeat_length.

Ltac stnorm_in H :=
  unfold set_pc, set_mtx, set_mp, set_running, set_waiting, set_wpcs in H;
  cbn [mtx running waiting finished count wpcs mp arg todo] in H;
  rewrite ?pcw_same, ?pcw_wake, ?runw_same, ?runw_upd, ?nthreads_upd, ?nthreads_same, ?nthreads_wake in H;
  rewrite ?pcw_upd in H by assumption;
  rewrite ?upd_length in H.

(** frame of a worker step: everything a step of worker [w] leaves unchanged *)
Definition mclass_eq (p q : mpc) : Prop := p = q \/ (p = MBlocked /\ q = MWoken).

Lemma wstep_frame s w a s' : w < nthreads s -> wstep s w a s' ->
  nthreads s' = nthreads s /\ length (running s') = length (running s) /\ finished s' = finished s /\
  count s' = count s /\ arg s' = arg s /\ todo s' = todo s /\ mclass_eq (mp s) (mp s') /\
  (forall w', w' <> w -> pcw s' w' = pcw s w' /\ runw s' w' = runw s w').
Proof.
  intros L H. unfold mclass_eq.
  destruct H; stnorm; repeat split; auto;
    match goal with N : _ <> w |- _ => stnorm; rewrite ?(eqb_false _ _ (not_eq_sym N)); auto end.
Qed.

Lemma wake_exited_map l : forallb is_exited l = true -> map wake l = l.
Proof. induction l as [|p l]; cbn; auto. destruct p; cbn; try discriminate. intros; f_equal; auto. Qed.

(* ================================================================== B. mutual exclusion *)

Definition in_cs (p : wpc) : bool :=
  match p with WWaitEnter | WWaitDone | WFin | WInFin | WIncr | WNotify | WUnlock2 => true | _ => false end.
Definition m_in_cs (p : mpc) : bool :=
  match p with MSet | MNotify | MWaitEnter | MWaitDone | MDSet | MDNotify | MDUnlock => true | _ => false end.

Definition mutex_inv (T : nat) (s : st) : Prop :=
  nthreads s = T /\ length (running s) = T /\
  (forall w, mtx s = Some (W w) <-> (w < T /\ in_cs (pcw s w) = true)) /\
  (mtx s = Some Main <-> m_in_cs (mp s) = true).

Lemma in_cs_wake p : in_cs (wake p) = in_cs p.
Proof. destruct p; reflexivity. Qed.

(** a step of worker [w] that acquires / releases / keeps the mutex *)
Lemma mutex_w_step T s s' w p' :
  mutex_inv T s -> w < T -> nthreads s' = nthreads s -> length (running s') = length (running s) ->
  (forall w', pcw s' w' = if w =? w' then p' else pcw s w') -> m_in_cs (mp s') = m_in_cs (mp s) ->
  (mtx s = None /\ in_cs p' = true /\ mtx s' = Some (W w)) \/
  (in_cs (pcw s w) = true /\ in_cs p' = false /\ mtx s' = None) \/
  (in_cs (pcw s w) = in_cs p' /\ mtx s' = mtx s) ->
  mutex_inv T s'.
Proof.
  intros (N & R & MW & MM) L N' R' P Q K. unfold mutex_inv.
  rewrite N', R', Q. split; [auto|]. split; [auto|]. split; [intros w0; split|split].
  - intros E. rewrite P. destruct K as [(F & C & E')|[(C0 & C & E')|(C & E')]]; rewrite E' in E.
    + inversion E; subst. rewrite Nat.eqb_refl; auto.
    + discriminate.
    + apply MW in E. destruct E as [Lw C']. split; auto. destruct (Nat.eqb_spec w w0); subst; auto. congruence.
  - rewrite P. intros (Lw & C'). destruct K as [(F & C & E')|[(C0 & C & E')|(C & E')]]; rewrite E'.
    + destruct (Nat.eqb_spec w w0); subst; auto.
      assert (X : mtx s = Some (W w0)) by (apply MW; auto). congruence.
    + destruct (Nat.eqb_spec w w0); subst; try congruence.
      assert (X : mtx s = Some (W w0)) by (apply MW; auto).
      assert (Y : mtx s = Some (W w)) by (apply MW; auto). congruence.
    + apply MW. split; auto. destruct (Nat.eqb_spec w w0); subst; auto. congruence.
  - destruct K as [(F & C & E')|[(C0 & C & E')|(C & E')]]; rewrite E'; try discriminate. apply MM.
  - intros C'. apply MM in C'. destruct K as [(F & C & E')|[(C0 & C & E')|(C & E')]]; rewrite E'; try congruence.
    assert (Y : mtx s = Some (W w)) by (apply MW; auto). congruence.
Qed.

Lemma mutex_m_step T s s' :
  mutex_inv T s -> nthreads s' = nthreads s -> length (running s') = T ->
  (forall w', in_cs (pcw s' w') = in_cs (pcw s w')) ->
  (mtx s = None /\ m_in_cs (mp s') = true /\ mtx s' = Some Main) \/
  (m_in_cs (mp s) = true /\ m_in_cs (mp s') = false /\ mtx s' = None) \/
  (m_in_cs (mp s) = m_in_cs (mp s') /\ mtx s' = mtx s) ->
  mutex_inv T s'.
Proof.
  intros (N & R & MW & MM) N' R' P K. unfold mutex_inv.
  rewrite N'. split; [auto|]. split; [auto|]. split; [intros w0; split|split].
  - rewrite P. intros H. destruct K as [(F & C & E')|[(C0 & C & E')|(C & E')]]; rewrite E' in H; try discriminate.
    apply MW in H; tauto.
  - rewrite P. intros C'. apply MW in C'. destruct K as [(F & C & E')|[(C0 & C & E')|(C & E')]]; rewrite E'; try congruence.
    apply MM in C0. congruence.
  - destruct K as [(F & C & E')|[(C0 & C & E')|(C & E')]]; rewrite E'; try discriminate; auto.
    rewrite <- C. apply MM.
  - intros C'. destruct K as [(F & C & E')|[(C0 & C & E')|(C & E')]]; rewrite E'; try congruence.
    rewrite <- C in C'. apply MM; auto.
Qed.

Lemma mutex_inv_init T td : mutex_inv T (init T td).
Proof.
  unfold mutex_inv, init, nthreads, pcw; cbn. rewrite !repeat_length. repeat split; auto; try discriminate.
  intros (L & C). rewrite nth_repeat_lt in C; auto. discriminate.
Qed.

Lemma mutex_inv_step T s e s' : mutex_inv T s -> fire s e = Some s' -> mutex_inv T s'.
Proof.
  intros I F. apply fire_inv in F. destruct e as [[|w] a]; cbn [fst snd] in F.
  - pose proof I as (N & R & _ & _).
    destruct F; (eapply mutex_m_step; [exact I | stnorm; auto ..| ]);
      try (intros; stnorm; rewrite ?in_cs_wake; reflexivity);
      stnorm; rewrite H; cbn [m_in_cs]; tauto.
  - destruct F as [L F]. pose proof I as (N & R & _ & _). rewrite N in L.
    assert (L' : w < nthreads s) by lia.
    destruct F;
      (eapply mutex_w_step; [exact I | exact L | stnorm; auto .. | ]);
      try (intros; stnorm; reflexivity);
      try (stnorm; reflexivity); try (stnorm; rewrite H0; reflexivity);
      stnorm; rewrite H; cbn [in_cs]; try tauto.
    destruct (S (waiting s) =? nthreads s); cbn [in_cs]; tauto.
Qed.

Lemma run_mutex_inv T td tr s : run T td tr s -> mutex_inv T s.
Proof. induction 1. apply mutex_inv_init. eapply mutex_inv_step; eauto. Qed.

Theorem pe_mutex_exclusive T td tr s :
  run T td tr s ->
  nthreads s = T /\
  (forall w, mtx s = Some (W w) <-> (w < T /\ in_cs (pcw s w) = true)) /\
  (mtx s = Some Main <-> m_in_cs (mp s) = true).
Proof. intros R. destruct (run_mutex_inv _ _ _ _ R) as (A & B & C & D). auto. Qed.

Lemma run_nthreads T td tr s : run T td tr s -> nthreads s = T.
Proof. intros R. apply (run_mutex_inv _ _ _ _ R). Qed.

(* ================================================================== C. task.finish() is mutually exclusive *)

Theorem pe_finish_mutually_exclusive T td tr s w1 w2 :
  run T td tr s -> w1 < T -> w2 < T -> pcw s w1 = WInFin -> pcw s w2 = WInFin ->
  w1 = w2 /\ mtx s = Some (W w1).
Proof.
  intros R L1 L2 P1 P2. destruct (run_mutex_inv _ _ _ _ R) as (_ & _ & MW & _).
  assert (X1 : mtx s = Some (W w1)) by (apply MW; rewrite P1; auto).
  assert (X2 : mtx s = Some (W w2)) by (apply MW; rewrite P2; auto).
  split; congruence.
Qed.

(** trace form: [fin_open tr w] = the newest finish-event of worker [w] in the newest-first trace is a begin *)
Fixpoint fin_open (tr : list event) (w : nat) : bool :=
  match tr with
  | [] => false
  | (W v, a) :: r =>
      if v =? w then match a with AFinB => true | AFinE => false | _ => fin_open r w end else fin_open r w
  | (Main, _) :: r => fin_open r w
  end.

Lemma wake_infin p : wake p = WInFin -> p = WInFin.
Proof. destruct p; cbn; congruence. Qed.

Lemma fin_open_inv T td tr s : run T td tr s -> forall w, fin_open tr w = true -> w < T /\ pcw s w = WInFin.
Proof.
  induction 1 as [|tr s e s' R IH F]; intros w0 O. discriminate.
  pose proof (run_nthreads _ _ _ _ R) as N.
  apply fire_inv in F. destruct e as [[|w] a]; cbn [fst snd fin_open] in *.
  - destruct (IH _ O) as [L P]. split; auto.
    destruct F; stnorm; rewrite ?P; auto.
  - destruct F as [L F]. destruct (Nat.eqb_spec w w0) as [->|NE].
    + split. lia. destruct F; try discriminate O; try (destruct (IH _ O) as [_ P]; congruence).
      stnorm. rewrite Nat.eqb_refl; auto.
    + destruct (IH _ O) as [L0 P]. split; auto.
      destruct (wstep_frame _ _ _ _ L F) as (_ & _ & _ & _ & _ & _ & _ & Fr).
      destruct (Fr w0) as [Q _]; auto. congruence.
Qed.

Theorem pe_finish_mutually_exclusive_trace T td tr s w :
  run T td ((W w, AFinB) :: tr) s -> forall w', fin_open tr w' = false.
Proof.
  intros R w'. inversion R as [|tr0 s0 e s1 R0 F]; subst.
  destruct (fin_open tr w') eqn:O; auto. exfalso.
  destruct (fin_open_inv _ _ _ _ R0 _ O) as [L' P'].
  apply fire_inv in F; cbn [fst snd] in F. destruct F as [L F].
  rewrite (run_nthreads _ _ _ _ R0) in L.
  destruct (run_mutex_inv _ _ _ _ R0) as (_ & _ & MW & _).
  inversion F as [| | | | | | | | | | | | | | | |P| | | | | |]; subst.
  assert (X1 : mtx s0 = Some (W w)) by (apply MW; rewrite P; auto).
  assert (X2 : mtx s0 = Some (W w')) by (apply MW; rewrite P'; auto).
  assert (w = w') by congruence. subst. congruence.
Qed.

(* ================================================================== D. per-worker call order *)

Inductive phase := PhIdle | PhInited | PhExecuting | PhFinishing | PhBad.

Definition phase_step (ph : phase) (a : act) : phase :=
  match a with
  | AInit => match ph with PhIdle => PhInited | _ => PhBad end
  | AExec _ => match ph with PhInited | PhExecuting => PhExecuting | _ => PhBad end
  | AFinB => match ph with PhInited | PhExecuting => PhFinishing | _ => PhBad end
  | AFinE => match ph with PhFinishing => PhIdle | _ => PhBad end
  | _ => ph
  end.

Fixpoint wphase (tr : list event) (w : nat) : phase :=
  match tr with
  | [] => PhIdle
  | (W v, a) :: r => if v =? w then phase_step (wphase r w) a else wphase r w
  | (Main, _) :: r => wphase r w
  end.

Definition phase_rel (ph : phase) (p : wpc) : Prop :=
  match p with
  | WExec _ _ | WLock2 | WFin => ph = PhInited \/ ph = PhExecuting
  | WInFin => ph = PhFinishing
  | _ => ph = PhIdle
  end.

Lemma phase_rel_wake ph p : phase_rel ph (wake p) <-> phase_rel ph p.
Proof. destruct p; cbn; tauto. Qed.

Lemma phase_inv T td tr s : run T td tr s -> forall w, w < T -> phase_rel (wphase tr w) (pcw s w).
Proof.
  induction 1 as [|tr s e s' R IH F]; intros w0 L0.
  - unfold init, pcw; cbn. rewrite nth_repeat_lt; cbn; auto.
  - pose proof (run_nthreads _ _ _ _ R) as N. specialize (IH _ L0).
    apply fire_inv in F. destruct e as [[|w] a]; cbn [fst snd wphase] in *.
    + destruct F; stnorm; rewrite ?phase_rel_wake; auto.
    + destruct F as [L F]. destruct (Nat.eqb_spec w w0) as [->|NE].
      * destruct F; rewrite H in IH; cbn [phase_rel] in IH; stnorm; rewrite Nat.eqb_refl;
          cbn [phase_step phase_rel]; auto;
          try (destruct IH as [-> | ->]; cbn; auto; fail);
          try (rewrite IH; cbn; auto; fail).
        destruct (S (waiting s) =? nthreads s); cbn; auto.
      * destruct (wstep_frame _ _ _ _ L F) as (_ & _ & _ & _ & _ & _ & _ & Fr).
        destruct (Fr w0) as [Q _]; auto. rewrite Q; auto.
Qed.

Theorem pe_init_before_exec_before_finish_per_worker T td tr s w :
  run T td tr s -> w < T -> wphase tr w <> PhBad.
Proof.
  intros R L. pose proof (phase_inv _ _ _ _ R _ L) as P.
  destruct (pcw s w); cbn in P; try (rewrite P; discriminate); destruct P as [-> | ->]; discriminate.
Qed.

(* ================================================================== the protocol invariant *)

Inductive cls := CBetween | CRoundN | CRound | CDestrN | CDestr.

Definition mclass (p : mpc) : cls :=
  match p with
  | MIdle | MLock | MSet | MWaitDone | MRet | MDLock | MDSet => CBetween
  | MNotify => CRoundN
  | MWaitEnter | MBlocked | MWoken => CRound
  | MDNotify => CDestrN
  | MDUnlock | MJoin | MDone => CDestr
  end.

Definition is_round (c : cls) : bool := match c with CRoundN | CRound => true | _ => false end.

Definition mfin (p : mpc) : bool := match p with MDNotify | MDUnlock | MJoin | MDone => true | _ => false end.

Definition quiet (p : wpc) : bool :=
  match p with WStart | WTop _ | WLock | WWaitEnter | WBlocked | WWoken | WIterEnd => true | _ => false end.

Definition busyfin (p : wpc) : bool := match p with WLock2 | WFin | WInFin | WIncr => true | _ => false end.

(** what a worker may be doing, given the class of the main thread's pc, its running flag and the count *)
Definition wok (c : cls) (cnt : nat) (r : bool) (p : wpc) : bool :=
  match c with
  | CBetween =>
      negb r && match p with
                | WStart | WLock | WWaitEnter | WBlocked | WWoken | WIterEnd => true
                | WTop sf => sf
                | _ => false
                end
  | CRoundN | CRound =>
      if r then match p with
                | WStart | WLock | WWaitEnter | WWoken | WWaitDone | WIterEnd => true
                | WTop sf | WChk sf => sf
                | WBlocked => match c with CRoundN => true | _ => false end
                | WInit c' | WExec _ c' => c' =? cnt
                | _ => false
                end
      else match p with
           | WLock2 | WFin | WInFin | WIncr | WNotify | WUnlock2 | WIterEnd | WLock | WWaitEnter | WBlocked | WWoken => true
           | WTop sf => sf
           | _ => false
           end
  | CDestrN | CDestr =>
      r && match p with
           | WStart | WTop _ | WLock | WWaitEnter | WWoken | WWaitDone | WIterEnd | WExited => true
           | WChk sf => negb sf
           | WBlocked => match c with CDestrN => true | _ => false end
           | _ => false
           end
  end.

Definition doneb (r : bool) (p : wpc) : bool := negb r && negb (busyfin p).
Definition done (s : st) (w : nat) : bool := doneb (runw s w) (pcw s w).

Definition pe_inv (T : nat) (s : st) : Prop :=
  finished s = mfin (mp s) /\
  (forall w, w < T -> wok (mclass (mp s)) (count s) (runw s w) (pcw s w) = true) /\
  (is_round (mclass (mp s)) = true -> count s = arg s /\ waiting s = countb (done s) T) /\
  (mp s = MWaitDone \/ mp s = MRet -> waiting s = T) /\
  (forall w, w < T -> pcw s w = WNotify -> waiting s = T) /\
  (mp s = MBlocked -> waiting s < T \/ exists w, w < T /\ pcw s w = WNotify).

Lemma pe_inv_init T td : pe_inv T (init T td).
Proof.
  unfold pe_inv, init, pcw, runw; cbn. repeat split; auto; try discriminate.
  - intros w L. rewrite !nth_repeat_lt; auto.
  - intros [X|X]; discriminate.
  - intros w L. rewrite nth_repeat_lt; auto. discriminate.
Qed.

Lemma doneb_wake r p : doneb r (wake p) = doneb r p.
Proof. destruct p; reflexivity. Qed.

Lemma wake_notify p : wake p = WNotify -> p = WNotify.
Proof. destruct p; cbn; congruence. Qed.

(** no worker is inside a critical section when the mutex is free or held by Main *)
Lemma not_in_cs T s w : mutex_inv T s -> w < T -> (mtx s = None \/ mtx s = Some Main) -> in_cs (pcw s w) = false.
Proof.
  intros (_ & _ & MW & _) L K. destruct (in_cs (pcw s w)) eqn:C; auto.
  assert (X : mtx s = Some (W w)) by (apply MW; auto). destruct K; congruence.
Qed.

(* ------------------------------------------------------------------ main-thread steps *)

Ltac wcases Iw :=
  match goal with
  | |- context [pcw ?s ?w] =>
      destruct (pcw s w); destruct (runw s w); cbn in Iw |- *; try discriminate Iw; auto
  end.

Lemma pe_inv_mstep T s a s' : mutex_inv T s -> pe_inv T s -> mstep s a s' -> pe_inv T s'.
Proof.
  intros MI (I1 & I2 & I3 & I4 & I5 & I6) F.
  pose proof MI as (N & R & MW & MM).
  assert (WLE : is_round (mclass (mp s)) = true -> waiting s <= T).
  { intros X. destruct (I3 X) as [_ ->]. apply countb_le. }
  (* all workers are done and outside the critical sections when the caller's wait ends *)
  assert (DONE : is_round (mclass (mp s)) = true -> waiting s = nthreads s ->
                 (mtx s = None \/ mtx s = Some Main) ->
                 forall w, w < T -> wok CBetween (count s) (runw s w) (pcw s w) = true).
  { intros X E K w L. destruct (I3 X) as [_ E']. rewrite E', N in E.
    pose proof (countb_full _ _ E w L) as D. pose proof (not_in_cs _ _ _ MI L K) as C.
    pose proof (I2 w L) as Iw. unfold done, doneb in D.
    destruct (mclass (mp s)); try discriminate X;
      destruct (pcw s w); destruct (runw s w); cbn in *; congruence. }
  assert (P1 : finished s' = mfin (mp s')).
  { destruct F; rewrite H in *; stnorm; cbn [mfin] in *; auto. }
  assert (P2 : forall w, w < T -> wok (mclass (mp s')) (count s') (runw s' w) (pcw s' w) = true).
  { intros w L. pose proof (I2 w L) as Iw.
    destruct F; rewrite H in *; cbn [mclass is_round] in *; rewrite ?runw_all by lia; stnorm; cbn [mclass];
      try (wcases Iw; fail).
    - apply DONE; auto. right; apply MM; reflexivity.
    - apply DONE; auto.
    - apply DONE; auto. }
  assert (P3 : is_round (mclass (mp s')) = true -> count s' = arg s' /\ waiting s' = countb (done s') T).
  { destruct F; rewrite H in *; cbn [mclass is_round] in *; stnorm; cbn [mclass is_round];
      try (intros X; discriminate X); intros _; try (exact (I3 eq_refl)).
    - split; auto. symmetry; apply countb_none. intros w L. unfold done, doneb.
      rewrite runw_all by lia. reflexivity.
    - destruct (I3 eq_refl) as [Ia Ib]. split; auto. rewrite Ib. apply countb_ext. intros w L.
      unfold done. stnorm. symmetry; apply doneb_wake. }
  assert (P4 : mp s' = MWaitDone \/ mp s' = MRet -> waiting s' = T).
  { destruct F; rewrite H in *; stnorm; try (intros [X|X]; discriminate X); intros _; try lia.
    apply I4; auto. }
  assert (P5 : forall w, w < T -> pcw s' w = WNotify -> waiting s' = T).
  { intros w L. pose proof (I2 w L) as Iw. pose proof (I5 w L) as Jw.
    destruct F; rewrite H in *; stnorm; auto; try (intros X; apply wake_notify in X; auto; fail).
    intros X. rewrite X in Iw. cbn in Iw. rewrite andb_false_r in Iw. discriminate. }
  assert (P6 : mp s' = MBlocked -> waiting s' < T \/ exists w, w < T /\ pcw s' w = WNotify).
  { destruct F; rewrite H in *; stnorm; try (intros X; discriminate X); intros _; left;
      cbn [mclass is_round] in WLE; specialize (WLE eq_refl); lia. }
  unfold pe_inv; auto 7.
Qed.

(* ------------------------------------------------------------------ worker steps *)

Lemma mclass_eq_class p q : mclass_eq p q -> mclass p = mclass q.
Proof. intros [->|[-> ->]]; reflexivity. Qed.
Lemma mclass_eq_fin p q : mclass_eq p q -> mfin p = mfin q.
Proof. intros [->|[-> ->]]; reflexivity. Qed.

Lemma pe_inv_wstep T s w a s' : mutex_inv T s -> pe_inv T s -> w < T -> wstep s w a s' -> pe_inv T s'.
Proof.
  intros MI (I1 & I2 & I3 & I4 & I5 & I6) L F.
  pose proof MI as (N & R & MW & MM).
  assert (L' : w < nthreads s) by lia.
  destruct (wstep_frame _ _ _ _ L' F) as (F1 & F2 & F3 & F4 & F5 & F6 & F7 & F8).
  pose proof (I2 w L) as Iw.
  assert (P1 : finished s' = mfin (mp s')).
  { rewrite F3, <- (mclass_eq_fin _ _ F7); auto. }
  assert (P2 : forall w', w' < T -> wok (mclass (mp s')) (count s') (runw s' w') (pcw s' w') = true).
  { intros w' Lw'. rewrite <- (mclass_eq_class _ _ F7), F4.
    destruct (Nat.eq_dec w' w) as [->|NE].
    2:{ destruct (F8 w' NE) as [-> ->]. auto. }
    clear F1 F2 F3 F4 F5 F6 F7 F8.
    destruct F; rewrite H in Iw; stnorm; rewrite Nat.eqb_refl; rewrite ?I1 in *;
      try rewrite H0 in *; try rewrite H1 in *;
      try match goal with |- context [S (waiting s) =? nthreads s] => destruct (S (waiting s) =? nthreads s) end;
      destruct (mp s); cbn in Iw |- *; try discriminate; try congruence;
      try (destruct (runw s w); cbn in Iw |- *; try discriminate; auto; rewrite ?Nat.eqb_refl; auto; fail).
 }
  assert (RW : is_round (mclass (mp s)) = true -> pcw s w = WIncr \/ (exists i c, pcw s w = WExec i c) ->
               runw s w = (match pcw s w with WIncr => false | _ => true end)).
  { intros X [Y|(i & c & Y)]; rewrite Y in *; destruct (mclass (mp s)); try discriminate X;
      destruct (runw s w); cbn in Iw; auto; discriminate. }
  assert (P3 : is_round (mclass (mp s')) = true -> count s' = arg s' /\ waiting s' = countb (done s') T).
  { rewrite <- (mclass_eq_class _ _ F7), F4, F5. intros X. destruct (I3 X) as [Ia Ib]. split; auto.
    assert (EXT : forall w', w' < T -> w' <> w -> done s w' = done s' w').
    { intros w' _ NE. unfold done. destruct (F8 w' NE) as [-> ->]. auto. }
    specialize (RW X).
    clear F1 F2 F3 F4 F5 F6 F7 F8.
    destruct F;
      try (stnorm; rewrite Ib; apply countb_ext; intros w' Lw';
           destruct (Nat.eq_dec w' w) as [->|NE]; [|apply EXT; auto];
           unfold done; stnorm; rewrite Nat.eqb_refl, H; destruct (runw s w); reflexivity).
    - (* AClear *) stnorm; rewrite Ib; apply countb_ext; intros w' Lw'.
      destruct (Nat.eq_dec w' w) as [->|NE]; [|apply EXT; auto].
      unfold done; stnorm. rewrite Nat.eqb_refl, RW; eauto. rewrite H. reflexivity.
    - (* AIncr *) stnorm. symmetry. transitivity (S (countb (done s) T)); [|rewrite <- Ib; reflexivity].
      apply countb_set with (w0 := w); auto.
      + unfold done. rewrite H. unfold doneb. cbn. apply andb_false_r.
      + unfold done. stnorm. rewrite Nat.eqb_refl, RW; auto. rewrite H.
        destruct (S (waiting s) =? nthreads s); reflexivity. }
  assert (P4 : mp s' = MWaitDone \/ mp s' = MRet -> waiting s' = T).
  { clear F1 F2 F3 F4 F5 F6 F7 F8 P2 P3.
    destruct F; stnorm; auto; try (intros [X|X]; discriminate X).
    intros X. rewrite H in Iw. destruct X as [X|X]; rewrite X in Iw; cbn in Iw;
      rewrite andb_false_r in Iw; discriminate. }
  assert (NOT2 : forall w', w' < T -> pcw s w' = WNotify -> in_cs (pcw s w) = true -> w' = w).
  { intros w' Lw' X C.
    assert (X1 : mtx s = Some (W w')) by (apply MW; rewrite X; auto).
    assert (X2 : mtx s = Some (W w)) by (apply MW; auto). congruence. }
  assert (P5 : forall w', w' < T -> pcw s' w' = WNotify -> waiting s' = T).
  { intros w' Lw'. destruct (Nat.eq_dec w' w) as [->|NE].
    - clear F1 F2 F3 F4 F5 F6 F7 F8 P2 P3.
      destruct F; stnorm; rewrite Nat.eqb_refl; try (intros X; discriminate X).
      destruct (Nat.eqb_spec (S (waiting s)) (nthreads s)); try (intros X; discriminate X). lia.
    - destruct (F8 w' NE) as [-> _]. intros X. pose proof (I5 w' Lw' X) as Y.
      clear F1 F2 F3 F4 F5 F6 F7 F8 P2 P3.
      destruct F; stnorm; auto.
      exfalso. apply NE. apply NOT2; auto. rewrite H; auto. }
  assert (P6 : mp s' = MBlocked -> waiting s' < T \/ exists w', w' < T /\ pcw s' w' = WNotify).
  { intros X.
    assert (X0 : mp s = MBlocked).
    { destruct F7 as [E|[E E']]; congruence. }
    destruct (I6 X0) as [Y|(w' & Lw' & Y)].
    - clear F1 F2 F3 F4 F5 F6 F7 F8 P2 P3 P5.
      destruct F; stnorm; auto.
      destruct (Nat.eqb_spec (S (waiting s)) (nthreads s)).
      + right. exists w. split; auto. stnorm. rewrite Nat.eqb_refl; auto.
      + left. lia.
    - destruct (Nat.eq_dec w' w) as [->|NE].
      + clear F1 F2 F3 F4 F5 F6 F7 F8 P2 P3 P5.
        destruct F; try congruence. stnorm_in X. discriminate.
      + right. exists w'. split; auto. destruct (F8 w' NE) as [-> _]. auto. }
  unfold pe_inv; auto 7.
Qed.

Lemma pe_inv_step T s e s' : mutex_inv T s -> pe_inv T s -> fire s e = Some s' -> pe_inv T s'.
Proof.
  intros MI I F. apply fire_inv in F. destruct e as [[|w] a]; cbn [fst snd] in F.
  - eapply pe_inv_mstep; eauto.
  - destruct F as [L F]. eapply pe_inv_wstep; eauto. destruct MI as (N & _). lia.
Qed.

Lemma run_pe_inv T td tr s : run T td tr s -> pe_inv T s.
Proof.
  induction 1. apply pe_inv_init.
  eapply pe_inv_step; eauto. eapply run_mutex_inv; eauto.
Qed.

(* ================================================================== E. execute() returns only when all are finished *)

Lemma quiet_phase ph p : phase_rel ph p -> quiet p = true -> ph = PhIdle.
Proof. destruct p; cbn; intros; auto; discriminate. Qed.

Theorem pe_execute_state T td tr s :
  run T td tr s -> mp s = MWaitDone \/ mp s = MRet ->
  waiting s = T /\
  forall w, w < T -> done s w = true /\ runw s w = false /\ quiet (pcw s w) = true /\ wphase tr w = PhIdle.
Proof.
  intros R M. destruct (run_pe_inv _ _ _ _ R) as (I1 & I2 & I3 & I4 & I5 & I6).
  split; auto. intros w L. pose proof (I2 w L) as Iw. pose proof (phase_inv _ _ _ _ R w L) as Ph.
  assert (C : mclass (mp s) = CBetween) by (destruct M as [-> | ->]; reflexivity).
  rewrite C in Iw. unfold done, doneb.
  destruct (pcw s w); destruct (runw s w); cbn in Iw, Ph |- *; try discriminate Iw; auto.
Qed.

Theorem pe_execute_returns_only_when_all_finished T td tr s :
  run T td ((Main, MExecEnd) :: tr) s ->
  waiting s = T /\
  forall w, w < T -> wphase tr w = PhIdle /\ runw s w = false /\ quiet (pcw s w) = true.
Proof.
  intros R. inversion R as [|tr0 s0 e s1 R0 F]; subst.
  apply fire_inv in F; cbn [fst snd] in F.
  inversion F as [| | | | | | | | | | |M| | | | |]; subst.
  destruct (pe_execute_state _ _ _ _ R0 (or_intror M)) as [Wt A].
  split; auto. intros w L. destruct (A w L) as (_ & B & C & D). auto.
Qed.

(* ================================================================== G. no deadlock *)

Lemma en_w s w a s' : w < nthreads s -> wstep s w a s' -> is_spurious a = false ->
  exists e s'', In (e, s'') (enabled s) /\ is_spurious (snd e) = false.
Proof.
  intros L H N. exists (W w, a), s'. split; auto.
  apply pe_enabled_complete. unfold fire; cbn [fst snd]. apply wstep_fire; auto.
Qed.

Lemma en_m s a s' : mstep s a s' -> is_spurious a = false ->
  exists e s'', In (e, s'') (enabled s) /\ is_spurious (snd e) = false.
Proof.
  intros H N. exists (Main, a), s'. split; auto.
  apply pe_enabled_complete. unfold fire; cbn [fst snd]. apply mstep_fire; auto.
Qed.

Lemma forallb_false_nth l : forallb is_exited l = false -> exists w, w < length l /\ is_exited (nth w l WExited) = false.
Proof.
  induction l as [|p l IH]; cbn. discriminate.
  destruct (is_exited p) eqn:E; cbn.
  - intros H. destruct (IH H) as (w & L & X). exists (S w). split; auto. lia.
  - intros _. exists 0. split; auto. lia.
Qed.

Ltac enw c := eapply en_w; [eassumption | eapply c; eauto | reflexivity].
Ltac enm c := eapply en_m; [eapply c; eauto | reflexivity].

Theorem pe_no_deadlock T td tr s :
  run T td tr s -> final s = false ->
  exists e s', In (e, s') (enabled s) /\ is_spurious (snd e) = false.
Proof.
  intros R NF. pose proof (run_mutex_inv _ _ _ _ R) as MI.
  destruct (run_pe_inv _ _ _ _ R) as (I1 & I2 & I3 & I4 & I5 & I6).
  pose proof MI as (N & RL & MW & MM).
  destruct (mtx s) as [[|w]|] eqn:M.
  - (* Main holds the mutex *)
    assert (C : m_in_cs (mp s) = true) by (apply MM; auto).
    destruct (mp s) eqn:P; try discriminate C.
    + enm ms_set.
    + enm ms_notify.
    + destruct (Nat.eq_dec (waiting s) (nthreads s)); [enm ms_waitenter_d | enm ms_waitenter_b].
    + enm ms_unlock.
    + enm ms_dset.
    + enm ms_dnotify.
    + enm ms_dunlock.
  - (* worker w holds the mutex *)
    destruct (proj1 (MW w) eq_refl) as [L C]. assert (L' : w < nthreads s) by lia.
    destruct (pcw s w) eqn:P; try discriminate C.
    + destruct (runw s w) eqn:Rw; [enw ws_wait_go | enw ws_wait_block].
    + enw ws_unlock.
    + enw ws_finb.
    + enw ws_fine.
    + enw ws_incr.
    + destruct (mp s) eqn:P'; try (enw ws_notify_o; congruence). enw ws_notify_b.
    + enw ws_unlock2.
  - (* the mutex is free *)
    unfold final in NF. destruct (mp s) eqn:P; try discriminate NF.
    + destruct (todo s) eqn:TD; [enm ms_dbegin | enm ms_begin].
    + enm ms_lock.
    + enm ms_set.
    + enm ms_notify.
    + destruct (Nat.eq_dec (waiting s) (nthreads s)); [enm ms_waitenter_d | enm ms_waitenter_b].
    + (* MBlocked: some worker still has to finish, and can move *)
      assert (Wt : waiting s < T).
      { destruct (I6 eq_refl) as [X|(w & L & X)]; auto.
        assert (Y : None = Some (W w)) by (apply MW; rewrite X; auto). discriminate. }
      destruct (I3 eq_refl) as [_ Wc]. rewrite Wc in Wt.
      destruct (countb_lt_ex _ _ Wt) as (w & L & D). pose proof (I2 w L) as Iw.
      assert (L' : w < nthreads s) by lia.
      unfold done, doneb in D. cbn [mclass] in Iw.
      destruct (pcw s w) eqn:Pw; destruct (runw s w) eqn:Rw; cbn in Iw, D; try discriminate Iw; try discriminate D.
      * enw ws_start.
      * subst. enw ws_loop.
      * enw ws_lock.
      * enw ws_wait_go.
      * enw ws_waitexit.
      * enw ws_unlock.
      * subst. enw ws_go.
      * enw ws_init.
      * destruct (lt_dec idx cnt); [enw ws_exec | enw ws_clear; lia].
      * enw ws_lock2.
      * enw ws_finb.
      * enw ws_fine.
      * enw ws_incr.
      * enw ws_iterend.
    + destruct (Nat.eq_dec (waiting s) (nthreads s)); [enm ms_waitexit | enm ms_recheck].
    + enm ms_unlock.
    + enm ms_end.
    + enm ms_dlock.
    + enm ms_dset.
    + enm ms_dnotify.
    + enm ms_dunlock.
    + (* MJoin *)
      destruct (forallb is_exited (wpcs s)) eqn:FA; [enm ms_djoined|].
      destruct (forallb_false_nth _ FA) as (w & L' & X). fold (nthreads s) in L'. fold (pcw s w) in X.
      assert (L : w < T) by lia. pose proof (I2 w L) as Iw. cbn [mclass mfin] in Iw, I1.
      destruct (pcw s w) eqn:Pw; destruct (runw s w) eqn:Rw; cbn in Iw, X; try discriminate Iw; try discriminate X.
      * enw ws_start.
      * enw ws_exit.
      * enw ws_lock.
      * enw ws_wait_go.
      * enw ws_waitexit.
      * enw ws_unlock.
      * enw ws_chkend.
      * enw ws_iterend.
Qed.

(* ================================================================== H. the trace acceptor is sound *)

Lemma accepts_from_run T td evs : forall s0 pend tr0 s fired,
  run T td tr0 s0 -> accepts_from s0 pend tr0 evs = Some (s, fired) -> run T td fired s.
Proof.
  induction evs as [|e evs IH]; cbn [accepts_from]; intros s0 pend tr0 s fired R A.
  - inversion A; subst; auto.
  - destruct (accept_step s0 pend e) as [[[s1 pend1] f]|] eqn:St; [|discriminate].
    unfold accept_step in St.
    destruct (is_hidden (snd e) || is_spurious (snd e)); [discriminate|].
    destruct (memt (fst e) pend).
    + destruct (is_wait_exit (snd e)); [|discriminate]. inversion St; subst. eapply IH; eauto.
    + destruct (fire s0 (resolve s0 e)) eqn:F; [|discriminate]. inversion St; subst.
      eapply IH; [|eauto]. econstructor; eauto.
Qed.

Theorem pe_accepts_sound T td evs s fired :
  accepts_from (init T td) [] [] evs = Some (s, fired) -> run T td fired s.
Proof. apply accepts_from_run. constructor. Qed.

Corollary pe_accepts_sound_ex T td evs : accepts T td evs = true -> exists tr s, run T td tr s.
Proof.
  unfold accepts. destruct (accepts_from (init T td) [] [] evs) as [[s fired]|] eqn:A; [|discriminate].
  intros _. exists fired, s. eapply pe_accepts_sound; eauto.
Qed.

Corollary pe_accepts_complete_sound T td evs :
  accepts_complete T td evs = true -> exists tr s, run T td tr s /\ final s = true.
Proof.
  unfold accepts_complete. destruct (accepts_from (init T td) [] [] evs) as [[s fired]|] eqn:A; [|discriminate].
  intros Fi. exists fired, s. split; auto. eapply pe_accepts_sound; eauto.
Qed.

(* ================================================================== I. non-vacuity *)

Definition demo_trace : list event :=
  [ (W 0, AStart); (W 1, AStart); (W 0, ALoop); (W 0, ALock); (W 0, AWaitEnter);
    (Main, MExecBegin 3); (Main, MLockA); (Main, MSetA); (Main, MNotifyA); (Main, MWaitEnterA);
    (W 0, AWaitExit); (W 0, AUnlock); (W 0, AGo); (W 0, AInit); (W 0, AExec 0);
    (W 1, ALoop); (W 1, ALock); (W 1, AWaitEnter); (W 1, AWaitExit); (W 1, AUnlock); (W 1, AGo); (W 1, AInit);
    (W 0, AExec 2); (W 1, AExec 1); (W 0, AClear); (W 1, AClear);
    (W 0, ALock2); (W 0, AFinB); (W 0, AFinE); (W 0, AIncr); (W 0, AUnlock2);
    (W 1, ALock2); (W 1, AFinB); (W 1, AFinE); (W 1, AIncr); (W 1, ANotify); (W 1, AUnlock2);
    (Main, MWaitExitA); (Main, MUnlockA); (Main, MExecEnd);
    (Main, DBegin); (Main, DLock); (Main, DSet); (Main, DNotify); (Main, DUnlock);
    (W 0, AIterEnd); (W 0, AExit); (W 1, AIterEnd); (W 1, AExit); (Main, DJoined) ].

Example pe_demo_accepted : accepts_complete 2 [3] demo_trace = true.
Proof. vm_compute. reflexivity. Qed.

(** the hypotheses of E and F are satisfiable: the first 40 records of the demo end with execute() returning *)
Example pe_demo_round : exists tr s, run 2 [3] ((Main, MExecEnd) :: tr) s.
Proof.
  pose proof (pe_accepts_sound 2 [3] (firstn 40 demo_trace)) as H. vm_compute in H.
  eexists; eexists. apply H. reflexivity.
Qed.

(* ================================================================== F. every round executes exactly the stripes *)

Definition is_begin (e : event) : bool := match e with (Main, MExecBegin _) => true | _ => false end.

(** the events newer than the newest [MExecBegin] *)
Fixpoint round_events (tr : list event) : list event :=
  match tr with
  | [] => []
  | e :: r => if is_begin e then [] else e :: round_events r
  end.

Fixpoint last_begin (tr : list event) : option nat :=
  match tr with
  | [] => None
  | e :: r => match e with (Main, MExecBegin n) => Some n | _ => last_begin r end
  end.

Definition is_task (a : act) : bool := match a with AInit | AExec _ | AFinB | AFinE => true | _ => false end.
Definition thr_is (w : nat) (t : thr) : bool := match t with W v => v =? w | Main => false end.

(** chronological list of the task calls of worker [w] among the newest-first events [evs] *)
Definition wtask (w : nat) (evs : list event) : list act :=
  rev (map snd (filter (fun e => thr_is w (fst e) && is_task (snd e)) evs)).

Definition full (w T n : nat) : list act := AInit :: map AExec (stripe w T n) ++ [AFinB; AFinE].

Definition rtask (tr : list event) (w : nat) : list act := wtask w (round_events tr).

Lemma rtask_main_nb tr a w : is_begin (Main, a) = false -> rtask ((Main, a) :: tr) w = rtask tr w.
Proof. unfold rtask. cbn [round_events]. intros ->. reflexivity. Qed.

Lemma rtask_begin tr n w : rtask ((Main, MExecBegin n) :: tr) w = [].
Proof. reflexivity. Qed.

Lemma rtask_worker tr v a w :
  rtask ((W v, a) :: tr) w = if (v =? w) && is_task a then rtask tr w ++ [a] else rtask tr w.
Proof.
  unfold rtask. cbn [round_events is_begin]. unfold wtask. cbn [filter fst snd thr_is].
  destruct ((v =? w) && is_task a); reflexivity.
Qed.

Lemma last_begin_worker tr v a : last_begin ((W v, a) :: tr) = last_begin tr.
Proof. reflexivity. Qed.

(** the arithmetic progression executed by the worker loop *)
Definition prog (w T k : nat) : list nat := map (fun j => w + j * T) (seq 0 k).

Lemma prog_S w T k : prog w T (S k) = prog w T k ++ [w + k * T].
Proof. unfold prog. rewrite seq_S, map_app. reflexivity. Qed.

Lemma stripe_loop_prog T c : forall k fuel i,
  k < fuel -> (forall j, j < k -> i + j * T < c) -> c <= i + k * T ->
  stripe_loop fuel i c T = map (fun j => i + j * T) (seq 0 k).
Proof.
  induction k as [|k IH]; intros fuel i Hf Hlt Hge; destruct fuel as [|fuel]; try lia; cbn [stripe_loop].
  - rewrite ltb_false by lia. reflexivity.
  - pose proof (Hlt 0 ltac:(lia)) as H0. rewrite ltb_true by lia.
    cbn [seq map]. f_equal. lia.
    rewrite <- seq_shift, map_map. rewrite (IH fuel (i + T)); try lia.
    + apply map_ext. intros j. lia.
    + intros j Hj. pose proof (Hlt (S j) ltac:(lia)). lia.
Qed.

Lemma stripe_prog w T c k :
  1 <= T -> (forall j, j < k -> w + j * T < c) -> c <= w + k * T -> stripe w T c = prog w T k.
Proof.
  intros HT Hlt Hge. unfold stripe, prog. apply stripe_loop_prog; auto.
  destruct k as [|k]. lia. pose proof (Hlt k ltac:(lia)). nia.
Qed.

(** per-worker part of the round invariant, as a function of the worker's pc, running flag and the task count *)
Definition jwp (T : nat) (p : wpc) (r : bool) (n : nat) (l : list act) (w : nat) : Prop :=
  match p with
  | WExec idx c => exists k, idx = w + k * T /\ l = AInit :: map AExec (prog w T k) /\ (forall j, j < k -> w + j * T < c)
  | WLock2 | WFin => l = AInit :: map AExec (stripe w T n)
  | WInFin => l = AInit :: map AExec (stripe w T n) ++ [AFinB]
  | _ => if r then l = [] else l = full w T n
  end.

Definition jcls (p : mpc) : nat :=
  match p with
  | MLock | MSet => 1
  | MNotify | MWaitEnter | MBlocked | MWoken | MWaitDone | MRet => 2
  | _ => 0
  end.

Definition j_inv (T : nat) (tr : list event) (s : st) : Prop :=
  match jcls (mp s) with
  | 1 => last_begin tr = Some (arg s) /\ forall w, rtask tr w = []
  | 2 => last_begin tr = Some (arg s) /\ forall w, w < T -> jwp T (pcw s w) (runw s w) (arg s) (rtask tr w) w
  | _ => True
  end.

Lemma jwp_wake T p r n l w : jwp T (wake p) r n l w = jwp T p r n l w.
Proof. destruct p; reflexivity. Qed.

Lemma j_mstep T td tr s a s' : run T td tr s -> j_inv T tr s -> mstep s a s' -> j_inv T ((Main, a) :: tr) s'.
Proof.
  intros R J F. destruct (run_pe_inv _ _ _ _ R) as (I1 & I2 & I3 & I4 & I5 & I6).
  pose proof (run_nthreads _ _ _ _ R) as N.
  unfold j_inv in *.
  destruct F; rewrite H in J; stnorm; cbn [jcls] in J |- *; auto;
    try (destruct J as [J1 J2]; split; [exact J1|]; intros w; try intros L; rewrite rtask_main_nb by reflexivity;
         stnorm; rewrite ?jwp_wake; auto; fail).
  (* MSetA *)
  destruct J as [J1 J2]. split; [exact J1|]. intros w L. rewrite rtask_main_nb by reflexivity.
    rewrite (runw_all _ (nthreads s)) by lia. stnorm. rewrite J2. pose proof (I2 w L) as Iw. rewrite H in Iw. cbn [mclass] in Iw.
    destruct (pcw s w); destruct (runw s w); cbn in Iw |- *; try discriminate Iw; auto.
Qed.

Lemma task_pc s w a s' : wstep s w a s' -> is_task a = true ->
  match pcw s w with WInit _ | WExec _ _ | WFin | WInFin => True | _ => False end.
Proof. destruct 1; cbn; intros X; try discriminate X; rewrite H; auto. Qed.

Lemma jcls_eq p q : mclass_eq p q -> jcls p = jcls q.
Proof. intros [->|[-> ->]]; reflexivity. Qed.

Lemma jcls_class p : jcls p = 1 -> mclass p = CBetween.
Proof. destruct p; cbn; congruence. Qed.

Lemma j_wstep T td tr s w a s' : run T td tr s -> j_inv T tr s -> w < T -> wstep s w a s' -> j_inv T ((W w, a) :: tr) s'.
Proof.
  intros R J L F. destruct (run_pe_inv _ _ _ _ R) as (I1 & I2 & I3 & I4 & I5 & I6).
  pose proof (run_nthreads _ _ _ _ R) as N.
  assert (L' : w < nthreads s) by lia.
  destruct (wstep_frame _ _ _ _ L' F) as (F1 & F2 & F3 & F4 & F5 & F6 & F7 & F8).
  pose proof (I2 w L) as Iw.
  unfold j_inv in *. rewrite <- (jcls_eq _ _ F7), F5, last_begin_worker.
  destruct (jcls (mp s)) as [|[|[|?]]] eqn:JC; auto.
  - (* between MExecBegin and MSetA: no task events *)
    destruct J as [J1 J2]. split; auto. intros w'. rewrite rtask_worker.
    destruct ((w =? w') && is_task a) eqn:E; auto. exfalso.
    apply andb_prop in E. destruct E as [_ E]. pose proof (task_pc _ _ _ _ F E) as X.
    rewrite (jcls_class _ JC) in Iw. destruct (pcw s w); try contradiction; cbn in Iw; rewrite andb_false_r in Iw; discriminate.
  - destruct J as [J1 J2]. split; auto. intros w' Lw'. rewrite rtask_worker.
    destruct (Nat.eqb_spec w w') as [<-|NE]; cbn [andb].
    2:{ destruct (F8 w' (not_eq_sym NE)) as [-> ->]. auto. }
    pose proof (J2 w L) as Jw.
    assert (CL : mclass (mp s) = CBetween \/ is_round (mclass (mp s)) = true).
    { destruct (mp s); cbn in JC |- *; auto; discriminate. }
    assert (CA : is_round (mclass (mp s)) = true -> count s = arg s) by (intros X; apply (I3 X)).
    clear F1 F2 F3 F4 F5 F6 F7 F8 J2 I2 I3 I4 I5 I6.
    destruct F; rewrite H in Jw, Iw; stnorm; rewrite Nat.eqb_refl; cbn [is_task jwp] in Jw |- *;
      try exact Jw.
    + (* AInit *)
      assert (Rw : runw s w = true).
      { destruct CL as [C|C]; [rewrite C in Iw|]; destruct (mclass (mp s)); try discriminate C;
          destruct (runw s w); cbn in Iw; auto; discriminate. }
      rewrite Rw in Jw. rewrite Jw. exists 0. cbn. split; [lia|]. split; auto. intros; lia.
    + (* AExec *)
      destruct Jw as (k & E1 & E2 & E3). exists (S k). rewrite N. split; [lia|]. split.
      * rewrite E2, prog_S, map_app, E1. reflexivity.
      * intros j Hj. destruct (Nat.eq_dec j k) as [->|]. lia. apply E3; lia.
    + (* AClear *)
      destruct Jw as (k & E1 & E2 & E3).
      assert (Cc : c = arg s).
      { destruct CL as [C|C]; [rewrite C in Iw; cbn in Iw; rewrite andb_false_r in Iw; discriminate|].
        rewrite <- (CA C). destruct (mclass (mp s)); try discriminate C;
          destruct (runw s w); cbn in Iw; try discriminate; apply Nat.eqb_eq; auto. }
      rewrite E2. f_equal. f_equal. symmetry. apply stripe_prog; try lia.
      intros j Hj. rewrite <- Cc. apply E3; auto.
    + (* AFinB *) rewrite Jw. reflexivity.
    + (* AFinE *)
      assert (Rw : runw s w = false).
      { destruct CL as [C|C]; [rewrite C in Iw; cbn in Iw; rewrite andb_false_r in Iw; discriminate|].
        destruct (mclass (mp s)); try discriminate C; destruct (runw s w); cbn in Iw; auto; discriminate. }
      rewrite Rw, Jw. unfold full. cbn [app]. rewrite <- app_assoc. reflexivity.
    + (* AIncr *) destruct (S (waiting s) =? nthreads s); exact Jw.
Qed.

Lemma run_j_inv T td tr s : run T td tr s -> j_inv T tr s.
Proof.
  induction 1 as [|tr s e s' R IH F]. exact I.
  pose proof (run_nthreads _ _ _ _ R) as N.
  apply fire_inv in F. destruct e as [[|w] a]; cbn [fst snd] in F.
  - eapply j_mstep; eauto.
  - destruct F as [L F]. eapply j_wstep; eauto. lia.
Qed.

Theorem pe_round_executes_stripes T td tr s :
  run T td ((Main, MExecEnd) :: tr) s ->
  exists n, last_begin tr = Some n /\
            forall w, w < T -> wtask w (round_events tr) = AInit :: map AExec (stripe w T n) ++ [AFinB; AFinE].
Proof.
  intros R. inversion R as [|tr0 s0 e s1 R0 F]; subst.
  apply fire_inv in F; cbn [fst snd] in F.
  inversion F as [| | | | | | | | | | |M| | | | |]; subst.
  pose proof (run_j_inv _ _ _ _ R0) as J. unfold j_inv in J. rewrite M in J. cbn [jcls] in J.
  destruct J as [J1 J2]. exists (arg s0). split; auto. intros w L.
  destruct (pe_execute_state _ _ _ _ R0 (or_intror M)) as [_ A]. destruct (A w L) as (_ & Rw & Q & _).
  specialize (J2 w L). rewrite Rw in J2. fold (rtask tr w).
  destruct (pcw s0 w); cbn in Q, J2; try discriminate Q; exact J2.
Qed.

(** the conclusion of F on the demo run (2 workers, count 3): worker 0 runs 0,2 and worker 1 runs 1 *)
Example pe_demo_stripes :
  match accepts_from (init 2 [3]) [] [] (firstn 40 demo_trace) with
  | Some (_, e :: tr) =>
      e = (Main, MExecEnd) /\ last_begin tr = Some 3 /\
      wtask 0 (round_events tr) = [AInit; AExec 0; AExec 2; AFinB; AFinE] /\
      wtask 1 (round_events tr) = [AInit; AExec 1; AFinB; AFinE] /\
      full 0 2 3 = [AInit; AExec 0; AExec 2; AFinB; AFinE] /\ full 1 2 3 = [AInit; AExec 1; AFinB; AFinE]
  | _ => False
  end.
Proof. vm_compute. repeat split; reflexivity. Qed.

