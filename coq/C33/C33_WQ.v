(** C33 part (ii): lock / condition-variable protocol of ParallelWorkQueue (hand-written model, executable).
    Anchors: SimTKcommon/src/ParallelWorkQueue.cpp  threadBody(), addTask(), flush(), markTaskCompleted(),
    ~ParallelWorkQueueImpl()  (as of the fix 0d220d6d: the worker examines finished/queue only under the mutex).

    One transition per hook event of patches/C33_hook_ParallelWorkQueue.diff (plus the hidden re-check steps):
      threads  : one producer (addTask / flush calls in program order, then the destructor) and workers 0..T-1;
      mutex    : queueMutex; condvars: waitForTaskCondition (workers wait on it: QBlocked / QWoken),
                 queueFullCondition (only the producer waits on it: P-Blocked / P-Woken states);
      shared   : taskQueue (FIFO of task ids), pendingTasks, finished.
    Ghost (not in the code): [executed], [deleted] = task ids whose execute() / delete has happened, newest first.
    T, queueSize and the producer's program are arbitrary. *)
From Coq Require Import Arith List Bool.
Import ListNotations.
Require Import C33_Lib.

Inductive thr := Prod | W (w : nat).

Inductive op := Add (id : nat) | Flush.

Inductive qpc :=
  | QStart
  | QTop (dec : bool)            (* top of while(true); dec = decrementTaskCount *)
  | QDec | QDecNotify            (* holds mutex: markTaskCompleted: --pendingTasks ; queueFullCondition.notify_one *)
  | QChk                         (* holds mutex: if (finished && queue.empty()) break *)
  | QWaitEnter | QBlocked | QWoken
  | QTake                        (* wait returned, holds mutex: if (!queue.empty()) pop *)
  | QNotify (t : nat)            (* popped t, about to queueFullCondition.notify_one *)
  | QUnlock (t : option nat)     (* about to unlock *)
  | QExec (t : nat) | QDel (t : nat)
  | QLeaving                     (* left the loop (mutex released by the break) *)
  | QExited.

Inductive ppc :=
  | PIdle
  | PALock (id : nat) | PAWaitEnter (id : nat) | PABlocked (id : nat) | PAWoken (id : nat)
  | PAPush (id : nat) | PANotify | PAUnlock
  | PFLock | PFWaitEnter | PFBlocked | PFWoken | PFUnlock
  | PDLock | PDSet | PDNotify | PDUnlock | PJoin | PDone.

Inductive act :=
  (* worker *)
  | AStart | ALock | ADec | ADecNotify | AChk | AWaitEnter | AWaitExit | ASpurExit | ARecheck
  | APop | ANotifyFull | AUnlock | AExec (t : nat) | ADel (t : nat) | AExit
  (* producer: addTask *)
  | PAddBegin (id : nat) | PALockA | PAWaitEnterA | PAWaitExitA | PASpurExitA | PARecheckA | PAPushA | PANotifyA | PAUnlockA
  (* producer: flush *)
  | PFlushBegin | PFLockA | PFWaitEnterA | PFWaitExitA | PFSpurExitA | PFRecheckA | PFUnlockA
  (* producer: destructor *)
  | DBegin | DLock | DSet | DNotify | DUnlock | DJoined.

Definition event := (thr * act)%type.

Record st := mkst {
  mtx : option thr;
  queue : list nat;
  pending : nat;
  finished : bool;
  qsize : nat;               (* queueSize (constant) *)
  wpcs : list qpc;
  pp : ppc;
  prog : list op;            (* producer calls still to come; then the destructor *)
  executed : list nat;       (* ghost *)
  deleted : list nat         (* ghost *)
}.

Definition nthreads (s : st) : nat := length (wpcs s).
Definition pcw (s : st) (w : nat) : qpc := nth w (wpcs s) QExited.

Definition init (T qs : nat) (pr : list op) : st :=
  mkst None [] 0 false qs (repeat QStart T) PIdle pr [] [].

Definition set_pc (s : st) (w : nat) (p : qpc) : st :=
  mkst (mtx s) (queue s) (pending s) (finished s) (qsize s) (upd w p (wpcs s)) (pp s) (prog s) (executed s) (deleted s).
Definition set_mtx (s : st) (m : option thr) : st :=
  mkst m (queue s) (pending s) (finished s) (qsize s) (wpcs s) (pp s) (prog s) (executed s) (deleted s).
Definition set_pp (s : st) (p : ppc) : st :=
  mkst (mtx s) (queue s) (pending s) (finished s) (qsize s) (wpcs s) p (prog s) (executed s) (deleted s).
Definition set_queue (s : st) (q : list nat) : st :=
  mkst (mtx s) q (pending s) (finished s) (qsize s) (wpcs s) (pp s) (prog s) (executed s) (deleted s).
Definition set_pending (s : st) (n : nat) : st :=
  mkst (mtx s) (queue s) n (finished s) (qsize s) (wpcs s) (pp s) (prog s) (executed s) (deleted s).
Definition set_prog (s : st) (pr : list op) : st :=
  mkst (mtx s) (queue s) (pending s) (finished s) (qsize s) (wpcs s) (pp s) pr (executed s) (deleted s).
Definition set_wpcs (s : st) (l : list qpc) : st :=
  mkst (mtx s) (queue s) (pending s) (finished s) (qsize s) l (pp s) (prog s) (executed s) (deleted s).
Definition add_executed (s : st) (t : nat) : st :=
  mkst (mtx s) (queue s) (pending s) (finished s) (qsize s) (wpcs s) (pp s) (prog s) (t :: executed s) (deleted s).
Definition add_deleted (s : st) (t : nat) : st :=
  mkst (mtx s) (queue s) (pending s) (finished s) (qsize s) (wpcs s) (pp s) (prog s) (executed s) (t :: deleted s).

Definition mtx_free (s : st) : bool := match mtx s with None => true | Some _ => false end.
Definition qempty (s : st) : bool := match queue s with [] => true | _ => false end.

(** worker wait predicate  !queue.empty() || finished *)
Definition wpred (s : st) : bool := negb (qempty s) || finished s.
(** producer wait predicates *)
Definition apred (s : st) : bool := length (queue s) <? qsize s.
Definition fpred (s : st) : bool := pending s =? 0.

Definition is_qblocked (p : qpc) : bool := match p with QBlocked => true | _ => false end.
Definition is_exited (p : qpc) : bool := match p with QExited => true | _ => false end.

(** notify_one on waitForTaskCondition: wake the first blocked worker, if any (which one is immaterial:
    the workers are symmetric) *)
Fixpoint wake_one (l : list qpc) : list qpc :=
  match l with
  | [] => []
  | QBlocked :: r => QWoken :: r
  | p :: r => p :: wake_one r
  end.
Definition wake (p : qpc) : qpc := match p with QBlocked => QWoken | _ => p end.

(** notify_one on queueFullCondition: only the producer ever waits there *)
Definition wake_prod (p : ppc) : ppc :=
  match p with PABlocked id => PAWoken id | PFBlocked => PFWoken | _ => p end.

Definition fire_w (s : st) (w : nat) (a : act) : option st :=
  if negb (w <? nthreads s) then None else
  match pcw s w, a with
  | QStart, AStart => Some (set_pc s w (QTop false))
  | QTop dec, ALock =>
      if mtx_free s then Some (set_pc (set_mtx s (Some (W w))) w (if dec then QDec else QChk)) else None
  | QDec, ADec => Some (set_pc (set_pending s (pending s - 1)) w QDecNotify)
  | QDecNotify, ADecNotify => Some (set_pc (set_pp s (wake_prod (pp s))) w QChk)
  | QChk, AChk =>
      if finished s && qempty s then Some (set_pc (set_mtx s None) w QLeaving) else Some (set_pc s w QWaitEnter)
  | QWaitEnter, AWaitEnter =>
      if wpred s then Some (set_pc s w QTake) else Some (set_pc (set_mtx s None) w QBlocked)
  | QWoken, AWaitExit | QBlocked, ASpurExit =>
      if mtx_free s && wpred s then Some (set_pc (set_mtx s (Some (W w))) w QTake) else None
  | QWoken, ARecheck => if mtx_free s && negb (wpred s) then Some (set_pc s w QBlocked) else None
  | QTake, APop =>
      match queue s with t :: r => Some (set_pc (set_queue s r) w (QNotify t)) | [] => None end
  | QTake, ANotifyFull =>
      match queue s with [] => Some (set_pc (set_pp s (wake_prod (pp s))) w (QUnlock None)) | _ => None end
  | QNotify t, ANotifyFull => Some (set_pc (set_pp s (wake_prod (pp s))) w (QUnlock (Some t)))
  | QUnlock None, AUnlock => Some (set_pc (set_mtx s None) w (QTop false))
  | QUnlock (Some t), AUnlock => Some (set_pc (set_mtx s None) w (QExec t))
  | QExec t, AExec t' => if t' =? t then Some (set_pc (add_executed s t) w (QDel t)) else None
  | QDel t, ADel t' => if t' =? t then Some (set_pc (add_deleted s t) w (QTop true)) else None
  | QLeaving, AExit => Some (set_pc s w QExited)
  | _, _ => None
  end.

Definition fire_p (s : st) (a : act) : option st :=
  match pp s, a with
  | PIdle, PAddBegin id =>
      match prog s with Add id' :: rest => if id =? id' then Some (set_pp (set_prog s rest) (PALock id)) else None
                      | _ => None end
  | PIdle, PFlushBegin => match prog s with Flush :: rest => Some (set_pp (set_prog s rest) PFLock) | _ => None end
  | PIdle, DBegin => match prog s with [] => Some (set_pp s PDLock) | _ => None end
  (* addTask *)
  | PALock id, PALockA => if mtx_free s then Some (set_pp (set_mtx s (Some Prod)) (PAWaitEnter id)) else None
  | PAWaitEnter id, PAWaitEnterA =>
      if apred s then Some (set_pp s (PAPush id)) else Some (set_pp (set_mtx s None) (PABlocked id))
  | PAWoken id, PAWaitExitA | PABlocked id, PASpurExitA =>
      if mtx_free s && apred s then Some (set_pp (set_mtx s (Some Prod)) (PAPush id)) else None
  | PAWoken id, PARecheckA => if mtx_free s && negb (apred s) then Some (set_pp s (PABlocked id)) else None
  | PAPush id, PAPushA => Some (set_pp (set_pending (set_queue s (queue s ++ [id])) (S (pending s))) PANotify)
  | PANotify, PANotifyA => Some (set_pp (set_wpcs s (wake_one (wpcs s))) PAUnlock)
  | PAUnlock, PAUnlockA => Some (set_pp (set_mtx s None) PIdle)
  (* flush *)
  | PFLock, PFLockA => if mtx_free s then Some (set_pp (set_mtx s (Some Prod)) PFWaitEnter) else None
  | PFWaitEnter, PFWaitEnterA =>
      if fpred s then Some (set_pp s PFUnlock) else Some (set_pp (set_mtx s None) PFBlocked)
  | PFWoken, PFWaitExitA | PFBlocked, PFSpurExitA =>
      if mtx_free s && fpred s then Some (set_pp (set_mtx s (Some Prod)) PFUnlock) else None
  | PFWoken, PFRecheckA => if mtx_free s && negb (fpred s) then Some (set_pp s PFBlocked) else None
  | PFUnlock, PFUnlockA => Some (set_pp (set_mtx s None) PIdle)
  (* destructor *)
  | PDLock, DLock => if mtx_free s then Some (set_pp (set_mtx s (Some Prod)) PDSet) else None
  | PDSet, DSet =>
      Some (mkst (mtx s) (queue s) (pending s) true (qsize s) (wpcs s) PDNotify (prog s) (executed s) (deleted s))
  | PDNotify, DNotify => Some (set_pp (set_wpcs s (map wake (wpcs s))) PDUnlock)
  | PDUnlock, DUnlock => Some (set_pp (set_mtx s None) PJoin)
  | PJoin, DJoined => if forallb is_exited (wpcs s) then Some (set_pp s PDone) else None
  | _, _ => None
  end.

Definition fire (s : st) (e : event) : option st :=
  match fst e with Prod => fire_p s (snd e) | W w => fire_w s w (snd e) end.

Definition is_spurious (a : act) : bool :=
  match a with ASpurExit | PASpurExitA | PFSpurExitA => true | _ => false end.
Definition is_hidden (a : act) : bool :=
  match a with ARecheck | PARecheckA | PFRecheckA => true | _ => false end.

Definition final (s : st) : bool := match pp s with PDone => true | _ => false end.

Definition cand_w (s : st) (w : nat) : list act :=
  match pcw s w with
  | QStart => [AStart] | QTop _ => [ALock] | QDec => [ADec] | QDecNotify => [ADecNotify] | QChk => [AChk]
  | QWaitEnter => [AWaitEnter] | QBlocked => [ASpurExit] | QWoken => [AWaitExit; ARecheck]
  | QTake => [APop; ANotifyFull] | QNotify _ => [ANotifyFull] | QUnlock _ => [AUnlock]
  | QExec t => [AExec t] | QDel t => [ADel t] | QLeaving => [AExit] | QExited => []
  end.
Definition cand_p (s : st) : list act :=
  match pp s with
  | PIdle => match prog s with Add id :: _ => [PAddBegin id] | Flush :: _ => [PFlushBegin] | [] => [DBegin] end
  | PALock _ => [PALockA] | PAWaitEnter _ => [PAWaitEnterA] | PABlocked _ => [PASpurExitA]
  | PAWoken _ => [PAWaitExitA; PARecheckA] | PAPush _ => [PAPushA] | PANotify => [PANotifyA] | PAUnlock => [PAUnlockA]
  | PFLock => [PFLockA] | PFWaitEnter => [PFWaitEnterA] | PFBlocked => [PFSpurExitA]
  | PFWoken => [PFWaitExitA; PFRecheckA] | PFUnlock => [PFUnlockA]
  | PDLock => [DLock] | PDSet => [DSet] | PDNotify => [DNotify] | PDUnlock => [DUnlock] | PJoin => [DJoined]
  | PDone => []
  end.
Definition succs_of (s : st) (t : thr) (acts : list act) : list (event * st) :=
  flat_map (fun a => match fire s (t, a) with Some s' => [((t, a), s')] | None => [] end) acts.
Definition enabled (s : st) : list (event * st) :=
  succs_of s Prod (cand_p s) ++ flat_map (fun w => succs_of s (W w) (cand_w s w)) (seq 0 (nthreads s)).

Inductive run (T qs : nat) (pr : list op) : list event -> st -> Prop :=
  | run0 : run T qs pr [] (init T qs pr)
  | runS tr s e s' : run T qs pr tr s -> fire s e = Some s' -> run T qs pr (e :: tr) s'.

(** ids added by a program *)
Fixpoint adds (pr : list op) : list nat :=
  match pr with [] => [] | Add id :: r => id :: adds r | Flush :: r => adds r end.

(* ------------------------------------------------------------------ trace acceptor for hook traces *)

Definition resolve (s : st) (e : event) : event :=
  match e with
  | (W w, AWaitExit) => match pcw s w with QBlocked => (W w, ASpurExit) | _ => e end
  | (Prod, PAWaitExitA) => match pp s with PABlocked _ => (Prod, PASpurExitA) | _ => e end
  | (Prod, PFWaitExitA) => match pp s with PFBlocked => (Prod, PFSpurExitA) | _ => e end
  | _ => e
  end.

(** The hooks record "wait entered" and "wait returned" around every condition-variable wait, also when the
    predicate was already true and the thread never blocked.  In that case the model's wait-enter step goes straight
    to the post-wait pc (the thread keeps the mutex) and the following "wait returned" record of that thread
    corresponds to no transition: the acceptor remembers such threads in [pend] and consumes that record. *)
Definition thr_eqb (a b : thr) : bool :=
  match a, b with Prod, Prod => true | W x, W y => x =? y | _, _ => false end.
Definition is_wait_enter (a : act) : bool := match a with AWaitEnter | PAWaitEnterA | PFWaitEnterA => true | _ => false end.
Definition is_wait_exit (a : act) : bool := match a with AWaitExit | PAWaitExitA | PFWaitExitA => true | _ => false end.
Definition holds_mtx (s : st) (t : thr) : bool := match mtx s with Some u => thr_eqb u t | None => false end.
Definition memt (t : thr) (l : list thr) : bool := existsb (thr_eqb t) l.
Definition remt (t : thr) (l : list thr) : list thr := filter (fun u => negb (thr_eqb t u)) l.

(** one acceptor step: [None] = reject; [Some (s', pend', fired)] with [fired] the model transition taken, if any *)
Definition accept_step (s : st) (pend : list thr) (e : event) : option (st * list thr * option event) :=
  if is_hidden (snd e) || is_spurious (snd e) then None
  else if memt (fst e) pend then
    (if is_wait_exit (snd e) then Some (s, remt (fst e) pend, None) else None)
  else match fire s (resolve s e) with
       | Some s' => Some (s', (if is_wait_enter (snd e) && holds_mtx s' (fst e) then fst e :: pend else pend),
                          Some (resolve s e))
       | None => None
       end.

(** returns the final state and the model transitions taken, newest first *)
Fixpoint accepts_from (s : st) (pend : list thr) (fired : list event) (tr : list event) : option (st * list event) :=
  match tr with
  | [] => Some (s, fired)
  | e :: r => match accept_step s pend e with
              | Some (s', pend', f) => accepts_from s' pend' (match f with Some x => x :: fired | None => fired end) r
              | None => None
              end
  end.

(** [accepts ... tr]: the chronological hook trace [tr] is (after removing the wait-returned records of waits that
    never blocked) a trace of the model; [accepts_complete] additionally asks that it ends in the final state *)
Definition accepts (T qs : nat) (pr : list op) (tr : list event) : bool :=
  match accepts_from (init T qs pr) [] [] tr with Some _ => true | None => false end.
Definition accepts_complete (T qs : nat) (pr : list op) (tr : list event) : bool :=
  match accepts_from (init T qs pr) [] [] tr with Some (s, _) => final s | None => false end.
(** index of the first rejected record (for diagnostics) *)
Fixpoint reject_pos (s : st) (pend : list thr) (tr : list event) (k : nat) : option nat :=
  match tr with
  | [] => None
  | e :: r => match accept_step s pend e with
              | Some (s', pend', _) => reject_pos s' pend' r (S k)
              | None => Some k
              end
  end.
