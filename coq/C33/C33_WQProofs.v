(** C33 part (ii): proofs about the ParallelWorkQueue lock / condition-variable protocol model C33_WQ.v.

    Contents
      A. [enabled] is exactly the graph of [fire]                      wq_enabled_complete / wq_enabled_sound
      B. mutual exclusion                                               wq_mutex_exclusive (+ corollaries)
      C. exactly-once accounting of every task id                       wq_each_task_accounted
      D. pendingTasks = queued + taken-but-not-yet-decremented          wq_pending_counts
      E. flush() returns only when everything added so far is done      wq_flush_returns_only_when_done
      F. the destructor drains the queue, every task executed+deleted   wq_destructor_drains, wq_each_task_exactly_once
      G. no deadlock / no lost wake-up                                  wq_no_deadlock
      H. soundness of the hook-trace acceptor                           wq_accepts_sound
      I. non-vacuity examples (a complete run, by computation)

    All proofs go through one inversion lemma [fire_step] (the executable [fire] as a 44-constructor relation)
    and a family of invariants of [run], proved one after the other. *)
From Coq Require Import Arith List Bool Lia Permutation.
Import ListNotations.
Require Import C33_Lib C33_WQ.

Set Implicit Arguments.
Unset Strict Implicit.

Notation cnt := (count_occ Nat.eq_dec).

Definition b2n (b : bool) : nat := if b then 1 else 0.

(* ------------------------------------------------------------------ classification of program counters *)

(** worker pcs inside the critical section *)
Definition holds (p : qpc) : bool :=
  match p with QDec | QDecNotify | QChk | QWaitEnter | QTake | QNotify _ | QUnlock _ => true | _ => false end.
(** producer pcs inside the critical section *)
Definition pholds (p : ppc) : bool :=
  match p with
  | PAWaitEnter _ | PAPush _ | PANotify | PAUnlock | PFWaitEnter | PFUnlock | PDSet | PDNotify | PDUnlock => true
  | _ => false
  end.
(** the producer's current addTask(id) has not pushed yet *)
Definition inflight (p : ppc) (id : nat) : nat :=
  match p with
  | PALock i | PAWaitEnter i | PABlocked i | PAWoken i | PAPush i => b2n (i =? id)
  | _ => 0
  end.
(** worker has popped id and not yet executed it *)
Definition heldpre (id : nat) (p : qpc) : bool :=
  match p with QNotify t | QUnlock (Some t) | QExec t => t =? id | _ => false end.
(** worker has executed id and not yet deleted it *)
Definition isdel (id : nat) (p : qpc) : bool := match p with QDel t => t =? id | _ => false end.
(** worker owns one unit of pendingTasks *)
Definition counted (p : qpc) : bool :=
  match p with QNotify _ | QUnlock (Some _) | QExec _ | QDel _ | QTop true | QDec => true | _ => false end.
Definition is_gone (p : qpc) : bool := match p with QLeaving | QExited => true | _ => false end.
Definition active (p : qpc) : bool := negb (is_qblocked p || is_gone p).
Definition is_qnotify (p : qpc) : bool := match p with QNotify _ => true | _ => false end.
Definition is_qdecnotify (p : qpc) : bool := match p with QDecNotify => true | _ => false end.
Definition pfin (p : ppc) : bool := match p with PDNotify | PDUnlock | PJoin | PDone => true | _ => false end.
Definition pdes (p : ppc) : bool :=
  match p with PDLock | PDSet | PDNotify | PDUnlock | PJoin | PDone => true | _ => false end.
Definition is_owner (m : option thr) (t : thr) : bool :=
  match m, t with
  | Some Prod, Prod => true
  | Some (W a), W b => a =? b
  | _, _ => false
  end.

(* ------------------------------------------------------------------ small list lemmas *)

Lemma nth_upd' {A} i j (v d : A) l : i < length l -> nth j (upd i v l) d = if i =? j then v else nth j l d.
Proof. intros H. rewrite nth_upd. apply Nat.ltb_lt in H. rewrite H, andb_true_r. reflexivity. Qed.

Lemma cnt_cons t l id : cnt (t :: l) id = b2n (t =? id) + cnt l id.
Proof.
  cbn [count_occ]. destruct (Nat.eq_dec t id) as [->|N].
  - rewrite Nat.eqb_refl. reflexivity.
  - apply Nat.eqb_neq in N. rewrite N. reflexivity.
Qed.

Lemma cnt_snoc l t id : cnt (l ++ [t]) id = cnt l id + b2n (t =? id).
Proof. rewrite count_occ_app, cnt_cons. cbn [count_occ]. lia. Qed.

Lemma wake_one_length l : length (wake_one l) = length l.
Proof. induction l as [|[] r IH]; cbn [wake_one length]; auto. Qed.

(** pointwise effect of notify_one on the workers *)
Lemma wake_one_nth l w d :
  nth w (wake_one l) d = nth w l d \/ (nth w l d = QBlocked /\ nth w (wake_one l) d = QWoken).
Proof.
  revert w; induction l as [|p r IH]; intros w; cbn [wake_one]; auto.
  destruct p; destruct w; cbn [nth]; auto.
Qed.

Lemma wake_one_nth_f (f : qpc -> bool) l w d :
  f QWoken = f QBlocked -> f (nth w (wake_one l) d) = f (nth w l d).
Proof. intros E. destruct (wake_one_nth l w d) as [->|[-> ->]]; auto. Qed.

(** the first blocked worker is woken *)
Lemma wake_one_wakes l w d :
  nth w l d = QBlocked -> w < length l -> exists w', w' < length l /\ nth w' (wake_one l) d = QWoken.
Proof.
  revert w; induction l as [|p r IH]; intros w E L; cbn [length] in *; [lia|].
  destruct (is_qblocked p) eqn:B.
  - destruct p; try discriminate. exists 0. cbn [wake_one nth]. split; [lia|auto].
  - destruct w as [|w]; cbn [nth] in E. { subst p; discriminate. }
    destruct (IH w E ltac:(lia)) as (w' & L' & E').
    exists (S w'). split; [lia|]. destruct p; try discriminate; cbn [wake_one nth]; auto.
Qed.

Lemma wake_nth_f (f : qpc -> bool) l w :
  f QWoken = f QBlocked -> f (nth w (map wake l) QExited) = f (nth w l QExited).
Proof.
  intros E. destruct (Nat.lt_ge_cases w (length l)) as [L|L].
  - rewrite (nth_map_d wake l w QExited QExited L). destruct (nth w l QExited); cbn [wake]; auto.
  - rewrite !nth_overflow; auto. rewrite map_length; auto.
Qed.

Lemma forallb_false_nth (f : qpc -> bool) l d :
  forallb f l = false -> exists w, w < length l /\ f (nth w l d) = false.
Proof.
  induction l as [|p r IH]; cbn [forallb length]; intros H; [discriminate|].
  destruct (f p) eqn:E.
  - destruct (IH H) as (w & L & F). exists (S w). split; [lia|auto].
  - exists 0. split; [lia|auto].
Qed.

Lemma forallb_true_nth (f : qpc -> bool) l d w : forallb f l = true -> w < length l -> f (nth w l d) = true.
Proof.
  revert w; induction l as [|p r IH]; cbn [forallb length]; intros w H L; [lia|].
  apply andb_prop in H. destruct H as [H1 H2]. destruct w; cbn [nth]; auto. apply IH; auto; lia.
Qed.

(** changing one worker's pc changes a count by the obvious amount *)
Lemma countb_upd (f : qpc -> bool) l w p T :
  length l = T -> w < T ->
  countb (fun w' => f (nth w' (upd w p l) QExited)) T + b2n (f (nth w l QExited))
  = countb (fun w' => f (nth w' l QExited)) T + b2n (f p).
Proof.
  intros HT Hw. subst T.
  assert (Hsame : forall w', w' < length l -> w' <> w ->
            f (nth w' l QExited) = f (nth w' (upd w p l) QExited)).
  { intros w' _ N. rewrite nth_upd_neq; auto. }
  assert (Hat : f (nth w (upd w p l) QExited) = f p) by (rewrite nth_upd_eq; auto).
  destruct (f (nth w l QExited)) eqn:Eo; destruct (f p) eqn:En; cbn [b2n].
  - f_equal. apply countb_ext. intros w' L. destruct (Nat.eq_dec w' w) as [->|N].
    + rewrite Hat, Eo; auto. + symmetry; auto.
  - rewrite (@countb_clear (fun w' => f (nth w' l QExited)) (fun w' => f (nth w' (upd w p l) QExited)) (length l) w);
      auto; lia.
  - rewrite (@countb_set (fun w' => f (nth w' l QExited)) (fun w' => f (nth w' (upd w p l) QExited)) (length l) w);
      auto; lia.
  - f_equal. apply countb_ext. intros w' L. destruct (Nat.eq_dec w' w) as [->|N].
    + rewrite Hat, Eo; auto. + symmetry; auto.
Qed.

Lemma countb_wake_one (f : qpc -> bool) l T :
  f QWoken = f QBlocked ->
  countb (fun w => f (nth w (wake_one l) QExited)) T = countb (fun w => f (nth w l QExited)) T.
Proof. intros E. apply countb_ext. intros w _. apply wake_one_nth_f; auto. Qed.

Lemma countb_map_wake (f : qpc -> bool) l T :
  f QWoken = f QBlocked ->
  countb (fun w => f (nth w (map wake l) QExited)) T = countb (fun w => f (nth w l QExited)) T.
Proof. intros E. apply countb_ext. intros w _. apply wake_nth_f; auto. Qed.

Lemma countb_sub (f g : nat -> bool) n :
  (forall w, w < n -> g w = true -> f w = true) -> countb f n = 0 -> countb g n = 0.
Proof.
  intros H Z. apply countb_none. intros w L. pose proof (countb_zero f n Z w L) as F.
  destruct (g w) eqn:G; auto. rewrite (H w L G) in F. discriminate.
Qed.

(* ------------------------------------------------------------------ predicates of the model, in Prop form *)

Lemma mtx_free_true s : mtx_free s = true -> mtx s = None.
Proof. unfold mtx_free. destruct (mtx s); auto; discriminate. Qed.

Lemma wpred_false s : wpred s = false -> queue s = [] /\ finished s = false.
Proof.
  unfold wpred, qempty. intros H. apply orb_false_elim in H. destruct H as [H1 H2].
  destruct (queue s); [auto|discriminate].
Qed.

Lemma apred_false s : apred s = false -> qsize s <= length (queue s).
Proof. unfold apred. intros H. apply Nat.ltb_ge in H. exact H. Qed.

Lemma fpred_true s : fpred s = true -> pending s = 0.
Proof. unfold fpred. intros H. apply Nat.eqb_eq in H. exact H. Qed.

Lemma fpred_false s : fpred s = false -> pending s <> 0.
Proof. unfold fpred. intros H. apply Nat.eqb_neq in H. exact H. Qed.

Lemma pholds_wake_prod p : pholds (wake_prod p) = pholds p.
Proof. destruct p; reflexivity. Qed.
Lemma pfin_wake_prod p : pfin (wake_prod p) = pfin p.
Proof. destruct p; reflexivity. Qed.
Lemma pdes_wake_prod p : pdes (wake_prod p) = pdes p.
Proof. destruct p; reflexivity. Qed.
Lemma inflight_wake_prod p id : inflight (wake_prod p) id = inflight p id.
Proof. destruct p; reflexivity. Qed.

(* ------------------------------------------------------------------ [fire] as a relation *)

Inductive step (s : st) : event -> st -> Prop :=
  (* workers *)
  | W_start w : w < nthreads s -> pcw s w = QStart -> step s (W w, AStart) (set_pc s w (QTop false))
  | W_lock_dec w : w < nthreads s -> pcw s w = QTop true -> mtx s = None ->
      step s (W w, ALock) (set_pc (set_mtx s (Some (W w))) w QDec)
  | W_lock_chk w : w < nthreads s -> pcw s w = QTop false -> mtx s = None ->
      step s (W w, ALock) (set_pc (set_mtx s (Some (W w))) w QChk)
  | W_dec w : w < nthreads s -> pcw s w = QDec ->
      step s (W w, ADec) (set_pc (set_pending s (pending s - 1)) w QDecNotify)
  | W_decnotify w : w < nthreads s -> pcw s w = QDecNotify ->
      step s (W w, ADecNotify) (set_pc (set_pp s (wake_prod (pp s))) w QChk)
  | W_chk_leave w : w < nthreads s -> pcw s w = QChk -> finished s = true -> queue s = [] ->
      step s (W w, AChk) (set_pc (set_mtx s None) w QLeaving)
  | W_chk_stay w : w < nthreads s -> pcw s w = QChk -> finished s && qempty s = false ->
      step s (W w, AChk) (set_pc s w QWaitEnter)
  | W_wait_pass w : w < nthreads s -> pcw s w = QWaitEnter -> wpred s = true ->
      step s (W w, AWaitEnter) (set_pc s w QTake)
  | W_wait_block w : w < nthreads s -> pcw s w = QWaitEnter -> queue s = [] -> finished s = false ->
      step s (W w, AWaitEnter) (set_pc (set_mtx s None) w QBlocked)
  | W_waitexit w : w < nthreads s -> pcw s w = QWoken -> mtx s = None -> wpred s = true ->
      step s (W w, AWaitExit) (set_pc (set_mtx s (Some (W w))) w QTake)
  | W_spurexit w : w < nthreads s -> pcw s w = QBlocked -> mtx s = None -> wpred s = true ->
      step s (W w, ASpurExit) (set_pc (set_mtx s (Some (W w))) w QTake)
  | W_recheck w : w < nthreads s -> pcw s w = QWoken -> mtx s = None -> queue s = [] -> finished s = false ->
      step s (W w, ARecheck) (set_pc s w QBlocked)
  | W_pop w t r : w < nthreads s -> pcw s w = QTake -> queue s = t :: r ->
      step s (W w, APop) (set_pc (set_queue s r) w (QNotify t))
  | W_take_empty w : w < nthreads s -> pcw s w = QTake -> queue s = [] ->
      step s (W w, ANotifyFull) (set_pc (set_pp s (wake_prod (pp s))) w (QUnlock None))
  | W_notify w t : w < nthreads s -> pcw s w = QNotify t ->
      step s (W w, ANotifyFull) (set_pc (set_pp s (wake_prod (pp s))) w (QUnlock (Some t)))
  | W_unlock_none w : w < nthreads s -> pcw s w = QUnlock None ->
      step s (W w, AUnlock) (set_pc (set_mtx s None) w (QTop false))
  | W_unlock_some w t : w < nthreads s -> pcw s w = QUnlock (Some t) ->
      step s (W w, AUnlock) (set_pc (set_mtx s None) w (QExec t))
  | W_exec w t : w < nthreads s -> pcw s w = QExec t ->
      step s (W w, AExec t) (set_pc (add_executed s t) w (QDel t))
  | W_del w t : w < nthreads s -> pcw s w = QDel t ->
      step s (W w, ADel t) (set_pc (add_deleted s t) w (QTop true))
  | W_exit w : w < nthreads s -> pcw s w = QLeaving -> step s (W w, AExit) (set_pc s w QExited)
  (* producer: addTask *)
  | P_addbegin id rest : pp s = PIdle -> prog s = Add id :: rest ->
      step s (Prod, PAddBegin id) (set_pp (set_prog s rest) (PALock id))
  | P_flushbegin rest : pp s = PIdle -> prog s = Flush :: rest ->
      step s (Prod, PFlushBegin) (set_pp (set_prog s rest) PFLock)
  | P_dbegin : pp s = PIdle -> prog s = [] -> step s (Prod, DBegin) (set_pp s PDLock)
  | P_alock id : pp s = PALock id -> mtx s = None ->
      step s (Prod, PALockA) (set_pp (set_mtx s (Some Prod)) (PAWaitEnter id))
  | P_await_pass id : pp s = PAWaitEnter id -> apred s = true ->
      step s (Prod, PAWaitEnterA) (set_pp s (PAPush id))
  | P_await_block id : pp s = PAWaitEnter id -> qsize s <= length (queue s) ->
      step s (Prod, PAWaitEnterA) (set_pp (set_mtx s None) (PABlocked id))
  | P_awaitexit id : pp s = PAWoken id -> mtx s = None -> apred s = true ->
      step s (Prod, PAWaitExitA) (set_pp (set_mtx s (Some Prod)) (PAPush id))
  | P_aspur id : pp s = PABlocked id -> mtx s = None -> apred s = true ->
      step s (Prod, PASpurExitA) (set_pp (set_mtx s (Some Prod)) (PAPush id))
  | P_arecheck id : pp s = PAWoken id -> mtx s = None -> qsize s <= length (queue s) ->
      step s (Prod, PARecheckA) (set_pp s (PABlocked id))
  | P_push id : pp s = PAPush id ->
      step s (Prod, PAPushA) (set_pp (set_pending (set_queue s (queue s ++ [id])) (S (pending s))) PANotify)
  | P_anotify : pp s = PANotify ->
      step s (Prod, PANotifyA) (set_pp (set_wpcs s (wake_one (wpcs s))) PAUnlock)
  | P_aunlock : pp s = PAUnlock -> step s (Prod, PAUnlockA) (set_pp (set_mtx s None) PIdle)
  (* producer: flush *)
  | P_flock : pp s = PFLock -> mtx s = None -> step s (Prod, PFLockA) (set_pp (set_mtx s (Some Prod)) PFWaitEnter)
  | P_fwait_pass : pp s = PFWaitEnter -> pending s = 0 -> step s (Prod, PFWaitEnterA) (set_pp s PFUnlock)
  | P_fwait_block : pp s = PFWaitEnter -> pending s <> 0 ->
      step s (Prod, PFWaitEnterA) (set_pp (set_mtx s None) PFBlocked)
  | P_fwaitexit : pp s = PFWoken -> mtx s = None -> pending s = 0 ->
      step s (Prod, PFWaitExitA) (set_pp (set_mtx s (Some Prod)) PFUnlock)
  | P_fspur : pp s = PFBlocked -> mtx s = None -> pending s = 0 ->
      step s (Prod, PFSpurExitA) (set_pp (set_mtx s (Some Prod)) PFUnlock)
  | P_frecheck : pp s = PFWoken -> mtx s = None -> pending s <> 0 ->
      step s (Prod, PFRecheckA) (set_pp s PFBlocked)
  | P_funlock : pp s = PFUnlock -> step s (Prod, PFUnlockA) (set_pp (set_mtx s None) PIdle)
  (* producer: destructor *)
  | P_dlock : pp s = PDLock -> mtx s = None -> step s (Prod, DLock) (set_pp (set_mtx s (Some Prod)) PDSet)
  | P_dset : pp s = PDSet ->
      step s (Prod, DSet)
        (mkst (mtx s) (queue s) (pending s) true (qsize s) (wpcs s) PDNotify (prog s) (executed s) (deleted s))
  | P_dnotify : pp s = PDNotify -> step s (Prod, DNotify) (set_pp (set_wpcs s (map wake (wpcs s))) PDUnlock)
  | P_dunlock : pp s = PDUnlock -> step s (Prod, DUnlock) (set_pp (set_mtx s None) PJoin)
  | P_djoined : pp s = PJoin -> forallb is_exited (wpcs s) = true -> step s (Prod, DJoined) (set_pp s PDone).

Ltac prep_conds :=
  repeat match goal with
  | H : _ && _ = true |- _ => apply andb_prop in H; destruct H
  | H : negb _ = true |- _ => apply negb_true_iff in H
  | H : mtx_free _ = true |- _ => apply mtx_free_true in H
  | H : (_ =? _) = true |- _ => apply Nat.eqb_eq in H
  | H : wpred _ = false |- _ => apply wpred_false in H; destruct H
  | H : apred _ = false |- _ => apply apred_false in H
  | H : fpred _ = true |- _ => apply fpred_true in H
  | H : fpred _ = false |- _ => apply fpred_false in H
  end.

Ltac split_fire H :=
  repeat match type of H with
  | (if ?c then _ else _) = Some _ => destruct c eqn:?
  | match ?x with _ => _ end = Some _ => destruct x eqn:?
  end; try discriminate H.

Lemma fire_step s e s' : fire s e = Some s' -> step s e s'.
Proof.
  destruct e as [[|w] a]; unfold fire; cbn [fst snd].
  - unfold fire_p. destruct (pp s) eqn:Epp; destruct a; cbv beta iota; intros H; try discriminate H;
      split_fire H; injection H as <-; prep_conds; subst; try (econstructor; eauto; fail).
  - unfold fire_w. destruct (w <? nthreads s) eqn:Ew; cbn [negb]; cbv beta iota; [|discriminate].
    apply Nat.ltb_lt in Ew.
    destruct (pcw s w) eqn:Epc; destruct a; cbv beta iota; intros H; try discriminate H;
      split_fire H; injection H as <-; prep_conds; subst; try (econstructor; eauto; fail).
    + destruct dec; constructor; auto.
    + constructor; auto.
      match goal with H : qempty s = true |- _ => unfold qempty in H; destruct (queue s); [auto|discriminate] end.
Qed.

(* ------------------------------------------------------------------ A. [enabled] is the graph of [fire] *)

Definition cands (s : st) (t : thr) : list act := match t with Prod => cand_p s | W w => cand_w s w end.

Lemma step_cand s e s' :
  step s e s' -> In (snd e) (cands s (fst e)) /\ match fst e with W w => w < nthreads s | Prod => True end.
Proof.
  destruct 1; cbn [fst snd cands]; unfold cand_w, cand_p;
    repeat match goal with
    | H : pcw _ _ = _ |- _ => rewrite H
    | H : pp _ = _ |- _ => rewrite H
    | H : prog _ = _ |- _ => rewrite H
    end; cbn [In]; auto.
Qed.

Lemma in_succs_of s t a acts s' : In a acts -> fire s (t, a) = Some s' -> In ((t, a), s') (succs_of s t acts).
Proof. intros I F. unfold succs_of. apply in_flat_map. exists a. split; auto. rewrite F. left; reflexivity. Qed.

Lemma succs_of_in s t acts e s' : In (e, s') (succs_of s t acts) -> fire s e = Some s'.
Proof.
  unfold succs_of. intros H. apply in_flat_map in H. destruct H as (a & _ & H).
  destruct (fire s (t, a)) eqn:F; [|destruct H]. destruct H as [H|[]]. injection H as <- <-. exact F.
Qed.

Theorem wq_enabled_complete s e s' : fire s e = Some s' -> In (e, s') (enabled s).
Proof.
  intros F. destruct (step_cand (fire_step F)) as [I L].
  destruct e as [[|w] a]; cbn [fst snd cands] in *; unfold enabled; apply in_or_app.
  - left. apply in_succs_of; auto.
  - right. apply in_flat_map. exists w. split. { apply in_seq. lia. } apply in_succs_of; auto.
Qed.

Theorem wq_enabled_sound s e s' : In (e, s') (enabled s) -> fire s e = Some s'.
Proof.
  unfold enabled. intros H. apply in_app_or in H. destruct H as [H|H].
  - eapply succs_of_in; eauto.
  - apply in_flat_map in H. destruct H as (w & _ & H). eapply succs_of_in; eauto.
Qed.

(* ------------------------------------------------------------------ invariants of [run] *)

Ltac sts :=
  cbn [mtx queue pending finished qsize wpcs pp prog executed deleted
       set_pc set_mtx set_pp set_queue set_pending set_prog set_wpcs add_executed add_deleted] in *.

(** 1. sizes *)
Lemma inv_sizes T qs pr tr s : run T qs pr tr s -> nthreads s = T /\ qsize s = qs.
Proof.
  induction 1 as [|tr s e s' R [IH1 IH2] F].
  - unfold nthreads, init; cbn. rewrite repeat_length; auto.
  - apply fire_step in F.
    destruct F; unfold nthreads in *; sts; rewrite ?upd_length, ?wake_one_length, ?map_length; auto.
Qed.

Lemma init_pcw T qs pr w : w < T -> pcw (init T qs pr) w = QStart.
Proof. intros L. unfold pcw, init; cbn [wpcs]. apply nth_repeat_lt; auto. Qed.

(** 2. mutex ownership *)
Record MX (T : nat) (s : st) : Prop := {
  mx_p : pholds (pp s) = is_owner (mtx s) Prod;
  mx_w : forall w, w < T -> holds (pcw s w) = is_owner (mtx s) (W w);
  mx_lt : forall w, mtx s = Some (W w) -> w < T }.

Lemma is_owner_W m w : true = is_owner m (W w) -> m = Some (W w).
Proof.
  destruct m as [[|a]|]; cbn [is_owner]; try discriminate. intros H. symmetry in H. apply Nat.eqb_eq in H. subst; auto.
Qed.
Lemma is_owner_P m : true = is_owner m Prod -> m = Some Prod.
Proof. destruct m as [[|a]|]; cbn [is_owner]; try discriminate; auto. Qed.

Lemma inv_mx T qs pr tr s : run T qs pr tr s -> MX T s.
Proof.
  induction 1 as [|tr s e s' R IH F].
  - constructor; cbn [init mtx pp pholds is_owner]; auto; try discriminate.
    intros w L. rewrite init_pcw; auto.
  - destruct (inv_sizes R) as [HT Hq]. apply fire_step in F. destruct IH as [IHp IHw IHlt].
    destruct F.
    (* worker steps *)
    1-20: match goal with Hw : ?w < nthreads ?s, E : pcw ?s ?w = _ |- _ =>
            pose proof (IHw w ltac:(lia)) as Q; rewrite E in Q; cbn [holds] in Q;
            try apply is_owner_W in Q
          end;
          constructor; unfold pcw, nthreads in *; sts;
          repeat match goal with Hm : mtx _ = _ |- _ => rewrite Hm in *; clear Hm end;
          [ rewrite ?pholds_wake_prod; cbn [is_owner] in *; auto
          | intros w0 L0; rewrite nth_upd' by lia; destruct (w =? w0) eqn:Eq;
            [ apply Nat.eqb_eq in Eq; subst w0; cbn [holds is_owner]; rewrite ?Nat.eqb_refl; auto
            | rewrite (IHw w0 L0); cbn [is_owner]; rewrite ?Eq; auto ]
          | intros w0 Hm0; try discriminate; try (injection Hm0 as <-; lia); auto ].
    (* producer steps *)
    all: match goal with E : pp _ = _ |- _ =>
            rewrite E in IHp; cbn [pholds] in IHp; try apply is_owner_P in IHp
          end;
          constructor; unfold pcw, nthreads in *; sts;
          repeat match goal with Hm : mtx _ = _ |- _ => rewrite Hm in *; clear Hm end;
          [ cbn [pholds is_owner] in *; auto
          | intros w0 L0; rewrite ?wake_one_nth_f, ?wake_nth_f by reflexivity;
            rewrite (IHw w0 L0); cbn [is_owner]; auto
          | intros w0 Hm0; try discriminate; auto ].
Qed.

(** 3. [finished] is set exactly during the tail of the destructor; the destructor runs after the whole program *)
Definition FIN (s : st) : Prop := finished s = pfin (pp s) /\ (pdes (pp s) = true -> prog s = []).

Lemma inv_fin T qs pr tr s : run T qs pr tr s -> FIN s.
Proof.
  induction 1 as [|tr s e s' R [IH1 IH2] F].
  - split; cbn; auto; discriminate.
  - apply fire_step in F.
    destruct F; split; sts; rewrite ?pfin_wake_prod, ?pdes_wake_prod; auto;
      match goal with E : pp _ = _ |- _ => rewrite E in *; cbn [pfin pdes] in * end; auto; discriminate.
Qed.

(** 4. accounting of task ids *)
Definition ACC (T : nat) (pr : list op) (s : st) : Prop :=
  forall id,
    cnt (adds (prog s)) id + inflight (pp s) id + cnt (queue s) id
      + countb (fun w => heldpre id (pcw s w)) T + cnt (executed s) id = cnt (adds pr) id
    /\ cnt (executed s) id = countb (fun w => isdel id (pcw s w)) T + cnt (deleted s) id.

Ltac eqb_cases :=
  repeat match goal with
  | |- context [b2n (?a =? ?b)] => destruct (a =? b)
  | H : context [b2n (?a =? ?b)] |- _ => destruct (a =? b)
  end; cbn [b2n] in *.

Lemma inv_acc T qs pr tr s : run T qs pr tr s -> ACC T pr s.
Proof.
  induction 1 as [|tr s e s' R IH F].
  - intros id. cbn [init prog pp queue executed deleted inflight count_occ].
    rewrite !countb_none by (intros w L; rewrite init_pcw; auto). lia.
  - destruct (inv_sizes R) as [HT Hq]. apply fire_step in F. intros id. specialize (IH id). destruct IH as [IH1 IH2].
    destruct F.
    1-20: match goal with Hw : ?w < nthreads ?s, E : pcw ?s ?w = _ |- context [set_pc _ ?w ?p] =>
            pose proof (@countb_upd (heldpre id) (wpcs s) w p T HT ltac:(lia)) as C1;
            pose proof (@countb_upd (isdel id) (wpcs s) w p T HT ltac:(lia)) as C2;
            unfold pcw, nthreads in *; rewrite E in C1, C2
          end;
          cbn [heldpre isdel b2n] in C1, C2; sts; rewrite ?inflight_wake_prod;
          repeat match goal with Hq : queue _ = _ |- _ => rewrite Hq in *; clear Hq end;
          rewrite ?cnt_cons in *; eqb_cases; lia.
    all: unfold pcw, nthreads in *; sts;
         match goal with E : pp _ = _ |- _ => rewrite E in *; clear E end;
         repeat match goal with Hp : prog _ = _ |- _ => rewrite Hp in *; clear Hp end;
         cbn [inflight adds] in *;
         rewrite ?countb_wake_one, ?countb_map_wake by reflexivity;
         rewrite ?cnt_snoc, ?cnt_cons in *; eqb_cases; lia.
Qed.

(** 5. pendingTasks *)
Definition PEND (T : nat) (s : st) : Prop :=
  pending s = length (queue s) + countb (fun w => counted (pcw s w)) T.

Lemma inv_pend T qs pr tr s : run T qs pr tr s -> PEND T s.
Proof.
  unfold PEND. induction 1 as [|tr s e s' R IH F].
  - cbn [init pending queue length]. rewrite countb_none by (intros w L; rewrite init_pcw; auto). auto.
  - destruct (inv_sizes R) as [HT Hq]. apply fire_step in F.
    destruct F.
    1-20: match goal with Hw : ?w < nthreads ?s, E : pcw ?s ?w = _ |- context [set_pc _ ?w ?p] =>
            pose proof (@countb_upd counted (wpcs s) w p T HT ltac:(lia)) as C1;
            unfold pcw, nthreads in *; rewrite E in C1
          end;
          cbn [counted b2n] in C1; sts;
          repeat match goal with Hq : queue _ = _ |- _ => rewrite Hq in *; clear Hq end;
          cbn [length] in *; lia.
    all: unfold pcw, nthreads in *; sts;
         rewrite ?countb_wake_one, ?countb_map_wake by reflexivity;
         rewrite ?app_length; cbn [length]; lia.
Qed.

(** 6. a worker is blocked although its predicate holds only between "finished = true" and notify_all;
       a worker leaves only when finished and the queue is empty (and nothing is pushed after that) *)
Definition BLK (T : nat) (s : st) : Prop :=
  (forall w, w < T -> pcw s w = QBlocked -> finished s = false \/ pp s = PDNotify) /\
  (forall w, w < T -> is_gone (pcw s w) = true -> finished s = true /\ queue s = []).

Lemma wake_one_blocked l w d : nth w (wake_one l) d = QBlocked -> nth w l d = QBlocked.
Proof. destruct (wake_one_nth l w d) as [->|[_ ->]]; auto; discriminate. Qed.

Lemma map_wake_not_blocked l w : nth w (map wake l) QExited = QBlocked -> False.
Proof.
  destruct (Nat.lt_ge_cases w (length l)) as [L|L].
  - rewrite (nth_map_d wake l w QExited QExited L). destruct (nth w l QExited); discriminate.
  - rewrite nth_overflow; [discriminate|]. rewrite map_length; auto.
Qed.

Lemma inv_blk T qs pr tr s : run T qs pr tr s -> BLK T s.
Proof.
  induction 1 as [|tr s e s' R IH F].
  - split; intros w L; rewrite init_pcw; auto; discriminate.
  - destruct (inv_sizes R) as [HT Hq]. destruct (inv_fin R) as [HF _]. apply fire_step in F.
    destruct IH as [IHa IHb].
    destruct F.
    1-20: match goal with Hw : ?w < nthreads ?s, E : pcw ?s ?w = _ |- _ =>
            split; intros w0 L0; unfold pcw, nthreads in *; sts; rewrite nth_upd' by lia;
            (destruct (w =? w0) eqn:Eq;
             [ apply Nat.eqb_eq in Eq; subst w0; cbn [is_gone]; intros Hb; try discriminate Hb; auto;
               try (apply (IHb w); [lia | rewrite E; reflexivity])
             | intros Hb ])
          end;
          try (destruct (IHa w0 L0 Hb) as [Hf|Hp]; [left; exact Hf | right; rewrite Hp; reflexivity]);
          try (destruct (IHb w0 L0 Hb) as [Hf Hq0]; split; auto; congruence).
    all: match goal with E : pp _ = _ |- _ =>
           split; intros w0 L0; unfold pcw, nthreads in *; sts;
           [ intros Hb;
             first [ right; reflexivity
                   | exfalso; exact (map_wake_not_blocked Hb)
                   | try apply wake_one_blocked in Hb;
                     destruct (IHa w0 L0 Hb) as [Hf|Hp]; [left; exact Hf | congruence] ]
           | rewrite ?wake_one_nth_f, ?wake_nth_f by reflexivity;
             intros Hg; destruct (IHb w0 L0 Hg) as [Hf Hq0];
             rewrite E in HF; cbn [pfin] in HF; try congruence; split; auto ]
         end.
Qed.

(** 7. no lost wake-up for the workers: a non-empty queue is always seen by somebody *)
Definition QNE (T : nat) (s : st) : Prop :=
  queue s <> [] -> pp s = PANotify \/ exists w, w < T /\ active (pcw s w) = true.

Lemma wake_one_active l w d : active (nth w l d) = true -> active (nth w (wake_one l) d) = true.
Proof. destruct (wake_one_nth l w d) as [->|[_ ->]]; auto. Qed.

Lemma map_wake_active l w : active (nth w l QExited) = true -> active (nth w (map wake l) QExited) = true.
Proof.
  destruct (Nat.lt_ge_cases w (length l)) as [L|L].
  - rewrite (nth_map_d wake l w QExited QExited L). destruct (nth w l QExited); auto.
  - rewrite !nth_overflow; auto. rewrite map_length; auto.
Qed.

Lemma anotify_active l T :
  length l = T -> T >= 1 -> (forall w, w < T -> is_gone (nth w l QExited) = false) ->
  exists w, w < T /\ active (nth w (wake_one l) QExited) = true.
Proof.
  intros HT T1 NG.
  destruct (countb (fun w => is_qblocked (nth w l QExited)) T) eqn:C.
  - exists 0. split; [lia|]. apply wake_one_active.
    pose proof (countb_zero _ _ C 0 ltac:(lia)) as B. cbv beta in B.
    unfold active. rewrite B, (NG 0) by lia. reflexivity.
  - destruct (countb_pos (fun w => is_qblocked (nth w l QExited)) T ltac:(lia)) as (w & L & B).
    cbv beta in B. assert (E : nth w l QExited = QBlocked) by (destruct (nth w l QExited); try discriminate; auto).
    destruct (@wake_one_wakes l w QExited E ltac:(lia)) as (w' & L' & E').
    exists w'. split; [lia|]. rewrite E'. reflexivity.
Qed.

Lemma inv_qne T qs pr tr s : T >= 1 -> run T qs pr tr s -> QNE T s.
Proof.
  intros T1. unfold QNE. induction 1 as [|tr s e s' R IH F].
  - intros H. exfalso; apply H; reflexivity.
  - destruct (inv_sizes R) as [HT Hq]. destruct (inv_fin R) as [HF _]. destruct (inv_blk R) as [Ba Bb].
    apply fire_step in F.
    destruct F.
    1-20: match goal with Hw : ?w < nthreads ?s, E : pcw ?s ?w = _ |- _ =>
            intros Hne; unfold pcw, nthreads in *; sts;
            first [ right; exists w; split; [lia | rewrite nth_upd_eq by lia; reflexivity]
                  | exfalso; apply Hne;
                    first [ assumption
                          | destruct (Bb w) as [_ Q]; [lia | rewrite E; reflexivity | exact Q] ] ]
          end.
    all: match goal with E : pp _ = _ |- _ =>
           intros Hne; unfold pcw, nthreads in *; sts;
           first [ left; reflexivity
                 | destruct (IH Hne) as [Hp | (w0 & L0 & A0)];
                   [ congruence
                   | right; exists w0; split; [exact L0|]; first [exact A0 | apply map_wake_active; exact A0] ]
                 | idtac ]
         end.
    (* notify_one after a push *)
    right. apply anotify_active; auto. intros w L.
    destruct (is_gone (nth w (wpcs s) QExited)) eqn:G; auto.
    destruct (Bb w L G) as [Hf _]. rewrite H in HF. cbn [pfin] in HF. congruence.
Qed.

(** 8. no lost wake-up for the producer *)
Definition PWAKE (T qs : nat) (s : st) : Prop :=
  (forall id, pp s = PABlocked id ->
     qs <= length (queue s) \/ exists w, w < T /\ is_qnotify (pcw s w) = true) /\
  (pp s = PFBlocked -> pending s <> 0 \/ exists w, w < T /\ is_qdecnotify (pcw s w) = true).

Lemma wake_prod_not_ablocked p id : wake_prod p = PABlocked id -> False.
Proof. destruct p; discriminate. Qed.
Lemma wake_prod_not_fblocked p : wake_prod p = PFBlocked -> False.
Proof. destruct p; discriminate. Qed.
Lemma wake_prod_funlock p : wake_prod p = PFUnlock -> p = PFUnlock.
Proof. destruct p; try discriminate; auto. Qed.
Lemma wake_prod_done p : wake_prod p = PDone -> p = PDone.
Proof. destruct p; try discriminate; auto. Qed.

Lemma inv_pwake T qs pr tr s : run T qs pr tr s -> PWAKE T qs s.
Proof.
  induction 1 as [|tr s e s' R IH F].
  - split; cbn [init pp]; intros; discriminate.
  - destruct (inv_sizes R) as [HT Hq]. apply fire_step in F. destruct IH as [IHa IHb].
    destruct F.
    1-20: match goal with Hw : ?w < nthreads ?s, E : pcw ?s ?w = _ |- _ =>
            split;
            [ intros id0 Hp; unfold pcw, nthreads in *; sts;
              first [ exfalso; exact (wake_prod_not_ablocked Hp)
                    | destruct (IHa id0 Hp) as [Hl | (w0 & L0 & N0)] ]
            | intros Hp; unfold pcw, nthreads in *; sts;
              first [ exfalso; exact (wake_prod_not_fblocked Hp)
                    | destruct (IHb Hp) as [Hl | (w0 & L0 & N0)] ] ];
            first [ left; exact Hl
                  | right; exists w; split; [lia | rewrite nth_upd_eq by lia; reflexivity]
                  | destruct (Nat.eq_dec w0 w) as [->|Nw];
                    [ rewrite E in N0; discriminate N0
                    | right; exists w0; split; [exact L0 | rewrite nth_upd_neq by auto; exact N0] ] ]
          end.
    all: split; [intros id0 Hp | intros Hp]; sts; try discriminate Hp; left; rewrite <- ?Hq; assumption.
Qed.

(** 9. flush() proceeds to its unlock only with pendingTasks = 0; after the join all workers have exited *)
Lemma inv_pfu T qs pr tr s : run T qs pr tr s -> pp s = PFUnlock -> pending s = 0.
Proof.
  induction 1 as [|tr s e s' R IH F].
  - discriminate.
  - apply fire_step in F.
    destruct F.
    1-20: intros Hp; sts; try apply wake_prod_funlock in Hp; specialize (IH Hp); lia.
    all: intros Hp; sts; try discriminate Hp; assumption.
Qed.

Lemma inv_done T qs pr tr s : run T qs pr tr s -> pp s = PDone -> forall w, w < T -> pcw s w = QExited.
Proof.
  induction 1 as [|tr s e s' R IH F].
  - discriminate.
  - destruct (inv_sizes R) as [HT Hq]. apply fire_step in F.
    destruct F.
    1-20: match goal with Hw : ?w < nthreads ?s, E : pcw ?s ?w = _ |- _ =>
            intros Hp; sts; try apply wake_prod_done in Hp;
            pose proof (IH Hp w ltac:(lia)) as Q; rewrite E in Q; discriminate Q
          end.
    all: intros Hp; sts; try discriminate Hp.
    intros w L. unfold pcw, nthreads in *; sts.
    pose proof (@forallb_true_nth is_exited (wpcs s) QExited w H0 ltac:(lia)) as Q.
    destruct (nth w (wpcs s) QExited); try discriminate Q; reflexivity.
Qed.

(* ================================================================== the theorems *)

(** B. mutual exclusion *)
Theorem wq_sizes T qs pr tr s : run T qs pr tr s -> nthreads s = T /\ qsize s = qs.
Proof. apply inv_sizes. Qed.

Theorem wq_mutex_exclusive T qs pr tr s :
  run T qs pr tr s ->
  (forall w, mtx s = Some (W w) <-> (w < T /\ holds (pcw s w) = true)) /\
  (mtx s = Some Prod <-> pholds (pp s) = true).
Proof.
  intros R. destruct (inv_mx R) as [Mp Mw Mlt]. split; [intros w|]; split.
  - intros Hm. pose proof (Mlt w Hm) as L. split; auto. rewrite (Mw w L), Hm. cbn [is_owner]. apply Nat.eqb_refl.
  - intros [L Hh]. rewrite (Mw w L) in Hh. apply is_owner_W. auto.
  - intros Hm. rewrite Mp, Hm. reflexivity.
  - intros Hh. rewrite Mp in Hh. apply is_owner_P. auto.
Qed.

(** two threads are never both inside a critical section *)
Corollary wq_mutex_at_most_one T qs pr tr s :
  run T qs pr tr s ->
  (forall w1 w2, w1 < T -> w2 < T -> holds (pcw s w1) = true -> holds (pcw s w2) = true -> w1 = w2) /\
  (forall w, w < T -> holds (pcw s w) = true -> pholds (pp s) = false).
Proof.
  intros R. destruct (wq_mutex_exclusive R) as [Hw Hp]. split.
  - intros w1 w2 L1 L2 H1 H2.
    pose proof (proj2 (Hw w1) (conj L1 H1)) as E1. pose proof (proj2 (Hw w2) (conj L2 H2)) as E2. congruence.
  - intros w L H. pose proof (proj2 (Hw w) (conj L H)) as E.
    destruct (pholds (pp s)) eqn:P; auto. pose proof (proj2 Hp eq_refl). congruence.
Qed.

(** C. every task id is accounted for exactly as often as it was added, in every reachable state *)
Theorem wq_each_task_accounted T qs pr tr s :
  run T qs pr tr s ->
  forall id,
    cnt (adds (prog s)) id + inflight (pp s) id + cnt (queue s) id
      + countb (fun w => heldpre id (pcw s w)) T + cnt (executed s) id = cnt (adds pr) id
    /\ cnt (executed s) id = countb (fun w => isdel id (pcw s w)) T + cnt (deleted s) id.
Proof. apply inv_acc. Qed.

(** consequences spelled out: never executed / deleted more often than added; deleted only after executed *)
Corollary wq_never_more_than_added T qs pr tr s :
  run T qs pr tr s ->
  forall id, cnt (deleted s) id <= cnt (executed s) id /\ cnt (executed s) id <= cnt (adds pr) id.
Proof. intros R id. destruct (inv_acc R id). lia. Qed.

Corollary wq_executed_were_added T qs pr tr s :
  run T qs pr tr s -> forall id, In id (executed s) -> In id (adds pr).
Proof.
  intros R id I. apply (count_occ_In Nat.eq_dec) in I. apply (count_occ_In Nat.eq_dec).
  destruct (wq_never_more_than_added R id). lia.
Qed.

(** D. pendingTasks *)
Theorem wq_pending_counts T qs pr tr s :
  run T qs pr tr s -> pending s = length (queue s) + countb (fun w => counted (pcw s w)) T.
Proof. apply inv_pend. Qed.

(** E. flush *)
Lemma heldpre_counted id p : heldpre id p = true -> counted p = true.
Proof. destruct p as [| | | | | | | | |t|[t|]|t|t| |]; cbn; auto; discriminate. Qed.
Lemma isdel_counted id p : isdel id p = true -> counted p = true.
Proof. destruct p; cbn; auto; discriminate. Qed.

Lemma pending0_quiescent T qs pr tr s :
  run T qs pr tr s -> pending s = 0 ->
  queue s = [] /\ forall id,
    countb (fun w => heldpre id (pcw s w)) T = 0 /\ countb (fun w => isdel id (pcw s w)) T = 0.
Proof.
  intros R P0. pose proof (inv_pend R) as HP. unfold PEND in HP. rewrite P0 in HP.
  split. { apply length_zero_iff_nil. lia. }
  intros id. split; apply countb_sub with (f := fun w => counted (pcw s w)); try lia;
    intros w _; cbv beta; [apply heldpre_counted | apply isdel_counted].
Qed.

Theorem wq_flush_unlock_pending0 T qs pr tr s : run T qs pr tr s -> pp s = PFUnlock -> pending s = 0.
Proof. apply inv_pfu. Qed.

Theorem wq_flush_returns_only_when_done T qs pr tr s :
  run T qs pr ((Prod, PFUnlockA) :: tr) s ->
  pending s = 0 /\ queue s = [] /\
  forall id, cnt (deleted s) id + cnt (adds (prog s)) id = cnt (adds pr) id
             /\ cnt (executed s) id = cnt (deleted s) id.
Proof.
  intros R.
  assert (P0 : pending s = 0 /\ pp s = PIdle).
  { inversion R as [|tr' s0 e s' R0 F]; subst. pose proof (inv_pfu R0) as Q.
    unfold fire in F; cbn [fst snd] in F. unfold fire_p in F.
    destruct (pp s0) eqn:E; try discriminate F. injection F as <-. sts. auto. }
  destruct P0 as [P0 Hpp]. destruct (pending0_quiescent R P0) as [Hq Hc].
  split; auto. split; auto. intros id.
  destruct (inv_acc R id) as [A1 A2]. destruct (Hc id) as [C1 C2].
  rewrite Hpp, Hq, C1 in A1. rewrite C2 in A2. cbn [inflight count_occ] in A1. lia.
Qed.

(** F. destructor *)
Lemma final_pdone s : final s = true -> pp s = PDone.
Proof. unfold final. destruct (pp s); try discriminate; auto. Qed.

Lemma final_counts T qs pr tr s :
  T >= 1 -> run T qs pr tr s -> final s = true ->
  queue s = [] /\ pending s = 0 /\
  forall id, cnt (executed s) id = cnt (adds pr) id /\ cnt (deleted s) id = cnt (adds pr) id.
Proof.
  intros T1 R Hf. apply final_pdone in Hf. pose proof (inv_done R Hf) as HE.
  destruct (inv_blk R) as [_ Bb]. destruct (inv_fin R) as [_ Hprog].
  assert (Hq : queue s = []).
  { destruct (Bb 0) as [_ Q]; auto. rewrite HE; auto. }
  assert (Hz : forall f : qpc -> bool, f QExited = false -> countb (fun w => f (pcw s w)) T = 0).
  { intros f Ef. apply countb_none. intros w L. rewrite HE; auto. }
  split; auto. split.
  - rewrite (inv_pend R), Hq, Hz; auto.
  - intros id. destruct (inv_acc R id) as [A1 A2].
    rewrite Hprog in A1 by (rewrite Hf; reflexivity).
    rewrite Hf, Hq, (Hz (heldpre id)) in A1 by reflexivity. rewrite (Hz (isdel id)) in A2 by reflexivity.
    cbn [adds inflight count_occ] in A1. lia.
Qed.

Theorem wq_destructor_drains T qs pr tr s :
  T >= 1 -> run T qs pr tr s -> final s = true ->
  queue s = [] /\ pending s = 0 /\ Permutation (executed s) (adds pr) /\ Permutation (deleted s) (adds pr).
Proof.
  intros T1 R Hf. destruct (final_counts T1 R Hf) as (Hq & Hp & Hc).
  split; auto. split; auto.
  split; apply (Permutation_count_occ Nat.eq_dec); intros id; destruct (Hc id); auto.
Qed.

Corollary wq_each_task_exactly_once T qs pr tr s :
  NoDup (adds pr) -> T >= 1 -> run T qs pr tr s -> final s = true ->
  NoDup (executed s) /\ NoDup (deleted s) /\ (forall id, In id (executed s) <-> In id (adds pr)).
Proof.
  intros ND T1 R Hf. destruct (wq_destructor_drains T1 R Hf) as (_ & _ & Pe & Pd).
  split; [|split].
  - eapply Permutation_NoDup; [apply Permutation_sym; exact Pe | exact ND].
  - eapply Permutation_NoDup; [apply Permutation_sym; exact Pd | exact ND].
  - intros id. split; apply Permutation_in; auto. apply Permutation_sym; auto.
Qed.

(** G. deadlock freedom: in every reachable non-final state some thread has a non-spurious step *)
Definition canfire (s : st) (t : thr) : Prop :=
  exists a s', fire s (t, a) = Some s' /\ is_spurious a = false.

Lemma holder_moves s w : w < nthreads s -> holds (pcw s w) = true -> canfire s (W w).
Proof.
  intros L. apply Nat.ltb_lt in L. unfold canfire, fire; cbn [fst snd]; unfold fire_w. rewrite L; cbn [negb].
  destruct (pcw s w) as [| | | | | | | | |t|[t|]|t|t| |]; try discriminate; intros _.
  - exists ADec; eexists; split; reflexivity.
  - exists ADecNotify; eexists; split; reflexivity.
  - exists AChk. cbv beta iota. destruct (finished s && qempty s); eexists; split; reflexivity.
  - exists AWaitEnter. cbv beta iota. destruct (wpred s); eexists; split; reflexivity.
  - destruct (queue s); [exists ANotifyFull | exists APop]; eexists; split; reflexivity.
  - exists ANotifyFull; eexists; split; reflexivity.
  - exists AUnlock; eexists; split; reflexivity.
  - exists AUnlock; eexists; split; reflexivity.
Qed.

Lemma free_moves s w :
  mtx s = None -> w < nthreads s ->
  holds (pcw s w) = false -> is_qblocked (pcw s w) = false -> is_exited (pcw s w) = false -> canfire s (W w).
Proof.
  intros Hm L. apply Nat.ltb_lt in L. unfold canfire, fire; cbn [fst snd]; unfold fire_w, mtx_free.
  rewrite L, Hm; cbn [negb].
  destruct (pcw s w) as [|dec| | | | | | | |t|[t|]|t|t| |]; try discriminate; intros _ _ _.
  - exists AStart; eexists; split; reflexivity.
  - exists ALock; eexists; split; reflexivity.
  - destruct (wpred s); [exists AWaitExit | exists ARecheck]; eexists; split; reflexivity.
  - exists (AExec t). cbv beta iota. rewrite Nat.eqb_refl. eexists; split; reflexivity.
  - exists (ADel t). cbv beta iota. rewrite Nat.eqb_refl. eexists; split; reflexivity.
  - exists AExit; eexists; split; reflexivity.
Qed.

Lemma prod_holder_moves s : pholds (pp s) = true -> canfire s Prod.
Proof.
  unfold canfire, fire; cbn [fst snd]; unfold fire_p.
  destruct (pp s); try discriminate; intros _.
  - exists PAWaitEnterA. cbv beta iota. destruct (apred s); eexists; split; reflexivity.
  - exists PAPushA; eexists; split; reflexivity.
  - exists PANotifyA; eexists; split; reflexivity.
  - exists PAUnlockA; eexists; split; reflexivity.
  - exists PFWaitEnterA. cbv beta iota. destruct (fpred s); eexists; split; reflexivity.
  - exists PFUnlockA; eexists; split; reflexivity.
  - exists DSet; eexists; split; reflexivity.
  - exists DNotify; eexists; split; reflexivity.
  - exists DUnlock; eexists; split; reflexivity.
Qed.

Lemma canfire_enabled s t : canfire s t -> exists e s', In (e, s') (enabled s) /\ is_spurious (snd e) = false.
Proof. intros (a & s' & F & Sp). exists (t, a), s'. split; auto. apply wq_enabled_complete; auto. Qed.

Theorem wq_no_deadlock T qs pr tr s :
  T >= 1 -> qs >= 1 -> run T qs pr tr s -> final s = false ->
  exists e s', In (e, s') (enabled s) /\ is_spurious (snd e) = false.
Proof.
  intros T1 Q1 R NF.
  destruct (inv_sizes R) as [HT Hqs]. destruct (inv_mx R) as [Mp Mw Mlt].
  destruct (mtx s) as [[|w0]|] eqn:Hm.
  { apply canfire_enabled with (t := Prod). apply prod_holder_moves. rewrite Mp. reflexivity. }
  { pose proof (Mlt w0 eq_refl) as L0. apply canfire_enabled with (t := W w0). apply holder_moves; [lia|].
    rewrite (Mw w0 L0). cbn [is_owner]. apply Nat.eqb_refl. }
  cbn [is_owner] in Mp.
  assert (WM : forall w, w < T -> is_qblocked (pcw s w) = false -> is_exited (pcw s w) = false ->
               exists e s', In (e, s') (enabled s) /\ is_spurious (snd e) = false).
  { intros w L B E. apply canfire_enabled with (t := W w). apply free_moves; auto; try lia. rewrite (Mw w L). reflexivity. }
  assert (NH : forall w, w < T -> holds (pcw s w) = false) by (intros w L; rewrite (Mw w L); reflexivity).
  pose proof (inv_qne T1 R) as HQ. unfold QNE in HQ.
  assert (FQ : queue s <> [] -> pp s <> PANotify ->
               exists e s', In (e, s') (enabled s) /\ is_spurious (snd e) = false).
  { intros Hne Hnp. destruct (HQ Hne) as [Hp|(w & L & A)]; [contradiction|].
    unfold active in A. apply negb_true_iff in A. apply orb_false_elim in A. destruct A as [A1 A2].
    apply (WM w L A1). destruct (pcw s w); try discriminate; reflexivity. }
  assert (PM : forall a s', fire_p s a = Some s' -> is_spurious a = false ->
               exists e s', In (e, s') (enabled s) /\ is_spurious (snd e) = false).
  { intros a s' F Sp. apply canfire_enabled with (t := Prod). exists a, s'. split; auto. }
  destruct (inv_pwake R) as [Wa Wf]. destruct (inv_fin R) as [HF _]. destruct (inv_blk R) as [Ba _].
  unfold fire_p, mtx_free in PM. rewrite Hm in PM.
  destruct (pp s) eqn:Hpp; try discriminate Mp.
  - (* PIdle *)
    destruct (prog s) as [|[id|] rest] eqn:Hprog.
    + apply (PM DBegin _ eq_refl eq_refl).
    + apply (PM (PAddBegin id) (set_pp (set_prog s rest) (PALock id))); auto; cbv beta iota; rewrite ?Nat.eqb_refl; auto.
    + apply (PM PFlushBegin _ eq_refl eq_refl).
  - apply (PM PALockA _ eq_refl eq_refl).
  - (* PABlocked: the queue is full, hence non-empty, and somebody will take from it *)
    destruct (Wa id eq_refl) as [Hl|(w & L & N)].
    + apply FQ; [|discriminate]. intros Hq. rewrite Hq in Hl. cbn [length] in Hl. lia.
    + pose proof (NH w L) as Hh. destruct (pcw s w); discriminate.
  - (* PAWoken *)
    destruct (apred s) eqn:Ap.
    + apply (PM PAWaitExitA (set_pp (set_mtx s (Some Prod)) (PAPush id))); auto; cbv beta iota; rewrite ?Ap; auto.
    + apply (PM PARecheckA (set_pp s (PABlocked id))); auto; cbv beta iota; rewrite ?Ap; auto.
  - apply (PM PFLockA _ eq_refl eq_refl).
  - (* PFBlocked: pendingTasks <> 0, so a task is queued or a worker still owes its decrement *)
    destruct (Wf eq_refl) as [Hn|(w & L & N)].
    + pose proof (inv_pend R) as HP. unfold PEND in HP.
      destruct (queue s) eqn:Hq.
      * cbn [length] in HP.
        destruct (countb_pos (fun w => counted (pcw s w)) T ltac:(lia)) as (w & L & C). cbv beta in C.
        apply (WM w L); destruct (pcw s w); try discriminate; reflexivity.
      * rewrite <- Hq in *. apply FQ; [|discriminate]. rewrite Hq. discriminate.
    + pose proof (NH w L) as Hh. destruct (pcw s w); discriminate.
  - (* PFWoken *)
    destruct (fpred s) eqn:Fp.
    + apply (PM PFWaitExitA (set_pp (set_mtx s (Some Prod)) PFUnlock)); auto; cbv beta iota; rewrite ?Fp; auto.
    + apply (PM PFRecheckA (set_pp s PFBlocked)); auto; cbv beta iota; rewrite ?Fp; auto.
  - apply (PM DLock _ eq_refl eq_refl).
  - (* PJoin: a worker that has not exited is neither blocked (notify_all has happened) nor in the critical section *)
    destruct (forallb is_exited (wpcs s)) eqn:AE.
    + apply (PM DJoined (set_pp s PDone)); auto; cbv beta iota; rewrite ?AE; auto.
    + destruct (@forallb_false_nth is_exited (wpcs s) QExited AE) as (w & L & E).
      unfold nthreads in HT. rewrite HT in L. apply (WM w L); auto.
      destruct (is_qblocked (pcw s w)) eqn:B; auto.
      assert (EB : pcw s w = QBlocked) by (destruct (pcw s w); try discriminate; auto).
      cbn [pfin] in HF. destruct (Ba w L EB); congruence.
  - (* PDone *) unfold final in NF. rewrite Hpp in NF. discriminate.
Qed.

(** H. soundness of the hook-trace acceptor: the model transitions it fires form a run *)
Lemma accepts_from_run T qs pr evs :
  forall s0 pend tr0 s fired,
    run T qs pr tr0 s0 -> accepts_from s0 pend tr0 evs = Some (s, fired) -> run T qs pr fired s.
Proof.
  induction evs as [|e r IH]; intros s0 pend tr0 s fired R A; cbn [accepts_from] in A.
  - injection A as <- <-. exact R.
  - destruct (accept_step s0 pend e) as [[[s1 pend1] f]|] eqn:St; [|discriminate].
    apply (IH _ _ _ _ _) in A; auto.
    unfold accept_step in St.
    destruct (is_hidden (snd e) || is_spurious (snd e)); [discriminate|].
    destruct (memt (fst e) pend).
    + destruct (is_wait_exit (snd e)); [|discriminate]. injection St as <- _ <-. exact R.
    + destruct (fire s0 (resolve s0 e)) eqn:F; [|discriminate]. injection St as <- _ <-.
      econstructor; eauto.
Qed.

Theorem wq_accepts_sound T qs pr evs s fired :
  accepts_from (init T qs pr) [] [] evs = Some (s, fired) -> run T qs pr fired s.
Proof. apply accepts_from_run. constructor. Qed.

Corollary wq_accepts_run T qs pr evs : accepts T qs pr evs = true -> exists tr s, run T qs pr tr s.
Proof.
  unfold accepts. destruct (accepts_from (init T qs pr) [] [] evs) as [[s fired]|] eqn:A; [|discriminate].
  intros _. exists fired, s. eapply wq_accepts_sound; eauto.
Qed.

Corollary wq_accepts_complete_run T qs pr evs :
  accepts_complete T qs pr evs = true -> exists tr s, run T qs pr tr s /\ final s = true.
Proof.
  unfold accepts_complete. destruct (accepts_from (init T qs pr) [] [] evs) as [[s fired]|] eqn:A; [|discriminate].
  intros Hf. exists fired, s. split; auto. eapply wq_accepts_sound; eauto.
Qed.

(** I. non-vacuity: a complete hook trace of the 1-worker system, queueSize 1, program  addTask(7); flush(); ~ *)
Definition demo_prog : list op := [Add 7; Flush].
Definition demo_trace : list event :=
  [ (W 0, AStart); (W 0, ALock); (W 0, AChk); (W 0, AWaitEnter);                 (* worker blocks: queue empty *)
    (Prod, PAddBegin 7); (Prod, PALockA); (Prod, PAWaitEnterA); (Prod, PAWaitExitA);  (* wait did not block *)
    (Prod, PAPushA); (Prod, PANotifyA); (Prod, PAUnlockA);
    (W 0, AWaitExit); (W 0, APop); (W 0, ANotifyFull); (W 0, AUnlock);
    (Prod, PFlushBegin); (Prod, PFLockA); (Prod, PFWaitEnterA);                    (* flush blocks: pending = 1 *)
    (W 0, AExec 7); (W 0, ADel 7); (W 0, ALock); (W 0, ADec); (W 0, ADecNotify);
    (W 0, AChk); (W 0, AWaitEnter);                                                (* worker blocks again *)
    (Prod, PFWaitExitA); (Prod, PFUnlockA);                                        (* flush returns *)
    (Prod, DBegin); (Prod, DLock); (Prod, DSet); (Prod, DNotify); (Prod, DUnlock);
    (W 0, AWaitExit); (W 0, ANotifyFull); (W 0, AUnlock); (W 0, ALock); (W 0, AChk); (W 0, AExit);
    (Prod, DJoined) ].

Example wq_demo_accepted : accepts_complete 1 1 demo_prog demo_trace = true.
Proof. vm_compute. reflexivity. Qed.

(** the hypotheses of E and F are satisfiable, and their conclusions are what one expects on the demo *)
Example wq_demo_final_run :
  exists tr s, run 1 1 demo_prog tr s /\ final s = true /\ executed s = [7] /\ deleted s = [7].
Proof.
  destruct (accepts_from (init 1 1 demo_prog) [] [] demo_trace) as [[s fired]|] eqn:A; [|vm_compute in A; discriminate].
  exists fired, s. split. { eapply wq_accepts_sound; eauto. }
  vm_compute in A. injection A as <- _. vm_compute. auto.
Qed.

Example wq_demo_flush_run :
  exists tr s, run 1 1 demo_prog ((Prod, PFUnlockA) :: tr) s /\ executed s = [7] /\ deleted s = [7] /\ prog s = [].
Proof.
  destruct (accepts_from (init 1 1 demo_prog) [] [] (firstn 27 demo_trace)) as [[s fired]|] eqn:A;
    [|vm_compute in A; discriminate].
  pose proof (wq_accepts_sound A) as R. vm_compute in A. injection A as <- <-.
  eexists; eexists; split; [exact R|]. vm_compute. auto.
Qed.

(** the acceptor rejects a trace in which the worker takes the task without the producer having pushed it *)
Example wq_demo_rejected :
  accepts 1 1 demo_prog [ (W 0, AStart); (W 0, ALock); (W 0, AChk); (W 0, AWaitEnter); (W 0, AWaitExit) ] = false.
Proof. vm_compute. reflexivity. Qed.

(** a second complete trace: 2 workers, queueSize 1, addTask(1); addTask(2); ~  -- the producer blocks on the full
    queue and is woken by the worker that pops; worker 1 enters its wait with the predicate already true *)
Definition demo2_prog : list op := [Add 1; Add 2].
Definition demo2_trace : list event :=
  [ (W 0, AStart); (W 0, ALock); (W 0, AChk); (W 0, AWaitEnter);
    (Prod, PAddBegin 1); (Prod, PALockA); (Prod, PAWaitEnterA); (Prod, PAWaitExitA);
    (Prod, PAPushA); (Prod, PANotifyA); (Prod, PAUnlockA);
    (Prod, PAddBegin 2); (Prod, PALockA); (Prod, PAWaitEnterA);                    (* queue full: producer blocks *)
    (W 0, AWaitExit); (W 0, APop); (W 0, ANotifyFull); (W 0, AUnlock);             (* pop wakes the producer *)
    (Prod, PAWaitExitA); (Prod, PAPushA); (Prod, PANotifyA); (Prod, PAUnlockA);    (* notify_one: nobody waits *)
    (W 1, AStart); (W 1, ALock); (W 1, AChk); (W 1, AWaitEnter); (W 1, AWaitExit); (* wait did not block *)
    (W 1, APop); (W 1, ANotifyFull); (W 1, AUnlock);
    (W 1, AExec 2); (W 1, ADel 2); (W 0, AExec 1); (W 0, ADel 1);
    (Prod, DBegin); (Prod, DLock); (Prod, DSet); (Prod, DNotify); (Prod, DUnlock);
    (W 0, ALock); (W 0, ADec); (W 0, ADecNotify); (W 0, AChk); (W 0, AExit);
    (W 1, ALock); (W 1, ADec); (W 1, ADecNotify); (W 1, AChk); (W 1, AExit);
    (Prod, DJoined) ].

Example wq_demo2_accepted : accepts_complete 2 1 demo2_prog demo2_trace = true.
Proof. vm_compute. reflexivity. Qed.

Example wq_demo2_final_run :
  exists tr s, run 2 1 demo2_prog tr s /\ final s = true /\ executed s = [1; 2] /\ deleted s = [1; 2].
Proof.
  destruct (accepts_from (init 2 1 demo2_prog) [] [] demo2_trace) as [[s fired]|] eqn:A; [|vm_compute in A; discriminate].
  exists fired, s. split. { eapply wq_accepts_sound; eauto. }
  vm_compute in A. injection A as <- _. vm_compute. auto.
Qed.
