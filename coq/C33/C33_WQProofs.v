(** C33 part (ii): proofs about the ParallelWorkQueue lock / condition-variable protocol model C33_WQ.v.

    Contents
      A. [enabled] is exactly the graph of [fire]                      wq_enabled_complete / wq_enabled_sound
      B. mutual exclusion                                               wq_mutex_exclusive (+ corollaries)
      C. exactly-once accounting of every task id                       wq_each_task_accounted
      D. pendingTasks = queued + taken-but-not-yet-decremented          wq_pending_counts
      E. flush() returns only when everything added so far is done      wq_flush_returns_only_when_done
      F. the destructor drains the queue, every task executed+deleted   wq_destructor_drains, wq_each_task_exactly_once
      G. no deadlock / no lost wake-up                                  wq_no_deadlock
      H. soundness of the hook-trace acceptor                           wq_accepts_sound
      I. non-vacuity examples (a complete run, by computation)

    All proofs go through one inversion lemma [fire_step] (the executable [fire] as a 44-constructor relation)
    and a family of invariants of [run], proved one after the other. *)
From Coq Require Import Arith List Bool Lia Permutation.
Import ListNotations.
Require Import C33_Lib C33_WQ.

Set Implicit Arguments.
Unset Strict Implicit.

Notation cnt := (count_occ Nat.eq_dec).

Definition b2n (b : bool) : nat := if b then 1 else 0.

(* ------------------------------------------------------------------ classification of program counters *)

(** worker pcs inside the critical section *)
Definition holds (p : qpc) : bool :=
  match p with QDec | QDecNotify | QChk | QWaitEnter | QTake | QNotify _ | QUnlock _ => true | _ => false end.
(** producer pcs inside the critical section *)
Definition pholds (p : ppc) : bool :=
  match p with
  | PAWaitEnter _ | PAPush _ | PANotify | PAUnlock | PFWaitEnter | PFUnlock | PDSet | PDNotify | PDUnlock => true
  | _ => false
  end.
(** the producer's current addTask(id) has not pushed yet *)
Definition inflight (p : ppc) (id : nat) : nat :=
  match p with
  | PALock i | PAWaitEnter i | PABlocked i | PAWoken i | PAPush i => b2n (i =? id)
  | _ => 0
  end.
(** worker has popped id and not yet executed it *)
Definition heldpre (id : nat) (p : qpc) : bool :=
  match p with QNotify t | QUnlock (Some t) | QExec t => t =? id | _ => false end.
(** worker has executed id and not yet deleted it *)
Definition isdel (id : nat) (p : qpc) : bool := match p with QDel t => t =? id | _ => false end.
(** worker owns one unit of pendingTasks *)
Definition counted (p : qpc) : bool :=
  match p with QNotify _ | QUnlock (Some _) | QExec _ | QDel _ | QTop true | QDec => true | _ => false end.
Definition is_gone (p : qpc) : bool := match p with QLeaving | QExited => true | _ => false end.
Definition active (p : qpc) : bool := negb (is_qblocked p || is_gone p).
Definition is_qnotify (p : qpc) : bool := match p with QNotify _ => true | _ => false end.
Definition is_qdecnotify (p : qpc) : bool := match p with QDecNotify => true | _ => false end.
Definition pfin (p : ppc) : bool := match p with PDNotify | PDUnlock | PJoin | PDone => true | _ => false end.
Definition pdes (p : ppc) : bool :=
  match p with PDLock | PDSet | PDNotify | PDUnlock | PJoin | PDone => true | _ => false end.
Definition is_owner (m : option thr) (t : thr) : bool :=
  match m, t with
  | Some Prod, Prod => true
  | Some (W a), W b => a =? b
  | _, _ => false
  end.

(* ------------------------------------------------------------------ small list lemmas *)

Lemma nth_upd' {A} i j (v d : A) l : i < length l -> nth j (upd i v l) d = if i =? j then v else nth j l d.
Proof. intros H. rewrite nth_upd. apply Nat.ltb_lt in H. rewrite H, andb_true_r. reflexivity. Qed.

Lemma cnt_cons t l id : cnt (t :: l) id = b2n (t =? id) + cnt l id.
Proof.
  cbn [count_occ]. destruct (Nat.eq_dec t id) as [->|N].
  - rewrite Nat.eqb_refl. reflexivity.
  - apply Nat.eqb_neq in N. rewrite N. reflexivity.
Qed.

Lemma cnt_snoc l t id : cnt (l ++ [t]) id = cnt l id + b2n (t =? id).
Proof. rewrite count_occ_app, cnt_cons. cbn [count_occ]. lia. Qed.

Lemma wake_one_length l : length (wake_one l) = length l.
Proof. induction l as [|[] r IH]; cbn [wake_one length]; auto. Qed.

(** pointwise effect of notify_one on the workers *)
Lemma wake_one_nth l w d :
  nth w (wake_one l) d = nth w l d \/ (nth w l d = QBlocked /\ nth w (wake_one l) d = QWoken).
Proof.
  revert w; induction l as [|p r IH]; intros w; cbn [wake_one]; auto.
  destruct p; destruct w; cbn [nth]; auto.
Qed.

Lemma wake_one_nth_f (f : qpc -> bool) l w d :
  f QWoken = f QBlocked -> f (nth w (wake_one l) d) = f (nth w l d).
Proof. intros E. destruct (wake_one_nth l w d) as [->|[-> ->]]; auto. Qed.

(** the first blocked worker is woken *)
Lemma wake_one_wakes l w d :
  nth w l d = QBlocked -> w < length l -> exists w', w' < length l /\ nth w' (wake_one l) d = QWoken.
Proof.
  revert w; induction l as [|p r IH]; intros w E L; cbn [length] in *; [lia|].
  destruct (is_qblocked p) eqn:B.
  - destruct p; try discriminate. exists 0. cbn [wake_one nth]. split; [lia|auto].
  - destruct w as [|w]; cbn [nth] in E. { subst p; discriminate. }
    destruct (IH w E ltac:(lia)) as (w' & L' & E').
    exists (S w'). split; [lia|]. destruct p; try discriminate; cbn [wake_one nth]; auto.
Qed.

Lemma wake_nth_f (f : qpc -> bool) l w :
  f QWoken = f QBlocked -> f (nth w (map wake l) QExited) = f (nth w l QExited).
Proof.
  intros E. destruct (Nat.lt_ge_cases w (length l)) as [L|L].
  - rewrite (nth_map_d wake l w QExited QExited L). destruct (nth w l QExited); cbn [wake]; auto.
  - rewrite !nth_overflow; auto. rewrite map_length; auto.
Qed.

Lemma forallb_false_nth (f : qpc -> bool) l d :
  forallb f l = false -> exists w, w < length l /\ f (nth w l d) = false.
Proof.
  induction l as [|p r IH]; cbn [forallb length]; intros H; [discriminate|].
  destruct (f p) eqn:E.
  - destruct (IH H) as (w & L & F). exists (S w). split; [lia|auto].
  - exists 0. split; [lia|auto].
Qed.

Lemma forallb_true_nth (f : qpc -> bool) l d w : forallb f l = true -> w < length l -> f (nth w l d) = true.
Proof.
  revert w; induction l as [|p r IH]; cbn [forallb length]; intros w H L; [lia|].
  apply andb_prop in H. destruct H as [H1 H2]. destruct w; cbn [nth]; auto. apply IH; auto; lia.
Qed.

(** changing one worker's pc changes a count by the obvious amount *)
Lemma countb_upd (f : qpc -> bool) l w p T :
  length l = T -> w < T ->
  countb (fun w' => f (nth w' (upd w p l) QExited)) T + b2n (f (nth w l QExited))
  = countb (fun w' => f (nth w' l QExited)) T + b2n (f p).
Proof.
  intros HT Hw. subst T.
  assert (Hsame : forall w', w' < length l -> w' <> w ->
            f (nth w' l QExited) = f (nth w' (upd w p l) QExited)).
  { intros w' _ N. rewrite nth_upd_neq; auto. }
  assert (Hat : f (nth w (upd w p l) QExited) = f p) by (rewrite nth_upd_eq; auto).
  destruct (f (nth w l QExited)) eqn:Eo; destruct (f p) eqn:En; cbn [b2n].
  - f_equal. apply countb_ext. intros w' L. destruct (Nat.eq_dec w' w) as [->|N].
    + rewrite Hat, Eo; auto. + symmetry; auto.
  - rewrite (@countb_clear (fun w' => f (nth w' l QExited)) (fun w' => f (nth w' (upd w p l) QExited)) (length l) w);
      auto; lia.
  - rewrite (@countb_set (fun w' => f (nth w' l QExited)) (fun w' => f (nth w' (upd w p l) QExited)) (length l) w);
      auto; lia.
  - f_equal. apply countb_ext. intros w' L. destruct (Nat.eq_dec w' w) as [->|N].
    + rewrite Hat, Eo; auto. + symmetry; auto.
Qed.

Lemma countb_wake_one (f : qpc -> bool) l T :
  f QWoken = f QBlocked ->
  countb (fun w => f (nth w (wake_one l) QExited)) T = countb (fun w => f (nth w l QExited)) T.
Proof. intros E. apply countb_ext. intros w _. apply wake_one_nth_f; auto. Qed.

Lemma countb_map_wake (f : qpc -> bool) l T :
  f QWoken = f QBlocked ->
  countb (fun w => f (nth w (map wake l) QExited)) T = countb (fun w => f (nth w l QExited)) T.
Proof. intros E. apply countb_ext. intros w _. apply wake_nth_f; auto. Qed.

Lemma countb_sub (f g : nat -> bool) n :
  (forall w, w < n -> g w = true -> f w = true) -> countb f n = 0 -> countb g n = 0.
Proof.
  intros H Z. apply countb_none. intros w L. pose proof (countb_zero f n Z w L) as F.
  destruct (g w) eqn:G; auto. rewrite (H w L G) in F. discriminate.
Qed.

(* ------------------------------------------------------------------ predicates of the model, in Prop form *)

Lemma mtx_free_true s : mtx_free s = true -> mtx s = None.
Proof. unfold mtx_free. destruct (mtx s); auto; discriminate. Qed.

Lemma wpred_false s : wpred s = false -> queue s = [] /\ finished s = false.
Proof.
  unfold wpred, qempty. intros H. apply orb_false_elim in H. destruct H as [H1 H2].
  destruct (queue s); [auto|discriminate].
Qed.

Lemma apred_false s : apred s = false -> qsize s <= length (queue s).
Proof. unfold apred. intros H. apply Nat.ltb_ge in H. exact H. Qed.

Lemma fpred_true s : fpred s = true -> pending s = 0.
Proof. unfold fpred. intros H. apply Nat.eqb_eq in H. exact H. Qed.

Lemma fpred_false s : fpred s = false -> pending s <> 0.
Proof. unfold fpred. intros H. apply Nat.eqb_neq in H. exact H. Qed.

Lemma chk_leave s : finished s && qempty s = true -> finished s = true /\ queue s = [].
Proof.
  intros H. apply andb_prop in H. destruct H as [H1 H2]. split; auto.
  unfold qempty in H2. destruct (queue s); [auto|discriminate].
Qed.

Lemma pholds_wake_prod p : pholds (wake_prod p) = pholds p.
Proof. destruct p; reflexivity. Qed.
Lemma pfin_wake_prod p : pfin (wake_prod p) = pfin p.
Proof. destruct p; reflexivity. Qed.
Lemma pdes_wake_prod p : pdes (wake_prod p) = pdes p.
Proof. destruct p; reflexivity. Qed.
Lemma inflight_wake_prod p id : inflight (wake_prod p) id = inflight p id.
Proof. destruct p; reflexivity. Qed.

(* ------------------------------------------------------------------ [fire] as a relation *)

Inductive step (s : st) : event -> st -> Prop :=
  (* workers *)
  | W_start w : w < nthreads s -> pcw s w = QStart -> step s (W w, AStart) (set_pc s w (QTop false))
  | W_lock_dec w : w < nthreads s -> pcw s w = QTop true -> mtx s = None ->
      step s (W w, ALock) (set_pc (set_mtx s (Some (W w))) w QDec)
  | W_lock_chk w : w < nthreads s -> pcw s w = QTop false -> mtx s = None ->
      step s (W w, ALock) (set_pc (set_mtx s (Some (W w))) w QChk)
  | W_dec w : w < nthreads s -> pcw s w = QDec ->
      step s (W w, ADec) (set_pc (set_pending s (pending s - 1)) w QDecNotify)
  | W_decnotify w : w < nthreads s -> pcw s w = QDecNotify ->
      step s (W w, ADecNotify) (set_pc (set_pp s (wake_prod (pp s))) w QChk)
  | W_chk_leave w : w < nthreads s -> pcw s w = QChk -> finished s = true -> queue s = [] ->
      step s (W w, AChk) (set_pc (set_mtx s None) w QLeaving)
  | W_chk_stay w : w < nthreads s -> pcw s w = QChk -> finished s && qempty s = false ->
      step s (W w, AChk) (set_pc s w QWaitEnter)
  | W_wait_pass w : w < nthreads s -> pcw s w = QWaitEnter -> wpred s = true ->
      step s (W w, AWaitEnter) (set_pc s w QTake)
  | W_wait_block w : w < nthreads s -> pcw s w = QWaitEnter -> queue s = [] -> finished s = false ->
      step s (W w, AWaitEnter) (set_pc (set_mtx s None) w QBlocked)
  | W_waitexit w : w < nthreads s -> pcw s w = QWoken -> mtx s = None -> wpred s = true ->
      step s (W w, AWaitExit) (set_pc (set_mtx s (Some (W w))) w QTake)
  | W_spurexit w : w < nthreads s -> pcw s w = QBlocked -> mtx s = None -> wpred s = true ->
      step s (W w, ASpurExit) (set_pc (set_mtx s (Some (W w))) w QTake)
  | W_recheck w : w < nthreads s -> pcw s w = QWoken -> mtx s = None -> queue s = [] -> finished s = false ->
      step s (W w, ARecheck) (set_pc s w QBlocked)
  | W_pop w t r : w < nthreads s -> pcw s w = QTake -> queue s = t :: r ->
      step s (W w, APop) (set_pc (set_queue s r) w (QNotify t))
  | W_take_empty w : w < nthreads s -> pcw s w = QTake -> queue s = [] ->
      step s (W w, ANotifyFull) (set_pc (set_pp s (wake_prod (pp s))) w (QUnlock None))
  | W_notify w t : w < nthreads s -> pcw s w = QNotify t ->
      step s (W w, ANotifyFull) (set_pc (set_pp s (wake_prod (pp s))) w (QUnlock (Some t)))
  | W_unlock_none w : w < nthreads s -> pcw s w = QUnlock None ->
      step s (W w, AUnlock) (set_pc (set_mtx s None) w (QTop false))
  | W_unlock_some w t : w < nthreads s -> pcw s w = QUnlock (Some t) ->
      step s (W w, AUnlock) (set_pc (set_mtx s None) w (QExec t))
  | W_exec w t : w < nthreads s -> pcw s w = QExec t ->
      step s (W w, AExec t) (set_pc (add_executed s t) w (QDel t))
  | W_del w t : w < nthreads s -> pcw s w = QDel t ->
      step s (W w, ADel t) (set_pc (add_deleted s t) w (QTop true))
  | W_exit w : w < nthreads s -> pcw s w = QLeaving -> step s (W w, AExit) (set_pc s w QExited)
  (* producer: addTask *)
  | P_addbegin id rest : pp s = PIdle -> prog s = Add id :: rest ->
      step s (Prod, PAddBegin id) (set_pp (set_prog s rest) (PALock id))
  | P_flushbegin rest : pp s = PIdle -> prog s = Flush :: rest ->
      step s (Prod, PFlushBegin) (set_pp (set_prog s rest) PFLock)
  | P_dbegin : pp s = PIdle -> prog s = [] -> step s (Prod, DBegin) (set_pp s PDLock)
  | P_alock id : pp s = PALock id -> mtx s = None ->
      step s (Prod, PALockA) (set_pp (set_mtx s (Some Prod)) (PAWaitEnter id))
  | P_await_pass id : pp s = PAWaitEnter id -> apred s = true ->
      step s (Prod, PAWaitEnterA) (set_pp s (PAPush id))
  | P_await_block id : pp s = PAWaitEnter id -> qsize s <= length (queue s) ->
      step s (Prod, PAWaitEnterA) (set_pp (set_mtx s None) (PABlocked id))
  | P_awaitexit id : pp s = PAWoken id -> mtx s = None -> apred s = true ->
      step s (Prod, PAWaitExitA) (set_pp (set_mtx s (Some Prod)) (PAPush id))
  | P_aspur id : pp s = PABlocked id -> mtx s = None -> apred s = true ->
      step s (Prod, PASpurExitA) (set_pp (set_mtx s (Some Prod)) (PAPush id))
  | P_arecheck id : pp s = PAWoken id -> mtx s = None -> qsize s <= length (queue s) ->
      step s (Prod, PARecheckA) (set_pp s (PABlocked id))
  | P_push id : pp s = PAPush id ->
      step s (Prod, PAPushA) (set_pp (set_pending (set_queue s (queue s ++ [id])) (S (pending s))) PANotify)
  | P_anotify : pp s = PANotify ->
      step s (Prod, PANotifyA) (set_pp (set_wpcs s (wake_one (wpcs s))) PAUnlock)
  | P_aunlock : pp s = PAUnlock -> step s (Prod, PAUnlockA) (set_pp (set_mtx s None) PIdle)
  (* producer: flush *)
  | P_flock : pp s = PFLock -> mtx s = None -> step s (Prod, PFLockA) (set_pp (set_mtx s (Some Prod)) PFWaitEnter)
  | P_fwait_pass : pp s = PFWaitEnter -> pending s = 0 -> step s (Prod, PFWaitEnterA) (set_pp s PFUnlock)
  | P_fwait_block : pp s = PFWaitEnter -> pending s <> 0 ->
      step s (Prod, PFWaitEnterA) (set_pp (set_mtx s None) PFBlocked)
  | P_fwaitexit : pp s = PFWoken -> mtx s = None -> pending s = 0 ->
      step s (Prod, PFWaitExitA) (set_pp (set_mtx s (Some Prod)) PFUnlock)
  | P_fspur : pp s = PFBlocked -> mtx s = None -> pending s = 0 ->
      step s (Prod, PFSpurExitA) (set_pp (set_mtx s (Some Prod)) PFUnlock)
  | P_frecheck : pp s = PFWoken -> mtx s = None -> pending s <> 0 ->
      step s (Prod, PFRecheckA) (set_pp s PFBlocked)
  | P_funlock : pp s = PFUnlock -> step s (Prod, PFUnlockA) (set_pp (set_mtx s None) PIdle)
  (* producer: destructor *)
  | P_dlock : pp s = PDLock -> mtx s = None -> step s (Prod, DLock) (set_pp (set_mtx s (Some Prod)) PDSet)
  | P_dset : pp s = PDSet ->
      step s (Prod, DSet)
        (mkst (mtx s) (queue s) (pending s) true (qsize s) (wpcs s) PDNotify (prog s) (executed s) (deleted s))
  | P_dnotify : pp s = PDNotify -> step s (Prod, DNotify) (set_pp (set_wpcs s (map wake (wpcs s))) PDUnlock)
  | P_dunlock : pp s = PDUnlock -> step s (Prod, DUnlock) (set_pp (set_mtx s None) PJoin)
  | P_djoined : pp s = PJoin -> forallb is_exited (wpcs s) = true -> step s (Prod, DJoined) (set_pp s PDone).

Ltac prep_conds :=
  repeat match goal with
  | H : _ && _ = true |- _ => apply andb_prop in H; destruct H
  | H : negb _ = true |- _ => apply negb_true_iff in H
  | H : mtx_free _ = true |- _ => apply mtx_free_true in H
  | H : (_ =? _) = true |- _ => apply Nat.eqb_eq in H
  | H : wpred _ = false |- _ => apply wpred_false in H; destruct H
  | H : apred _ = false |- _ => apply apred_false in H
  | H : fpred _ = true |- _ => apply fpred_true in H
  | H : fpred _ = false |- _ => apply fpred_false in H
  end.

Ltac split_fire H :=
  repeat match type of H with
  | (if ?c then _ else _) = Some _ => destruct c eqn:?
  | match ?x with _ => _ end = Some _ => destruct x eqn:?
  end; try discriminate H.

Lemma fire_step s e s' : fire s e = Some s' -> step s e s'.
Proof.
  destruct e as [[|w] a]; unfold fire; cbn [fst snd].
  - unfold fire_p. destruct (pp s) eqn:Epp; destruct a; cbv beta iota; intros H; try discriminate H;
      split_fire H; injection H as <-; prep_conds; subst; try (econstructor; eauto; fail).
  - unfold fire_w. destruct (w <? nthreads s) eqn:Ew; cbn [negb]; cbv beta iota; [|discriminate].
    apply Nat.ltb_lt in Ew.
    destruct (pcw s w) eqn:Epc; destruct a; cbv beta iota; intros H; try discriminate H;
      split_fire H; injection H as <-; prep_conds; subst; try (econstructor; eauto; fail).
    + destruct dec; constructor; auto.
    + constructor; auto.
      match goal with H : qempty s = true |- _ => unfold qempty in H; destruct (queue s); [auto|discriminate] end.
Qed.

(* ------------------------------------------------------------------ A. [enabled] is the graph of [fire] *)

Definition cands (s : st) (t : thr) : list act := match t with Prod => cand_p s | W w => cand_w s w end.

Lemma step_cand s e s' :
  step s e s' -> In (snd e) (cands s (fst e)) /\ match fst e with W w => w < nthreads s | Prod => True end.
Proof.
  destruct 1; cbn [fst snd cands]; unfold cand_w, cand_p;
    repeat match goal with
    | H : pcw _ _ = _ |- _ => rewrite H
    | H : pp _ = _ |- _ => rewrite H
    | H : prog _ = _ |- _ => rewrite H
    end; cbn [In]; auto.
Qed.

Lemma in_succs_of s t a acts s' : In a acts -> fire s (t, a) = Some s' -> In ((t, a), s') (succs_of s t acts).
Proof. intros I F. unfold succs_of. apply in_flat_map. exists a. split; auto. rewrite F. left; reflexivity. Qed.

Lemma succs_of_in s t acts e s' : In (e, s') (succs_of s t acts) -> fire s e = Some s'.
Proof.
  unfold succs_of. intros H. apply in_flat_map in H. destruct H as (a & _ & H).
  destruct (fire s (t, a)) eqn:F; [|destruct H]. destruct H as [H|[]]. injection H as <- <-. exact F.
Qed.

Theorem wq_enabled_complete s e s' : fire s e = Some s' -> In (e, s') (enabled s).
Proof.
  intros F. destruct (step_cand (fire_step F)) as [I L].
  destruct e as [[|w] a]; cbn [fst snd cands] in *; unfold enabled; apply in_or_app.
  - left. apply in_succs_of; auto.
  - right. apply in_flat_map. exists w. split. { apply in_seq. lia. } apply in_succs_of; auto.
Qed.

Theorem wq_enabled_sound s e s' : In (e, s') (enabled s) -> fire s e = Some s'.
Proof.
  unfold enabled. intros H. apply in_app_or in H. destruct H as [H|H].
  - eapply succs_of_in; eauto.
  - apply in_flat_map in H. destruct H as (w & _ & H). eapply succs_of_in; eauto.
Qed.

(* ------------------------------------------------------------------ invariants of [run] *)

Ltac sts :=
  cbn [mtx queue pending finished qsize wpcs pp prog executed deleted
       set_pc set_mtx set_pp set_queue set_pending set_prog set_wpcs add_executed add_deleted] in *.

(** 1. sizes *)
Lemma inv_sizes T qs pr tr s : run T qs pr tr s -> nthreads s = T /\ qsize s = qs.
Proof.
  induction 1 as [|tr s e s' R [IH1 IH2] F].
  - unfold nthreads, init; cbn. rewrite repeat_length; auto.
  - apply fire_step in F.
    destruct F; unfold nthreads in *; sts; rewrite ?upd_length, ?wake_one_length, ?map_length; auto.
Qed.

Lemma init_pcw T qs pr w : w < T -> pcw (init T qs pr) w = QStart.
Proof. intros L. unfold pcw, init; cbn [wpcs]. apply nth_repeat_lt; auto. Qed.

(** 2. mutex ownership *)
Record MX (T : nat) (s : st) : Prop := {
  mx_p : pholds (pp s) = is_owner (mtx s) Prod;
  mx_w : forall w, w < T -> holds (pcw s w) = is_owner (mtx s) (W w);
  mx_lt : forall w, mtx s = Some (W w) -> w < T }.

Lemma is_owner_W m w : true = is_owner m (W w) -> m = Some (W w).
Proof.
  destruct m as [[|a]|]; cbn [is_owner]; try discriminate. intros H. symmetry in H. apply Nat.eqb_eq in H. subst; auto.
Qed.
Lemma is_owner_P m : true = is_owner m Prod -> m = Some Prod.
Proof. destruct m as [[|a]|]; cbn [is_owner]; try discriminate; auto. Qed.

Lemma inv_mx T qs pr tr s : run T qs pr tr s -> MX T s.
Proof.
  induction 1 as [|tr s e s' R IH F].
  - constructor; cbn [init mtx pp pholds is_owner]; auto; try discriminate.
    intros w L. rewrite init_pcw; auto.
  - destruct (inv_sizes R) as [HT Hq]. apply fire_step in F. destruct IH as [IHp IHw IHlt].
    destruct F.
    (* worker steps *)
    1-20: match goal with Hw : ?w < nthreads ?s, E : pcw ?s ?w = _ |- _ =>
            pose proof (IHw w ltac:(lia)) as Q; rewrite E in Q; cbn [holds] in Q;
            try apply is_owner_W in Q
          end;
          constructor; unfold pcw, nthreads in *; sts;
          repeat match goal with Hm : mtx _ = _ |- _ => rewrite Hm in *; clear Hm end;
          [ rewrite ?pholds_wake_prod; cbn [is_owner] in *; auto
          | intros w0 L0; rewrite nth_upd' by lia; destruct (w =? w0) eqn:Eq;
            [ apply Nat.eqb_eq in Eq; subst w0; cbn [holds is_owner]; rewrite ?Nat.eqb_refl; auto
            | rewrite (IHw w0 L0); cbn [is_owner]; rewrite ?Eq; auto ]
          | intros w0 Hm0; try discriminate; try (injection Hm0 as <-; lia); auto ].
    (* producer steps *)
    all: match goal with E : pp _ = _ |- _ =>
            rewrite E in IHp; cbn [pholds] in IHp; try apply is_owner_P in IHp
          end;
          constructor; unfold pcw, nthreads in *; sts;
          repeat match goal with Hm : mtx _ = _ |- _ => rewrite Hm in *; clear Hm end;
          [ cbn [pholds is_owner] in *; auto
          | intros w0 L0; rewrite ?wake_one_nth_f, ?wake_nth_f by reflexivity;
            rewrite (IHw w0 L0); cbn [is_owner]; auto
          | intros w0 Hm0; try discriminate; auto ].
Qed.

(** 3. [finished] is set exactly during the tail of the destructor; the destructor runs after the whole program *)
Definition FIN (s : st) : Prop := finished s = pfin (pp s) /\ (pdes (pp s) = true -> prog s = []).

Lemma inv_fin T qs pr tr s : run T qs pr tr s -> FIN s.
Proof.
  induction 1 as [|tr s e s' R [IH1 IH2] F].
  - split; cbn; auto; discriminate.
  - apply fire_step in F.
    destruct F; split; sts; rewrite ?pfin_wake_prod, ?pdes_wake_prod; auto;
      match goal with E : pp _ = _ |- _ => rewrite E in *; cbn [pfin pdes] in * end; auto; discriminate.
Qed.

(** 4. accounting of task ids *)
Definition ACC (T : nat) (pr : list op) (s : st) : Prop :=
  forall id,
    cnt (adds (prog s)) id + inflight (pp s) id + cnt (queue s) id
      + countb (fun w => heldpre id (pcw s w)) T + cnt (executed s) id = cnt (adds pr) id
    /\ cnt (executed s) id = countb (fun w => isdel id (pcw s w)) T + cnt (deleted s) id.

Ltac eqb_cases :=
  repeat match goal with
  | |- context [b2n (?a =? ?b)] => destruct (a =? b)
  | H : context [b2n (?a =? ?b)] |- _ => destruct (a =? b)
  end; cbn [b2n] in *.

Lemma inv_acc T qs pr tr s : run T qs pr tr s -> ACC T pr s.
Proof.
  induction 1 as [|tr s e s' R IH F].
  - intros id. cbn [init prog pp queue executed deleted inflight count_occ].
    rewrite !countb_none by (intros w L; rewrite init_pcw; auto). lia.
  - destruct (inv_sizes R) as [HT Hq]. apply fire_step in F. intros id. specialize (IH id). destruct IH as [IH1 IH2].
    destruct F.
    1-20: match goal with Hw : ?w < nthreads ?s, E : pcw ?s ?w = _ |- context [set_pc _ ?w ?p] =>
            pose proof (@countb_upd (heldpre id) (wpcs s) w p T HT ltac:(lia)) as C1;
            pose proof (@countb_upd (isdel id) (wpcs s) w p T HT ltac:(lia)) as C2;
            unfold pcw, nthreads in *; rewrite E in C1, C2
          end;
          cbn [heldpre isdel b2n] in C1, C2; sts; rewrite ?inflight_wake_prod;
          repeat match goal with Hq : queue _ = _ |- _ => rewrite Hq in *; clear Hq end;
          rewrite ?cnt_cons in *; eqb_cases; lia.
    all: unfold pcw, nthreads in *; sts;
         match goal with E : pp _ = _ |- _ => rewrite E in *; clear E end;
         repeat match goal with Hp : prog _ = _ |- _ => rewrite Hp in *; clear Hp end;
         cbn [inflight adds] in *;
         rewrite ?countb_wake_one, ?countb_map_wake by reflexivity;
         rewrite ?cnt_snoc, ?cnt_cons in *; eqb_cases; lia.
Qed.

(** 5. pendingTasks *)
Definition PEND (T : nat) (s : st) : Prop :=
  pending s = length (queue s) + countb (fun w => counted (pcw s w)) T.

Lemma inv_pend T qs pr tr s : run T qs pr tr s -> PEND T s.
Proof.
  unfold PEND. induction 1 as [|tr s e s' R IH F].
  - cbn [init pending queue length]. rewrite countb_none by (intros w L; rewrite init_pcw; auto). auto.
  - destruct (inv_sizes R) as [HT Hq]. apply fire_step in F.
    destruct F.
    1-20: match goal with Hw : ?w < nthreads ?s, E : pcw ?s ?w = _ |- context [set_pc _ ?w ?p] =>
            pose proof (@countb_upd counted (wpcs s) w p T HT ltac:(lia)) as C1;
            unfold pcw, nthreads in *; rewrite E in C1
          end;
          cbn [counted b2n] in C1; sts;
          repeat match goal with Hq : queue _ = _ |- _ => rewrite Hq in *; clear Hq end;
          cbn [length] in *; lia.
    all: unfold pcw, nthreads in *; sts;
         rewrite ?countb_wake_one, ?countb_map_wake by reflexivity;
         rewrite ?app_length; cbn [length]; lia.
Qed.

(** 6. a worker is blocked although its predicate holds only between "finished = true" and notify_all;
       a worker leaves only when finished and the queue is empty (and nothing is pushed after that) *)
Definition BLK (T : nat) (s : st) : Prop :=
  (forall w, w < T -> pcw s w = QBlocked -> finished s = false \/ pp s = PDNotify) /\
  (forall w, w < T -> is_gone (pcw s w) = true -> finished s = true /\ queue s = []).

Lemma wake_one_blocked l w d : nth w (wake_one l) d = QBlocked -> nth w l d = QBlocked.
Proof. destruct (wake_one_nth l w d) as [->|[_ ->]]; auto; discriminate. Qed.

Lemma map_wake_not_blocked l w : nth w (map wake l) QExited = QBlocked -> False.
Proof.
  destruct (Nat.lt_ge_cases w (length l)) as [L|L].
  - rewrite (nth_map_d wake l w QExited QExited L). destruct (nth w l QExited); discriminate.
  - rewrite nth_overflow; [discriminate|]. rewrite map_length; auto.
Qed.

Lemma inv_blk T qs pr tr s : run T qs pr tr s -> BLK T s.
Proof.
  induction 1 as [|tr s e s' R IH F].
  - split; intros w L; rewrite init_pcw; auto; discriminate.
  - destruct (inv_sizes R) as [HT Hq]. destruct (inv_fin R) as [HF _]. apply fire_step in F.
    destruct IH as [IHa IHb].
    destruct F.
    1-20: match goal with Hw : ?w < nthreads ?s, E : pcw ?s ?w = _ |- _ =>
            split; intros w0 L0; unfold pcw, nthreads in *; sts; rewrite nth_upd' by lia;
            (destruct (w =? w0) eqn:Eq;
             [ apply Nat.eqb_eq in Eq; subst w0; cbn [is_gone]; intros Hb; try discriminate Hb; auto;
               try (apply (IHb w); [lia | rewrite E; reflexivity])
             | intros Hb ])
          end;
          try (destruct (IHa w0 L0 Hb) as [Hf|Hp]; [left; exact Hf | right; rewrite Hp; reflexivity]);
          try (destruct (IHb w0 L0 Hb) as [Hf Hq0]; split; auto; congruence).
    all: match goal with E : pp _ = _ |- _ =>
           split; intros w0 L0; unfold pcw, nthreads in *; sts;
           [ intros Hb; try (right; reflexivity);
             try apply wake_one_blocked in Hb; try (exfalso; exact (map_wake_not_blocked Hb));
             destruct (IHa w0 L0 Hb) as [Hf|Hp]; [left; exact Hf | congruence]
           | rewrite ?wake_one_nth_f, ?wake_nth_f by reflexivity;
             intros Hg; destruct (IHb w0 L0 Hg) as [Hf Hq0];
             rewrite E in HF; cbn [pfin] in HF; try congruence; split; auto ]
         end.
Qed.
