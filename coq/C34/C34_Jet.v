(** C34: the gradients of the sphere's and cylinder's implicit functions are the derivatives of those functions along
    every line (Coquelicot [is_derive]); separate file because loading Coquelicot changes the behaviour of nra. *)
From Coq Require Import ZArith Reals Lra.
From Coquelicot Require Import Coquelicot.
Require Import Num Vec Tactics C34_Model.
Local Open Scope R_scope.
Ltac dv := repeat match goal with v : Vec3 R |- _ => destruct v as [[? ?] ?] end.
Ltac gunf := cbv [two sp_value sp_gradient cy_value cy_gradient]; vunf.

Theorem sp_gradient_is_jet r x d :
  is_derive (fun t => sp_value ROps r (v3_add ROps x (v3_scale ROps t d))) 0 (v3_dot ROps (sp_gradient ROps x) d).
Proof. dv. gunf. simpl IZR. auto_derive; auto. ring. Qed.

Theorem cy_gradient_is_jet r x d :
  is_derive (fun t => cy_value ROps r (v3_add ROps x (v3_scale ROps t d))) 0 (v3_dot ROps (cy_gradient ROps x) d).
Proof. dv. gunf. simpl IZR. auto_derive; auto. ring. Qed.
