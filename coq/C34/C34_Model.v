(** C34 (analytic shapes only): executable model of the surface queries of ContactGeometry::HalfSpace, ::Sphere,
    ::Cylinder and ::Brick, hand-written from SimTKmath/Geometry/src/ContactGeometry_HalfSpace.cpp, _Sphere.cpp,
    _Cylinder.cpp, _Brick.cpp, ContactGeometryImpl.h and Geo_Box.h (findSupportPoint) as they are in /repo now.

    Conventions of the code: the implicit function is positive inside, so its gradient points inward and the outward
    unit normal is -grad/|grad|; the half space occupies x > 0 of its frame (outward normal -x); the cylinder is
    infinite along z.  Ellipsoid (iterative), torus, smooth height map and meshes are not modelled.
    Generic in [NumOps]; no proofs in this file. *)
From Coq Require Import ZArith List Bool.
Require Import Num Vec.

Section M. Context {T:Type} (K:NumOps T).
Local Notation "x + y" := (nadd K x y). Local Notation "x * y" := (nmul K x y). Local Notation "x - y" := (nsub K x y).
Local Notation "x / y" := (ndiv K x y). Local Notation "- x" := (nopp K x).
Local Notation "0" := (n0 K). Local Notation "1" := (n1 K).
Local Notation "x <=? y" := (nleb K x y). Local Notation "x <? y" := (nltb K x y).

Definition two : T := nofZ K 2%Z.
(** UnitVec3(v): v * (1/|v|) *)
Definition v3_unit (v:Vec3 T) : Vec3 T := v3_scale K (1 / v3_norm K v) v.
Definition ray_at (o d:Vec3 T) (s:T) : Vec3 T := v3_add K o (v3_scale K s d).

(** ** half space: findNearestPoint -> (point, inside, normal); intersectsRay -> Some (distance, normal) *)
Definition hs_normal : Vec3 T := (nopp K (n1 K), 0, 0).
Definition hs_nearest (p:Vec3 T) : Vec3 T * bool * Vec3 T :=
  let '(x, y, z) := p in ((0, y, z), 0 <=? x, hs_normal).
Definition hs_ray (sig:T) (o d:Vec3 T) : option (T * Vec3 T) :=
  if nabs K (v3_0 d) <? sig then None
  else let t := v3_0 o / v3_0 d in
       if 0 <? t then None else Some (- t, hs_normal).

(** ** sphere of radius r centred at the origin *)
Definition sp_value (r:T) (x:Vec3 T) : T := - (v3_dot K x x) + r * r.
Definition sp_gradient (x:Vec3 T) : Vec3 T := v3_scale K (- two) x.
Definition sp_nearest (r:T) (p:Vec3 T) : Vec3 T * bool * Vec3 T :=
  let n := v3_unit p in (v3_scale K r n, v3_normSqr K p <=? r * r, n).
Definition sp_support (r:T) (d:Vec3 T) : Vec3 T := v3_scale K r d.
(** the quadratic shared by sphere and cylinder: with b = -(d.o), c = |o|^2 - r^2 the distance along a unit direction *)
Definition quad_ray (b c:T) : option T :=
  if 0 <? c then
    (if b <=? 0 then None
     else let dd := b * b - c in if dd <? 0 then None else Some (b - nsqrt K dd))
  else let dd := b * b - c in if dd <? 0 then None else Some (b + nsqrt K dd).
Definition sp_ray (r:T) (o d:Vec3 T) : option (T * Vec3 T) :=
  match quad_ray (- (v3_dot K d o)) (v3_normSqr K o - r * r) with
  | None => None
  | Some dist => Some (dist, v3_unit (ray_at o d dist))
  end.

(** ** cylinder of radius r about the z axis (infinite); nearest point for a point off the axis *)
Definition cy_value (r:T) (x:Vec3 T) : T := - (v3_0 x) * v3_0 x - v3_1 x * v3_1 x + r * r.
Definition cy_gradient (x:Vec3 T) : Vec3 T := (- two * v3_0 x, - two * v3_1 x, 0).
(** calcSurfaceUnitNormal = UnitVec3(-gradient) where the gradient does not vanish *)
Definition cy_normal (x:Vec3 T) : Vec3 T := v3_unit (v3_neg K (cy_gradient x)).
Definition cy_nearest (r:T) (p:Vec3 T) : Vec3 T * bool * Vec3 T :=
  let n := cy_normal p in
  (v3_add K (v3_scale K r n) (0, 0, v3_2 p), v3_0 p * v3_0 p + v3_1 p * v3_1 p <=? r * r, n).
Definition cy_ray (r:T) (o d:Vec3 T) : option (T * Vec3 T) :=
  let xyv : Vec3 T := (v3_0 d, v3_1 d, 0) in
  let nrm := v3_norm K xyv in
  let xyd := v3_scale K (1 / nrm) xyv in
  let xyo : Vec3 T := (v3_0 o, v3_1 o, 0) in
  match quad_ray (- (v3_dot K xyd xyo)) (v3_normSqr K xyo - r * r) with
  | None => None
  | Some xyDist => Some (xyDist / nrm, v3_unit (ray_at xyo xyd xyDist))
  end.

(** ** brick with half lengths h: support point (Geo::Box::findSupportPoint) and bounding-sphere radius *)
Definition bx_support (h d:Vec3 T) : Vec3 T :=
  let '(hx, hy, hz) := h in let '(dx, dy, dz) := d in
  (if dx <? 0 then - hx else hx, if dy <? 0 then - hy else hy, if dz <? 0 then - hz else hz).
Definition bx_bsphere (h:Vec3 T) : T := v3_norm K h.
End M.
