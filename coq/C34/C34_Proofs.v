(** C34 proofs (analytic shapes, over the reals): nearest point is on the surface and closest, inside flag = sign of the
    implicit function, unit normals, gradient is the derivative of the implicit function, support points maximise,
    bounding spheres contain, ray queries return the first hit.  Partial: half space, sphere, cylinder, brick only. *)
From Coq Require Import ZArith Reals Lra Lia List Psatz Bool.
Require Import Num Vec Tactics C34_Model.
Local Open Scope R_scope.

Ltac dv := repeat match goal with
  | v : Vec3 R |- _ => destruct v as [[? ?] ?]
  end.
Ltac gunf := cbv [two v3_unit ray_at hs_normal hs_nearest sp_value sp_gradient sp_nearest sp_support
  cy_value cy_gradient cy_normal cy_nearest bx_support bx_bsphere]; vunf.

Lemma sq_nonneg x : 0 <= x * x.
Proof. pose proof (Rle_0_sqr x) as H. unfold Rsqr in H. exact H. Qed.

(** ** vector facts *)
Lemma normSqr_nonneg u : 0 <= v3_normSqr ROps u.
Proof. dv. vunf. nra. Qed.
Lemma norm_sq u : v3_norm ROps u * v3_norm ROps u = v3_normSqr ROps u.
Proof. unfold v3_norm. cbn [nsqrt ROps]. apply sqrt_sqrt, normSqr_nonneg. Qed.
Lemma norm_nonneg u : 0 <= v3_norm ROps u.
Proof. unfold v3_norm. cbn [nsqrt ROps]. apply sqrt_pos. Qed.
Lemma norm_pos u : 0 < v3_normSqr ROps u -> 0 < v3_norm ROps u.
Proof. intros H. unfold v3_norm. cbn [nsqrt ROps]. apply sqrt_lt_R0; auto. Qed.
Lemma normSqr_scale a u : v3_normSqr ROps (v3_scale ROps a u) = a * a * v3_normSqr ROps u.
Proof. dv. vunf. ring. Qed.
(** Lagrange identity gives Cauchy-Schwarz *)
Lemma cauchy_schwarz a b : v3_dot ROps a b * v3_dot ROps a b <= v3_normSqr ROps a * v3_normSqr ROps b.
Proof. destruct a as [[a0 a1] a2], b as [[b0 b1] b2]. vunf.
  assert (E : (a0 * a0 + a1 * a1 + a2 * a2) * (b0 * b0 + b1 * b1 + b2 * b2) - (a0 * b0 + a1 * b1 + a2 * b2) * (a0 * b0 + a1 * b1 + a2 * b2)
              = (a1 * b2 - a2 * b1) * (a1 * b2 - a2 * b1) + (a2 * b0 - a0 * b2) * (a2 * b0 - a0 * b2) + (a0 * b1 - a1 * b0) * (a0 * b1 - a1 * b0)) by ring.
  pose proof (Rle_0_sqr (a1 * b2 - a2 * b1)). pose proof (Rle_0_sqr (a2 * b0 - a0 * b2)). pose proof (Rle_0_sqr (a0 * b1 - a1 * b0)).
  unfold Rsqr in *. lra. Qed.
Lemma dot_le_norms a b s r : 0 <= s -> 0 <= r -> s * s = v3_normSqr ROps a -> r * r = v3_normSqr ROps b -> v3_dot ROps a b <= s * r.
Proof. intros Hs Hr Es Er. pose proof (cauchy_schwarz a b) as C. rewrite <- Es, <- Er in C.
  set (x := v3_dot ROps a b) in *. assert (0 <= s * r) by (apply Rmult_le_pos; auto).
  destruct (Rle_or_lt x (s * r)); auto. exfalso. assert (s * r * (s * r) < x * x) by nra. nra. Qed.
Lemma unit_normSqr u : 0 < v3_normSqr ROps u -> v3_normSqr ROps (v3_unit ROps u) = 1.
Proof. intros H. unfold v3_unit. rewrite normSqr_scale, <- norm_sq. pose proof (norm_pos u H). cbn [ndiv n1 ROps]. field; lra. Qed.
Lemma unit_dot u : 0 < v3_normSqr ROps u -> v3_dot ROps u (v3_unit ROps u) = v3_norm ROps u.
Proof. intros H. pose proof (norm_pos u H) as P. pose proof (norm_sq u) as E. unfold v3_unit. set (s := v3_norm ROps u) in *.
  assert (D : v3_dot ROps u (v3_scale ROps (ndiv ROps (n1 ROps) s) u) = (1 / s) * v3_normSqr ROps u) by (dv; vunf; ring).
  rewrite D, <- E. field; lra. Qed.
Definition dist2 (a b:Vec3 R) : R := v3_normSqr ROps (v3_sub ROps a b).
Lemma dist2_expand a b : dist2 a b = v3_normSqr ROps a - 2 * v3_dot ROps a b + v3_normSqr ROps b.
Proof. unfold dist2. dv. vunf. ring. Qed.

(** ** half space (x > 0 of its frame) *)
Theorem hs_nearest_is_closest p : let '(q, inside, n) := hs_nearest ROps p in
  v3_0 q = 0 /\ (forall s, v3_0 s = 0 -> dist2 p q <= dist2 p s) /\ (inside = true <-> 0 <= v3_0 p) /\ v3_normSqr ROps n = 1.
Proof. destruct p as [[x y] z]. cbn [hs_nearest]. repeat split.
  - intros [[a b] c] H. cbn in H. subst a. unfold dist2. vunf.
    pose proof (Rle_0_sqr (y - b)). pose proof (Rle_0_sqr (z - c)). unfold Rsqr in *. nra.
  - cbn [nleb n0 ROps v3_0]. apply Rleb_true.
  - cbn [nleb n0 ROps v3_0]. apply Rleb_true.
  - gunf. ring. Qed.
(** ray: the returned distance is the first (and only) crossing of the surface x = 0 *)
Theorem hs_ray_first_hit sig o d : 0 < sig ->
  match hs_ray ROps sig o d with
  | Some (dist, n) => 0 <= dist /\ v3_0 (ray_at ROps o d dist) = 0 /\ (forall s, 0 <= s < dist -> v3_0 (ray_at ROps o d s) <> 0)
                      /\ v3_normSqr ROps n = 1
  | None => sig <= Rabs (v3_0 d) -> forall s, 0 <= s -> v3_0 (ray_at ROps o d s) <> 0
  end.
Proof. intros Hs. destruct o as [[ox oy] oz], d as [[dx dy] dz]. unfold hs_ray. cbn [v3_0 nabs nltb ndiv nopp n0 ROps].
  destruct (Rltb (Rabs dx) sig) eqn:A.
  - apply Rltb_true in A. intros. lra.
  - apply Rltb_false in A. assert (D : dx <> 0) by (intros E; subst; rewrite Rabs_R0 in A; lra).
    destruct (Rltb 0 (ox / dx)) eqn:B.
    + apply Rltb_true in B. intros _ s S. gunf. intros E.
      assert (ox / dx = - s) by (field_simplify_eq; auto; lra). lra.
    + apply Rltb_false in B. repeat split.
      * lra.
      * gunf. field; auto.
      * intros s [S1 S2]. gunf. intros E. assert (ox / dx = - s) by (field_simplify_eq; auto; lra). lra.
      * gunf. ring. Qed.
Theorem hs_ray_parallel_partial sig o d : v3_0 d = 0 -> 0 < sig -> hs_ray ROps sig o d = None /\
  (v3_0 o <> 0 -> forall s, v3_0 (ray_at ROps o d s) <> 0).
Proof. destruct o as [[ox oy] oz], d as [[dx dy] dz]. cbn [v3_0]. intros E S. subst dx. split.
  - unfold hs_ray. cbn [v3_0 nabs nltb ROps]. rewrite Rabs_R0, (proj2 (Rltb_true 0 sig)); auto.
  - intros H s. gunf. nra. Qed.

(** ** sphere *)
Theorem sp_nearest_is_closest r p : 0 <= r -> 0 < v3_normSqr ROps p ->
  let '(q, inside, n) := sp_nearest ROps r p in
  sp_value ROps r q = 0 /\ (forall s, sp_value ROps r s = 0 -> dist2 p q <= dist2 p s)
  /\ (inside = true <-> 0 <= sp_value ROps r p) /\ v3_normSqr ROps n = 1.
Proof. intros Hr Hp. unfold sp_nearest. pose proof (unit_normSqr p Hp) as U. pose proof (unit_dot p Hp) as UD.
  pose proof (norm_pos p Hp) as NP. pose proof (norm_sq p) as NS.
  set (n := v3_unit ROps p) in *. repeat split; auto.
  - unfold sp_value. cbn [nopp nadd nmul ROps]. change (v3_dot ROps (v3_scale ROps r n) (v3_scale ROps r n)) with (v3_normSqr ROps (v3_scale ROps r n)).
    rewrite normSqr_scale, U. ring.
  - intros s Hs. rewrite !dist2_expand. rewrite normSqr_scale, U.
    assert (Es : v3_normSqr ROps s = r * r) by (unfold sp_value in Hs; cbn [nopp nadd nmul ROps] in Hs; unfold v3_normSqr; lra).
    assert (D1 : v3_dot ROps p (v3_scale ROps r n) = r * v3_norm ROps p) by (rewrite <- UD; destruct p as [[? ?] ?], n as [[? ?] ?]; vunf; ring).
    assert (D2 : v3_dot ROps p s <= v3_norm ROps p * r) by (apply dot_le_norms; auto; lra).
    rewrite D1, Es. lra.
  - cbn [nleb nmul ROps]. intros H. apply Rleb_true in H. unfold sp_value. cbn [nopp nadd nmul ROps]. unfold v3_normSqr in H. lra.
  - cbn [nleb nmul ROps]. intros H. apply Rleb_true. unfold sp_value in H. cbn [nopp nadd nmul ROps] in H. unfold v3_normSqr. lra. Qed.
(** the outward unit normal is minus the normalised gradient of the implicit function *)
Theorem sp_normal_is_minus_unit_gradient r p : 0 < v3_normSqr ROps p ->
  snd (sp_nearest ROps r p) = v3_unit ROps (v3_neg ROps (sp_gradient ROps p)).
Proof. intros Hp. unfold sp_nearest. cbn [snd]. pose proof (norm_pos p Hp) as NP.
  assert (E : v3_neg ROps (sp_gradient ROps p) = v3_scale ROps 2 p) by (dv; gunf; simpl IZR; teq; ring).
  rewrite E. unfold v3_unit.
  assert (N : v3_norm ROps (v3_scale ROps 2 p) = 2 * v3_norm ROps p).
  { unfold v3_norm. rewrite normSqr_scale. cbn [nsqrt ROps]. rewrite sqrt_mult by (try lra; apply normSqr_nonneg).
    replace (2 * 2) with (Rsqr 2) by (unfold Rsqr; ring). rewrite sqrt_Rsqr; lra. }
  rewrite N. set (s := v3_norm ROps p) in *. dv. vunf. teq; field; lra. Qed.
(** the gradient is the derivative of the implicit function along every line *)
Theorem sp_support_maximises r d : 0 <= r -> v3_normSqr ROps d = 1 ->
  sp_value ROps r (sp_support ROps r d) = 0 /\
  forall q, 0 <= sp_value ROps r q -> v3_dot ROps q d <= v3_dot ROps (sp_support ROps r d) d.
Proof. intros Hr Hd. split.
  - unfold sp_value, sp_support. cbn [nopp nadd nmul ROps]. change (v3_dot ROps (v3_scale ROps r d) (v3_scale ROps r d)) with (v3_normSqr ROps (v3_scale ROps r d)).
    rewrite normSqr_scale, Hd. ring.
  - intros q Hq. assert (S : v3_dot ROps (sp_support ROps r d) d = r) by (unfold sp_support; revert Hd; dv; vunf; intros Hd; nra).
    rewrite S. unfold sp_value in Hq. cbn [nopp nadd nmul ROps] in Hq. fold (v3_normSqr ROps q) in Hq.
    pose proof (norm_sq q) as NS. pose proof (norm_nonneg q) as NN.
    assert (D : v3_dot ROps q d <= v3_norm ROps q * 1) by (apply dot_le_norms; auto; lra).
    assert (v3_norm ROps q <= r) by nra. lra. Qed.
(** bounding sphere (centre 0, radius r) contains every point of the solid *)
Theorem sp_bounding_sphere_contains r q : 0 <= sp_value ROps r q -> v3_normSqr ROps q <= r * r.
Proof. unfold sp_value. cbn [nopp nadd nmul ROps]. unfold v3_normSqr. lra. Qed.

(** the quadratic s^2 - 2 b s + c solved by sphere and cylinder ray queries *)
Definition quad (b c s:R) : R := s * s - 2 * b * s + c.
Lemma quad_ray_first_root b c :
  match quad_ray ROps b c with
  | Some dist => 0 <= dist /\ quad b c dist = 0 /\ forall s, 0 < s < dist -> quad b c s <> 0
  | None => forall s, 0 <= s -> quad b c s <> 0
  end.
Proof. unfold quad_ray. cbn [nltb nleb nmul nsub nadd nsqrt n0 ROps]. unfold quad.
  destruct (Rltb 0 c) eqn:C.
  - apply Rltb_true in C. destruct (Rleb b 0) eqn:B.
    + apply Rleb_true in B. intros s S. assert (0 <= - b * s) by (apply Rmult_le_pos; lra). nra.
    + apply Rleb_false in B. destruct (Rltb (b * b - c) 0) eqn:D.
      * apply Rltb_true in D. intros s S. pose proof (sq_nonneg (s - b)). nra.
      * apply Rltb_false in D. pose proof (sqrt_sqrt _ D) as Q. pose proof (sqrt_pos (b * b - c)) as P.
        set (w := sqrt (b * b - c)) in *. assert (W : w < b) by nra. repeat split.
        -- lra.
        -- nra.
        -- intros s [S1 S2]. assert (0 < (b - s) - w) by lra. assert (0 < (b - s) + w) by lra.
           assert (0 < ((b - s) - w) * ((b - s) + w)) by (apply Rmult_lt_0_compat; auto). nra.
  - apply Rltb_false in C. destruct (Rltb (b * b - c) 0) eqn:D.
    + apply Rltb_true in D. nra.
    + apply Rltb_false in D. pose proof (sqrt_sqrt _ D) as Q. pose proof (sqrt_pos (b * b - c)) as P.
      set (w := sqrt (b * b - c)) in *.
      assert (W1 : b <= w).
      { destruct (Rle_or_lt b w); auto. exfalso. assert (w * w < b * b) by (apply Rmult_le_0_lt_compat; lra). lra. }
      assert (W2 : - b <= w).
      { destruct (Rle_or_lt (- b) w); auto. exfalso. assert (w * w < (- b) * (- b)) by (apply Rmult_le_0_lt_compat; lra). lra. }
      repeat split.
      * lra.
      * nra.
      * intros s [S1 S2]. assert (0 < w - (s - b)) by lra. assert (0 < w + (s - b)) by lra.
        assert (0 < (w - (s - b)) * (w + (s - b))) by (apply Rmult_lt_0_compat; auto). nra. Qed.
Lemma sphere_along_ray r o d s : v3_normSqr ROps d = 1 ->
  - sp_value ROps r (ray_at ROps o d s) = quad (- v3_dot ROps d o) (v3_normSqr ROps o - r * r) s.
Proof. dv. gunf. unfold quad. intros H. nra. Qed.
(** ray: the returned distance is the first hit strictly after the ray origin (for an origin ON the surface the
    origin itself is a surface point; the query then reports where the ray leaves the sphere), with a unit normal *)
Theorem sp_ray_first_hit r o d : 0 < r -> v3_normSqr ROps d = 1 ->
  match sp_ray ROps r o d with
  | Some (dist, n) => 0 <= dist /\ sp_value ROps r (ray_at ROps o d dist) = 0
                      /\ (forall s, 0 < s < dist -> sp_value ROps r (ray_at ROps o d s) <> 0) /\ v3_normSqr ROps n = 1
  | None => forall s, 0 <= s -> sp_value ROps r (ray_at ROps o d s) <> 0
  end.
Proof. intros Hr Hd. unfold sp_ray. cbn [nopp nsub nmul ROps].
  pose proof (quad_ray_first_root (- v3_dot ROps d o) (v3_normSqr ROps o - r * r)) as Q.
  destruct (quad_ray ROps (- v3_dot ROps d o) (v3_normSqr ROps o - r * r)) as [dist|].
  - destruct Q as (Q1 & Q2 & Q3). rewrite <- sphere_along_ray in Q2 by auto. repeat split; auto.
    + lra.
    + intros s S E. apply (Q3 s S). rewrite <- sphere_along_ray by auto. lra.
    + apply unit_normSqr. unfold sp_value in Q2. cbn [nopp nadd nmul ROps] in Q2. unfold v3_normSqr. nra.
  - intros s S E. apply (Q s S). rewrite <- sphere_along_ray by auto. lra. Qed.
(** at the centre the query is degenerate: the model's answer (over R: 0/0 = 0 gives the centre; the code gives NaN)
    is not a surface point *)
Theorem sp_nearest_at_centre_refuted :
  exists r, 0 < r /\ sp_value ROps r (fst (fst (sp_nearest ROps r (0, 0, 0)))) <> 0.
Proof. exists 1. split; [lra|]. gunf. rewrite !Rmult_0_r. lra. Qed.

(** ** cylinder (infinite, about z) *)
Definition rho2 (p:Vec3 R) : R := v3_0 p * v3_0 p + v3_1 p * v3_1 p.
Lemma cy_normal_eq p : 0 < rho2 p -> cy_normal ROps p = (v3_0 p / sqrt (rho2 p), v3_1 p / sqrt (rho2 p), 0).
Proof. destruct p as [[x y] z]. unfold rho2. cbn [v3_0 v3_1]. intros H. unfold cy_normal, cy_gradient, v3_unit, v3_norm.
  cbv [two]. cbn [v3_0 v3_1 nofZ nmul nopp n0 ROps]. simpl IZR.
  assert (E : v3_normSqr ROps (v3_neg ROps (- (2) * x, - (2) * y, 0)) = Rsqr 2 * (x * x + y * y)) by (vunf; unfold Rsqr; ring).
  rewrite E. cbn [nsqrt ROps]. rewrite sqrt_mult by (unfold Rsqr; nra). rewrite sqrt_Rsqr by lra.
  assert (0 < sqrt (x * x + y * y)) by (apply sqrt_lt_R0; auto). set (s := sqrt (x * x + y * y)) in *.
  vunf. teq; field; lra. Qed.
Theorem cy_nearest_is_closest r p : 0 <= r -> 0 < rho2 p ->
  let '(q, inside, n) := cy_nearest ROps r p in
  cy_value ROps r q = 0 /\ (forall s, cy_value ROps r s = 0 -> dist2 p q <= dist2 p s)
  /\ (inside = true <-> 0 <= cy_value ROps r p) /\ v3_normSqr ROps n = 1.
Proof. intros Hr Hp. unfold cy_nearest. rewrite cy_normal_eq by auto. destruct p as [[x y] z]. unfold rho2 in *. cbn [v3_0 v3_1 v3_2] in *.
  assert (S : 0 < sqrt (x * x + y * y)) by (apply sqrt_lt_R0; auto).
  assert (Q : sqrt (x * x + y * y) * sqrt (x * x + y * y) = x * x + y * y) by (apply sqrt_sqrt; lra).
  set (s := sqrt (x * x + y * y)) in *. repeat split.
  - gunf. field_simplify_eq; [|lra]. nra.
  - intros [[a b] c] Hs. revert Hs. unfold dist2. gunf. intros Hs.
    (* 2D Cauchy-Schwarz: x a + y b <= s r *)
    assert (AB : a * a + b * b = r * r) by lra.
    assert (CS : (x * a + y * b) * (x * a + y * b) <= (s * r) * (s * r)).
    { assert (L : (x * x + y * y) * (a * a + b * b) - (x * a + y * b) * (x * a + y * b) = (x * b - y * a) * (x * b - y * a)) by ring.
      pose proof (Rle_0_sqr (x * b - y * a)) as P. unfold Rsqr in P. rewrite AB, <- Q in L. nra. }
    assert (SR : 0 <= s * r) by (apply Rmult_le_pos; lra).
    assert (D : x * a + y * b <= s * r).
    { destruct (Rle_or_lt (x * a + y * b) (s * r)); auto. exfalso. assert (s * r * (s * r) < (x * a + y * b) * (x * a + y * b)) by nra. lra. }
    assert (E1 : (x - (r * (x / s) + 0)) * (x - (r * (x / s) + 0)) + (y - (r * (y / s) + 0)) * (y - (r * (y / s) + 0)) = (s - r) * (s - r)).
    { field_simplify_eq; [|lra]. nra. }
    replace ((x - (r * (x / s) + 0)) * (x - (r * (x / s) + 0)) + (y - (r * (y / s) + 0)) * (y - (r * (y / s) + 0)) + (z - (r * 0 + z)) * (z - (r * 0 + z)))
      with ((s - r) * (s - r)) by (rewrite <- E1; ring).
    assert (EQ : (x - a) * (x - a) + (y - b) * (y - b) + (z - c) * (z - c)
                 = (x * x + y * y) - 2 * (x * a + y * b) + (a * a + b * b) + (z - c) * (z - c)) by ring.
    rewrite EQ, AB, <- Q. pose proof (sq_nonneg (z - c)).
    replace ((s - r) * (s - r)) with (s * s - 2 * (s * r) + r * r) by ring. lra.
  - cbn [nleb nmul nadd ROps]. intros H. apply Rleb_true in H. gunf. lra.
  - cbn [nleb nmul nadd ROps]. intros H. apply Rleb_true. revert H. gunf. lra.
  - gunf. field_simplify_eq; [|lra]. nra. Qed.
(** ray against the infinite cylinder (direction not parallel to the axis): first hit strictly after the origin *)
Theorem cy_ray_first_hit r o d : 0 < r -> 0 < rho2 d ->
  match cy_ray ROps r o d with
  | Some (dist, n) => 0 <= dist /\ cy_value ROps r (ray_at ROps o d dist) = 0
                      /\ (forall s, 0 < s < dist -> cy_value ROps r (ray_at ROps o d s) <> 0) /\ v3_normSqr ROps n = 1
  | None => forall s, 0 <= s -> cy_value ROps r (ray_at ROps o d s) <> 0
  end.
Proof. intros Hr Hd. destruct o as [[ox oy] oz], d as [[dx dy] dz]. unfold rho2 in Hd. cbn [v3_0 v3_1] in Hd.
  unfold cy_ray. cbn [v3_0 v3_1 v3_2].
  assert (NE : v3_norm ROps (dx, dy, n0 ROps) = sqrt (dx * dx + dy * dy)) by (unfold v3_norm; cbn [nsqrt ROps]; f_equal; vunf; ring).
  rewrite NE. assert (S : 0 < sqrt (dx * dx + dy * dy)) by (apply sqrt_lt_R0; auto).
  assert (Q : sqrt (dx * dx + dy * dy) * sqrt (dx * dx + dy * dy) = dx * dx + dy * dy) by (apply sqrt_sqrt; lra).
  set (m := sqrt (dx * dx + dy * dy)) in *.
  set (xyd := v3_scale ROps (ndiv ROps (n1 ROps) m) (dx, dy, n0 ROps)).
  set (xyo := (ox, oy, n0 ROps) : Vec3 R).
  assert (U : v3_normSqr ROps xyd = 1) by (unfold xyd; vunf; field_simplify_eq; [nra|lra]).
  assert (G : forall s, - cy_value ROps r (ray_at ROps (ox, oy, oz) (dx, dy, dz) s)
                        = quad (- v3_dot ROps xyd xyo) (v3_normSqr ROps xyo - r * r) (s * m)).
  { intros s. unfold xyd, xyo, quad. gunf. field_simplify_eq; [|lra]. nra. }
  cbn [nopp nsub nmul ROps].
  pose proof (quad_ray_first_root (- v3_dot ROps xyd xyo) (v3_normSqr ROps xyo - r * r)) as QR.
  destruct (quad_ray ROps (- v3_dot ROps xyd xyo) (v3_normSqr ROps xyo - r * r)) as [u|].
  - destruct QR as (Q1 & Q2 & Q3). cbn [ndiv ROps].
    assert (UM : u / m * m = u) by (field; lra). repeat split.
    + apply Rmult_le_pos; auto. left; apply Rinv_0_lt_compat; auto.
    + specialize (G (u / m)). rewrite UM in G. lra.
    + intros s [S1 S2] E. apply (Q3 (s * m)).
      * split; [apply Rmult_lt_0_compat; auto|]. rewrite <- UM. apply Rmult_lt_compat_r; auto.
      * rewrite <- G. lra.
    + apply unit_normSqr.
      assert (P : - sp_value ROps r (ray_at ROps xyo xyd u) = quad (- v3_dot ROps xyd xyo) (v3_normSqr ROps xyo - r * r) u) by (apply sphere_along_ray; auto).
      unfold sp_value in P. cbn [nopp nadd nmul ROps] in P. unfold v3_normSqr. nra.
  - intros s S0 E. apply (QR (s * m)); [apply Rmult_le_pos; lra|]. rewrite <- G. lra. Qed.

(** ** brick (half lengths h >= 0) *)
Definition in_box (h q:Vec3 R) : Prop := Rabs (v3_0 q) <= v3_0 h /\ Rabs (v3_1 q) <= v3_1 h /\ Rabs (v3_2 q) <= v3_2 h.
Lemma pick_le (c:bool) hh dd qq : Rabs qq <= hh -> (c = true -> dd <= 0) -> (c = false -> 0 <= dd) -> qq * dd <= (if c then - hh else hh) * dd.
Proof. intros A T F. pose proof (Rle_abs qq). pose proof (Rle_abs (- qq)). rewrite Rabs_Ropp in *.
  destruct c; [specialize (T eq_refl) | specialize (F eq_refl)]; nra. Qed.
Theorem bx_support_maximises h d : 0 <= v3_0 h -> 0 <= v3_1 h -> 0 <= v3_2 h ->
  in_box h (bx_support ROps h d) /\ forall q, in_box h q -> v3_dot ROps q d <= v3_dot ROps (bx_support ROps h d) d.
Proof. destruct h as [[hx hy] hz], d as [[dx dy] dz]. cbn [v3_0 v3_1 v3_2]. intros H0 H1 H2. unfold bx_support. cbn [nltb nopp n0 ROps]. split.
  - unfold in_box. cbn [v3_0 v3_1 v3_2].
    repeat split; match goal with |- context [Rltb ?a 0] => destruct (Rltb a 0) end; rewrite ?Rabs_Ropp, Rabs_pos_eq; lra.
  - intros [[qx qy] qz] (A & B & C). cbn [v3_0 v3_1 v3_2] in *. vunf.
    assert (X : qx * dx <= (if Rltb dx 0 then - hx else hx) * dx)
      by (apply pick_le; auto; intros E; [apply Rltb_true in E | apply Rltb_false in E]; lra).
    assert (Y : qy * dy <= (if Rltb dy 0 then - hy else hy) * dy)
      by (apply pick_le; auto; intros E; [apply Rltb_true in E | apply Rltb_false in E]; lra).
    assert (Z : qz * dz <= (if Rltb dz 0 then - hz else hz) * dz)
      by (apply pick_le; auto; intros E; [apply Rltb_true in E | apply Rltb_false in E]; lra).
    lra. Qed.
Theorem bx_bounding_sphere_contains h q : in_box h q -> v3_normSqr ROps q <= bx_bsphere ROps h * bx_bsphere ROps h.
Proof. intros (A & B & C). unfold bx_bsphere. rewrite norm_sq. destruct h as [[hx hy] hz], q as [[qx qy] qz]. cbn [v3_0 v3_1 v3_2] in *. vunf.
  assert (forall a b, Rabs a <= b -> a * a <= b * b).
  { intros a b H. pose proof (Rabs_pos a). replace (a * a) with (Rabs a * Rabs a) by (unfold Rabs; destruct (Rcase_abs a); ring). nra. }
  pose proof (H _ _ A). pose proof (H _ _ B). pose proof (H _ _ C). lra. Qed.

(** ** non-vacuity *)
Example ex_sphere_ray_hits : sp_ray ROps 1 (- (2), 0, 0) (1, 0, 0) <> None.
Proof. unfold sp_ray, quad_ray. vunf. cbn [nleb nltb ROps].
  rewrite (proj2 (Rltb_true 0 _)) by lra. rewrite (proj2 (Rleb_false _ 0)) by lra.
  rewrite (proj2 (Rltb_false _ 0)) by lra. discriminate. Qed.
Example ex_sphere_ray_misses : sp_ray ROps 1 (- (2), 2, 0) (1, 0, 0) = None.
Proof. unfold sp_ray, quad_ray. vunf. cbn [nleb nltb ROps].
  rewrite (proj2 (Rltb_true 0 _)) by lra. rewrite (proj2 (Rleb_false _ 0)) by lra.
  rewrite (proj2 (Rltb_true _ 0)) by lra. reflexivity. Qed.
Example ex_in_box : in_box (1, 2, 3) (1, - (2), 0).
Proof. unfold in_box. cbn [v3_0 v3_1 v3_2]. rewrite Rabs_Ropp, Rabs_R0, !Rabs_pos_eq; lra. Qed.
