(** C34 ellipsoid: the gradient is the derivative of the implicit function and the Hessian the derivative of the
    gradient, along every line (Coquelicot [is_derive]). *)
From Coq Require Import ZArith Reals Lra.
From Coquelicot Require Import Coquelicot.
Require Import Num Vec Tactics C34_el_Model C34_el_Proofs.
Local Open Scope R_scope.

Theorem el_gradient_is_jet e x d : pos3 (el_radii e) ->
  is_derive (fun t => el_value ROps e (v3_add ROps x (v3_scale ROps t d))) 0 (v3_dot ROps (el_gradient ROps e x) d).
Proof. destruct e as [[[a b] c] k]. intros (Ha & Hb & Hc). cbn [el_radii fst v3_0 v3_1 v3_2] in *.
  destruct x as [[x0 x1] x2], d as [[d0 d1] d2]. unfold el_value, el_gradient, neg, c2. cbn [el_radii fst]. vunf. simpl IZR.
  auto_derive; [repeat split; nra | field; lra]. Qed.
(** each component of the gradient has the corresponding Hessian row as its derivative *)
Theorem el_hessian_is_jet_of_gradient e x d : pos3 (el_radii e) ->
  is_derive (fun t => v3_0 (el_gradient ROps e (v3_add ROps x (v3_scale ROps t d)))) 0 (v3_dot ROps (m33_r0 (el_hessian ROps e)) d) /\
  is_derive (fun t => v3_1 (el_gradient ROps e (v3_add ROps x (v3_scale ROps t d)))) 0 (v3_dot ROps (m33_r1 (el_hessian ROps e)) d) /\
  is_derive (fun t => v3_2 (el_gradient ROps e (v3_add ROps x (v3_scale ROps t d)))) 0 (v3_dot ROps (m33_r2 (el_hessian ROps e)) d).
Proof. destruct e as [[[a b] c] k]. intros (Ha & Hb & Hc). cbn [el_radii fst v3_0 v3_1 v3_2] in *.
  destruct x as [[x0 x1] x2], d as [[d0 d1] d2]. unfold el_gradient, el_hessian, neg, c2. cbn [el_radii fst]. vunf. simpl IZR.
  split; [|split]; (auto_derive; [repeat split; nra | field; lra]). Qed.
