(** C34 (ellipsoid, closed-form part): executable model of ContactGeometry::Ellipsoid as an object with state,
    hand-written from SimTKmath/Geometry/src/ContactGeometryImpl.h (Ellipsoid::Impl and its inline methods) and
    ContactGeometry_Ellipsoid.cpp as they are in /repo now.

    The implementation keeps TWO data members: the radii (a,b,c) and the cached curvatures (1/a,1/b,1/c) which
    "are calculated whenever the radii are set".  The implicit function, gradient, Hessian, support point and
    bounding sphere read the radii; findPointInSameDirection, findUnitNormalAtPoint, getCurvatures and the paraboloid
    (curvature) code read the cache.  The model keeps both members, so that the constructor, setRadii and copying are
    operations on that state and the consistency of the cache is a property of operation sequences.
    The principal curvatures are modelled at the six axis points only (there the code's construction reduces to
    kmax,kmin = r_i * max/min of the other two cached curvatures squared); the iterative nearest point is not modelled.
    Generic in [NumOps]; no proofs in this file. *)
From Coq Require Import ZArith List Bool.
Require Import Num Vec.
Import ListNotations.

Section M. Context {T:Type} (K:NumOps T).
Local Notation "x + y" := (nadd K x y). Local Notation "x * y" := (nmul K x y). Local Notation "x - y" := (nsub K x y).
Local Notation "x / y" := (ndiv K x y).
Local Notation "0" := (n0 K). Local Notation "1" := (n1 K).
Local Notation "x <=? y" := (nleb K x y). Local Notation "x <? y" := (nltb K x y).
Definition c2 : T := nofZ K 2%Z.
Definition neg (x:T) : T := nopp K x.
Definition nmax (a b:T) : T := if a <? b then b else a.
Definition nmin2 (a b:T) : T := if a <? b then a else b.
Definition el_unit (v:Vec3 T) : Vec3 T := v3_scale K (1 / v3_norm K v) v.

(** object state: (radii, cached curvatures) *)
Definition ellipsoid : Type := (Vec3 T * Vec3 T)%type.
Definition el_radii (e:ellipsoid) : Vec3 T := fst e.
Definition el_curv (e:ellipsoid) : Vec3 T := snd e.               (* getCurvatures() *)
Definition recip3 (r:Vec3 T) : Vec3 T := let '(a, b, c) := r in (1 / a, 1 / b, 1 / c).
Definition el_make (r:Vec3 T) : ellipsoid := (r, recip3 r).         (* Impl(radii) *)
Definition el_setRadii (e:ellipsoid) (r:Vec3 T) : ellipsoid := (r, recip3 r).
Definition el_clone (e:ellipsoid) : ellipsoid := el_make (el_radii e).
Inductive elop := OpSet (r:Vec3 T) | OpCopy.
Definition el_apply (e:ellipsoid) (o:elop) : ellipsoid := match o with OpSet r => el_setRadii e r | OpCopy => el_clone e end.
Definition el_run (r0:Vec3 T) (ops:list elop) : ellipsoid := fold_left el_apply ops (el_make r0).

(** radii-based queries *)
Definition el_value (e:ellipsoid) (x:Vec3 T) : T :=
  let '(a, b, c) := el_radii e in let '(x0, x1, x2) := x in
  1 - x0 * x0 / (a * a) - x1 * x1 / (b * b) - x2 * x2 / (c * c).
Definition el_gradient (e:ellipsoid) (x:Vec3 T) : Vec3 T :=
  let '(a, b, c) := el_radii e in let '(x0, x1, x2) := x in
  (neg c2 * x0 / (a * a), neg c2 * x1 / (b * b), neg c2 * x2 / (c * c)).
Definition el_hessian (e:ellipsoid) : Mat33 T :=
  let '(a, b, c) := el_radii e in
  ((neg c2 / (a * a), 0, 0), (0, neg c2 / (b * b), 0), (0, 0, neg c2 / (c * c))).
(** calcSupportPoint = findPointWithThisUnitNormal *)
Definition el_support (e:ellipsoid) (d:Vec3 T) : Vec3 T :=
  let '(a, b, c) := el_radii e in let '(d0, d1, d2) := d in
  let v : Vec3 T := (d0 * a, d1 * b, d2 * c) in
  v3_scale K (1 / v3_norm K v) (v3_0 v * a, v3_1 v * b, v3_2 v * c).
Definition el_bsphere (e:ellipsoid) : T := let '(a, b, c) := el_radii e in nmax (nmax a b) c.
(** cache-based queries *)
Definition el_pointInDirection (e:ellipsoid) (q:Vec3 T) : Vec3 T :=
  let '(ka, kb, kc) := el_curv e in let '(q0, q1, q2) := q in
  v3_scale K (1 / v3_norm K (q0 * ka, q1 * kb, q2 * kc)) q.
Definition el_unitNormalAt (e:ellipsoid) (q:Vec3 T) : Vec3 T :=
  let '(ka, kb, kc) := el_curv e in let '(q0, q1, q2) := q in
  el_unit (ka * ka * q0, kb * kb * q1, kc * kc * q2).
(** principal curvatures (kmax, kmin) reported at the axis point +-r_i e_i (i = 0,1,2): d * max/min(R,S) with
    d = Q.n = r_i and R,S the squares of the two other cached curvatures *)
Definition el_axisCurvatures (e:ellipsoid) (i:nat) : T * T :=
  let '(a, b, c) := el_radii e in let '(ka, kb, kc) := el_curv e in
  let '(d, rr, ss) := match i with O => (a, kb * kb, kc * kc) | S O => (b, kc * kc, ka * ka) | _ => (c, ka * ka, kb * kb) end in
  (d * nmax rr ss, d * nmin2 rr ss).
End M.
