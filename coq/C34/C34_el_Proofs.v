(** C34 proofs for the ellipsoid (closed-form part), over the reals: the cache invariant along every operation sequence,
    unit normal parallel to the gradient, support point maximal, point-in-direction on the surface, bounding sphere,
    principal curvatures at the axis points.  (The two derivative theorems are in C34_el_Jet.v.) *)
From Coq Require Import ZArith Reals Lra Lia List Psatz Bool.
Require Import Num Vec Tactics C34_Model C34_Proofs C34_el_Model.
Import ListNotations.
Local Open Scope R_scope.

Notation ellipsoidR := (ellipsoid (T:=R)).
Definition pos3 (r:Vec3 R) : Prop := 0 < v3_0 r /\ 0 < v3_1 r /\ 0 < v3_2 r.
(** the cache is consistent with the radii *)
Definition el_consistent (e:ellipsoidR) : Prop := el_curv e = recip3 ROps (el_radii e).
Definition op_ok (o:elop (T:=R)) : Prop := match o with OpSet r => pos3 r | OpCopy => True end.
(** every sequence of setRadii / copy operations after construction leaves the cache consistent and the radii positive *)
Theorem el_ops_keep_cache_consistent r0 ops : pos3 r0 -> Forall op_ok ops ->
  el_consistent (el_run ROps r0 ops) /\ pos3 (el_radii (el_run ROps r0 ops)).
Proof. intros H0 Hops. unfold el_run.
  assert (G : forall e, el_consistent e /\ pos3 (el_radii e) -> el_consistent (fold_left (el_apply ROps) ops e) /\ pos3 (el_radii (fold_left (el_apply ROps) ops e))).
  { induction Hops as [|o ops Ho Hops IH]; intros e He; cbn [fold_left]; auto. apply IH. destruct o; cbn [el_apply op_ok] in *.
    - split; [reflexivity | exact Ho].
    - unfold el_clone, el_make, el_consistent. cbn [el_radii el_curv fst snd]. split; [reflexivity | tauto]. }
  apply G. split; [reflexivity | exact H0]. Qed.
(** getRadii / getCurvatures after any sequence: the last radii set, and their reciprocals *)
Theorem el_curvatures_are_reciprocal_radii (e:ellipsoidR) : el_consistent e ->
  el_curv e = (1 / v3_0 (el_radii e), 1 / v3_1 (el_radii e), 1 / v3_2 (el_radii e)).
Proof. unfold el_consistent. intros H. rewrite H. destruct (el_radii e) as [[a b] c]. reflexivity. Qed.

Ltac elstate e a b c ka kb kc := destruct e as [[[a b] c] [[ka kb] kc]].
Lemma cons_inv a b c ka kb kc : el_consistent ((a, b, c), (ka, kb, kc)) -> ka = 1 / a /\ kb = 1 / b /\ kc = 1 / c.
Proof. unfold el_consistent. cbn. intros H. inversion H. auto. Qed.

(** the unit normal computed from the cache is a unit vector and equals the normalised outward gradient direction
    -grad f / |grad f| (f is positive inside) *)
Theorem el_normal_unit_and_parallel_to_gradient e q : el_consistent e -> pos3 (el_radii e) -> 0 < v3_normSqr ROps q ->
  v3_normSqr ROps (el_unitNormalAt ROps e q) = 1 /\
  el_unitNormalAt ROps e q = v3_unit ROps (v3_neg ROps (el_gradient ROps e q)).
Proof. elstate e a b c ka kb kc. intros HC (Ha & Hb & Hc) Hq. cbn [el_radii fst v3_0 v3_1 v3_2] in *.
  destruct (cons_inv _ _ _ _ _ _ HC) as (-> & -> & ->). destruct q as [[x y] z].
  unfold el_unitNormalAt, el_gradient, el_unit. cbn [el_curv el_radii fst snd].
  set (w := (nmul ROps (nmul ROps (1 / a) (1 / a)) x, nmul ROps (nmul ROps (1 / b) (1 / b)) y, nmul ROps (nmul ROps (1 / c) (1 / c)) z) : Vec3 R).
  assert (W : 0 < v3_normSqr ROps w).
  { unfold w. revert Hq. vunf. intros Hq.
    assert (0 < a * a) by nra. assert (0 < b * b) by nra. assert (0 < c * c) by nra.
    replace (1 / a * (1 / a) * x * (1 / a * (1 / a) * x)) with ((x / (a * a)) * (x / (a * a))) by (field; lra).
    replace (1 / b * (1 / b) * y * (1 / b * (1 / b) * y)) with ((y / (b * b)) * (y / (b * b))) by (field; lra).
    replace (1 / c * (1 / c) * z * (1 / c * (1 / c) * z)) with ((z / (c * c)) * (z / (c * c))) by (field; lra).
    pose proof (sq_nonneg (x / (a * a))). pose proof (sq_nonneg (y / (b * b))). pose proof (sq_nonneg (z / (c * c))).
    destruct (Req_dec x 0) as [X|X]; [destruct (Req_dec y 0) as [Y|Y]; [assert (Z : z <> 0) by (intros Z; subst; lra)|]|].
    - assert (0 < (z / (c * c)) * (z / (c * c))). { assert (z / (c * c) <> 0) by (unfold Rdiv; apply Rmult_integral_contrapositive_currified; auto; apply Rinv_neq_0_compat; lra). nra. } lra.
    - assert (0 < (y / (b * b)) * (y / (b * b))). { assert (y / (b * b) <> 0) by (unfold Rdiv; apply Rmult_integral_contrapositive_currified; auto; apply Rinv_neq_0_compat; lra). nra. } lra.
    - assert (0 < (x / (a * a)) * (x / (a * a))). { assert (x / (a * a) <> 0) by (unfold Rdiv; apply Rmult_integral_contrapositive_currified; auto; apply Rinv_neq_0_compat; lra). nra. } lra. }
  split.
  - change (v3_scale ROps (ndiv ROps (n1 ROps) (v3_norm ROps w)) w) with (v3_unit ROps w). apply unit_normSqr; auto.
  - assert (E : v3_neg ROps (nmul ROps (nmul ROps (neg ROps (c2 ROps)) x) 1 / (a * a), nmul ROps (nmul ROps (neg ROps (c2 ROps)) y) 1 / (b * b), nmul ROps (nmul ROps (neg ROps (c2 ROps)) z) 1 / (c * c)) = v3_scale ROps 2 w) by (unfold w, neg, c2; vunf; simpl IZR; teq; field; lra).
    assert (E' : v3_neg ROps (ndiv ROps (nmul ROps (neg ROps (c2 ROps)) x) (nmul ROps a a), ndiv ROps (nmul ROps (neg ROps (c2 ROps)) y) (nmul ROps b b), ndiv ROps (nmul ROps (neg ROps (c2 ROps)) z) (nmul ROps c c)) = v3_scale ROps 2 w)
      by (unfold w, neg, c2; vunf; simpl IZR; teq; field; lra).
    rewrite E'. unfold v3_unit.
    assert (N : v3_norm ROps (v3_scale ROps 2 w) = 2 * v3_norm ROps w).
    { unfold v3_norm. rewrite normSqr_scale. cbn [nsqrt ROps]. rewrite sqrt_mult by (try lra; apply normSqr_nonneg).
      replace (2 * 2) with (Rsqr 2) by (unfold Rsqr; ring). rewrite sqrt_Rsqr; lra. }
    rewrite N. pose proof (norm_pos w W). set (s := v3_norm ROps w) in *. destruct w as [[w0 w1] w2]. vunf. teq; field; lra. Qed.

(** support point: on the surface, and no point of the solid lies farther along the (unit) direction *)
Theorem el_support_maximises e d : pos3 (el_radii e) -> v3_normSqr ROps d = 1 ->
  el_value ROps e (el_support ROps e d) = 0 /\
  forall q, 0 <= el_value ROps e q -> v3_dot ROps q d <= v3_dot ROps (el_support ROps e d) d.
Proof. elstate e a b c ka kb kc. intros (Ha & Hb & Hc) Hd. cbn [el_radii fst v3_0 v3_1 v3_2] in *. destruct d as [[d0 d1] d2].
  unfold el_support, el_value. cbn [el_radii fst v3_0 v3_1 v3_2 nmul ROps].
  set (v := (d0 * a, d1 * b, d2 * c) : Vec3 R).
  assert (V : 0 < v3_normSqr ROps v).
  { unfold v. revert Hd. vunf. intros Hd. pose proof (sq_nonneg (d0 * a)). pose proof (sq_nonneg (d1 * b)). pose proof (sq_nonneg (d2 * c)).
    destruct (Req_dec d0 0) as [X|X]; [destruct (Req_dec d1 0) as [Y|Y]; [assert (Z : d2 <> 0) by (intros Z; subst; lra)|]|].
    - assert (0 < d2 * c * (d2 * c)) by (assert (d2 * c <> 0) by (apply Rmult_integral_contrapositive_currified; lra); nra). lra.
    - assert (0 < d1 * b * (d1 * b)) by (assert (d1 * b <> 0) by (apply Rmult_integral_contrapositive_currified; lra); nra). lra.
    - assert (0 < d0 * a * (d0 * a)) by (assert (d0 * a <> 0) by (apply Rmult_integral_contrapositive_currified; lra); nra). lra. }
  pose proof (norm_pos v V) as NP. pose proof (norm_sq v) as NS. set (s := v3_norm ROps v) in *.
  assert (NV : v3_normSqr ROps v = d0 * a * (d0 * a) + d1 * b * (d1 * b) + d2 * c * (d2 * c)) by (unfold v; vunf; ring).
  split.
  - vunf. field_simplify_eq; [|lra]. rewrite NV in NS. nra.
  - intros [[x y] z] Hq. cbn [nsub ndiv n1 ROps] in Hq.
    (* q.d = (q/r).(r d) <= |q/r| |r d| <= 1 * s ;  support.d = |r d|^2 / s = s *)
    assert (S : v3_dot ROps (v3_scale ROps (ndiv ROps (n1 ROps) s) (d0 * a * a, d1 * b * b, d2 * c * c)) (d0, d1, d2) = s).
    { vunf. rewrite NV in NS. field_simplify_eq; [|lra]. nra. }
    rewrite S.
    set (u := (x / a, y / b, z / c) : Vec3 R).
    assert (U : v3_normSqr ROps u <= 1).
    { unfold u. vunf. replace (x / a * (x / a)) with (x * x / (a * a)) by (field; lra). replace (y / b * (y / b)) with (y * y / (b * b)) by (field; lra).
      replace (z / c * (z / c)) with (z * z / (c * c)) by (field; lra). lra. }
    assert (D : v3_dot ROps (x, y, z) (d0, d1, d2) = v3_dot ROps u v) by (unfold u, v; vunf; field; lra). rewrite D.
    pose proof (norm_sq u) as NU. pose proof (norm_nonneg u) as NN.
    assert (L : v3_dot ROps u v <= v3_norm ROps u * s) by (apply dot_le_norms; auto; lra).
    assert (v3_norm ROps u <= 1). { destruct (Rle_or_lt (v3_norm ROps u) 1); auto. exfalso. assert (1 * 1 < v3_norm ROps u * v3_norm ROps u) by (apply Rmult_le_0_lt_compat; lra). lra. }
    nra. Qed.

(** findPointInSameDirection: a positive multiple of Q lying on the surface *)
Theorem el_pointInDirection_on_surface e q : el_consistent e -> pos3 (el_radii e) -> 0 < v3_normSqr ROps q ->
  el_value ROps e (el_pointInDirection ROps e q) = 0 /\ exists s, 0 < s /\ el_pointInDirection ROps e q = v3_scale ROps s q.
Proof. elstate e a b c ka kb kc. intros HC (Ha & Hb & Hc) Hq. cbn [el_radii fst v3_0 v3_1 v3_2] in *.
  destruct (cons_inv _ _ _ _ _ _ HC) as (-> & -> & ->). destruct q as [[x y] z].
  unfold el_pointInDirection, el_value. cbn [el_curv el_radii fst snd nmul ROps].
  set (w := (x * (1 / a), y * (1 / b), z * (1 / c)) : Vec3 R).
  assert (W : 0 < v3_normSqr ROps w).
  { unfold w. revert Hq. vunf. intros Hq. pose proof (sq_nonneg (x * (1 / a))). pose proof (sq_nonneg (y * (1 / b))). pose proof (sq_nonneg (z * (1 / c))).
    assert (0 < 1 / a) by (apply Rdiv_lt_0_compat; lra). assert (0 < 1 / b) by (apply Rdiv_lt_0_compat; lra). assert (0 < 1 / c) by (apply Rdiv_lt_0_compat; lra).
    destruct (Req_dec x 0) as [X|X]; [destruct (Req_dec y 0) as [Y|Y]; [assert (Z : z <> 0) by (intros Z; subst; lra)|]|].
    - assert (0 < z * (1 / c) * (z * (1 / c))) by (assert (z * (1 / c) <> 0) by (apply Rmult_integral_contrapositive_currified; lra); nra). lra.
    - assert (0 < y * (1 / b) * (y * (1 / b))) by (assert (y * (1 / b) <> 0) by (apply Rmult_integral_contrapositive_currified; lra); nra). lra.
    - assert (0 < x * (1 / a) * (x * (1 / a))) by (assert (x * (1 / a) <> 0) by (apply Rmult_integral_contrapositive_currified; lra); nra). lra. }
  pose proof (norm_pos w W) as NP. pose proof (norm_sq w) as NS. set (s := v3_norm ROps w) in *.
  assert (NW : v3_normSqr ROps w = x * (1 / a) * (x * (1 / a)) + y * (1 / b) * (y * (1 / b)) + z * (1 / c) * (z * (1 / c))) by (unfold w; vunf; ring).
  split.
  - vunf. rewrite NW in NS. field_simplify_eq; [|lra]. field_simplify_eq in NS; [|lra]. nra.
  - exists (1 / s). split; [apply Rdiv_lt_0_compat; lra | reflexivity]. Qed.

(** bounding sphere (centre 0, radius max(a,b,c)) contains the solid *)
Lemma nmax_R a b : nmax ROps a b = Rmax a b.
Proof. unfold nmax. cbn [nltb ROps]. destruct (Rltb a b) eqn:E; [apply Rltb_true in E; rewrite Rmax_right; lra | apply Rltb_false in E; rewrite Rmax_left; lra]. Qed.
Lemma nmin2_R a b : nmin2 ROps a b = Rmin a b.
Proof. unfold nmin2. cbn [nltb ROps]. destruct (Rltb a b) eqn:E; [apply Rltb_true in E; rewrite Rmin_left; lra | apply Rltb_false in E; rewrite Rmin_right; lra]. Qed.
Theorem el_bounding_sphere_contains e q : pos3 (el_radii e) -> 0 <= el_value ROps e q ->
  v3_normSqr ROps q <= el_bsphere ROps e * el_bsphere ROps e.
Proof. elstate e a b c ka kb kc. intros (Ha & Hb & Hc) Hq. cbn [el_radii fst v3_0 v3_1 v3_2] in *. destruct q as [[x y] z].
  unfold el_bsphere, el_value in *. cbn [el_radii fst nsub ndiv nmul n1 ROps] in *. rewrite !nmax_R.
  set (M := Rmax (Rmax a b) c). assert (MA : a <= M) by (unfold M; eapply Rle_trans; [apply Rmax_l | apply Rmax_l]).
  assert (MB : b <= M) by (unfold M; eapply Rle_trans; [apply Rmax_r | apply Rmax_l]). assert (MC : c <= M) by (unfold M; apply Rmax_r).
  set (X := x * x / (a * a)) in *. set (Y := y * y / (b * b)) in *. set (Z := z * z / (c * c)) in *.
  assert (0 <= X) by (unfold X; apply Rmult_le_pos; [apply sq_nonneg | left; apply Rinv_0_lt_compat; nra]).
  assert (0 <= Y) by (unfold Y; apply Rmult_le_pos; [apply sq_nonneg | left; apply Rinv_0_lt_compat; nra]).
  assert (0 <= Z) by (unfold Z; apply Rmult_le_pos; [apply sq_nonneg | left; apply Rinv_0_lt_compat; nra]).
  assert (EX : x * x = a * a * X) by (unfold X; field; lra). assert (EY : y * y = b * b * Y) by (unfold Y; field; lra). assert (EZ : z * z = c * c * Z) by (unfold Z; field; lra).
  vunf. rewrite EX, EY, EZ.
  assert (a * a <= M * M) by (apply Rmult_le_compat; lra). assert (b * b <= M * M) by (apply Rmult_le_compat; lra). assert (c * c <= M * M) by (apply Rmult_le_compat; lra).
  assert (a * a * X <= M * M * X) by (apply Rmult_le_compat_r; auto). assert (b * b * Y <= M * M * Y) by (apply Rmult_le_compat_r; auto). assert (c * c * Z <= M * M * Z) by (apply Rmult_le_compat_r; auto).
  assert (0 <= M * M) by nra. nra. Qed.

(** principal curvatures reported at the axis point r_i e_i: r_i / r_j^2 for the two other axes j (classical values), i.e.
    consistent with Hessian and gradient there: kappa_j |grad f| = - H_jj *)
Theorem el_axis_curvatures_are_classical e : el_consistent e -> pos3 (el_radii e) ->
  let a := v3_0 (el_radii e) in let b := v3_1 (el_radii e) in let c := v3_2 (el_radii e) in
  el_axisCurvatures ROps e 0 = (Rmax (a / (b * b)) (a / (c * c)), Rmin (a / (b * b)) (a / (c * c))) /\
  el_axisCurvatures ROps e 1 = (Rmax (b / (c * c)) (b / (a * a)), Rmin (b / (c * c)) (b / (a * a))) /\
  el_axisCurvatures ROps e 2 = (Rmax (c / (a * a)) (c / (b * b)), Rmin (c / (a * a)) (c / (b * b))).
Proof. elstate e a b c ka kb kc. intros HC (Ha & Hb & Hc). cbn [el_radii fst v3_0 v3_1 v3_2] in *.
  destruct (cons_inv _ _ _ _ _ _ HC) as (-> & -> & ->). cbv zeta.
  assert (MX : forall d p q, 0 < d -> d * Rmax p q = Rmax (d * p) (d * q)) by (intros; rewrite RmaxRmult; lra).
  assert (MN : forall d p q, 0 < d -> d * Rmin p q = Rmin (d * p) (d * q)).
  { intros d p q Hd. unfold Rmin. destruct (Rle_dec p q), (Rle_dec (d * p) (d * q)); auto; exfalso; nra. }
  repeat split; unfold el_axisCurvatures; cbn [el_radii el_curv fst snd nmul ROps]; rewrite nmax_R, nmin2_R, MX, MN by auto;
    f_equal; f_equal; field; lra. Qed.
(** ... which is what Hessian and gradient give there: kappa_j |grad f| = - H_jj at the axis point r_i e_i *)
Theorem el_axis_curvature_from_hessian_and_gradient e : pos3 (el_radii e) ->
  let a := v3_0 (el_radii e) in let b := v3_1 (el_radii e) in
  (a / (b * b)) * v3_norm ROps (el_gradient ROps e (a, 0, 0)) = - m33_e (el_hessian ROps e) 1 1.
Proof. elstate e a b c ka kb kc. intros (Ha & Hb & Hc). cbn [el_radii fst v3_0 v3_1 v3_2] in *. cbv zeta.
  unfold el_gradient, el_hessian, v3_norm, neg, c2. cbn [el_radii fst]. vunf. simpl IZR.
  replace (- (2) * a / (a * a) * (- (2) * a / (a * a)) + - (2) * 0 / (b * b) * (- (2) * 0 / (b * b)) + - (2) * 0 / (c * c) * (- (2) * 0 / (c * c))) with (Rsqr (2 / a)) by (unfold Rsqr; field; lra).
  rewrite sqrt_Rsqr by (apply Rlt_le, Rdiv_lt_0_compat; lra). field; lra. Qed.

(** non-vacuity *)
Example ex_el_ops : el_consistent (el_run ROps (1, 2, 3) [OpSet (5/2, 7/10, 13/10); OpCopy]) /\ el_radii (el_run ROps (1, 2, 3) [OpSet (5/2, 7/10, 13/10); OpCopy]) = (5/2, 7/10, 13/10).
Proof. split; reflexivity. Qed.
