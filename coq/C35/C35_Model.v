(** C35 (sphere/sphere and half-space/sphere only): executable model of
      CollisionDetectionAlgorithm::HalfSpaceSphere::processObjects, ::SphereSphere::processObjects
        (SimTKmath/Geometry/src/CollisionDetectionAlgorithm.cpp; used by GeneralContactSubsystem), and
      ContactTracker::HalfSpaceSphere::trackContact, ::SphereSphere::trackContact
        (SimTKmath/Geometry/src/ContactTracker.cpp; used by ContactTrackerSubsystem; untracked prior contact),
    hand-written from the code as it is in /repo now.  A result is None (no contact reported) or
    Some (depth, normal, location/origin, effective radius).  The algorithms report in Ground, the trackers in the
    frame of surface 1.  The half space occupies x > 0 of its frame.  Generic in [NumOps]; no proofs in this file. *)
From Coq Require Import ZArith List Bool.
Require Import Num Vec.

Section M. Context {T:Type} (K:NumOps T).
Local Notation "x + y" := (nadd K x y). Local Notation "x * y" := (nmul K x y). Local Notation "x - y" := (nsub K x y).
Local Notation "x / y" := (ndiv K x y). Local Notation "- x" := (nopp K x).
Local Notation "0" := (n0 K). Local Notation "1" := (n1 K).
Local Notation "x <=? y" := (nleb K x y). Local Notation "x <? y" := (nltb K x y).

Definition two : T := nofZ K 2%Z.
Definition contact : Type := (T * Vec3 T * Vec3 T * T)%type.     (* depth, normal, location, radius *)
Definition nzero (x:T) : bool := andb (x <=? 0) (0 <=? x).         (* x == 0 *)
Definition v3_div (v:Vec3 T) (s:T) : Vec3 T := v3_scale K (1 / s) v.
Definition negx : Vec3 T := (nopp K 1, 0, 0).

(** HalfSpaceSphere::processObjects: X1 = half-space frame in G, p2 = sphere centre in G *)
Definition hs_sphere (X1:Transform T) (p2:Vec3 T) (r:T) : option contact :=
  let loc := xf_apply K (xf_inv K X1) p2 in
  let depth := r + v3_0 loc in
  if 0 <? depth then
    Some (depth, m33_mulv K (fst X1) negx, xf_apply K X1 (depth / two, v3_1 loc, v3_2 loc), r)
  else None.
(** SphereSphere::processObjects *)
Definition sphere_sphere (p1:Vec3 T) (r1:T) (p2:Vec3 T) (r2:T) : option contact :=
  let delta := v3_sub K p2 p1 in
  let dist := v3_norm K delta in
  if nzero dist then None
  else let depth := r1 + r2 - dist in
       if 0 <? depth then
         let normal := v3_div delta dist in
         Some (depth, normal, v3_add K p1 (v3_scale K (r1 - depth / two) normal), r1 * r2 / (r1 + r2))
       else None.

(** ContactTracker::HalfSpaceSphere::trackContact: result in the half-space frame H *)
Definition tk_hs_sphere (XH:Transform T) (pS:Vec3 T) (r cutoff:T) : option contact :=
  let pHC := m33_Tmulv K (fst XH) (v3_sub K pS (snd XH)) in
  let depth := v3_0 pHC + r in
  if depth <=? - cutoff then None
  else Some (depth, negx, (depth / two, v3_1 pHC, v3_2 pHC), r).
(** ContactTracker::SphereSphere::trackContact with no prior contact: result in the frame S1 of the first sphere;
    [inl false] = tracker failure (coincident centres) *)
Definition tk_sphere_sphere (sig:T) (R1:Mat33 T) (p1:Vec3 T) (r1:T) (p2:Vec3 T) (r2 cutoff:T) : option contact + bool :=
  let p12G := v3_sub K p2 p1 in
  let d2 := v3_normSqr K p12G in
  let rr := r1 + r2 in
  if (rr + cutoff) * (rr + cutoff) <? d2 then inl None
  else let d := nsqrt K d2 in
       if d <? sig then inr false
       else let p12 := m33_Tmulv K R1 p12G in
            let depth := rr - d in
            let normal := v3_div p12 d in
            inl (Some (depth, normal, v3_scale K (r1 - depth / two) normal, r1 * r2 / rr)).
End M.
