(** C35 proofs (over the reals; sphere/sphere and half-space/sphere only): a contact is reported exactly when the shapes
    overlap, depth/normal/location are the exact geometric quantities, swapping the spheres reverses the normal and keeps
    the rest, a common rigid motion moves the result with it.  Concentric spheres are refuted (no contact reported). *)
From Coq Require Import ZArith Reals Lra Lia List Psatz Bool.
Require Import Num Vec Tactics C35_Model.
Local Open Scope R_scope.

Ltac dv := repeat match goal with
  | v : Vec3 R |- _ => destruct v as [[? ?] ?]
  | v : Mat33 R |- _ => destruct v as [[? ?] ?]
  | v : Transform R |- _ => destruct v as [? ?]
  end.
Lemma sq_nonneg x : 0 <= x * x.
Proof. pose proof (Rle_0_sqr x) as H. unfold Rsqr in H. exact H. Qed.
Lemma normSqr_nonneg u : 0 <= v3_normSqr ROps u.
Proof. dv. vunf. pose proof (sq_nonneg r). pose proof (sq_nonneg r0). pose proof (sq_nonneg r1). lra. Qed.
Lemma norm_sq u : v3_norm ROps u * v3_norm ROps u = v3_normSqr ROps u.
Proof. unfold v3_norm. cbn [nsqrt ROps]. apply sqrt_sqrt, normSqr_nonneg. Qed.
Lemma norm_nonneg u : 0 <= v3_norm ROps u.
Proof. unfold v3_norm. cbn [nsqrt ROps]. apply sqrt_pos. Qed.
Lemma normSqr_scale a u : v3_normSqr ROps (v3_scale ROps a u) = a * a * v3_normSqr ROps u.
Proof. dv. vunf. ring. Qed.
Lemma cauchy_schwarz a b : v3_dot ROps a b * v3_dot ROps a b <= v3_normSqr ROps a * v3_normSqr ROps b.
Proof. destruct a as [[a0 a1] a2], b as [[b0 b1] b2]. vunf.
  assert (E : (a0 * a0 + a1 * a1 + a2 * a2) * (b0 * b0 + b1 * b1 + b2 * b2) - (a0 * b0 + a1 * b1 + a2 * b2) * (a0 * b0 + a1 * b1 + a2 * b2)
              = (a1 * b2 - a2 * b1) * (a1 * b2 - a2 * b1) + (a2 * b0 - a0 * b2) * (a2 * b0 - a0 * b2) + (a0 * b1 - a1 * b0) * (a0 * b1 - a1 * b0)) by ring.
  pose proof (sq_nonneg (a1 * b2 - a2 * b1)). pose proof (sq_nonneg (a2 * b0 - a0 * b2)). pose proof (sq_nonneg (a0 * b1 - a1 * b0)). lra. Qed.
Lemma dot_le_norms a b : v3_dot ROps a b <= v3_norm ROps a * v3_norm ROps b.
Proof. pose proof (cauchy_schwarz a b) as C. rewrite <- (norm_sq a), <- (norm_sq b) in C.
  pose proof (norm_nonneg a). pose proof (norm_nonneg b). set (s := v3_norm ROps a) in *. set (r := v3_norm ROps b) in *.
  set (x := v3_dot ROps a b) in *. assert (0 <= s * r) by (apply Rmult_le_pos; auto).
  destruct (Rle_or_lt x (s * r)); auto. exfalso.
  assert (s * r * (s * r) < x * x) by (apply Rmult_le_0_lt_compat; lra). lra. Qed.
Lemma norm_triangle a b : v3_norm ROps (v3_add ROps a b) <= v3_norm ROps a + v3_norm ROps b.
Proof. pose proof (norm_sq (v3_add ROps a b)) as E. pose proof (norm_sq a) as Ea. pose proof (norm_sq b) as Eb.
  pose proof (dot_le_norms a b) as D. pose proof (norm_nonneg a). pose proof (norm_nonneg b). pose proof (norm_nonneg (v3_add ROps a b)).
  assert (X : v3_normSqr ROps (v3_add ROps a b) = v3_normSqr ROps a + 2 * v3_dot ROps a b + v3_normSqr ROps b) by (dv; vunf; ring).
  set (s := v3_norm ROps a) in *. set (r := v3_norm ROps b) in *. set (t := v3_norm ROps (v3_add ROps a b)) in *.
  destruct (Rle_or_lt t (s + r)); auto. exfalso.
  assert ((s + r) * (s + r) < t * t) by (apply Rmult_le_0_lt_compat; lra). lra. Qed.
Lemma norm_neg a : v3_norm ROps (v3_neg ROps a) = v3_norm ROps a.
Proof. unfold v3_norm. f_equal. dv. vunf. ring. Qed.
Definition dist (a b:Vec3 R) : R := v3_norm ROps (v3_sub ROps b a).

(** ** half space / sphere.  u = x axis of the half-space frame in Ground (first column of its rotation):
    the half space is { q | u.(q - p1) > 0 }, its outward normal is -u *)
Definition hs_axis (X1:Transform R) : Vec3 R := m33_c0 (fst X1).
Definition hs_height (X1:Transform R) (q:Vec3 R) : R := v3_dot ROps (hs_axis X1) (v3_sub ROps q (snd X1)).
Definition hs_depth (X1:Transform R) (c:Vec3 R) (r:R) : R := r + hs_height X1 c.
Lemma hs_sphere_depth X1 c r : r + v3_0 (xf_apply ROps (xf_inv ROps X1) c) = hs_depth X1 c r.
Proof. unfold hs_depth, hs_height, hs_axis. dv. vunf. ring. Qed.
(** contact iff the closed ball reaches into the open half space; the depth is the largest height of a ball point *)
Theorem hs_sphere_contact_iff_overlap X1 c r : 0 <= r -> v3_normSqr ROps (hs_axis X1) = 1 ->
  (hs_sphere ROps X1 c r <> None <-> exists q, dist c q <= r /\ 0 < hs_height X1 q).
Proof. intros Hr Hu. unfold hs_sphere. rewrite hs_sphere_depth. cbn [nltb n0 ROps].
  destruct (Rltb 0 (hs_depth X1 c r)) eqn:D.
  - apply Rltb_true in D. split; [intros _ | discriminate].
    exists (v3_add ROps c (v3_scale ROps r (hs_axis X1))). split.
    + unfold dist. replace (v3_sub ROps (v3_add ROps c (v3_scale ROps r (hs_axis X1))) c) with (v3_scale ROps r (hs_axis X1))
        by (destruct c as [[? ?] ?], (hs_axis X1) as [[? ?] ?]; vunf; teq; ring).
      unfold v3_norm. rewrite normSqr_scale, Hu. cbn [nsqrt ROps]. rewrite Rmult_1_r, sqrt_square; lra.
    + unfold hs_depth, hs_height in *. revert Hu D. generalize (hs_axis X1). intros u. destruct X1 as [R1 p1]. cbn [snd]. dv. vunf. intros. nra.
  - apply Rltb_false in D. split; [intros H; contradiction H; auto|]. intros (q & Q1 & Q2). exfalso.
    unfold hs_depth, hs_height, dist in *.
    assert (E : v3_dot ROps (hs_axis X1) (v3_sub ROps q (snd X1)) = v3_dot ROps (hs_axis X1) (v3_sub ROps c (snd X1)) + v3_dot ROps (hs_axis X1) (v3_sub ROps q c))
      by (generalize (hs_axis X1); intros u; destruct X1 as [R1 p1]; cbn [snd]; dv; vunf; ring).
    pose proof (dot_le_norms (hs_axis X1) (v3_sub ROps q c)) as C. unfold v3_norm at 1 in C. rewrite Hu in C. cbn [nsqrt ROps] in C. rewrite sqrt_1 in C. lra. Qed.
Theorem hs_sphere_depth_is_max_height X1 c r q : 0 <= r -> v3_normSqr ROps (hs_axis X1) = 1 -> dist c q <= r ->
  hs_height X1 q <= hs_depth X1 c r.
Proof. intros Hr Hu Q. unfold hs_depth, hs_height, dist in *.
  assert (E : v3_dot ROps (hs_axis X1) (v3_sub ROps q (snd X1)) = v3_dot ROps (hs_axis X1) (v3_sub ROps c (snd X1)) + v3_dot ROps (hs_axis X1) (v3_sub ROps q c))
    by (generalize (hs_axis X1); intros u; destruct X1 as [R1 p1]; cbn [snd]; dv; vunf; ring).
  pose proof (dot_le_norms (hs_axis X1) (v3_sub ROps q c)) as C. unfold v3_norm at 1 in C. rewrite Hu in C. cbn [nsqrt ROps] in C. rewrite sqrt_1 in C. lra. Qed.
(** formulas: depth = r + height of the centre; normal = -u (from the half space towards the sphere), unit;
    location = c + (r - depth/2) u, half way between the deepest ball point c + r u and the surface, for a rotation R1 *)
Definition is_rotation (M:Mat33 R) : Prop := m33_mul ROps M (m33_T M) = m33_id ROps.
Theorem hs_sphere_formulas X1 c r : is_rotation (fst X1) -> 0 < hs_depth X1 c r ->
  hs_sphere ROps X1 c r = Some (hs_depth X1 c r, v3_neg ROps (hs_axis X1),
                                v3_add ROps c (v3_scale ROps (r - hs_depth X1 c r / 2) (hs_axis X1)), r).
Proof. intros HR HD. unfold hs_sphere. rewrite hs_sphere_depth. cbn [nltb n0 ROps]. rewrite (proj2 (Rltb_true _ _) HD).
  set (d := hs_depth X1 c r) in *.
  assert (Ed : d = r + v3_dot ROps (hs_axis X1) (v3_sub ROps c (snd X1))) by reflexivity. clearbody d.
  assert (N : m33_mulv ROps (fst X1) (negx ROps) = v3_neg ROps (hs_axis X1)).
  { unfold hs_axis, negx. destruct X1 as [[[[[a00 a01] a02] [[a10 a11] a12]] [[a20 a21] a22]] pp]. vunf. teq; ring. }
  rewrite N. apply f_equal. apply (f_equal (fun l => (d, v3_neg ROps (hs_axis X1), l, r))).
  - unfold hs_axis in *. unfold is_rotation in HR. destruct X1 as [[[[[a00 a01] a02] [[a10 a11] a12]] [[a20 a21] a22]] [[p0 p1] p2]]. destruct c as [[c0 c1] c2].
    revert HR Ed. cbv [two]. vunf. simpl IZR. intros HR Ed. inversion HR as [[H00 H01 H02 H10 H11 H12 H20 H21 H22]]. clear HR.
    teq.
    + replace (p0 + (a00 * (d / 2) + a01 * (- (a01 * p0 + a11 * p1 + a21 * p2) + (a01 * c0 + a11 * c1 + a21 * c2)) + a02 * (- (a02 * p0 + a12 * p1 + a22 * p2) + (a02 * c0 + a12 * c1 + a22 * c2))))
        with (p0 + a00 * (d / 2) + (a01 * a01 + a02 * a02) * (c0 - p0) + (a01 * a11 + a02 * a12) * (c1 - p1) + (a01 * a21 + a02 * a22) * (c2 - p2)) by ring.
      replace (a01 * a01 + a02 * a02) with (1 - a00 * a00) by lra. replace (a01 * a11 + a02 * a12) with (- (a00 * a10)) by lra. replace (a01 * a21 + a02 * a22) with (- (a00 * a20)) by lra.
      subst d. field.
    + replace (p1 + (a10 * (d / 2) + a11 * (- (a01 * p0 + a11 * p1 + a21 * p2) + (a01 * c0 + a11 * c1 + a21 * c2)) + a12 * (- (a02 * p0 + a12 * p1 + a22 * p2) + (a02 * c0 + a12 * c1 + a22 * c2))))
        with (p1 + a10 * (d / 2) + (a11 * a01 + a12 * a02) * (c0 - p0) + (a11 * a11 + a12 * a12) * (c1 - p1) + (a11 * a21 + a12 * a22) * (c2 - p2)) by ring.
      replace (a11 * a01 + a12 * a02) with (- (a10 * a00)) by lra. replace (a11 * a11 + a12 * a12) with (1 - a10 * a10) by lra. replace (a11 * a21 + a12 * a22) with (- (a10 * a20)) by lra.
      subst d. field.
    + replace (p2 + (a20 * (d / 2) + a21 * (- (a01 * p0 + a11 * p1 + a21 * p2) + (a01 * c0 + a11 * c1 + a21 * c2)) + a22 * (- (a02 * p0 + a12 * p1 + a22 * p2) + (a02 * c0 + a12 * c1 + a22 * c2))))
        with (p2 + a20 * (d / 2) + (a21 * a01 + a22 * a02) * (c0 - p0) + (a21 * a11 + a22 * a12) * (c1 - p1) + (a21 * a21 + a22 * a22) * (c2 - p2)) by ring.
      replace (a21 * a01 + a22 * a02) with (- (a20 * a00)) by lra. replace (a21 * a11 + a22 * a12) with (- (a20 * a10)) by lra. replace (a21 * a21 + a22 * a22) with (1 - a20 * a20) by lra.
      subst d. field. Qed.

(** ** sphere / sphere *)
Lemma nzero_true x : nzero ROps x = true <-> x = 0.
Proof. unfold nzero. cbn [nleb n0 ROps]. rewrite andb_true_iff, !Rleb_true. lra. Qed.
Lemma sphere_sphere_spec p1 r1 p2 r2 : 0 < dist p1 p2 ->
  sphere_sphere ROps p1 r1 p2 r2 =
    if Rlt_dec (dist p1 p2) (r1 + r2) then
      let depth := r1 + r2 - dist p1 p2 in
      let n := v3_scale ROps (1 / dist p1 p2) (v3_sub ROps p2 p1) in
      Some (depth, n, v3_add ROps p1 (v3_scale ROps (r1 - depth / 2) n), r1 * r2 / (r1 + r2))
    else None.
Proof. intros HD. unfold sphere_sphere. fold (dist p1 p2).
  destruct (nzero ROps (dist p1 p2)) eqn:Z; [apply nzero_true in Z; lra|].
  cbn [nltb nsub nadd n0 ROps]. unfold Rltb. destruct (Rlt_dec 0 (r1 + r2 - dist p1 p2)), (Rlt_dec (dist p1 p2) (r1 + r2)); try lra; auto. Qed.
(** contact iff the open balls intersect (distinct centres) *)
Theorem sphere_sphere_contact_iff_overlap p1 r1 p2 r2 : 0 < r1 -> 0 < r2 -> 0 < dist p1 p2 ->
  (sphere_sphere ROps p1 r1 p2 r2 <> None <-> exists q, dist p1 q < r1 /\ dist p2 q < r2).
Proof. intros H1 H2 HD. rewrite sphere_sphere_spec by auto. destruct (Rlt_dec (dist p1 p2) (r1 + r2)) as [L|L]; cbv zeta.
  - split; [intros _ | discriminate].
    (* the point at distance t along the centre line, t = d r1/(r1+r2) *)
    set (d := dist p1 p2) in *. set (t := r1 / (r1 + r2)).
    exists (v3_add ROps p1 (v3_scale ROps t (v3_sub ROps p2 p1))).
    assert (T0 : 0 < t < 1) by (unfold t; split; [apply Rdiv_lt_0_compat; lra | apply Rmult_lt_reg_r with (r1 + r2); [lra|]; unfold Rdiv; rewrite Rmult_assoc, Rinv_l; lra]).
    assert (A : dist p1 (v3_add ROps p1 (v3_scale ROps t (v3_sub ROps p2 p1))) = t * d).
    { unfold dist, d. replace (v3_sub ROps (v3_add ROps p1 (v3_scale ROps t (v3_sub ROps p2 p1))) p1) with (v3_scale ROps t (v3_sub ROps p2 p1)) by (dv; vunf; teq; ring).
      unfold v3_norm. rewrite normSqr_scale. cbn [nsqrt ROps]. rewrite sqrt_mult by (try apply normSqr_nonneg; apply sq_nonneg). rewrite sqrt_square by lra. reflexivity. }
    assert (B : dist p2 (v3_add ROps p1 (v3_scale ROps t (v3_sub ROps p2 p1))) = (1 - t) * d).
    { unfold dist, d. replace (v3_sub ROps (v3_add ROps p1 (v3_scale ROps t (v3_sub ROps p2 p1))) p2) with (v3_scale ROps (- (1 - t)) (v3_sub ROps p2 p1)) by (dv; vunf; teq; ring).
      unfold v3_norm. rewrite normSqr_scale. cbn [nsqrt ROps]. replace (- (1 - t) * - (1 - t)) with ((1 - t) * (1 - t)) by ring.
      rewrite sqrt_mult by (try apply normSqr_nonneg; apply sq_nonneg). rewrite sqrt_square by lra. reflexivity. }
    rewrite A, B. unfold t. split.
    + apply Rmult_lt_reg_r with (r1 + r2); [lra|]. replace (r1 / (r1 + r2) * d * (r1 + r2)) with (r1 * d) by (field; lra). nra.
    + apply Rmult_lt_reg_r with (r1 + r2); [lra|]. replace ((1 - r1 / (r1 + r2)) * d * (r1 + r2)) with (r2 * d) by (field; lra). nra.
  - split; [intros H; contradiction H; auto|]. intros (q & Q1 & Q2). exfalso. apply L.
    unfold dist in *. pose proof (norm_triangle (v3_sub ROps q p1) (v3_neg ROps (v3_sub ROps q p2))) as TR.
    replace (v3_add ROps (v3_sub ROps q p1) (v3_neg ROps (v3_sub ROps q p2))) with (v3_sub ROps p2 p1) in TR by (dv; vunf; teq; ring).
    rewrite norm_neg in TR. lra. Qed.
(** formulas: depth = r1 + r2 - |p2 - p1|; the normal is the unit vector from centre 1 to centre 2; the location lies on the
    centre line at r1 - depth/2 from centre 1 and r2 - depth/2 from centre 2 (middle of the overlap); radius r1 r2/(r1+r2) *)
Theorem sphere_sphere_formulas p1 r1 p2 r2 : 0 < dist p1 p2 < r1 + r2 ->
  exists n, sphere_sphere ROps p1 r1 p2 r2 = Some (r1 + r2 - dist p1 p2, n, v3_add ROps p1 (v3_scale ROps (r1 - (r1 + r2 - dist p1 p2) / 2) n), r1 * r2 / (r1 + r2))
    /\ v3_normSqr ROps n = 1 /\ v3_scale ROps (dist p1 p2) n = v3_sub ROps p2 p1
    /\ v3_add ROps p1 (v3_scale ROps (r1 - (r1 + r2 - dist p1 p2) / 2) n) = v3_add ROps p2 (v3_scale ROps (r2 - (r1 + r2 - dist p1 p2) / 2) (v3_neg ROps n)).
Proof. intros [HD HL]. rewrite sphere_sphere_spec by auto. destruct (Rlt_dec (dist p1 p2) (r1 + r2)); [|lra]. cbv zeta.
  exists (v3_scale ROps (1 / dist p1 p2) (v3_sub ROps p2 p1)). split; [reflexivity|].
  pose proof (norm_sq (v3_sub ROps p2 p1)) as NS. fold (dist p1 p2) in NS. set (d := dist p1 p2) in *. repeat split.
  - rewrite normSqr_scale, <- NS. field. lra.
  - dv. vunf. teq; field; lra.
  - clear NS. dv. vunf. teq; field; lra. Qed.
(** swap symmetry: same depth, location and radius, reversed normal *)
Lemma dist_sym a b : dist a b = dist b a.
Proof. unfold dist. rewrite <- norm_neg. f_equal. dv. vunf. teq; ring. Qed.
Theorem sphere_sphere_swap_symmetry p1 r1 p2 r2 : 0 < dist p1 p2 ->
  match sphere_sphere ROps p1 r1 p2 r2, sphere_sphere ROps p2 r2 p1 r1 with
  | Some (d, n, l, r), Some (d', n', l', r') => d' = d /\ n' = v3_neg ROps n /\ l' = l /\ r' = r
  | None, None => True
  | _, _ => False
  end.
Proof. intros HD. assert (HD' : 0 < dist p2 p1) by (rewrite dist_sym; auto).
  rewrite (sphere_sphere_spec p1 r1 p2 r2 HD), (sphere_sphere_spec p2 r2 p1 r1 HD'). rewrite (dist_sym p2 p1).
  set (d := dist p1 p2) in *. replace (r2 + r1) with (r1 + r2) by ring.
  destruct (Rlt_dec d (r1 + r2)); auto. cbv zeta. repeat split.
  - dv. vunf. teq; field; lra.
  - pose proof (norm_sq (v3_sub ROps p2 p1)) as NS. fold (dist p1 p2) in NS. fold d in NS. clear HD'.
    assert (E : v3_sub ROps p2 p1 = v3_scale ROps d (v3_scale ROps (1 / d) (v3_sub ROps p2 p1))) by (dv; vunf; teq; field; lra).
    destruct p1 as [[x1 y1] z1], p2 as [[x2 y2] z2]. revert E. vunf. intros E. inversion E as [[E0 E1 E2]]. teq; field; lra.
  - field; nra. Qed.
(** invariance under a common rigid motion q -> Q q + t of both spheres *)
Definition is_isometry (Q:Mat33 R) : Prop := forall v, v3_normSqr ROps (m33_mulv ROps Q v) = v3_normSqr ROps v.
Definition move (Q:Mat33 R) (t p:Vec3 R) : Vec3 R := v3_add ROps (m33_mulv ROps Q p) t.
Theorem sphere_sphere_rigid_motion_invariance Q t p1 r1 p2 r2 : is_isometry Q -> 0 < dist p1 p2 ->
  sphere_sphere ROps (move Q t p1) r1 (move Q t p2) r2 =
    match sphere_sphere ROps p1 r1 p2 r2 with
    | Some (d, n, l, r) => Some (d, m33_mulv ROps Q n, move Q t l, r)
    | None => None
    end.
Proof. intros HQ HD.
  assert (DM : dist (move Q t p1) (move Q t p2) = dist p1 p2).
  { unfold dist, v3_norm. f_equal. rewrite <- (HQ (v3_sub ROps p2 p1)). f_equal. unfold move. dv. vunf. teq; ring. }
  rewrite !sphere_sphere_spec by (rewrite ?DM; auto). rewrite DM. destruct (Rlt_dec (dist p1 p2) (r1 + r2)); auto. cbv zeta.
  set (d := dist p1 p2) in *.
  assert (N : v3_scale ROps (1 / d) (v3_sub ROps (move Q t p2) (move Q t p1)) = m33_mulv ROps Q (v3_scale ROps (1 / d) (v3_sub ROps p2 p1)))
    by (unfold move; dv; vunf; teq; ring).
  rewrite N. set (n := v3_scale ROps (1 / d) (v3_sub ROps p2 p1)).
  assert (L : v3_add ROps (move Q t p1) (v3_scale ROps (r1 - (r1 + r2 - d) / 2) (m33_mulv ROps Q n)) = move Q t (v3_add ROps p1 (v3_scale ROps (r1 - (r1 + r2 - d) / 2) n)))
    by (unfold move; generalize (r1 - (r1 + r2 - d) / 2); intros; dv; vunf; teq; ring).
  rewrite L. reflexivity. Qed.
(** rigid motion of half space and sphere: x -> Q x + t applied to the frame X1 = (R1,p1) gives (Q R1, Q p1 + t) *)
Definition cols_orthonormal (Q:Mat33 R) : Prop :=
  v3_dot ROps (m33_c0 Q) (m33_c0 Q) = 1 /\ v3_dot ROps (m33_c1 Q) (m33_c1 Q) = 1 /\ v3_dot ROps (m33_c2 Q) (m33_c2 Q) = 1 /\
  v3_dot ROps (m33_c0 Q) (m33_c1 Q) = 0 /\ v3_dot ROps (m33_c0 Q) (m33_c2 Q) = 0 /\ v3_dot ROps (m33_c1 Q) (m33_c2 Q) = 0.
Theorem hs_sphere_rigid_motion_invariance Q t X1 c r : cols_orthonormal Q ->
  hs_sphere ROps (m33_mul ROps Q (fst X1), move Q t (snd X1)) (move Q t c) r =
    match hs_sphere ROps X1 c r with
    | Some (d, n, l, rr) => Some (d, m33_mulv ROps Q n, move Q t l, rr)
    | None => None
    end.
Proof. intros HQ. unfold hs_sphere. rewrite !hs_sphere_depth.
  assert (DE : hs_depth (m33_mul ROps Q (fst X1), move Q t (snd X1)) (move Q t c) r = hs_depth X1 c r).
  { unfold hs_depth, hs_height, hs_axis, move. f_equal. destruct X1 as [[[[[a00 a01] a02] [[a10 a11] a12]] [[a20 a21] a22]] [[p0 p1] p2]].
    destruct Q as [[[[q00 q01] q02] [[q10 q11] q12]] [[q20 q21] q22]]. destruct c as [[c0 c1] c2], t as [[t0 t1] t2].
    revert HQ. unfold cols_orthonormal. vunf. intros (H00 & H11 & H22 & H01 & H02 & H12).
    set (u0 := c0 - p0). set (u1 := c1 - p1). set (u2 := c2 - p2).
    transitivity ((q00 * q00 + q10 * q10 + q20 * q20) * (a00 * u0) + (q01 * q01 + q11 * q11 + q21 * q21) * (a10 * u1) + (q02 * q02 + q12 * q12 + q22 * q22) * (a20 * u2)
                  + (q00 * q01 + q10 * q11 + q20 * q21) * (a00 * u1 + a10 * u0) + (q00 * q02 + q10 * q12 + q20 * q22) * (a00 * u2 + a20 * u0)
                  + (q01 * q02 + q11 * q12 + q21 * q22) * (a10 * u2 + a20 * u1)); [unfold u0, u1, u2; ring|].
    rewrite H00, H11, H22, H01, H02, H12. unfold u0, u1, u2. ring. }
  rewrite DE. cbn [nltb n0 ROps]. destruct (Rltb 0 (hs_depth X1 c r)); auto.
  set (d := hs_depth X1 c r).
  assert (N : m33_mulv ROps (fst (m33_mul ROps Q (fst X1), move Q t (snd X1))) (negx ROps) = m33_mulv ROps Q (m33_mulv ROps (fst X1) (negx ROps)))
    by (unfold negx; destruct X1 as [[[[[a00 a01] a02] [[a10 a11] a12]] [[a20 a21] a22]] pp]; destruct Q as [[[[q00 q01] q02] [[q10 q11] q12]] [[q20 q21] q22]]; vunf; teq; ring).
  rewrite N. apply f_equal. apply (f_equal (fun l => (d, m33_mulv ROps Q (m33_mulv ROps (fst X1) (negx ROps)), l, r))).
  - (* location: Q R1 (d/2, y', z') + Q p1 + t where (.,y',z') = (Q R1)^T (Q c + t - Q p1 - t) = R1^T (c - p1) *)
    unfold move. destruct X1 as [[[[[a00 a01] a02] [[a10 a11] a12]] [[a20 a21] a22]] [[p0 p1] p2]].
    destruct Q as [[[[q00 q01] q02] [[q10 q11] q12]] [[q20 q21] q22]]. destruct c as [[c0 c1] c2], t as [[t0 t1] t2].
    revert HQ. unfold cols_orthonormal. cbv [two]. vunf. simpl IZR. intros (H00 & H11 & H22 & H01 & H02 & H12).
    set (u0 := c0 - p0). set (u1 := c1 - p1). set (u2 := c2 - p2).
    assert (Y : forall b0 b1 b2, - ((q00 * b0 + q01 * b1 + q02 * b2) * (q00 * p0 + q01 * p1 + q02 * p2 + t0) + (q10 * b0 + q11 * b1 + q12 * b2) * (q10 * p0 + q11 * p1 + q12 * p2 + t1) + (q20 * b0 + q21 * b1 + q22 * b2) * (q20 * p0 + q21 * p1 + q22 * p2 + t2))
              + ((q00 * b0 + q01 * b1 + q02 * b2) * (q00 * c0 + q01 * c1 + q02 * c2 + t0) + (q10 * b0 + q11 * b1 + q12 * b2) * (q10 * c0 + q11 * c1 + q12 * c2 + t1) + (q20 * b0 + q21 * b1 + q22 * b2) * (q20 * c0 + q21 * c1 + q22 * c2 + t2))
              = - (b0 * p0 + b1 * p1 + b2 * p2) + (b0 * c0 + b1 * c1 + b2 * c2)).
    { intros b0 b1 b2.
      transitivity ((q00 * q00 + q10 * q10 + q20 * q20) * (b0 * u0) + (q01 * q01 + q11 * q11 + q21 * q21) * (b1 * u1) + (q02 * q02 + q12 * q12 + q22 * q22) * (b2 * u2)
                  + (q00 * q01 + q10 * q11 + q20 * q21) * (b0 * u1 + b1 * u0) + (q00 * q02 + q10 * q12 + q20 * q22) * (b0 * u2 + b2 * u0)
                  + (q01 * q02 + q11 * q12 + q21 * q22) * (b1 * u2 + b2 * u1)); [unfold u0, u1, u2; ring|].
      rewrite H00, H11, H22, H01, H02, H12. unfold u0, u1, u2. ring. }
    rewrite (Y a01 a11 a21), (Y a02 a12 a22). teq; ring. Qed.

(** concentric spheres overlap but no contact is reported ("No sensible way to deal with this") *)
Theorem sphere_sphere_concentric_refuted :
  exists p r1 r2, 0 < r1 /\ 0 < r2 /\ (exists q, dist p q < r1 /\ dist p q < r2) /\ sphere_sphere ROps p r1 p r2 = None.
Proof. exists (0, 0, 0), 1, 1. repeat split; try lra.
  - exists (0, 0, 0). unfold dist, v3_norm. vunf. replace ((0 - 0) * (0 - 0) + (0 - 0) * (0 - 0) + (0 - 0) * (0 - 0)) with 0 by ring. rewrite sqrt_0. lra.
  - unfold sphere_sphere.
    assert (Z : v3_norm ROps (v3_sub ROps (0, 0, 0) (0, 0, 0)) = 0) by (unfold v3_norm; vunf; replace ((0 - 0) * (0 - 0) + (0 - 0) * (0 - 0) + (0 - 0) * (0 - 0)) with 0 by ring; apply sqrt_0).
    rewrite Z, (proj2 (nzero_true 0)); auto. Qed.

(** ** trackers (ContactTrackerSubsystem): same geometry, reported in the frame of surface 1, with a cutoff band *)
Theorem tk_hs_sphere_agrees XH c r cutoff :
  tk_hs_sphere ROps XH c r cutoff =
    if Rle_dec (hs_depth XH c r) (- cutoff) then None
    else Some (hs_depth XH c r, negx ROps, (hs_depth XH c r / 2, v3_1 (xf_apply ROps (xf_inv ROps XH) c), v3_2 (xf_apply ROps (xf_inv ROps XH) c)), r).
Proof. unfold tk_hs_sphere.
  assert (E : m33_Tmulv ROps (fst XH) (v3_sub ROps c (snd XH)) = xf_apply ROps (xf_inv ROps XH) c) by (dv; vunf; teq; ring).
  rewrite E. assert (D : nadd ROps (v3_0 (xf_apply ROps (xf_inv ROps XH) c)) r = hs_depth XH c r) by (rewrite <- hs_sphere_depth; cbn [nadd ROps]; ring).
  rewrite D. cbn [nleb nopp ROps]. unfold Rleb. destruct (Rle_dec (hs_depth XH c r) (- cutoff)); auto. Qed.
Theorem tk_sphere_sphere_depth sig R1 p1 r1 p2 r2 : 0 <= r1 + r2 -> sig <= dist p1 p2 ->
  match tk_sphere_sphere ROps sig R1 p1 r1 p2 r2 0 with
  | inl (Some (d, n, o, r)) => dist p1 p2 <= r1 + r2 /\ d = r1 + r2 - dist p1 p2 /\ r = r1 * r2 / (r1 + r2)
  | inl None => r1 + r2 < dist p1 p2
  | inr _ => False
  end.
Proof. intros Hr Hs. unfold tk_sphere_sphere. cbn [nltb nadd nmul nsub ndiv nsqrt n0 ROps].
  pose proof (norm_sq (v3_sub ROps p2 p1)) as NS. pose proof (norm_nonneg (v3_sub ROps p2 p1)) as NN. fold (dist p1 p2) in NS, NN.
  change (sqrt (v3_normSqr ROps (v3_sub ROps p2 p1))) with (dist p1 p2). set (d := dist p1 p2) in *.
  destruct (Rltb ((r1 + r2 + 0) * (r1 + r2 + 0)) (v3_normSqr ROps (v3_sub ROps p2 p1))) eqn:A.
  - apply Rltb_true in A. rewrite <- NS in A. destruct (Rle_or_lt d (r1 + r2)); auto. exfalso.
    assert (d * d <= (r1 + r2) * (r1 + r2)) by (apply Rmult_le_compat; lra). lra.
  - apply Rltb_false in A. rewrite <- NS in A. destruct (Rltb d sig) eqn:B; [apply Rltb_true in B; lra|].
    repeat split; auto. destruct (Rle_or_lt d (r1 + r2)); auto. exfalso.
    assert ((r1 + r2) * (r1 + r2) < d * d) by (apply Rmult_le_0_lt_compat; lra). lra. Qed.

(** ** non-vacuity *)
Example ex_overlapping_spheres : sphere_sphere ROps (0, 0, 0) 1 (1, 0, 0) 1 <> None.
Proof. assert (D : dist (0, 0, 0) (1, 0, 0) = 1) by (unfold dist, v3_norm; vunf; replace ((1 - 0) * (1 - 0) + (0 - 0) * (0 - 0) + (0 - 0) * (0 - 0)) with 1 by ring; apply sqrt_1).
  rewrite sphere_sphere_spec by lra. rewrite D. destruct (Rlt_dec 1 (1 + 1)); [discriminate | lra]. Qed.
Example ex_identity_is_rotation : is_rotation (m33_id ROps) /\ is_isometry (m33_id ROps).
Proof. split; [unfold is_rotation; vunf; teq; ring | intros [[a b] c]; vunf; ring]. Qed.
Example ex_identity_cols_orthonormal : cols_orthonormal (m33_id ROps).
Proof. unfold cols_orthonormal. vunf. repeat split; ring. Qed.
