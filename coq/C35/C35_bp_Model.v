(** C35 (broad phase): model of the bounding-sphere ("bubble") pruning of ContactTrackerSubsystem
    (Simbody/src/ContactTrackerSubsystem.cpp: realizeSubsystemTopologyImpl builds one bubble per contact surface,
    centre = X_BS * center_S in the body frame, radius from ContactGeometry::getBoundingSphere; addInBroadPhasePairs
    moves the centres to Ground with the body transform X_GB, sorts the extents [c-r, c+r] along one coordinate axis and
    hands a pair to the narrow phase iff the extents overlap on that axis and |c1-c2|^2 <= (r1+r2)^2).
    The sort-and-sweep loop is modelled by its specification (it visits exactly the pairs whose extents overlap);
    same-body and clique exclusions are not modelled.  Generic in [NumOps]; no proofs in this file. *)
From Coq Require Import ZArith List Bool.
Require Import Num Vec.
Section M. Context {T:Type} (K:NumOps T).
Local Notation "x + y" := (nadd K x y). Local Notation "x * y" := (nmul K x y). Local Notation "x - y" := (nsub K x y).
Local Notation "x <? y" := (nltb K x y).
(** bubble centre in the body frame, then in Ground *)
Definition bp_center_B (X_BS:Transform T) (center_S:Vec3 T) : Vec3 T := xf_apply K X_BS center_S.
Definition bp_center_G (X_GB X_BS:Transform T) (center_S:Vec3 T) : Vec3 T := xf_apply K X_GB (bp_center_B X_BS center_S).
Definition bp_comp (v:Vec3 T) (axis:nat) : T := match axis with O => v3_0 v | S O => v3_1 v | _ => v3_2 v end.
(** extents overlap along the sweep axis (the sweep breaks when the later start exceeds the earlier end) *)
Definition bp_extents_overlap (axis:nat) (c1:Vec3 T) (r1:T) (c2:Vec3 T) (r2:T) : bool :=
  let s1 := bp_comp c1 axis - r1 in let e1 := bp_comp c1 axis + r1 in
  let s2 := bp_comp c2 axis - r2 in let e2 := bp_comp c2 axis + r2 in
  if s2 <? s1 then negb (e2 <? s1) else negb (e1 <? s2).
Definition bp_spheres_touch (c1:Vec3 T) (r1:T) (c2:Vec3 T) (r2:T) : bool :=
  negb ((r1 + r2) * (r1 + r2) <? v3_normSqr K (v3_sub K c1 c2)).
(** is the pair handed to the narrow phase? *)
Definition bp_keeps (axis:nat) (XGB1 XBS1:Transform T) (cS1:Vec3 T) (r1:T) (XGB2 XBS2:Transform T) (cS2:Vec3 T) (r2:T) : bool :=
  let c1 := bp_center_G XGB1 XBS1 cS1 in let c2 := bp_center_G XGB2 XBS2 cS2 in
  andb (bp_extents_overlap axis c1 r1 c2 r2) (bp_spheres_touch c1 r1 c2 r2).
End M.
