(** C35 proofs, broad phase (over the reals): pruning is sound for ALL body poses and ALL surface placements (rotation and
    translation): if the two shapes have a common point and each shape lies in its bounding sphere, the pair is handed to
    the narrow phase; the single-axis extent test never removes a pair whose spheres touch. *)
From Coq Require Import ZArith Reals Lra Lia List Psatz Bool.
Require Import Num Vec Tactics C35_Model C35_Proofs C35_bp_Model.
Local Open Scope R_scope.
(** rigid transforms: the rotation part preserves lengths *)
Definition rigid (X:Transform R) : Prop := forall v, v3_normSqr ROps (m33_mulv ROps (fst X) v) = v3_normSqr ROps v.
Lemma xf_dist (X:Transform R) a b : rigid X -> dist (xf_apply ROps X a) (xf_apply ROps X b) = dist a b.
Proof. intros H. unfold dist, v3_norm. f_equal. rewrite <- (H (v3_sub ROps b a)). f_equal.
  clear H. dv. vunf. teq; ring. Qed.
Lemma comp_le_dist axis a b : Rabs (bp_comp a axis - bp_comp b axis) <= dist b a.
Proof. unfold dist. pose proof (norm_sq (v3_sub ROps a b)) as NS. pose proof (norm_nonneg (v3_sub ROps a b)) as NN.
  set (n := v3_norm ROps (v3_sub ROps a b)) in *.
  assert (Q : (bp_comp a axis - bp_comp b axis) * (bp_comp a axis - bp_comp b axis) <= v3_normSqr ROps (v3_sub ROps a b)).
  { destruct a as [[a0 a1] a2], b as [[b0 b1] b2]. pose proof (sq_nonneg (a0 - b0)). pose proof (sq_nonneg (a1 - b1)). pose proof (sq_nonneg (a2 - b2)).
    destruct axis as [|[|k]]; cbn [bp_comp v3_0 v3_1 v3_2]; vunf; lra. }
  rewrite <- NS in Q. set (x := bp_comp a axis - bp_comp b axis) in *.
  destruct (Rle_or_lt (Rabs x) n); auto. exfalso. assert (n * n < Rabs x * Rabs x) by (apply Rmult_le_0_lt_compat; lra).
  assert (Rabs x * Rabs x = x * x) by (unfold Rabs; destruct (Rcase_abs x); ring). lra. Qed.
(** the extent test along any single axis never removes a pair whose bounding spheres touch *)
Theorem bp_extent_test_redundant axis c1 r1 c2 r2 : 0 <= r1 -> 0 <= r2 ->
  bp_spheres_touch ROps c1 r1 c2 r2 = true -> bp_extents_overlap ROps axis c1 r1 c2 r2 = true.
Proof. intros H1 H2 HT. unfold bp_spheres_touch in HT. cbn [nltb nadd nmul ROps] in HT. apply negb_true_iff, Rltb_false in HT.
  pose proof (norm_sq (v3_sub ROps c1 c2)) as NS. pose proof (norm_nonneg (v3_sub ROps c1 c2)) as NN. rewrite <- NS in HT.
  assert (D : dist c2 c1 <= r1 + r2).
  { unfold dist. set (n := v3_norm ROps (v3_sub ROps c1 c2)) in *. destruct (Rle_or_lt n (r1 + r2)); auto. exfalso.
    assert ((r1 + r2) * (r1 + r2) < n * n) by (apply Rmult_le_0_lt_compat; lra). lra. }
  pose proof (comp_le_dist axis c1 c2) as C. unfold bp_extents_overlap. cbn [nltb nadd nsub ROps].
  set (x1 := bp_comp c1 axis) in *. set (x2 := bp_comp c2 axis) in *.
  assert (A : - (r1 + r2) <= x1 - x2 <= r1 + r2) by (unfold Rabs in C; destruct (Rcase_abs (x1 - x2)); lra).
  destruct (Rltb (x2 - r2) (x1 - r1)); apply negb_true_iff, Rltb_false; lra. Qed.
(** soundness for all poses and placements: a common point of the two shapes (each shape inside its bounding sphere, in
    its own surface frame) forces the pair through the broad phase *)
Theorem bp_pruning_sound axis XGB1 XBS1 cS1 r1 XGB2 XBS2 cS2 r2 s1 s2 :
  rigid XGB1 -> rigid XBS1 -> rigid XGB2 -> rigid XBS2 -> 0 <= r1 -> 0 <= r2 ->
  dist cS1 s1 <= r1 -> dist cS2 s2 <= r2 ->                           (* s1, s2: points of the shapes, in their surface frames *)
  xf_apply ROps XGB1 (xf_apply ROps XBS1 s1) = xf_apply ROps XGB2 (xf_apply ROps XBS2 s2) ->    (* the same point of Ground *)
  bp_keeps ROps axis XGB1 XBS1 cS1 r1 XGB2 XBS2 cS2 r2 = true.
Proof. intros G1 B1 G2 B2 H1 H2 D1 D2 E. unfold bp_keeps. cbv zeta.
  set (c1 := bp_center_G ROps XGB1 XBS1 cS1). set (c2 := bp_center_G ROps XGB2 XBS2 cS2).
  set (q := xf_apply ROps XGB1 (xf_apply ROps XBS1 s1)) in *.
  assert (Q1 : dist c1 q <= r1) by (unfold c1, q, bp_center_G, bp_center_B; rewrite !xf_dist; auto).
  assert (Q2 : dist c2 q <= r2) by (rewrite E; unfold c2, bp_center_G, bp_center_B; rewrite !xf_dist; auto).
  assert (T : bp_spheres_touch ROps c1 r1 c2 r2 = true).
  { unfold bp_spheres_touch. cbn [nltb nadd nmul ROps]. apply negb_true_iff, Rltb_false.
    pose proof (norm_triangle (v3_sub ROps c1 q) (v3_sub ROps q c2)) as TR.
    replace (v3_add ROps (v3_sub ROps c1 q) (v3_sub ROps q c2)) with (v3_sub ROps c1 c2) in TR by (destruct c1 as [[? ?] ?], c2 as [[? ?] ?], q as [[? ?] ?]; vunf; teq; ring).
    unfold dist in Q1, Q2. rewrite <- (norm_neg (v3_sub ROps q c1)) in Q1.
    replace (v3_neg ROps (v3_sub ROps q c1)) with (v3_sub ROps c1 q) in Q1 by (destruct c1 as [[? ?] ?], q as [[? ?] ?]; vunf; teq; ring).
    pose proof (norm_sq (v3_sub ROps c1 c2)) as NS. pose proof (norm_nonneg (v3_sub ROps c1 c2)) as NN. rewrite <- NS.
    set (n := v3_norm ROps (v3_sub ROps c1 c2)) in *. assert (n <= r1 + r2) by lra. apply Rmult_le_compat; lra. }
  rewrite T, (bp_extent_test_redundant axis c1 r1 c2 r2 H1 H2 T). reflexivity. Qed.
(** the bubble centre moves with the placement: rotation AND translation of X_BS *)
Theorem bp_center_is_transformed_point (XGB XBS:Transform R) cS :
  bp_center_G ROps XGB XBS cS = xf_apply ROps (xf_compose ROps XGB XBS) cS.
Proof. unfold bp_center_G, bp_center_B. dv. vunf. teq; ring. Qed.
(** non-vacuity: the identity transform is rigid *)
Example ex_rigid_identity : rigid (m33_id ROps, (0, 0, 0)).
Proof. intros [[a b] c]. vunf. ring. Qed.
