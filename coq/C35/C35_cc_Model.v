(** C35 (convex-convex detector, closed-form families only): what CollisionDetectionAlgorithm::ConvexConvex must report
    for two ellipsoids (a sphere is the ellipsoid with equal radii) whose principal axes are parallel and whose centres
    lie on a common principal axis u: with ra, rb the semi-axes of the two bodies along u and t the signed offset of
    centre 2 from centre 1 along u,
        depth = ra + rb - |t|,   normal = sign(t) u (from surface 1 towards surface 2),
        location = midpoint of the two axis points = c1 + sign(t) (ra - depth/2) u,
    and no contact when depth <= 0.  For two spheres the effective radius is ra rb/(ra+rb).
    This is a specification-level model (the code reaches these values through MPR + Newton iteration, which is not
    modelled); general convex-convex configurations are outside it.  Generic in [NumOps]; no proofs in this file. *)
From Coq Require Import ZArith List Bool.
Require Import Num Vec.
Section M. Context {T:Type} (K:NumOps T).
Local Notation "x + y" := (nadd K x y). Local Notation "x * y" := (nmul K x y). Local Notation "x - y" := (nsub K x y).
Local Notation "x / y" := (ndiv K x y).
Local Notation "0" := (n0 K). Local Notation "1" := (n1 K).
Local Notation "x <? y" := (nltb K x y).
Definition cc_two : T := nofZ K 2%Z.
Definition cc_sign (t:T) : T := if 0 <? t then 1 else nopp K 1.
Definition cc_depth (ra rb t:T) : T := ra + rb - nabs K t.
(** (depth, normal, location) *)
Definition cc_axis (c1 u:Vec3 T) (ra rb t:T) : option (T * Vec3 T * Vec3 T) :=
  let d := cc_depth ra rb t in let s := cc_sign t in
  if 0 <? d then Some (d, v3_scale K s u, v3_add K c1 (v3_scale K (s * (ra - d / cc_two)) u)) else None.
(** the two surface points on the axis *)
Definition cc_p1 (c1 u:Vec3 T) (ra t:T) : Vec3 T := v3_add K c1 (v3_scale K (cc_sign t * ra) u).
Definition cc_p2 (c1 u:Vec3 T) (rb t:T) : Vec3 T := v3_add K (v3_add K c1 (v3_scale K t u)) (v3_scale K (nopp K (cc_sign t * rb)) u).
Definition cc_sphere_radius (ra rb:T) : T := ra * rb / (ra + rb).
End M.
