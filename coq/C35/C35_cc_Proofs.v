(** C35 proofs for the closed-form families of the convex-convex detector (over the reals): for two axis-parallel
    ellipsoids whose centres lie on a common principal axis the values of C35_cc_Model.v are the exact overlap geometry:
    the two axis points lie on their surfaces with antiparallel outward normals along the axis, the depth is their
    separation, the location their midpoint, and a contact is reported iff the open interiors intersect. *)
From Coq Require Import ZArith Reals Lra Lia List Psatz Bool.
Require Import Num Vec Tactics C34_el_Model C35_Model C35_Proofs C35_cc_Model.
Local Open Scope R_scope.

Definition axis3 (i:nat) : Vec3 R := match i with O => (1, 0, 0) | S O => (0, 1, 0) | _ => (0, 0, 1) end.
Definition comp3 (v:Vec3 R) (i:nat) : R := match i with O => v3_0 v | S O => v3_1 v | _ => v3_2 v end.
Definition pos3 (r:Vec3 R) : Prop := 0 < v3_0 r /\ 0 < v3_1 r /\ 0 < v3_2 r.
(** implicit function (positive inside) and gradient of the ellipsoid with radii r centred at c: C34's model, shifted *)
Definition ell_f (r c x:Vec3 R) : R := el_value ROps (el_make ROps r) (v3_sub ROps x c).
Definition ell_g (r c x:Vec3 R) : Vec3 R := el_gradient ROps (el_make ROps r) (v3_sub ROps x c).
Lemma cc_sign_cases t : t <> 0 -> (0 < t /\ cc_sign ROps t = 1 /\ Rabs t = t) \/ (t < 0 /\ cc_sign ROps t = -1 /\ Rabs t = - t).
Proof. intros H. unfold cc_sign. cbn [nltb nopp n0 n1 ROps]. destruct (Rltb 0 t) eqn:E.
  - apply Rltb_true in E. left. repeat split; auto. apply Rabs_pos_eq; lra.
  - apply Rltb_false in E. right. assert (t < 0) by lra. repeat split; auto. apply Rabs_left; auto. Qed.
Ltac cc_setup r1 r2 c1 i t Ht :=
  destruct r1 as [[a1 b1] d1], r2 as [[a2 b2] d2], c1 as [[x1 y1] z1];
  destruct (cc_sign_cases t Ht) as [(Hs & E & Ha)|(Hs & E & Ha)];
  destruct i as [|[|i]]; cbn [axis3 comp3 v3_0 v3_1 v3_2] in *.
(** the axis points lie on their surfaces *)
Theorem cc_axis_points_on_surfaces r1 r2 c1 i t : pos3 r1 -> pos3 r2 -> t <> 0 ->
  let u := axis3 i in let c2 := v3_add ROps c1 (v3_scale ROps t u) in
  ell_f r1 c1 (cc_p1 ROps c1 u (comp3 r1 i) t) = 0 /\ ell_f r2 c2 (cc_p2 ROps c1 u (comp3 r2 i) t) = 0.
Proof. intros (A1 & B1 & D1) (A2 & B2 & D2) Ht. cbv zeta. cc_setup r1 r2 c1 i t Ht;
  unfold ell_f, el_value, el_make, cc_p1, cc_p2; rewrite E; cbn [el_radii fst]; vunf; split; field; lra. Qed.
(** outward normals (-grad f) at the axis points are antiparallel and along the axis: a common normal line *)
Theorem cc_common_normal r1 r2 c1 i t : pos3 r1 -> pos3 r2 -> t <> 0 ->
  let u := axis3 i in let c2 := v3_add ROps c1 (v3_scale ROps t u) in let s := cc_sign ROps t in
  v3_neg ROps (ell_g r1 c1 (cc_p1 ROps c1 u (comp3 r1 i) t)) = v3_scale ROps (2 / comp3 r1 i) (v3_scale ROps s u) /\
  v3_neg ROps (ell_g r2 c2 (cc_p2 ROps c1 u (comp3 r2 i) t)) = v3_scale ROps (2 / comp3 r2 i) (v3_scale ROps (- s) u).
Proof. intros (A1 & B1 & D1) (A2 & B2 & D2) Ht. cbv zeta. cc_setup r1 r2 c1 i t Ht;
  unfold ell_g, el_gradient, el_make, cc_p1, cc_p2, neg, c2; rewrite E; cbn [el_radii fst]; vunf; simpl IZR; split; teq; field; lra. Qed.
(** depth = separation of the two axis points along the normal; location = their midpoint; normal = direction P1 - P2 *)
Theorem cc_depth_normal_location c1 u ra rb t : t <> 0 ->
  let P1 := cc_p1 ROps c1 u ra t in let P2 := cc_p2 ROps c1 u rb t in let d := cc_depth ROps ra rb t in let s := cc_sign ROps t in
  v3_sub ROps P1 P2 = v3_scale ROps d (v3_scale ROps s u) /\
  (0 < d -> cc_axis ROps c1 u ra rb t = Some (d, v3_scale ROps s u, v3_scale ROps (1 / 2) (v3_add ROps P1 P2))) /\
  (d <= 0 -> cc_axis ROps c1 u ra rb t = None).
Proof. intros Ht. cbv zeta. unfold cc_axis, cc_depth. cbn [nltb nadd nsub nabs n0 ROps].
  destruct (cc_sign_cases t Ht) as [(Hs & E & Ha)|(Hs & E & Ha)]; rewrite E, Ha; destruct c1 as [[x y] z], u as [[u0 u1] u2]; (split; [|split]).
  all: try (unfold cc_p1, cc_p2; rewrite E; vunf; teq; ring).
  all: intros Hd; unfold Rltb; match goal with |- context [Rlt_dec 0 ?d] => destruct (Rlt_dec 0 d) end; try lra; auto.
  all: unfold cc_p1, cc_p2, cc_two; rewrite E; vunf; simpl IZR; apply f_equal; apply f_equal2; [reflexivity|]; teq; field. Qed.
Lemma frac_lt r Q : 0 < r -> Q < r * r -> 0 < 1 - Q / (r * r).
Proof. intros Hr HQ. assert (0 < r * r) by nra. assert (Q / (r * r) < 1). { apply Rmult_lt_reg_r with (r * r); auto. unfold Rdiv. rewrite Rmult_assoc, Rinv_l; lra. } lra. Qed.
Lemma sq_bound X r : 0 < r -> X * X < r * r -> - r < X < r.
Proof. intros Hr H. split; [destruct (Rlt_or_le (- r) X); auto; exfalso; assert (r * r <= (- X) * (- X)) by (apply Rmult_le_compat; lra); lra
                          | destruct (Rlt_or_le X r); auto; exfalso; assert (r * r <= X * X) by (apply Rmult_le_compat; lra); lra]. Qed.
Lemma three_frac A B C ra rb rc : 0 < ra -> 0 < rb -> 0 < rc ->
  0 < 1 - A * A / (ra * ra) - B * B / (rb * rb) - C * C / (rc * rc) -> A * A < ra * ra /\ B * B < rb * rb /\ C * C < rc * rc.
Proof. intros Ha Hb Hc H.
  assert (PA : 0 <= A * A / (ra * ra)) by (apply Rmult_le_pos; [apply sq_nonneg | left; apply Rinv_0_lt_compat; nra]).
  assert (PB : 0 <= B * B / (rb * rb)) by (apply Rmult_le_pos; [apply sq_nonneg | left; apply Rinv_0_lt_compat; nra]).
  assert (PC : 0 <= C * C / (rc * rc)) by (apply Rmult_le_pos; [apply sq_nonneg | left; apply Rinv_0_lt_compat; nra]).
  assert (G : forall X r, 0 < r -> X * X / (r * r) < 1 -> X * X < r * r).
  { intros X r Hr HX. assert (0 < r * r) by nra. apply Rmult_lt_compat_r with (r := r * r) in HX; auto. unfold Rdiv in HX. rewrite Rmult_assoc, Rinv_l in HX; lra. }
  repeat split; apply G; auto; lra. Qed.
Ltac fin Q r := match goal with |- 0 < ?e => replace e with (1 - Q / (r * r)) by (field; lra); apply frac_lt; [assumption | first [assumption | nra]] end.
(** a contact is reported iff the open interiors of the two ellipsoids intersect *)
Theorem cc_contact_iff_overlap r1 r2 c1 i t : pos3 r1 -> pos3 r2 -> t <> 0 ->
  let u := axis3 i in let c2 := v3_add ROps c1 (v3_scale ROps t u) in
  (cc_axis ROps c1 u (comp3 r1 i) (comp3 r2 i) t <> None <-> exists q, 0 < ell_f r1 c1 q /\ 0 < ell_f r2 c2 q).
Proof. intros P1 P2 Ht. cbv zeta. set (ra := comp3 r1 i). set (rb := comp3 r2 i).
  assert (RA : 0 < ra) by (destruct P1 as (? & ? & ?); unfold ra; destruct i as [|[|i]]; cbn; auto).
  assert (RB : 0 < rb) by (destruct P2 as (? & ? & ?); unfold rb; destruct i as [|[|i]]; cbn; auto).
  destruct (cc_depth_normal_location c1 (axis3 i) ra rb t Ht) as (_ & Hpos & Hneg). cbv zeta in Hpos, Hneg.
  unfold cc_depth in *. cbn [nadd nsub nabs ROps] in *.
  destruct (Rlt_or_le 0 (ra + rb - Rabs t)) as [D|D].
  - rewrite (Hpos D). split; [intros _ | discriminate].
    (* a point on the axis at signed distance x from centre 1, x in the overlap of (-ra, ra) and (|t|-rb, |t|+rb) *)
    set (lo := Rmax (- ra) (Rabs t - rb)). set (hi := Rmin ra (Rabs t + rb)).
    assert (AT : 0 < Rabs t) by (apply Rabs_pos_lt; auto).
    assert (LH : lo < hi) by (unfold lo, hi, Rmax, Rmin; destruct (Rle_dec (- ra) (Rabs t - rb)), (Rle_dec ra (Rabs t + rb)); lra).
    assert (L1 : - ra <= lo) by apply Rmax_l. assert (L2 : Rabs t - rb <= lo) by apply Rmax_r.
    assert (H1 : hi <= ra) by apply Rmin_l. assert (H2 : hi <= Rabs t + rb) by apply Rmin_r.
    set (x := (lo + hi) / 2). assert (X1 : - ra < x < ra) by (unfold x; lra). assert (X2 : - rb < x - Rabs t < rb) by (unfold x; lra).
    exists (v3_add ROps c1 (v3_scale ROps (cc_sign ROps t * x) (axis3 i))).
    assert (Q1 : x * x < ra * ra) by nra. assert (Q2 : (x - Rabs t) * (x - Rabs t) < rb * rb) by nra.
    clearbody x. clear Hpos Hneg LH L1 L2 H1 H2. unfold ra, rb in *. clear ra rb.
    destruct r1 as [[a1 b1] d1], r2 as [[a2 b2] d2], c1 as [[x1 y1] z1]. destruct P1 as (A1 & B1 & D1), P2 as (A2 & B2 & D2). cbn [v3_0 v3_1 v3_2] in *.
    destruct (cc_sign_cases t Ht) as [(Hs & E & Ha)|(Hs & E & Ha)]; rewrite E; rewrite Ha in *;
    destruct i as [|[|i]]; cbn [axis3 comp3 v3_0 v3_1 v3_2] in *; unfold ell_f, el_value, el_make; cbn [el_radii fst]; vunf; split.
    all: first [ fin (x * x) a1 | fin (x * x) b1 | fin (x * x) d1
               | fin ((x - t) * (x - t)) a2 | fin ((x - t) * (x - t)) b2 | fin ((x - t) * (x - t)) d2
               | fin ((x - - t) * (x - - t)) a2 | fin ((x - - t) * (x - - t)) b2 | fin ((x - - t) * (x - - t)) d2 ].
  - rewrite (Hneg D). split; [intros H; contradiction H; auto|]. intros (q & Q1 & Q2). exfalso.
    unfold ra, rb in *. clear Hpos Hneg.
    destruct r1 as [[a1 b1] d1], r2 as [[a2 b2] d2], c1 as [[x1 y1] z1], q as [[qx qy] qz]. destruct P1 as (A1 & B1 & D1), P2 as (A2 & B2 & D2). cbn [v3_0 v3_1 v3_2] in *.
    revert Q1 Q2. unfold ell_f, el_value, el_make. cbn [el_radii fst].
    destruct (cc_sign_cases t Ht) as [(Hs & E & Ha)|(Hs & E & Ha)]; rewrite Ha in *;
    destruct i as [|[|i]]; cbn [axis3 comp3 v3_0 v3_1 v3_2] in *; vunf; intros Q1 Q2.
    all: apply three_frac in Q1; auto; apply three_frac in Q2; auto; destruct Q1 as (U1 & U2 & U3), Q2 as (W1 & W2 & W3).
    all: try (apply sq_bound in U1; auto; apply sq_bound in W1; auto; lra).
    all: try (apply sq_bound in U2; auto; apply sq_bound in W2; auto; lra).
    all: try (apply sq_bound in U3; auto; apply sq_bound in W3; auto; lra). Qed.

(** non-vacuity: unit sphere at the origin and the ellipsoid (1/2,1,1) centred at (1.45,0,0): depth 0.05 *)
Example ex_cc_depth : cc_axis ROps (0, 0, 0) (1, 0, 0) 1 (1 / 2) (29 / 20) = Some (1 / 20, (1, 0, 0), (39 / 40, 0, 0)).
Proof. unfold cc_axis, cc_depth, cc_sign, cc_two. cbn [nltb nadd nsub nabs nmul ndiv nopp nofZ n0 n1 ROps]. simpl IZR.
  rewrite (Rabs_pos_eq (29 / 20)) by lra. rewrite (proj2 (Rltb_true 0 (29 / 20))) by lra.
  rewrite (proj2 (Rltb_true 0 (1 + 1 / 2 - 29 / 20))) by lra. vunf. apply f_equal. apply f_equal2; [apply f_equal2|]; teq; field. Qed.
