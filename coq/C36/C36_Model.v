(** C36 (mesh queries match brute force; bounding volumes contain) - thin partial: executable model.
    Hand-written, polymorphic in NumOps (theorems over ROps, correspondence with the float instance):
    - closed-form point-triangle nearest point (Ericson, Real-Time Collision Detection 5.1.5) and the brute-force
      nearest point / inside flag / ray hit over a face list,
    - the oriented-bounding-box containment predicate (OrientedBoundingBox::containsPoint) and the nearest point of a box,
    - a CHECKER for an OBB tree dumped from the real ContactGeometry::TriangleMesh (every node box contains every vertex
      of every triangle below it; the leaves hold every face),
    - a CHECKER for the mesh adjacency tables (face/edge/vertex incidence),
    - the pruned tree search of OBBTreeNodeImpl::findNearestPoint over an abstract tree (section Prune, over R).
    No proofs in this file. *)
From Coq Require Import List Arith ZArith Bool Reals.
Require Import Num Vec.
Import ListNotations.

Section Geo.
Context {T : Type} (K : NumOps T).
Local Notation "a + b" := (nadd K a b). Local Notation "a - b" := (nsub K a b).
Local Notation "a * b" := (nmul K a b). Local Notation "a / b" := (ndiv K a b).
Local Notation "a <=? b" := (nleb K a b). Local Notation "a <? b" := (nltb K a b).
Local Notation "0" := (n0 K). Local Notation "1" := (n1 K).
Let vsub := v3_sub K. Let vadd := v3_add K. Let dot := v3_dot K. Let scale := v3_scale K. Let cross := v3_cross K.

(** closest point of triangle abc to p, with its barycentric weights (wa, wb, wc) *)
Definition closest_bary (p a b c : Vec3 T) : T * T * T :=
  let ab := vsub b a in let ac := vsub c a in let ap := vsub p a in
  let d1 := dot ab ap in let d2 := dot ac ap in
  if (d1 <=? 0) && (d2 <=? 0) then (1, 0, 0) else
  let bp := vsub p b in let d3 := dot ab bp in let d4 := dot ac bp in
  if (0 <=? d3) && (d4 <=? d3) then (0, 1, 0) else
  let vc := d1 * d4 - d3 * d2 in
  if (vc <=? 0) && (0 <=? d1) && (d3 <=? 0) then let v := d1 / (d1 - d3) in (1 - v, v, 0) else
  let cp := vsub p c in let d5 := dot ab cp in let d6 := dot ac cp in
  if (0 <=? d6) && (d5 <=? d6) then (0, 0, 1) else
  let vb := d5 * d2 - d1 * d6 in
  if (vb <=? 0) && (0 <=? d2) && (d6 <=? 0) then let w := d2 / (d2 - d6) in (1 - w, 0, w) else
  let va := d3 * d6 - d5 * d4 in
  if (va <=? 0) && (0 <=? d4 - d3) && (0 <=? d5 - d6) then let w := (d4 - d3) / ((d4 - d3) + (d5 - d6)) in (0, 1 - w, w) else
  let den := va + vb + vc in (va / den, vb / den, vc / den).
Definition bary_point (w : T * T * T) (a b c : Vec3 T) : Vec3 T :=
  let '(wa, wb, wc) := w in vadd (vadd (scale wa a) (scale wb b)) (scale wc c).
Definition closest_pt_tri (p a b c : Vec3 T) : Vec3 T := bary_point (closest_bary p a b c) a b c.
Definition dist2_pt_tri (p a b c : Vec3 T) : T := v3_normSqr K (vsub (closest_pt_tri p a b c) p).

Definition vert (vs : list (Vec3 T)) (i : nat) : Vec3 T := nth i vs (v3_zero K).
Definition unit_normal (a b c : Vec3 T) : Vec3 T :=
  let n := cross (vsub b a) (vsub c a) in scale (1 / nsqrt K (v3_normSqr K n)) n.

(** brute force over all faces, with the tie rule of the implementation's leaf loop (within (1+tol) the face whose plane is
    most perpendicular to the offset wins); result: (squared distance, face index, |offset.normal|, offset.normal) *)
Definition nearest_brute (tol : T) (vs : list (Vec3 T)) (fs : list (nat * nat * nat)) (p : Vec3 T) : option (T * nat * T * T) :=
  fst (fold_left (fun (st : option (T * nat * T * T) * nat) (f : nat * nat * nat) =>
    let '(best, k) := st in let '(i0, i1, i2) := f in
    let a := vert vs i0 in let b := vert vs i1 in let c := vert vs i2 in
    let off := vsub (closest_pt_tri p a b c) p in let d2 := v3_normSqr K off in
    let sd := dot off (unit_normal a b c) in let ad := nabs K sd in
    let cand := Some (d2, k, ad, sd) in
    (match best with
     | None => cand
     | Some (bd2, _, bad, _) => if (d2 <? bd2) || ((d2 <? bd2 * (1 + tol)) && (bad <? ad)) then cand else best
     end, S k)) fs (None, O)).
(** inside <-> (position - nearest) . normal < 0  <->  offset . normal > 0 *)
Definition inside_brute (tol : T) vs fs p : bool :=
  match nearest_brute tol vs fs p with Some (_, _, _, sd) => 0 <? sd | None => false end.

(** ray o + t d (t >= 0) against triangle abc: plane hit, then the hit point must have non-negative edge functions *)
Definition ray_tri (o d a b c : Vec3 T) : option T :=
  let n := cross (vsub b a) (vsub c a) in
  let vd := dot n d in
  if (vd <=? 0) && (0 <=? vd) then None else
  let t := dot n (vsub a o) / vd in
  if t <? 0 then None else
  let r := vadd o (scale t d) in
  let e1 := dot n (cross (vsub b a) (vsub r a)) in
  let e2 := dot n (cross (vsub c b) (vsub r b)) in
  let e3 := dot n (cross (vsub a c) (vsub r c)) in
  if (0 <=? e1) && (0 <=? e2) && (0 <=? e3) then Some t else None.
Definition ray_brute vs (fs : list (nat * nat * nat)) (o d : Vec3 T) : option T :=
  fold_left (fun best f => let '(i0, i1, i2) := f in
    match ray_tri o d (vert vs i0) (vert vs i1) (vert vs i2), best with
    | Some t, Some bt => if t <? bt then Some t else best
    | Some t, None => Some t
    | None, _ => best end) fs None.

(** number of faces a ray crosses: for a closed mesh its parity is the ground truth of "the origin is inside" *)
Definition ray_hits vs (fs : list (nat * nat * nat)) (o d : Vec3 T) : nat :=
  length (filter (fun f : nat * nat * nat => let '(i0, i1, i2) := f in
                    match ray_tri o d (vert vs i0) (vert vs i1) (vert vs i2) with Some _ => true | None => false end) fs).
Definition inside_parity vs fs (p d : Vec3 T) : bool := Nat.odd (ray_hits vs fs p d).

(** OrientedBoundingBox: frame (R, origin), extent [0,size] along each axis of the frame *)
Definition obox := (Transform T * Vec3 T)%type.
Definition to_box_frame (bx : obox) (p : Vec3 T) : Vec3 T := let '((R, o), _) := bx in m33_Tmulv K R (vsub p o).
Definition in_interval (tol lo hi x : T) : bool := (lo - tol <=? x) && (x <=? hi + tol).
Definition box_contains (tol : T) (bx : obox) (p : Vec3 T) : bool :=
  let '(q0, q1, q2) := to_box_frame bx p in let '(s0, s1, s2) := snd bx in
  in_interval tol 0 s0 q0 && in_interval tol 0 s1 q1 && in_interval tol 0 s2 q2.
Definition clamp (lo hi x : T) : T := if x <? lo then lo else if hi <? x then hi else x.
(** squared distance from p to the box (OrientedBoundingBox::findNearestPoint, measured in the box frame) *)
Definition box_dist2 (bx : obox) (p : Vec3 T) : T :=
  let '(q0, q1, q2) := to_box_frame bx p in let '(s0, s1, s2) := snd bx in
  let e0 := clamp 0 s0 q0 - q0 in let e1 := clamp 0 s1 q1 - q1 in let e2 := clamp 0 s2 q2 - q2 in e0 * e0 + e1 * e1 + e2 * e2.

(** bounding sphere (Geo::Sphere, TriangleMesh::getBoundingSphere): center c, radius r *)
Definition sphere_contains (tol : T) (c : Vec3 T) (r : T) (p : Vec3 T) : bool :=
  v3_normSqr K (vsub p c) <=? (r + tol) * (r + tol).

(** the dumped OBB tree *)
Inductive otree := OLeaf (bx : obox) (tris : list nat) | ONode (bx : obox) (l r : otree).
Fixpoint tree_faces (t : otree) : list nat :=
  match t with OLeaf _ ts => ts | ONode _ l r => tree_faces l ++ tree_faces r end.
Definition tree_box (t : otree) : obox := match t with OLeaf b _ => b | ONode b _ _ => b end.
Definition face_in_box tol vs (fs : list (nat * nat * nat)) (bx : obox) (f : nat) : bool :=
  let '(i0, i1, i2) := nth f fs (O, O, O) in
  (f <? length fs)%nat && box_contains tol bx (vert vs i0) && box_contains tol bx (vert vs i1) && box_contains tol bx (vert vs i2).
Fixpoint tree_ok tol vs fs (t : otree) : bool :=
  forallb (face_in_box tol vs fs (tree_box t)) (tree_faces t) &&
  match t with OLeaf _ _ => true | ONode _ l r => tree_ok tol vs fs l && tree_ok tol vs fs r end.
Definition tree_covers (nfaces : nat) (t : otree) : bool :=
  forallb (fun f => existsb (Nat.eqb f) (tree_faces t)) (seq 0 nfaces) && (length (tree_faces t) =? nfaces)%nat.
End Geo.

(** ** adjacency tables of TriangleMesh: faceVertex, faceEdge : face -> 3 indices; edgeVertex : edge -> 2 vertices;
    edgeFace : edge -> first face, optional second face *)
Definition tri3 := (nat * nat * nat)%type.
Definition in3 (x : nat) (t : tri3) : bool := let '(a, b, c) := t in (x =? a) || (x =? b) || (x =? c).
Definition edge_has_face (ef : nat * option nat) (f : nat) : bool :=
  (fst ef =? f) || match snd ef with Some g => g =? f | None => false end.
Definition adjacency_ok (nverts : nat) (fv fe : list tri3) (ev : list (nat * nat)) (ef : list (nat * option nat)) : bool :=
  (length fv =? length fe) && (length ev =? length ef) &&
  (* every face: distinct vertices in range; each of its edges lists the face and joins two of its vertices *)
  forallb (fun k => let v := nth k fv (0, 0, 0) in let e := nth k fe (0, 0, 0) in
            let '(a, b, c) := v in
            (a <? nverts) && (b <? nverts) && (c <? nverts) && negb (a =? b) && negb (b =? c) && negb (a =? c) &&
            forallb (fun x => (x <? length ev) && edge_has_face (nth x ef (0, None)) k &&
                              in3 (fst (nth x ev (0, 0))) v && in3 (snd (nth x ev (0, 0))) v)
                    (let '(e0, e1, e2) := e in [e0; e1; e2]))
          (seq 0 (length fv)) &&
  (* every edge: two different vertices, one or two different faces, and each listed face lists the edge *)
  forallb (fun x => let '(p, q) := nth x ev (0, 0) in let f := nth x ef (0, None) in
            negb (p =? q) && (fst f <? length fv) && in3 x (nth (fst f) fe (0, 0, 0)) &&
            match snd f with Some g => (g <? length fv) && negb (g =? fst f) && in3 x (nth g fe (0, 0, 0)) | None => true end)
          (seq 0 (length ev)).

(** ** the pruned nearest-face search of OBBTreeNodeImpl::findNearestPoint over an abstract tree, for a fixed query point:
    [dist f] = squared distance to face f, [lb b] = squared distance to box b, INF = MostPositiveReal.
    (The implementation's relative tie tolerance 100 eps is taken as 0 here.) *)
Section Prune.
Variable face box : Type.
Variable dist : face -> R.
Variable lb : box -> R.
Variable INF : R.
Inductive ptree := PLeaf (b : box) (fs : list face) | PNode (b : box) (l r : ptree).
Definition pbox (t : ptree) : box := match t with PLeaf b _ => b | PNode b _ _ => b end.
Fixpoint pfaces (t : ptree) : list face := match t with PLeaf _ fs => fs | PNode _ l r => pfaces l ++ pfaces r end.
Definition brute (fs : list face) : R := fold_right (fun f m => Rmin (dist f) m) INF fs.
Fixpoint psearch (cutoff : R) (t : ptree) : R :=
  match t with
  | PLeaf _ fs => brute fs
  | PNode _ l r =>
      let d1 := lb (pbox l) in let d2 := lb (pbox r) in
      if Rltb d1 d2 then
        if Rltb d1 cutoff then
          let c1 := psearch cutoff l in
          let c2 := if Rltb d2 c1 && Rltb d2 cutoff then psearch cutoff r else INF in Rmin c1 c2
        else INF
      else
        if Rltb d2 cutoff then
          let c2 := psearch cutoff r in
          let c1 := if Rltb d1 c2 && Rltb d1 cutoff then psearch cutoff l else INF in Rmin c1 c2
        else INF
  end.
End Prune.
