(** C36 proofs (thin partial) about coq/C36/C36_Model.v. *)
From Coq Require Import List Arith ZArith Bool Reals Lra Lia Psatz.
Require Import Num Vec Tactics C36_Model.
Import ListNotations.
Local Open Scope R_scope.
Arguments PLeaf {face box}. Arguments PNode {face box}.

(** ** the pruned OBB-tree search returns the brute-force minimum *)
Section PruneProofs.
Variable face box : Type.
Variable dist : face -> R.
Variable lb : box -> R.
Variable INF : R.
Hypothesis dist_lt_INF : forall f, dist f < INF.          (* distances are below MostPositiveReal *)
Hypothesis lb_le_INF : forall b, lb b <= INF.
Notation ptree := (ptree face box).
Notation brute := (brute face dist INF).
Notation psearch := (psearch face box dist lb INF).

(** every node's box distance is a lower bound for the distance to every face stored below that node: this is what
    "the box contains its triangles" + "the box distance is a lower bound for points of the box" give *)
Fixpoint boxes_ok (t : ptree) : Prop :=
  (forall f, In f (pfaces face box t) -> lb (pbox face box t) <= dist f) /\
  match t with PLeaf _ _ => True | PNode _ l r => boxes_ok l /\ boxes_ok r end.

Lemma boxes_ok_faces t : boxes_ok t -> forall f, In f (pfaces face box t) -> lb (pbox face box t) <= dist f.
Proof. destruct t; intros [H _]; exact H. Qed.
Lemma brute_nil : brute [] = INF. Proof. reflexivity. Qed.
Lemma brute_cons f fs : brute (f :: fs) = Rmin (dist f) (brute fs). Proof. reflexivity. Qed.
Lemma brute_le_INF fs : brute fs <= INF.
Proof. induction fs as [|f fs IH]. rewrite brute_nil; lra. rewrite brute_cons. apply Rle_trans with (brute fs); auto. apply Rmin_r. Qed.
Lemma brute_app a b : brute (a ++ b) = Rmin (brute a) (brute b).
Proof.
  induction a as [|f a IH]; cbn [app]. { rewrite brute_nil, Rmin_right; auto. apply brute_le_INF. }
  rewrite !brute_cons, IH, Rmin_assoc. reflexivity.
Qed.
Lemma brute_lower fs m : (forall f, In f fs -> m <= dist f) -> m <= INF -> m <= brute fs.
Proof.
  induction fs as [|f fs IH]; intros H L. rewrite brute_nil; auto.
  rewrite brute_cons. apply Rmin_glb. apply H; left; auto. apply IH; auto. intros g Hg. apply H; right; auto.
Qed.
Lemma brute_le_each fs g : In g fs -> brute fs <= dist g.
Proof.
  induction fs as [|x xs IH]; intros Hg; [destruct Hg|]. rewrite brute_cons. destruct Hg as [->|Hg].
  apply Rmin_l. eapply Rle_trans; [apply Rmin_r | apply IH; auto].
Qed.
Lemma brute_in fs : fs <> [] -> exists f, In f fs /\ brute fs = dist f.
Proof.
  induction fs as [|f fs IH]; [congruence|]. intros _. destruct fs as [|g fs].
  - exists f. split; [left; auto|]. rewrite brute_cons, brute_nil. apply Rmin_left. left. apply dist_lt_INF.
  - destruct (IH ltac:(discriminate)) as (h & Hh & E). rewrite brute_cons.
    unfold Rmin at 1. destruct (Rle_dec _ _).
    + exists f. split; [left; auto|]. reflexivity.
    + exists h. split; [right; auto|]. exact E.
Qed.
Lemma brute_lt_INF fs : fs <> [] -> brute fs < INF.
Proof. intro H. destruct (brute_in fs H) as (f & _ & E). rewrite E. apply dist_lt_INF. Qed.

(** the result never undercuts the true minimum, and equals it whenever the true minimum is below the cutoff *)
Lemma node_case (B1 B2 d1 d2 S1 S2 S1' S2' cutoff : R) :
  d1 <= B1 -> d2 <= B2 -> B1 <= INF -> B2 <= INF ->
  B1 <= S1 -> S1 <= INF -> (B1 < cutoff -> S1 = B1) ->
  B2 <= S2 -> S2 <= INF -> (B2 < cutoff -> S2 = B2) ->
  let res := if Rltb d1 d2 then
               (if Rltb d1 cutoff then Rmin S1 (if Rltb d2 S1 && Rltb d2 cutoff then S2 else INF) else INF)
             else
               (if Rltb d2 cutoff then Rmin (if Rltb d1 S2 && Rltb d1 cutoff then S1 else INF) S2 else INF) in
  Rmin B1 B2 <= res /\ res <= INF /\ (Rmin B1 B2 < cutoff -> res = Rmin B1 B2).
Proof.
  intros. subst res.
  destruct (Rltb d1 d2) eqn:E12; [apply Rltb_true in E12 | apply Rltb_false in E12].
  - destruct (Rltb d1 cutoff) eqn:E1c; [apply Rltb_true in E1c | apply Rltb_false in E1c].
    + destruct (Rltb d2 S1) eqn:E2s; [apply Rltb_true in E2s | apply Rltb_false in E2s];
      destruct (Rltb d2 cutoff) eqn:E2c; [apply Rltb_true in E2c | apply Rltb_false in E2c | apply Rltb_true in E2c | apply Rltb_false in E2c];
      cbn [andb]; unfold Rmin; repeat destruct (Rle_dec _ _); repeat split; intros; try lra;
      try (assert (S1 = B1) by (apply H5; lra)); try (assert (S2 = B2) by (apply H8; lra)); try lra.
    + unfold Rmin; repeat destruct (Rle_dec _ _); repeat split; intros; lra.
  - destruct (Rltb d2 cutoff) eqn:E2c; [apply Rltb_true in E2c | apply Rltb_false in E2c].
    + destruct (Rltb d1 S2) eqn:E1s; [apply Rltb_true in E1s | apply Rltb_false in E1s];
      destruct (Rltb d1 cutoff) eqn:E1c; [apply Rltb_true in E1c | apply Rltb_false in E1c | apply Rltb_true in E1c | apply Rltb_false in E1c];
      cbn [andb]; unfold Rmin; repeat destruct (Rle_dec _ _); repeat split; intros; try lra;
      try (assert (S1 = B1) by (apply H5; lra)); try (assert (S2 = B2) by (apply H8; lra)); try lra.
    + unfold Rmin; repeat destruct (Rle_dec _ _); repeat split; intros; lra.
Qed.

Lemma psearch_spec t : boxes_ok t -> forall cutoff,
  brute (pfaces face box t) <= psearch cutoff t /\ psearch cutoff t <= INF /\
  (brute (pfaces face box t) < cutoff -> psearch cutoff t = brute (pfaces face box t)).
Proof.
  induction t as [b fs | b l IHl r IHr]; intros Hok cutoff.
  - cbn [pfaces psearch C36_Model.psearch]. repeat split; try lra. apply brute_le_INF.
  - destruct Hok as (_ & Hl & Hr).
    assert (Ll : lb (pbox face box l) <= brute (pfaces face box l)) by (apply brute_lower; [apply (boxes_ok_faces l Hl) | apply lb_le_INF]).
    assert (Lr : lb (pbox face box r) <= brute (pfaces face box r)) by (apply brute_lower; [apply (boxes_ok_faces r Hr) | apply lb_le_INF]).
    destruct (IHl Hl cutoff) as (A1 & A2 & A3). destruct (IHr Hr cutoff) as (C1 & C2 & C3).
    cbn [pfaces psearch C36_Model.psearch]. rewrite brute_app.
    apply (node_case _ _ _ _ _ _ 0 0 cutoff Ll Lr (brute_le_INF _) (brute_le_INF _) A1 A2 A3 C1 C2 C3).
Qed.

(** obb_tree_prune_sound: started at the root with cutoff MostPositiveReal (as TriangleMesh::findNearestPoint does), the pruned
    search returns exactly the brute-force minimum over ALL faces of the tree *)
Theorem obb_tree_prune_sound t : boxes_ok t -> psearch INF t = brute (pfaces face box t).
Proof.
  intro H. destruct (psearch_spec t H INF) as (A & B & C).
  destruct (pfaces face box t) as [|f fs] eqn:E.
  - rewrite brute_nil in *. lra.
  - apply C. apply brute_lt_INF. discriminate.
Qed.
(** ... and that minimum is attained by a face of the mesh *)
Theorem obb_tree_search_attained t : boxes_ok t -> pfaces face box t <> [] ->
  exists f, In f (pfaces face box t) /\ psearch INF t = dist f /\ forall g, In g (pfaces face box t) -> dist f <= dist g.
Proof.
  intros H N. rewrite (obb_tree_prune_sound t H). destruct (brute_in _ N) as (f & Hf & E). exists f. repeat split; auto.
  intros g Hg. rewrite <- E. apply brute_le_each. exact Hg.
Qed.
End PruneProofs.

(** ** boxes *)
Definition Rin_box (bx : obox (T:=R)) (tol : R) (p : Vec3 R) : Prop := box_contains ROps tol bx p = true.
Lemma in_interval_iff tol lo hi x : in_interval ROps tol lo hi x = true <-> lo - tol <= x <= hi + tol.
Proof. unfold in_interval; cbn. rewrite andb_true_iff, !Rleb_true. tauto. Qed.
(** a box is convex: containing the three vertices of a triangle means containing every point of the triangle; this is why
    checking the vertices (tree_ok) is checking the triangles *)
Theorem box_contains_convex bx tol a b c u v w :
  Rin_box bx tol a -> Rin_box bx tol b -> Rin_box bx tol c -> 0 <= u -> 0 <= v -> 0 <= w -> u + v + w = 1 ->
  Rin_box bx tol (v3_add ROps (v3_add ROps (v3_scale ROps u a) (v3_scale ROps v b)) (v3_scale ROps w c)).
Proof.
  unfold Rin_box, box_contains, to_box_frame. destruct bx as [[R o] [[s0 s1] s2]].
  destruct R as [[[[r00 r01] r02] [[r10 r11] r12]] [[r20 r21] r22]]. destruct o as [[ox oy] oz].
  destruct a as [[a0 a1] a2]; destruct b as [[b0 b1] b2]; destruct c as [[c0 c1] c2].
  cbn [snd]. unfold m33_Tmulv, m33_mulv, m33_T, m33_c0, m33_c1, m33_c2, v3_0, v3_1, v3_2, v3_dot, v3_sub, v3_add, v3_scale. cbn [nadd nsub nmul ROps n0].
  rewrite !andb_true_iff, !in_interval_iff. intros [[A0 A1] A2] [[B0 B1] B2] [[C0 C1] C2] U V W S.
  assert (E : w = 1 - u - v) by lra. subst w.
  repeat split; nra.
Qed.

(** the clamped point is the nearest point of the box: its squared distance (box_dist2, measured in the box frame, which is a
    rigid image of the world frame) is a lower bound for the squared distance to every point of the box *)
Lemma clamp_nearest lo hi x y : lo <= hi -> lo <= y <= hi ->
  (clamp ROps lo hi x - x) * (clamp ROps lo hi x - x) <= (y - x) * (y - x).
Proof.
  unfold clamp; cbn. intros L Y. destruct (Rltb x lo) eqn:E1; [apply Rltb_true in E1 | apply Rltb_false in E1].
  - assert (0 <= lo - x) by lra. assert (lo - x <= y - x) by lra. nra.
  - destruct (Rltb hi x) eqn:E2; [apply Rltb_true in E2 | apply Rltb_false in E2].
    + assert (0 <= x - hi) by lra. assert (x - hi <= x - y) by lra. nra.
    + pose proof (Rle_0_sqr (y - x)) as Q. unfold Rsqr in Q. nra.
Qed.
Theorem box_dist2_lower_bound_in_frame (s0 s1 s2 q0 q1 q2 y0 y1 y2 : R) :
  0 <= s0 -> 0 <= s1 -> 0 <= s2 -> 0 <= y0 <= s0 -> 0 <= y1 <= s1 -> 0 <= y2 <= s2 ->
  let I : Mat33 R := ((1, 0, 0), (0, 1, 0), (0, 0, 1)) in
  box_dist2 ROps ((I, (0, 0, 0)), (s0, s1, s2)) (q0, q1, q2) <= (y0 - q0) * (y0 - q0) + (y1 - q1) * (y1 - q1) + (y2 - q2) * (y2 - q2).
Proof.
  intros S0 S1 S2 Y0 Y1 Y2 I. unfold box_dist2, to_box_frame, I, m33_Tmulv, m33_mulv, m33_T, m33_c0, m33_c1, m33_c2, v3_0, v3_1, v3_2, v3_dot, v3_sub.
  cbn [snd nadd nsub nmul ROps n0 n1].
  replace (1 * (q0 - 0) + 0 * (q1 - 0) + 0 * (q2 - 0)) with q0 by ring.
  replace (0 * (q0 - 0) + 1 * (q1 - 0) + 0 * (q2 - 0)) with q1 by ring.
  replace (0 * (q0 - 0) + 0 * (q1 - 0) + 1 * (q2 - 0)) with q2 by ring.
  pose proof (clamp_nearest 0 s0 q0 y0 S0 Y0). pose proof (clamp_nearest 0 s1 q1 y1 S1 Y1). pose proof (clamp_nearest 0 s2 q2 y2 S2 Y2).
  cbn [ROps n0] in *. lra.
Qed.

(** ** soundness of the certificate checkers *)
Theorem tree_ok_sound {T} (K : NumOps T) tol vs fs (t : otree (T:=T)) :
  tree_ok K tol vs fs t = true ->
  (forall f, In f (tree_faces t) -> face_in_box K tol vs fs (tree_box t) f = true) /\
  match t with OLeaf _ _ => True | ONode _ l r => tree_ok K tol vs fs l = true /\ tree_ok K tol vs fs r = true end.
Proof.
  destruct t; cbn [tree_ok]; rewrite andb_true_iff; intros [A B]; split; try (apply forallb_forall; exact A); auto.
  apply andb_true_iff in B. exact B.
Qed.
(** every node box contains every vertex of every face below it, for the node itself and all its descendants *)
Fixpoint all_nodes_contain {T} (K : NumOps T) tol vs fs (t : otree (T:=T)) : Prop :=
  (forall f, In f (tree_faces t) -> face_in_box K tol vs fs (tree_box t) f = true) /\
  match t with OLeaf _ _ => True | ONode _ l r => all_nodes_contain K tol vs fs l /\ all_nodes_contain K tol vs fs r end.
Theorem tree_ok_all_nodes {T} (K : NumOps T) tol vs fs (t : otree (T:=T)) :
  tree_ok K tol vs fs t = true -> all_nodes_contain K tol vs fs t.
Proof.
  induction t as [b ts | b l IHl r IHr]; intro H; destruct (tree_ok_sound K tol vs fs _ H) as [A B]; cbn; split; auto.
  destruct B. split; auto.
Qed.
(** containment is inherited upwards: the box of a node, built from the union of the vertices below it, contains what each
    child's subtree holds *)
Theorem parent_box_contains_children {T} (K : NumOps T) tol vs fs b (l r : otree (T:=T)) f :
  tree_ok K tol vs fs (ONode b l r) = true -> In f (tree_faces l) \/ In f (tree_faces r) -> face_in_box K tol vs fs b f = true.
Proof.
  intros H D. destruct (tree_ok_sound K tol vs fs _ H) as [A _]. apply A. cbn. apply in_or_app. exact D.
Qed.
Theorem tree_covers_sound {T} n (t : otree (T:=T)) :
  tree_covers n t = true -> (forall f, (f < n)%nat -> In f (tree_faces t)) /\ length (tree_faces t) = n.
Proof.
  unfold tree_covers. rewrite andb_true_iff. intros [A B]. split; [|apply Nat.eqb_eq; exact B].
  intros f L. rewrite forallb_forall in A. specialize (A f ltac:(apply in_seq; lia)).
  apply existsb_exists in A. destruct A as (x & Hx & E). apply Nat.eqb_eq in E. subst. exact Hx.
Qed.

(** adjacency: every face's edges list the face and join two of its vertices; every edge has two different vertices and one or
    two different faces, each of which lists the edge (face/edge incidence is symmetric) *)
Theorem adjacency_ok_sound nverts fv fe ev ef :
  adjacency_ok nverts fv fe ev ef = true ->
  length fv = length fe /\ length ev = length ef /\
  (forall k, (k < length fv)%nat ->
     let '(a, b, c) := nth k fv (0, 0, 0)%nat in
     (a < nverts /\ b < nverts /\ c < nverts /\ a <> b /\ b <> c /\ a <> c)%nat /\
     forall x, In x (let '(e0, e1, e2) := nth k fe (0, 0, 0)%nat in [e0; e1; e2]) ->
       (x < length ev)%nat /\ edge_has_face (nth x ef (0%nat, None)) k = true /\
       in3 (fst (nth x ev (0, 0)%nat)) (nth k fv (0, 0, 0)%nat) = true /\ in3 (snd (nth x ev (0, 0)%nat)) (nth k fv (0, 0, 0)%nat) = true) /\
  (forall x, (x < length ev)%nat ->
     fst (nth x ev (0, 0)%nat) <> snd (nth x ev (0, 0)%nat) /\
     (fst (nth x ef (0%nat, None)) < length fv)%nat /\ in3 x (nth (fst (nth x ef (0%nat, None))) fe (0, 0, 0)%nat) = true /\
     match snd (nth x ef (0%nat, None)) with
     | Some g => (g < length fv)%nat /\ g <> fst (nth x ef (0%nat, None)) /\ in3 x (nth g fe (0, 0, 0)%nat) = true
     | None => True end).
Proof.
  unfold adjacency_ok. rewrite !andb_true_iff. intros [[[L1 L2] F] E].
  apply Nat.eqb_eq in L1, L2. repeat split; auto.
  - intros k Hk. rewrite forallb_forall in F. specialize (F k ltac:(apply in_seq; lia)).
    destruct (nth k fv (0, 0, 0)%nat) as [[a b] c] eqn:Ev. rewrite !andb_true_iff in F.
    destruct F as [[[[[[A B] C] D] G] H] I]. rewrite !negb_true_iff in *.
    apply Nat.ltb_lt in A, B, C. apply Nat.eqb_neq in D, G, H. split; [repeat split; auto|].
    intros x Hx. rewrite forallb_forall in I. specialize (I x Hx). rewrite !andb_true_iff in I.
    destruct I as [[[I1 I2] I3] I4]. apply Nat.ltb_lt in I1. repeat split; auto.
  - rewrite forallb_forall in E. specialize (E x ltac:(apply in_seq; lia)).
    destruct (nth x ev (0, 0)%nat) as [p q]. rewrite !andb_true_iff in E. destruct E as [[[A _] _] _].
    rewrite negb_true_iff in A. apply Nat.eqb_neq in A. exact A.
  - rewrite forallb_forall in E. specialize (E x ltac:(apply in_seq; lia)).
    destruct (nth x ev (0, 0)%nat) as [p q]. rewrite !andb_true_iff in E. destruct E as [[[_ B] _] _]. apply Nat.ltb_lt in B. exact B.
  - rewrite forallb_forall in E. specialize (E x ltac:(apply in_seq; lia)).
    destruct (nth x ev (0, 0)%nat) as [p q]. rewrite !andb_true_iff in E. destruct E as [[[_ _] C] _]. exact C.
  - rewrite forallb_forall in E. specialize (E x ltac:(apply in_seq; lia)).
    destruct (nth x ev (0, 0)%nat) as [p q]. rewrite !andb_true_iff in E. destruct E as [_ D].
    destruct (snd (nth x ef (0%nat, None))) as [g|]; auto. rewrite !andb_true_iff in D. destruct D as [[D1 D2] D3].
    apply Nat.ltb_lt in D1. rewrite negb_true_iff in D2. apply Nat.eqb_neq in D2. auto.
Qed.

(** ** non-vacuity *)
Definition ex_t : ptree nat nat := PNode 0%nat (PLeaf 1%nat [0%nat; 1%nat]) (PLeaf 2%nat [2%nat]).
Definition ex_dist (f : nat) : R := match f with 0%nat => 5 | 1%nat => 3 | _ => 4 end.
Definition ex_lb (b : nat) : R := match b with 1%nat => 2 | 2%nat => 7/2 | _ => 1 end.
Example ex_boxes_ok : boxes_ok nat nat ex_dist ex_lb ex_t.
Proof. cbn. repeat split; intros f Hf; cbn in Hf; repeat (destruct Hf as [<-|Hf]; [cbn; lra|]); destruct Hf. Qed.
Example ex_prune : psearch nat nat ex_dist ex_lb 100 100 ex_t = 3.
Proof.
  rewrite (obb_tree_prune_sound nat nat ex_dist ex_lb 100).
  - cbn. unfold Rmin. repeat destruct (Rle_dec _ _); lra.
  - intro f. unfold ex_dist. destruct f as [|[|f]]; lra.
  - intro b. unfold ex_lb. destruct b as [|[|[|b]]]; lra.
  - apply ex_boxes_ok.
Qed.
