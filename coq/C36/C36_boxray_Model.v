(** C36, box/ray part: OrientedBoundingBox::intersectsRay (OrientedBoundingBox.cpp) - the slab test the OBB tree prunes with in
    TriangleMesh::intersectsRay.  The ray is taken into the box frame; per axis: a direction component that is EXACTLY zero only
    checks the origin against [0, size]; otherwise the entry/exit parameters -o/d and (size-o)/d narrow [minDist, maxDist], and the
    test fails as soon as minDist > maxDist or maxDist < 0.  minDist/maxDist start at MostNegativeReal/MostPositiveReal: None here.
    Result: Some (max minDist 0) = "hit, at this distance", None = "no hit".  Polymorphic in NumOps; no proofs here. *)
From Coq Require Import List Bool Reals.
Require Import Num Vec C36_Model.
Import ListNotations.

Section BoxRay.
Context {T : Type} (K : NumOps T).
Local Notation "a - b" := (nsub K a b). Local Notation "a / b" := (ndiv K a b).
Local Notation "a <=? b" := (nleb K a b). Local Notation "a <? b" := (nltb K a b).
Local Notation "0" := (n0 K).

Definition interval := (option T * option T)%type.
Definition slab (lohi : interval) (o d s : T) : option interval :=
  let '(lo, hi) := lohi in
  if (d <=? 0) && (0 <=? d) then (if (o <? 0) || (s <? o) then None else Some (lo, hi))
  else
    let d1 := nopp K o / d in let d2 := (s - o) / d in
    let a := if d1 <? d2 then d1 else d2 in let b := if d1 <? d2 then d2 else d1 in
    let lo' := match lo with Some l => if l <? a then a else l | None => a end in
    let hi' := match hi with Some h => if b <? h then b else h | None => b end in
    if (hi' <? lo') || (hi' <? 0) then None else Some (Some lo', Some hi').
(** the ray already in the box frame: origin o, direction d, box [0,s0] x [0,s1] x [0,s2] *)
Definition box_ray_frame (s o d : Vec3 T) : option T :=
  let '(s0, s1, s2) := s in let '(o0, o1, o2) := o in let '(d0, d1, d2) := d in
  match slab (None, None) o0 d0 s0 with
  | None => None
  | Some i0 => match slab i0 o1 d1 s1 with
               | None => None
               | Some i1 => match slab i1 o2 d2 s2 with
                            | None => None
                            | Some (lo, _) => Some (match lo with Some l => if 0 <? l then l else 0 | None => 0 end)
                            end
               end
  end.
Definition box_ray (bx : obox) (origin dir : Vec3 T) : option T :=
  let '((R, p), s) := bx in box_ray_frame s (m33_Tmulv K R (v3_sub K origin p)) (m33_Tmulv K R dir).
End BoxRay.
