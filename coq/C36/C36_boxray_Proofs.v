(** C36, box/ray part: the slab test of OrientedBoundingBox::intersectsRay decides "the ray meets the box" - for all sizes,
    origins and directions, including directions with exactly zero components - and its distance is the entry parameter. *)
From Coq Require Import List Bool Reals Lra Psatz.
Require Import Num Vec C36_Model C36_boxray_Model.
Import ListNotations.
Local Open Scope R_scope.

(** t lies in the interval (None = unbounded on that side) *)
Definition inI (i : interval (T:=R)) (t : R) : Prop :=
  match fst i with Some l => l <= t | None => True end /\ match snd i with Some h => t <= h | None => True end.
(** a non-empty interval reaching t >= 0 (what the early exits of the code maintain) *)
Definition wfI (i : interval (T:=R)) : Prop :=
  match fst i, snd i with Some l, Some h => l <= h /\ 0 <= h | None, None => True | _, _ => False end.
Definition in_slab (o d s t : R) : Prop := 0 <= o + t * d <= s.

Lemma zero_test d : (Rleb d 0 && Rleb 0 d = true) <-> d = 0.
Proof. rewrite andb_true_iff, !Rleb_true. split; [intros []; lra | intros ->; lra]. Qed.

(** for d <> 0 the points of the ray inside the slab are exactly the parameters between -o/d and (s-o)/d *)
Lemma sign_pos x d : 0 < d -> (0 <= x * d <-> 0 <= x).
Proof. intro D. split; intro H; nra. Qed.
Lemma sign_neg x d : d < 0 -> (0 <= x * d <-> x <= 0).
Proof. intro D. split; intro H; nra. Qed.
Lemma slab_interval o d s t : d <> 0 -> 0 <= s ->
  let d1 := - o / d in let d2 := (s - o) / d in
  in_slab o d s t <-> (if Rltb d1 d2 then d1 else d2) <= t <= (if Rltb d1 d2 then d2 else d1).
Proof.
  intros D S d1 d2. unfold in_slab.
  assert (E1 : d1 * d = - o) by (unfold d1; field; auto).
  assert (E2 : d2 * d = s - o) by (unfold d2; field; auto).
  assert (P1 : (t - d1) * d = o + t * d) by (rewrite Rmult_minus_distr_r, E1; lra).
  assert (P2 : (d2 - t) * d = s - (o + t * d)) by (rewrite Rmult_minus_distr_r, E2; lra).
  assert (P3 : (d2 - d1) * d = s) by (rewrite Rmult_minus_distr_r, E1, E2; lra).
  destruct (Rtotal_order d 0) as [N|[Z|P]]; try contradiction.
  - pose proof (sign_neg (t - d1) d N) as A1. pose proof (sign_neg (d2 - t) d N) as A2. pose proof (sign_neg (d2 - d1) d N) as A3.
    rewrite P1 in A1. rewrite P2 in A2. rewrite P3 in A3.
    destruct (Rltb d1 d2) eqn:C; [apply Rltb_true in C | apply Rltb_false in C]; split; intro H.
    + exfalso. apply A3 in S. lra.
    + exfalso. apply A3 in S. lra.
    + destruct H as [H1 H2]. apply A1 in H1. assert (H3 : 0 <= s - (o + t * d)) by lra. apply A2 in H3. lra.
    + split; [apply A1; lra|]. assert (H3 : 0 <= s - (o + t * d)) by (apply A2; lra). lra.
  - pose proof (sign_pos (t - d1) d P) as A1. pose proof (sign_pos (d2 - t) d P) as A2. pose proof (sign_pos (d2 - d1) d P) as A3.
    rewrite P1 in A1. rewrite P2 in A2. rewrite P3 in A3. apply A3 in S.
    destruct (Rltb d1 d2) eqn:C; [apply Rltb_true in C | apply Rltb_false in C]; split; intro H.
    + destruct H as [H1 H2]. apply A1 in H1. assert (H3 : 0 <= s - (o + t * d)) by lra. apply A2 in H3. lra.
    + split; [apply A1; lra|]. assert (H3 : 0 <= s - (o + t * d)) by (apply A2; lra). lra.
    + destruct H as [H1 H2]. apply A1 in H1. assert (H3 : 0 <= s - (o + t * d)) by lra. apply A2 in H3. lra.
    + split; [apply A1; lra|]. assert (H3 : 0 <= s - (o + t * d)) by (apply A2; lra). lra.
Qed.

Lemma slab_some i o d s i' : 0 <= s -> wfI i -> slab ROps i o d s = Some i' ->
  wfI i' /\ forall t, (inI i t /\ in_slab o d s t) <-> inI i' t.
Proof.
  destruct i as [lo hi]. unfold slab. cbn [nleb nltb ROps n0 nsub ndiv nopp].
  destruct (Rleb d 0 && Rleb 0 d) eqn:Z.
  - apply zero_test in Z. subst d. destruct (Rltb o 0 || Rltb s o) eqn:B; [discriminate|].
    apply orb_false_iff in B. destruct B as [B1 B2]. apply Rltb_false in B1, B2.
    intros S0 W H. inversion H; subst. split; auto. intro t. unfold in_slab. split; [tauto|]. intro I. split; auto. lra.
  - assert (D : d <> 0) by (intro E; apply zero_test in E; congruence).
    set (d1 := - o / d). set (d2 := (s - o) / d).
    set (a := if Rltb d1 d2 then d1 else d2). set (b := if Rltb d1 d2 then d2 else d1).
    set (lo' := match lo with Some l => if Rltb l a then a else l | None => a end).
    set (hi' := match hi with Some h => if Rltb b h then b else h | None => b end).
    destruct (Rltb hi' lo' || Rltb hi' 0) eqn:B; [discriminate|].
    apply orb_false_iff in B. destruct B as [B1 B2]. apply Rltb_false in B1, B2.
    intros S0 W H. inversion H; subst. split. { unfold wfI; cbn. lra. }
    intro t. pose proof (slab_interval o d s t D S0) as SI. cbn zeta in SI. fold d1 d2 a b in SI. rewrite SI.
    unfold inI; cbn [fst snd]. unfold lo', hi'.
    destruct lo as [l|], hi as [h|]; try (destruct (Rltb l a) eqn:C1; [apply Rltb_true in C1 | apply Rltb_false in C1]);
      try (destruct (Rltb b h) eqn:C2; [apply Rltb_true in C2 | apply Rltb_false in C2]); split; intros; lra.
Qed.
Lemma slab_none i o d s : 0 <= s -> wfI i -> slab ROps i o d s = None -> forall t, 0 <= t -> ~ (inI i t /\ in_slab o d s t).
Proof.
  destruct i as [lo hi]. unfold slab. cbn [nleb nltb ROps n0 nsub ndiv nopp].
  destruct (Rleb d 0 && Rleb 0 d) eqn:Z.
  - apply zero_test in Z. subst d. destruct (Rltb o 0 || Rltb s o) eqn:B; [|discriminate].
    intros _ _ _ t _ [_ I]. unfold in_slab in I. apply orb_true_iff in B. destruct B as [B|B]; apply Rltb_true in B; lra.
  - assert (D : d <> 0) by (intro E; apply zero_test in E; congruence).
    set (d1 := - o / d). set (d2 := (s - o) / d).
    set (a := if Rltb d1 d2 then d1 else d2). set (b := if Rltb d1 d2 then d2 else d1).
    set (lo' := match lo with Some l => if Rltb l a then a else l | None => a end).
    set (hi' := match hi with Some h => if Rltb b h then b else h | None => b end).
    destruct (Rltb hi' lo' || Rltb hi' 0) eqn:B; [|discriminate].
    intros S0 W _ t T [I S]. pose proof (slab_interval o d s t D S0) as SI. cbn zeta in SI. fold d1 d2 a b in SI. apply SI in S.
    unfold inI in I; cbn [fst snd] in I.
    assert (L : lo' <= t) by (unfold lo'; destruct lo as [l|]; [destruct (Rltb l a)|]; lra).
    assert (U : t <= hi') by (unfold hi'; destruct hi as [h|]; [destruct (Rltb b h)|]; lra).
    apply orb_true_iff in B. destruct B as [B|B]; apply Rltb_true in B; lra.
Qed.

(** the box [0,s0]x[0,s1]x[0,s2] in its own frame *)
Definition size_ok3 (s : Vec3 R) : Prop := let '(s0, s1, s2) := s in 0 <= s0 /\ 0 <= s1 /\ 0 <= s2.
Definition ray_point_in_box (s o d : Vec3 R) (t : R) : Prop :=
  let '(s0, s1, s2) := s in let '(o0, o1, o2) := o in let '(d0, d1, d2) := d in
  in_slab o0 d0 s0 t /\ in_slab o1 d1 s1 t /\ in_slab o2 d2 s2 t.

(** SOUND (what pruning needs): whenever the ray meets the box at some parameter t >= 0, the test says "hit", and the distance
    it reports is at most t - so it is a lower bound for the distance to anything inside the box *)
Theorem box_ray_sound s o d t : size_ok3 s -> 0 <= t -> ray_point_in_box s o d t ->
  exists dist, box_ray_frame ROps s o d = Some dist /\ 0 <= dist <= t.
Proof.
  destruct s as [[s0 s1] s2], o as [[o0 o1] o2], d as [[d0 d1] d2]. intros (S0 & S1 & S2) T (P0 & P1 & P2). unfold box_ray_frame.
  assert (W0 : wfI (None, None)) by exact I.
  destruct (slab ROps (None, None) o0 d0 s0) as [i0|] eqn:E0;
    [|exfalso; apply (slab_none _ _ _ _ S0 W0 E0 t T); split; [split; exact I | exact P0]].
  destruct (slab_some _ _ _ _ _ S0 W0 E0) as [W1 Q0]. assert (I0 : inI i0 t) by (apply Q0; split; [split; exact I | exact P0]).
  destruct (slab ROps i0 o1 d1 s1) as [i1|] eqn:E1; [|exfalso; apply (slab_none _ _ _ _ S1 W1 E1 t T); split; auto].
  destruct (slab_some _ _ _ _ _ S1 W1 E1) as [W2 Q1]. assert (I1 : inI i1 t) by (apply Q1; split; auto).
  destruct (slab ROps i1 o2 d2 s2) as [[lo hi]|] eqn:E2; [|exfalso; apply (slab_none _ _ _ _ S2 W2 E2 t T); split; auto].
  destruct (slab_some _ _ _ _ _ S2 W2 E2) as [W3 Q2]. assert (I2 : inI (lo, hi) t) by (apply Q2; split; auto).
  eexists. split; [reflexivity|]. unfold inI in I2; cbn [fst snd] in I2. cbn [nltb ROps n0].
  destruct lo as [l|]; [destruct (Rltb 0 l) eqn:C; [apply Rltb_true in C | apply Rltb_false in C]|]; lra.
Qed.
(** COMPLETE: when the test says "hit at distance dist", the ray point at that parameter lies in the box (and dist >= 0) *)
Theorem box_ray_complete s o d dist : size_ok3 s -> box_ray_frame ROps s o d = Some dist -> 0 <= dist /\ ray_point_in_box s o d dist.
Proof.
  destruct s as [[s0 s1] s2], o as [[o0 o1] o2], d as [[d0 d1] d2]. intros (S0 & S1 & S2). unfold box_ray_frame.
  assert (W0 : wfI (None, None)) by exact I.
  destruct (slab ROps (None, None) o0 d0 s0) as [i0|] eqn:E0; [|discriminate]. destruct (slab_some _ _ _ _ _ S0 W0 E0) as [W1 Q0].
  destruct (slab ROps i0 o1 d1 s1) as [i1|] eqn:E1; [|discriminate]. destruct (slab_some _ _ _ _ _ S1 W1 E1) as [W2 Q1].
  destruct (slab ROps i1 o2 d2 s2) as [[lo hi]|] eqn:E2; [|discriminate]. destruct (slab_some _ _ _ _ _ S2 W2 E2) as [W3 Q2].
  intro H. injection H as Hd. cbn [nltb ROps n0] in *.
  assert (G : 0 <= dist /\ inI (lo, hi) dist).
  { unfold wfI in W3; cbn [fst snd] in W3. unfold inI; cbn [fst snd].
    destruct lo as [l|], hi as [h|]; try contradiction; subst dist;
      [destruct (Rltb 0 l) eqn:C; [apply Rltb_true in C | apply Rltb_false in C]; lra | lra]. }
  destruct G as [G0 G]. split; [exact G0|]. apply Q2 in G. destruct G as [G1 P2]. apply Q1 in G1. destruct G1 as [G0' P1].
  apply Q0 in G0'. destruct G0' as [_ P0]. exact (conj P0 (conj P1 P2)).
Qed.
(** together: the test decides the geometric predicate *)
Theorem box_ray_decides s o d : size_ok3 s -> ((exists dist, box_ray_frame ROps s o d = Some dist) <-> (exists t, 0 <= t /\ ray_point_in_box s o d t)).
Proof.
  intro S. split.
  - intros [dist H]. exists dist. apply box_ray_complete; auto.
  - intros (t & T & P). destruct (box_ray_sound s o d t S T P) as (dist & H & _). exists dist. exact H.
Qed.
(** and the reported distance is the FIRST parameter at which the ray is in the box *)
Theorem box_ray_distance_is_entry s o d dist t : size_ok3 s -> box_ray_frame ROps s o d = Some dist -> 0 <= t -> ray_point_in_box s o d t -> dist <= t.
Proof. intros S H T P. destruct (box_ray_sound s o d t S T P) as (dist' & H' & B). rewrite H in H'. inversion H'; subst. lra. Qed.

(** non-vacuity, with exactly zero direction components: a ray along +x at height z = 2 inside a 1 x 0.2 x 3 box is a hit at
    distance 0.5 (the seeded variant, comparing z with size[1], would say "no hit") *)
Example ex_axis_ray : box_ray_frame ROps (1, 1/5, 3) (-1/2, 1/10, 2) (1, 0, 0) = Some (1/2).
Proof.
  assert (S : size_ok3 (1, 1/5, 3)) by (cbn; lra).
  assert (P : ray_point_in_box (1, 1/5, 3) (-1/2, 1/10, 2) (1, 0, 0) (1/2)) by (unfold ray_point_in_box, in_slab; lra).
  destruct (box_ray_sound _ _ _ (1/2) S ltac:(lra) P) as (dist & H & B). rewrite H. f_equal.
  destruct (box_ray_complete _ _ _ _ S H) as (_ & (Q & _) & _). lra.
Qed.
