(** C36, file-format part: executable model of how PolygonalMesh.cpp READS mesh files (simbody has no mesh writers).
    - binary STL exactly as STLFile::loadStlBinaryFile treats it: 80 header bytes (ignored), little-endian uint32 facet count,
      per facet 12 little-endian binary32 values (normal, 3 vertices) and a 2-byte "attribute byte count" that is read and
      IGNORED (no bytes are skipped because of its value); anything after the last facet is ignored.  Bytes are N (< 256 by
      construction of the inputs), binary32 values are kept as their 4 bytes: no float theory is needed.
    - the vertex merging of STLFile::getVertex (first occurrence order).  The loader merges coordinates that differ by at most
      NTraits<float>::getSignificant() per coordinate; the model merges EQUAL byte patterns, which is the same thing on inputs
      whose distinct coordinates differ by more than that tolerance and that contain no -0/NaN (the generator's domain).
    - the line/token grammar of the ASCII STL reader (loadStlAsciiFile) and of the OBJ reader (loadObjFile: v and f records,
      negative indices), on already tokenised lines: numbers are opaque ids, their text->double conversion is libc's.
    No proofs in this file. *)
From Coq Require Import List NArith ZArith Arith Bool.
Import ListNotations.

Definition f32 := (N * N * N * N)%type.
Definition vtx := (f32 * f32 * f32)%type.
Record facet := mkFacet { f_n : vtx; f_a : vtx; f_b : vtx; f_c : vtx }.

Definition f32_bytes (x : f32) : list N := let '(a, b, c, d) := x in [a; b; c; d].
Definition vtx_bytes (v : vtx) : list N := let '(x, y, z) := v in f32_bytes x ++ f32_bytes y ++ f32_bytes z.
Definition facet_bytes (f : facet) : list N := vtx_bytes (f_n f) ++ vtx_bytes (f_a f) ++ vtx_bytes (f_b f) ++ vtx_bytes (f_c f).
Definition le16 (n : N) : list N := [n mod 256; (n / 256) mod 256]%N.
Definition le32 (n : N) : list N := [n mod 256; (n / 256) mod 256; (n / 65536) mod 256; (n / 16777216) mod 256]%N.
Definition of_le32 (a b c d : N) : N := (a + 256 * b + 65536 * c + 16777216 * d)%N.

(** a binary STL file: header, count, then facet record + attribute word for each facet; [extra] = trailing bytes *)
Definition records (fs : list facet) (attrs : list N) : list N :=
  concat (map (fun fa : facet * N => facet_bytes (fst fa) ++ le16 (snd fa)) (combine fs attrs)).
Definition serialize (hdr : list N) (fs : list facet) (attrs : list N) : list N :=
  hdr ++ le32 (N.of_nat (length fs)) ++ records fs attrs.

Definition take_f32 (l : list N) : option (f32 * list N) :=
  match l with a :: b :: c :: d :: r => Some ((a, b, c, d), r) | _ => None end.
Definition take_vtx (l : list N) : option (vtx * list N) :=
  match take_f32 l with
  | Some (x, r1) => match take_f32 r1 with
                    | Some (y, r2) => match take_f32 r2 with Some (z, r3) => Some ((x, y, z), r3) | None => None end
                    | None => None end
  | None => None end.
(** one facet record: 48 bytes of floats, then the 2-byte attribute word, read and thrown away *)
Definition take_facet (l : list N) : option (facet * list N) :=
  match take_vtx l with
  | Some (n, r0) =>
    match take_vtx r0 with
    | Some (a, r1) =>
      match take_vtx r1 with
      | Some (b, r2) =>
        match take_vtx r2 with
        | Some (c, r3) => match r3 with _ :: _ :: r4 => Some (mkFacet n a b c, r4) | _ => None end
        | None => None end
      | None => None end
    | None => None end
  | None => None end.
Fixpoint parse_facets (n : nat) (l : list N) : option (list facet * list N) :=
  match n with
  | O => Some ([], l)
  | S k => match take_facet l with
           | Some (f, r) => match parse_facets k r with Some (fs, r') => Some (f :: fs, r') | None => None end
           | None => None end
  end.
(** loadStlBinaryFile: None = the loader throws ("couldn't read ...") *)
Definition parse_stl (l : list N) : option (list facet * list N) :=
  if length l <? 80 then None else
  match skipn 80 l with
  | a :: b :: c :: d :: r => parse_facets (N.to_nat (of_le32 a b c d)) r
  | _ => None
  end.

(** ** vertex merging (STLFile::getVertex): look the vertex up, append it if it is new *)
Definition f32_eqb (x y : f32) : bool :=
  let '(a, b, c, d) := x in let '(a', b', c', d') := y in (a =? a')%N && (b =? b')%N && (c =? c')%N && (d =? d')%N.
Definition vtx_eqb (u v : vtx) : bool :=
  let '(x, y, z) := u in let '(x', y', z') := v in f32_eqb x x' && f32_eqb y y' && f32_eqb z z'.
Fixpoint find_ix (v : vtx) (vs : list vtx) (k : nat) : option nat :=
  match vs with [] => None | u :: r => if vtx_eqb u v then Some k else find_ix v r (S k) end.
Definition get_vertex (vs : list vtx) (v : vtx) : list vtx * nat :=
  match find_ix v vs 0 with Some i => (vs, i) | None => (vs ++ [v], length vs) end.
(** faces with any number of vertices (binary STL: 3; ASCII STL allows more) *)
Fixpoint merge_face (vs : list vtx) (f : list vtx) : list vtx * list nat :=
  match f with
  | [] => (vs, [])
  | v :: r => let (vs1, i) := get_vertex vs v in let (vs2, t) := merge_face vs1 r in (vs2, i :: t)
  end.
Fixpoint merge (vs : list vtx) (fs : list (list vtx)) : list vtx * list (list nat) :=
  match fs with
  | [] => (vs, [])
  | f :: r => let (vs1, t) := merge_face vs f in let (vs2, ts) := merge vs1 r in (vs2, t :: ts)
  end.
Definition facet_vertices (f : facet) : list vtx := [f_a f; f_b f; f_c f].
(** what PolygonalMesh::loadStlFile produces from the bytes of a binary file: vertices and faces *)
Definition load_stl_binary (l : list N) : option (list vtx * list (list nat)) :=
  match parse_stl l with Some (fs, _) => Some (merge [] (map facet_vertices fs)) | None => None end.

(** ** ASCII STL, on tokenised significant lines (blank/comment lines removed, keyword lower-cased by the reader):
    keyword + the numeric tokens on the rest of the line (as ids) *)
Inductive kw := Ksolid | Kendsolid | Kfacet | Kfacetnormal | Kouter | Kouterloop | Kvertex | Kendloop | Kendfacet | Kcolor | Kother.
Definition kw_eqb (a b : kw) : bool :=
  match a, b with
  | Ksolid, Ksolid | Kendsolid, Kendsolid | Kfacet, Kfacet | Kfacetnormal, Kfacetnormal | Kouter, Kouter | Kouterloop, Kouterloop
  | Kvertex, Kvertex | Kendloop, Kendloop | Kendfacet, Kendfacet | Kcolor, Kcolor | Kother, Kother => true
  | _, _ => false end.
Definition aline := (kw * list N)%type.
Definition num3 := (N * N * N)%type.
(** consecutive "vertex x y z" lines; a vertex line with other than three numbers is an error *)
Fixpoint take_vertices (ls : list aline) : option (list num3 * list aline) :=
  match ls with
  | (Kvertex, [x; y; z]) :: r => match take_vertices r with Some (vs, r') => Some ((x, y, z) :: vs, r') | None => None end
  | (Kvertex, _) :: _ => None
  | _ => Some ([], ls)
  end.
(** after a facet / facetnormal line: [outer loop] vertex+ [endloop] endfacet; returns the face and the lines after endfacet *)
Definition parse_facet_body (ls : list aline) : option (list num3 * list aline) :=
  match ls with
  | [] => None
  | (k, _) :: r =>
      let outer := kw_eqb k Kouter || kw_eqb k Kouterloop in
      let ls1 := if outer then r else ls in
      match take_vertices ls1 with
      | Some (vs, r1) =>
          if length vs <? 3 then None else
          match r1 with
          | [] => None
          | (k1, _) :: r2 =>
              if outer then
                (if kw_eqb k1 Kendloop then match r2 with (Kendfacet, _) :: r3 => Some (vs, r3) | _ => None end else None)
              else (if kw_eqb k1 Kendfacet then Some (vs, r2) else None)
          end
      | None => None
      end
  end.
(** the top-level loop; sig = number of significant lines read so far; fuel bounds the recursion (one per line) *)
Fixpoint parse_ascii_loop (fuel : nat) (sig : nat) (ls : list aline) (acc : list (list num3)) : option (list (list num3)) :=
  match fuel with
  | O => Some (rev acc)
  | S fu =>
    match ls with
    | [] => if 2 <=? sig then Some (rev acc) else None          (* EOF is only allowed after two significant lines *)
    | (k, _) :: r =>
        let sig1 := S sig in
        if (sig1 =? 1) && kw_eqb k Ksolid then parse_ascii_loop fu sig1 r acc
        else if (1 <? sig1) && kw_eqb k Kendsolid then Some (rev acc)
        else if kw_eqb k Kcolor then parse_ascii_loop fu sig1 r acc
        else if kw_eqb k Kfacet || kw_eqb k Kfacetnormal then
          match parse_facet_body r with
          | Some (f, r') => parse_ascii_loop fu (sig1 + (length r - length r')) r' (f :: acc)
          | None => None
          end
        else parse_ascii_loop fu sig1 r acc
    end
  end.
Definition parse_ascii (ls : list aline) : option (list (list num3)) := parse_ascii_loop (S (length ls)) 0 ls [].
(** the canonical text of a face list *)
Definition print_facet (f : list num3) : list aline :=
  [(Kfacet, [0; 0; 0]%N); (Kouter, [])] ++ map (fun v : num3 => let '(x, y, z) := v in (Kvertex, [x; y; z])) f ++ [(Kendloop, []); (Kendfacet, [])].
Definition print_ascii (fs : list (list num3)) : list aline := [(Ksolid, [])] ++ concat (map print_facet fs) ++ [(Kendsolid, [])].

(** ** OBJ: "v x y z" appends a vertex; "f i j k ..." refers to vertices 1-based, or from the end if negative; other records
    do not touch vertices or face indices *)
Inductive oline := OV (x y z : N) | OF (ixs : list Z) | OOther.
Definition obj_index (nv : nat) (i : Z) : Z := if (i <? 0)%Z then (i + Z.of_nat nv)%Z else (i - 1)%Z.
Fixpoint parse_obj (ls : list oline) (vs : list num3) (fs : list (list Z)) : list num3 * list (list Z) :=
  match ls with
  | [] => (rev vs, rev fs)
  | OV x y z :: r => parse_obj r ((x, y, z) :: vs) fs
  | OF ixs :: r => parse_obj r vs (map (obj_index (length vs)) ixs :: fs)
  | OOther :: r => parse_obj r vs fs
  end.
Definition print_obj (vs : list num3) (fs : list (list nat)) : list oline :=
  map (fun v : num3 => let '(x, y, z) := v in OV x y z) vs ++ map (fun f => OF (map (fun i => Z.of_nat (S i)) f)) fs.
