(** C36, file-format part: proofs about coq/C36/C36_io_Model.v. *)
From Coq Require Import List NArith ZArith Arith Bool Lia.
Require Import C36_io_Model.
Import ListNotations.

(** ** binary STL *)
Lemma take_f32_bytes x r : take_f32 (f32_bytes x ++ r) = Some (x, r).
Proof. destruct x as [[[a b] c] d]. reflexivity. Qed.
Lemma take_vtx_bytes v r : take_vtx (vtx_bytes v ++ r) = Some (v, r).
Proof.
  destruct v as [[x y] z]. unfold take_vtx, vtx_bytes. rewrite <- !app_assoc.
  rewrite take_f32_bytes, take_f32_bytes, take_f32_bytes. reflexivity.
Qed.
(** the attribute word - whatever its value - is two bytes that are dropped *)
Lemma take_facet_record f a r : take_facet (facet_bytes f ++ le16 a ++ r) = Some (f, r).
Proof.
  destruct f as [n va vb vc]. unfold take_facet, facet_bytes; cbn [f_n f_a f_b f_c]. rewrite <- !app_assoc.
  rewrite take_vtx_bytes, take_vtx_bytes, take_vtx_bytes, take_vtx_bytes. reflexivity.
Qed.
Lemma parse_facets_records fs : forall attrs r, length attrs = length fs ->
  parse_facets (length fs) (records fs attrs ++ r) = Some (fs, r).
Proof.
  induction fs as [|f fs IH]; intros [|a attrs] r L; try discriminate; [reflexivity|].
  unfold records. cbn [combine map concat length parse_facets fst snd]. rewrite <- !app_assoc.
  rewrite take_facet_record. fold (records fs attrs). rewrite IH by (cbn in L; lia). reflexivity.
Qed.
Lemma of_le32_le32 n : (n < 4294967296)%N ->
  of_le32 (n mod 256) ((n / 256) mod 256) ((n / 65536) mod 256) ((n / 16777216) mod 256) = n.
Proof.
  intro H. unfold of_le32.
  assert (E3 : ((n / 16777216) mod 256 = n / 16777216)%N) by (apply N.mod_small; apply N.div_lt_upper_bound; lia).
  rewrite E3.
  pose proof (N.div_mod n 256 ltac:(lia)) as D0.
  pose proof (N.div_mod (n / 256) 256 ltac:(lia)) as D1.
  pose proof (N.div_mod (n / 65536) 256 ltac:(lia)) as D2.
  replace (n / 256 / 256)%N with (n / 65536)%N in D1 by (rewrite N.div_div by lia; reflexivity).
  replace (n / 65536 / 256)%N with (n / 16777216)%N in D2 by (rewrite N.div_div by lia; reflexivity).
  lia.
Qed.

(** stl_binary_roundtrip: reading a written file gives back the facets, for EVERY list of attribute words (zero, colours,
    anything), every 80-byte header and whatever follows the last facet *)
Theorem stl_binary_roundtrip hdr fs attrs extra :
  length hdr = 80 -> length attrs = length fs -> (N.of_nat (length fs) < 4294967296)%N ->
  parse_stl (serialize hdr fs attrs ++ extra) = Some (fs, extra).
Proof.
  intros H L B. unfold parse_stl, serialize.
  assert (E : length ((hdr ++ le32 (N.of_nat (length fs)) ++ records fs attrs) ++ extra) <? 80 = false).
  { apply Nat.ltb_ge. rewrite !app_length. lia. }
  rewrite E. rewrite <- !app_assoc.
  rewrite <- H at 1. rewrite skipn_app, Nat.sub_diag, skipn_all. cbn [app skipn le32].
  rewrite of_le32_le32 by exact B. rewrite Nnat.Nat2N.id. apply parse_facets_records. exact L.
Qed.
(** the attribute words have no influence on what is read *)
Theorem stl_binary_attributes_ignored hdr fs attrs attrs' extra :
  length hdr = 80 -> length attrs = length fs -> length attrs' = length fs -> (N.of_nat (length fs) < 4294967296)%N ->
  parse_stl (serialize hdr fs attrs ++ extra) = parse_stl (serialize hdr fs attrs' ++ extra).
Proof. intros. rewrite !stl_binary_roundtrip; auto. Qed.

(** the reader consumes exactly 84 + 50 n bytes *)
Lemma take_f32_length l x r : take_f32 l = Some (x, r) -> length l = 4 + length r.
Proof. unfold take_f32. destruct l as [|a [|b [|c [|d l]]]]; try discriminate. intro H; inversion H; subst. reflexivity. Qed.
Lemma take_vtx_length l v r : take_vtx l = Some (v, r) -> length l = 12 + length r.
Proof.
  unfold take_vtx. destruct (take_f32 l) as [[x r1]|] eqn:E1; [|discriminate].
  destruct (take_f32 r1) as [[y r2]|] eqn:E2; [|discriminate]. destruct (take_f32 r2) as [[z r3]|] eqn:E3; [|discriminate].
  intro H; inversion H; subst. apply take_f32_length in E1, E2, E3. lia.
Qed.
Lemma take_facet_length l f r : take_facet l = Some (f, r) -> length l = 50 + length r.
Proof.
  unfold take_facet. destruct (take_vtx l) as [[n r0]|] eqn:E0; [|discriminate].
  destruct (take_vtx r0) as [[a r1]|] eqn:E1; [|discriminate]. destruct (take_vtx r1) as [[b r2]|] eqn:E2; [|discriminate].
  destruct (take_vtx r2) as [[c r3]|] eqn:E3; [|discriminate]. destruct r3 as [|p [|q r4]]; try discriminate.
  intro H; inversion H; subst. apply take_vtx_length in E0, E1, E2, E3. cbn [length] in *. lia.
Qed.
Lemma parse_facets_length n : forall l fs r, parse_facets n l = Some (fs, r) -> length fs = n /\ length l = 50 * n + length r.
Proof.
  induction n as [|n IH]; intros l fs r H; cbn [parse_facets] in H. { inversion H; subst. cbn. lia. }
  destruct (take_facet l) as [[f r1]|] eqn:E; [|discriminate].
  destruct (parse_facets n r1) as [[fs1 r2]|] eqn:E2; [|discriminate]. inversion H; subst.
  apply take_facet_length in E. destruct (IH _ _ _ E2) as [A B]. cbn [length]. lia.
Qed.
Theorem stl_binary_consumes l fs r : parse_stl l = Some (fs, r) -> length l = 84 + 50 * length fs + length r.
Proof.
  unfold parse_stl. destruct (length l <? 80) eqn:E; [discriminate|]. apply Nat.ltb_ge in E.
  pose proof (skipn_length 80 l) as S. destruct (skipn 80 l) as [|a [|b [|c [|d r0]]]] eqn:Es; try discriminate.
  intro H. destruct (parse_facets_length _ _ _ _ H) as [A B]. cbn [length] in S. lia.
Qed.

(** ** vertex merging preserves the faces up to the renaming it returns *)
Lemma f32_eqb_eq x y : f32_eqb x y = true <-> x = y.
Proof.
  destruct x as [[[a b] c] d], y as [[[a' b'] c'] d']. cbn. rewrite !andb_true_iff, !N.eqb_eq. split.
  - intros [[[-> ->] ->] ->]. reflexivity.
  - intro H; inversion H; auto.
Qed.
Lemma vtx_eqb_eq u v : vtx_eqb u v = true <-> u = v.
Proof.
  destruct u as [[x y] z], v as [[x' y'] z']. cbn. rewrite !andb_true_iff, !f32_eqb_eq. split.
  - intros [[-> ->] ->]. reflexivity.
  - intro H; inversion H; auto.
Qed.
Definition dflt : vtx := ((0, 0, 0, 0), (0, 0, 0, 0), (0, 0, 0, 0))%N.
Lemma find_ix_some v vs : forall k i, find_ix v vs k = Some i -> k <= i < k + length vs /\ nth (i - k) vs dflt = v.
Proof.
  induction vs as [|u r IH]; intros k i H; cbn in H; [discriminate|]. destruct (vtx_eqb u v) eqn:E.
  - inversion H; subst. apply vtx_eqb_eq in E. rewrite Nat.sub_diag. cbn. split; [lia|auto].
  - destruct (IH _ _ H) as [A B]. cbn [length]. split; [lia|]. replace (i - k) with (S (i - S k)) by lia. exact B.
Qed.
Lemma find_ix_none v vs : forall k, find_ix v vs k = None -> ~ In v vs.
Proof.
  induction vs as [|u r IH]; intros k H; cbn in H; [intros []|]. destruct (vtx_eqb u v) eqn:E; [discriminate|].
  intros [->|I]. { rewrite (proj2 (vtx_eqb_eq v v) eq_refl) in E. discriminate. } exact (IH _ H I).
Qed.
Lemma nodup_snoc {A} (l : list A) x : NoDup l -> ~ In x l -> NoDup (l ++ [x]).
Proof.
  induction l as [|a l IH]; cbn; intros N I. { repeat constructor; auto. }
  inversion N; subst. constructor.
  - rewrite in_app_iff. cbn. intros [H|[H|[]]]; [contradiction|]. subst. apply I. left; reflexivity.
  - apply IH; auto.
Qed.
(** an old table is a prefix of the new one, the returned index points at the vertex, no duplicates are introduced *)
Lemma get_vertex_spec vs v vs' i : get_vertex vs v = (vs', i) ->
  (exists ext, vs' = vs ++ ext) /\ i < length vs' /\ nth i vs' dflt = v /\ (NoDup vs -> NoDup vs').
Proof.
  unfold get_vertex. destruct (find_ix v vs 0) as [j|] eqn:E; intro H; inversion H; subst.
  - destruct (find_ix_some _ _ _ _ E) as [A B]. rewrite Nat.sub_0_r in B. repeat split; auto; try lia. exists []. rewrite app_nil_r. reflexivity.
  - apply find_ix_none in E. repeat split.
    + exists [v]. reflexivity.
    + rewrite app_length. cbn. lia.
    + rewrite app_nth2 by lia. rewrite Nat.sub_diag. reflexivity.
    + intro N. apply nodup_snoc; auto.
Qed.

Definition look (vs : list vtx) (i : nat) : vtx := nth i vs dflt.
Lemma look_prefix vs ext i : i < length vs -> look (vs ++ ext) i = look vs i.
Proof. intro H. unfold look. apply app_nth1. exact H. Qed.
Lemma merge_face_spec f : forall vs vs' t, merge_face vs f = (vs', t) ->
  (exists ext, vs' = vs ++ ext) /\ map (look vs') t = f /\ Forall (fun i => i < length vs') t /\ (NoDup vs -> NoDup vs').
Proof.
  induction f as [|v r IH]; intros vs vs' t H; cbn [merge_face] in H.
  - inversion H; subst. repeat split; auto. exists []. rewrite app_nil_r. reflexivity.
  - destruct (get_vertex vs v) as [vs1 i] eqn:E1. destruct (merge_face vs1 r) as [vs2 t'] eqn:E2. inversion H; subst.
    destruct (get_vertex_spec _ _ _ _ E1) as ((e1 & P1) & L1 & N1 & D1).
    destruct (IH _ _ _ E2) as ((e2 & P2) & M2 & F2 & D2).
    repeat split.
    + exists (e1 ++ e2). rewrite P2, P1, app_assoc. reflexivity.
    + cbn [map]. f_equal; auto. rewrite P2, look_prefix by exact L1. exact N1.
    + constructor; auto. rewrite P2, app_length. lia.
    + auto.
Qed.
Lemma merge_spec fs : forall vs vs' ts, merge vs fs = (vs', ts) ->
  (exists ext, vs' = vs ++ ext) /\ map (map (look vs')) ts = fs /\ Forall (Forall (fun i => i < length vs')) ts /\ (NoDup vs -> NoDup vs').
Proof.
  induction fs as [|f r IH]; intros vs vs' ts H; cbn [merge] in H.
  - inversion H; subst. repeat split; auto. exists []. rewrite app_nil_r. reflexivity.
  - destruct (merge_face vs f) as [vs1 t] eqn:E1. destruct (merge vs1 r) as [vs2 ts'] eqn:E2. inversion H; subst.
    destruct (merge_face_spec _ _ _ _ E1) as ((e1 & P1) & M1 & F1 & D1).
    destruct (IH _ _ _ E2) as ((e2 & P2) & M2 & F2 & D2).
    repeat split.
    + exists (e1 ++ e2). rewrite P2, P1, app_assoc. reflexivity.
    + cbn [map]. f_equal; auto. transitivity (map (look vs1) t); [|exact M1]. apply map_ext_in. intros i Hi. rewrite P2. apply look_prefix.
      rewrite Forall_forall in F1. apply F1. exact Hi.
    + constructor; auto. eapply Forall_impl; [|exact F1]. cbn. intros i Hi. rewrite P2, app_length. lia.
    + auto.
Qed.
(** merging (from an empty mesh) preserves the face list up to the renaming it returns: looking the returned indices up in the
    returned vertex table gives back exactly the vertices of every face, all indices are valid, and no vertex occurs twice *)
Theorem merge_preserves_faces fs vs ts : merge [] fs = (vs, ts) ->
  map (map (look vs)) ts = fs /\ Forall (Forall (fun i => i < length vs)) ts /\ NoDup vs.
Proof. intro H. destruct (merge_spec _ _ _ _ H) as (_ & A & B & C). repeat split; auto. apply C. constructor. Qed.
(** the whole loader on a written binary file *)
Theorem load_stl_binary_roundtrip hdr fs attrs extra vs ts :
  length hdr = 80 -> length attrs = length fs -> (N.of_nat (length fs) < 4294967296)%N ->
  load_stl_binary (serialize hdr fs attrs ++ extra) = Some (vs, ts) ->
  map (map (look vs)) ts = map facet_vertices fs /\ NoDup vs.
Proof.
  intros H L B. unfold load_stl_binary. rewrite stl_binary_roundtrip by auto. intro E. inversion E as [E1].
  destruct (merge_preserves_faces _ _ _ E1) as (A & _ & C). auto.
Qed.

(** ** OBJ: the canonical text (all vertices, then faces with 1-based indices) reads back as written *)
Lemma parse_obj_vertices vs : forall acc fs, 
  parse_obj (map (fun v : num3 => let '(x, y, z) := v in OV x y z) vs) acc fs = (rev acc ++ vs, rev fs).
Proof.
  induction vs as [|[[x y] z] r IH]; intros acc fs; cbn [map parse_obj]. { rewrite app_nil_r. reflexivity. }
  rewrite IH. cbn [rev]. rewrite <- app_assoc. reflexivity.
Qed.
Lemma obj_index_succ nv i : obj_index nv (Z.of_nat (S i)) = Z.of_nat i.
Proof. unfold obj_index. destruct (Z.of_nat (S i) <? 0)%Z eqn:E; [apply Z.ltb_lt in E; lia | lia]. Qed.
Lemma parse_obj_faces fs : forall acc accf,
  parse_obj (map (fun f => OF (map (fun i => Z.of_nat (S i)) f)) fs) acc accf = (rev acc, rev accf ++ map (map Z.of_nat) fs).
Proof.
  induction fs as [|f r IH]; intros acc accf; cbn [map parse_obj]. { rewrite app_nil_r. reflexivity. }
  rewrite IH. cbn [rev]. rewrite <- app_assoc. cbn [app]. do 3 f_equal. rewrite map_map. apply map_ext. intro i. apply obj_index_succ.
Qed.
Lemma parse_obj_app l1 : forall l2 acc accf, parse_obj (l1 ++ l2) acc accf =
  parse_obj l2 (rev (fst (parse_obj l1 acc accf))) (rev (snd (parse_obj l1 acc accf))).
Proof.
  induction l1 as [|[x y z|ixs|] r IH]; intros l2 acc accf; cbn [app parse_obj fst snd]; try apply IH.
  rewrite !rev_involutive. reflexivity.
Qed.
Theorem obj_roundtrip vs fs : parse_obj (print_obj vs fs) [] [] = (vs, map (map Z.of_nat) fs).
Proof.
  unfold print_obj. rewrite parse_obj_app, parse_obj_vertices. cbn [fst snd rev app]. rewrite parse_obj_faces.
  rewrite !rev_involutive. reflexivity.
Qed.
(** negative indices count back from the vertices read so far: -1 is the last one *)
Theorem obj_negative_index nv k : 1 <= k <= nv -> obj_index nv (- Z.of_nat k) = Z.of_nat (nv - k).
Proof. intro H. unfold obj_index. destruct (- Z.of_nat k <? 0)%Z eqn:E; [lia | apply Z.ltb_ge in E; lia]. Qed.

(** ** non-vacuity: a two-facet file with a colour word and a junk word *)
Definition ex_v (k : N) : vtx := ((k, 0, 128, 63), (0, 0, 0, 0), (k, k, 0, 64))%N.
Definition ex_fs : list facet := [mkFacet (ex_v 0) (ex_v 1) (ex_v 2) (ex_v 3); mkFacet (ex_v 0) (ex_v 3) (ex_v 2) (ex_v 4)].
Example ex_roundtrip : load_stl_binary (serialize (repeat 32%N 80) ex_fs [33001; 7]%N ++ [1; 2; 3]%N)
  = Some ([ex_v 1; ex_v 2; ex_v 3; ex_v 4], [[0; 1; 2]; [2; 1; 3]]).
Proof. vm_compute. reflexivity. Qed.
Example ex_length : length (serialize (repeat 32%N 80) ex_fs [33001; 7]%N) = 84 + 50 * 2.
Proof. vm_compute. reflexivity. Qed.

(** ** ASCII STL: the canonical text of a face list (solid / facet normal / outer loop / vertex ... / endloop / endfacet /
    endsolid) reads back as the same faces, for faces with at least three vertices (any number of them) *)
Definition vline (v : num3) : aline := let '(x, y, z) := v in (Kvertex, [x; y; z]).
Lemma take_vertices_lines f k nums rest : kw_eqb k Kvertex = false ->
  take_vertices (map vline f ++ (k, nums) :: rest) = Some (f, (k, nums) :: rest).
Proof.
  intro K. induction f as [|[[x y] z] r IH]; cbn [map app take_vertices vline].
  - destruct k; try discriminate; reflexivity.
  - rewrite IH. reflexivity.
Qed.
Lemma parse_facet_body_printed f rest : 3 <= length f ->
  parse_facet_body ((Kouter, []) :: map vline f ++ (Kendloop, []) :: (Kendfacet, []) :: rest) = Some (f, rest).
Proof.
  intro L. unfold parse_facet_body. cbn [kw_eqb orb]. rewrite take_vertices_lines by reflexivity.
  destruct (length f <? 3) eqn:E; [apply Nat.ltb_lt in E; lia|]. reflexivity.
Qed.
Lemma print_facet_eq f : print_facet f = (Kfacet, [0; 0; 0]%N) :: (Kouter, []) :: map vline f ++ [(Kendloop, []); (Kendfacet, [])].
Proof. reflexivity. Qed.
Lemma parse_ascii_loop_printed fs : forall fuel sig acc, length fs < fuel -> 1 <= sig -> Forall (fun f => 3 <= length f) fs ->
  parse_ascii_loop fuel sig (concat (map print_facet fs) ++ [(Kendsolid, [])]) acc = Some (rev acc ++ fs).
Proof.
  induction fs as [|f r IH]; intros fuel sig acc Hf Hs Hall.
  - destruct fuel; [cbn in Hf; lia|]. cbn [map concat app parse_ascii_loop kw_eqb andb orb].
    destruct (S sig =? 1) eqn:E1; [apply Nat.eqb_eq in E1; lia|]. cbn [andb].
    destruct (1 <? S sig) eqn:E2; [|apply Nat.ltb_ge in E2; lia]. rewrite app_nil_r. reflexivity.
  - destruct fuel; [cbn in Hf; lia|]. inversion Hall as [|? ? H3 Hr]; subst.
    cbn [map concat]. rewrite print_facet_eq. rewrite <- !app_assoc. cbn [app parse_ascii_loop kw_eqb andb orb].
    destruct (S sig =? 1) eqn:E1; [apply Nat.eqb_eq in E1; lia|]. cbn [andb].
    rewrite Bool.andb_false_r. cbn [orb].
    rewrite <- app_assoc. cbn [app]. rewrite parse_facet_body_printed by exact H3.
    rewrite IH; auto; try (cbn in Hf; lia). cbn [rev]. rewrite <- app_assoc. reflexivity.
Qed.
Lemma concat_length_ge {A} (ls : list (list A)) : (forall l, In l ls -> 1 <= length l) -> length ls <= length (concat ls).
Proof.
  induction ls as [|l r IH]; intro H; cbn [concat length]; [lia|]. rewrite app_length.
  specialize (H l (or_introl eq_refl)) as H1. specialize (IH (fun x Hx => H x (or_intror Hx))). lia.
Qed.
Theorem stl_ascii_roundtrip fs : Forall (fun f => 3 <= length f) fs -> parse_ascii (print_ascii fs) = Some fs.
Proof.
  intro H. unfold parse_ascii.
  set (rest := concat (map print_facet fs) ++ [(Kendsolid, [])]).
  change (print_ascii fs) with ((Ksolid, []) :: rest).
  change (parse_ascii_loop (S (length ((Ksolid, []) :: rest))) 0 ((Ksolid, []) :: rest) [])
    with (parse_ascii_loop (length ((Ksolid, []) :: rest)) 1 rest []).
  unfold rest. rewrite parse_ascii_loop_printed; auto.
  cbn [length]. rewrite app_length. cbn [length].
  assert (L : length (map print_facet fs) <= length (concat (map print_facet fs))).
  { apply concat_length_ge. intros l Hl. apply in_map_iff in Hl. destruct Hl as (f & <- & _). rewrite print_facet_eq. cbn [length]. lia. }
  rewrite map_length in L. lia.
Qed.
