(** C37: executable model of simbody's compliant contact force laws, hand-written from the
    code as it is in /repo now:

      Simbody/src/HuntCrossleyForce.cpp             HuntCrossleyForceImpl::calcForce (per-contact law AND the loop over contacts)
      Simbody/src/SmoothSphereHalfSpaceForce.cpp    SmoothSphereHalfSpaceForceImpl::calcForce
      Simbody/src/ExponentialSpringForce.cpp        calcNormalForce / calcFrictionForce / calcForce
      Simbody/src/CompliantContactSubsystem.cpp     stribeck, calcHertzContactForce (HertzCircular, e = 1),
                                                    calcPointHalfSpacePenaltyForce (per-vertex law and vertex loop)

    [step5] is NOT hand-written: it is [k37_step5] of Gen/c37_gen.v, regenerated from
    CompliantContactSubsystem.cpp by translate/sk2coq.py on every run.

    Every law is a pure function of what the C++ reads (contact geometry as reported by the
    collision detector, body poses/velocities, material parameters) and returns what the C++
    adds to the body-force array (spatial force about the body origin, in Ground) and reports.
    Generic in [NumOps]; theorems are about [ROps]; the check extracts this file to OCaml and
    runs it with a float instance against the compiled force elements (correspondence).

    NumOps has no power function.  Where the code calls std::pow (SmoothSphereHalfSpaceForce)
    the model takes the power function [pw] as an argument: the theorems instantiate it with
    [Rpower], the OCaml driver with [Float.pow].  Where the power is taken outside the anchored
    files (HuntCrossleyForceImpl's per-surface record and ContactMaterial store stiffness^(2/3)) the model
    takes the stored value as its input.

    No proofs in this file. *)
From Coq Require Import ZArith List Bool.
Require Import Num Vec c37_gen.
Import ListNotations.

Section M. Context {T:Type} (K:NumOps T).
Local Notation "x + y" := (nadd K x y). Local Notation "x * y" := (nmul K x y). Local Notation "x - y" := (nsub K x y).
Local Notation "x / y" := (ndiv K x y). Local Notation "- x" := (nopp K x).
Local Notation "0" := (n0 K). Local Notation "1" := (n1 K).
Local Notation "x <=? y" := (nleb K x y). Local Notation "x <? y" := (nltb K x y).

Definition lit (a b:Z) : T := nofZ K a / nofZ K b.
Definition two : T := nofZ K 2.
Definition half : T := lit 1 2.
Definition c4_3 : T := lit 4 3.
Definition c3_2 : T := lit 3 2.
Definition c2_5 : T := lit 2 5.
Definition sv_zero : SpatialVec T := (v3_zero K, v3_zero K).
(** x != 0 *)
Definition nz (x:T) : bool := negb (andb (x <=? 0) (0 <=? x)).
(** std::min(a,b) = (b < a) ? b : a *)
Definition nmin (a b:T) : T := if b <? a then b else a.
(** Vec3 / scalar  (SimTK multiplies by the reciprocal) *)
Definition v3_div (v:Vec3 T) (s:T) : Vec3 T := v3_scale K (1 / s) v.

(** ** Force arrays and rigid-body helpers *)
Fixpoint add_at (i:nat) (F:SpatialVec T) (l:list (SpatialVec T)) : list (SpatialVec T) :=
  match l with
  | [] => []
  | x :: r => match i with O => sv_add K x F :: r | S j => x :: add_at j F r end
  end.
Definition zeros (n:nat) : list (SpatialVec T) := repeat sv_zero n.

(** a body as the force laws see it: origin location, angular and linear velocity, all in Ground *)
Record body := mkBody { b_p : Vec3 T; b_w : Vec3 T; b_v : Vec3 T }.
Definition body0 : body := mkBody (v3_zero K) (v3_zero K) (v3_zero K).
(** findStationVelocityInGround(findStationAtGroundPoint(pt)): velocity of the body-fixed point now at [pt] *)
Definition pt_vel (b:body) (pt:Vec3 T) : Vec3 T := v3_add K (b_v b) (v3_cross K (b_w b) (v3_sub K pt (b_p b))).
(** applyForceToBodyPoint at the Ground point [pt]: spatial force about the body origin *)
Definition wrench_at (b:body) (pt f:Vec3 T) : SpatialVec T := (v3_cross K (v3_sub K pt (b_p b)) f, f).

(** ** Hollars friction coefficient as written inline in HuntCrossleyForce.cpp / SmoothSphereHalfSpaceForce.cpp:
       min(vrel,1)*(ud+2*(us-ud)/(1+vrel*vrel)) + uv*vslip,  vrel = vslip/vt *)
Definition hollars_mu (us ud uv vt vslip:T) : T :=
  let vrel := vslip / vt in
  nmin vrel 1 * (ud + two * (us - ud) / (1 + vrel * vrel)) + uv * vslip.

(** ** HuntCrossleyForce *)
(** per-surface material data as stored by HuntCrossleyForceImpl: [h_k] = stiffness^(2/3) *)
Record hcpar := mkHc { h_k : T; h_c : T; h_us : T; h_ud : T; h_uv : T }.
Definition hcpar0 : hcpar := mkHc 1 0 0 0 0.
(** u = 2*u1*u2/(u1+u2) unless both are zero *)
Definition hc_mu (u1 u2:T) : T := if orb (nz u1) (nz u2) then two * u1 * u2 / (u1 + u2) else 0.
Definition hc_s1 (p1 p2:hcpar) : T := h_k p2 / (h_k p1 + h_k p2).
Definition hc_k (p1 p2:hcpar) : T := h_k p1 * hc_s1 p1 p2.
Definition hc_c (p1 p2:hcpar) : T := let s1 := hc_s1 p1 p2 in h_c p1 * s1 + h_c p2 * (1 - s1).
(** Hertz force fH = 4/3 k x sqrt(R k x) *)
Definition hc_fH (p1 p2:hcpar) (R depth:T) : T :=
  let k := hc_k p1 p2 in c4_3 * k * depth * nsqrt K (R * k * depth).
(** Hunt-Crossley force f = fH (1 + 3/2 c vn) *)
Definition hc_f (p1 p2:hcpar) (R depth vn:T) : T :=
  hc_fH p1 p2 R depth * (1 + c3_2 * hc_c p1 p2 * vn).
(** contact point moved towards the stiffer surface *)
Definition hc_location (p1 p2:hcpar) (loc:Vec3 T) (depth:T) (normal:Vec3 T) : Vec3 T :=
  v3_add K loc (v3_scale K (depth * (half - hc_s1 p1 p2)) normal).
(** the tangential (friction) part of the force on body 2; [vtan] = slip velocity of body 1 relative to body 2 *)
Definition hc_friction (p1 p2:hcpar) (vt f:T) (vtan:Vec3 T) : Vec3 T :=
  let vslip := v3_norm K vtan in
  if nz vslip then
    let us := hc_mu (h_us p1) (h_us p2) in
    let ud := hc_mu (h_ud p1) (h_ud p2) in
    let uv := hc_mu (h_uv p1) (h_uv p2) in
    v3_div (v3_scale K (f * hollars_mu us ud uv vt vslip) vtan) vslip
  else v3_zero K.
(** per-contact law: the force applied to body 2 (body 1 gets the opposite) given the relative velocity
    v = v1 - v2 of the two body points at the contact location; zero when f <= 0 *)
Definition hc_force (p1 p2:hcpar) (vt R depth:T) (normal v:Vec3 T) : Vec3 T :=
  let vn := v3_dot K v normal in
  let vtan := v3_sub K v (v3_scale K vn normal) in
  let f := hc_f p1 p2 R depth vn in
  if f <=? 0 then v3_zero K
  else v3_add K (v3_scale K f normal) (hc_friction p1 p2 vt f vtan).

(** a contact as reported by GeneralContactSubsystem::getContacts (PointContact fields) *)
Record contact := mkContact { c_s1 : nat; c_s2 : nat; c_point : bool;
                              c_depth : T; c_normal : Vec3 T; c_loc : Vec3 T; c_radius : T }.
(** a surface of the contact set: body index and parameters *)
Record surface := mkSurf { s_body : nat; s_par : hcpar }.
Definition surf0 : surface := mkSurf O hcpar0.

Section HCLoop.
Variables (surfs:list surface) (bodies:list body) (vt:T).
Definition c_par1 (c:contact) := s_par (nth (c_s1 c) surfs surf0).
Definition c_par2 (c:contact) := s_par (nth (c_s2 c) surfs surf0).
Definition c_b1 (c:contact) := s_body (nth (c_s1 c) surfs surf0).
Definition c_b2 (c:contact) := s_body (nth (c_s2 c) surfs surf0).
Definition c_at (c:contact) : Vec3 T := hc_location (c_par1 c) (c_par2 c) (c_loc c) (c_depth c) (c_normal c).
Definition c_relvel (c:contact) : Vec3 T :=
  v3_sub K (pt_vel (nth (c_b1 c) bodies body0) (c_at c)) (pt_vel (nth (c_b2 c) bodies body0) (c_at c)).
(** the per-contact law evaluated on contact [c] (force on body 2) *)
Definition c_force (c:contact) : Vec3 T :=
  hc_force (c_par1 c) (c_par2 c) vt (c_radius c) (c_depth c) (c_normal c) (c_relvel c).
(** does the C++ loop body reach the two applyForceToBodyPoint calls for this contact? *)
Definition c_active (c:contact) : bool :=
  andb (c_point c)
       (negb (hc_f (c_par1 c) (c_par2 c) (c_radius c) (c_depth c) (v3_dot K (c_relvel c) (c_normal c)) <=? 0)).
Definition c_pe (c:contact) : T := c2_5 * hc_fH (c_par1 c) (c_par2 c) (c_radius c) (c_depth c) * c_depth c.

(** The loop of HuntCrossleyForceImpl::calcForce, control flow as in the source:
    [continue] for non-point contacts, pe accumulated before the sign test, [continue] (NOT return)
    when f <= 0, otherwise -force on body 1 and +force on body 2 at the adjusted location. *)
Fixpoint hc_loop (cs:list contact) (acc:list (SpatialVec T) * T) : list (SpatialVec T) * T :=
  match cs with
  | [] => acc
  | c :: rest =>
    if negb (c_point c) then hc_loop rest acc                       (* continue *)
    else
      let pe := snd acc + c_pe c in
      if negb (c_active c) then hc_loop rest (fst acc, pe)          (* f <= 0: continue *)
      else
        let F := c_force c in
        let a1 := add_at (c_b1 c) (wrench_at (nth (c_b1 c) bodies body0) (c_at c) (v3_neg K F)) (fst acc) in
        let a2 := add_at (c_b2 c) (wrench_at (nth (c_b2 c) bodies body0) (c_at c) F) a1 in
        hc_loop rest (a2, pe)
  end.
Definition hc_calcForce (cs:list contact) : list (SpatialVec T) * T := hc_loop cs (zeros (length bodies), 0).

(** what contact [c] alone contributes to body [b]: its law's force at its location, with the sign of the side *)
Definition c_wrench (c:contact) (b:nat) : SpatialVec T :=
  if c_active c then
    sv_add K (if Nat.eqb b (c_b1 c) then wrench_at (nth (c_b1 c) bodies body0) (c_at c) (v3_neg K (c_force c)) else sv_zero)
             (if Nat.eqb b (c_b2 c) then wrench_at (nth (c_b2 c) bodies body0) (c_at c) (c_force c) else sv_zero)
  else sv_zero.
End HCLoop.

(** ** SmoothSphereHalfSpaceForce; [pw] = std::pow *)
Section Smooth.
Variable pw : T -> T -> T.
Record sspar := mkSs { ss_stiffness : T; ss_dissipation : T; ss_us : T; ss_ud : T; ss_uv : T;
                       ss_vt : T; ss_cf : T; ss_bd : T; ss_bv : T }.
Definition ss_k (p:sspar) : T := half * pw (ss_stiffness p) (lit 2 3).
Definition ss_fh_pos (p:sspar) (R x:T) : T :=
  let k := ss_k p in c4_3 * k * nsqrt K (R * k) * pw (nsqrt K (x * x + ss_cf p)) c3_2.
Definition ss_fh_smooth (p:sspar) (R x:T) : T := ss_fh_pos p R x * (half + half * ntanh K (ss_bd p * x)).
Definition ss_fhc_pos (p:sspar) (R x vn:T) : T := ss_fh_smooth p R x * (1 + c3_2 * ss_dissipation p * vn).
Definition ss_fhc_smooth (p:sspar) (R x vn:T) : T :=
  ss_fhc_pos p R x vn * (half + half * ntanh K (ss_bv p * (vn + two / (nofZ K 3 * ss_dissipation p)))).
Definition ss_vslip (p:sspar) (vtan:Vec3 T) : T := pw (v3_normSqr K vtan + ss_cf p) half.
(** friction magnitude factor ff *)
Definition ss_ff (p:sspar) (fhc vslip:T) : T := fhc * hollars_mu (ss_us p) (ss_ud p) (ss_uv p) (ss_vt p) vslip.
(** the force applied to the half-space body (the sphere body gets the opposite);
    [normal] points from the sphere into the half space, v = v_sphere - v_halfspace at the contact point *)
Definition ss_contact_force (p:sspar) (R x:T) (normal v:Vec3 T) : Vec3 T :=
  let vn := v3_dot K v normal in
  let vtan := v3_sub K v (v3_scale K vn normal) in
  let fhc := ss_fhc_smooth p R x vn in
  let vslip := ss_vslip p vtan in
  v3_add K (v3_scale K fhc normal) (v3_div (v3_scale K (ss_ff p fhc vslip) vtan) vslip).
(** the whole calcForce: poses X = (R,p) and velocities of the two bodies, sphere centre in its body, half-space frame
    in its body (half space = x > 0 of that frame).  Returns (indentation, wrench on sphere body, wrench on half-space body, pe). *)
Definition ss_indentation (Xs Xh:Transform T) (loc:Vec3 T) (frame:Transform T) (R:T) : T :=
  let inH := xf_apply K (xf_inv K Xh) (xf_apply K Xs loc) in
  let d := v3_sub K inH (snd frame) in
  - (v3_dot K d (v3_neg K (m33_c0 (fst frame))) - R).
Definition ss_calcForce (p:sspar) (Xs Xh:Transform T) (bs bh:body) (loc:Vec3 T) (frame:Transform T) (R:T)
  : T * SpatialVec T * SpatialVec T * T :=
  let x := ss_indentation Xs Xh loc frame R in
  let origin := xf_apply K Xs loc in
  let normal := m33_mulv K (fst Xh) (m33_c0 (fst frame)) in
  let pt := v3_add K origin (v3_scale K R normal) in
  let pta := v3_sub K pt (v3_scale K (half * x) normal) in
  let v := v3_sub K (pt_vel bs pta) (pt_vel bh pta) in
  let F := ss_contact_force p R x normal v in
  (x, wrench_at bs pta (v3_neg K F), wrench_at bh pta F, c2_5 * ss_fh_smooth p R x * x).
End Smooth.

(** ** ExponentialSpringForce; everything in the contact-plane frame P (z = normal) *)
Record espar := mkEs { e_d0 : T; e_d1 : T; e_d2 : T; e_cz : T; e_maxFz : T; e_kxy : T; e_cxy : T }.
(** calcNormalForce: (fzElas, fzDamp, fz) *)
Definition es_normal (p:espar) (pz vz:T) : T * T * T :=
  let fzElas := e_d1 p * nexp K (- (e_d2 p) * (pz - e_d0 p)) in
  let fzDamp := - (e_cz p) * vz * fzElas in
  let fz := fzElas + fzDamp in
  let '(fz, fzDamp) := if fz <? 0 then (0, - fzElas) else (fz, fzDamp) in
  let '(fz, fzElas) := if e_maxFz p <? fz then (e_maxFz p, e_maxFz p - fzDamp) else (fz, fzElas) in
  (fzElas, fzDamp, fz).
Definition v3_setz0 (v:Vec3 T) : Vec3 T := let '(a,b,_) := v in (a, b, 0).
Record esfric := mkEsFric { f_mu : T; f_limit : T; f_reached : bool; f_elas : Vec3 T; f_damp : Vec3 T; f_fric : Vec3 T; f_p0 : Vec3 T }.
(** calcFrictionForce up to the anchor-point update; [sig] = SignificantReal, [Ksl] = the Sliding state,
    [pxy],[vxy] = station position/velocity projected on the plane (z = 0), [p0] = anchor point *)
Definition es_friction (sig:T) (p:espar) (mus muk Ksl fz:T) (pxy vxy p0:Vec3 T) : esfric :=
  let mu := mus - Ksl * (mus - muk) in
  let limit := mu * fz in
  if limit <? sig then mkEsFric mu limit true (v3_zero K) (v3_zero K) (v3_zero K) pxy
  else
    let limSq := limit * limit in
    let damp := v3_scale K (- (e_cxy p)) vxy in
    let over1 := limSq <? v3_normSqr K damp in
    let damp1 := if over1 then v3_scale K limit (v3_div damp (v3_norm K damp)) else damp in
    let elas2 := v3_scale K (- (e_kxy p)) (v3_sub K pxy p0) in
    let mod2 := v3_add K elas2 damp in
    let m2Sq := v3_normSqr K mod2 in
    let over2 := limSq <? m2Sq in
    let scale := limit / nsqrt K m2Sq in
    let elas2' := if over2 then v3_scale K scale elas2 else elas2 in
    let damp2' := if over2 then v3_scale K scale damp else damp in
    let felas := v3_scale K (1 - Ksl) elas2' in
    let fdamp := v3_add K damp2' (v3_scale K Ksl (v3_sub K damp1 damp2')) in
    let fric := v3_add K felas fdamp in
    mkEsFric mu limit (orb over1 over2) felas fdamp fric (v3_setz0 (v3_add K pxy (v3_div felas (e_kxy p)))).
(** calcForce: the force on the body in the plane frame (friction in x,y; normal force in z) *)
Definition es_force_P (sig:T) (p:espar) (mus muk Ksl:T) (p_P v_P p0:Vec3 T) : Vec3 T :=
  let '(_, _, fz) := es_normal p (v3_2 p_P) (v3_2 v_P) in
  let fr := es_friction sig p mus muk Ksl fz (v3_setz0 p_P) (v3_setz0 v_P) p0 in
  let '(fx, fy, _) := f_fric fr in (fx, fy, fz).

(** ** CompliantContactSubsystem: Stribeck curve, Hertz (circular) law, brick/half-space vertex law *)
Definition stribeck (us ud uv v:T) : T :=
  let mu_wet := uv * v in
  let mu_dry := if nofZ K 3 <=? v then ud
                else if 1 <=? v then us - (us - ud) * k37_step5 K ((v - 1) / two)
                else us * k37_step5 K v in
  mu_dry + mu_wet.
(** us = 2*us1*us2; if (us != 0) us /= (us1+us2) *)
Definition cc_mu (u1 u2:T) : T := let u := two * u1 * u2 in if nz u then u / (u1 + u2) else u.
(** ContactMaterial as the generators read it: [m_k] = getStiffness23() for Hertz, getStiffness() for the brick *)
Record ccmat := mkMat { m_k : T; m_c : T; m_us : T; m_ud : T; m_uv : T }.
(** friction force on surface 2 for normal force fN and slip velocity velTangent (zero below the slip threshold);
    returns (force, power) *)
Definition cc_friction (sig:T) (m1 m2:ccmat) (vtrans fN:T) (velT:Vec3 T) : Vec3 T * T :=
  let vslipSq := v3_normSqr K velT in
  if sig * sig <? vslipSq then
    let vslip := nsqrt K vslipSq in
    let us := cc_mu (m_us m1) (m_us m2) in
    let ud := cc_mu (m_ud m1) (m_ud m2) in
    let uv := cc_mu (m_uv m1) (m_uv m2) in
    let v := vslip * (1 / vtrans) in
    let mu := stribeck us ud (uv * vtrans) v in
    let fF := fN * mu in
    (v3_scale K (- fF / vslip) velT, fF * vslip)
  else (v3_zero K, 0).
Record hzout := mkHz { z_valid : bool; z_pt : Vec3 T; z_force : Vec3 T; z_pe : T; z_power : T }.
(** calcHertzContactForce, all in the frame of surface 1: [normal] away from surface 1, [origin] half way between the
    undeformed surfaces, (w12,v12) velocity of S2 in S1, p12 = position of S2's origin, e = elliptical correction *)
Definition hz_force (sig:T) (m1 m2:ccmat) (vtrans depth:T) (normal origin:Vec3 T) (R e:T) (p12 w12 v12:Vec3 T) : hzout :=
  if depth <=? 0 then mkHz false (v3_zero K) (v3_zero K) 0 0
  else
    let s1 := m_k m2 / (m_k m1 + m_k m2) in
    let s2 := 1 - s1 in
    let x := depth in
    let pt := v3_add K origin (v3_scale K (x * (half - s1)) normal) in
    let k := m_k m1 * s1 in
    let c := m_c m1 * s1 + m_c m2 * s2 in
    let fH := e * c4_3 * k * x * nsqrt K (R * k * x) in
    let vel := v3_add K v12 (v3_cross K w12 (v3_sub K pt p12)) in
    let xdot := - (v3_dot K vel normal) in
    let velN := v3_scale K (- xdot) normal in
    let velT := v3_sub K vel velN in
    let fHC := fH * c3_2 * c * xdot in
    let fN := fH + fHC in
    if fN <=? 0 then mkHz true pt (v3_zero K) 0 0
    else
      let '(fF, pF) := cc_friction sig m1 m2 vtrans fN velT in
      mkHz true pt (v3_add K (v3_scale K fH normal) (v3_add K (v3_scale K fHC normal) fF))
           (c2_5 * fH * x) (fHC * xdot + pF).

(** brick / half-space penalty, per-vertex law (frame H of the half space, [normal] = half-space outward normal):
    vertex at [vH], brick origin at [pHB] with velocity (w,v).  Returns None when the vertex is not penetrated
    ([continue]), else (contact point, force on the brick, pe, power loss, x, xdot). *)
Definition bk_vertex (sig:T) (mH mB:ccmat) (vtrans:T) (normal pHB w v vH:Vec3 T)
  : option (Vec3 T * Vec3 T * T * T * T * T) :=
  let x := - (v3_dot K vH normal) in
  if x <=? 0 then None
  else
    let sH := m_k mB / (m_k mH + m_k mB) in
    let sB := 1 - sH in
    let k := m_k mH * sH in
    let c := m_c mH * sH + m_c mB * sB in
    let pt := v3_add K vH (v3_scale K (x * sB) normal) in
    let fK := k * x in
    let pe := k * x * x / two in
    let vel := v3_add K v (v3_cross K w (v3_sub K pt pHB)) in
    let xdot := - (v3_dot K vel normal) in
    let velT := v3_sub K vel (v3_scale K (- xdot) normal) in
    let fHC := fK * c * xdot in
    let fN := fK + fHC in
    if fN <=? 0 then Some (pt, v3_zero K, pe, - fK * xdot, x, xdot)
    else
      let '(fF, pF) := cc_friction sig mH mB vtrans fN velT in
      Some (pt, v3_add K (v3_scale K fN normal) fF, pe, fHC * xdot + pF, x, xdot).
(** the loop over the (four) vertices of the contacting face: resultant force on the brick, moment about the H origin,
    total pe and power.  (The centre-of-pressure shift of the moment is not modelled.) *)
Fixpoint bk_loop (sig:T) (mH mB:ccmat) (vtrans:T) (normal pHB w v:Vec3 T) (vs:list (Vec3 T))
  (acc:SpatialVec T * T * T) : SpatialVec T * T * T :=
  match vs with
  | [] => acc
  | vH :: rest =>
    match bk_vertex sig mH mB vtrans normal pHB w v vH with
    | None => bk_loop sig mH mB vtrans normal pHB w v rest acc        (* continue *)
    | Some (pt, f, pe, pw_, _, _) =>
      let '(F, tpe, tpw) := acc in
      bk_loop sig mH mB vtrans normal pHB w v rest (sv_add K F (v3_cross K pt f, f), tpe + pe, tpw + pw_)
    end
  end.
End M.
