(** C37 proofs (over the reals, [ROps]; std::pow modelled by [Rpower]): the compliant contact force laws of C37_Model.v
    are never attractive (except the smooth model: refuted, with the exact region), vanish without penetration (non-smooth
    models), have the documented magnitude, put friction in the tangent plane, opposing slip and below the documented limit;
    and the loop over contacts of HuntCrossleyForce gives every contact its own law. *)
From Coq Require Import ZArith Reals Lra Lia List Psatz Bool.
Require Import Num Vec Tactics c37_gen C37_Model.
Import ListNotations.
Local Open Scope R_scope.

Ltac dv := repeat match goal with
  | v : Vec3 R |- _ => destruct v as [[? ?] ?]
  | v : SpatialVec R |- _ => destruct v as [? ?]
  | v : (R * R)%type |- _ => destruct v as [? ?]
  | v : (_ * _ * _)%type |- _ => destruct v as [[? ?] ?]
  end.
Ltac munf := cbv [lit two half c4_3 c3_2 c2_5 sv_zero nz nmin v3_div pt_vel wrench_at hollars_mu
  hc_mu hc_s1 hc_k hc_c hc_fH hc_f hc_location v3_setz0 cc_mu]; vunf.

(** booleans of ROps *)
Lemma nz_true x : nz ROps x = true <-> x <> 0.
Proof. unfold nz. cbn [nleb ROps n0]. split.
  - intros H E. subst x. rewrite (proj2 (Rleb_true 0 0)) in H by lra. discriminate.
  - intros H. destruct (Rleb x 0) eqn:A, (Rleb 0 x) eqn:B; auto. apply Rleb_true in A, B. exfalso; apply H; lra. Qed.
Lemma nz_false x : nz ROps x = false <-> x = 0.
Proof. split; intros H.
  - destruct (Req_dec x 0); auto. apply nz_true in H0. congruence.
  - destruct (nz ROps x) eqn:E; auto. apply nz_true in E. contradiction. Qed.
Lemma nmin_R a b : nmin ROps a b = Rmin a b.
Proof. unfold nmin. cbn [nltb ROps]. destruct (Rltb b a) eqn:E.
  - apply Rltb_true in E. rewrite Rmin_right; lra.
  - apply Rltb_false in E. rewrite Rmin_left; lra. Qed.

(** ** Hollars friction coefficient: 0 <= mu <= us + uv*vslip *)
Lemma hollars_dry_le v us ud : 0 <= v -> 0 <= ud <= us ->
  0 <= Rmin v 1 * (ud + 2 * (us - ud) / (1 + v * v)) <= us.
Proof. intros Hv [Hd Hs].
  assert (P : 0 < 1 + v * v) by nra.
  assert (E : ud + 2 * (us - ud) / (1 + v * v) = (ud * (1 + v * v) + 2 * (us - ud)) / (1 + v * v)) by (field; lra).
  rewrite E. clear E.
  assert (N : 0 <= ud * (1 + v * v) + 2 * (us - ud)) by nra.
  unfold Rmin. destruct (Rle_dec v 1) as [L|L].
  - split.
    + apply Rmult_le_pos; auto. apply Rmult_le_pos; auto. left. apply Rinv_0_lt_compat; auto.
    + apply Rmult_le_reg_r with (1 + v * v); auto.
      replace (v * ((ud * (1 + v * v) + 2 * (us - ud)) / (1 + v * v)) * (1 + v * v))
        with (v * (ud * (1 + v * v) + 2 * (us - ud))) by (field; lra).
      (* ud(1+v^2)(v-1) - (us-ud)(1-v)^2 <= 0 *)
      assert (A : 0 <= (us - ud) * ((1 - v) * (1 - v))) by (apply Rmult_le_pos; nra).
      assert (B : 0 <= ud * (1 + v * v) * (1 - v)) by (apply Rmult_le_pos; nra).
      assert (Q : us * (1 + v * v) - v * (ud * (1 + v * v) + 2 * (us - ud)) = (us - ud) * ((1 - v) * (1 - v)) + ud * (1 + v * v) * (1 - v)) by ring.
      lra.
  - assert (V : 1 < v) by lra. rewrite Rmult_1_l. split.
    + apply Rmult_le_pos; auto. left. apply Rinv_0_lt_compat; auto.
    + apply Rmult_le_reg_r with (1 + v * v); auto.
      replace ((ud * (1 + v * v) + 2 * (us - ud)) / (1 + v * v) * (1 + v * v)) with (ud * (1 + v * v) + 2 * (us - ud)) by (field; lra).
      assert (A : 0 <= (us - ud) * (v * v - 1)) by (apply Rmult_le_pos; nra).
      assert (Q : us * (1 + v * v) - (ud * (1 + v * v) + 2 * (us - ud)) = (us - ud) * (v * v - 1)) by ring.
      lra. Qed.

Lemma hollars_bounds us ud uv vt vslip : 0 <= ud <= us -> 0 <= uv -> 0 < vt -> 0 <= vslip ->
  0 <= hollars_mu ROps us ud uv vt vslip <= us + uv * vslip.
Proof. intros H1 H2 H3 H4. unfold hollars_mu. rewrite nmin_R. cbv [two]. vunf.
  assert (V : 0 <= vslip / vt) by (apply Rmult_le_pos; auto; left; apply Rinv_0_lt_compat; auto).
  pose proof (hollars_dry_le (vslip / vt) us ud V H1) as [A B].
  assert (C : 0 <= uv * vslip) by (apply Rmult_le_pos; auto). lra. Qed.

(** the code's own (unused) hollars() helper, translated from the source, obeys the same bound *)
Lemma k37_hollars_bounds us ud uv v : 0 <= ud <= us -> 0 <= uv -> 0 <= v ->
  0 <= k37_hollars ROps us ud uv v <= us + uv * v.
Proof. intros H1 H2 H4. unfold k37_hollars. vunf.
  assert (E : (if Rleb v 1 then v else 1) = Rmin v 1).
  { unfold Rmin. destruct (Rle_dec v 1) as [L|L]; [rewrite (proj2 (Rleb_true _ _)) | rewrite (proj2 (Rleb_false _ _))]; auto; lra. }
  rewrite E. pose proof (hollars_dry_le v us ud H4 H1) as [A B].
  assert (C : 0 <= uv * v) by (apply Rmult_le_pos; auto). lra. Qed.

(** combined friction coefficient: harmonic-mean rule keeps the ordering mu_d <= mu_s and the sign *)
Lemma hc_mu_nonneg a b : 0 <= a -> 0 <= b -> 0 <= hc_mu ROps a b.
Proof. intros Ha Hb. unfold hc_mu. destruct (orb _ _) eqn:E; [|cbn; lra].
  apply orb_true_iff in E. assert (0 < a + b) by (destruct E as [E|E]; apply nz_true in E; lra).
  cbv [two]. vunf. apply Rmult_le_pos; [nra|]. left; apply Rinv_0_lt_compat; auto. Qed.
Lemma hc_mu_ordered d1 d2 s1 s2 : 0 <= d1 <= s1 -> 0 <= d2 <= s2 -> hc_mu ROps d1 d2 <= hc_mu ROps s1 s2.
Proof. intros [A1 A2] [B1 B2]. unfold hc_mu.
  destruct (orb (nz ROps d1) (nz ROps d2)) eqn:E.
  - apply orb_true_iff in E. assert (P : 0 < d1 + d2) by (destruct E as [E|E]; apply nz_true in E; lra).
    assert (E2 : orb (nz ROps s1) (nz ROps s2) = true).
    { apply orb_true_iff. destruct (Req_dec s1 0); [right|left]; apply nz_true; lra. }
    rewrite E2. cbv [two]. vunf. assert (Q : 0 < s1 + s2) by lra.
    apply Rmult_le_reg_r with ((d1 + d2) * (s1 + s2)); [apply Rmult_lt_0_compat; auto|].
    replace (2 * d1 * d2 / (d1 + d2) * ((d1 + d2) * (s1 + s2))) with (2 * d1 * d2 * (s1 + s2)) by (field; lra).
    replace (2 * s1 * s2 / (s1 + s2) * ((d1 + d2) * (s1 + s2))) with (2 * s1 * s2 * (d1 + d2)) by (field; lra).
    (* d1 d2 (s1+s2) <= s1 s2 (d1+d2) : d1 d2 s1 <= s1 s2 d1 and d1 d2 s2 <= s1 s2 d2 *)
    assert (0 <= d1 * s1 * (s2 - d2)) by (apply Rmult_le_pos; [apply Rmult_le_pos|]; lra).
    assert (0 <= d2 * s2 * (s1 - d1)) by (apply Rmult_le_pos; [apply Rmult_le_pos|]; lra).
    nra.
  - apply hc_mu_nonneg; lra. Qed.

(** ** small vector facts over R *)
Definition dotR := v3_dot ROps. Definition scaleR := v3_scale ROps. Definition addR := v3_add ROps. Definition subR := v3_sub ROps.
Definition vtan_of (v n:Vec3 R) : Vec3 R := v3_sub ROps v (v3_scale ROps (v3_dot ROps v n) n).
Lemma vtan_orth v n : v3_dot ROps n n = 1 -> v3_dot ROps (vtan_of v n) n = 0.
Proof. unfold vtan_of. dv. vunf. intros H.
  match goal with |- ?L = 0 => replace L with ((r2 * r + r3 * r0 + r4 * r1) * (1 - (r * r + r0 * r0 + r1 * r1))) by ring end.
  rewrite H. ring. Qed.
Lemma dot_scale_l a u w : v3_dot ROps (v3_scale ROps a u) w = a * v3_dot ROps u w.
Proof. dv. vunf. ring. Qed.
Lemma dot_add_l u1 u2 w : v3_dot ROps (v3_add ROps u1 u2) w = v3_dot ROps u1 w + v3_dot ROps u2 w.
Proof. dv. vunf. ring. Qed.
Lemma dot_zero_l w : v3_dot ROps (v3_zero ROps) w = 0.
Proof. dv. vunf. ring. Qed.
Lemma normSqr_scale a u : v3_normSqr ROps (v3_scale ROps a u) = a * a * v3_normSqr ROps u.
Proof. dv. vunf. ring. Qed.
Lemma normSqr_nonneg u : 0 <= v3_normSqr ROps u.
Proof. dv. vunf. nra. Qed.
Lemma norm_sq u : v3_norm ROps u * v3_norm ROps u = v3_normSqr ROps u.
Proof. unfold v3_norm. cbn [nsqrt ROps]. apply sqrt_sqrt, normSqr_nonneg. Qed.
Lemma norm_nonneg u : 0 <= v3_norm ROps u.
Proof. unfold v3_norm. cbn [nsqrt ROps]. apply sqrt_pos. Qed.

(** ** HuntCrossleyForce, per-contact law *)
(** the friction part is a multiple [lam] of the slip velocity *)
Definition hc_lam (p1 p2:hcpar) (vt f:R) (vtan:Vec3 R) : R :=
  let vslip := v3_norm ROps vtan in
  if nz ROps vslip then
    f * hollars_mu ROps (hc_mu ROps (h_us p1) (h_us p2)) (hc_mu ROps (h_ud p1) (h_ud p2)) (hc_mu ROps (h_uv p1) (h_uv p2)) vt vslip / vslip
  else 0.
Lemma hc_friction_parallel p1 p2 vt f vtan :
  hc_friction ROps p1 p2 vt f vtan = v3_scale ROps (hc_lam p1 p2 vt f vtan) vtan.
Proof. unfold hc_friction, hc_lam. destruct (nz ROps (v3_norm ROps vtan)) eqn:E.
  - apply nz_true in E. set (m := hollars_mu _ _ _ _ _ _). set (s := v3_norm ROps vtan) in *. clearbody m s.
    unfold v3_div. dv. vunf. teq; field; auto.
  - dv. vunf. teq; ring. Qed.

(** friction coefficients of both surfaces ordered 0 <= mu_d <= mu_s, 0 <= mu_v *)
Definition hc_fric_ok (p:hcpar (T:=R)) : Prop := 0 <= h_ud p <= h_us p /\ 0 <= h_uv p.
Lemma hc_lam_bounds p1 p2 vt f vtan : hc_fric_ok p1 -> hc_fric_ok p2 -> 0 < vt -> 0 <= f ->
  let vslip := v3_norm ROps vtan in
  let us := hc_mu ROps (h_us p1) (h_us p2) in let uv := hc_mu ROps (h_uv p1) (h_uv p2) in
  0 <= hc_lam p1 p2 vt f vtan /\ hc_lam p1 p2 vt f vtan * vslip <= f * (us + uv * vslip).
Proof. intros [A1 A2] [B1 B2] Hvt Hf. cbv zeta. unfold hc_lam.
  pose proof (norm_nonneg vtan) as Hn. set (s := v3_norm ROps vtan) in *.
  destruct (nz ROps s) eqn:E.
  - apply nz_true in E. assert (S : 0 < s) by lra.
    assert (O : 0 <= hc_mu ROps (h_ud p1) (h_ud p2) <= hc_mu ROps (h_us p1) (h_us p2))
      by (split; [apply hc_mu_nonneg; lra | apply hc_mu_ordered; lra]).
    assert (V : 0 <= hc_mu ROps (h_uv p1) (h_uv p2)) by (apply hc_mu_nonneg; lra).
    pose proof (hollars_bounds _ _ _ vt s O V Hvt Hn) as [M1 M2].
    set (m := hollars_mu _ _ _ _ _ _) in *. split.
    + apply Rmult_le_pos; [apply Rmult_le_pos; auto|]. left; apply Rinv_0_lt_compat; auto.
    + replace (f * m / s * s) with (f * m) by (field; lra). apply Rmult_le_compat_l; auto.
  - apply nz_false in E. rewrite E. split; [lra|].
    assert (0 <= hc_mu ROps (h_us p1) (h_us p2)) by (apply hc_mu_nonneg; lra).
    rewrite Rmult_0_l, Rmult_0_r, Rplus_0_r. apply Rmult_le_pos; auto. Qed.

(** the law decomposes into a normal part max(f,0) n and a tangential part lam*vtan *)
Lemma hc_force_decomp p1 p2 vt R x n v :
  let f := hc_f ROps p1 p2 R x (v3_dot ROps v n) in
  hc_force ROps p1 p2 vt R x n v =
    if Rle_dec f 0 then v3_zero ROps
    else v3_add ROps (v3_scale ROps f n) (v3_scale ROps (hc_lam p1 p2 vt f (vtan_of v n)) (vtan_of v n)).
Proof. cbv zeta. unfold hc_force. fold (vtan_of v n). cbn [nleb ROps n0]. unfold Rleb.
  destruct (Rle_dec _ 0); auto. rewrite hc_friction_parallel. reflexivity. Qed.

(** never attractive: the component of the force on body 2 along the contact normal (which points from surface 1
    towards surface 2) is max(f,0) >= 0, whatever the parameters and velocities *)
Theorem hc_normal_component p1 p2 vt R x n v : v3_dot ROps n n = 1 ->
  v3_dot ROps (hc_force ROps p1 p2 vt R x n v) n = Rmax 0 (hc_f ROps p1 p2 R x (v3_dot ROps v n)).
Proof. intros Hn. rewrite hc_force_decomp. cbv zeta. set (f := hc_f _ _ _ _ _ _).
  destruct (Rle_dec f 0).
  - rewrite dot_zero_l, Rmax_left; lra.
  - rewrite dot_add_l, !dot_scale_l, vtan_orth, Hn by auto. rewrite Rmax_right; lra. Qed.
Theorem hc_normal_never_attractive p1 p2 vt R x n v : v3_dot ROps n n = 1 ->
  0 <= v3_dot ROps (hc_force ROps p1 p2 vt R x n v) n.
Proof. intros Hn. rewrite hc_normal_component by auto. apply Rmax_l. Qed.

(** zero without penetration (over R, where sqrt of a negative number is 0; the detectors only report depth > 0) *)
Theorem hc_zero_without_penetration p1 p2 vt R x n v : x <= 0 -> 0 <= R * hc_k ROps p1 p2 ->
  hc_force ROps p1 p2 vt R x n v = v3_zero ROps.
Proof. intros Hx Hk. rewrite hc_force_decomp. cbv zeta.
  assert (E : hc_fH ROps p1 p2 R x = 0).
  { unfold hc_fH. set (k := hc_k ROps p1 p2) in *. cbn [nsqrt nmul ROps].
    assert (S : sqrt (R * k * x) = 0) by (apply sqrt_neg_0; nra). rewrite S. ring. }
  unfold hc_f. rewrite E. cbn [nmul ROps]. rewrite Rmult_0_l. destruct (Rle_dec 0 0); auto. lra. Qed.

(** magnitude: the documented f = (4/3) sqrt(R) E x^(3/2) (1 + 3/2 c xdot) with E = k^(3/2), k = s1*E1^(2/3),
    s1 = E2^(2/3)/(E1^(2/3)+E2^(2/3)), c = c1 s1 + c2 (1-s1); powers 3/2 written t*sqrt t *)
Definition pow32 (t:R) : R := t * sqrt t.
Theorem hc_magnitude_is_documented_formula p1 p2 R x vn : 0 <= R -> 0 <= x -> 0 <= hc_k ROps p1 p2 ->
  let s1 := h_k p2 / (h_k p1 + h_k p2) in
  let k := h_k p1 * s1 in
  let c := h_c p1 * s1 + h_c p2 * (1 - s1) in
  hc_f ROps p1 p2 R x vn = (4/3) * sqrt R * pow32 k * pow32 x * (1 + (3/2) * c * vn).
Proof. intros HR Hx Hk. cbv zeta. unfold hc_f, hc_fH, hc_c. unfold hc_k in *. unfold hc_s1 in *.
  set (s1 := ndiv ROps (h_k p2) (nadd ROps (h_k p1) (h_k p2))) in *.
  change (h_k p2 / (h_k p1 + h_k p2)) with s1. cbn [nmul ROps] in Hk. set (k := h_k p1 * s1) in *.
  cbv [c4_3 c3_2 lit]. cbn [nmul nadd nsub ndiv nsqrt nofZ n1 ROps]. fold k.
  rewrite !sqrt_mult by nra. unfold pow32. simpl IZR. field. Qed.

(** friction lies in the tangent plane, is parallel to the slip velocity with a non-negative factor
    (so the friction force on body 1, the slipping body, opposes its slip relative to body 2), and its
    magnitude never exceeds f*(mu_s + mu_v*vslip) *)
Theorem hc_friction_in_tangent_plane p1 p2 vt f v n : v3_dot ROps n n = 1 ->
  v3_dot ROps (hc_friction ROps p1 p2 vt f (vtan_of v n)) n = 0.
Proof. intros Hn. rewrite hc_friction_parallel, dot_scale_l, vtan_orth by auto. ring. Qed.
Theorem hc_friction_opposes_slip p1 p2 vt f vtan : hc_fric_ok p1 -> hc_fric_ok p2 -> 0 < vt -> 0 <= f ->
  v3_dot ROps (v3_neg ROps (hc_friction ROps p1 p2 vt f vtan)) vtan <= 0.
Proof. intros H1 H2 H3 H4. rewrite hc_friction_parallel.
  destruct (hc_lam_bounds p1 p2 vt f vtan H1 H2 H3 H4) as [L _]. set (l := hc_lam _ _ _ _ _) in *.
  pose proof (normSqr_nonneg vtan) as N. clearbody l. dv. revert N. vunf. intros N.
  assert (0 <= l * (r * r + r0 * r0 + r1 * r1)) by (apply Rmult_le_pos; lra). nra. Qed.
Theorem hc_friction_le_limit p1 p2 vt f vtan : hc_fric_ok p1 -> hc_fric_ok p2 -> 0 < vt -> 0 <= f ->
  let limit := f * (hc_mu ROps (h_us p1) (h_us p2) + hc_mu ROps (h_uv p1) (h_uv p2) * v3_norm ROps vtan) in
  v3_normSqr ROps (hc_friction ROps p1 p2 vt f vtan) <= limit * limit.
Proof. intros H1 H2 H3 H4. cbv zeta. rewrite hc_friction_parallel, normSqr_scale, <- norm_sq.
  destruct (hc_lam_bounds p1 p2 vt f vtan H1 H2 H3 H4) as [L U]. cbv zeta in U.
  pose proof (norm_nonneg vtan) as N. set (s := v3_norm ROps vtan) in *. set (l := hc_lam _ _ _ _ _) in *.
  set (lim := f * _) in *. assert (0 <= l * s) by (apply Rmult_le_pos; auto).
  replace (l * l * (s * s)) with ((l * s) * (l * s)) by ring. nra. Qed.

(** ** HuntCrossleyForce, the loop over contacts *)
Lemma sv_add_0_r (a:SpatialVec R) : sv_add ROps a (sv_zero ROps) = a.
Proof. dv. cbv [sv_zero]. vunf. teq; ring. Qed.
Lemma sv_add_assoc (a b c:SpatialVec R) : sv_add ROps (sv_add ROps a b) c = sv_add ROps a (sv_add ROps b c).
Proof. dv. vunf. teq; ring. Qed.
Lemma add_at_length i F (l:list (SpatialVec R)) : length (add_at ROps i F l) = length l.
Proof. revert i; induction l; destruct i; simpl; auto. Qed.
Lemma add_at_nth i F (l:list (SpatialVec R)) b d : (b < length l)%nat ->
  nth b (add_at ROps i F l) d = sv_add ROps (nth b l d) (if Nat.eqb b i then F else sv_zero ROps).
Proof. revert i b; induction l; intros i b Hb; simpl in Hb; [lia|].
  destruct i, b; simpl; try rewrite sv_add_0_r; auto. apply IHl. lia. Qed.
Lemma nth_zeros b n : nth b (zeros ROps n) (sv_zero ROps) = sv_zero ROps.
Proof. unfold zeros. revert b; induction n; destruct b; simpl; auto. Qed.

Fixpoint sv_sum (l:list (SpatialVec R)) : SpatialVec R :=
  match l with [] => sv_zero ROps | x :: r => sv_add ROps x (sv_sum r) end.
Fixpoint sumR (l:list R) : R := match l with [] => 0 | x :: r => x + sumR r end.

Notation surfaceR := (surface (T:=R)). Notation bodyR := (body (T:=R)). Notation contactR := (contact (T:=R)).
Section Loop.
Variables (surfs:list surfaceR) (bodies:list bodyR) (vt:R).
Let W c b := c_wrench ROps surfs bodies vt c b.

Lemma hc_loop_inv cs : forall F pe b, (b < length F)%nat ->
  nth b (fst (hc_loop ROps surfs bodies vt cs (F, pe))) (sv_zero ROps)
    = sv_add ROps (nth b F (sv_zero ROps)) (sv_sum (map (fun c => W c b) cs))
  /\ length (fst (hc_loop ROps surfs bodies vt cs (F, pe))) = length F.
Proof. induction cs as [|c rest IH]; intros F pe b Hb; cbn [hc_loop map sv_sum].
  - rewrite sv_add_0_r; auto.
  - unfold W at 1. unfold c_wrench.
    destruct (c_point c) eqn:P; cbn [negb].
    + destruct (c_active ROps surfs bodies c) eqn:A; cbn [negb fst snd].
      * match goal with |- context [hc_loop _ _ _ _ rest (?F2, ?pe2)] => destruct (IH F2 pe2 b) as [I1 I2] end.
        { rewrite !add_at_length; auto. }
        rewrite I1, I2, !add_at_length. split; auto.
        rewrite !add_at_nth by (rewrite ?add_at_length; auto). rewrite !sv_add_assoc. reflexivity.
      * destruct (IH F (nadd ROps pe (c_pe ROps surfs c)) b Hb) as [I1 I2]. rewrite I1, I2. split; auto.
        f_equal. destruct (sv_sum _) as [[[? ?] ?] [[? ?] ?]]. cbv [sv_zero]. vunf. teq; ring.
    + assert (A : c_active ROps surfs bodies c = false) by (unfold c_active; rewrite P; reflexivity). rewrite A.
      destruct (IH F pe b Hb) as [I1 I2]. rewrite I1, I2. split; auto.
      f_equal. destruct (sv_sum _) as [[[? ?] ?] [[? ?] ?]]. cbv [sv_zero]. vunf. teq; ring. Qed.

End Loop.

(** each contact gets its law: for EVERY list of contacts, the spatial force the loop leaves on body b is the sum
    over all contacts of that contact's own contribution (its per-contact law at its own location, -F on the body
    of surface 1, +F on the body of surface 2; nothing if it is not a point contact or its force is not positive).
    In particular a contact with f <= 0 contributes nothing and does not affect the contacts after it. *)
Theorem hc_each_contact_gets_its_law (surfs:list surfaceR) (bodies:list bodyR) (vt:R) cs b : (b < length bodies)%nat ->
  nth b (fst (hc_calcForce ROps surfs bodies vt cs)) (sv_zero ROps) = sv_sum (map (fun c => c_wrench ROps surfs bodies vt c b) cs).
Proof. intros Hb. unfold hc_calcForce.
  destruct (hc_loop_inv surfs bodies vt cs (zeros ROps (length bodies)) (n0 ROps) b) as [I _].
  { unfold zeros. rewrite repeat_length. auto. }
  rewrite I, nth_zeros. destruct (sv_sum _) as [[[? ?] ?] [[? ?] ?]]. cbv [sv_zero]. vunf. teq; ring. Qed.

(** the contribution of an active contact is its law: F = hc_force on the body of surface 2 and -F on the body of
    surface 1, both applied at the stiffness-weighted contact location *)
Theorem hc_contribution_is_law (surfs:list surfaceR) (bodies:list bodyR) (vt:R) c b : c_active ROps surfs bodies c = true ->
  c_b1 ROps surfs c <> c_b2 ROps surfs c ->
  c_wrench ROps surfs bodies vt c b =
    if Nat.eqb b (c_b2 ROps surfs c) then wrench_at ROps (nth b bodies (body0 ROps)) (c_at ROps surfs c) (c_force ROps surfs bodies vt c)
    else if Nat.eqb b (c_b1 ROps surfs c) then wrench_at ROps (nth b bodies (body0 ROps)) (c_at ROps surfs c) (v3_neg ROps (c_force ROps surfs bodies vt c))
    else sv_zero ROps.
Proof. intros A D. unfold c_wrench. rewrite A.
  destruct (Nat.eqb b (c_b2 ROps surfs c)) eqn:E2, (Nat.eqb b (c_b1 ROps surfs c)) eqn:E1;
    try apply Nat.eqb_eq in E1; try apply Nat.eqb_eq in E2; subst; try congruence.
  - match goal with |- sv_add _ _ ?w = _ => destruct w as [[[? ?] ?] [[? ?] ?]] end. cbv [sv_zero]. vunf. teq; ring.
  - apply sv_add_0_r.
  - apply sv_add_0_r. Qed.

(** potential energy: 2/5 fH x summed over all point contacts (including those whose force is clipped to zero) *)
Theorem hc_pe_is_sum (surfs:list surfaceR) (bodies:list bodyR) (vt:R) cs :
  snd (hc_calcForce ROps surfs bodies vt cs) = sumR (map (fun c => if c_point c then c_pe ROps surfs c else 0) cs).
Proof. unfold hc_calcForce. generalize (zeros ROps (length bodies)). cbn [n0 ROps].
  assert (G : forall F pe, snd (hc_loop ROps surfs bodies vt cs (F, pe)) = pe + sumR (map (fun c => if c_point c then c_pe ROps surfs c else 0) cs)).
  { induction cs as [|c rest IH]; intros F pe; cbn [hc_loop map sumR fst snd]; [ring|].
    destruct (c_point c); cbn [negb].
    - destruct (negb (c_active ROps surfs bodies c)); rewrite IH; cbn [nadd ROps]; ring.
    - rewrite IH. ring. }
  intros F. rewrite G. ring. Qed.


(** ** SmoothSphereHalfSpaceForce (pw := Rpower) *)
Lemma tanh_gt_m1 y : -1 < tanh y.
Proof. unfold tanh, sinh, cosh. pose proof (exp_pos y) as A. pose proof (exp_pos (- y)) as B.
  set (a := exp y) in *. set (b := exp (- y)) in *.
  replace ((a - b) / 2 / ((a + b) / 2)) with ((a - b) / (a + b)) by (field; lra).
  apply Rmult_lt_reg_r with (a + b); [lra|]. replace ((a - b) / (a + b) * (a + b)) with (a - b) by (field; lra). lra. Qed.
Lemma gate_pos y : 0 < 1 / 2 + 1 / 2 * tanh y.
Proof. pose proof (tanh_gt_m1 y). lra. Qed.

Definition ss_ok (p:sspar (T:=R)) : Prop := 0 < ss_stiffness p /\ 0 < ss_dissipation p /\ 0 < ss_cf p.
Lemma ss_fh_smooth_pos p R x : 0 < R -> 0 < ss_fh_smooth ROps Rpower p R x.
Proof. intros HR. unfold ss_fh_smooth, ss_fh_pos, ss_k. cbv [c4_3 c3_2 half lit]. cbn [nmul nadd ndiv nsqrt ntanh nofZ ROps]. simpl IZR.
  assert (K : 0 < 1 / 2 * Rpower (ss_stiffness p) (2 / 3)) by (apply Rmult_lt_0_compat; [lra | apply exp_pos]).
  set (k := 1 / 2 * Rpower (ss_stiffness p) (2 / 3)) in *.
  apply Rmult_lt_0_compat; [|apply gate_pos].
  repeat apply Rmult_lt_0_compat; try lra; try apply exp_pos. apply sqrt_lt_R0. nra. Qed.

(** the smoothed normal force is the product of three positive factors and (1 + 3/2 c vn) *)
Lemma ss_fhc_smooth_factor p R x vn :
  ss_fhc_smooth ROps Rpower p R x vn =
    ss_fh_smooth ROps Rpower p R x * (1 / 2 + 1 / 2 * tanh (ss_bv p * (vn + 2 / (3 * ss_dissipation p))))
      * (1 + 3 / 2 * ss_dissipation p * vn).
Proof. unfold ss_fhc_smooth, ss_fhc_pos. cbv [c3_2 half two lit]. cbn [nmul nadd ndiv ntanh nofZ n1 ROps]. simpl IZR. ring. Qed.

(** characterisation: the normal force is attractive exactly for separating speeds above 2/(3c) *)
Theorem ss_normal_attractive_iff p R x vn : ss_ok p -> 0 < R ->
  ss_fhc_smooth ROps Rpower p R x vn < 0 <-> vn < - (2 / (3 * ss_dissipation p)).
Proof. intros (Hs & Hc & Hcf) HR. rewrite ss_fhc_smooth_factor.
  pose proof (ss_fh_smooth_pos p R x HR) as F. pose proof (gate_pos (ss_bv p * (vn + 2 / (3 * ss_dissipation p)))) as G.
  set (f := ss_fh_smooth _ _ _ _ _) in *. set (g := 1 / 2 + 1 / 2 * tanh _) in *. set (c := ss_dissipation p) in *.
  assert (FG : 0 < f * g) by (apply Rmult_lt_0_compat; auto).
  assert (E : 1 + 3 / 2 * c * vn = 3 / 2 * c * (vn + 2 / (3 * c))) by (field; lra).
  assert (E2 : - (2 / (3 * c)) = - 2 / (3 * c)) by (field; lra).
  split; intros H.
  - assert (1 + 3 / 2 * c * vn < 0) by nra. rewrite E in H0. assert (0 < 3 / 2 * c) by lra.
    assert (vn + 2 / (3 * c) < 0) by nra. lra.
  - assert (vn + 2 / (3 * c) < 0) by lra. assert (0 < 3 / 2 * c) by lra.
    assert (1 + 3 / 2 * c * vn < 0) by (rewrite E; nra). nra. Qed.
Theorem ss_normal_nonneg_partial p R x vn : ss_ok p -> 0 < R ->
  - (2 / (3 * ss_dissipation p)) <= vn -> 0 <= ss_fhc_smooth ROps Rpower p R x vn.
Proof. intros Hp HR Hv. destruct (Rle_or_lt 0 (ss_fhc_smooth ROps Rpower p R x vn)); auto.
  apply (ss_normal_attractive_iff p R x vn Hp HR) in H. lra. Qed.
(** "normal forces are never attractive" fails for the smooth model: the witness of DESIGN 7.20
    (stiffness 1e5, dissipation 1, no friction, vt .001, cf 1e-5, bd 300, bv 50, R 0.8, indentation 0.1, separating at 0.68) *)
Definition ss_witness : sspar (T:=R) := mkSs 100000 1 0 0 0 (1/1000) (1/100000) 300 50.
Theorem ss_normal_never_attractive_refuted :
  exists p R x vn, ss_ok p /\ 0 < R /\ 0 < x /\ ss_fhc_smooth ROps Rpower p R x vn < 0.
Proof. exists ss_witness, (4/5), (1/10), (-68/100).
  assert (O : ss_ok ss_witness) by (unfold ss_ok, ss_witness; cbn; lra).
  repeat split; try lra; try apply O. apply ss_normal_attractive_iff; auto; try lra. cbn. lra. Qed.

(** friction: parallel to the slip velocity, in the tangent plane, bounded by |fhc| (mu_s + mu_v vslip) *)
Definition ss_lam (p:sspar (T:=R)) (fhc:R) (vtan:Vec3 R) : R :=
  ss_ff ROps p fhc (ss_vslip ROps Rpower p vtan) / ss_vslip ROps Rpower p vtan.
Lemma ss_vslip_sqrt p vtan : 0 < ss_cf p -> ss_vslip ROps Rpower p vtan = sqrt (v3_normSqr ROps vtan + ss_cf p).
Proof. intros H. unfold ss_vslip. cbv [half lit]. cbn [nadd ndiv nofZ ROps]. simpl IZR.
  replace (1 / 2) with (/ 2) by field. apply Rpower_sqrt. pose proof (normSqr_nonneg vtan). lra. Qed.
Lemma ss_force_decomp p R x n v :
  ss_contact_force ROps Rpower p R x n v =
    v3_add ROps (v3_scale ROps (ss_fhc_smooth ROps Rpower p R x (v3_dot ROps v n)) n)
                (v3_scale ROps (ss_lam p (ss_fhc_smooth ROps Rpower p R x (v3_dot ROps v n)) (vtan_of v n)) (vtan_of v n)).
Proof. unfold ss_contact_force, ss_lam. fold (vtan_of v n). f_equal.
  assert (N : ss_vslip ROps Rpower p (vtan_of v n) <> 0) by (unfold ss_vslip; apply Rgt_not_eq, exp_pos).
  set (s := ss_vslip _ _ _ _) in *. set (ff := ss_ff _ _ _ _). clearbody s ff. unfold v3_div.
  destruct (vtan_of v n) as [[a b] c]. vunf. teq; field; auto. Qed.
Theorem ss_friction_in_tangent_plane p fhc n v : v3_dot ROps n n = 1 ->
  v3_dot ROps (v3_scale ROps (ss_lam p fhc (vtan_of v n)) (vtan_of v n)) n = 0.
Proof. intros Hn. rewrite dot_scale_l, vtan_orth by auto. ring. Qed.
Definition ss_fric_ok (p:sspar (T:=R)) : Prop := 0 <= ss_ud p <= ss_us p /\ 0 <= ss_uv p /\ 0 < ss_vt p /\ 0 < ss_cf p.
Lemma ss_lam_bounds p fhc vtan : ss_fric_ok p ->
  let vslip := ss_vslip ROps Rpower p vtan in
  (0 <= fhc -> 0 <= ss_lam p fhc vtan) /\
  (ss_lam p fhc vtan * vslip) * (ss_lam p fhc vtan * vslip) <= (fhc * (ss_us p + ss_uv p * vslip)) * (fhc * (ss_us p + ss_uv p * vslip)).
Proof. intros (A & B & C & D). cbv zeta. unfold ss_lam, ss_ff.
  assert (S : 0 < ss_vslip ROps Rpower p vtan) by (unfold ss_vslip; apply exp_pos).
  set (s := ss_vslip _ _ _ _) in *. assert (S0 : 0 <= s) by lra.
  pose proof (hollars_bounds (ss_us p) (ss_ud p) (ss_uv p) (ss_vt p) s A B C S0) as [M1 M2].
  set (m := hollars_mu _ _ _ _ _ _) in *. cbn [nmul ROps]. split.
  - intros F. apply Rmult_le_pos; [apply Rmult_le_pos; auto|]. left; apply Rinv_0_lt_compat; auto.
  - replace (fhc * m / s * s) with (fhc * m) by (field; lra).
    set (L := ss_us p + ss_uv p * s) in *.
    replace (fhc * m * (fhc * m)) with (fhc * fhc * (m * m)) by ring.
    replace (fhc * L * (fhc * L)) with (fhc * fhc * (L * L)) by ring.
    apply Rmult_le_compat_l; [nra|]. nra. Qed.
Theorem ss_friction_opposes_slip p fhc vtan : ss_fric_ok p -> 0 <= fhc ->
  v3_dot ROps (v3_neg ROps (v3_scale ROps (ss_lam p fhc vtan) vtan)) vtan <= 0.
Proof. intros H F. destruct (ss_lam_bounds p fhc vtan H) as [L _]. specialize (L F). set (l := ss_lam _ _ _) in *.
  pose proof (normSqr_nonneg vtan) as N. clearbody l. dv. revert N. vunf. intros N.
  assert (0 <= l * (r * r + r0 * r0 + r1 * r1)) by (apply Rmult_le_pos; lra). nra. Qed.
Theorem ss_friction_le_limit p fhc vtan : ss_fric_ok p ->
  let limit := fhc * (ss_us p + ss_uv p * ss_vslip ROps Rpower p vtan) in
  v3_normSqr ROps (v3_scale ROps (ss_lam p fhc vtan) vtan) <= limit * limit.
Proof. intros H. cbv zeta. destruct (ss_lam_bounds p fhc vtan H) as [_ U]. cbv zeta in U.
  rewrite normSqr_scale. destruct H as (_ & _ & _ & D).
  pose proof (ss_vslip_sqrt p vtan D) as E. pose proof (normSqr_nonneg vtan) as N.
  assert (Q : ss_vslip ROps Rpower p vtan * ss_vslip ROps Rpower p vtan = v3_normSqr ROps vtan + ss_cf p)
    by (rewrite E; apply sqrt_sqrt; lra).
  set (s := ss_vslip _ _ _ _) in *. set (l := ss_lam _ _ _) in *. set (q := v3_normSqr ROps vtan) in *.
  eapply Rle_trans; [|apply U]. replace (l * s * (l * s)) with (l * l * (s * s)) by ring. rewrite Q.
  assert (0 <= l * l) by nra. nra. Qed.

(** consistency with the non-smooth law: with cf = 0 and x > 0 the Hertz factor fh_pos is HuntCrossleyForce's fH
    for two surfaces of the same material (k = E^(2/3)/2) *)
Lemma Rpower_32 t : 0 < t -> Rpower t (3 / 2) = t * sqrt t.
Proof. intros H. replace (3 / 2) with (1 + / 2) by field. rewrite Rpower_plus, Rpower_1, Rpower_sqrt; auto. Qed.
Theorem ss_fh_pos_cf0_is_hertz p R x : ss_cf p = 0 -> 0 < x -> 0 < R -> 0 < ss_stiffness p ->
  let e := Rpower (ss_stiffness p) (2 / 3) in
  ss_fh_pos ROps Rpower p R x = hc_fH ROps (mkHc e 0 0 0 0) (mkHc e 0 0 0 0) R x.
Proof. intros Hcf Hx HR Hs. cbv zeta. unfold ss_fh_pos, ss_k, hc_fH, hc_k, hc_s1. cbn [h_k]. rewrite Hcf.
  cbv [c4_3 c3_2 half lit]. cbn [nmul nadd ndiv nsqrt nofZ ROps]. simpl IZR.
  pose proof (exp_pos (2 / 3 * ln (ss_stiffness p))) as E. fold (Rpower (ss_stiffness p) (2 / 3)) in E.
  set (e := Rpower (ss_stiffness p) (2 / 3)) in *.
  rewrite Rplus_0_r, sqrt_square by lra. rewrite Rpower_32 by auto.
  replace (e * (e / (e + e))) with (1 / 2 * e) by (field; lra).
  rewrite (sqrt_mult (R * (1 / 2 * e)) x) by nra. ring. Qed.

(** ** ExponentialSpringForce *)
(** normal force: clamped to [0, maxFz], always fzElas + fzDamp *)
Theorem es_normal_props p pz vz : 0 <= e_maxFz p ->
  let '(fe, fd, fz) := es_normal ROps p pz vz in 0 <= fz <= e_maxFz p /\ fz = fe + fd.
Proof. intros HM. unfold es_normal. cbn [nmul nadd nsub nopp nexp nltb n0 ROps].
  set (fe := e_d1 p * exp (- e_d2 p * (pz - e_d0 p))). set (fd := - e_cz p * vz * fe).
  destruct (Rltb (fe + fd) 0) eqn:A.
  - apply Rltb_true in A. destruct (Rltb (e_maxFz p) 0) eqn:B.
    + apply Rltb_true in B. lra.
    + split; [lra|ring].
  - apply Rltb_false in A. destruct (Rltb (e_maxFz p) (fe + fd)) eqn:B.
    + apply Rltb_true in B. split; [lra|ring].
    + apply Rltb_false in B. split; [lra|ring]. Qed.
Theorem es_normal_never_attractive p pz vz : 0 <= e_maxFz p -> 0 <= snd (es_normal ROps p pz vz).
Proof. intros H. pose proof (es_normal_props p pz vz H) as Q. destruct (es_normal ROps p pz vz) as [[fe fd] fz]. cbn. lra. Qed.
(** magnitude: inside the clamp the documented fz = d1 exp(-d2 (pz - d0)) (1 - cz vz); below it 0, above it maxFz *)
Theorem es_normal_is_documented_formula p pz vz : 0 <= e_maxFz p ->
  let doc := e_d1 p * exp (- e_d2 p * (pz - e_d0 p)) * (1 - e_cz p * vz) in
  snd (es_normal ROps p pz vz) = Rmin (e_maxFz p) (Rmax 0 doc).
Proof. intros HM. cbv zeta. unfold es_normal. cbn [nmul nadd nsub nopp nexp nltb n0 ROps].
  set (fe := e_d1 p * exp (- e_d2 p * (pz - e_d0 p))).
  replace (fe * (1 - e_cz p * vz)) with (fe + - e_cz p * vz * fe) by ring. set (fd := - e_cz p * vz * fe).
  destruct (Rltb (fe + fd) 0) eqn:A.
  - apply Rltb_true in A. rewrite Rmax_left by lra. destruct (Rltb (e_maxFz p) 0) eqn:B.
    + apply Rltb_true in B. lra.
    + cbn. rewrite Rmin_right; lra.
  - apply Rltb_false in A. rewrite Rmax_right by lra. destruct (Rltb (e_maxFz p) (fe + fd)) eqn:B.
    + apply Rltb_true in B. cbn. rewrite Rmin_left; lra.
    + apply Rltb_false in B. cbn. rewrite Rmin_right; lra. Qed.
(** the elastic part is positive and decays with height: no force "without penetration" is NOT claimed by this model
    (documented: the force never vanishes, it falls off exponentially) *)

Lemma convex_normSqr (a b:Vec3 R) L K : v3_normSqr ROps a <= L * L -> v3_normSqr ROps b <= L * L -> 0 <= K <= 1 ->
  v3_normSqr ROps (v3_add ROps (v3_scale ROps (1 - K) a) (v3_scale ROps K b)) <= L * L.
Proof. intros A B HK. destruct a as [[a0 a1] a2], b as [[b0 b1] b2]. revert A B. vunf. intros A B.
  assert (D0 : 0 <= (a0 - b0) * (a0 - b0) + (a1 - b1) * (a1 - b1) + (a2 - b2) * (a2 - b2)).
  { pose proof (Rle_0_sqr (a0 - b0)). pose proof (Rle_0_sqr (a1 - b1)). pose proof (Rle_0_sqr (a2 - b2)). unfold Rsqr in *. lra. }
  assert (D1 : (a0 - b0) * (a0 - b0) + (a1 - b1) * (a1 - b1) + (a2 - b2) * (a2 - b2) =
          (a0 * a0 + a1 * a1 + a2 * a2) + (b0 * b0 + b1 * b1 + b2 * b2) - 2 * (a0 * b0 + a1 * b1 + a2 * b2)) by ring.
  assert (D : a0 * b0 + a1 * b1 + a2 * b2 <= L * L) by lra. clear D0 D1.
  set (P := a0 * a0 + a1 * a1 + a2 * a2) in *. set (Q := b0 * b0 + b1 * b1 + b2 * b2) in *. set (X := a0 * b0 + a1 * b1 + a2 * b2) in *.
  replace (((1 - K) * a0 + K * b0) * ((1 - K) * a0 + K * b0) + ((1 - K) * a1 + K * b1) * ((1 - K) * a1 + K * b1) +
           ((1 - K) * a2 + K * b2) * ((1 - K) * a2 + K * b2))
    with ((1 - K) * (1 - K) * P + 2 * (K * (1 - K)) * X + K * K * Q) by (unfold P, Q, X; ring).
  assert (0 <= (1 - K) * (1 - K)) by nra. assert (0 <= K * (1 - K)) by nra. assert (0 <= K * K) by nra.
  assert ((1 - K) * (1 - K) * P <= (1 - K) * (1 - K) * (L * L)) by (apply Rmult_le_compat_l; auto).
  assert (K * (1 - K) * X <= K * (1 - K) * (L * L)) by (apply Rmult_le_compat_l; auto).
  assert (K * K * Q <= K * K * (L * L)) by (apply Rmult_le_compat_l; auto).
  nra. Qed.
Lemma unit_scaled_normSqr (d:Vec3 R) L : 0 < v3_normSqr ROps d ->
  v3_normSqr ROps (v3_scale ROps L (v3_div ROps d (v3_norm ROps d))) = L * L.
Proof. intros H. unfold v3_div. rewrite !normSqr_scale. pose proof (norm_sq d) as E. pose proof (norm_nonneg d) as N.
  set (s := v3_norm ROps d) in *. set (q := v3_normSqr ROps d) in *. assert (s <> 0) by nra.
  cbn [ndiv n1 ROps]. rewrite <- E. field; auto. Qed.

(** friction: the blended force has magnitude at most mu*fz for every Sliding value in [0,1] *)
Theorem es_friction_le_limit sig p mus muk Ksl fz pxy vxy p0 : 0 <= sig -> 0 <= Ksl <= 1 ->
  let fr := es_friction ROps sig p mus muk Ksl fz pxy vxy p0 in
  v3_normSqr ROps (f_fric fr) <= f_limit fr * f_limit fr.
Proof. intros Hs HK. cbv zeta. unfold es_friction. cbn [nmul nsub nltb ROps].
  set (lim := (mus - Ksl * (mus - muk)) * fz).
  destruct (Rltb lim sig) eqn:A; cbn [f_fric f_limit].
  - cbv [v3_zero]. vunf. nra.
  - apply Rltb_false in A. assert (L0 : 0 <= lim) by lra.
    set (damp := v3_scale ROps (nopp ROps (e_cxy p)) vxy).
    set (elas2 := v3_scale ROps (nopp ROps (e_kxy p)) (v3_sub ROps pxy p0)).
    set (mod2 := v3_add ROps elas2 damp).
    set (damp1 := if Rltb (lim * lim) (v3_normSqr ROps damp) then _ else damp).
    set (over2 := Rltb (lim * lim) (v3_normSqr ROps mod2)).
    set (scale := ndiv ROps lim (nsqrt ROps (v3_normSqr ROps mod2))).
    set (e2 := if over2 then v3_scale ROps scale elas2 else elas2).
    set (d2 := if over2 then v3_scale ROps scale damp else damp).
    assert (D1 : v3_normSqr ROps damp1 <= lim * lim).
    { unfold damp1. destruct (Rltb (lim * lim) (v3_normSqr ROps damp)) eqn:B.
      - apply Rltb_true in B. rewrite unit_scaled_normSqr; [lra | nra].
      - apply Rltb_false in B. auto. }
    assert (M2 : v3_normSqr ROps (v3_add ROps e2 d2) <= lim * lim).
    { unfold e2, d2, over2. destruct (Rltb (lim * lim) (v3_normSqr ROps mod2)) eqn:B.
      - apply Rltb_true in B.
        replace (v3_add ROps (v3_scale ROps scale elas2) (v3_scale ROps scale damp)) with (v3_scale ROps scale mod2)
          by (unfold mod2; destruct elas2 as [[? ?] ?], damp as [[? ?] ?]; vunf; teq; ring).
        rewrite normSqr_scale. unfold scale. cbn [ndiv nsqrt ROps].
        assert (Q : 0 < v3_normSqr ROps mod2) by nra. set (q := v3_normSqr ROps mod2) in *.
        assert (S : sqrt q * sqrt q = q) by (apply sqrt_sqrt; lra). assert (sqrt q <> 0) by nra.
        replace (lim / sqrt q * (lim / sqrt q) * q) with (lim * lim * (q / (sqrt q * sqrt q))) by (field; auto).
        rewrite S. replace (q / q) with 1 by (field; lra). lra.
      - apply Rltb_false in B. auto. }
    match goal with |- v3_normSqr ROps ?X <= _ =>
      replace X with (v3_add ROps (v3_scale ROps (1 - Ksl) (v3_add ROps e2 d2)) (v3_scale ROps Ksl damp1))
      by (destruct e2 as [[? ?] ?], d2 as [[? ?] ?], damp1 as [[? ?] ?]; vunf; teq; ring) end.
    apply convex_normSqr; auto. Qed.
(** friction lies in the contact plane *)
Theorem es_friction_in_plane sig p mus muk Ksl fz pxy vxy p0 : v3_2 pxy = 0 -> v3_2 vxy = 0 -> v3_2 p0 = 0 ->
  v3_2 (f_fric (es_friction ROps sig p mus muk Ksl fz pxy vxy p0)) = 0.
Proof. intros A B C. destruct pxy as [[px py] pz], vxy as [[vx vy] vz], p0 as [[qx qy] qz]. cbn in A, B, C. subst.
  unfold es_friction. destruct (nltb ROps _ sig); cbn [f_fric]; [reflexivity|].
  unfold v3_div. repeat match goal with |- context [if ?c then _ else _] => destruct c end; vunf; ring. Qed.
(** the instantaneous coefficient lies between mu_k and mu_s, so the limit is at most mu_s fz *)
Theorem es_mu_between sig p mus muk Ksl fz pxy vxy p0 : 0 <= Ksl <= 1 -> muk <= mus ->
  muk <= f_mu (es_friction ROps sig p mus muk Ksl fz pxy vxy p0) <= mus.
Proof. intros HK Hm. unfold es_friction. destruct (nltb ROps _ sig); cbn [f_mu nmul nsub ROps]; nra. Qed.
Theorem es_limit_is_mu_fz sig p mus muk Ksl fz pxy vxy p0 :
  let fr := es_friction ROps sig p mus muk Ksl fz pxy vxy p0 in f_limit fr = f_mu fr * fz.
Proof. cbv zeta. unfold es_friction. destruct (nltb ROps _ sig); reflexivity. Qed.
(** opposes slip: shown for the fully sliding state (Sliding = 1, pure damping model); for Sliding < 1 the elastic
    spring term may point anywhere in the plane, by design *)
Theorem es_sliding_friction_opposes_slip_partial sig p mus muk fz pxy vxy p0 : 0 <= sig -> 0 <= e_cxy p ->
  v3_dot ROps (f_fric (es_friction ROps sig p mus muk 1 fz pxy vxy p0)) vxy <= 0.
Proof. intros Hs Hc. unfold es_friction. cbn [nmul nsub nltb n1 ROps].
  set (lim := (mus - 1 * (mus - muk)) * fz).
  destruct (Rltb lim sig) eqn:A; cbn [f_fric].
  - rewrite dot_zero_l. lra.
  - apply Rltb_false in A. assert (L0 : 0 <= lim) by lra.
    set (damp := v3_scale ROps (nopp ROps (e_cxy p)) vxy).
    match goal with |- context [v3_add ROps (v3_scale ROps (1 - 1) ?e2) (v3_add ROps ?d2 (v3_scale ROps 1 (v3_sub ROps ?d1 ?d2)))] =>
      replace (v3_add ROps (v3_scale ROps (1 - 1) e2) (v3_add ROps d2 (v3_scale ROps 1 (v3_sub ROps d1 d2)))) with d1
        by (destruct e2 as [[? ?] ?], d2 as [[? ?] ?], d1 as [[? ?] ?]; vunf; teq; ring) end.
    pose proof (normSqr_nonneg vxy) as N.
    assert (DV : v3_dot ROps damp vxy = - e_cxy p * v3_normSqr ROps vxy) by (unfold damp; destruct vxy as [[? ?] ?]; vunf; ring).
    destruct (Rltb (lim * lim) (v3_normSqr ROps damp)) eqn:B.
    + apply Rltb_true in B. unfold v3_div. rewrite !dot_scale_l, DV. pose proof (norm_sq damp) as E. pose proof (norm_nonneg damp) as NN.
      set (s := v3_norm ROps damp) in *. assert (0 < s) by nra. cbn [ndiv n1 ROps].
      assert (0 <= lim * (1 / s)) by (apply Rmult_le_pos; auto; left; apply Rlt_mult_inv_pos; lra).
      assert (0 <= e_cxy p * v3_normSqr ROps vxy) by (apply Rmult_le_pos; auto).
      set (t := lim * (1 / s)) in *. replace (lim * (1 / s * (- e_cxy p * v3_normSqr ROps vxy))) with (- (t * (e_cxy p * v3_normSqr ROps vxy))) by (unfold t; ring).
      assert (0 <= t * (e_cxy p * v3_normSqr ROps vxy)) by (apply Rmult_le_pos; auto). lra.
    + rewrite DV. assert (0 <= e_cxy p * v3_normSqr ROps vxy) by (apply Rmult_le_pos; auto). lra. Qed.

(** ** CompliantContactSubsystem: Stribeck curve (step5 regenerated from the source), Hertz circular, brick vertex *)
Lemma step5_range x : 0 <= x <= 1 -> 0 <= k37_step5 ROps x <= 1.
Proof. intros [A B]. unfold k37_step5. vunf. simpl IZR.
  assert (E : x * x * x * (10 + x * (6 * x - 15)) = x * x * x * (6 * (x * x) - 15 * x + 10)) by ring. rewrite E.
  assert (P : 0 <= x * x * x) by (apply Rmult_le_pos; nra).
  assert (Q : 0 < 6 * (x * x) - 15 * x + 10) by nra. split; [apply Rmult_le_pos; lra|].
  (* 1 - (6x^5 - 15x^4 + 10x^3) = (1-x)^3 (6x^2 + 3x + 1) *)
  assert (F : 1 - x * x * x * (6 * (x * x) - 15 * x + 10) = (1 - x) * (1 - x) * (1 - x) * (6 * (x * x) + 3 * x + 1)) by ring.
  assert (G : 0 <= (1 - x) * (1 - x) * (1 - x) * (6 * (x * x) + 3 * x + 1)).
  { apply Rmult_le_pos; [apply Rmult_le_pos; nra | nra]. }
  lra. Qed.
Theorem stribeck_bounds us ud uv v : 0 <= ud <= us -> 0 <= uv -> 0 <= v ->
  0 <= stribeck ROps us ud uv v <= us + uv * v.
Proof. intros [A B] C D. unfold stribeck. cbn [nmul nadd nsub ndiv nleb nofZ n1 ROps]. cbv [two]. cbn [nofZ ROps]. simpl IZR.
  assert (W : 0 <= uv * v) by (apply Rmult_le_pos; auto).
  destruct (Rleb 3 v) eqn:E3; [lra|]. apply Rleb_false in E3.
  destruct (Rleb 1 v) eqn:E1.
  - apply Rleb_true in E1. assert (R1 : 0 <= (v - 1) / 2 <= 1) by lra.
    pose proof (step5_range _ R1) as [S1 S2]. set (s := k37_step5 ROps ((v - 1) / 2)) in *. nra.
  - apply Rleb_false in E1. assert (R1 : 0 <= v <= 1) by lra.
    pose proof (step5_range _ R1) as [S1 S2]. set (s := k37_step5 ROps v) in *. nra. Qed.
Lemma cc_mu_nonneg a b : 0 <= a -> 0 <= b -> 0 <= cc_mu ROps a b.
Proof. intros Ha Hb. unfold cc_mu. cbv [two]. cbn [nmul ndiv nadd nofZ ROps]. simpl IZR.
  destruct (nz ROps (2 * a * b)) eqn:E; [|nra]. apply nz_true in E.
  assert (0 < a + b) by (destruct (Req_dec a 0); [subst; lra | lra]).
  apply Rmult_le_pos; [nra|]. left; apply Rinv_0_lt_compat; auto. Qed.
Lemma cc_mu_ordered d1 d2 s1 s2 : 0 <= d1 <= s1 -> 0 <= d2 <= s2 -> cc_mu ROps d1 d2 <= cc_mu ROps s1 s2.
Proof. intros [A1 A2] [B1 B2]. unfold cc_mu. cbv [two]. cbn [nmul ndiv nadd nofZ ROps]. simpl IZR.
  destruct (nz ROps (2 * d1 * d2)) eqn:E.
  - apply nz_true in E. assert (D1 : 0 < d1) by (destruct (Req_dec d1 0); [subst; lra | lra]).
    assert (D2 : 0 < d2) by (destruct (Req_dec d2 0); [subst; lra | lra]).
    assert (E2 : nz ROps (2 * s1 * s2) = true) by (apply nz_true; nra). rewrite E2.
    apply Rmult_le_reg_r with ((d1 + d2) * (s1 + s2)); [apply Rmult_lt_0_compat; lra|].
    replace (2 * d1 * d2 / (d1 + d2) * ((d1 + d2) * (s1 + s2))) with (2 * d1 * d2 * (s1 + s2)) by (field; lra).
    replace (2 * s1 * s2 / (s1 + s2) * ((d1 + d2) * (s1 + s2))) with (2 * s1 * s2 * (d1 + d2)) by (field; lra).
    assert (0 <= d1 * s1 * (s2 - d2)) by (apply Rmult_le_pos; [apply Rmult_le_pos|]; lra).
    assert (0 <= d2 * s2 * (s1 - d1)) by (apply Rmult_le_pos; [apply Rmult_le_pos|]; lra).
    nra.
  - apply nz_false in E. rewrite E. fold (cc_mu ROps s1 s2).
    pose proof (cc_mu_nonneg s1 s2) as N. unfold cc_mu in N. cbv [two] in N. cbn [nmul ndiv nadd nofZ ROps] in N. simpl IZR in N.
    apply N; lra. Qed.

Definition cc_fric_ok (m:ccmat (T:=R)) : Prop := 0 <= m_ud m <= m_us m /\ 0 <= m_uv m.
(** the friction force on surface 2 opposes its slip velocity, stays in the tangent plane, is bounded by
    fN (mu_s + mu_v vslip), and the reported friction power is the power it dissipates *)
Theorem cc_friction_props sig m1 m2 vtrans fN velT : cc_fric_ok m1 -> cc_fric_ok m2 -> 0 < vtrans -> 0 <= fN -> 0 <= sig ->
  let '(fF, pF) := cc_friction ROps sig m1 m2 vtrans fN velT in
  let limit := fN * (cc_mu ROps (m_us m1) (m_us m2) + cc_mu ROps (m_uv m1) (m_uv m2) * v3_norm ROps velT) in
  v3_dot ROps fF velT <= 0 /\ v3_normSqr ROps fF <= limit * limit /\ pF = - v3_dot ROps fF velT
  /\ (forall n, v3_dot ROps velT n = 0 -> v3_dot ROps fF n = 0).
Proof. intros [A1 A2] [B1 B2] Hv HN Hs. unfold cc_friction. cbn [nmul nltb ndiv nsqrt nopp n1 ROps].
  pose proof (normSqr_nonneg velT) as Q. pose proof (norm_nonneg velT) as NN. pose proof (norm_sq velT) as SQ.
  assert (U0 : 0 <= cc_mu ROps (m_us m1) (m_us m2)) by (apply cc_mu_nonneg; lra).
  assert (V0 : 0 <= cc_mu ROps (m_uv m1) (m_uv m2)) by (apply cc_mu_nonneg; lra).
  destruct (Rltb (sig * sig) (v3_normSqr ROps velT)) eqn:E.
  - apply Rltb_true in E. fold (v3_norm ROps velT). set (s := v3_norm ROps velT) in *.
    assert (S : 0 < s) by nra.
    assert (O : 0 <= cc_mu ROps (m_ud m1) (m_ud m2) <= cc_mu ROps (m_us m1) (m_us m2))
      by (split; [apply cc_mu_nonneg; lra | apply cc_mu_ordered; lra]).
    assert (V1 : 0 <= cc_mu ROps (m_uv m1) (m_uv m2) * vtrans) by (apply Rmult_le_pos; lra).
    assert (V2 : 0 <= s * (1 / vtrans)) by (apply Rmult_le_pos; [lra|]; left; apply Rlt_mult_inv_pos; lra).
    pose proof (stribeck_bounds _ _ _ _ O V1 V2) as [M1 M2].
    replace (cc_mu ROps (m_uv m1) (m_uv m2) * vtrans * (s * (1 / vtrans))) with (cc_mu ROps (m_uv m1) (m_uv m2) * s) in M2 by (field; lra).
    set (mu := stribeck _ _ _ _ _) in *. set (us := cc_mu ROps (m_us m1) (m_us m2)) in *. set (uv := cc_mu ROps (m_uv m1) (m_uv m2)) in *.
    assert (FM : 0 <= fN * mu) by (apply Rmult_le_pos; auto).
    assert (DT : v3_dot ROps (v3_scale ROps (- (fN * mu) / s) velT) velT = - (fN * mu) * s).
    { rewrite dot_scale_l. change (v3_dot ROps velT velT) with (v3_normSqr ROps velT). rewrite <- SQ. fold s. field. lra. }
    change (sqrt (v3_normSqr ROps velT)) with s.
    repeat split.
    + rewrite DT. nra.
    + rewrite normSqr_scale, <- SQ. fold s. replace (- (fN * mu) / s * (- (fN * mu) / s) * (s * s)) with ((fN * mu) * (fN * mu)) by (field; lra).
      assert (fN * mu <= fN * (us + uv * s)) by (apply Rmult_le_compat_l; auto). assert (0 <= fN * (us + uv * s)) by nra. nra.
    + rewrite DT. ring.
    + intros n Hn. rewrite dot_scale_l, Hn. ring.
  - repeat split.
    + rewrite dot_zero_l. lra.
    + match goal with |- _ <= ?L * ?L => generalize L; intro l end. cbv [v3_zero]. vunf. nra.
    + rewrite dot_zero_l. cbn. ring.
    + intros n _. apply dot_zero_l. Qed.

(** Hertz (circular, e = 1; elliptical passes its own R and e): shape of the result *)
Definition hz_fN (m1 m2:ccmat (T:=R)) (depth Rr e xdot:R) : R :=
  let s1 := m_k m2 / (m_k m1 + m_k m2) in
  let k := m_k m1 * s1 in let c := m_c m1 * s1 + m_c m2 * (1 - s1) in
  e * (4 / 3) * k * depth * sqrt (Rr * k * depth) * (1 + 3 / 2 * c * xdot).
Definition hz_pt (m1 m2:ccmat (T:=R)) (depth:R) (normal origin:Vec3 R) : Vec3 R :=
  v3_add ROps origin (v3_scale ROps (depth * (1 / 2 - m_k m2 / (m_k m1 + m_k m2))) normal).
Definition hz_vel (m1 m2:ccmat (T:=R)) (depth:R) (normal origin p12 w12 v12:Vec3 R) : Vec3 R :=
  v3_add ROps v12 (v3_cross ROps w12 (v3_sub ROps (hz_pt m1 m2 depth normal origin) p12)).
Lemma velT_is_vtan vel n : v3_sub ROps vel (v3_scale ROps (- - v3_dot ROps vel n) n) = vtan_of vel n.
Proof. unfold vtan_of. rewrite Ropp_involutive. reflexivity. Qed.
Theorem hz_force_decomp sig m1 m2 vtrans depth n origin Rr e p12 w12 v12 :
  let vel := hz_vel m1 m2 depth n origin p12 w12 v12 in
  let fN := hz_fN m1 m2 depth Rr e (- v3_dot ROps vel n) in
  let r := hz_force ROps sig m1 m2 vtrans depth n origin Rr e p12 w12 v12 in
  (depth <= 0 -> z_valid r = false /\ z_force r = v3_zero ROps) /\
  (0 < depth -> z_valid r = true /\ z_pt r = hz_pt m1 m2 depth n origin /\
     z_force r = if Rle_dec fN 0 then v3_zero ROps
                 else v3_add ROps (v3_scale ROps fN n) (fst (cc_friction ROps sig m1 m2 vtrans fN (vtan_of vel n)))).
Proof. cbv zeta. unfold hz_force. cbn [nleb n0 ROps]. destruct (Rleb depth 0) eqn:D.
  - apply Rleb_true in D. split; [intros _; split; reflexivity | intros; lra].
  - apply Rleb_false in D. split; [intros; lra | intros _].
    cbv [c4_3 c3_2 c2_5 half lit]. cbn [nmul nadd nsub ndiv nsqrt nopp nofZ n1 nleb ROps]. simpl IZR.
    fold (hz_pt m1 m2 depth n origin). fold (hz_vel m1 m2 depth n origin p12 w12 v12).
    set (vel := hz_vel m1 m2 depth n origin p12 w12 v12). rewrite velT_is_vtan.
    set (s1 := m_k m2 / (m_k m1 + m_k m2)). set (k := m_k m1 * s1). set (c := m_c m1 * s1 + m_c m2 * (1 - s1)).
    set (fH := e * (4 / 3) * k * depth * sqrt (Rr * k * depth)). set (xdot := - v3_dot ROps vel n).
    assert (EN : fH + fH * (3 / 2) * c * xdot = hz_fN m1 m2 depth Rr e xdot) by (unfold hz_fN; fold s1 k c fH; ring).
    rewrite EN. set (fN := hz_fN m1 m2 depth Rr e xdot). destruct (Rleb fN 0) eqn:F.
    + apply Rleb_true in F. destruct (Rle_dec fN 0); [|lra]. repeat split.
    + apply Rleb_false in F. destruct (Rle_dec fN 0); [lra|].
      destruct (cc_friction ROps sig m1 m2 vtrans fN (vtan_of vel n)) as [fF pF] eqn:CF. cbn [z_valid z_pt z_force fst].
      repeat split. unfold fN. rewrite <- EN. destruct n as [[? ?] ?], fF as [[? ?] ?]. vunf. teq; ring. Qed.
(** never attractive: the component along the normal (away from surface 1) of the force on surface 2 is max(fN,0) *)
Theorem hz_normal_never_attractive sig m1 m2 vtrans depth n origin R e p12 w12 v12 : v3_dot ROps n n = 1 ->
  let vel := hz_vel m1 m2 depth n origin p12 w12 v12 in
  v3_dot ROps (z_force (hz_force ROps sig m1 m2 vtrans depth n origin R e p12 w12 v12)) n
    = if Rle_dec depth 0 then 0 else Rmax 0 (hz_fN m1 m2 depth R e (- v3_dot ROps vel n)).
Proof. intros Hn. cbv zeta. pose proof (hz_force_decomp sig m1 m2 vtrans depth n origin R e p12 w12 v12) as [A B]. cbv zeta in A, B.
  destruct (Rle_dec depth 0) as [D|D].
  - destruct (A D) as [_ Z]. rewrite Z. apply dot_zero_l.
  - destruct B as (_ & _ & Z); [lra|]. rewrite Z. set (vel := hz_vel _ _ _ _ _ _ _ _). set (fN := hz_fN _ _ _ _ _ _).
    destruct (Rle_dec fN 0) as [F|F].
    + rewrite dot_zero_l, Rmax_left; lra.
    + rewrite dot_add_l, dot_scale_l, Hn.
      assert (T0 : v3_dot ROps (fst (cc_friction ROps sig m1 m2 vtrans fN (vtan_of vel n))) n = 0).
      { unfold cc_friction. destruct (nltb ROps _ _); cbn [fst]; [rewrite dot_scale_l, vtan_orth by auto; ring | apply dot_zero_l]. }
      rewrite T0, Rmax_right; lra. Qed.
(** magnitude: fN = e (4/3) sqrt(R) k^(3/2) x^(3/2) (1 + 3/2 c xdot), the documented Hertz/Hunt-Crossley law *)
Theorem hz_magnitude_is_documented_formula m1 m2 depth R e xdot : 0 <= R -> 0 <= depth ->
  let s1 := m_k m2 / (m_k m1 + m_k m2) in let k := m_k m1 * s1 in let c := m_c m1 * s1 + m_c m2 * (1 - s1) in
  0 <= k -> hz_fN m1 m2 depth R e xdot = e * (4 / 3) * sqrt R * pow32 k * pow32 depth * (1 + 3 / 2 * c * xdot).
Proof. intros HR HD. cbv zeta. intros HK. unfold hz_fN. set (k := m_k m1 * (m_k m2 / (m_k m1 + m_k m2))) in *.
  rewrite !sqrt_mult by nra. unfold pow32. ring. Qed.

(** brick / half-space vertex law: zero without penetration, normal part max(k x (1 + c xdot), 0), same friction *)
Definition bk_fN (mH mB:ccmat (T:=R)) (x xdot:R) : R :=
  let sH := m_k mB / (m_k mH + m_k mB) in
  m_k mH * sH * x * (1 + (m_c mH * sH + m_c mB * (1 - sH)) * xdot).
Theorem bk_vertex_law sig mH mB vtrans n pHB w v vH :
  let x := - v3_dot ROps vH n in
  let sB := 1 - m_k mB / (m_k mH + m_k mB) in
  let pt := v3_add ROps vH (v3_scale ROps (x * sB) n) in
  let vel := v3_add ROps v (v3_cross ROps w (v3_sub ROps pt pHB)) in
  let fN := bk_fN mH mB x (- v3_dot ROps vel n) in
  match bk_vertex ROps sig mH mB vtrans n pHB w v vH with
  | None => x <= 0
  | Some (pt', f, _, _, x', xdot') => 0 < x /\ pt' = pt /\ x' = x /\ xdot' = - v3_dot ROps vel n /\
      f = if Rle_dec fN 0 then v3_zero ROps
          else v3_add ROps (v3_scale ROps fN n) (fst (cc_friction ROps sig mH mB vtrans fN (vtan_of vel n)))
  end.
Proof. cbv zeta. unfold bk_vertex. cbn [nleb nmul nadd nsub ndiv nopp n0 n1 ROps]. cbv [two]. cbn [nofZ ROps].
  set (x := - v3_dot ROps vH n). destruct (Rleb x 0) eqn:D; [apply Rleb_true in D; auto|]. apply Rleb_false in D.
  set (sH := m_k mB / (m_k mH + m_k mB)).
  set (pt := v3_add ROps vH (v3_scale ROps (x * (1 - sH)) n)).
  set (vel := v3_add ROps v (v3_cross ROps w (v3_sub ROps pt pHB))). rewrite velT_is_vtan.
  set (xdot := - v3_dot ROps vel n).
  assert (EN : m_k mH * sH * x + m_k mH * sH * x * (m_c mH * sH + m_c mB * (1 - sH)) * xdot = bk_fN mH mB x xdot)
    by (unfold bk_fN; fold sH; ring).
  rewrite EN. set (fN := bk_fN mH mB x xdot). destruct (Rleb fN 0) eqn:F.
  - apply Rleb_true in F. destruct (Rle_dec fN 0); [|lra]. repeat split; lra.
  - apply Rleb_false in F. destruct (Rle_dec fN 0); [lra|].
    destruct (cc_friction ROps sig mH mB vtrans fN (vtan_of vel n)) as [fF pF]. cbn [fst]. repeat split; lra. Qed.

(** ** brick / half space: the loop over the face vertices gives every penetrating vertex its own law *)
Definition bk_contrib sig (mH mB:ccmat (T:=R)) vtrans (n pHB w v vH:Vec3 R) : SpatialVec R * R * R :=
  match bk_vertex ROps sig mH mB vtrans n pHB w v vH with
  | None => (sv_zero ROps, 0, 0)
  | Some (pt, f, pe, pw, _, _) => ((v3_cross ROps pt f, f), pe, pw)
  end.
Theorem bk_each_vertex_gets_its_law sig mH mB vtrans n pHB w v vs F pe pw :
  bk_loop ROps sig mH mB vtrans n pHB w v vs (F, pe, pw) =
    (sv_add ROps F (sv_sum (map (fun vH => fst (fst (bk_contrib sig mH mB vtrans n pHB w v vH))) vs)),
     pe + sumR (map (fun vH => snd (fst (bk_contrib sig mH mB vtrans n pHB w v vH))) vs),
     pw + sumR (map (fun vH => snd (bk_contrib sig mH mB vtrans n pHB w v vH)) vs)).
Proof. revert F pe pw. induction vs as [|vH rest IH]; intros F pe pw; cbn [bk_loop map sv_sum sumR].
  - rewrite sv_add_0_r, !Rplus_0_r. reflexivity.
  - unfold bk_contrib at 1 3 5. destruct (bk_vertex ROps sig mH mB vtrans n pHB w v vH) as [[[[[[pt f] e] p] x] xd]|].
    + rewrite IH. cbn [fst snd nadd ROps]. rewrite sv_add_assoc. f_equal; [f_equal|]; ring.
    + rewrite IH. cbn [fst snd]. f_equal; [f_equal|]; try ring.
      destruct F as [[[? ?] ?] [[? ?] ?]]. destruct (sv_sum _) as [[[? ?] ?] [[? ?] ?]]. cbv [sv_zero]. vunf. teq; ring. Qed.

(** ** non-vacuity: the hypotheses are satisfiable and the active branches are reached on concrete inputs *)
Definition ex_p : hcpar (T:=R) := mkHc 2 (1/2) (4/5) (1/2) (1/10).
Example ex_hc_fric_ok : hc_fric_ok ex_p.
Proof. unfold hc_fric_ok, ex_p; cbn; lra. Qed.
Example ex_hc_f_positive : hc_f ROps ex_p ex_p 1 1 0 = 4 / 3.
Proof. unfold hc_f, hc_fH, hc_k, hc_c, hc_s1, ex_p. cbv [c4_3 c3_2 lit]. cbn [h_k h_c nmul nadd nsub ndiv nsqrt nofZ n1 ROps]. simpl IZR.
  replace (1 * (2 * (2 / (2 + 2))) * 1) with 1 by field. rewrite sqrt_1. field. Qed.
Example ex_hc_sliding_contact_pushes_and_drags :
  v3_dot ROps (hc_force ROps ex_p ex_p (1/100) 1 1 (0,1,0) (1,0,0)) (0,1,0) = 4 / 3.
Proof. rewrite hc_normal_component by (vunf; ring).
  replace (v3_dot ROps (1, 0, 0) (0, 1, 0)) with 0 by (vunf; ring). rewrite ex_hc_f_positive, Rmax_right; lra. Qed.
Example ex_hc_separating_contact_is_clipped : hc_f ROps ex_p ex_p 1 1 (-2) < 0.
Proof. unfold hc_f, hc_fH, hc_k, hc_c, hc_s1, ex_p. cbv [c4_3 c3_2 lit]. cbn [h_k h_c nmul nadd nsub ndiv nsqrt nofZ n1 ROps]. simpl IZR.
  replace (1 * (2 * (2 / (2 + 2))) * 1) with 1 by field. rewrite sqrt_1.
  match goal with |- ?x < 0 => replace x with (- (2 / 3)) by field end. lra. Qed.
Example ex_ss_ok : ss_ok ss_witness /\ ss_fric_ok (mkSs 100000 1 (4/5) (1/2) (1/10) (1/1000) (1/100000) 300 50).
Proof. unfold ss_ok, ss_fric_ok, ss_witness; cbn; lra. Qed.
Example ex_es_clamped_low : snd (es_normal ROps (mkEs 0 1 1 1 100 1 1) 0 2) = 0.
Proof. rewrite es_normal_is_documented_formula by (cbn; lra). cbn [e_d0 e_d1 e_d2 e_cz e_maxFz].
  match goal with |- context [exp ?a] => pose proof (exp_pos a) as E; set (e := exp a) in * end. rewrite Rmax_left by lra. rewrite Rmin_right; lra. Qed.
Example ex_cc_fric_ok : cc_fric_ok (mkMat 1 (1/2) (4/5) (1/2) (1/10)).
Proof. unfold cc_fric_ok; cbn; lra. Qed.
Example ex_step5_mid : k37_step5 ROps (1/2) = 1 / 2.
Proof. unfold k37_step5. vunf. simpl IZR. field. Qed.
