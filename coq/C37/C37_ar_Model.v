(** C37 (action and reaction): the step that turns contact forces into body forces.
    CompliantContactSubsystemImpl::realizeSubsystemDynamicsImpl (Simbody/src/CompliantContactSubsystem.cpp) takes every
    ContactForce (contact point pt in Ground, spatial force (M,F) on surface 2 AT the contact point) and applies
        F2 = ( M + r2 x F,  F)   to the body of surface 2,   r2 = pt - origin of that body,
        F1 = (-M + r1 x -F, -F)  to the body of surface 1,   r1 = pt - origin of that body;
    HuntCrossleyForce and ElasticFoundationForce apply +-F at a common Ground point through applyForceToBodyPoint
    ([wrench_at] of C37_Model.v).  [net_wrench] is the total force and the total moment about the Ground origin of a
    body-force array, Ground's entry included.  Generic in [NumOps]; no proofs in this file. *)
From Coq Require Import ZArith List Bool.
Require Import Num Vec c37_gen C37_Model.
Import ListNotations.
Section M. Context {T:Type} (K:NumOps T).
(** a reported contact force: bodies of surface 1 and 2, contact point, moment and force on surface 2 at that point *)
Record cforce := mkCf { cf_b1 : nat; cf_b2 : nat; cf_pt : Vec3 T; cf_m : Vec3 T; cf_f : Vec3 T }.
Definition cc_F2 (b:body (T:=T)) (c:cforce) : SpatialVec T :=
  (v3_add K (cf_m c) (v3_cross K (v3_sub K (cf_pt c) (b_p b)) (cf_f c)), cf_f c).
Definition cc_F1 (b:body (T:=T)) (c:cforce) : SpatialVec T :=
  (v3_add K (v3_neg K (cf_m c)) (v3_cross K (v3_sub K (cf_pt c) (b_p b)) (v3_neg K (cf_f c))), v3_neg K (cf_f c)).
Definition cc_apply (bodies:list (body (T:=T))) (acc:list (SpatialVec T)) (c:cforce) : list (SpatialVec T) :=
  add_at K (cf_b2 c) (cc_F2 (nth (cf_b2 c) bodies (body0 K)) c)
         (add_at K (cf_b1 c) (cc_F1 (nth (cf_b1 c) bodies (body0 K)) c) acc).
Definition cc_bodyForces (bodies:list (body (T:=T))) (cs:list cforce) : list (SpatialVec T) :=
  fold_left (cc_apply bodies) cs (zeros K (length bodies)).
(** total force and total moment about the Ground origin of per-body spatial forces (each about its own body origin) *)
Fixpoint net_wrench (bodies:list (body (T:=T))) (fs:list (SpatialVec T)) : SpatialVec T :=
  match bodies, fs with
  | b :: bs, f :: rest => sv_add K (v3_add K (fst f) (v3_cross K (b_p b) (snd f)), snd f) (net_wrench bs rest)
  | _, _ => sv_zero K
  end.
End M.
