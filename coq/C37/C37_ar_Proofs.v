(** C37 proofs, action and reaction (over the reals): every compliant contact element applies a zero net force and a zero
    net moment about the Ground origin (hence about any common point) to the system, Ground's share included, for every
    list of contacts, every contact force (with or without a moment at the contact point) and all body poses. *)
From Coq Require Import ZArith Reals Lra Lia List Psatz Bool.
Require Import Num Vec Tactics c37_gen C37_Model C37_Proofs C37_ef_Model C37_ef_Proofs C37_ar_Model.
Import ListNotations.
Local Open Scope R_scope.
Notation cforceR := (cforce (T:=R)).

Definition shiftO (b:bodyR) (f:SpatialVec R) : SpatialVec R := (v3_add ROps (fst f) (v3_cross ROps (b_p b) (snd f)), snd f).
Lemma net_cons b bs f fs : net_wrench ROps (b :: bs) (f :: fs) = sv_add ROps (shiftO b f) (net_wrench ROps bs fs).
Proof. reflexivity. Qed.
Lemma sv_add_comm (a b:SpatialVec R) : sv_add ROps a b = sv_add ROps b a.
Proof. destruct a as [[[? ?] ?] [[? ?] ?]], b as [[[? ?] ?] [[? ?] ?]]. vunf. teq; ring. Qed.
Lemma shiftO_add b f g : shiftO b (sv_add ROps f g) = sv_add ROps (shiftO b f) (shiftO b g).
Proof. destruct b as [[[? ?] ?] w v], f as [[[? ?] ?] [[? ?] ?]], g as [[[? ?] ?] [[? ?] ?]]. unfold shiftO. cbn [b_p]. vunf. teq; ring. Qed.
(** adding w to body i's entry adds w, shifted to the Ground origin, to the net wrench *)
Lemma net_add_at bodies : forall i w fs, (i < length bodies)%nat -> length fs = length bodies ->
  net_wrench ROps bodies (add_at ROps i w fs) = sv_add ROps (net_wrench ROps bodies fs) (shiftO (nth i bodies (body0 ROps)) w).
Proof. induction bodies as [|b bs IH]; intros i w fs Hi Hl; cbn [length] in *; [lia|].
  destruct fs as [|f rest]; cbn [length] in Hl; [lia|]. destruct i; cbn [add_at nth].
  - rewrite !net_cons, shiftO_add. rewrite !sv_add_assoc. f_equal. apply sv_add_comm.
  - rewrite !net_cons, IH by lia. rewrite sv_add_assoc. reflexivity. Qed.
Lemma net_zeros bodies : net_wrench ROps bodies (zeros ROps (length bodies)) = sv_zero ROps.
Proof. induction bodies as [|b bs IH]; cbn [length]; [reflexivity|]. change (zeros ROps (S (length bs))) with (sv_zero ROps :: zeros ROps (length bs)).
  rewrite net_cons, IH. destruct b as [[[? ?] ?] w v]. unfold shiftO. cbv [sv_zero]. cbn [b_p]. vunf. teq; ring. Qed.

(** the two spatial forces of one CompliantContactSubsystem contact cancel, whatever the moment at the contact point *)
Theorem cc_pair_net_zero (b1 b2:bodyR) (c:cforceR) :
  sv_add ROps (shiftO b1 (cc_F1 ROps b1 c)) (shiftO b2 (cc_F2 ROps b2 c)) = sv_zero ROps.
Proof. destruct b1 as [[[? ?] ?] w1 v1], b2 as [[[? ?] ?] w2 v2], c as [i1 i2 [[? ?] ?] [[? ?] ?] [[? ?] ?]].
  unfold shiftO, cc_F1, cc_F2. cbv [sv_zero]. cbn [b_p cf_pt cf_m cf_f]. vunf. teq; ring. Qed.
(** the +-F pair of applyForceToBodyPoint at a common Ground point cancels (HuntCrossleyForce, ElasticFoundationForce,
    SmoothSphereHalfSpaceForce, ExponentialSpringForce) *)
Theorem point_pair_net_zero (b1 b2:bodyR) pt F :
  sv_add ROps (shiftO b1 (wrench_at ROps b1 pt F)) (shiftO b2 (wrench_at ROps b2 pt (v3_neg ROps F))) = sv_zero ROps.
Proof. destruct b1 as [[[? ?] ?] w1 v1], b2 as [[[? ?] ?] w2 v2], pt as [[? ?] ?], F as [[? ?] ?].
  unfold shiftO, wrench_at. cbv [sv_zero]. cbn [b_p]. vunf. teq; ring. Qed.
Lemma zero_add_zero : sv_add ROps (sv_zero ROps) (sv_zero ROps) = sv_zero ROps.
Proof. cbv [sv_zero]. vunf. teq; ring. Qed.

(** CompliantContactSubsystem: net wrench zero for EVERY list of contact forces *)
Definition cf_ok (n:nat) (c:cforceR) : Prop := (cf_b1 c < n)%nat /\ (cf_b2 c < n)%nat.
Theorem cc_net_wrench_zero bodies (cs:list cforceR) : Forall (cf_ok (length bodies)) cs ->
  net_wrench ROps bodies (cc_bodyForces ROps bodies cs) = sv_zero ROps.
Proof. intros H. unfold cc_bodyForces.
  assert (G : forall F, length F = length bodies -> net_wrench ROps bodies F = sv_zero ROps ->
              net_wrench ROps bodies (fold_left (cc_apply ROps bodies) cs F) = sv_zero ROps /\ True).
  { induction H as [|c cs [H1 H2] Hcs IH]; intros F HL HN; cbn [fold_left]; [auto|]. apply IH.
    - unfold cc_apply. rewrite !add_at_length. auto.
    - unfold cc_apply. rewrite net_add_at by (rewrite ?add_at_length; auto). rewrite net_add_at by auto.
      rewrite HN, sv_add_assoc, cc_pair_net_zero. apply zero_add_zero. }
  apply G; [unfold zeros; apply repeat_length | apply net_zeros]. Qed.

(** HuntCrossleyForce: net wrench zero for every list of contacts *)
Definition hc_ok (surfs:list surfaceR) (n:nat) (c:contactR) : Prop := (c_b1 ROps surfs c < n)%nat /\ (c_b2 ROps surfs c < n)%nat.
Theorem hc_net_wrench_zero surfs bodies vt (cs:list contactR) : Forall (hc_ok surfs (length bodies)) cs ->
  net_wrench ROps bodies (fst (hc_calcForce ROps surfs bodies vt cs)) = sv_zero ROps.
Proof. intros H. unfold hc_calcForce.
  assert (G : forall F pe, length F = length bodies -> net_wrench ROps bodies F = sv_zero ROps ->
              net_wrench ROps bodies (fst (hc_loop ROps surfs bodies vt cs (F, pe))) = sv_zero ROps).
  { induction H as [|c cs [H1 H2] Hcs IH]; intros F pe HL HN; cbn [hc_loop fst snd]; [auto|].
    destruct (negb (c_point c)); [apply IH; auto|]. destruct (negb (c_active ROps surfs bodies c)); [apply IH; auto|].
    apply IH.
    - rewrite !add_at_length. auto.
    - rewrite net_add_at by (rewrite ?add_at_length; auto). rewrite net_add_at by auto. rewrite HN, sv_add_assoc.
      rewrite (sv_add_comm (shiftO (nth (c_b1 ROps surfs c) bodies (body0 ROps)) _)), point_pair_net_zero. apply zero_add_zero. }
  apply G; [unfold zeros; apply repeat_length | apply net_zeros]. Qed.

(** ElasticFoundationForce: net wrench zero for every list of contacts and faces *)
Definition ef_ok (n:nat) (c:efcontactR) : Prop := (e_b1 c < n)%nat /\ (e_b2 c < n)%nat.
Lemma ef_process_net bodies vt p scale im io faces : (im < length bodies)%nat -> (io < length bodies)%nat -> forall F pe,
  length F = length bodies -> net_wrench ROps bodies F = sv_zero ROps ->
  net_wrench ROps bodies (fst (ef_process ROps bodies vt p scale im io faces (F, pe))) = sv_zero ROps
  /\ length (fst (ef_process ROps bodies vt p scale im io faces (F, pe))) = length bodies.
Proof. intros Hm Ho. induction faces as [|fc rest IH]; intros F pe HL HN; cbn [ef_process fst snd]; [auto|].
  destruct (negb (ef_live ROps fc)); [apply IH; auto|]. apply IH.
  - rewrite !add_at_length. auto.
  - rewrite net_add_at by (rewrite ?add_at_length; auto). rewrite net_add_at by auto. rewrite HN, sv_add_assoc, point_pair_net_zero. apply zero_add_zero. Qed.
Theorem ef_net_wrench_zero bodies vt (cs:list efcontactR) : Forall (ef_ok (length bodies)) cs ->
  net_wrench ROps bodies (fst (ef_calcForce ROps bodies vt cs)) = sv_zero ROps.
Proof. intros H. unfold ef_calcForce.
  assert (G : forall acc, length (fst acc) = length bodies -> net_wrench ROps bodies (fst acc) = sv_zero ROps ->
              net_wrench ROps bodies (fst (fold_left (fun a c => ef_contact ROps bodies vt c a) cs acc)) = sv_zero ROps).
  { induction H as [|c cs [H1 H2] Hcs IH]; intros [F pe] HL HN; cbn [fold_left fst] in *; [auto|].
    assert (S1 : net_wrench ROps bodies (fst (ef_contact ROps bodies vt c (F, pe))) = sv_zero ROps /\ length (fst (ef_contact ROps bodies vt c (F, pe))) = length bodies).
    { unfold ef_contact. destruct (e_par1 c) as [p1|].
      - destruct (ef_process_net bodies vt p1 (ef_scale ROps c) (e_b1 c) (e_b2 c) (e_faces1 c) H1 H2 F pe HL HN) as [A1 A2].
        destruct (ef_process ROps bodies vt p1 (ef_scale ROps c) (e_b1 c) (e_b2 c) (e_faces1 c) (F, pe)) as [F1 pe1]. cbn [fst] in *.
        destruct (e_par2 c) as [p2|]; [apply ef_process_net; auto | split; auto].
      - destruct (e_par2 c) as [p2|]; [apply ef_process_net; auto | split; auto]. }
    destruct S1 as [S1 S2]. apply IH; auto. }
  apply (G (zeros ROps (length bodies), n0 ROps)); cbn [fst]; [unfold zeros; apply repeat_length | apply net_zeros]. Qed.

(** non-vacuity: a contact force with a moment at the contact point between Ground (body 0) and body 1 *)
Example ex_cc_net : net_wrench ROps [mkBody (0,0,0) (0,0,0) (0,0,0); mkBody (1,2,3) (0,0,0) (0,0,0)]
                      (cc_bodyForces ROps [mkBody (0,0,0) (0,0,0) (0,0,0); mkBody (1,2,3) (0,0,0) (0,0,0)] [mkCf 0 1 (1,0,2) (5,6,7) (3,-1,4)]) = sv_zero ROps.
Proof. apply cc_net_wrench_zero. repeat constructor. Qed.
