From Coq Require Import ZArith Reals Lra Lia List Psatz Bool.
Require Import Num Vec Tactics c37_gen C37_Model C37_Proofs.
Import ListNotations.
Local Open Scope R_scope.

(** ** brick / half space: the loop over the face vertices gives every penetrating vertex its own law *)
Definition bk_contrib sig (mH mB:ccmat (T:=R)) vtrans (n pHB w v vH:Vec3 R) : SpatialVec R * R * R :=
  match bk_vertex ROps sig mH mB vtrans n pHB w v vH with
  | None => (sv_zero ROps, 0, 0)
  | Some (pt, f, pe, pw, _, _) => ((v3_cross ROps pt f, f), pe, pw)
  end.
Theorem bk_each_vertex_gets_its_law sig mH mB vtrans n pHB w v vs F pe pw :
  bk_loop ROps sig mH mB vtrans n pHB w v vs (F, pe, pw) =
    (sv_add ROps F (sv_sum (map (fun vH => fst (fst (bk_contrib sig mH mB vtrans n pHB w v vH))) vs)),
     pe + sumR (map (fun vH => snd (fst (bk_contrib sig mH mB vtrans n pHB w v vH))) vs),
     pw + sumR (map (fun vH => snd (bk_contrib sig mH mB vtrans n pHB w v vH)) vs)).
Proof. revert F pe pw. induction vs as [|vH rest IH]; intros F pe pw; cbn [bk_loop map sv_sum sumR].
  - rewrite sv_add_0_r, !Rplus_0_r. reflexivity.
  - unfold bk_contrib at 1 3 5. destruct (bk_vertex ROps sig mH mB vtrans n pHB w v vH) as [[[[[[pt f] e] p] x] xd]|].
    + rewrite IH. cbn [fst snd nadd ROps]. rewrite sv_add_assoc. f_equal; [f_equal|]; ring.
    + rewrite IH. cbn [fst snd]. f_equal; [f_equal|]; try ring.
      destruct F as [[[? ?] ?] [[? ?] ?]]. destruct (sv_sum _) as [[[? ?] ?] [[? ?] ?]]. cbv [sv_zero]. vunf. teq; ring. Qed.
