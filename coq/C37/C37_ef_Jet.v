(** C37 (elastic foundation): the per-face force is minus the gradient of the per-face potential-energy term
    (Coquelicot [is_derive]); separate file because loading Coquelicot weakens nra in the other proofs. *)
From Coq Require Import ZArith Reals Lra List.
From Coquelicot Require Import Coquelicot.
Require Import Num Vec Tactics c37_gen C37_Model C37_Proofs C37_ef_Model C37_ef_Proofs.
Local Open Scope R_scope.

(** the potential-energy term of a face as a function of where its spring is *)
Definition ef_pe_at (p:efparR) (scale:R) (fc:effaceR) (sp:Vec3 R) : R :=
  ef_face_pe ROps p scale (mkFace sp (fa_np fc) (fa_inside fc) (fa_area fc)).
(** static case (both bodies at rest, so no dissipation and no friction): moving the spring (i.e. the mesh) by e changes
    the face's reported potential-energy term at the rate -(force on the mesh body).e, with the nearest point held fixed
    (for the true nearest point the displacement is orthogonal to the other surface, so its motion does not contribute).
    The scaled area (areaScale * springArea) is the same in the force and in the energy: this is the statement that
    fails if the energy line uses the unscaled area in a mesh-on-mesh contact. *)
Theorem ef_force_is_minus_gradient_of_pe p vt scale fc e : 0 < v3_normSqr ROps (ef_disp ROps fc) -> 0 <= ef_k p * (scale * fa_area fc) ->
  is_derive (fun t => ef_pe_at p scale fc (v3_add ROps (fa_sp fc) (v3_scale ROps t e))) 0
            (- v3_dot ROps (ef_face_force ROps p vt scale (body0 ROps) (body0 ROps) fc) e).
Proof. intros H HK. unfold ef_face_force.
  assert (V : v3_sub ROps (pt_vel ROps (body0 ROps) (fa_np fc)) (pt_vel ROps (body0 ROps) (fa_np fc)) = v3_zero ROps)
    by (unfold pt_vel, body0; cbn [b_p b_w b_v]; destruct (fa_np fc) as [[? ?] ?]; vunf; apply f_equal2; [apply f_equal2|]; ring).
  rewrite V. change (nmul ROps scale (fa_area fc)) with (scale * fa_area fc) in *. rewrite ef_static_force by auto.
  unfold ef_pe_at, ef_face_pe, ef_pe_of, ef_disp. cbn [fa_sp fa_np fa_area]. set (ka := ef_k p * (scale * fa_area fc)).
  destruct (fa_np fc) as [[n0 n1] n2], (fa_sp fc) as [[s0 s1] s2], e as [[e0 e1] e2]. cbv [two]. vunf. simpl IZR.
  fold ka. auto_derive; auto. unfold ka. field. Qed.
