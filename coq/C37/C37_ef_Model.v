(** C37 (elastic foundation): executable model of ElasticFoundationForceImpl::calcForce / processContact
    (Simbody/src/ElasticFoundationForce.cpp) as the code is in /repo now, over the per-face data.

    Each face of a triangle mesh that carries elastic-foundation parameters is a spring at the face centroid.  For a face
    reported inside the other surface the code takes the nearest point of the other surface, the displacement
    d = nearest - spring (both in Ground), and applies to the mesh body, at the nearest point,
        f * d/|d|  with  f = k * area * |d| * (1 + c * vn)   (only if f > 0)     plus Hollars friction,
    the opposite to the other body, and adds  k * area * |d|^2 / 2  to the potential energy, where
        area = areaScale * springArea,  areaScale = 1/2 iff BOTH surfaces of the contact carry parameters (mesh on mesh).
    The per-face geometry (which faces are inside, spring and nearest point in Ground, face area) is an input of the
    model: the check takes it from the implementation (TriangleMeshContact face sets, findNearestPoint), the way the
    HuntCrossley scenes take the contact geometry from the detectors.
    Generic in [NumOps]; reuses the rigid-body helpers and the Hollars coefficient of C37_Model.v.  No proofs here. *)
From Coq Require Import ZArith List Bool.
Require Import Num Vec c37_gen C37_Model.
Import ListNotations.

Section M. Context {T:Type} (K:NumOps T).
Local Notation "x + y" := (nadd K x y). Local Notation "x * y" := (nmul K x y). Local Notation "x - y" := (nsub K x y).
Local Notation "x / y" := (ndiv K x y).
Local Notation "0" := (n0 K). Local Notation "1" := (n1 K).
Local Notation "x <=? y" := (nleb K x y). Local Notation "x <? y" := (nltb K x y).

Record efpar := mkEf { ef_k : T; ef_c : T; ef_us : T; ef_ud : T; ef_uv : T }.
(** per-face data: spring position and nearest point of the other surface (Ground), inside flag, unscaled spring area *)
Record efface := mkFace { fa_sp : Vec3 T; fa_np : Vec3 T; fa_inside : bool; fa_area : T }.

Definition ef_disp (fc:efface) : Vec3 T := v3_sub K (fa_np fc) (fa_sp fc).
(** does the loop body get past its two [continue]s for this face? *)
Definition ef_live (fc:efface) : bool := andb (fa_inside fc) (nz K (v3_norm K (ef_disp fc))).
(** the potential-energy term of a live face: k * (scale*springArea) * |d|^2 / 2 *)
Definition ef_pe_of (p:efpar) (area:T) (d:Vec3 T) : T := ef_k p * area * v3_normSqr K d / two K.
Definition ef_face_pe (p:efpar) (scale:T) (fc:efface) : T := ef_pe_of p (scale * fa_area fc) (ef_disp fc).
(** normal force magnitude f = k area |d| (1 + c vn) *)
Definition ef_f (p:efpar) (area dist vn:T) : T := ef_k p * area * dist * (1 + ef_c p * vn).
(** the force applied to the mesh body (the other body gets the opposite); v = v_other - v_mesh at the nearest point *)
Definition ef_force (p:efpar) (vt area:T) (d v:Vec3 T) : Vec3 T :=
  let dist := v3_norm K d in
  let dir := v3_div K d dist in
  let vn := v3_dot K v dir in
  let vtan := v3_sub K v (v3_scale K vn dir) in
  let f := ef_f p area dist vn in
  let force := if 0 <? f then v3_scale K f dir else v3_zero K in
  let vslip := v3_norm K vtan in
  if andb (0 <? f) (nz K vslip) then
    v3_add K force (v3_div K (v3_scale K (f * hollars_mu K (ef_us p) (ef_ud p) (ef_uv p) vt vslip) vtan) vslip)
  else force.
Definition ef_face_force (p:efpar) (vt scale:T) (bm bo:body (T:=T)) (fc:efface) : Vec3 T :=
  ef_force p vt (scale * fa_area fc) (ef_disp fc) (v3_sub K (pt_vel K bo (fa_np fc)) (pt_vel K bm (fa_np fc))).

(** processContact: loop over the inside faces of one mesh; [im],[io] = body indices of the mesh and of the other surface *)
Section Proc.
Variables (bodies:list (body (T:=T))) (vt:T).
Fixpoint ef_process (p:efpar) (scale:T) (im io:nat) (faces:list efface) (acc:list (SpatialVec T) * T) : list (SpatialVec T) * T :=
  match faces with
  | [] => acc
  | fc :: rest =>
    if negb (ef_live fc) then ef_process p scale im io rest acc          (* continue *)
    else
      let bm := nth im bodies (body0 K) in let bo := nth io bodies (body0 K) in
      let F := ef_face_force p vt scale bm bo fc in
      let a1 := add_at K im (wrench_at K bm (fa_np fc) F) (fst acc) in
      let a2 := add_at K io (wrench_at K bo (fa_np fc) (v3_neg K F)) a1 in
      ef_process p scale im io rest (a2, snd acc + ef_face_pe p scale fc)
  end.

(** a TriangleMeshContact as calcForce sees it: bodies of surface 1 and 2, their parameters if they have any, and the
    inside faces of each side *)
Record efcontact := mkEfc { e_b1 : nat; e_b2 : nat; e_par1 : option efpar; e_par2 : option efpar;
                            e_faces1 : list efface; e_faces2 : list efface }.
(** "If there are two meshes, scale each one's contributions by 50%." *)
Definition ef_scale (c:efcontact) : T :=
  match e_par1 c, e_par2 c with Some _, Some _ => half K | _, _ => 1 end.
Definition ef_contact (c:efcontact) (acc:list (SpatialVec T) * T) : list (SpatialVec T) * T :=
  let s := ef_scale c in
  let acc1 := match e_par1 c with Some p => ef_process p s (e_b1 c) (e_b2 c) (e_faces1 c) acc | None => acc end in
  match e_par2 c with Some p => ef_process p s (e_b2 c) (e_b1 c) (e_faces2 c) acc1 | None => acc1 end.
Definition ef_calcForce (cs:list efcontact) : list (SpatialVec T) * T :=
  fold_left (fun acc c => ef_contact c acc) cs (zeros K (length bodies), 0).

(** what one face contributes to body b *)
Definition ef_face_wrench (p:efpar) (scale:T) (im io:nat) (fc:efface) (b:nat) : SpatialVec T :=
  if ef_live fc then
    let bm := nth im bodies (body0 K) in let bo := nth io bodies (body0 K) in
    let F := ef_face_force p vt scale bm bo fc in
    sv_add K (if Nat.eqb b im then wrench_at K bm (fa_np fc) F else sv_zero K)
             (if Nat.eqb b io then wrench_at K bo (fa_np fc) (v3_neg K F) else sv_zero K)
  else sv_zero K.
End Proc.
End M.
