(** C37 proofs for ElasticFoundationForce (model C37_ef_Model.v), over the reals: per-face normal force never attractive,
    friction tangential / opposing slip / bounded, static force = k*area*displacement with the SAME scaled area as the
    potential-energy term, totals = sums over contacts, sides and faces. *)
From Coq Require Import ZArith Reals Lra Lia List Psatz Bool.
Require Import Num Vec Tactics c37_gen C37_Model C37_Proofs C37_ef_Model.
Import ListNotations.
Local Open Scope R_scope.

Notation efparR := (efpar (T:=R)). Notation effaceR := (efface (T:=R)). Notation efcontactR := (efcontact (T:=R)).
Definition ef_dir (d:Vec3 R) : Vec3 R := v3_div ROps d (v3_norm ROps d).
Lemma ef_dir_unit d : 0 < v3_normSqr ROps d -> v3_dot ROps (ef_dir d) (ef_dir d) = 1.
Proof. intros H. unfold ef_dir, v3_div. change (v3_dot ROps ?a ?a) with (v3_normSqr ROps a). rewrite normSqr_scale, <- norm_sq.
  assert (0 < v3_norm ROps d) by (unfold v3_norm; cbn [nsqrt ROps]; apply sqrt_lt_R0; auto). cbn [ndiv n1 ROps]. field. lra. Qed.
Lemma ef_dir_scale d : 0 < v3_normSqr ROps d -> v3_scale ROps (v3_norm ROps d) (ef_dir d) = d.
Proof. intros H. assert (0 < v3_norm ROps d) by (unfold v3_norm; cbn [nsqrt ROps]; apply sqrt_lt_R0; auto).
  unfold ef_dir, v3_div. set (s := v3_norm ROps d) in *. destruct d as [[a b] c]. vunf. teq; field; lra. Qed.

Definition ef_fric_ok (p:efparR) : Prop := 0 <= ef_ud p <= ef_us p /\ 0 <= ef_uv p.
Definition ef_lam (p:efparR) (vt f:R) (vtan:Vec3 R) : R :=
  let vslip := v3_norm ROps vtan in
  if nz ROps vslip then f * hollars_mu ROps (ef_us p) (ef_ud p) (ef_uv p) vt vslip / vslip else 0.
(** shape of the per-face force: max(f,0) along the displacement plus a multiple of the slip velocity *)
Lemma ef_force_decomp p vt area d v :
  let dir := ef_dir d in let f := ef_f ROps p area (v3_norm ROps d) (v3_dot ROps v dir) in
  ef_force ROps p vt area d v =
    if Rlt_dec 0 f then v3_add ROps (v3_scale ROps f dir) (v3_scale ROps (ef_lam p vt f (vtan_of v dir)) (vtan_of v dir))
    else v3_zero ROps.
Proof. cbv zeta. unfold ef_force. fold (ef_dir d). fold (vtan_of v (ef_dir d)). cbn [nltb n0 ROps]. unfold Rltb.
  set (f := ef_f ROps p area (v3_norm ROps d) (v3_dot ROps v (ef_dir d))). destruct (Rlt_dec 0 f); cbn [andb]; auto.
  unfold ef_lam. destruct (nz ROps (v3_norm ROps (vtan_of v (ef_dir d)))) eqn:E.
  - apply nz_true in E. f_equal. set (m := hollars_mu _ _ _ _ _ _). set (s := v3_norm ROps _) in *. unfold v3_div.
    destruct (vtan_of v (ef_dir d)) as [[a b] c]. cbn [nmul ROps]. vunf. teq; field; auto.
  - destruct (v3_scale ROps f (ef_dir d)) as [[a b] c], (vtan_of v (ef_dir d)) as [[x y] z]. vunf. teq; ring. Qed.
(** never attractive: the force on the mesh body along the displacement (from the spring towards the other surface's
    nearest point, i.e. out of the penetrated body) is max(f,0) *)
Theorem ef_normal_never_attractive p vt area d v : 0 < v3_normSqr ROps d ->
  v3_dot ROps (ef_force ROps p vt area d v) (ef_dir d) = Rmax 0 (ef_f ROps p area (v3_norm ROps d) (v3_dot ROps v (ef_dir d)))
  /\ 0 <= v3_dot ROps (ef_force ROps p vt area d v) (ef_dir d).
Proof. intros H. pose proof (ef_dir_unit d H) as U. rewrite ef_force_decomp. cbv zeta. set (f := ef_f _ _ _ _ _).
  destruct (Rlt_dec 0 f).
  - rewrite dot_add_l, !dot_scale_l, vtan_orth, U by auto. rewrite Rmax_right by lra. split; lra.
  - rewrite dot_zero_l, Rmax_left by lra. split; lra. Qed.
(** magnitude: the documented f = k * area * |d| * (1 + c * vn), area = areaScale * face area *)
Theorem ef_magnitude_is_documented_formula p area dist vn : ef_f ROps p area dist vn = ef_k p * area * dist * (1 + ef_c p * vn).
Proof. reflexivity. Qed.
Lemma ef_lam_bounds p vt f vtan : ef_fric_ok p -> 0 < vt -> 0 <= f ->
  0 <= ef_lam p vt f vtan /\ ef_lam p vt f vtan * v3_norm ROps vtan <= f * (ef_us p + ef_uv p * v3_norm ROps vtan).
Proof. intros [A B] Hvt Hf. unfold ef_lam. pose proof (norm_nonneg vtan) as Hn. set (s := v3_norm ROps vtan) in *.
  destruct (nz ROps s) eqn:E.
  - apply nz_true in E. assert (S : 0 < s) by lra. pose proof (hollars_bounds _ _ _ vt s A B Hvt Hn) as [M1 M2].
    set (m := hollars_mu _ _ _ _ _ _) in *. split.
    + apply Rmult_le_pos; [apply Rmult_le_pos; auto|]. left; apply Rinv_0_lt_compat; auto.
    + replace (f * m / s * s) with (f * m) by (field; lra). apply Rmult_le_compat_l; auto.
  - apply nz_false in E. rewrite E. split; [lra|]. rewrite Rmult_0_l, Rmult_0_r, Rplus_0_r. apply Rmult_le_pos; lra. Qed.
(** friction (the part of the force beyond f*dir): tangential, a non-negative multiple of the slip velocity of the other
    body relative to the mesh (so it opposes the mesh's slip relative to the other body), bounded by f (mu_s + mu_v vslip) *)
Theorem ef_friction_props p vt f v dir : ef_fric_ok p -> 0 < vt -> 0 <= f -> v3_dot ROps dir dir = 1 ->
  let fr := v3_scale ROps (ef_lam p vt f (vtan_of v dir)) (vtan_of v dir) in
  let limit := f * (ef_us p + ef_uv p * v3_norm ROps (vtan_of v dir)) in
  v3_dot ROps fr dir = 0 /\ 0 <= v3_dot ROps fr (vtan_of v dir) /\ v3_normSqr ROps fr <= limit * limit.
Proof. intros Hp Hvt Hf Hd. cbv zeta. destruct (ef_lam_bounds p vt f (vtan_of v dir) Hp Hvt Hf) as [L U].
  set (l := ef_lam _ _ _ _) in *. set (w := vtan_of v dir) in *. pose proof (norm_nonneg w) as N. pose proof (norm_sq w) as NS. repeat split.
  - unfold w. rewrite dot_scale_l, vtan_orth by auto. ring.
  - rewrite dot_scale_l. change (v3_dot ROps w w) with (v3_normSqr ROps w). apply Rmult_le_pos; auto. rewrite <- NS. nra.
  - rewrite normSqr_scale, <- NS. set (s := v3_norm ROps w) in *. set (lim := f * _) in *.
    assert (0 <= l * s) by (apply Rmult_le_pos; auto). replace (l * l * (s * s)) with ((l * s) * (l * s)) by ring. nra. Qed.

(** static case (no relative velocity): the force on the mesh body is k * area * d -- the same [area] that multiplies the
    potential-energy term k * area * |d|^2 / 2 *)
Theorem ef_static_force p vt area d : 0 < v3_normSqr ROps d -> 0 <= ef_k p * area ->
  ef_force ROps p vt area d (v3_zero ROps) = v3_scale ROps (ef_k p * area) d.
Proof. intros H HK. rewrite ef_force_decomp. cbv zeta.
  assert (V : v3_dot ROps (v3_zero ROps) (ef_dir d) = 0) by apply dot_zero_l. rewrite V.
  assert (P : 0 < v3_norm ROps d) by (unfold v3_norm; cbn [nsqrt ROps]; apply sqrt_lt_R0; auto).
  assert (F : ef_f ROps p area (v3_norm ROps d) 0 = ef_k p * area * v3_norm ROps d) by (unfold ef_f; cbn [nmul nadd n1 ROps]; ring).
  rewrite F. assert (W : vtan_of (v3_zero ROps) (ef_dir d) = v3_zero ROps) by (unfold vtan_of; destruct (ef_dir d) as [[a b] c]; vunf; teq; ring).
  rewrite W. pose proof (ef_dir_scale d H) as DS. set (s := v3_norm ROps d) in *. set (u := ef_dir d) in *.
  destruct (Rlt_dec 0 (ef_k p * area * s)).
  - clearbody s u. rewrite <- DS. destruct u as [[a b] c]. vunf. teq; ring.
  - assert (Z : ef_k p * area = 0) by nra. rewrite Z. destruct d as [[a b] c]. vunf. teq; ring. Qed.

(** ** loops: every live face contributes its own law; contacts and their two sides add up *)
Definition ef_face_pe_live (p:efparR) (scale:R) (fc:effaceR) : R := if ef_live ROps fc then ef_face_pe ROps p scale fc else 0.
Lemma ef_process_inv bodies vt p scale im io faces : forall F pe b, (b < length F)%nat ->
  nth b (fst (ef_process ROps bodies vt p scale im io faces (F, pe))) (sv_zero ROps)
    = sv_add ROps (nth b F (sv_zero ROps)) (sv_sum (map (fun fc => ef_face_wrench ROps bodies vt p scale im io fc b) faces))
  /\ length (fst (ef_process ROps bodies vt p scale im io faces (F, pe))) = length F
  /\ snd (ef_process ROps bodies vt p scale im io faces (F, pe)) = pe + sumR (map (ef_face_pe_live p scale) faces).
Proof. induction faces as [|fc rest IH]; intros F pe b Hb; cbn [ef_process map sv_sum sumR fst snd].
  - rewrite sv_add_0_r. repeat split; auto. ring.
  - unfold ef_face_wrench at 1. unfold ef_face_pe_live at 1. destruct (ef_live ROps fc) eqn:L; cbn [negb fst snd].
    + match goal with |- context [ef_process _ _ _ _ _ _ _ rest (?F2, ?pe2)] => destruct (IH F2 pe2 b) as (I1 & I2 & I3) end.
      { rewrite !add_at_length; auto. }
      rewrite I1, I2, I3, !add_at_length. repeat split; auto.
      * rewrite !add_at_nth by (rewrite ?add_at_length; auto). rewrite !sv_add_assoc. reflexivity.
      * cbn [nadd ROps]. ring.
    + destruct (IH F pe b Hb) as (I1 & I2 & I3). rewrite I1, I2, I3. repeat split; auto; [|ring].
      f_equal. destruct (sv_sum _) as [[[? ?] ?] [[? ?] ?]]. cbv [sv_zero]. vunf. teq; ring. Qed.

Definition ef_side_wrench bodies vt (par:option efparR) scale im io faces b : SpatialVec R :=
  match par with Some p => sv_sum (map (fun fc => ef_face_wrench ROps bodies vt p scale im io fc b) faces) | None => sv_zero ROps end.
Definition ef_side_pe (par:option efparR) scale faces : R :=
  match par with Some p => sumR (map (ef_face_pe_live p scale) faces) | None => 0 end.
Definition ef_contact_wrench bodies vt (c:efcontactR) b : SpatialVec R :=
  sv_add ROps (ef_side_wrench bodies vt (e_par1 c) (ef_scale ROps c) (e_b1 c) (e_b2 c) (e_faces1 c) b)
              (ef_side_wrench bodies vt (e_par2 c) (ef_scale ROps c) (e_b2 c) (e_b1 c) (e_faces2 c) b).
Definition ef_contact_pe (c:efcontactR) : R :=
  ef_side_pe (e_par1 c) (ef_scale ROps c) (e_faces1 c) + ef_side_pe (e_par2 c) (ef_scale ROps c) (e_faces2 c).
Lemma ef_contact_inv bodies vt c F pe b : (b < length F)%nat ->
  nth b (fst (ef_contact ROps bodies vt c (F, pe))) (sv_zero ROps) = sv_add ROps (nth b F (sv_zero ROps)) (ef_contact_wrench bodies vt c b)
  /\ length (fst (ef_contact ROps bodies vt c (F, pe))) = length F
  /\ snd (ef_contact ROps bodies vt c (F, pe)) = pe + ef_contact_pe c.
Proof. intros Hb. unfold ef_contact, ef_contact_wrench, ef_contact_pe, ef_side_wrench, ef_side_pe. set (s := ef_scale ROps c).
  destruct (e_par1 c) as [p1|], (e_par2 c) as [p2|].
  - destruct (ef_process_inv bodies vt p1 s (e_b1 c) (e_b2 c) (e_faces1 c) F pe b Hb) as (A1 & A2 & A3).
    destruct (ef_process ROps bodies vt p1 s (e_b1 c) (e_b2 c) (e_faces1 c) (F, pe)) as [F1 pe1] eqn:E1. cbn [fst snd] in *.
    assert (L1 : (b < length F1)%nat) by lia. destruct (ef_process_inv bodies vt p2 s (e_b2 c) (e_b1 c) (e_faces2 c) F1 pe1 b L1) as (B1 & B2 & B3).
    rewrite B1, B2, B3, A1, A2, A3. repeat split; auto; [apply sv_add_assoc | ring].
  - destruct (ef_process_inv bodies vt p1 s (e_b1 c) (e_b2 c) (e_faces1 c) F pe b Hb) as (A1 & A2 & A3).
    rewrite A1, A2, A3. repeat split; auto; [rewrite sv_add_0_r; auto | ring].
  - destruct (ef_process_inv bodies vt p2 s (e_b2 c) (e_b1 c) (e_faces2 c) F pe b Hb) as (A1 & A2 & A3).
    rewrite A1, A2, A3. repeat split; auto; [|ring]. f_equal. destruct (sv_sum _) as [[[? ?] ?] [[? ?] ?]]. cbv [sv_zero]. vunf. teq; ring.
  - cbn [fst snd]. repeat split; auto; [|ring]. destruct (nth b F (sv_zero ROps)) as [[[? ?] ?] [[? ?] ?]]. cbv [sv_zero]. vunf. teq; ring. Qed.
(** total = sum over the contacts of (side 1 faces + side 2 faces), for every list of contacts; PE likewise *)
Theorem ef_total_is_sum_over_faces bodies vt (cs:list efcontactR) b : (b < length bodies)%nat ->
  nth b (fst (ef_calcForce ROps bodies vt cs)) (sv_zero ROps) = sv_sum (map (fun c => ef_contact_wrench bodies vt c b) cs)
  /\ snd (ef_calcForce ROps bodies vt cs) = sumR (map ef_contact_pe cs).
Proof. intros Hb. unfold ef_calcForce.
  assert (G : forall cs F pe, (b < length F)%nat ->
     nth b (fst (fold_left (fun acc c => ef_contact ROps bodies vt c acc) cs (F, pe))) (sv_zero ROps)
       = sv_add ROps (nth b F (sv_zero ROps)) (sv_sum (map (fun c => ef_contact_wrench bodies vt c b) cs))
     /\ snd (fold_left (fun acc c => ef_contact ROps bodies vt c acc) cs (F, pe)) = pe + sumR (map ef_contact_pe cs)).
  { clear cs. induction cs as [|c rest IH]; intros F pe HF; cbn [fold_left map sv_sum sumR fst snd].
    - rewrite sv_add_0_r. split; auto. ring.
    - destruct (ef_contact_inv bodies vt c F pe b HF) as (A1 & A2 & A3).
      destruct (ef_contact ROps bodies vt c (F, pe)) as [F1 pe1] eqn:E. cbn [fst snd] in *.
      assert (L1 : (b < length F1)%nat) by lia. destruct (IH F1 pe1 L1) as (B1 & B2). rewrite B1, B2, A1, A3. split; [apply sv_add_assoc | ring]. }
  destruct (G cs (zeros ROps (length bodies)) (n0 ROps)) as (A & B). { unfold zeros. rewrite repeat_length. auto. }
  rewrite A, B, nth_zeros. split; [|cbn [n0 ROps]; ring].
  destruct (sv_sum _) as [[[? ?] ?] [[? ?] ?]]. cbv [sv_zero]. vunf. teq; ring. Qed.
(** the areaScale rule: 1/2 exactly when both surfaces carry parameters *)
Theorem ef_scale_rule (c:efcontactR) :
  ef_scale ROps c = match e_par1 c, e_par2 c with Some _, Some _ => 1 / 2 | _, _ => 1 end.
Proof. unfold ef_scale. destruct (e_par1 c), (e_par2 c); auto. Qed.

(** non-vacuity *)
Example ex_ef_static : ef_force ROps (mkEf 1000 0 0 0 0) (1/100) (1/2) (0, 3, 4) (0, 0, 0) = (0, 1500, 2000).
Proof. change (0, 0, 0) with (v3_zero ROps). rewrite (ef_static_force (mkEf 1000 0 0 0 0) (1/100) (1/2) (0, 3, 4)) by (cbn [ef_k]; vunf; lra). cbn [ef_k]. vunf. teq; field. Qed.
