(** C38: model of "a parameter change takes effect at the next realization".
    A force element's contribution is a function [law] of the parameter values held in the State ([P]) and of the
    state data it reads ([Q]: coordinates, speeds, body poses); the subsystem (or the element itself: Gravity,
    LinearBushing) may keep the last computed value in a cache entry that stays valid until something it depends on
    is written.  [inv_par] says whether writing the parameter variable invalidates that cache entry
    (true iff the variable's invalidation stage is not later than the cache entry's stage; for Gravity: iff every
    setter invalidates the force cache by hand).  Generic, executable; extracted and run against the real elements
    on random histories by checks/C38.py.  No proofs here. *)
From Coq Require Import List Bool.
Import ListNotations.

Section H.
Variables (P Q F:Type) (law : P -> Q -> F) (off : F).
Variable inv_par : bool.
Record hst := mkH { par : P; pos : Q; enabled : bool; cache : option F }.
Inductive hop := SetPar (p:P) | SetPos (q:Q) | SetEnabled (b:bool) | Report.
(** what a fresh state holding the same values reports *)
Definition value (s:hst) : F := if enabled s then law (par s) (pos s) else off.
Definition hstep (s:hst) (o:hop) : hst * option F :=
  match o with
  | SetPar p => (mkH p (pos s) (enabled s) (if inv_par then None else cache s), None)
  | SetPos q => (mkH (par s) q (enabled s) None, None)
  | SetEnabled b => (mkH (par s) (pos s) b None, None)
  | Report => let v := match cache s with Some v => v | None => value s end in
              (mkH (par s) (pos s) (enabled s) (Some v), Some v)
  end.
Fixpoint hrun (s:hst) (ops:list hop) : list F :=
  match ops with
  | [] => []
  | o :: r => let '(s', out) := hstep s o in
              match out with Some v => v :: hrun s' r | None => hrun s' r end
  end.
(** specification: every report is the value for the values current at that moment *)
Definition sstep (s:hst) (o:hop) : hst :=
  match o with
  | SetPar p => mkH p (pos s) (enabled s) None
  | SetPos q => mkH (par s) q (enabled s) None
  | SetEnabled b => mkH (par s) (pos s) b None
  | Report => s
  end.
Fixpoint hspec (s:hst) (ops:list hop) : list F :=
  match ops with
  | [] => []
  | Report :: r => value s :: hspec s r
  | o :: r => hspec (sstep s o) r
  end.
End H.
Arguments mkH {P Q F}. Arguments par {P Q F}. Arguments pos {P Q F}. Arguments enabled {P Q F}. Arguments cache {P Q F}.
Arguments SetPar {P Q}. Arguments SetPos {P Q}. Arguments SetEnabled {P Q}. Arguments Report {P Q}.
Arguments value {P Q F}. Arguments hstep {P Q F}. Arguments hrun {P Q F}. Arguments sstep {P Q F}. Arguments hspec {P Q F}.
