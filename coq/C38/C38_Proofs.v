(** C38 proofs: (A) each element's force and potential energy in C13_Model.v equal the formula its documentation
    states; (B) a parameter change takes effect at the next realization (cache model of C38_Model.v). Over the reals. *)
From Coq Require Import ZArith Reals Lra Lia List Psatz Bool.
Require Import Num Vec Tactics C13_Model C38_Model.
Import ListNotations.
Local Open Scope R_scope.

Ltac munf := cbv [sv_zero xf_id two shift_to st_G pt_G tp_r tp_pair st_vel v3_unit spring_f spring_F spring_PE
  damper_f damper_F tpconst_f tpconst_F constforce_F consttorque_F v3_mul v3_sum]; vunf.
Ltac dv := repeat match goal with
  | v : Vec3 R |- _ => destruct v as [[? ?] ?]
  | v : Mat33 R |- _ => destruct v as [[? ?] ?]
  | v : SpatialVec R |- _ => destruct v as [? ?]
  | v : Transform R |- _ => destruct v as [? ?]
  | v : (R * R)%type |- _ => destruct v as [? ?]
  | v : (_ * _ * _)%type |- _ => destruct v as [[? ?] ?]
  end.

(** ** (A) documented laws.  [wrench_at s f]: force f (in Ground) applied at the point s (vector from the body
    origin, in Ground), as a spatial force about the body origin. *)
Definition wrench_at (s f:Vec3 R) : SpatialVec R := (v3_cross ROps s f, f).
(** the unit vector d from point 1 to point 2 and the separation x of the documentation *)
Definition sep (X1:Transform R) st1 (X2:Transform R) st2 : R := v3_norm ROps (tp_r ROps X1 st1 X2 st2).
Definition dirn (X1:Transform R) st1 (X2:Transform R) st2 : Vec3 R := v3_unit ROps (tp_r ROps X1 st1 X2 st2).

Lemma dirn_is_unit (X1 X2:Transform R) st1 st2 : 0 < v3_normSqr ROps (tp_r ROps X1 st1 X2 st2) ->
  v3_dot ROps (dirn X1 st1 X2 st2) (dirn X1 st1 X2 st2) = 1.
Proof. unfold dirn. destruct (tp_r ROps X1 st1 X2 st2) as [[a b] c]. intros H. unfold v3_unit, v3_norm.
  set (S := v3_normSqr ROps (a,b,c)) in *. assert (Hs : sqrt S <> 0) by (apply Rgt_not_eq, sqrt_lt_R0; auto).
  assert (E : sqrt S * sqrt S = S) by (apply sqrt_sqrt; lra).
  cbn [nsqrt ROps]. vunf. unfold S in E |- *. revert E Hs. vunf. intros E Hs. field_simplify_eq; auto. cbv [Rpow_def.pow]. lra. Qed.
Lemma dirn_times_sep (X1 X2:Transform R) st1 st2 : sep X1 st1 X2 st2 <> 0 ->
  v3_scale ROps (sep X1 st1 X2 st2) (dirn X1 st1 X2 st2) = tp_r ROps X1 st1 X2 st2.
Proof. unfold sep, dirn. destruct (tp_r ROps X1 st1 X2 st2) as [[a b] c]. unfold v3_unit. set (n := v3_norm ROps (a,b,c)). intros H.
  vunf. teq; field; auto. Qed.

(** TwoPointLinearSpring: "f = k(x-x0); we apply f*d to point1 and -f*d to point2; pe = 1/2 k (x-x0)^2" *)
Lemma spring_is_documented k x0 (X1 X2:Transform R) st1 st2 : sep X1 st1 X2 st2 <> 0 ->
  let f := k * (sep X1 st1 X2 st2 - x0) in
  spring_F ROps k x0 X1 st1 X2 st2 =
    (wrench_at (st_G ROps X1 st1) (v3_scale ROps f (dirn X1 st1 X2 st2)),
     wrench_at (st_G ROps X2 st2) (v3_scale ROps (- f) (dirn X1 st1 X2 st2)))
  /\ spring_PE ROps k x0 X1 st1 X2 st2 = / 2 * k * ((sep X1 st1 X2 st2 - x0) * (sep X1 st1 X2 st2 - x0)).
Proof. intros Hd f. subst f. split.
  - unfold spring_F, spring_f, tp_pair, wrench_at, sep, dirn in *. generalize (st_G ROps X1 st1) (st_G ROps X2 st2). intros s1 s2.
    destruct (tp_r ROps X1 st1 X2 st2) as [[a b] c]. unfold v3_unit. set (n := v3_norm ROps (a,b,c)) in *. dv.
    vunf. teq; field; auto.
  - unfold spring_PE, sep, two. set (n := v3_norm ROps _). vunf. field. Qed.
(** TwoPointLinearDamper: relative scalar velocity v = vrel . d; force c*v*d on point 1 (opposing separation), -c*v*d on point 2; no PE *)
Lemma damper_is_documented c (X1 X2:Transform R) V1 V2 st1 st2 :
  let v := v3_dot ROps (v3_sub ROps (st_vel ROps X2 V2 st2) (st_vel ROps X1 V1 st1)) (dirn X1 st1 X2 st2) in
  damper_F ROps c X1 V1 st1 X2 V2 st2 =
    (wrench_at (st_G ROps X1 st1) (v3_scale ROps (c * v) (dirn X1 st1 X2 st2)),
     wrench_at (st_G ROps X2 st2) (v3_scale ROps (- (c * v)) (dirn X1 st1 X2 st2))).
Proof. cbv zeta. unfold damper_F, damper_f, tp_pair, wrench_at, dirn.
  generalize (st_G ROps X1 st1) (st_G ROps X2 st2) (st_vel ROps X2 V2 st2) (st_vel ROps X1 V1 st1) (v3_unit ROps (tp_r ROps X1 st1 X2 st2)).
  intros s1 s2 v2 v1 d. dv. vunf. teq; ring. Qed.
(** TwoPointConstantForce: "a positive force acts to separate the points": +f*d on point 2, -f*d on point 1; no PE *)
Lemma tpconst_is_documented f (X1 X2:Transform R) st1 st2 :
  tpconst_F ROps f X1 st1 X2 st2 =
    (wrench_at (st_G ROps X1 st1) (v3_scale ROps (- f) (dirn X1 st1 X2 st2)),
     wrench_at (st_G ROps X2 st2) (v3_scale ROps f (dirn X1 st1 X2 st2))).
Proof. unfold tpconst_F, tpconst_f, wrench_at, dirn. generalize (st_G ROps X1 st1) (st_G ROps X2 st2). intros s1 s2.
  destruct (tp_r ROps X1 st1 X2 st2) as [[a b] c]. unfold v3_unit. set (n := v3_norm ROps (a,b,c)). dv. vunf. teq; ring. Qed.
(** ConstantForce: a Ground-fixed force vector at a body station; ConstantTorque: a pure torque *)
Lemma constforce_is_documented (X:Transform R) st f : constforce_F ROps X st f = wrench_at (st_G ROps X st) f.
Proof. reflexivity. Qed.
Lemma consttorque_is_documented t : consttorque_F ROps t = (t, (0,0,0)).
Proof. reflexivity. Qed.

(** Gravity: "m*g along the down direction d at each non-excluded body's mass centre";
    "potential energy for a body B is mb*g*hb, hb = pb.(-d) - hz" *)
Definition grav_doc_PE (d:Vec3 R) (g hz:R) (b:gbody (T:=R)) : R :=
  let '(m, com, X, ex) := b in
  if ex then 0 else m * g * (v3_dot ROps (pt_G ROps X com) (v3_neg ROps d) - hz).
Fixpoint sumR (l:list R) : R := match l with [] => 0 | x :: r => x + sumR r end.
Lemma gravity_body_force_is_documented d g (b:gbody (T:=R)) :
  let '(m, com, X, ex) := b in
  grav_body_F ROps (gravity_vec ROps g d) b = if ex then sv_zero ROps else wrench_at (st_G ROps X com) (v3_scale ROps (m * g) d).
Proof. destruct b as [[[m com] X] ex]. unfold grav_body_F, gravity_vec, wrench_at. destruct ex; auto.
  generalize (st_G ROps X com). intros s. dv. vunf. teq; ring. Qed.
Lemma grav_PE_acc gvec zoff bs : forall pe,
  fold_left (grav_body_PE ROps gvec zoff) bs pe = pe + fold_left (grav_body_PE ROps gvec zoff) bs 0.
Proof. induction bs as [|b bs IH]; intros pe; cbn [fold_left]. ring.
  rewrite IH. rewrite (IH (grav_body_PE ROps gvec zoff 0 b)).
  destruct b as [[[m com] X] ex]. unfold grav_body_PE. destruct ex; vunf; ring. Qed.
Lemma gravity_PE_is_documented nu d g hz (bs:list (gbody (T:=R))) :
  snd (ev_gravity ROps nu d g hz bs) = sumR (map (grav_doc_PE d g hz) bs).
Proof. unfold ev_gravity. cbn [snd]. unfold grav_PE. change (n0 ROps) with 0. induction bs as [|b bs IH]; cbn [fold_left map sumR]. reflexivity.
  rewrite grav_PE_acc. rewrite IH. f_equal.
  destruct b as [[[m com] X] ex]. unfold grav_body_PE, grav_doc_PE, gravity_vec. destruct ex. vunf; ring.
  generalize (pt_G ROps X com). intros p. dv. vunf. ring. Qed.
(** excluded bodies and Ground get no force *)
Lemma gravity_excluded_body_gets_nothing gvec m com X : grav_body_F ROps gvec (m, com, X, true) = sv_zero ROps.
Proof. reflexivity. Qed.
Lemma gravity_ground_gets_nothing gvec bs : hd (sv_zero ROps) (grav_F ROps gvec bs) = sv_zero ROps.
Proof. reflexivity. Qed.

(** UniformGravity documents zeroHeight as "a height at which the gravitational potential energy is zero".
    (Until fix 6270af84 the code subtracted m*zeroHeight instead of m*|g|*zeroHeight and this was refuted; the
    witness g = (0,-2,0), zeroHeight = 3, unit mass at height 3 is kept below and in the check as a regression case.)
    What it reports: PE = - sum m (g . p_com + |g| zeroHeight) *)
Lemma uniformgravity_PE_formula nu g z (bs:list (gbody (T:=R))) :
  snd (ev_uniformgravity ROps nu g z bs) =
  sumR (map (fun b:gbody (T:=R) => let '(m, com, X, ex) := b in
                                   if ex then 0 else - (m * (v3_dot ROps g (pt_G ROps X com) + v3_norm ROps g * z))) bs).
Proof. unfold ev_uniformgravity. cbn [snd]. unfold grav_PE. change (n0 ROps) with 0.
  change (v3_norm ROps g * z) with (nmul ROps (v3_norm ROps g) z). generalize (nmul ROps (v3_norm ROps g) z). intros zo.
  induction bs as [|b bs IH]; cbn [fold_left map sumR]. reflexivity.
  rewrite grav_PE_acc. rewrite IH. f_equal. destruct b as [[[m com] X] ex]. unfold grav_body_PE. destruct ex; vunf; ring. Qed.
(** the documented form: per body m |g| (h - zeroHeight), h = height of the mass centre along the up direction -g/|g| *)
Lemma uniformgravity_PE_is_documented nu g z (bs:list (gbody (T:=R))) : v3_norm ROps g <> 0 ->
  snd (ev_uniformgravity ROps nu g z bs) =
  sumR (map (fun b:gbody (T:=R) => let '(m, com, X, ex) := b in
        if ex then 0 else m * v3_norm ROps g * (v3_dot ROps (pt_G ROps X com) (v3_neg ROps g) / v3_norm ROps g - z)) bs).
Proof. intros Hg. rewrite uniformgravity_PE_formula. f_equal. apply map_ext. intros [[[m com] X] ex]. destruct ex; auto.
  generalize (pt_G ROps X com). intros p. set (n := v3_norm ROps g) in *. dv. vunf. field. auto. Qed.
(** a body whose mass centre is at height zeroHeight (measured along -g/|g| from the Ground origin) has zero PE *)
Lemma uniformgravity_zero_height nu g z m com (X:Transform R) :
  v3_dot ROps g (pt_G ROps X com) = - (v3_norm ROps g * z) ->
  snd (ev_uniformgravity ROps nu g z [(m, com, X, false)]) = 0.
Proof. intros H. rewrite uniformgravity_PE_formula. cbn [map sumR]. rewrite H. ring. Qed.
Example uniformgravity_zero_height_witness :
  snd (ev_uniformgravity ROps 0 (0,-2,0) 3 [(1, (0,0,0), (m33_id ROps, (0,3,0)), false)]) = 0.
Proof. apply uniformgravity_zero_height. assert (E : v3_norm ROps (0,-2,0) = 2).
  { unfold v3_norm. vunf. replace (0*0 + -2 * -2 + 0*0) with (2*2) by ring. apply sqrt_square. lra. }
  rewrite E. munf. ring. Qed.

(** mobility elements *)
Lemma mspring_is_documented k q0 q : mspring_f ROps k q0 q = - k * (q - q0) /\ mspring_PE ROps k q0 q = / 2 * k * ((q - q0) * (q - q0)).
Proof. unfold mspring_f, mspring_PE, two. vunf. split. ring. field. Qed.
Lemma mdamper_is_documented c u : mdamper_f ROps c u = - c * u.
Proof. unfold mdamper_f. vunf. ring. Qed.
Lemma globaldamper_is_documented c us : globaldamper_f ROps c us = map (fun u => - c * u) us.
Proof. unfold globaldamper_f. apply map_ext. intros u. vunf. ring. Qed.

(** MobilityLinearStop: the documented piecewise law
      f = 0 for qLow <= q <= qHigh;  min(0, -k x (1 + d qdot)), x = q - qHigh, for q > qHigh;
      max(0, -k x (1 - d qdot)), x = q - qLow, for q < qLow.
    The code's shortcuts (k == 0: nothing; d == 0: qdot not read) do not change it. *)
Definition mstop_doc (k d qlo qhi q qdot:R) : R :=
  if Rlt_dec qhi q then Rmin 0 (- (k * (q - qhi) * (1 + d * qdot)))
  else if Rlt_dec q qlo then Rmax 0 (- (k * (q - qlo) * (1 - d * qdot)))
  else 0.
Lemma neqb_refl x : neqb ROps x x = true.
Proof. unfold neqb. cbn [nleb ROps]. rewrite (proj2 (Rleb_true x x)) by lra. reflexivity. Qed.
Lemma neqb_neq x y : x <> y -> neqb ROps x y = false.
Proof. intros H. unfold neqb. cbn [nleb ROps]. destruct (Rle_dec x y) as [A|A].
  - rewrite (proj2 (Rleb_true x y) A). rewrite (proj2 (Rleb_false y x)) by lra. reflexivity.
  - rewrite (proj2 (Rleb_false x y)) by lra. reflexivity. Qed.
Lemma nmin_is_Rmin a b : nmin ROps a b = Rmin a b.
Proof. unfold nmin, Rmin. cbn [nltb ROps]. unfold Rltb. destruct (Rlt_dec b a); destruct (Rle_dec a b); lra. Qed.
Lemma nmax_is_Rmax a b : nmax ROps a b = Rmax a b.
Proof. unfold nmax, Rmax. cbn [nltb ROps]. unfold Rltb. destruct (Rlt_dec a b); destruct (Rle_dec a b); lra. Qed.
Lemma mstop_is_documented k d qlo qhi q qdot : mstop_f ROps k d qlo qhi q qdot = mstop_doc k d qlo qhi q qdot.
Proof. unfold mstop_f, mstop_doc. cbn [n0 n1 ROps].
  set (qd := if neqb ROps d 0 then 0 else qdot).
  assert (Qd : d * qd = d * qdot).
  { subst qd. destruct (Req_dec d 0) as [->|D0]. rewrite neqb_refl; ring. rewrite neqb_neq by auto. reflexivity. }
  destruct (Req_dec k 0) as [->|K0].
  - rewrite neqb_refl. destruct (Rlt_dec qhi q); [|destruct (Rlt_dec q qlo)]; auto.
    + replace (- (0 * (q - qhi) * (1 + d * qdot))) with 0 by ring. unfold Rmin. destruct (Rle_dec 0 0); lra.
    + replace (- (0 * (q - qlo) * (1 - d * qdot))) with 0 by ring. unfold Rmax. destruct (Rle_dec 0 0); lra.
  - rewrite neqb_neq by auto. cbn [nltb ROps]. unfold Rltb.
    destruct (Rlt_dec qhi q); [|destruct (Rlt_dec q qlo)]; auto.
    + rewrite nmin_is_Rmin. vunf. rewrite Qd. reflexivity.
    + rewrite nmax_is_Rmax. vunf. rewrite Qd. reflexivity. Qed.
Lemma mstop_PE_is_documented k qlo qhi q :
  mstop_PE ROps k qlo qhi q = if Rlt_dec qhi q then / 2 * k * ((q-qhi)*(q-qhi)) else if Rlt_dec q qlo then / 2 * k * ((q-qlo)*(q-qlo)) else 0.
Proof. unfold mstop_PE, two. cbn [n0 n1 ROps nltb]. unfold Rltb.
  destruct (Req_dec k 0) as [->|K0].
  - rewrite neqb_refl. destruct (Rlt_dec qhi q); [|destruct (Rlt_dec q qlo)]; ring.
  - rewrite neqb_neq by auto. destruct (Rlt_dec qhi q); [|destruct (Rlt_dec q qlo)]; vunf; try field; auto. Qed.

(** LinearBushing: generalized force -(K q + C qdot) in its inferred coordinates, PE = 1/2 q^T K q *)
Lemma bushing_is_documented_partial (k c q qd:C13_Model.Vec6) :
  bush_f ROps k c q qd = sv_neg ROps (sv_add ROps (v3_mul ROps (fst k) (fst q), v3_mul ROps (snd k) (snd q))
                                                  (v3_mul ROps (fst c) (fst qd), v3_mul ROps (snd c) (snd qd)))
  /\ bush_PE_of_q ROps k q = / 2 * (v3_dot ROps (fst q) (v3_mul ROps (fst k) (fst q)) + v3_dot ROps (snd q) (v3_mul ROps (snd k) (snd q))).
Proof. split. reflexivity. destruct k as [k1 k2], q as [q1 q2]. dv. unfold bush_PE_of_q, two. cbn [fst snd]. munf. field. Qed.

(** ** (B) parameter changes take effect at the next realization *)
Section B.
Variables (P Q F:Type) (law : P -> Q -> F) (off : F).
Definition consistent (s:hst P Q F) : Prop := cache s = None \/ cache s = Some (value law off s).
Lemma hspec_ext : forall ops (s s':hst P Q F), par s = par s' -> pos s = pos s' -> enabled s = enabled s' ->
  hspec law off s ops = hspec law off s' ops.
Proof. induction ops as [|o r IH]; intros s s' A B C. reflexivity.
  destruct o; cbn [hspec sstep].
  - apply IH; cbn [par pos enabled]; auto.
  - apply IH; cbn [par pos enabled]; auto.
  - apply IH; cbn [par pos enabled]; auto.
  - f_equal. unfold value. rewrite A, B, C. reflexivity. apply IH; auto. Qed.
Lemma hrun_is_spec : forall ops (s:hst P Q F), consistent s -> hrun law off true s ops = hspec law off s ops.
Proof. induction ops as [|o r IH]; intros s Hc. reflexivity.
  destruct o; cbn [hrun hstep hspec sstep].
  - apply IH. left; reflexivity.
  - apply IH. left; reflexivity.
  - apply IH. left; reflexivity.
  - assert (E : match cache s with Some v => v | None => value law off s end = value law off s).
    { destruct Hc as [Hc|Hc]; rewrite Hc; reflexivity. }
    rewrite E. f_equal. rewrite IH by (right; reflexivity). apply hspec_ext; reflexivity. Qed.
(** from a freshly realized topology (nothing cached) every report along any history of parameter, state and
    enable/disable changes is what a fresh state with the current values reports *)
Lemma param_change_effective_next_realize ops p q e :
  hrun law off true (mkH p q e None) ops = hspec law off (mkH p q e None) ops.
Proof. apply hrun_is_spec. left; reflexivity. Qed.
End B.
(** without the invalidation (the defect fixed by 1efa2aab for MobilityLinearSpring) a stale value is reported *)
Lemma param_change_needs_invalidation_refuted :
  exists ops, hrun (fun p q : nat => (p + q)%nat) 0%nat false (mkH 0%nat 0%nat true None) ops
           <> hspec (fun p q : nat => (p + q)%nat) 0%nat (mkH 0%nat 0%nat true None) ops.
Proof. exists [Report; SetPar 1%nat; Report]. cbv. discriminate. Qed.
Example history_example :
  hspec (fun p q : nat => (p + q)%nat) 0%nat (mkH 0%nat 0%nat true None) [Report; SetPar 1%nat; Report; SetEnabled false; Report] = [0;1;0]%nat.
Proof. reflexivity. Qed.
