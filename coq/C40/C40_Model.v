(** C40 hand-written executable model of SimTKmath/src/Differentiator.cpp: the step-size rule and the forward /
    central difference formulas of DifferentiatorRep::calcDerivative / calcGradient / calcJacobian, polymorphic in
    [NumOps T].  No proofs in this file.
    [acc] = EstimatedAccuracy of the user function; [cb] = AccFac2 = pow(acc, 1/3) (NumOps has no cube root: the
    cube root is an input, the theorems assume cb*cb*cb = acc, the correspondence feeds acc**(1/3));
    AccFac1 = sqrt(acc).  [order] = Differentiator::getMethodOrder(method): 1 = ForwardDifference, 2 = CentralDifference. *)
From Coq Require Import ZArith List.
Require Import Num.
Import ListNotations.

Section Model.
Context {T : Type} (K : NumOps T).

Definition nmax (a b : T) : T := if nltb K a b then b else a.            (* std::max(a,b) = (a<b) ? b : a *)
Definition ymin : T := ndiv K (nofZ K 1) (nofZ K 10).                     (* static const Real YMin = Real(0.1) *)
Definition accfac (order : nat) (acc cb : T) : T :=                       (* getAccFac(order) *)
  match order with 1 => nsqrt K acc | _ => cb end.
Definition cleanUpH (hEst y0 : T) : T := nsub K (nadd K y0 hEst) y0.      (* volatile temp = y0+hEst; return temp-y0 *)
(** hEst = getAccFac(order)*max(|y0|, YMin);  h = cleanUpH(hEst, y0) *)
Definition dstep (order : nat) (acc cb y0 : T) : T :=
  cleanUpH (nmul K (accfac order acc cb) (nmax (nabs K y0) ymin)) y0.
Definition quot1 (fp f0 h : T) : T := ndiv K (nsub K fp f0) h.                          (* (fyplus-fy0)/h *)
Definition quot2 (fp fm h : T) : T := ndiv K (nsub K fp fm) (nmul K (nofZ K 2) h).     (* (fyplus-fyminus)/(2*h) *)

(** DifferentiatorRep::calcDerivative (scalar function of a scalar) *)
Definition diff_scalar (order : nat) (acc cb : T) (f : T -> T) (y0 fy0 : T) : T :=
  let h := dstep order acc cb y0 in
  match order with
  | 1 => quot1 (f (nadd K y0 h)) fy0 h
  | _ => quot2 (f (nadd K y0 h)) (f (nsub K y0 h)) h
  end.

Fixpoint upd (i : nat) (t : T) (x : list T) : list T :=                   (* ytmp = y0; ytmp[i] = t *)
  match x, i with
  | [], _ => []
  | _ :: xs, O => t :: xs
  | a :: xs, S i' => a :: upd i' t xs
  end.

(** DifferentiatorRep::calcGradient: for each parameter i its own h from y0[i]; one-sided or two-sided quotient *)
Definition diff_grad (order : nat) (acc cb : T) (f : list T -> T) (y0 : list T) (fy0 : T) : list T :=
  map (fun i => let yi := nth i y0 (nofZ K 0) in
                let h := dstep order acc cb yi in
                match order with
                | 1 => quot1 (f (upd i (nadd K yi h) y0)) fy0 h
                | _ => quot2 (f (upd i (nadd K yi h) y0)) (f (upd i (nsub K yi h) y0)) h
                end) (seq 0 (length y0)).

(** DifferentiatorRep::calcJacobian: column i = (fyp - fy0)/h resp. (fyp - fym)/(2h); Vector/scalar in SimTK is
    multiplication by the reciprocal (MatrixBase::operator/= : scaleBy(1/t)).  Result = list of columns. *)
Fixpoint vsub (a b : list T) : list T :=
  match a, b with x :: a', y :: b' => nsub K x y :: vsub a' b' | _, _ => [] end.
Definition vdiv (v : list T) (s : T) : list T := let r := ndiv K (nofZ K 1) s in map (fun x => nmul K x r) v.
Definition diff_jac (order : nat) (acc cb : T) (f : list T -> list T) (y0 : list T) (fy0 : list T) : list (list T) :=
  map (fun i => let yi := nth i y0 (nofZ K 0) in
                let h := dstep order acc cb yi in
                match order with
                | 1 => vdiv (vsub (f (upd i (nadd K yi h) y0)) fy0) h
                | _ => vdiv (vsub (f (upd i (nadd K yi h) y0)) (f (upd i (nsub K yi h) y0))) (nmul K (nofZ K 2) h)
                end) (seq 0 (length y0)).

(** the points at which the user function is evaluated (observable: the harness records the arguments of its f) *)
Definition eval_points (order : nat) (acc cb : T) (y0 : list T) : list (list T) :=
  flat_map (fun i => let yi := nth i y0 (nofZ K 0) in
                     let h := dstep order acc cb yi in
                     match order with
                     | 1 => [upd i (nadd K yi h) y0]
                     | _ => [upd i (nadd K yi h) y0; upd i (nsub K yi h) y0]
                     end) (seq 0 (length y0)).
End Model.
