(** C40 proofs over the hand model C40_Model.v of Differentiator.cpp (tied to the code by the correspondence run). *)
From Coq Require Import ZArith Reals Lra Lia Psatz List.
From Coquelicot Require Import Coquelicot.
Require Import Num Tactics C40_Model.
Import ListNotations.
Local Open Scope R_scope.

(** ** the step-size rule over R:  h = AccFac(order) * max(|y0|, 0.1)  (cleanUpH is the identity over R) *)
Lemma nmax_R a b : nmax ROps a b = Rmax a b.
Proof. unfold nmax; cbv [ROps nltb]; unfold Rltb, Rmax. destruct (Rlt_dec a b), (Rle_dec a b); lra. Qed.
Lemma dstep_R order acc cb y0 : dstep ROps order acc cb y0 = accfac ROps order acc cb * Rmax (Rabs y0) (1 / 10).
Proof. unfold dstep, cleanUpH. rewrite nmax_R. cbv [ymin ROps nsub nadd nmul nabs ndiv nofZ]. ring. Qed.
Lemma accfac_pos order acc cb : 0 < acc -> 0 < cb -> 0 < accfac ROps order acc cb.
Proof. intros Ha Hc. destruct order as [| [| o]]; cbn [accfac]; cbv [ROps nsqrt]; auto. apply sqrt_lt_R0; auto. Qed.
Lemma scale_ge y0 : 1 / 10 <= Rmax (Rabs y0) (1 / 10) /\ Rabs y0 <= Rmax (Rabs y0) (1 / 10).
Proof. split; [apply Rmax_r | apply Rmax_l]. Qed.

Lemma step_positive order acc cb y0 : 0 < acc -> 0 < cb -> 0 < dstep ROps order acc cb y0.
Proof. intros Ha Hc. rewrite dstep_R. apply Rmult_lt_0_compat; [apply accfac_pos; auto|].
  generalize (scale_ge y0); lra. Qed.
(** scale awareness: proportional to |y0| for |y0| >= 0.1, the absolute floor AccFac/10 below; even in y0 *)
Lemma step_scale_aware order acc cb y0 : 0 < acc -> 0 < cb ->
  let h := dstep ROps order acc cb y0 in let A := accfac ROps order acc cb in
  A * Rabs y0 <= h /\ A / 10 <= h /\ (1 / 10 <= Rabs y0 -> h = A * Rabs y0) /\ (Rabs y0 <= 1 / 10 -> h = A / 10) /\
  dstep ROps order acc cb (- y0) = h.
Proof. intros Ha Hc h A. unfold h. rewrite !dstep_R. fold A. assert (HA : 0 < A) by (apply accfac_pos; auto).
  destruct (scale_ge y0) as [S1 S2]. repeat split.
  - nra.
  - nra.
  - intros H. rewrite Rmax_left by lra. reflexivity.
  - intros H. rewrite Rmax_right by lra. field.
  - rewrite Rabs_Ropp. reflexivity. Qed.
(** the two accuracy factors: h1^2 = acc * scale^2 (forward), h2^3 = acc * scale^3 (central, given cb^3 = acc) *)
Lemma step_accuracy_orders acc cb y0 : 0 < acc -> cb * cb * cb = acc ->
  let s := Rmax (Rabs y0) (1 / 10) in
  dstep ROps 1 acc cb y0 * dstep ROps 1 acc cb y0 = acc * (s * s) /\
  dstep ROps 2 acc cb y0 * (dstep ROps 2 acc cb y0 * dstep ROps 2 acc cb y0) = acc * (s * (s * s)).
Proof. intros Ha Hc s. rewrite !dstep_R. fold s. cbn [accfac]. cbv [ROps nsqrt]. split.
  - transitivity (sqrt acc * sqrt acc * (s * s)); [ring|]. rewrite sqrt_sqrt by lra. ring.
  - rewrite <- Hc. ring. Qed.

(** ** exactness (scalar interface) *)
Lemma forward_exact_on_affine acc cb a b y0 : 0 < acc -> 0 < cb ->
  diff_scalar ROps 1 acc cb (fun t => a * t + b) y0 (a * y0 + b) = a.
Proof. intros Ha Hc. generalize (step_positive 1 acc cb y0 Ha Hc). unfold diff_scalar, quot1.
  set (h := dstep ROps 1 acc cb y0). intros Hh. cbv [ROps nadd nsub ndiv]. field. lra. Qed.
Lemma central_exact_on_quadratic acc cb a b c y0 fy0 : 0 < acc -> 0 < cb ->
  diff_scalar ROps 2 acc cb (fun t => a * t * t + b * t + c) y0 fy0 = 2 * a * y0 + b.
Proof. intros Ha Hc. generalize (step_positive 2 acc cb y0 Ha Hc). unfold diff_scalar, quot2.
  set (h := dstep ROps 2 acc cb y0). intros Hh. cbv [ROps nadd nsub ndiv nmul nofZ]. field. lra. Qed.
(** the forward formula is NOT exact on quadratics, the central one not on cubics: the errors are a*h and a*h^2,
    which is exactly the truncation bound below with M = |f''| = 2|a| resp. M = |f'''| = 6|a| (the bounds are sharp) *)
Lemma forward_error_on_quadratic acc cb a b c y0 : 0 < acc -> 0 < cb ->
  diff_scalar ROps 1 acc cb (fun t => a * t * t + b * t + c) y0 (a * y0 * y0 + b * y0 + c) - (2 * a * y0 + b)
  = a * dstep ROps 1 acc cb y0.
Proof. intros Ha Hc. generalize (step_positive 1 acc cb y0 Ha Hc). unfold diff_scalar, quot1.
  set (h := dstep ROps 1 acc cb y0). intros Hh. cbv [ROps nadd nsub ndiv]. field. lra. Qed.
Lemma central_error_on_cubic acc cb a y0 fy0 : 0 < acc -> 0 < cb ->
  diff_scalar ROps 2 acc cb (fun t => a * t * t * t) y0 fy0 - 3 * a * y0 * y0
  = a * (dstep ROps 2 acc cb y0 * dstep ROps 2 acc cb y0).
Proof. intros Ha Hc. generalize (step_positive 2 acc cb y0 Ha Hc). unfold diff_scalar, quot2.
  set (h := dstep ROps 2 acc cb y0). intros Hh. cbv [ROps nadd nsub ndiv nmul nofZ]. field. lra. Qed.

(** ** gradient and Jacobian reduce, entry by entry, to the scalar formula along the coordinate line *)
Lemma nth_map_seq {A} (g : nat -> A) n i d : (i < n)%nat -> nth i (map g (seq 0 n)) d = g i.
Proof. intros H. rewrite (nth_indep _ d (g 0%nat)) by (rewrite map_length, seq_length; auto).
  rewrite map_nth, seq_nth by auto. reflexivity. Qed.
Lemma grad_length order acc cb f y0 fy0 : length (diff_grad ROps order acc cb f y0 fy0) = length y0.
Proof. unfold diff_grad. rewrite map_length, seq_length. reflexivity. Qed.
Lemma grad_component order acc cb f y0 fy0 i : (i < length y0)%nat ->
  nth i (diff_grad ROps order acc cb f y0 fy0) 0 =
  diff_scalar ROps order acc cb (fun t => f (upd i t y0)) (nth i y0 0) fy0.
Proof. intros Hi. unfold diff_grad. rewrite nth_map_seq by auto. unfold diff_scalar.
  destruct order as [| [| o]]; reflexivity. Qed.

Lemma nth_vsub a : forall b j, length a = length b -> nth j (vsub ROps a b) 0 = nth j a 0 - nth j b 0.
Proof. induction a as [| x a IH]; intros b j Hl; destruct b as [| y b]; simpl in Hl; try discriminate.
  - destruct j; simpl; ring.
  - destruct j; simpl; [reflexivity|]. apply IH. lia. Qed.
Lemma vsub_length a : forall b, length a = length b -> length (vsub ROps a b) = length a.
Proof. induction a as [| x a IH]; intros b Hl; destruct b; simpl in *; try discriminate; auto. Qed.
Lemma nth_vdiv v s : forall j, nth j (vdiv ROps v s) 0 = nth j v 0 * (1 / s).
Proof. unfold vdiv. cbv [ROps nmul ndiv nofZ]. induction v as [| x v IH]; intros j; destruct j; simpl; try ring; auto. Qed.
Lemma jac_length order acc cb f y0 fy0 : length (diff_jac ROps order acc cb f y0 fy0) = length y0.
Proof. unfold diff_jac. rewrite map_length, seq_length. reflexivity. Qed.
(** entry (j,i): function j, parameter i; [m] = number of functions *)
Lemma jac_entry order acc cb f y0 fy0 m i j : 0 < acc -> 0 < cb -> (i < length y0)%nat ->
  (forall y, length (f y) = m) -> length fy0 = m ->
  nth j (nth i (diff_jac ROps order acc cb f y0 fy0) []) 0 =
  diff_scalar ROps order acc cb (fun t => nth j (f (upd i t y0)) 0) (nth i y0 0) (nth j fy0 0).
Proof. intros Ha Hc Hi Hm H0. unfold diff_jac. rewrite nth_map_seq by auto. unfold diff_scalar.
  change (nth i y0 (nofZ ROps 0)) with (nth i y0 0).
  generalize (step_positive order acc cb (nth i y0 0) Ha Hc). set (h := dstep ROps order acc cb (nth i y0 0)). intros Hh.
  destruct order as [| [| o]]; rewrite nth_vdiv, nth_vsub by (rewrite !Hm; auto; lia);
    unfold quot1, quot2; cbv [ROps nadd nsub ndiv nmul nofZ]; field; lra. Qed.

(** ** exactness, gradient and Jacobian interfaces.  The hypotheses describe f along the coordinate line through y0. *)
Lemma upd_same (y : list R) : forall i, upd i (nth i y 0) y = y.
Proof. induction y as [| a y IH]; intros i; destruct i; simpl; auto. rewrite IH. reflexivity. Qed.
Lemma diff_scalar_ext order acc cb f g y0 fy0 : (forall t, f t = g t) ->
  diff_scalar ROps order acc cb f y0 fy0 = diff_scalar ROps order acc cb g y0 fy0.
Proof. intros H. unfold diff_scalar. rewrite !H. reflexivity. Qed.

Lemma grad_forward_exact_on_affine acc cb f y0 i a b : 0 < acc -> 0 < cb -> (i < length y0)%nat ->
  (forall t, f (upd i t y0) = a * t + b) ->
  nth i (diff_grad ROps 1 acc cb f y0 (f y0)) 0 = a.
Proof. intros Ha Hc Hi Hf. rewrite grad_component by auto.
  rewrite <- (upd_same y0 i) at 2. rewrite Hf.
  rewrite (diff_scalar_ext _ _ _ _ (fun t => a * t + b)) by auto.
  apply forward_exact_on_affine; auto. Qed.
Lemma grad_central_exact_on_quadratic acc cb f y0 fy0 i a b c : 0 < acc -> 0 < cb -> (i < length y0)%nat ->
  (forall t, f (upd i t y0) = a * t * t + b * t + c) ->
  nth i (diff_grad ROps 2 acc cb f y0 fy0) 0 = 2 * a * nth i y0 0 + b.
Proof. intros Ha Hc Hi Hf. rewrite grad_component by auto.
  rewrite (diff_scalar_ext _ _ _ _ (fun t => a * t * t + b * t + c)) by auto.
  apply central_exact_on_quadratic; auto. Qed.
Lemma jac_forward_exact_on_affine acc cb f y0 m i j a b : 0 < acc -> 0 < cb -> (i < length y0)%nat ->
  (forall y, length (f y) = m) ->
  (forall t, nth j (f (upd i t y0)) 0 = a * t + b) ->
  nth j (nth i (diff_jac ROps 1 acc cb f y0 (f y0)) []) 0 = a.
Proof. intros Ha Hc Hi Hm Hf. rewrite (jac_entry 1 acc cb f y0 (f y0) m) by auto.
  rewrite <- (upd_same y0 i) at 2. rewrite Hf.
  rewrite (diff_scalar_ext _ _ _ _ (fun t => a * t + b)) by auto.
  apply forward_exact_on_affine; auto. Qed.
Lemma jac_central_exact_on_quadratic acc cb f y0 fy0 m i j a b c : 0 < acc -> 0 < cb -> (i < length y0)%nat ->
  (forall y, length (f y) = m) -> length fy0 = m ->
  (forall t, nth j (f (upd i t y0)) 0 = a * t * t + b * t + c) ->
  nth j (nth i (diff_jac ROps 2 acc cb f y0 fy0) []) 0 = 2 * a * nth i y0 0 + b.
Proof. intros Ha Hc Hi Hm H0 Hf. rewrite (jac_entry 2 acc cb f y0 fy0 m) by auto.
  rewrite (diff_scalar_ext _ _ _ _ (fun t => a * t * t + b * t + c)) by auto.
  apply central_exact_on_quadratic; auto. Qed.

(** whole-gradient form for the affine function  f(y) = a . y + b *)
Fixpoint lin (a y : list R) : R := match a, y with ai :: a', yi :: y' => ai * yi + lin a' y' | _, _ => 0 end.
Lemma lin_upd a : forall y i t, length a = length y -> (i < length y)%nat ->
  lin a (upd i t y) = nth i a 0 * t + (lin a y - nth i a 0 * nth i y 0).
Proof. induction a as [| ai a IH]; intros y i t Hl Hi; destruct y as [| yi y]; simpl in *; try lia.
  destruct i; simpl; [ring|]. rewrite IH by lia. ring. Qed.
Lemma grad_forward_exact_on_affine_all acc cb a b y0 : 0 < acc -> 0 < cb -> length a = length y0 ->
  diff_grad ROps 1 acc cb (fun y => lin a y + b) y0 (lin a y0 + b) = a.
Proof. intros Ha Hc Hl. apply nth_ext with (d := 0) (d' := 0).
  - rewrite grad_length. auto.
  - intros i Hi. rewrite grad_length in Hi.
    apply (grad_forward_exact_on_affine acc cb (fun y => lin a y + b) y0 i (nth i a 0) (lin a y0 - nth i a 0 * nth i y0 0 + b)); auto.
    intros t. rewrite lin_upd by auto. ring. Qed.
Lemma grad_central_exact_on_affine_all acc cb a b y0 fy0 : 0 < acc -> 0 < cb -> length a = length y0 ->
  diff_grad ROps 2 acc cb (fun y => lin a y + b) y0 fy0 = a.
Proof. intros Ha Hc Hl. apply nth_ext with (d := 0) (d' := 0).
  - rewrite grad_length. auto.
  - intros i Hi. rewrite grad_length in Hi.
    rewrite (grad_central_exact_on_quadratic acc cb (fun y => lin a y + b) y0 fy0 i 0 (nth i a 0) (lin a y0 - nth i a 0 * nth i y0 0 + b)); auto.
    + ring.
    + intros t. rewrite lin_upd by auto. ring. Qed.

(** ** truncation bounds (Taylor with Lagrange remainder, Coquelicot).  f, f', f'' (, f''') given as functions
    differentiable on all of R; the bound M only needs to hold on the interval the formula samples. *)
Lemma fam_Derive_n (F : nat -> R -> R) n : (forall k, (k <= n)%nat -> forall t, is_derive (F k) t (F (S k) t)) ->
  forall k, (k <= S n)%nat -> forall t, Derive_n (F 0%nat) k t = F k t.
Proof. intros HF. induction k; intros Hk t; simpl; auto.
  rewrite (Derive_ext _ (F k)) by (intros; apply IHk; lia). apply is_derive_unique, HF. lia. Qed.
Lemma taylor_fam (F : nat -> R -> R) n x y : x < y ->
  (forall k, (k <= n)%nat -> forall t, is_derive (F k) t (F (S k) t)) ->
  exists zeta, x < zeta < y /\
    F 0%nat y = sum_f_R0 (fun m => (y - x) ^ m / INR (fact m) * F m x) n + (y - x) ^ (S n) / INR (fact (S n)) * F (S n) zeta.
Proof. intros Hxy HF.
  destruct (Taylor_Lagrange (F 0%nat) n x y Hxy) as [z [Hz E]].
  { intros t _ k Hk. destruct k; simpl; auto. exists (F (S k) t).
    apply is_derive_ext with (f := F k). { intros u. symmetry. apply (fam_Derive_n F n HF); lia. } apply HF. lia. }
  exists z. split; auto. rewrite E. rewrite (fam_Derive_n F n HF (S n)) by lia. f_equal.
  apply sum_eq. intros i Hi. rewrite (fam_Derive_n F n HF i) by lia. reflexivity. Qed.

Lemma forward_truncation_bound acc cb (f f1 f2 : R -> R) M y0 : 0 < acc -> 0 < cb ->
  (forall t, is_derive f t (f1 t)) -> (forall t, is_derive f1 t (f2 t)) ->
  let h := dstep ROps 1 acc cb y0 in
  (forall t, y0 <= t <= y0 + h -> Rabs (f2 t) <= M) ->
  Rabs (diff_scalar ROps 1 acc cb f y0 (f y0) - f1 y0) <= h / 2 * M.
Proof. intros Ha Hc D1 D2 h HM. assert (Hh : 0 < h) by (apply step_positive; auto).
  pose (F := fun k : nat => match k with 0%nat => f | 1%nat => f1 | _ => f2 end).
  destruct (taylor_fam F 1 y0 (y0 + h) ltac:(lra)) as [z [Hz E]].
  { intros k Hk t. destruct k as [| [| k]]; simpl; [apply D1 | apply D2 | lia]. }
  assert (E' : f (y0 + h) = f y0 + h * f1 y0 + h * h / 2 * f2 z).
  { change (f (y0 + h)) with (F 0%nat (y0 + h)). rewrite E. replace (y0 + h - y0) with h by ring.
    unfold F. simpl. field. }
  unfold diff_scalar, quot1. fold h. cbv [ROps nadd nsub ndiv]. rewrite E'.
  replace ((f y0 + h * f1 y0 + h * h / 2 * f2 z - f y0) / h - f1 y0) with (h / 2 * f2 z) by (field; lra).
  rewrite Rabs_mult, (Rabs_right (h / 2)) by lra.
  apply Rmult_le_compat_l; [lra|]. apply HM. lra. Qed.

Lemma central_truncation_bound acc cb (f f1 f2 f3 : R -> R) M y0 fy0 : 0 < acc -> 0 < cb ->
  (forall t, is_derive f t (f1 t)) -> (forall t, is_derive f1 t (f2 t)) -> (forall t, is_derive f2 t (f3 t)) ->
  let h := dstep ROps 2 acc cb y0 in
  (forall t, y0 - h <= t <= y0 + h -> Rabs (f3 t) <= M) ->
  Rabs (diff_scalar ROps 2 acc cb f y0 fy0 - f1 y0) <= h * h / 6 * M.
Proof. intros Ha Hc D1 D2 D3 h HM. assert (Hh : 0 < h) by (apply step_positive; auto).
  pose (F := fun k : nat => match k with 0%nat => f | 1%nat => f1 | 2%nat => f2 | _ => f3 end).
  destruct (taylor_fam F 2 y0 (y0 + h) ltac:(lra)) as [z [Hz E]].
  { intros k Hk t. destruct k as [| [| [| k]]]; simpl; [apply D1 | apply D2 | apply D3 | lia]. }
  assert (E' : f (y0 + h) = f y0 + h * f1 y0 + h * h / 2 * f2 y0 + h * h * h / 6 * f3 z).
  { change (f (y0 + h)) with (F 0%nat (y0 + h)). rewrite E. replace (y0 + h - y0) with h by ring.
    unfold F. simpl. field. }
  (* the reflected function g t = f (-t), expanded from -y0 to -y0+h *)
  pose (G := fun k : nat => match k with 0%nat => (fun t => f (- t)) | 1%nat => (fun t => - f1 (- t))
                                    | 2%nat => (fun t => f2 (- t)) | _ => (fun t => - f3 (- t)) end).
  destruct (taylor_fam G 2 (- y0) (- y0 + h) ltac:(lra)) as [w [Hw Eg]].
  { intros k Hk t. destruct k as [| [| [| k]]]; simpl; [| | | lia].
    - apply (is_derive_ext (fun t => f (-1 * t))); [intros u; f_equal; ring|].
      evar_last. apply (is_derive_comp f (fun t => -1 * t)); [apply D1 | auto_derive; [exact I | reflexivity]].
      replace (-1 * t) with (- t) by ring. unfold scal; simpl; unfold mult; simpl. ring.
    - apply (is_derive_ext (fun t => - f1 (-1 * t))); [intros u; do 2 f_equal; ring|].
      evar_last. apply @is_derive_opp. apply (is_derive_comp f1 (fun t => -1 * t)); [apply D2 | auto_derive; [exact I | reflexivity]].
      replace (-1 * t) with (- t) by ring. unfold scal, opp; simpl; unfold mult; simpl. ring.
    - apply (is_derive_ext (fun t => f2 (-1 * t))); [intros u; f_equal; ring|].
      evar_last. apply (is_derive_comp f2 (fun t => -1 * t)); [apply D3 | auto_derive; [exact I | reflexivity]].
      replace (-1 * t) with (- t) by ring. unfold scal; simpl; unfold mult; simpl. ring. }
  assert (Eg' : f (y0 - h) = f y0 - h * f1 y0 + h * h / 2 * f2 y0 - h * h * h / 6 * f3 (- w)).
  { replace (y0 - h) with (- (- y0 + h)) by ring. change (f (- (- y0 + h))) with (G 0%nat (- y0 + h)). rewrite Eg.
    replace (- y0 + h - - y0) with h by ring. unfold G. simpl. rewrite !Ropp_involutive. field. }
  unfold diff_scalar, quot2. fold h. cbv [ROps nadd nsub ndiv nmul nofZ]. rewrite E', Eg'.
  replace ((f y0 + h * f1 y0 + h * h / 2 * f2 y0 + h * h * h / 6 * f3 z -
            (f y0 - h * f1 y0 + h * h / 2 * f2 y0 - h * h * h / 6 * f3 (- w))) / (2 * h) - f1 y0)
     with (h * h / 12 * (f3 z + f3 (- w))) by (field; lra).
  assert (B1 : Rabs (f3 z) <= M) by (apply HM; lra).
  assert (B2 : Rabs (f3 (- w)) <= M) by (apply HM; lra).
  rewrite Rabs_mult, (Rabs_right (h * h / 12)) by nra.
  generalize (Rabs_triang (f3 z) (f3 (- w))). intros. assert (0 < h * h / 12) by nra. nra. Qed.

(** in terms of the function's stated accuracy: forward error <= sqrt(acc) * scale * M / 2, central <= (acc^(1/3) scale)^2 M / 6.
    PARTIAL with respect to the property text: these bound the TRUNCATION error of the exact-arithmetic formula only; the
    rounding contribution  ~ acc*|f|/h  (the reason the step is chosen as sqrt(acc) resp. acc^(1/3)) is not modelled. *)
Lemma forward_error_bound_partial acc cb (f f1 f2 : R -> R) M y0 : 0 < acc -> 0 < cb ->
  (forall t, is_derive f t (f1 t)) -> (forall t, is_derive f1 t (f2 t)) -> (forall t, Rabs (f2 t) <= M) ->
  Rabs (diff_scalar ROps 1 acc cb f y0 (f y0) - f1 y0) <= sqrt acc * Rmax (Rabs y0) (1 / 10) / 2 * M.
Proof. intros Ha Hc D1 D2 HM.
  generalize (forward_truncation_bound acc cb f f1 f2 M y0 Ha Hc D1 D2 (fun t _ => HM t)).
  rewrite dstep_R. cbn [accfac]. cbv [ROps nsqrt]. intros H. lra. Qed.
Lemma central_error_bound_partial acc cb (f f1 f2 f3 : R -> R) M y0 fy0 : 0 < acc -> 0 < cb ->
  (forall t, is_derive f t (f1 t)) -> (forall t, is_derive f1 t (f2 t)) -> (forall t, is_derive f2 t (f3 t)) ->
  (forall t, Rabs (f3 t) <= M) ->
  Rabs (diff_scalar ROps 2 acc cb f y0 fy0 - f1 y0) <= (cb * Rmax (Rabs y0) (1 / 10)) * (cb * Rmax (Rabs y0) (1 / 10)) / 6 * M.
Proof. intros Ha Hc D1 D2 D3 HM.
  generalize (central_truncation_bound acc cb f f1 f2 f3 M y0 fy0 Ha Hc D1 D2 D3 (fun t _ => HM t)).
  rewrite dstep_R. cbn [accfac]. intros H. exact H. Qed.

(** gradient / Jacobian entries inherit the bounds: g1 is the partial derivative along coordinate i *)
Lemma grad_forward_truncation_bound acc cb f y0 i (g1 g2 : R -> R) M : 0 < acc -> 0 < cb -> (i < length y0)%nat ->
  (forall t, is_derive (fun t => f (upd i t y0)) t (g1 t)) -> (forall t, is_derive g1 t (g2 t)) -> (forall t, Rabs (g2 t) <= M) ->
  Rabs (nth i (diff_grad ROps 1 acc cb f y0 (f y0)) 0 - g1 (nth i y0 0)) <= sqrt acc * Rmax (Rabs (nth i y0 0)) (1 / 10) / 2 * M.
Proof. intros Ha Hc Hi D1 D2 HM. rewrite grad_component by auto.
  rewrite <- (upd_same y0 i) at 2.
  apply (forward_error_bound_partial acc cb (fun t => f (upd i t y0)) g1 g2 M (nth i y0 0)); auto. Qed.
Lemma grad_central_truncation_bound acc cb f y0 fy0 i (g1 g2 g3 : R -> R) M : 0 < acc -> 0 < cb -> (i < length y0)%nat ->
  (forall t, is_derive (fun t => f (upd i t y0)) t (g1 t)) -> (forall t, is_derive g1 t (g2 t)) -> (forall t, is_derive g2 t (g3 t)) ->
  (forall t, Rabs (g3 t) <= M) ->
  Rabs (nth i (diff_grad ROps 2 acc cb f y0 fy0) 0 - g1 (nth i y0 0)) <=
    (cb * Rmax (Rabs (nth i y0 0)) (1 / 10)) * (cb * Rmax (Rabs (nth i y0 0)) (1 / 10)) / 6 * M.
Proof. intros Ha Hc Hi D1 D2 D3 HM. rewrite grad_component by auto.
  apply (central_error_bound_partial acc cb (fun t => f (upd i t y0)) g1 g2 g3 M (nth i y0 0)); auto. Qed.
Lemma jac_forward_truncation_bound acc cb f y0 m i j (g1 g2 : R -> R) M : 0 < acc -> 0 < cb -> (i < length y0)%nat ->
  (forall y, length (f y) = m) ->
  (forall t, is_derive (fun t => nth j (f (upd i t y0)) 0) t (g1 t)) -> (forall t, is_derive g1 t (g2 t)) -> (forall t, Rabs (g2 t) <= M) ->
  Rabs (nth j (nth i (diff_jac ROps 1 acc cb f y0 (f y0)) []) 0 - g1 (nth i y0 0)) <= sqrt acc * Rmax (Rabs (nth i y0 0)) (1 / 10) / 2 * M.
Proof. intros Ha Hc Hi Hm D1 D2 HM. rewrite (jac_entry 1 acc cb f y0 (f y0) m) by auto.
  rewrite <- (upd_same y0 i) at 2.
  apply (forward_error_bound_partial acc cb (fun t => nth j (f (upd i t y0)) 0) g1 g2 M (nth i y0 0)); auto. Qed.
Lemma jac_central_truncation_bound acc cb f y0 fy0 m i j (g1 g2 g3 : R -> R) M : 0 < acc -> 0 < cb -> (i < length y0)%nat ->
  (forall y, length (f y) = m) -> length fy0 = m ->
  (forall t, is_derive (fun t => nth j (f (upd i t y0)) 0) t (g1 t)) -> (forall t, is_derive g1 t (g2 t)) -> (forall t, is_derive g2 t (g3 t)) ->
  (forall t, Rabs (g3 t) <= M) ->
  Rabs (nth j (nth i (diff_jac ROps 2 acc cb f y0 fy0) []) 0 - g1 (nth i y0 0)) <=
    (cb * Rmax (Rabs (nth i y0 0)) (1 / 10)) * (cb * Rmax (Rabs (nth i y0 0)) (1 / 10)) / 6 * M.
Proof. intros Ha Hc Hi Hm H0 D1 D2 D3 HM. rewrite (jac_entry 2 acc cb f y0 fy0 m) by auto.
  apply (central_error_bound_partial acc cb (fun t => nth j (f (upd i t y0)) 0) g1 g2 g3 M (nth i y0 0)); auto. Qed.

(** ** non-vacuity: the hypotheses of the bounds are satisfiable by a non-polynomial function (sin, M = 1) *)
Example ex_forward_bound_sin acc cb y0 : 0 < acc -> 0 < cb ->
  Rabs (diff_scalar ROps 1 acc cb sin y0 (sin y0) - cos y0) <= sqrt acc * Rmax (Rabs y0) (1 / 10) / 2 * 1.
Proof. intros Ha Hc.
  apply (forward_error_bound_partial acc cb sin cos (fun t => - sin t) 1 y0); auto.
  - intros t. auto_derive; [exact I | ring].
  - intros t. auto_derive; [exact I | ring].
  - intros t. rewrite Rabs_Ropp. apply Rabs_le. generalize (SIN_bound t). lra. Qed.
Example ex_central_bound_sin acc cb y0 fy0 : 0 < acc -> 0 < cb ->
  Rabs (diff_scalar ROps 2 acc cb sin y0 fy0 - cos y0) <= (cb * Rmax (Rabs y0) (1 / 10)) * (cb * Rmax (Rabs y0) (1 / 10)) / 6 * 1.
Proof. intros Ha Hc.
  apply (central_error_bound_partial acc cb sin cos (fun t => - sin t) (fun t => - cos t) 1 y0); auto.
  - intros t. auto_derive; [exact I | ring].
  - intros t. auto_derive; [exact I | ring].
  - intros t. auto_derive; [exact I | ring].
  - intros t. rewrite Rabs_Ropp. apply Rabs_le. generalize (COS_bound t). lra. Qed.
Example ex_step_values : dstep ROps 2 (1 / 1000) (1 / 10) 5 = 1 / 2 /\ dstep ROps 2 (1 / 1000) (1 / 10) 0 = 1 / 100 /\
                         dstep ROps 1 (1 / 100) 0 (-3) = 3 / 10.
Proof. rewrite !dstep_R. cbn [accfac]. cbv [ROps nsqrt]. repeat split.
  - rewrite Rabs_right, Rmax_left by lra. field.
  - rewrite Rabs_R0, Rmax_right by lra. field.
  - replace (1 / 100) with ((1 / 10) * (1 / 10)) by field. rewrite sqrt_square by lra.
    rewrite Rabs_left, Rmax_left by lra. field. Qed.
