(** C41 hand-written executable model of the Function_<Real> objects of
    SimTKcommon/include/SimTKcommon/internal/Function.h (Constant, Linear, Polynomial, Sinusoid, Step),
    polymorphic in [NumOps T].  The smooth-step helpers themselves ([k_stepUp] ... [k_d3stepAny]) are NOT
    written here: they are regenerated from Scalar.h by translate/sk2coq.py into Gen/step_gen.v and the
    Step object below calls those generated definitions, exactly as the C++ calls stepAny/dstepAny/...
    No proofs in this file.  Loops are structural recursions over the coefficient list / the order.
    Arguments are lists (the C++ Vector x), derivative component lists are [list nat]
    (the C++ Array_<int> derivComponents); single-argument functions only use its length. *)
From Coq Require Import ZArith List.
Require Import Num step_gen.
Import ListNotations.

Section Model.
Context {T : Type} (K : NumOps T).

(** *** Function_::Constant : calcValue returns [value]; calcDerivative returns static_cast<T>(0) *)
Definition const_value (v : T) (x : list T) : T := v.
Definition const_deriv (v : T) (dc : list nat) (x : list T) : T := nofZ K 0.

(** *** Function_::Linear : value = 0; for i<x.size(): value += x[i]*c[i]; value += c[x.size()] *)
Fixpoint lin_loop (acc : T) (xs cs : list T) : T :=
  match xs, cs with
  | x :: xs', c :: cs' => lin_loop (nadd K acc (nmul K x c)) xs' cs'
  | [], c :: _ => nadd K acc c
  | _, [] => acc            (* size mismatch: excluded by the C++ assert *)
  end.
Definition lin_value (cs : list T) (x : list T) : T := lin_loop (nofZ K 0) x cs.
(** if (derivComponents.size()==1) return coefficients(derivComponents[0]); return 0 *)
Definition lin_deriv (cs : list T) (dc : list nat) (x : list T) : T :=
  match dc with
  | [i] => nth i cs (nofZ K 0)
  | _ => nofZ K 0
  end.

(** *** Function_::Polynomial : Horner, coefficients in order of decreasing powers *)
Fixpoint horner (acc : T) (cs : list T) (arg : T) : T :=
  match cs with
  | [] => acc
  | c :: cs' => horner (nadd K (nmul K acc arg) c) cs' arg
  end.
Definition poly_value (cs : list T) (arg : T) : T := horner (nofZ K 0) cs arg.

(** inner loop  for (j=0; j<derivOrder; ++j) coeff *= polyOrder-i-j;   [m] = polyOrder-i-j *)
Fixpoint falling (coeff : T) (m : Z) (k : nat) : T :=
  match k with
  | O => coeff
  | S k' => falling (nmul K coeff (nofZ K m)) (m - 1) k'
  end.
(** outer loop  for (i=0; i<=polyOrder-derivOrder; ++i) { coeff = c[i]; ...; value = value*arg + coeff; }
    [m] = polyOrder-i, [cnt] = remaining iterations *)
Fixpoint pderiv_loop (acc : T) (cs : list T) (m : Z) (k : nat) (cnt : nat) (arg : T) : T :=
  match cnt, cs with
  | S cnt', c :: cs' => pderiv_loop (nadd K (nmul K acc arg) (falling c m k)) cs' (m - 1) k cnt' arg
  | _, _ => acc
  end.
(** polyOrder = size-1; the loop body runs for i = 0 .. polyOrder-derivOrder, i.e. size-derivOrder times
    (no times when derivOrder > polyOrder) *)
Definition poly_deriv (cs : list T) (k : nat) (arg : T) : T :=
  pderiv_loop (nofZ K 0) cs (Z.of_nat (length cs) - 1) k (length cs - k) arg.

(** *** Function_<Real>::Sinusoid : a*sin(w*t+p) *)
Fixpoint npow (w : T) (n : nat) : T :=       (* std::pow(w, order), modelled as repeated multiplication *)
  match n with O => nofZ K 1 | S n' => nmul K w (npow w n') end.
Definition sin_value (a w p t : T) : T := nmul K a (nsin K (nadd K (nmul K w t) p)).
Definition sin_deriv (a w p : T) (order : nat) (t : T) : T :=
  let ph := nadd K (nmul K w t) p in
  match order with
  | 0 => nmul K a (nsin K ph)
  | 1 => nmul K (nmul K a w) (ncos K ph)
  | 2 => nmul K (nmul K (nmul K (nopp K a) w) w) (nsin K ph)
  | 3 => nmul K (nmul K (nmul K (nmul K (nopp K a) w) w) w) (ncos K ph)
  | _ => let sign := if Nat.odd (order / 2) then nofZ K (-1) else nofZ K 1 in
         let sc := if Nat.odd order then ncos K ph else nsin K ph in
         let wn := npow w order in
         nmul K (nmul K (nmul K sign a) wn) sc
  end.

(** *** Function_::Step : parameters (y0,y1,x0,x1), precalculated yr, zero, ooxr, sign *)
Definition nsign (x : T) : T :=               (* SimTK::sign(double): x>0 ? 1 : (x<0 ? -1 : 0) *)
  if nltb K (nofZ K 0) x then nofZ K 1 else if nltb K x (nofZ K 0) then nofZ K (-1) else nofZ K 0.
Definition step_ok (x0 x1 : T) : bool := orb (nltb K x0 x1) (nltb K x1 x0).   (* x0 != x1 else setParameters throws *)
Definition step_yr (y0 y1 : T) : T := nsub K y1 y0.
Definition step_ooxr (x0 x1 : T) : T := ndiv K (nofZ K 1) (nsub K x1 x0).
Definition step_value (y0 y1 x0 x1 x : T) : T :=
  let yr := step_yr y0 y1 in let ooxr := step_ooxr x0 x1 in let sg := nsign ooxr in
  if nleb K (nmul K (nsub K x x0) sg) (nofZ K 0) then y0
  else if nleb K (nofZ K 0) (nmul K (nsub K x x1) sg) then y1
  else let f := k_stepAny K (nofZ K 0) (nofZ K 1) x0 ooxr x in nadd K y0 (nmul K f yr).
(** None = the C++ throws (derivative order outside 1..3) *)
Definition step_deriv (y0 y1 x0 x1 : T) (order : nat) (x : T) : option T :=
  let yr := step_yr y0 y1 in let ooxr := step_ooxr x0 x1 in let sg := nsign ooxr in
  let zero := nmul K (nofZ K 0) y0 in
  match order with
  | 1 | 2 | 3 =>
    if nleb K (nmul K (nsub K x x0) sg) (nofZ K 0) then Some zero
    else if nleb K (nofZ K 0) (nmul K (nsub K x x1) sg) then Some zero
    else match order with
         | 1 => Some (nmul K (k_dstepAny K (nofZ K 1) x0 ooxr x) yr)
         | 2 => Some (nmul K (k_d2stepAny K (nofZ K 1) x0 ooxr x) yr)
         | _ => Some (nmul K (k_d3stepAny K (nofZ K 1) x0 ooxr x) yr)
         end
  | _ => None
  end.
End Model.
