(** C41 proofs.  Smooth-step statements are over the definitions *generated from Scalar.h* (Gen/step_gen.v);
    Function-object statements are over the hand model C41_Model.v (tied by the correspondence run). *)
From Coq Require Import ZArith Reals Lra Lia Psatz List.
From Coquelicot Require Import Coquelicot.
Require Import Num Vec Tactics step_gen C41_Model.
Require stepf_gen.   (* the float overloads, translated separately (Gen/stepf_gen.v), same names: used qualified *)
Import ListNotations.
Local Open Scope R_scope.

Ltac sunf := cbv [k_stepUp k_dstepUp k_d2stepUp k_d3stepUp k_stepDown k_dstepDown k_d2stepDown k_d3stepDown
                  k_stepAny k_dstepAny k_d2stepAny k_d3stepAny]; vunf.

(** ** stepUp / stepDown: each reported derivative is the derivative of the previous one, at every real x *)
Lemma dstepUp_is_derive x : is_derive (k_stepUp ROps) x (k_dstepUp ROps x).
Proof. sunf. auto_derive; [exact I | ring]. Qed.
Lemma d2stepUp_is_derive x : is_derive (k_dstepUp ROps) x (k_d2stepUp ROps x).
Proof. sunf. auto_derive; [exact I | ring]. Qed.
Lemma d3stepUp_is_derive x : is_derive (k_d2stepUp ROps) x (k_d3stepUp ROps x).
Proof. sunf. auto_derive; [exact I | ring]. Qed.
Lemma dstepDown_is_derive x : is_derive (k_stepDown ROps) x (k_dstepDown ROps x).
Proof. sunf. auto_derive; [exact I | ring]. Qed.
Lemma d2stepDown_is_derive x : is_derive (k_dstepDown ROps) x (k_d2stepDown ROps x).
Proof. sunf. auto_derive; [exact I | ring]. Qed.
Lemma d3stepDown_is_derive x : is_derive (k_d2stepDown ROps) x (k_d3stepDown ROps x).
Proof. sunf. auto_derive; [exact I | ring]. Qed.

(** ** end values; first and second derivatives vanish at both ends (C2 joins with the constant pieces) *)
Lemma step_end_values :
  k_stepUp ROps 0 = 0 /\ k_stepUp ROps 1 = 1 /\ k_stepDown ROps 0 = 1 /\ k_stepDown ROps 1 = 0.
Proof. sunf. repeat split; ring. Qed.
Lemma step_C2_at_ends :
  k_dstepUp ROps 0 = 0 /\ k_dstepUp ROps 1 = 0 /\ k_d2stepUp ROps 0 = 0 /\ k_d2stepUp ROps 1 = 0 /\
  k_dstepDown ROps 0 = 0 /\ k_dstepDown ROps 1 = 0 /\ k_d2stepDown ROps 0 = 0 /\ k_d2stepDown ROps 1 = 0.
Proof. sunf. repeat split; ring. Qed.
(** the third derivative does NOT vanish at the ends: the joins are C2 and not C3 *)
Lemma step_d3_jump_at_ends : k_d3stepUp ROps 0 = 60 /\ k_d3stepUp ROps 1 = 60.
Proof. sunf. split; ring. Qed.

(** ** monotonicity: dstepUp = 30 (x(x-1))^2 >= 0 everywhere, > 0 strictly inside (0,1) *)
Lemma dstepUp_factor x : k_dstepUp ROps x = 30 * (x * (x - 1)) * (x * (x - 1)).
Proof. sunf. ring. Qed.
Lemma dstepUp_nonneg x : 0 <= k_dstepUp ROps x.
Proof. rewrite dstepUp_factor. generalize (Rle_0_sqr (x * (x - 1))); unfold Rsqr; lra. Qed.
Lemma dstepUp_pos x : 0 < x < 1 -> 0 < k_dstepUp ROps x.
Proof. intros [H0 H1]. rewrite dstepUp_factor.
  assert (x * (x - 1) < 0) by nra. nra. Qed.

Lemma mvt_is_derive (f f' : R -> R) a b : a < b -> (forall c, is_derive f c (f' c)) ->
  exists c, f b - f a = f' c * (b - a) /\ a < c < b.
Proof. intros Hab Hd. apply MVT_cor2; auto. intros c _. apply is_derive_Reals, Hd. Qed.

Lemma stepUp_monotone a b : a <= b -> k_stepUp ROps a <= k_stepUp ROps b.
Proof. intros [Hab | ->]; [| lra].
  destruct (mvt_is_derive (k_stepUp ROps) (k_dstepUp ROps) a b Hab dstepUp_is_derive) as [c [Hc _]].
  generalize (dstepUp_nonneg c); nra. Qed.
Lemma stepUp_strictly_monotone a b : 0 <= a -> a < b -> b <= 1 -> k_stepUp ROps a < k_stepUp ROps b.
Proof. intros H0 Hab H1.
  destruct (mvt_is_derive (k_stepUp ROps) (k_dstepUp ROps) a b Hab dstepUp_is_derive) as [c [Hc Hcc]].
  assert (0 < k_dstepUp ROps c) by (apply dstepUp_pos; lra). nra. Qed.
Lemma stepUp_range x : 0 <= x <= 1 -> 0 <= k_stepUp ROps x <= 1.
Proof. intros [H0 H1]. destruct step_end_values as [E0 [E1 _]].
  split; [rewrite <- E0 | rewrite <- E1]; apply stepUp_monotone; lra. Qed.
Lemma stepDown_antitone a b : a <= b -> k_stepDown ROps b <= k_stepDown ROps a.
Proof. intros H. generalize (stepUp_monotone a b H). sunf. lra. Qed.
Lemma stepDown_is_mirror x : k_stepDown ROps x = k_stepUp ROps (1 - x).
Proof. sunf. ring. Qed.

(** ** stepAny and its derivatives are the affine reparametrisation of stepUp on the clamped argument *)
Definition clamp01 (u : R) : R := if Rlt_dec u 0 then 0 else if Rlt_dec 1 u then 1 else u.
Lemma clamp_model u : (if Rltb u (IZR 0) then IZR 0 else if Rltb (IZR 1) u then IZR 1 else u) = clamp01 u.
Proof. unfold clamp01, Rltb. destruct (Rlt_dec u 0); auto. destruct (Rlt_dec 1 u); auto. Qed.
Lemma stepAny_affine_reparam y0 yr x0 oox x :
  k_stepAny ROps y0 yr x0 oox x = y0 + yr * k_stepUp ROps (clamp01 ((x - x0) * oox)).
Proof. cbv [k_stepAny]. cbv [ROps nltb nofZ nadd nmul nsub]. rewrite clamp_model. reflexivity. Qed.
Lemma dstepAny_affine_reparam yr x0 oox x :
  k_dstepAny ROps yr x0 oox x = yr * oox * k_dstepUp ROps (clamp01 ((x - x0) * oox)).
Proof. cbv [k_dstepAny]. cbv [ROps nltb nofZ nadd nmul nsub]. rewrite clamp_model. reflexivity. Qed.
Lemma d2stepAny_affine_reparam yr x0 oox x :
  k_d2stepAny ROps yr x0 oox x = yr * (oox * oox) * k_d2stepUp ROps (clamp01 ((x - x0) * oox)).
Proof. cbv [k_d2stepAny]. cbv [ROps nltb nofZ nadd nmul nsub]. rewrite clamp_model. reflexivity. Qed.
Lemma d3stepAny_affine_reparam yr x0 oox x :
  k_d3stepAny ROps yr x0 oox x = yr * (oox * (oox * oox)) * k_d3stepUp ROps (clamp01 ((x - x0) * oox)).
Proof. cbv [k_d3stepAny]. cbv [ROps nltb nofZ nadd nmul nsub]. rewrite clamp_model. reflexivity. Qed.

Lemma clamp01_id u : 0 <= u <= 1 -> clamp01 u = u.
Proof. intros [H0 H1]. unfold clamp01. destruct (Rlt_dec u 0); [lra|]. destruct (Rlt_dec 1 u); lra. Qed.
Lemma clamp01_lo u : u <= 0 -> clamp01 u = 0.
Proof. intros H. unfold clamp01. destruct (Rlt_dec u 0); [lra|]. destruct (Rlt_dec 1 u); lra. Qed.
Lemma clamp01_hi u : 1 <= u -> clamp01 u = 1.
Proof. intros H. unfold clamp01. destruct (Rlt_dec u 0); [lra|]. destruct (Rlt_dec 1 u); lra. Qed.
Lemma clamp01_monotone u v : u <= v -> clamp01 u <= clamp01 v.
Proof. intros H. unfold clamp01. destruct (Rlt_dec u 0), (Rlt_dec v 0), (Rlt_dec 1 u), (Rlt_dec 1 v); lra. Qed.

(** end values of stepAny: y0 at and before x0, y0+yRange at and after x1 (oneOverXRange = 1/(x1-x0), either order) *)
Lemma stepAny_end_values y0 yr x0 x1 x : x0 <> x1 ->
  ((x - x0) / (x1 - x0) <= 0 -> k_stepAny ROps y0 yr x0 (1 / (x1 - x0)) x = y0) /\
  (1 <= (x - x0) / (x1 - x0) -> k_stepAny ROps y0 yr x0 (1 / (x1 - x0)) x = y0 + yr) /\
  k_stepAny ROps y0 yr x0 (1 / (x1 - x0)) x0 = y0 /\ k_stepAny ROps y0 yr x0 (1 / (x1 - x0)) x1 = y0 + yr.
Proof. intros Hne. assert (Hd : x1 - x0 <> 0) by lra. destruct step_end_values as [E0 [E1 _]].
  repeat split; intros; rewrite stepAny_affine_reparam.
  - rewrite clamp01_lo, E0; [ring | unfold Rdiv in *; lra].
  - rewrite clamp01_hi, E1; [ring | unfold Rdiv in *; lra].
  - replace ((x0 - x0) * (1 / (x1 - x0))) with 0 by (field; auto). rewrite clamp01_lo, E0; [ring | lra].
  - replace ((x1 - x0) * (1 / (x1 - x0))) with 1 by (field; auto). rewrite clamp01_hi, E1; [ring | lra].
Qed.
(** stepAny moves monotonically from y0 to y0+yRange when yRange and oneOverXRange have the same sign *)
Lemma stepAny_monotone y0 yr x0 oox a b : 0 <= yr -> 0 <= oox -> a <= b ->
  k_stepAny ROps y0 yr x0 oox a <= k_stepAny ROps y0 yr x0 oox b.
Proof. intros Hy Ho Hab. rewrite !stepAny_affine_reparam.
  assert (k_stepUp ROps (clamp01 ((a - x0) * oox)) <= k_stepUp ROps (clamp01 ((b - x0) * oox))).
  { apply stepUp_monotone, clamp01_monotone. nra. }
  nra. Qed.
Lemma stepAny_range y0 yr x0 oox x : 0 <= yr -> y0 <= k_stepAny ROps y0 yr x0 oox x <= y0 + yr.
Proof. intros Hy. rewrite stepAny_affine_reparam.
  assert (0 <= clamp01 ((x - x0) * oox) <= 1).
  { unfold clamp01. destruct (Rlt_dec _ 0); [lra|]. destruct (Rlt_dec 1 _); lra. }
  generalize (stepUp_range _ H). nra. Qed.

(** gluing two differentiable pieces at a point where values and derivatives agree *)
Lemma is_derive_glue (f g h : R -> R) a l :
  locally a (fun y => y <= a -> f y = g y) -> locally a (fun y => a <= y -> f y = h y) ->
  is_derive g a l -> is_derive h a l -> is_derive f a l.
Proof.
  intros Hg Hh [_ Dg] [_ Dh]. split. apply is_linear_scal_l.
  intros x Hx eps. pose proof (is_filter_lim_locally_unique _ _ Hx) as Hxa. subst x.
  specialize (Dg a (fun P H => H) eps). specialize (Dh a (fun P H => H) eps).
  assert (Ega : f a = g a) by (apply (locally_singleton _ _ Hg); lra).
  assert (Eha : f a = h a) by (apply (locally_singleton _ _ Hh); lra).
  generalize (filter_and _ _ (filter_and _ _ Hg Hh) (filter_and _ _ Dg Dh)). apply filter_imp.
  intros y [[E1 E2] [B1 B2]].
  destruct (Rle_dec y a) as [Hy | Hy].
  - rewrite (E1 Hy), Ega. exact B1.
  - assert (Hy' : a <= y) by lra. rewrite (E2 Hy'), Eha. exact B2.
Qed.

(** a differentiable p whose derivative vanishes at 0 and 1, composed with the clamp, is differentiable everywhere *)
Lemma clamped_derive (p p' : R -> R) : (forall u, is_derive p u (p' u)) -> p' 0 = 0 -> p' 1 = 0 ->
  forall u, is_derive (fun v => p (clamp01 v)) u (p' (clamp01 u)).
Proof.
  intros Hp H0 H1 u.
  destruct (Rlt_dec u 0) as [Hu0 | Hu0].
  { rewrite (clamp01_lo u) by lra. rewrite H0.
    apply is_derive_ext_loc with (f := fun _ => p 0); [| apply @is_derive_const].
    exists (mkposreal (- u) ltac:(lra)). intros y Hy. simpl in Hy. unfold ball in Hy; simpl in Hy. unfold AbsRing_ball, abs, minus, plus, opp in Hy; simpl in Hy.
    rewrite clamp01_lo; auto. apply Rabs_def2 in Hy. lra. }
  destruct (Rlt_dec 1 u) as [Hu1 | Hu1].
  { rewrite (clamp01_hi u) by lra. rewrite H1.
    apply is_derive_ext_loc with (f := fun _ => p 1); [| apply @is_derive_const].
    exists (mkposreal (u - 1) ltac:(lra)). intros y Hy. unfold ball in Hy; simpl in Hy. unfold AbsRing_ball, abs, minus, plus, opp in Hy; simpl in Hy.
    rewrite clamp01_hi; auto. apply Rabs_def2 in Hy. lra. }
  destruct (Req_dec u 0) as [-> | Hn0].
  { rewrite clamp01_lo by lra. apply is_derive_glue with (g := fun _ => p 0) (h := p).
    - exists (mkposreal 1 Rlt_0_1). intros y _ Hy. rewrite clamp01_lo; auto.
    - exists (mkposreal 1 Rlt_0_1). intros y Hy Hy0. unfold ball in Hy; simpl in Hy. unfold AbsRing_ball, abs, minus, plus, opp in Hy; simpl in Hy.
      apply Rabs_def2 in Hy. rewrite clamp01_id; auto. lra.
    - rewrite H0. apply @is_derive_const.
    - apply Hp. }
  destruct (Req_dec u 1) as [-> | Hn1].
  { rewrite clamp01_hi by lra. apply is_derive_glue with (g := p) (h := fun _ => p 1).
    - exists (mkposreal 1 Rlt_0_1). intros y Hy Hy0. unfold ball in Hy; simpl in Hy. unfold AbsRing_ball, abs, minus, plus, opp in Hy; simpl in Hy.
      apply Rabs_def2 in Hy. rewrite clamp01_id; auto. lra.
    - exists (mkposreal 1 Rlt_0_1). intros y _ Hy. rewrite clamp01_hi; auto.
    - apply Hp.
    - rewrite H1. apply @is_derive_const. }
  assert (Hin : 0 < u < 1) by lra.
  rewrite (clamp01_id u) by lra.
  apply is_derive_ext_loc with (f := p); [| apply Hp].
  assert (Hd : 0 < Rmin u (1 - u)) by (apply Rmin_pos; lra).
  exists (mkposreal _ Hd). intros y Hy. unfold ball in Hy; simpl in Hy. unfold AbsRing_ball, abs, minus, plus, opp in Hy; simpl in Hy.
  apply Rabs_def2 in Hy. generalize (Rmin_l u (1-u)) (Rmin_r u (1-u)); intros. rewrite clamp01_id; auto. lra.
Qed.

Lemma clamped_derive_inside (p p' : R -> R) : (forall u, is_derive p u (p' u)) ->
  forall u, 0 < u < 1 -> is_derive (fun v => p (clamp01 v)) u (p' (clamp01 u)).
Proof.
  intros Hp u Hin. rewrite (clamp01_id u) by lra.
  apply is_derive_ext_loc with (f := p); [| apply Hp].
  assert (Hd : 0 < Rmin u (1 - u)) by (apply Rmin_pos; lra).
  exists (mkposreal _ Hd). intros y Hy. unfold ball in Hy; simpl in Hy. unfold AbsRing_ball, abs, minus, plus, opp in Hy; simpl in Hy.
  apply Rabs_def2 in Hy. generalize (Rmin_l u (1-u)) (Rmin_r u (1-u)); intros. rewrite clamp01_id; auto. lra.
Qed.

(** chain rule through the affine map x |-> (x-x0)*oox *)
Lemma affine_chain (F F' : R -> R) c k x0 oox x : is_derive F ((x - x0) * oox) (F' ((x - x0) * oox)) ->
  is_derive (fun t => c + k * F ((t - x0) * oox)) x (k * oox * F' ((x - x0) * oox)).
Proof.
  intros HF. auto_derive.
  - repeat split; auto. eexists; apply HF.
  - replace (Derive (fun x1 : R => F x1) ((x + - x0) * oox)) with (F' ((x - x0) * oox)); [ring|].
    symmetry. apply is_derive_unique. replace ((x + - x0) * oox) with ((x - x0) * oox) by ring. exact HF.
Qed.

Lemma dstepAny_is_derive y0 yr x0 oox x :
  is_derive (fun t => k_stepAny ROps y0 yr x0 oox t) x (k_dstepAny ROps yr x0 oox x).
Proof.
  rewrite dstepAny_affine_reparam.
  apply is_derive_ext with (f := fun t => y0 + yr * (fun v => k_stepUp ROps (clamp01 v)) ((t - x0) * oox)).
  { intros t. rewrite stepAny_affine_reparam. reflexivity. }
  apply (affine_chain (fun v => k_stepUp ROps (clamp01 v)) (fun v => k_dstepUp ROps (clamp01 v))).
  destruct step_C2_at_ends as [A [B _]].
  apply (clamped_derive (k_stepUp ROps) (k_dstepUp ROps) dstepUp_is_derive A B).
Qed.
Lemma d2stepAny_is_derive yr x0 oox x :
  is_derive (fun t => k_dstepAny ROps yr x0 oox t) x (k_d2stepAny ROps yr x0 oox x).
Proof.
  rewrite d2stepAny_affine_reparam.
  apply is_derive_ext with (f := fun t => 0 + (yr * oox) * (fun v => k_dstepUp ROps (clamp01 v)) ((t - x0) * oox)).
  { intros t. rewrite dstepAny_affine_reparam. cbv beta. apply Rplus_0_l. }
  replace (yr * (oox * oox)) with (yr * oox * oox) by ring.
  apply (affine_chain (fun v => k_dstepUp ROps (clamp01 v)) (fun v => k_d2stepUp ROps (clamp01 v))).
  destruct step_C2_at_ends as [_ [_ [A [B _]]]].
  apply (clamped_derive (k_dstepUp ROps) (k_d2stepUp ROps) d2stepUp_is_derive A B).
Qed.
(** third derivative: strictly inside the transition only (it jumps at the ends, see step_d3_jump_at_ends) *)
Lemma d3stepAny_is_derive_inside yr x0 oox x : 0 < (x - x0) * oox < 1 ->
  is_derive (fun t => k_d2stepAny ROps yr x0 oox t) x (k_d3stepAny ROps yr x0 oox x).
Proof.
  intros Hin. rewrite d3stepAny_affine_reparam.
  apply is_derive_ext with (f := fun t => 0 + (yr * (oox * oox)) * (fun v => k_d2stepUp ROps (clamp01 v)) ((t - x0) * oox)).
  { intros t. rewrite d2stepAny_affine_reparam. cbv beta. apply Rplus_0_l. }
  replace (yr * (oox * (oox * oox))) with (yr * (oox * oox) * oox) by ring.
  apply (affine_chain (fun v => k_d2stepUp ROps (clamp01 v)) (fun v => k_d3stepUp ROps (clamp01 v))).
  apply (clamped_derive_inside (k_d2stepUp ROps) (k_d3stepUp ROps) d3stepUp_is_derive _ Hin).
Qed.

(** the second derivative is continuous everywhere: stepAny is twice continuously differentiable on all of R *)
Lemma clamp01_abs u : clamp01 u = (1 + Rabs u - Rabs (u - 1)) / 2.
Proof. unfold clamp01. destruct (Rlt_dec u 0); [| destruct (Rlt_dec 1 u)].
  - rewrite !Rabs_left by lra. lra.
  - rewrite !Rabs_right by lra. lra.
  - rewrite (Rabs_right u) by lra. destruct (Req_dec u 1) as [-> | Hn].
    + replace (1 - 1) with 0 by ring. rewrite Rabs_R0. lra.
    + rewrite (Rabs_left (u - 1)) by lra. lra.
Qed.
Lemma clamp01_continuous u : continuous clamp01 u.
Proof.
  apply continuous_ext with (f := fun u => (1 + Rabs u - Rabs (u - 1)) * / 2).
  { intros v. symmetry. apply clamp01_abs. }
  apply (continuous_mult (fun u => 1 + Rabs u - Rabs (u - 1)) (fun _ => / 2)); [| apply continuous_const].
  apply (continuous_minus (fun u => 1 + Rabs u) (fun u => Rabs (u - 1))).
  - apply (continuous_plus (fun _ => 1) (fun u => Rabs u)); [apply continuous_const | apply continuous_Rabs].
  - apply continuous_Rabs_comp. apply (continuous_minus (fun u => u) (fun _ => 1)); [apply continuous_id | apply continuous_const].
Qed.
Lemma d2stepAny_continuous yr x0 oox x : continuous (fun t => k_d2stepAny ROps yr x0 oox t) x.
Proof.
  apply continuous_ext with (f := fun t => (yr * (oox * oox)) * k_d2stepUp ROps (clamp01 ((t - x0) * oox))).
  { intros t. symmetry. apply d2stepAny_affine_reparam. }
  apply (continuous_mult (fun _ => yr * (oox * oox)) (fun t => k_d2stepUp ROps (clamp01 ((t - x0) * oox)))); [apply continuous_const|].
  apply (continuous_comp (fun t => clamp01 ((t - x0) * oox)) (k_d2stepUp ROps)).
  - apply (continuous_comp (fun t => (t - x0) * oox) clamp01); [| apply clamp01_continuous].
    apply (continuous_mult (fun t => t - x0) (fun _ => oox)); [| apply continuous_const].
    apply (continuous_minus (fun t => t) (fun _ => x0)); [apply continuous_id | apply continuous_const].
  - apply (ex_derive_continuous (k_d2stepUp ROps)). eexists. apply d3stepUp_is_derive.
Qed.

(** ** a family closed under differentiation gives all higher derivatives *)
Lemma family_Derive_n (G : nat -> R -> R) : (forall n x, is_derive (G n) x (G (S n) x)) ->
  forall n x, Derive_n (G 0%nat) n x = G n x.
Proof. intros HG. induction n; intros x; simpl; auto.
  rewrite (Derive_ext _ (G n)) by apply IHn. apply is_derive_unique, HG. Qed.
Lemma family_is_derive_n (G : nat -> R -> R) : (forall n x, is_derive (G n) x (G (S n) x)) ->
  forall n x, is_derive_n (G 0%nat) n x (G n x).
Proof. intros HG n x. destruct n; simpl; auto.
  apply is_derive_ext with (f := G n); [| apply HG].
  intros t. symmetry. apply family_Derive_n, HG. Qed.

(** ** Polynomial *)
Fixpoint ffZ (m : Z) (k : nat) : R := match k with O => 1 | S k' => IZR m * ffZ (m - 1) k' end.
Fixpoint pd (k : nat) (cs : list R) (x : R) : R :=
  match cs with [] => 0 | c :: cs' => c * ffZ (Z.of_nat (length cs')) k * x ^ (length cs' - k) + pd k cs' x end.

Lemma falling_spec c m k : falling ROps c m k = c * ffZ m k.
Proof. revert c m. induction k; intros c m; simpl; [ring|]. rewrite IHk. ring. Qed.
Lemma ffZ_tail m k : ffZ m (S k) = ffZ m k * IZR (m - Z.of_nat k).
Proof. revert m. induction k; intros m.
  - simpl. rewrite Z.sub_0_r. ring.
  - change (ffZ m (S (S k))) with (IZR m * ffZ (m - 1) (S k)). rewrite IHk.
    change (ffZ m (S k)) with (IZR m * ffZ (m - 1) k).
    replace (m - 1 - Z.of_nat k)%Z with (m - Z.of_nat (S k))%Z by lia. ring. Qed.
Lemma ffZ_zero m k : (m < k)%nat -> ffZ (Z.of_nat m) k = 0.
Proof. revert m. induction k; intros m H; [lia|]. simpl ffZ. destruct m.
  - simpl. ring.
  - replace (Z.of_nat (S m) - 1)%Z with (Z.of_nat m) by lia. rewrite IHk by lia. ring. Qed.
Lemma pd_zero k cs x : (length cs <= k)%nat -> pd k cs x = 0.
Proof. induction cs; intros H; simpl in *; auto. rewrite ffZ_zero by lia. rewrite IHcs by lia. ring. Qed.

Lemma horner_spec acc cs x : horner ROps acc cs x = acc * x ^ (length cs) + pd 0 cs x.
Proof. revert acc. induction cs; intros acc; simpl; [ring|]. rewrite IHcs. rewrite Nat.sub_0_r. ring. Qed.
Lemma poly_value_spec cs x : poly_value ROps cs x = pd 0 cs x.
Proof. unfold poly_value. rewrite horner_spec. simpl. ring. Qed.
Lemma pderiv_loop_spec cs : forall acc cnt k x, (cnt + k = length cs)%nat ->
  pderiv_loop ROps acc cs (Z.of_nat (length cs) - 1) k cnt x = acc * x ^ cnt + pd k cs x.
Proof. induction cs as [| c cs' IH]; intros acc cnt k x H.
  - simpl in H. assert (cnt = 0%nat) by lia. subst. simpl. ring.
  - destruct cnt as [| cnt'].
    + simpl pderiv_loop. rewrite pd_zero by (simpl in *; lia). simpl. ring.
    + simpl in H. cbn [pderiv_loop].
      replace (Z.of_nat (length (c :: cs')) - 1)%Z with (Z.of_nat (length cs')) by (simpl length; lia).
      rewrite IH by lia. rewrite falling_spec. cbn [pd]. replace (length cs' - k)%nat with cnt' by lia.
      simpl. ring. Qed.
Lemma poly_deriv_spec cs k x : poly_deriv ROps cs k x = pd k cs x.
Proof. unfold poly_deriv. destruct (le_lt_dec k (length cs)) as [H | H].
  - rewrite pderiv_loop_spec by lia. simpl. ring.
  - replace (length cs - k)%nat with 0%nat by lia. rewrite pd_zero by lia. destruct cs; reflexivity. Qed.

Lemma pd_is_derive cs k x : is_derive (pd k cs) x (pd (S k) cs x).
Proof. induction cs as [| c cs' IH].
  - simpl. apply @is_derive_const.
  - cbn [pd]. apply (is_derive_plus (fun x => c * ffZ (Z.of_nat (length cs')) k * x ^ (length cs' - k)) (pd k cs')); [| exact IH].
    set (m := length cs'). auto_derive; [exact I|].
    rewrite ffZ_tail. replace (pred (m - k)) with (m - S k)%nat by lia.
    destruct (le_lt_dec k m) as [H | H].
    + rewrite INR_IZR_INZ, Nat2Z.inj_sub by lia. ring.
    + replace (m - k)%nat with 0%nat by lia. rewrite ffZ_zero by lia. simpl. ring. Qed.

(** calcDerivative of order k (any k, including k > degree) is the k-th derivative of calcValue, for every
    coefficient list and every x *)
Lemma Polynomial_deriv_every_order cs k x :
  is_derive_n (poly_value ROps cs) k x (poly_deriv ROps cs k x).
Proof. rewrite poly_deriv_spec.
  apply is_derive_n_ext with (f := pd 0 cs). { intros t. symmetry. apply poly_value_spec. }
  apply (family_is_derive_n (fun k => pd k cs)). intros n t. apply pd_is_derive. Qed.
Lemma Polynomial_value_is_sum cs x : poly_value ROps cs x = pd 0 cs x.
Proof. apply poly_value_spec. Qed.

(** ** Sinusoid: a*sin(w t + p); the n-th derivative is a w^n sin(w t + p + n pi/2) *)
Definition sinG (a w p : R) (n : nat) (t : R) : R := a * w ^ n * sin (w * t + p + INR n * (PI / 2)).
Lemma npow_spec w n : npow ROps w n = w ^ n.
Proof. induction n; simpl; [reflexivity|]. rewrite IHn. reflexivity. Qed.
Lemma sign_sc_phase th : forall n,
  ((if Nat.odd (n / 2) then -1 else 1) * (if Nat.odd n then cos th else sin th) = sin (th + INR n * (PI / 2))) /\
  ((if Nat.odd (S n / 2) then -1 else 1) * (if Nat.odd (S n) then cos th else sin th) = sin (th + INR (S n) * (PI / 2))).
Proof. induction n.
  - split; simpl.
    + rewrite Rmult_0_l, Rplus_0_r. ring.
    + rewrite !Rmult_1_l. rewrite sin_plus, cos_PI2, sin_PI2. ring.
  - destruct IHn as [A B]. split; [exact B|].
    assert (E : (S (S n) / 2 = S (n / 2))%nat).
    { replace (S (S n)) with (1 * 2 + n)%nat by lia. rewrite Nat.div_add_l by lia. lia. }
    rewrite E.
    rewrite Nat.odd_succ, <- Nat.negb_odd. change (Nat.odd (S (S n))) with (Nat.odd n).
    replace (th + INR (S (S n)) * (PI / 2)) with ((th + INR n * (PI / 2)) + PI) by (rewrite !S_INR; field).
    rewrite neg_sin, <- A. destruct (Nat.odd (n / 2)); simpl; ring. Qed.
Lemma sin_deriv_closed a w p n t : sin_deriv ROps a w p n t = sinG a w p n t.
Proof. unfold sinG. destruct (sign_sc_phase (w * t + p) n) as [A _]. rewrite <- A.
  destruct n as [| [| [| [| n]]]]; try (simpl; ring).
  cbv [sin_deriv]. rewrite npow_spec. cbv [ROps nmul nadd nofZ nsin ncos].
  destruct (Nat.odd (S (S (S (S n))) / 2)), (Nat.odd (S (S (S (S n))))); ring. Qed.
Lemma sinG_is_derive a w p n t : is_derive (sinG a w p n) t (sinG a w p (S n) t).
Proof. unfold sinG. auto_derive; [exact I|].
  replace (w * t + p + INR (S n) * (PI / 2)) with ((w * t + p + INR n * (PI / 2)) + PI / 2) by (rewrite S_INR; field).
  rewrite (sin_plus _ (PI / 2)), cos_PI2, sin_PI2. simpl. ring. Qed.
Lemma Sinusoid_deriv_every_order a w p n t :
  is_derive_n (sin_value ROps a w p) n t (sin_deriv ROps a w p n t).
Proof. rewrite sin_deriv_closed.
  apply is_derive_n_ext with (f := sinG a w p 0).
  { intros x. unfold sinG, sin_value. cbv [ROps nmul nadd nsin]. simpl. rewrite Rmult_0_l, Rplus_0_r. ring. }
  apply (family_is_derive_n (sinG a w p)). intros k x. apply sinG_is_derive. Qed.

(** ** multi-argument functions: partial derivatives.  [upd i t x] replaces component i of the argument vector.
    [linF cs dc] is the function the object reports for the derivative-component list dc ([] = the value).
    The theorem says: adding a component i in front of dc differentiates with respect to x_i. *)
Fixpoint upd (i : nat) (t : R) (x : list R) : list R :=
  match x, i with
  | [], _ => []
  | _ :: xs, O => t :: xs
  | a :: xs, S i' => a :: upd i' t xs
  end.
Fixpoint dotp (xs cs : list R) : R :=
  match xs, cs with
  | x :: xs', c :: cs' => x * c + dotp xs' cs'
  | [], c :: _ => c
  | _, [] => 0
  end.
Lemma lin_loop_spec xs : forall acc cs, lin_loop ROps acc xs cs = acc + dotp xs cs.
Proof. induction xs as [| x xs IH]; intros acc cs; destruct cs as [| c cs]; simpl; try ring.
  rewrite IH. ring. Qed.
Lemma lin_value_spec cs x : lin_value ROps cs x = dotp x cs.
Proof. unfold lin_value. rewrite lin_loop_spec. simpl. ring. Qed.
Lemma dotp_upd xs : forall i t cs, (i < length xs)%nat -> (length xs < length cs)%nat ->
  dotp (upd i t xs) cs = dotp xs cs + (t - nth i xs 0) * nth i cs 0.
Proof. induction xs as [| x xs IH]; intros i t cs Hi Hl; simpl in Hi; [lia|].
  destruct cs as [| c cs]; simpl in Hl; [lia|]. destruct i; simpl.
  - ring.
  - rewrite IH by lia. ring. Qed.

Definition linF (cs : list R) (dc : list nat) (x : list R) : R :=
  match dc with [] => lin_value ROps cs x | _ => lin_deriv ROps cs dc x end.
Lemma Linear_partials cs dc i x : length cs = S (length x) -> (i < length x)%nat ->
  is_derive (fun t => linF cs dc (upd i t x)) (nth i x 0) (lin_deriv ROps cs (i :: dc) x).
Proof. intros Hl Hi. destruct dc as [| j [| j' dc]]; cbn [linF lin_deriv].
  - apply is_derive_ext with (f := fun t => dotp x cs + (t - nth i x 0) * nth i cs 0).
    { intros t. rewrite lin_value_spec, dotp_upd by lia. reflexivity. }
    auto_derive; [exact I|]. cbv [ROps nofZ]. ring.
  - apply @is_derive_const.
  - apply @is_derive_const. Qed.
(** the value is the affine form  sum_i c_i x_i + c_n *)
Lemma Linear_value_is_affine cs x : lin_value ROps cs x = dotp x cs.
Proof. apply lin_value_spec. Qed.

Definition constF (v : R) (dc : list nat) (x : list R) : R :=
  match dc with [] => const_value v x | _ => const_deriv ROps v dc x end.
Lemma Constant_partials v dc i x :
  is_derive (fun t => constF v dc (upd i t x)) (nth i x 0) (const_deriv ROps v (i :: dc) x).
Proof. destruct dc; cbv [constF const_value const_deriv ROps nofZ]; apply @is_derive_const. Qed.

(** ** Function_::Step object: consistent with stepAny (value and derivatives), C2 everywhere *)
Lemma nsign_pos x : 0 < x -> nsign ROps x = 1.
Proof. intros H. unfold nsign. cbv [ROps nltb nofZ]. unfold Rltb. destruct (Rlt_dec 0 x); [reflexivity | lra]. Qed.
Lemma nsign_neg x : x < 0 -> nsign ROps x = -1.
Proof. intros H. unfold nsign. cbv [ROps nltb nofZ]. unfold Rltb. destruct (Rlt_dec 0 x); [lra|]. destruct (Rlt_dec x 0); [reflexivity | lra]. Qed.

Definition scond1 (x0 x1 x : R) : bool :=
  nleb ROps (nmul ROps (nsub ROps x x0) (nsign ROps (step_ooxr ROps x0 x1))) (nofZ ROps 0).
Definition scond2 (x0 x1 x : R) : bool :=
  nleb ROps (nofZ ROps 0) (nmul ROps (nsub ROps x x1) (nsign ROps (step_ooxr ROps x0 x1))).
Lemma step_cases x0 x1 x : x0 <> x1 ->
  (scond1 x0 x1 x = true /\ (x - x0) * (1 / (x1 - x0)) <= 0) \/
  (scond1 x0 x1 x = false /\ scond2 x0 x1 x = true /\ 1 <= (x - x0) * (1 / (x1 - x0))) \/
  (scond1 x0 x1 x = false /\ scond2 x0 x1 x = false /\ 0 < (x - x0) * (1 / (x1 - x0)) < 1).
Proof. intros Hne. unfold scond1, scond2.
  change (step_ooxr ROps x0 x1) with (1 / (x1 - x0)). cbv [ROps nleb nmul nsub nofZ]. fold ROps.
  set (d := x1 - x0). assert (Hd : d <> 0) by (unfold d; lra).
  set (u := (x - x0) * (1 / d)). assert (Hu : u * d = x - x0) by (unfold u; field; auto).
  assert (Ho : (1 / d) * d = 1) by (field; auto).
  destruct (Rlt_dec 0 d) as [Hp | Hn].
  - assert (0 < 1 / d) by (apply Rdiv_lt_0_compat; lra). rewrite nsign_pos by auto.
    destruct (Rleb ((x - x0) * 1) 0) eqn:E1.
    + left. split; auto. apply Rleb_true in E1. nra.
    + right. apply Rleb_false in E1. destruct (Rleb 0 ((x - x1) * 1)) eqn:E2.
      * left. repeat split; auto. apply Rleb_true in E2. unfold d in *. nra.
      * right. repeat split; auto; apply Rleb_false in E2; unfold d in *; nra.
  - assert (Hn' : d < 0) by lra. assert (1 / d < 0).
    { unfold Rdiv. rewrite Rmult_1_l. apply Rinv_lt_0_compat; auto. }
    rewrite nsign_neg by auto.
    destruct (Rleb ((x - x0) * -1) 0) eqn:E1.
    + left. split; auto. apply Rleb_true in E1. nra.
    + right. apply Rleb_false in E1. destruct (Rleb 0 ((x - x1) * -1)) eqn:E2.
      * left. repeat split; auto. apply Rleb_true in E2. unfold d in *. nra.
      * right. repeat split; auto; apply Rleb_false in E2; unfold d in *; nra.
Qed.

Lemma Step_value_is_stepAny y0 y1 x0 x1 x : x0 <> x1 ->
  step_value ROps y0 y1 x0 x1 x = k_stepAny ROps y0 (y1 - y0) x0 (1 / (x1 - x0)) x.
Proof. intros Hne. destruct step_end_values as [E0 [E1 _]].
  unfold step_value. fold (scond1 x0 x1 x). fold (scond2 x0 x1 x).
  rewrite !stepAny_affine_reparam. change (step_ooxr ROps x0 x1) with (1 / (x1 - x0)).
  destruct (step_cases x0 x1 x Hne) as [[C1 U] | [[C1 [C2 U]] | [C1 [C2 U]]]]; rewrite C1; try rewrite C2.
  - rewrite clamp01_lo, E0 by auto. ring.
  - rewrite clamp01_hi, E1 by auto. ring.
  - cbv [step_yr ROps nadd nmul nsub nofZ]. ring.
Qed.

Lemma Step_deriv1_is_dstepAny y0 y1 x0 x1 x : x0 <> x1 ->
  step_deriv ROps y0 y1 x0 x1 1 x = Some (k_dstepAny ROps (y1 - y0) x0 (1 / (x1 - x0)) x).
Proof. intros Hne. destruct step_C2_at_ends as [A [B _]].
  unfold step_deriv. fold (scond1 x0 x1 x). fold (scond2 x0 x1 x).
  rewrite !dstepAny_affine_reparam. change (step_ooxr ROps x0 x1) with (1 / (x1 - x0)).
  destruct (step_cases x0 x1 x Hne) as [[C1 U] | [[C1 [C2 U]] | [C1 [C2 U]]]]; rewrite C1; try rewrite C2; f_equal.
  - rewrite clamp01_lo, A by auto. cbv [ROps nmul nofZ]. ring.
  - rewrite clamp01_hi, B by auto. cbv [ROps nmul nofZ]. ring.
  - cbv [step_yr ROps nadd nmul nsub nofZ]. ring.
Qed.
Lemma Step_deriv2_is_d2stepAny y0 y1 x0 x1 x : x0 <> x1 ->
  step_deriv ROps y0 y1 x0 x1 2 x = Some (k_d2stepAny ROps (y1 - y0) x0 (1 / (x1 - x0)) x).
Proof. intros Hne. destruct step_C2_at_ends as [_ [_ [A [B _]]]].
  unfold step_deriv. fold (scond1 x0 x1 x). fold (scond2 x0 x1 x).
  rewrite !d2stepAny_affine_reparam. change (step_ooxr ROps x0 x1) with (1 / (x1 - x0)).
  destruct (step_cases x0 x1 x Hne) as [[C1 U] | [[C1 [C2 U]] | [C1 [C2 U]]]]; rewrite C1; try rewrite C2; f_equal.
  - rewrite clamp01_lo, A by auto. cbv [ROps nmul nofZ]. ring.
  - rewrite clamp01_hi, B by auto. cbv [ROps nmul nofZ]. ring.
  - cbv [step_yr ROps nadd nmul nsub nofZ]. ring.
Qed.
(** third derivative: d3stepAny strictly inside the transition, zero at the ends and outside *)
Lemma Step_deriv3 y0 y1 x0 x1 x : x0 <> x1 ->
  step_deriv ROps y0 y1 x0 x1 3 x =
    Some (if Rlt_dec 0 ((x - x0) / (x1 - x0)) then if Rlt_dec ((x - x0) / (x1 - x0)) 1
          then k_d3stepAny ROps (y1 - y0) x0 (1 / (x1 - x0)) x else 0 else 0).
Proof. intros Hne.
  unfold step_deriv. fold (scond1 x0 x1 x). fold (scond2 x0 x1 x).
  rewrite !d3stepAny_affine_reparam. change (step_ooxr ROps x0 x1) with (1 / (x1 - x0)).
  replace ((x - x0) / (x1 - x0)) with ((x - x0) * (1 / (x1 - x0))) by (unfold Rdiv; ring).
  destruct (step_cases x0 x1 x Hne) as [[C1 U] | [[C1 [C2 U]] | [C1 [C2 U]]]]; rewrite C1; try rewrite C2; f_equal.
  - destruct (Rlt_dec 0 _); [lra|]. cbv [ROps nmul nofZ]. ring.
  - destruct (Rlt_dec 0 _); [| cbv [ROps nmul nofZ]; ring]. destruct (Rlt_dec _ 1); [lra|]. cbv [ROps nmul nofZ]. ring.
  - destruct (Rlt_dec 0 _); [| lra]. destruct (Rlt_dec _ 1); [| lra]. cbv [step_yr ROps nadd nmul nsub nofZ]. ring.
Qed.
Lemma Step_deriv_other_orders_throw y0 y1 x0 x1 k x : (k = 0 \/ 4 <= k)%nat -> step_deriv ROps y0 y1 x0 x1 k x = None.
Proof. intros [-> | H]; [reflexivity|]. do 4 (destruct k; [lia|]). reflexivity. Qed.

(** the reported value of order k as a total function of x (0 where the C++ throws) *)
Definition stepD (y0 y1 x0 x1 : R) (k : nat) (x : R) : R :=
  match step_deriv ROps y0 y1 x0 x1 k x with Some d => d | None => 0 end.

Lemma Step_deriv1_is_derive y0 y1 x0 x1 x : x0 <> x1 ->
  is_derive (step_value ROps y0 y1 x0 x1) x (stepD y0 y1 x0 x1 1 x).
Proof. intros Hne. unfold stepD. rewrite Step_deriv1_is_dstepAny by auto.
  apply is_derive_ext with (f := fun t => k_stepAny ROps y0 (y1 - y0) x0 (1 / (x1 - x0)) t).
  { intros t. symmetry. apply Step_value_is_stepAny; auto. }
  apply dstepAny_is_derive. Qed.
Lemma Step_deriv2_is_derive y0 y1 x0 x1 x : x0 <> x1 ->
  is_derive (stepD y0 y1 x0 x1 1) x (stepD y0 y1 x0 x1 2 x).
Proof. intros Hne. unfold stepD at 2. rewrite Step_deriv2_is_d2stepAny by auto.
  apply is_derive_ext with (f := fun t => k_dstepAny ROps (y1 - y0) x0 (1 / (x1 - x0)) t).
  { intros t. unfold stepD. rewrite Step_deriv1_is_dstepAny by auto. reflexivity. }
  apply d2stepAny_is_derive. Qed.
Lemma Step_deriv2_continuous y0 y1 x0 x1 x : x0 <> x1 -> continuous (stepD y0 y1 x0 x1 2) x.
Proof. intros Hne.
  apply continuous_ext with (f := fun t => k_d2stepAny ROps (y1 - y0) x0 (1 / (x1 - x0)) t).
  { intros t. unfold stepD. rewrite Step_deriv2_is_d2stepAny by auto. reflexivity. }
  apply d2stepAny_continuous. Qed.

Lemma clamped_derive_outside (p : R -> R) u : u < 0 \/ 1 < u -> is_derive (fun v => p (clamp01 v)) u 0.
Proof. intros [Hu | Hu].
  - apply is_derive_ext_loc with (f := fun _ => p 0); [| apply @is_derive_const].
    exists (mkposreal (- u) ltac:(lra)). intros y Hy. unfold ball in Hy; simpl in Hy. unfold AbsRing_ball, abs, minus, plus, opp in Hy; simpl in Hy.
    rewrite clamp01_lo; auto. apply Rabs_def2 in Hy. lra.
  - apply is_derive_ext_loc with (f := fun _ => p 1); [| apply @is_derive_const].
    exists (mkposreal (u - 1) ltac:(lra)). intros y Hy. unfold ball in Hy; simpl in Hy. unfold AbsRing_ball, abs, minus, plus, opp in Hy; simpl in Hy.
    rewrite clamp01_hi; auto. apply Rabs_def2 in Hy. lra.
Qed.
(** outside the transition the true third derivative is 0 (d3stepAny itself is only meaningful inside: the C++ asserts it) *)
Lemma d2stepAny_flat_outside yr x0 oox x : (x - x0) * oox < 0 \/ 1 < (x - x0) * oox ->
  is_derive (fun t => k_d2stepAny ROps yr x0 oox t) x 0.
Proof. intros Hout.
  apply is_derive_ext with (f := fun t => 0 + (yr * (oox * oox)) * (fun v => k_d2stepUp ROps (clamp01 v)) ((t - x0) * oox)).
  { intros t. rewrite d2stepAny_affine_reparam. cbv beta. apply Rplus_0_l. }
  assert (H : is_derive (fun t => 0 + (yr * (oox * oox)) * (fun v => k_d2stepUp ROps (clamp01 v)) ((t - x0) * oox)) x
                (yr * (oox * oox) * oox * (fun _ : R => 0) ((x - x0) * oox))).
  { apply (affine_chain (fun v => k_d2stepUp ROps (clamp01 v)) (fun _ => 0)). apply clamped_derive_outside; auto. }
  cbv beta in H. replace (yr * (oox * oox) * oox * 0) with 0 in H by ring. exact H. Qed.
Lemma Step_deriv3_is_derive y0 y1 x0 x1 x : x0 <> x1 -> x <> x0 -> x <> x1 ->
  is_derive (stepD y0 y1 x0 x1 2) x (stepD y0 y1 x0 x1 3 x).
Proof. intros Hne H0 H1. unfold stepD at 2. rewrite Step_deriv3 by auto.
  apply is_derive_ext with (f := fun t => k_d2stepAny ROps (y1 - y0) x0 (1 / (x1 - x0)) t).
  { intros t. unfold stepD. rewrite Step_deriv2_is_d2stepAny by auto. reflexivity. }
  assert (Hd : x1 - x0 <> 0) by lra.
  assert (E : (x - x0) / (x1 - x0) = (x - x0) * (1 / (x1 - x0))) by (unfold Rdiv; ring).
  assert (N0 : (x - x0) / (x1 - x0) <> 0).
  { intros Hz. apply H0. assert ((x - x0) / (x1 - x0) * (x1 - x0) = x - x0) by (field; auto). rewrite Hz in H. lra. }
  assert (N1 : (x - x0) / (x1 - x0) <> 1).
  { intros Hz. apply H1. assert ((x - x0) / (x1 - x0) * (x1 - x0) = x - x0) by (field; auto). rewrite Hz in H. lra. }
  destruct (Rlt_dec 0 _) as [Hp | Hp]; [destruct (Rlt_dec _ 1) as [Hq | Hq]|].
  - apply d3stepAny_is_derive_inside. rewrite <- E. lra.
  - apply d2stepAny_flat_outside. right. rewrite <- E. lra.
  - apply d2stepAny_flat_outside. left. rewrite <- E. lra.
Qed.

Lemma Step_end_values y0 y1 x0 x1 x : x0 <> x1 ->
  ((x - x0) / (x1 - x0) <= 0 -> step_value ROps y0 y1 x0 x1 x = y0) /\
  (1 <= (x - x0) / (x1 - x0) -> step_value ROps y0 y1 x0 x1 x = y1) /\
  step_value ROps y0 y1 x0 x1 x0 = y0 /\ step_value ROps y0 y1 x0 x1 x1 = y1.
Proof. intros Hne. destruct (stepAny_end_values y0 (y1 - y0) x0 x1 x Hne) as [A [B [C D]]].
  rewrite !Step_value_is_stepAny by auto. repeat split; intros.
  - apply A; auto.
  - rewrite B by auto. ring.
  - exact C.
  - rewrite D. ring. Qed.
Lemma Step_end_values_forward y0 y1 x0 x1 x : x0 < x1 ->
  (x <= x0 -> step_value ROps y0 y1 x0 x1 x = y0) /\ (x1 <= x -> step_value ROps y0 y1 x0 x1 x = y1).
Proof. intros Hlt. assert (Hne : x0 <> x1) by lra. destruct (Step_end_values y0 y1 x0 x1 x Hne) as [A [B _]].
  split; intros H; [apply A | apply B]; unfold Rdiv.
  - assert (0 < / (x1 - x0)) by (apply Rinv_0_lt_compat; lra). nra.
  - assert (0 < / (x1 - x0)) by (apply Rinv_0_lt_compat; lra).
    assert ((x1 - x0) * / (x1 - x0) = 1) by (field; lra). nra. Qed.
Lemma Step_end_values_reversed y0 y1 x0 x1 x : x1 < x0 ->
  (x0 <= x -> step_value ROps y0 y1 x0 x1 x = y0) /\ (x <= x1 -> step_value ROps y0 y1 x0 x1 x = y1).
Proof. intros Hlt. assert (Hne : x0 <> x1) by lra. destruct (Step_end_values y0 y1 x0 x1 x Hne) as [A [B _]].
  split; intros H; [apply A | apply B]; unfold Rdiv.
  - assert (/ (x1 - x0) < 0) by (apply Rinv_lt_0_compat; lra). nra.
  - assert (/ (x1 - x0) < 0) by (apply Rinv_lt_0_compat; lra).
    assert ((x1 - x0) * / (x1 - x0) = 1) by (field; lra). nra. Qed.
Lemma Step_monotone y0 y1 x0 x1 a b : x0 < x1 -> y0 <= y1 -> a <= b ->
  step_value ROps y0 y1 x0 x1 a <= step_value ROps y0 y1 x0 x1 b.
Proof. intros Hx Hy Hab. rewrite !Step_value_is_stepAny by lra.
  apply stepAny_monotone; try lra. apply Rlt_le, Rdiv_lt_0_compat; lra. Qed.
Lemma Step_range y0 y1 x0 x1 x : x0 <> x1 -> y0 <= y1 -> y0 <= step_value ROps y0 y1 x0 x1 x <= y1.
Proof. intros Hne Hy. rewrite Step_value_is_stepAny by auto.
  generalize (stepAny_range y0 (y1 - y0) x0 (1 / (x1 - x0)) x ltac:(lra)). lra. Qed.

(** ** the float overloads stepUp(float) ... d3stepAny(float,...) of Scalar.h translate to literally the same
    Gallina terms as the double overloads, so every theorem above holds for them as well (over R) *)
Lemma float_overloads_same_formulas T (K : NumOps T) :
  (forall x, stepf_gen.k_stepUp K x = k_stepUp K x) /\ (forall x, stepf_gen.k_dstepUp K x = k_dstepUp K x) /\
  (forall x, stepf_gen.k_d2stepUp K x = k_d2stepUp K x) /\ (forall x, stepf_gen.k_d3stepUp K x = k_d3stepUp K x) /\
  (forall x, stepf_gen.k_stepDown K x = k_stepDown K x) /\ (forall x, stepf_gen.k_dstepDown K x = k_dstepDown K x) /\
  (forall x, stepf_gen.k_d2stepDown K x = k_d2stepDown K x) /\ (forall x, stepf_gen.k_d3stepDown K x = k_d3stepDown K x) /\
  (forall y0 yr x0 oox x, stepf_gen.k_stepAny K y0 yr x0 oox x = k_stepAny K y0 yr x0 oox x) /\
  (forall yr x0 oox x, stepf_gen.k_dstepAny K yr x0 oox x = k_dstepAny K yr x0 oox x) /\
  (forall yr x0 oox x, stepf_gen.k_d2stepAny K yr x0 oox x = k_d2stepAny K yr x0 oox x) /\
  (forall yr x0 oox x, stepf_gen.k_d3stepAny K yr x0 oox x = k_d3stepAny K yr x0 oox x).
Proof. repeat split; intros; reflexivity. Qed.

(** ** summary.  PARTIAL with respect to the property text: the spline clauses of C41 ("interpolating splines pass through
    every control point with the continuity their degree promises"; Spline_/SplineFitter/GCVSPL) are NOT modelled and
    nothing is proved about them.  Everything else the property says is in this conjunction, at full strength over R. *)
Lemma self_consistent_partial :
  (forall cs k x, is_derive_n (poly_value ROps cs) k x (poly_deriv ROps cs k x)) /\
  (forall a w p n t, is_derive_n (sin_value ROps a w p) n t (sin_deriv ROps a w p n t)) /\
  (forall cs dc i x, length cs = S (length x) -> (i < length x)%nat ->
     is_derive (fun t => linF cs dc (upd i t x)) (nth i x 0) (lin_deriv ROps cs (i :: dc) x)) /\
  (forall v dc i x, is_derive (fun t => constF v dc (upd i t x)) (nth i x 0) (const_deriv ROps v (i :: dc) x)) /\
  (forall y0 y1 x0 x1 x, x0 <> x1 ->
     is_derive (step_value ROps y0 y1 x0 x1) x (stepD y0 y1 x0 x1 1 x) /\
     is_derive (stepD y0 y1 x0 x1 1) x (stepD y0 y1 x0 x1 2 x) /\
     continuous (stepD y0 y1 x0 x1 2) x /\
     (x <> x0 -> x <> x1 -> is_derive (stepD y0 y1 x0 x1 2) x (stepD y0 y1 x0 x1 3 x))) /\
  (forall y0 y1 x0 x1 a b, x0 < x1 -> y0 <= y1 -> a <= b ->
     step_value ROps y0 y1 x0 x1 a <= step_value ROps y0 y1 x0 x1 b) /\
  (forall y0 y1 x0 x1 x, x0 <> x1 ->
     ((x - x0) / (x1 - x0) <= 0 -> step_value ROps y0 y1 x0 x1 x = y0) /\
     (1 <= (x - x0) / (x1 - x0) -> step_value ROps y0 y1 x0 x1 x = y1)) /\
  (forall a b, a <= b -> k_stepUp ROps a <= k_stepUp ROps b) /\
  (forall y0 yr x0 oox x, is_derive (fun t => k_stepAny ROps y0 yr x0 oox t) x (k_dstepAny ROps yr x0 oox x) /\
     is_derive (fun t => k_dstepAny ROps yr x0 oox t) x (k_d2stepAny ROps yr x0 oox x) /\
     continuous (fun t => k_d2stepAny ROps yr x0 oox t) x).
Proof.
  Ltac csplit := repeat match goal with |- _ /\ _ => split end.
  csplit.
  - apply Polynomial_deriv_every_order.
  - apply Sinusoid_deriv_every_order.
  - intros; apply Linear_partials; auto.
  - apply Constant_partials.
  - intros y0 y1 x0 x1 x Hne. csplit.
    + apply Step_deriv1_is_derive; auto.
    + apply Step_deriv2_is_derive; auto.
    + apply Step_deriv2_continuous; auto.
    + intros; apply Step_deriv3_is_derive; auto.
  - intros; apply Step_monotone; auto.
  - intros y0 y1 x0 x1 x Hne. csplit; intros; apply Step_end_values; auto.
  - apply stepUp_monotone.
  - intros. csplit.
    + apply dstepAny_is_derive.
    + apply d2stepAny_is_derive.
    + apply d2stepAny_continuous.
Qed.

(** ** non-vacuity / sanity: concrete instances *)
Example ex_stepUp_half : k_stepUp ROps (1 / 2) = 1 / 2 /\ k_dstepUp ROps (1 / 2) = 15 / 8.
Proof. sunf. split; field. Qed.
Example ex_poly : poly_value ROps [1; 2; 3] 2 = 11 /\ poly_deriv ROps [1; 2; 3] 1 2 = 6 /\
                  poly_deriv ROps [1; 2; 3] 2 2 = 2 /\ poly_deriv ROps [1; 2; 3] 3 2 = 0.
Proof. cbv [poly_value poly_deriv horner pderiv_loop falling length Nat.sub Z.of_nat Pos.of_succ_nat Pos.succ Z.sub Z.add Z.opp Z.pos_sub Z.pred_double Pos.pred_double]; vunf. repeat split; ring. Qed.
Example ex_linear : lin_value ROps [2; 3; 5] [1; 1] = 10 /\ lin_deriv ROps [2; 3; 5] [1%nat] [1; 1] = 3.
Proof. cbv [lin_value lin_loop lin_deriv nth]; vunf. split; ring. Qed.
Example ex_step_mid : step_value ROps 1 3 0 2 1 = 2 /\ step_value ROps 1 3 2 0 1 = 2.
Proof. rewrite !Step_value_is_stepAny by lra. rewrite !stepAny_affine_reparam.
  replace ((1 - 0) * (1 / (2 - 0))) with (1 / 2) by field. replace ((1 - 2) * (1 / (0 - 2))) with (1 / 2) by field.
  rewrite clamp01_id by lra. destruct ex_stepUp_half as [E _]. rewrite E. split; field. Qed.
Example ex_sin_order5 t : sin_deriv ROps 2 3 0 5 t = 2 * 3 ^ 5 * cos (3 * t + 0).
Proof. cbv [sin_deriv npow Nat.odd Nat.div Nat.divmod fst negb Nat.even]; vunf. ring. Qed.
