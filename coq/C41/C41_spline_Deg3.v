(** C41 spline part, degree 3 (m = 2, cubic splines), theorems over the closed forms of C41_spline_Deg3Forms.v: for EVERY knot
    count n >= 4 and EVERY interval 1 <= l <= n-1 each reported derivative order is the derivative of the previous one on
    the polynomial piece, the pieces join C2 at every interior knot, and with the interval search the reported derivatives
    are the true derivatives strictly inside every knot interval. *)
From Coq Require Import ZArith Reals Lra Lia Psatz List Bool.
From Coquelicot Require Import Coquelicot.
Require Import Num Tactics C41_spline_Model C41_spline_Proofs C41_spline_Deg3Forms.
Local Open Scope Z_scope.

(** ** on every piece, order k+1 is the derivative of order k (k = 0,1,2), and order 3 is constant (order 4 = 0) *)
Ltac chain F0 F1 K := apply is_derive_ext with (f := proj1_sig F0); [ intros u; symmetry; apply (proj2_sig F0)
  | rewrite (proj2_sig F1); unf; auto_derive; [ exact I | field; nz K ] ].
Ltac chain3 F3 := apply is_derive_ext with (f := proj1_sig F3); [ intros u; symmetry; apply (proj2_sig F3)
  | rewrite order_above_degree_zero by lia; unf; auto_derive; [ exact I | ring ] ].
Lemma chain_D n l x c t (H0 : 3 <= l <= n - 3) : knots_increasing n x ->
  is_derive (fun t => splder_at ROps 0 2 n t x c l) t (splder_at ROps 1 2 n t x c l) /\
  is_derive (fun t => splder_at ROps 1 2 n t x c l) t (splder_at ROps 2 2 n t x c l) /\
  is_derive (fun t => splder_at ROps 2 2 n t x c l) t (splder_at ROps 3 2 n t x c l) /\
  is_derive (fun t => splder_at ROps 3 2 n t x c l) t (splder_at ROps 4 2 n t x c l).
Proof. intros K. split; [| split; [| split]].
  - chain (fD_0 n l x c H0) (fD_1 n l x c H0) K.
  - chain (fD_1 n l x c H0) (fD_2 n l x c H0) K.
  - chain (fD_2 n l x c H0) (fD_3 n l x c H0) K.
  - chain3 (fD_3 n l x c H0).
Qed.
Lemma chain_L1 n x c t (H0 : 4 <= n) : knots_increasing n x ->
  is_derive (fun t => splder_at ROps 0 2 n t x c 1) t (splder_at ROps 1 2 n t x c 1) /\
  is_derive (fun t => splder_at ROps 1 2 n t x c 1) t (splder_at ROps 2 2 n t x c 1) /\
  is_derive (fun t => splder_at ROps 2 2 n t x c 1) t (splder_at ROps 3 2 n t x c 1) /\
  is_derive (fun t => splder_at ROps 3 2 n t x c 1) t (splder_at ROps 4 2 n t x c 1).
Proof. intros K. split; [| split; [| split]].
  - chain (fL1_0 n x c H0) (fL1_1 n x c H0) K.
  - chain (fL1_1 n x c H0) (fL1_2 n x c H0) K.
  - chain (fL1_2 n x c H0) (fL1_3 n x c H0) K.
  - chain3 (fL1_3 n x c H0).
Qed.
Lemma chain_L2 n x c t (H0 : 5 <= n) : knots_increasing n x ->
  is_derive (fun t => splder_at ROps 0 2 n t x c 2) t (splder_at ROps 1 2 n t x c 2) /\
  is_derive (fun t => splder_at ROps 1 2 n t x c 2) t (splder_at ROps 2 2 n t x c 2) /\
  is_derive (fun t => splder_at ROps 2 2 n t x c 2) t (splder_at ROps 3 2 n t x c 2) /\
  is_derive (fun t => splder_at ROps 3 2 n t x c 2) t (splder_at ROps 4 2 n t x c 2).
Proof. intros K. split; [| split; [| split]].
  - chain (fL2_0 n x c H0) (fL2_1 n x c H0) K.
  - chain (fL2_1 n x c H0) (fL2_2 n x c H0) K.
  - chain (fL2_2 n x c H0) (fL2_3 n x c H0) K.
  - chain3 (fL2_3 n x c H0).
Qed.
Lemma chain_R1 n x c t (H0 : 4 <= n) : knots_increasing n x ->
  is_derive (fun t => splder_at ROps 0 2 n t x c (n - 1)) t (splder_at ROps 1 2 n t x c (n - 1)) /\
  is_derive (fun t => splder_at ROps 1 2 n t x c (n - 1)) t (splder_at ROps 2 2 n t x c (n - 1)) /\
  is_derive (fun t => splder_at ROps 2 2 n t x c (n - 1)) t (splder_at ROps 3 2 n t x c (n - 1)) /\
  is_derive (fun t => splder_at ROps 3 2 n t x c (n - 1)) t (splder_at ROps 4 2 n t x c (n - 1)).
Proof. intros K. split; [| split; [| split]].
  - chain (fR1_0 n x c H0) (fR1_1 n x c H0) K.
  - chain (fR1_1 n x c H0) (fR1_2 n x c H0) K.
  - chain (fR1_2 n x c H0) (fR1_3 n x c H0) K.
  - chain3 (fR1_3 n x c H0).
Qed.
Lemma chain_R2 n x c t (H0 : 5 <= n) : knots_increasing n x ->
  is_derive (fun t => splder_at ROps 0 2 n t x c (n - 2)) t (splder_at ROps 1 2 n t x c (n - 2)) /\
  is_derive (fun t => splder_at ROps 1 2 n t x c (n - 2)) t (splder_at ROps 2 2 n t x c (n - 2)) /\
  is_derive (fun t => splder_at ROps 2 2 n t x c (n - 2)) t (splder_at ROps 3 2 n t x c (n - 2)) /\
  is_derive (fun t => splder_at ROps 3 2 n t x c (n - 2)) t (splder_at ROps 4 2 n t x c (n - 2)).
Proof. intros K. split; [| split; [| split]].
  - chain (fR2_0 n x c H0) (fR2_1 n x c H0) K.
  - chain (fR2_1 n x c H0) (fR2_2 n x c H0) K.
  - chain (fR2_2 n x c H0) (fR2_3 n x c H0) K.
  - chain3 (fR2_3 n x c H0).
Qed.
Lemma chain_B  x c t  : knots_increasing 4 x ->
  is_derive (fun t => splder_at ROps 0 2 4 t x c 2) t (splder_at ROps 1 2 4 t x c 2) /\
  is_derive (fun t => splder_at ROps 1 2 4 t x c 2) t (splder_at ROps 2 2 4 t x c 2) /\
  is_derive (fun t => splder_at ROps 2 2 4 t x c 2) t (splder_at ROps 3 2 4 t x c 2) /\
  is_derive (fun t => splder_at ROps 3 2 4 t x c 2) t (splder_at ROps 4 2 4 t x c 2).
Proof. intros K. split; [| split; [| split]].
  - chain (fB_0 x c ) (fB_1 x c ) K.
  - chain (fB_1 x c ) (fB_2 x c ) K.
  - chain (fB_2 x c ) (fB_3 x c ) K.
  - chain3 (fB_3 x c ).
Qed.

(** every interval of every cubic spline: n >= 4 knots, 1 <= l <= n-1 *)
Theorem deg3_derivative_chain n l x c t : 4 <= n -> 1 <= l <= n - 1 -> knots_increasing n x ->
  is_derive (fun t => splder_at ROps 0 2 n t x c l) t (splder_at ROps 1 2 n t x c l) /\
  is_derive (fun t => splder_at ROps 1 2 n t x c l) t (splder_at ROps 2 2 n t x c l) /\
  is_derive (fun t => splder_at ROps 2 2 n t x c l) t (splder_at ROps 3 2 n t x c l) /\
  is_derive (fun t => splder_at ROps 3 2 n t x c l) t (splder_at ROps 4 2 n t x c l).
Proof. intros Hn Hl K.
  assert (C : 3 <= l <= n - 3 \/ l = 1 \/ (l = 2 /\ 5 <= n) \/ l = n - 1 \/ (l = n - 2 /\ 5 <= n) \/ (n = 4 /\ l = 2)) by lia.
  destruct C as [C | [C | [[C C'] | [C | [[C C'] | [C C']]]]]].
  - apply chain_D; auto.
  - subst l. apply chain_L1; auto.
  - subst l. apply chain_L2; auto.
  - subst l. apply chain_R1; auto.
  - subst l. apply chain_R2; auto.
  - subst l n. apply chain_B; auto.
Qed.

(** ** the pieces join with continuous value, first and second derivative at every interior knot *)
Ltac cont FA FB K := rewrite (proj2_sig FA), (proj2_sig FB); unf; znorm; field; nz K.
Ltac cont3 FA0 FB0 FA1 FB1 FA2 FB2 K := split; [| split]; [ cont FA0 FB0 K | cont FA1 FB1 K | cont FA2 FB2 K ].
Lemma cont_L1_B x c : knots_increasing 4 x ->
  splder_at ROps 0 2 4 (x 2) x c 1 = splder_at ROps 0 2 4 (x 2) x c 2 /\
  splder_at ROps 1 2 4 (x 2) x c 1 = splder_at ROps 1 2 4 (x 2) x c 2 /\
  splder_at ROps 2 2 4 (x 2) x c 1 = splder_at ROps 2 2 4 (x 2) x c 2.
Proof. intros K. assert (H : 4 <= 4) by lia.
  cont3 (fL1_0 4 x c H) (fB_0 x c) (fL1_1 4 x c H) (fB_1 x c) (fL1_2 4 x c H) (fB_2 x c) K. Qed.
Lemma cont_B_R1 x c : knots_increasing 4 x ->
  splder_at ROps 0 2 4 (x 3) x c 2 = splder_at ROps 0 2 4 (x 3) x c 3 /\
  splder_at ROps 1 2 4 (x 3) x c 2 = splder_at ROps 1 2 4 (x 3) x c 3 /\
  splder_at ROps 2 2 4 (x 3) x c 2 = splder_at ROps 2 2 4 (x 3) x c 3.
Proof. intros K. assert (H : 4 <= 4) by lia. change 3 with (4 - 1) at 2 4 6.
  cont3 (fB_0 x c) (fR1_0 4 x c H) (fB_1 x c) (fR1_1 4 x c H) (fB_2 x c) (fR1_2 4 x c H) K. Qed.
Lemma cont_L1_L2 n x c : 5 <= n -> knots_increasing n x ->
  splder_at ROps 0 2 n (x 2) x c 1 = splder_at ROps 0 2 n (x 2) x c 2 /\
  splder_at ROps 1 2 n (x 2) x c 1 = splder_at ROps 1 2 n (x 2) x c 2 /\
  splder_at ROps 2 2 n (x 2) x c 1 = splder_at ROps 2 2 n (x 2) x c 2.
Proof. intros H5 K. assert (H : 4 <= n) by lia.
  cont3 (fL1_0 n x c H) (fL2_0 n x c H5) (fL1_1 n x c H) (fL2_1 n x c H5) (fL1_2 n x c H) (fL2_2 n x c H5) K. Qed.
Lemma cont_L2_R2 x c : knots_increasing 5 x ->
  splder_at ROps 0 2 5 (x 3) x c 2 = splder_at ROps 0 2 5 (x 3) x c 3 /\
  splder_at ROps 1 2 5 (x 3) x c 2 = splder_at ROps 1 2 5 (x 3) x c 3 /\
  splder_at ROps 2 2 5 (x 3) x c 2 = splder_at ROps 2 2 5 (x 3) x c 3.
Proof. intros K. assert (H : 5 <= 5) by lia. change 3 with (5 - 2) at 2 4 6.
  cont3 (fL2_0 5 x c H) (fR2_0 5 x c H) (fL2_1 5 x c H) (fR2_1 5 x c H) (fL2_2 5 x c H) (fR2_2 5 x c H) K. Qed.
Lemma cont_R2_R1 n x c : 5 <= n -> knots_increasing n x ->
  splder_at ROps 0 2 n (x (n - 1)) x c (n - 2) = splder_at ROps 0 2 n (x (n - 1)) x c (n - 1) /\
  splder_at ROps 1 2 n (x (n - 1)) x c (n - 2) = splder_at ROps 1 2 n (x (n - 1)) x c (n - 1) /\
  splder_at ROps 2 2 n (x (n - 1)) x c (n - 2) = splder_at ROps 2 2 n (x (n - 1)) x c (n - 1).
Proof. intros H5 K. assert (H : 4 <= n) by lia.
  cont3 (fR2_0 n x c H5) (fR1_0 n x c H) (fR2_1 n x c H5) (fR1_1 n x c H) (fR2_2 n x c H5) (fR1_2 n x c H) K. Qed.
Lemma cont_L2_D n x c : 6 <= n -> knots_increasing n x ->
  splder_at ROps 0 2 n (x 3) x c 2 = splder_at ROps 0 2 n (x 3) x c 3 /\
  splder_at ROps 1 2 n (x 3) x c 2 = splder_at ROps 1 2 n (x 3) x c 3 /\
  splder_at ROps 2 2 n (x 3) x c 2 = splder_at ROps 2 2 n (x 3) x c 3.
Proof. intros H6 K. assert (H : 5 <= n) by lia. assert (HD : 3 <= 3 <= n - 3) by lia.
  cont3 (fL2_0 n x c H) (fD_0 n 3 x c HD) (fL2_1 n x c H) (fD_1 n 3 x c HD) (fL2_2 n x c H) (fD_2 n 3 x c HD) K. Qed.
Lemma cont_D_R2 n x c : 6 <= n -> knots_increasing n x ->
  splder_at ROps 0 2 n (x (n - 2)) x c (n - 3) = splder_at ROps 0 2 n (x (n - 2)) x c (n - 2) /\
  splder_at ROps 1 2 n (x (n - 2)) x c (n - 3) = splder_at ROps 1 2 n (x (n - 2)) x c (n - 2) /\
  splder_at ROps 2 2 n (x (n - 2)) x c (n - 3) = splder_at ROps 2 2 n (x (n - 2)) x c (n - 2).
Proof. intros H6 K. assert (H : 5 <= n) by lia. assert (HD : 3 <= n - 3 <= n - 3) by lia.
  cont3 (fD_0 n (n - 3) x c HD) (fR2_0 n x c H) (fD_1 n (n - 3) x c HD) (fR2_1 n x c H) (fD_2 n (n - 3) x c HD) (fR2_2 n x c H) K. Qed.
Lemma cont_D_D n l x c : 3 <= l -> l + 1 <= n - 3 -> knots_increasing n x ->
  splder_at ROps 0 2 n (x (l + 1)) x c l = splder_at ROps 0 2 n (x (l + 1)) x c (l + 1) /\
  splder_at ROps 1 2 n (x (l + 1)) x c l = splder_at ROps 1 2 n (x (l + 1)) x c (l + 1) /\
  splder_at ROps 2 2 n (x (l + 1)) x c l = splder_at ROps 2 2 n (x (l + 1)) x c (l + 1).
Proof. intros H3 Hn K. assert (HA : 3 <= l <= n - 3) by lia. assert (HB : 3 <= l + 1 <= n - 3) by lia.
  cont3 (fD_0 n l x c HA) (fD_0 n (l + 1) x c HB) (fD_1 n l x c HA) (fD_1 n (l + 1) x c HB) (fD_2 n l x c HA) (fD_2 n (l + 1) x c HB) K. Qed.

(** every interior knot x_{l+1} (1 <= l <= n-2) of every cubic spline with n >= 4 knots: value, first and second
    derivative of the piece on the left equal those of the piece on the right (the spline is C2) *)
Theorem deg3_C2_at_knots n l x c : 4 <= n -> 1 <= l <= n - 2 -> knots_increasing n x ->
  splder_at ROps 0 2 n (x (l + 1)) x c l = splder_at ROps 0 2 n (x (l + 1)) x c (l + 1) /\
  splder_at ROps 1 2 n (x (l + 1)) x c l = splder_at ROps 1 2 n (x (l + 1)) x c (l + 1) /\
  splder_at ROps 2 2 n (x (l + 1)) x c l = splder_at ROps 2 2 n (x (l + 1)) x c (l + 1).
Proof. intros Hn Hl K.
  assert (C : (n = 4 /\ l = 1) \/ (n = 4 /\ l = 2) \/ (5 <= n /\ l = 1) \/ (n = 5 /\ l = 2) \/ (5 <= n /\ l = n - 2) \/
              (6 <= n /\ l = 2) \/ (6 <= n /\ l = n - 3) \/ (3 <= l /\ l + 1 <= n - 3)) by lia.
  destruct C as [[A B] | [[A B] | [[A B] | [[A B] | [[A B] | [[A B] | [[A B] | [A B]]]]]]]].
  - subst. apply (cont_L1_B x c K).
  - subst. apply (cont_B_R1 x c K).
  - subst. apply (cont_L1_L2 n x c A K).
  - subst. apply (cont_L2_R2 x c K).
  - subst l. replace (n - 2 + 1) with (n - 1) by ring. apply (cont_R2_R1 n x c A K).
  - subst l. apply (cont_L2_D n x c A K).
  - subst l. replace (n - 3 + 1) with (n - 2) by ring. apply (cont_D_R2 n x c A K).
  - apply (cont_D_D n l x c A B K).
Qed.
(** the value at the last knot (search gives l = n there) continues the last piece *)
Lemma deg3_value_at_last_knot n x c : 4 <= n -> knots_increasing n x ->
  splder_at ROps 0 2 n (x n) x c n = splder_at ROps 0 2 n (x n) x c (n - 1).
Proof. intros H K. rewrite (proj2_sig (fE_0 n x c H)), (proj2_sig (fR1_0 n x c H)). unf. znorm. field. nz K. Qed.

(** with the interval search (any guess, even depending on t): strictly inside every knot interval of every cubic spline
    the reported derivative of order k+1 is the derivative of the reported order k, k = 0..3 (order 4 is 0) *)
Theorem deg3_spline_derivative_inside n l x c (g : R -> Z) t0 : 4 <= n -> knots_increasing n x -> 1 <= l < n ->
  (x l < t0 < x (l + 1)%Z)%R ->
  is_derive (fun t => splder ROps 0 2 n t x c (g t)) t0 (splder ROps 1 2 n t0 x c (g t0)) /\
  is_derive (fun t => splder ROps 1 2 n t x c (g t)) t0 (splder ROps 2 2 n t0 x c (g t0)) /\
  is_derive (fun t => splder ROps 2 2 n t x c (g t)) t0 (splder ROps 3 2 n t0 x c (g t0)) /\
  is_derive (fun t => splder ROps 3 2 n t x c (g t)) t0 (splder ROps 4 2 n t0 x c (g t0)).
Proof. intros Hn K Hl B. assert (Hl' : 1 <= l <= n - 1) by lia. assert (Hn2 : 2 <= n) by lia.
  destruct (deg3_derivative_chain n l x c t0 Hn Hl' K) as [D1 [D2 [D3 D4]]].
  split; [| split; [| split]].
  - apply (derive_inside_interval 0 2 n x c l g t0); auto.
  - apply (derive_inside_interval 1 2 n x c l g t0); auto.
  - apply (derive_inside_interval 2 2 n x c l g t0); auto.
  - apply (derive_inside_interval 3 2 n x c l g t0); auto.
Qed.
(** at an interior knot the search selects the piece on the right; its value and first two derivatives there equal the
    limits from the left piece (C2), so the reported value, first and second derivative are continuous functions of t *)
Theorem deg3_reported_at_knot n l x c l0 k : 4 <= n -> knots_increasing n x -> 1 <= l <= n - 2 -> 0 <= k <= 2 ->
  splder ROps k 2 n (x (l + 1)) x c l0 = splder_at ROps k 2 n (x (l + 1)) x c l.
Proof. intros Hn K Hl Hk. unfold splder.
  rewrite (search_in_interval n x (x (l + 1)) (l + 1)); auto; try lia.
  - destruct (deg3_C2_at_knots n l x c Hn Hl K) as [A [B C]].
    assert (E : k = 0 \/ k = 1 \/ k = 2) by lia. destruct E as [-> | [-> | ->]]; auto.
  - split; [lra | apply K; lia]. Qed.

(** ** summary of the spline part.  PARTIAL with respect to the property text: (1) the FITTING (gcvspl_: that an interpolating
    spline passes through its data, the GCV optimisation) is not modelled -- knots and coefficients are inputs; (2) the
    derivative-consistency and continuity theorems are proved for degree 1 and degree 3 (every knot vector, every interval);
    for degrees 5 and 7 the same model is only tied to the implementation by the correspondence run, and only the
    degree-independent facts below (orders above the degree vanish, linearity in the coefficients, the interval search) are proved. *)
Theorem spline_evaluation_consistent_partial :
  (forall n l x c (g : R -> Z) t0, 2 <= n -> knots_increasing n x -> 1 <= l < n -> (x l < t0 < x (l + 1)%Z)%R ->
     is_derive (fun t => splder ROps 0 1 n t x c (g t)) t0 (splder ROps 1 1 n t0 x c (g t0)) /\
     is_derive (fun t => splder ROps 1 1 n t x c (g t)) t0 (splder ROps 2 1 n t0 x c (g t0))) /\
  (forall n l x c (g : R -> Z) t0, 4 <= n -> knots_increasing n x -> 1 <= l < n -> (x l < t0 < x (l + 1)%Z)%R ->
     is_derive (fun t => splder ROps 0 2 n t x c (g t)) t0 (splder ROps 1 2 n t0 x c (g t0)) /\
     is_derive (fun t => splder ROps 1 2 n t x c (g t)) t0 (splder ROps 2 2 n t0 x c (g t0)) /\
     is_derive (fun t => splder ROps 2 2 n t x c (g t)) t0 (splder ROps 3 2 n t0 x c (g t0)) /\
     is_derive (fun t => splder ROps 3 2 n t x c (g t)) t0 (splder ROps 4 2 n t0 x c (g t0))) /\
  (forall n l x c, 4 <= n -> 1 <= l <= n - 2 -> knots_increasing n x ->
     splder_at ROps 0 2 n (x (l + 1)) x c l = splder_at ROps 0 2 n (x (l + 1)) x c (l + 1) /\
     splder_at ROps 1 2 n (x (l + 1)) x c l = splder_at ROps 1 2 n (x (l + 1)) x c (l + 1) /\
     splder_at ROps 2 2 n (x (l + 1)) x c l = splder_at ROps 2 2 n (x (l + 1)) x c (l + 1)) /\
  (forall n l x c, 1 <= l <= n - 2 -> knots_increasing n x ->
     splder_at ROps 0 1 n (x (l + 1)) x c l = splder_at ROps 0 1 n (x (l + 1)) x c (l + 1)) /\
  (forall ider m n t x c l, 2 * m <= ider -> splder_at ROps ider m n t x c l = 0%R) /\
  (forall a b ider m n t x c1 c2 l,
     splder_at ROps ider m n t x (fun j => (a * c1 j + b * c2 j)%R) l =
     (a * splder_at ROps ider m n t x c1 l + b * splder_at ROps ider m n t x c2 l)%R).
Proof.
  split; [| split; [| split; [| split; [| split]]]].
  - intros; apply deg1_spline_derivative_inside with (l := l); auto.
  - intros; apply deg3_spline_derivative_inside with (l := l); auto.
  - intros; apply deg3_C2_at_knots; auto.
  - intros; apply deg1_value_continuous; auto.
  - intros; apply order_above_degree_zero; auto.
  - intros; apply splder_at_linear_in_coefficients.
Qed.
