(** C41 spline part, degree 3 (m = 2, cubic splines), closed forms (theorems are in C41_spline_Deg3.v): every polynomial piece of
    the model of SimTK_splder_, obtained by symbolic evaluation of the model (tactic [mkform] of C41_spline_Proofs.v), for
    EVERY knot count n >= 4 and EVERY interval.  Six interval types: D deep interior (3 <= l <= n-3), L1/L2 the two intervals
    at the left end (l = 1, 2), R1/R2 at the right end (l = n-1, n-2), B the middle interval of a 4-knot spline; E is the
    evaluation at and beyond the last knot (l = n). *)
From Coq Require Import ZArith Reals Lra Lia Psatz List Bool.
From Coquelicot Require Import Coquelicot.
Require Import Num Tactics C41_spline_Model C41_spline_Proofs.
Local Open Scope Z_scope.

Section Forms.
Variables (n l : Z) (x c : Z -> R).
Lemma fD_0 : 3 <= l <= n - 3 -> { F : R -> R | forall t, splder_at ROps 0 2 n t x c l = F t }.
Proof. intros. mkform. Defined.
Lemma fD_1 : 3 <= l <= n - 3 -> { F : R -> R | forall t, splder_at ROps 1 2 n t x c l = F t }.
Proof. intros. mkform. Defined.
Lemma fD_2 : 3 <= l <= n - 3 -> { F : R -> R | forall t, splder_at ROps 2 2 n t x c l = F t }.
Proof. intros. mkform. Defined.
Lemma fD_3 : 3 <= l <= n - 3 -> { F : R -> R | forall t, splder_at ROps 3 2 n t x c l = F t }.
Proof. intros. mkform. Defined.
Lemma fL1_0 : 4 <= n -> { F : R -> R | forall t, splder_at ROps 0 2 n t x c 1 = F t }.
Proof. intros. mkform. Defined.
Lemma fL1_1 : 4 <= n -> { F : R -> R | forall t, splder_at ROps 1 2 n t x c 1 = F t }.
Proof. intros. mkform. Defined.
Lemma fL1_2 : 4 <= n -> { F : R -> R | forall t, splder_at ROps 2 2 n t x c 1 = F t }.
Proof. intros. mkform. Defined.
Lemma fL1_3 : 4 <= n -> { F : R -> R | forall t, splder_at ROps 3 2 n t x c 1 = F t }.
Proof. intros. mkform. Defined.
Lemma fL2_0 : 5 <= n -> { F : R -> R | forall t, splder_at ROps 0 2 n t x c 2 = F t }.
Proof. intros. mkform. Defined.
Lemma fL2_1 : 5 <= n -> { F : R -> R | forall t, splder_at ROps 1 2 n t x c 2 = F t }.
Proof. intros. mkform. Defined.
Lemma fL2_2 : 5 <= n -> { F : R -> R | forall t, splder_at ROps 2 2 n t x c 2 = F t }.
Proof. intros. mkform. Defined.
Lemma fL2_3 : 5 <= n -> { F : R -> R | forall t, splder_at ROps 3 2 n t x c 2 = F t }.
Proof. intros. mkform. Defined.
Lemma fR1_0 : 4 <= n -> { F : R -> R | forall t, splder_at ROps 0 2 n t x c (n - 1) = F t }.
Proof. intros. mkform. Defined.
Lemma fR1_1 : 4 <= n -> { F : R -> R | forall t, splder_at ROps 1 2 n t x c (n - 1) = F t }.
Proof. intros. mkform. Defined.
Lemma fR1_2 : 4 <= n -> { F : R -> R | forall t, splder_at ROps 2 2 n t x c (n - 1) = F t }.
Proof. intros. mkform. Defined.
Lemma fR1_3 : 4 <= n -> { F : R -> R | forall t, splder_at ROps 3 2 n t x c (n - 1) = F t }.
Proof. intros. mkform. Defined.
Lemma fR2_0 : 5 <= n -> { F : R -> R | forall t, splder_at ROps 0 2 n t x c (n - 2) = F t }.
Proof. intros. mkform. Defined.
Lemma fR2_1 : 5 <= n -> { F : R -> R | forall t, splder_at ROps 1 2 n t x c (n - 2) = F t }.
Proof. intros. mkform. Defined.
Lemma fR2_2 : 5 <= n -> { F : R -> R | forall t, splder_at ROps 2 2 n t x c (n - 2) = F t }.
Proof. intros. mkform. Defined.
Lemma fR2_3 : 5 <= n -> { F : R -> R | forall t, splder_at ROps 3 2 n t x c (n - 2) = F t }.
Proof. intros. mkform. Defined.
Lemma fB_0 : { F : R -> R | forall t, splder_at ROps 0 2 4 t x c 2 = F t }.
Proof. intros. mkform. Defined.
Lemma fB_1 : { F : R -> R | forall t, splder_at ROps 1 2 4 t x c 2 = F t }.
Proof. intros. mkform. Defined.
Lemma fB_2 : { F : R -> R | forall t, splder_at ROps 2 2 4 t x c 2 = F t }.
Proof. intros. mkform. Defined.
Lemma fB_3 : { F : R -> R | forall t, splder_at ROps 3 2 4 t x c 2 = F t }.
Proof. intros. mkform. Defined.
Lemma fE_0 : 4 <= n -> { F : R -> R | forall t, splder_at ROps 0 2 n t x c n = F t }.
Proof. intros. mkform. Defined.
End Forms.
Ltac unf := cbv [proj1_sig fD_0 fD_1 fD_2 fD_3 fL1_0 fL1_1 fL1_2 fL1_3 fL2_0 fL2_1 fL2_2 fL2_3 fR1_0 fR1_1 fR1_2 fR1_3 fR2_0 fR2_1 fR2_2 fR2_3 fB_0 fB_1 fB_2 fB_3 fE_0].
