(** C41 spline part, specification-level fact behind the fitting certificate "polynomial reproduction" of checks/C41.py:
    the smoothing spline of half order m minimises  J_p(s) = sum_i w_i (y_i - s(x_i))^2 + p * int_a^b (s^(m)(t))^2 dt.
    If the data lie on a polynomial q of degree < m then J_p(q) = 0 for EVERY p >= 0, J_p >= 0, so q is a minimiser for every
    smoothing parameter, and every function with J_p(s) = 0 passes through all data points of positive weight.
    This is about the minimisation problem GCVSPL solves, NOT about gcvspl.cpp (the fitting code is not modelled); that the
    minimiser is unique within the natural-spline space is not proved here. *)
From Coq Require Import ZArith Reals Lra Lia Psatz List.
From Coquelicot Require Import Coquelicot.
Require Import Num Tactics step_gen C41_Model C41_Proofs.
Import ListNotations.
Local Open Scope R_scope.

(** data points (x, y, w) *)
Fixpoint rss (pts : list (R * R * R)) (s : R -> R) : R :=
  match pts with Datatypes.nil => 0 | Datatypes.cons (x, y, w) r => w * (y - s x) * (y - s x) + rss r s end.
Definition penalty (m : nat) (a b : R) (s : R -> R) : R := RInt (fun t => Derive_n s m t * Derive_n s m t) a b.
Definition objective (p : R) (m : nat) (a b : R) (pts : list (R * R * R)) (s : R -> R) : R := rss pts s + p * penalty m a b s.

Lemma sq_nonneg u : 0 <= u * u. Proof. nra. Qed.
Lemma rss_nonneg pts s : List.Forall (fun q => 0 <= snd q) pts -> 0 <= rss pts s.
Proof. induction pts as [| [[x y] w] r IH]; intros H; simpl; [lra|]. inversion H as [| q l Hw Hr]; subst. simpl in Hw.
  specialize (IH Hr). generalize (sq_nonneg (y - s x)); intros. rewrite Rmult_assoc. assert (0 <= w * ((y - s x) * (y - s x))) by (apply Rmult_le_pos; auto). lra. Qed.
Lemma rss_zero_interpolates pts s : List.Forall (fun q => 0 < snd q) pts -> rss pts s = 0 ->
  List.Forall (fun q => s (fst (fst q)) = snd (fst q)) pts.
Proof. induction pts as [| [[x y] w] r IH]; intros H E; constructor; inversion H as [| q l Hw Hr]; subst; simpl in *.
  - assert (A : 0 <= rss r s) by (apply rss_nonneg; eapply List.Forall_impl; [| exact Hr]; intros; simpl in *; lra).
    generalize (sq_nonneg (y - s x)); intros B. rewrite Rmult_assoc in E.
    assert (C : 0 <= w * ((y - s x) * (y - s x))) by (apply Rmult_le_pos; lra).
    assert (D : w * ((y - s x) * (y - s x)) = 0) by lra. apply Rmult_integral in D. destruct D as [D | D]; [lra|].
    apply Rmult_integral in D. destruct D; lra.
  - apply IH; auto. assert (A : 0 <= rss r s) by (apply rss_nonneg; eapply List.Forall_impl; [| exact Hr]; intros; simpl in *; lra).
    generalize (sq_nonneg (y - s x)); intros B. rewrite Rmult_assoc in E.
    assert (C : 0 <= w * ((y - s x) * (y - s x))) by (apply Rmult_le_pos; lra). lra. Qed.
Lemma rss_poly_data cs pts : List.Forall (fun q => snd (fst q) = poly_value ROps cs (fst (fst q))) pts -> rss pts (poly_value ROps cs) = 0.
Proof. induction pts as [| [[x y] w] r IH]; intros H; simpl; auto. inversion H as [| q l Hw Hr]; subst; simpl in *. rewrite IH by auto. rewrite Hw. unfold Rminus. rewrite Rplus_opp_r, ?Rmult_0_r, ?Rmult_0_l, ?Rplus_0_l. reflexivity. Qed.
Lemma penalty_poly_zero cs m a b : (length cs <= m)%nat -> penalty m a b (poly_value ROps cs) = 0.
Proof. intros H. unfold penalty.
  rewrite (RInt_ext _ (fun _ => 0)).
  - rewrite RInt_const. unfold scal; simpl; unfold mult; simpl. apply Rmult_0_r.
  - intros t _. rewrite (Derive_n_ext _ (pd 0 cs)) by (intros; apply poly_value_spec).
    rewrite (family_Derive_n (fun k => pd k cs)) by (intros; apply pd_is_derive). rewrite pd_zero by auto. apply Rmult_0_l. Qed.

(** data on a polynomial of degree < m: the objective vanishes at that polynomial for every smoothing parameter *)
Lemma smoothing_objective_zero_on_polynomial_data p m a b cs pts : (length cs <= m)%nat ->
  List.Forall (fun q => snd (fst q) = poly_value ROps cs (fst (fst q))) pts ->
  objective p m a b pts (poly_value ROps cs) = 0.
Proof. intros H D. unfold objective. rewrite rss_poly_data, penalty_poly_zero by auto. rewrite Rmult_0_r. apply Rplus_0_l. Qed.
(** hence it is a minimiser for every p >= 0 (among all s with an integrable squared m-th derivative), and any other function
    reaching the minimum passes through every data point *)
Lemma smoothing_polynomial_is_minimiser p m a b cs pts s : (length cs <= m)%nat -> 0 <= p -> a <= b ->
  List.Forall (fun q => snd (fst q) = poly_value ROps cs (fst (fst q))) pts -> List.Forall (fun q => 0 < snd q) pts ->
  ex_RInt (fun t => Derive_n s m t * Derive_n s m t) a b ->
  objective p m a b pts (poly_value ROps cs) <= objective p m a b pts s /\
  (objective p m a b pts s = 0 -> List.Forall (fun q => s (fst (fst q)) = snd (fst q)) pts).
Proof. intros H Hp Hab D W I. rewrite smoothing_objective_zero_on_polynomial_data by auto.
  assert (P : 0 <= penalty m a b s). { unfold penalty. apply RInt_ge_0; auto. intros t _. apply sq_nonneg. }
  assert (R0 : 0 <= rss pts s). { apply rss_nonneg. eapply List.Forall_impl; [| exact W]. intros; simpl in *; lra. }
  assert (PP : 0 <= p * penalty m a b s) by (apply Rmult_le_pos; auto).
  unfold objective. split; [lra|]. intros E. apply rss_zero_interpolates; auto. lra. Qed.
