(** C41 spline part: hand-written executable model of the spline EVALUATION code
      SimTKmath/Geometry/src/gcvspl.cpp : search_ (interval search) and SimTK_splder_ (value / ider-th derivative of the
      natural B-spline expansion with knots x(1..n) and coefficients c(1..n), half order m, degree 2m-1),
      GCVSPLUtil::splder and Spline_::calcValue / calcDerivative (dispatch to it),
    polymorphic in [NumOps T].  No proofs in this file.  The FITTING (gcvspl_, GCV optimisation) is not modelled: knots
    and coefficients are inputs.  Arrays are 1-based functions [Z -> T] exactly as in the f2c code (x(j), c(j), q(j));
    the work array q is a function with functional update; every counted loop is a structural recursion on its trip count. *)
From Coq Require Import ZArith List Bool.
Require Import Num.
Import ListNotations.
Local Open Scope Z_scope.

Section Model.
Context {T : Type} (K : NumOps T).

Definition upd (q : Z -> T) (i : Z) (v : T) : Z -> T := fun j => if Z.eqb j i then v else q j.
(** [cnt] iterations, loop variable starting at [j] and moving by [step] *)
Fixpoint loop {S : Type} (cnt : nat) (j step : Z) (body : Z -> S -> S) (s : S) : S :=
  match cnt with O => s | Datatypes.S c => loop c (j + step) step body (body j s) end.
Definition trip (a b : Z) : nat := Z.to_nat (b - a + 1).          (* for (j=a; j<=b; ++j) *)

(** *** search_(n, x, t, l): l := 0 if t < x(1), n if t >= x(n), else x(l) <= t < x(l+1); hunt from the guess l, then bisect *)
Fixpoint bisect (x : Z -> T) (t : T) (fuel : nat) (il iu : Z) {struct fuel} : Z :=
  let l := (il + iu) / 2 in                       (* L4 *)
  match fuel with
  | O => l
  | Datatypes.S f => if iu - il <=? 1 then l
                     else if nltb K t (x l) then bisect x t f il l     (* L3: iu = l *)
                     else bisect x t f l iu                            (* il = l *)
  end.
Definition search (n : Z) (x : Z -> T) (t : T) (l0 : Z) : Z :=
  if nltb K t (x 1) then 0
  else if nleb K (x n) t then n
  else
    let l := Z.max l0 1 in
    let l := if n <=? l then n - 1 else l in
    if nleb K (x l) t then                          (* L5 *)
      if nltb K t (x (l + 1)) then l
      else let l := l + 1 in
           if nltb K t (x (l + 1)) then l
           else bisect x t (Z.to_nat n) (l + 1) n
    else
      let l := l - 1 in
      if nleb K (x l) t then l
      else bisect x t (Z.to_nat n) 1 l.

(** *** SimTK_splder_ with the interval index l already found *)
Definition splder_at (ider m n : Z) (t : T) (x c : Z -> T) (l : Z) : T :=
  let zero := nofZ K 0 in
  let m2 := 2 * m in
  let k := m2 - ider in
  if k <? 1 then zero else
  let mp1 := m + 1 in let npm := n + m in let m2m1 := m2 - 1 in let k1 := k - 1 in
  let nk := n - k in let lk := l - k in let lk1 := lk + 1 in
  let jl := l + 1 in let ju := l + m2 in let ii := n - m2 in let ml := - l in
  (* q(j+ml) = c(j-m) for j = l+1 .. l+2m, zero outside 1..n *)
  let q := loop (trip jl ju) jl 1
             (fun j q => upd q (j + ml) (if (mp1 <=? j) && (j <=? npm) then c (j - m) else zero)) (fun _ => zero) in
  (* differentiate the coefficients ider times *)
  let q :=
    if 0 <? ider then
      let jl := jl - m2 in let ml := ml + m2 in
      let '(q, _, _) :=
        loop (trip 1 ider) 1 1
          (fun i (s : (Z -> T) * Z * Z) =>
             let '(q, jl, ii) := s in
             let jl := jl + 1 in let ii := ii + 1 in
             let j1 := Z.max 1 jl in let j2 := Z.min l ii in
             let mi := m2 - i in
             (* for jin = j1..j2 : --j (from j2+1); jm = ml+j; q(jm) = (q(jm)-q(jm-1))/(x(j+mi)-x(j)) *)
             let q := loop (trip j1 j2) j2 (-1)
                        (fun j q => let jm := ml + j in
                                    upd q jm (ndiv K (nsub K (q jm) (q (jm - 1))) (nsub K (x (j + mi)) (x j)))) q in
             let q := if 1 <=? jl then q
                      else (* for jin = i+1..ml : --j (from ml+1); q(j) = -q(j-1) *)
                        loop (trip (i + 1) ml) ml (-1) (fun j q => upd q j (nopp K (q (j - 1)))) q in
             (q, jl, ii)) (q, jl, ii) in
      (* for j = 1..k : q(j) = q(j+ider) *)
      loop (trip 1 k) 1 1 (fun j q => upd q j (q (j + ider))) q
    else q in
  (* evaluate: k-1 passes, each with a right-boundary part, an interior part and a left-boundary part *)
  let q :=
    loop (trip 1 k1) 1 1
      (fun i q =>
         let nki := nk + i in let ir := k in let jj := l in let ki := k - i in let nki1 := nki + 1 in
         let '(q, ir, jj) :=
           loop (trip nki1 l) nki1 1
             (fun _ (s : (Z -> T) * Z * Z) => let '(q, ir, jj) := s in
                (upd q ir (nadd K (q (ir - 1)) (nmul K (nsub K t (x jj)) (q ir))), ir - 1, jj - 1)) (q, ir, jj) in
         let lk1i := lk1 + i in
         let j1 := Z.max 1 lk1i in let j2 := Z.min l nki in
         let '(q, ir, jj) :=
           loop (trip j1 j2) j1 1
             (fun _ (s : (Z -> T) * Z * Z) => let '(q, ir, jj) := s in
                let xjki := x (jj + ki) in let z := q ir in
                (upd q ir (nadd K z (ndiv K (nmul K (nsub K xjki t) (nsub K (q (ir - 1)) z)) (nsub K xjki (x jj)))),
                 ir - 1, jj - 1)) (q, ir, jj) in
         if lk1i <=? 0 then
           let jj := ki in
           let '(q, _, _) :=
             loop (trip 1 (1 - lk1i)) 1 1
               (fun _ (s : (Z -> T) * Z * Z) => let '(q, ir, jj) := s in
                  (upd q ir (nadd K (q ir) (nmul K (nsub K (x jj) t) (q (ir - 1)))), ir - 1, jj - 1)) (q, ir, jj) in
           q
         else q) q in
  let z := q k in
  if 0 <? ider then loop (trip k m2m1) k 1 (fun j z => nmul K z (nofZ K j)) z else z.

(** SimTK_splder_ = search_ then the evaluation *)
Definition splder (ider m n : Z) (t : T) (x c : Z -> T) (l0 : Z) : T :=
  splder_at ider m n t x c (search n x t l0).

(** arrays from lists (the C++ Vectors x and coeff; Fortran index j = C++ index j-1) *)
Definition arr (v : list T) : Z -> T := fun j => nth (Z.to_nat (j - 1)) v (nofZ K 0).
(** GCVSPLUtil::splder(derivOrder, degree, t, x, coeff): m = (degree+1)/2, n = x.size(); [guess] is the initial interval
    estimate ceil(n*(t-x[0])/(x[n-1]-x[0])) computed by the caller (it does not influence the result) *)
Definition gcv_splder (order degree : Z) (t : T) (xs cs : list T) (guess : Z) : T :=
  splder order ((degree + 1) / 2) (Z.of_nat (length xs)) t (arr xs) (arr cs) guess.
(** Spline_::calcValue(x) and Spline_::calcDerivative(order, x) *)
Definition spline_value (degree : Z) (xs cs : list T) (t : T) (guess : Z) : T := gcv_splder 0 degree t xs cs guess.
Definition spline_deriv (degree : Z) (xs cs : list T) (order : Z) (t : T) (guess : Z) : T := gcv_splder order degree t xs cs guess.
End Model.
