(** C41 spline part, proofs over the hand model C41_spline_Model.v of search_ / SimTK_splder_ (gcvspl.cpp) and the
    Spline_ dispatch.  General facts (any half order m): orders above the degree give 0, the evaluation is linear in the
    coefficients, the interval search returns the bracketing interval whatever the initial guess.  Degree 1 (m = 1): every
    knot vector, every interval.  Degree 3 is in C41_spline_Deg3.v.  The symbolic-evaluation tactics used for the
    fixed-degree theorems are defined here. *)
From Coq Require Import ZArith Reals Lra Lia Psatz List Bool.
From Coquelicot Require Import Coquelicot.
Require Import Num Tactics C41_spline_Model.
Local Open Scope Z_scope.

(** ** symbolic evaluation of the model for a fixed half order, with the interval index l and the knot count n symbolic:
    unroll one loop iteration at a time, resolve trip counts / comparisons / max / min with lia from the hypotheses on l and n,
    evaluate closed integer arithmetic by computation, so that array reads of the work array reduce immediately *)
Lemma loop_S {S} c j st (body : Z -> S -> S) s : loop (Datatypes.S c) j st body s = loop c (j + st) st body (body j s).
Proof. reflexivity. Qed.
Lemma loop_O {S} j st (body : Z -> S -> S) s : loop O j st body s = s.
Proof. reflexivity. Qed.

Ltac trip_num :=
  match goal with |- context[Z.to_nat ?e] =>
    first [ replace (Z.to_nat e) with 0%nat by lia | replace (Z.to_nat e) with 1%nat by lia
          | replace (Z.to_nat e) with 2%nat by lia | replace (Z.to_nat e) with 3%nat by lia
          | replace (Z.to_nat e) with 4%nat by lia | replace (Z.to_nat e) with 5%nat by lia
          | replace (Z.to_nat e) with 6%nat by lia ] end.
Ltac cmp_res :=
  match goal with
  | |- context[?a <=? ?b] => first [ replace (a <=? b) with true by (symmetry; apply Z.leb_le; lia)
                                   | replace (a <=? b) with false by (symmetry; apply Z.leb_gt; lia) ]
  | |- context[?a <? ?b] => first [ replace (a <? b) with true by (symmetry; apply Z.ltb_lt; lia)
                                  | replace (a <? b) with false by (symmetry; apply Z.ltb_ge; lia) ]
  | |- context[?a =? ?b] => first [ replace (a =? b) with true by (symmetry; apply Z.eqb_eq; lia)
                                  | replace (a =? b) with false by (symmetry; apply Z.eqb_neq; lia) ]
  | |- context[Z.max ?a ?b] => first [ replace (Z.max a b) with b by lia | replace (Z.max a b) with a by lia ]
  | |- context[Z.min ?a ?b] => first [ replace (Z.min a b) with a by lia | replace (Z.min a b) with b by lia ]
  end.
Ltac red1 := cbv beta iota zeta delta [upd andb].
Ltac ground_z :=
  match goal with |- context[?e] =>
    match type of e with Z =>
      match e with | (_ + _) => idtac | (_ - _) => idtac | (_ * _) => idtac | (- _) => idtac | (_ / _) => idtac end;
      assert_fails (idtac; match e with context[?y] => is_var y end);
      let v := eval compute in e in change e with v
    end end.
Ltac ground_b :=
  match goal with
  | |- context[Z.eqb ?a ?b] => assert_fails (idtac; match constr:((a, b)) with context[?y] => is_var y end);
                               let v := eval compute in (Z.eqb a b) in change (Z.eqb a b) with v
  | |- context[Z.leb ?a ?b] => assert_fails (idtac; match constr:((a, b)) with context[?y] => is_var y end);
                               let v := eval compute in (Z.leb a b) in change (Z.leb a b) with v
  | |- context[Z.ltb ?a ?b] => assert_fails (idtac; match constr:((a, b)) with context[?y] => is_var y end);
                               let v := eval compute in (Z.ltb a b) in change (Z.ltb a b) with v
  | |- context[Z.to_nat ?a] => assert_fails (idtac; match a with context[?y] => is_var y end);
                               let v := eval compute in (Z.to_nat a) in change (Z.to_nat a) with v
  end.
Ltac step := first [ ground_z | ground_b | cmp_res | rewrite loop_O | trip_num | rewrite loop_S ]; red1.
Ltac run := unfold splder_at, trip; red1; repeat step.
(** normalise index arithmetic so that equal array elements are syntactically equal *)
Ltac znorm := repeat match goal with |- context[?f ?e] =>
   match type of e with Z => match e with | (_ + _) => idtac | (_ - _) => idtac | (_ * _) => idtac end; progress ring_simplify e end end.
Ltac rops := cbv [ROps nadd nsub nmul ndiv nopp nofZ].
(** closed form of a polynomial piece: { F | forall t, splder_at ... t ... = F t }, F found by evaluation *)
Ltac mkform := eexists; intros t;
  let RHS := fresh "RHS" in
  match goal with |- _ = ?rhs => set (RHS := rhs) end;
  run; znorm; rops; subst RHS;
  match goal with |- ?lhs = ?rhs =>
    let f := eval pattern t in lhs in
    lazymatch f with ?g _ => lazymatch rhs with ?F _ => unify F g end end end; reflexivity.

Definition knots_increasing (n : Z) (x : Z -> R) : Prop := forall i j, 1 <= i -> i < j -> j <= n -> (x i < x j)%R.
(** discharge the side conditions  x a - x b <> 0  of [field] from strictly increasing knots *)
Ltac nz H := repeat split;
  match goal with |- (_ - _ <> 0)%R => apply Rminus_eq_contra; first [ apply Rgt_not_eq; apply H; lia | apply Rlt_not_eq; apply H; lia ]
                | |- _ => idtac end.

(** ** any half order: derivative orders above the degree 2m-1 are identically zero *)
Lemma order_above_degree_zero ider m n t x c l : 2 * m <= ider -> splder_at ROps ider m n t x c l = 0%R.
Proof. intros H. unfold splder_at. replace (2 * m - ider <? 1) with true by (symmetry; apply Z.ltb_lt; lia). reflexivity. Qed.
Lemma spline_order_above_degree_zero degree xs cs order t guess : degree < order ->
  spline_deriv ROps degree xs cs order t guess = 0%R.
Proof. intros Hk. unfold spline_deriv, gcv_splder, splder. apply order_above_degree_zero.
  generalize (Z.mul_div_le (degree + 1) 2 ltac:(lia)). lia. Qed.
(** ** the four phases of SimTK_splder_ as separate functions (definitionally the same as the model) *)
Section Phases.
Context {T : Type} (K : NumOps T).
Definition ph_load (m n l : Z) (c : Z -> T) : Z -> T :=
  loop (trip (l + 1) (l + 2 * m)) (l + 1) 1
       (fun j q => upd q (j + - l) (if (m + 1 <=? j) && (j <=? n + m) then c (j - m) else nofZ K 0)) (fun _ => nofZ K 0).
Definition ph_diff (ider m n l : Z) (x : Z -> T) (q : Z -> T) : Z -> T :=
  if 0 <? ider then
    let '(q, _, _) :=
      loop (trip 1 ider) 1 1
        (fun i (s : (Z -> T) * Z * Z) =>
           let '(q, jl, ii) := s in
           let jl := jl + 1 in let ii := ii + 1 in
           let j1 := Z.max 1 jl in let j2 := Z.min l ii in
           let mi := 2 * m - i in
           let q := loop (trip j1 j2) j2 (-1)
                      (fun j q => let jm := - l + 2 * m + j in
                                  upd q jm (ndiv K (nsub K (q jm) (q (jm - 1))) (nsub K (x (j + mi)) (x j)))) q in
           let q := if 1 <=? jl then q
                    else loop (trip (i + 1) (- l + 2 * m)) (- l + 2 * m) (-1) (fun j q => upd q j (nopp K (q (j - 1)))) q in
           (q, jl, ii)) (q, l + 1 - 2 * m, n - 2 * m) in
    loop (trip 1 (2 * m - ider)) 1 1 (fun j q => upd q j (q (j + ider))) q
  else q.
Definition ph_eval (ider m n l : Z) (t : T) (x : Z -> T) (q : Z -> T) : Z -> T :=
  let k := 2 * m - ider in
  loop (trip 1 (k - 1)) 1 1
    (fun i q =>
       let nki := n - k + i in let ir := k in let jj := l in let ki := k - i in let nki1 := nki + 1 in
       let '(q, ir, jj) :=
         loop (trip nki1 l) nki1 1
           (fun _ (s : (Z -> T) * Z * Z) => let '(q, ir, jj) := s in
              (upd q ir (nadd K (q (ir - 1)) (nmul K (nsub K t (x jj)) (q ir))), ir - 1, jj - 1)) (q, ir, jj) in
       let lk1i := l - k + 1 + i in
       let j1 := Z.max 1 lk1i in let j2 := Z.min l nki in
       let '(q, ir, jj) :=
         loop (trip j1 j2) j1 1
           (fun _ (s : (Z -> T) * Z * Z) => let '(q, ir, jj) := s in
              let xjki := x (jj + ki) in let z := q ir in
              (upd q ir (nadd K z (ndiv K (nmul K (nsub K xjki t) (nsub K (q (ir - 1)) z)) (nsub K xjki (x jj)))),
               ir - 1, jj - 1)) (q, ir, jj) in
       if lk1i <=? 0 then
         let jj := ki in
         let '(q, _, _) :=
           loop (trip 1 (1 - lk1i)) 1 1
             (fun _ (s : (Z -> T) * Z * Z) => let '(q, ir, jj) := s in
                (upd q ir (nadd K (q ir) (nmul K (nsub K (x jj) t) (q (ir - 1)))), ir - 1, jj - 1)) (q, ir, jj) in
         q
       else q) q.
Definition ph_final (ider m : Z) (q : Z -> T) : T :=
  let k := 2 * m - ider in
  let z := q k in
  if 0 <? ider then loop (trip k (2 * m - 1)) k 1 (fun j z => nmul K z (nofZ K j)) z else z.
Lemma splder_at_phases ider m n t x c l :
  splder_at K ider m n t x c l =
  if 2 * m - ider <? 1 then nofZ K 0
  else ph_final ider m (ph_eval ider m n l t x (ph_diff ider m n l x (ph_load m n l c))).
Proof. reflexivity. Qed.
End Phases.

(** ** any half order: the evaluation is linear in the coefficients *)
Section Linearity.
Variables (a b : R) (x : Z -> R) (t : R).
Definition lc (u1 u2 : R) : R := (a * u1 + b * u2)%R.
Definition Rq (q q1 q2 : Z -> R) : Prop := forall j, q j = lc (q1 j) (q2 j).
Definition R3 (s s1 s2 : (Z -> R) * Z * Z) : Prop :=
  Rq (fst (fst s)) (fst (fst s1)) (fst (fst s2)) /\ snd (fst s) = snd (fst s1) /\ snd (fst s) = snd (fst s2) /\
  snd s = snd s1 /\ snd s = snd s2.
Lemma loop_rel {S} (P : S -> S -> S -> Prop) cnt : forall j st (body body1 body2 : Z -> S -> S) s s1 s2,
  (forall j s s1 s2, P s s1 s2 -> P (body j s) (body1 j s1) (body2 j s2)) -> P s s1 s2 ->
  P (loop cnt j st body s) (loop cnt j st body1 s1) (loop cnt j st body2 s2).
Proof. induction cnt; intros; simpl; auto. Qed.
Lemma Rq_upd q q1 q2 i v v1 v2 : Rq q q1 q2 -> v = lc v1 v2 -> Rq (upd q i v) (upd q1 i v1) (upd q2 i v2).
Proof. intros H Hv j. unfold upd. destruct (j =? i); auto. Qed.
Lemma R3_intro q q1 q2 i j : Rq q q1 q2 -> R3 (q, i, j) (q1, i, j) (q2, i, j).
Proof. intros H. repeat split; auto. Qed.
Ltac r3 := match goal with H : R3 ?s ?s1 ?s2 |- _ =>
  destruct s as [[?q ?i] ?j], s1 as [[?q ?i] ?j], s2 as [[?q ?i] ?j]; destruct H as [?Hq [?E [?E [?E ?E]]]]; simpl in *; subst end.

Lemma load_linear m n l c1 c2 :
  Rq (ph_load ROps m n l (fun j => lc (c1 j) (c2 j))) (ph_load ROps m n l c1) (ph_load ROps m n l c2).
Proof. unfold ph_load. apply (loop_rel Rq).
  - intros j s s1 s2 H. apply Rq_upd; auto. destruct ((m + 1 <=? j) && (j <=? n + m)); auto. cbv [ROps nofZ lc]. ring.
  - intros j. cbv [ROps nofZ lc]. ring. Qed.
Lemma diff_linear ider m n l q q1 q2 : Rq q q1 q2 ->
  Rq (ph_diff ROps ider m n l x q) (ph_diff ROps ider m n l x q1) (ph_diff ROps ider m n l x q2).
Proof. intros H. unfold ph_diff. destruct (0 <? ider); auto.
  match goal with |- context[loop ?cnt 1 1 ?B (q, ?u, ?v)] => set (A := loop cnt 1 1 B (q, u, v)) end.
  match goal with |- context[loop ?cnt 1 1 ?B (q1, ?u, ?v)] => set (A1 := loop cnt 1 1 B (q1, u, v)) end.
  match goal with |- context[loop ?cnt 1 1 ?B (q2, ?u, ?v)] => set (A2 := loop cnt 1 1 B (q2, u, v)) end.
  assert (H3 : R3 A A1 A2); [unfold A, A1, A2 | clearbody A A1 A2].
  { apply (loop_rel R3); [| apply R3_intro; auto].
    intros i s s1 s2 Hs. r3. apply R3_intro.
    match goal with |- Rq (if ?b then _ else _) _ _ => destruct b end.
    - apply (loop_rel Rq); auto. intros j s s1 s2 Hs. apply Rq_upd; auto. rewrite !Hs. cbv [ROps ndiv nsub lc]. unfold Rdiv. ring.
    - apply (loop_rel Rq).
      + intros j s s1 s2 Hs. apply Rq_upd; auto. rewrite !Hs. cbv [ROps nopp lc]. ring.
      + apply (loop_rel Rq); auto. intros j s s1 s2 Hs. apply Rq_upd; auto. rewrite !Hs. cbv [ROps ndiv nsub lc]. unfold Rdiv. ring. }
  r3. apply (loop_rel Rq); auto. intros j s s1 s2 Hs. apply Rq_upd; auto. Qed.
Ltac rq_rw := repeat match goal with H : Rq _ _ _ |- _ => rewrite !H; clear H end.
(* name the three parallel runs of the next triple-state loop and reduce their relation to the loop body *)
Ltac three_runs :=
  match goal with H : Rq ?qa ?qb ?qc |- context[loop ?cnt ?j0 1 ?B (?qa, ?u, ?v)] =>
    let A := fresh "A" in let A1 := fresh "A" in let A2 := fresh "A" in let H3 := fresh "H3" in
    set (A := loop cnt j0 1 B (qa, u, v)); set (A1 := loop cnt j0 1 B (qb, u, v)); set (A2 := loop cnt j0 1 B (qc, u, v));
    assert (H3 : R3 A A1 A2); [ unfold A, A1, A2; apply (loop_rel R3); [| apply R3_intro; exact H] | clearbody A A1 A2; clear H ]
  end.
Lemma eval_linear ider m n l q q1 q2 : Rq q q1 q2 ->
  Rq (ph_eval ROps ider m n l t x q) (ph_eval ROps ider m n l t x q1) (ph_eval ROps ider m n l t x q2).
Proof. intros H. unfold ph_eval. cbv zeta. apply (loop_rel Rq); auto.
  clear q q1 q2 H. intros i q q1 q2 H.
  three_runs.
  { intros j s s1 s2 Hs. r3. apply R3_intro. apply Rq_upd; auto. rq_rw. cbv [ROps nadd nmul nsub lc]. ring. }
  r3. three_runs.
  { intros j s s1 s2 Hs. r3. apply R3_intro. apply Rq_upd; auto. rq_rw. cbv [ROps nadd nmul nsub ndiv lc]. unfold Rdiv. ring. }
  r3.
  match goal with |- Rq (if ?b then _ else _) _ _ => destruct b; auto end.
  three_runs.
  { intros j s s1 s2 Hs. r3. apply R3_intro. apply Rq_upd; auto. rq_rw. cbv [ROps nadd nmul nsub lc]. ring. }
  r3. auto. Qed.
Lemma final_linear ider m q q1 q2 : Rq q q1 q2 ->
  ph_final ROps ider m q = lc (ph_final ROps ider m q1) (ph_final ROps ider m q2).
Proof. intros H. unfold ph_final. cbv zeta. destruct (0 <? ider); auto.
  apply (loop_rel (fun z z1 z2 : R => z = lc z1 z2)); auto.
  intros j z z1 z2 Hz. rewrite Hz. cbv [ROps nmul lc]. ring. Qed.

Lemma splder_linear ider m n l c1 c2 :
  splder_at ROps ider m n t x (fun j => lc (c1 j) (c2 j)) l =
  lc (splder_at ROps ider m n t x c1 l) (splder_at ROps ider m n t x c2 l).
Proof. rewrite !splder_at_phases. destruct (2 * m - ider <? 1).
  - cbv [ROps nofZ lc]. ring.
  - apply final_linear, eval_linear, diff_linear, load_linear. Qed.
End Linearity.
(** linearity of the evaluation in the coefficient array, for every half order, derivative order, knot array and interval *)
Lemma splder_at_linear_in_coefficients a b ider m n t x c1 c2 l :
  splder_at ROps ider m n t x (fun j => (a * c1 j + b * c2 j)%R) l =
  (a * splder_at ROps ider m n t x c1 l + b * splder_at ROps ider m n t x c2 l)%R.
Proof. exact (splder_linear a b x t ider m n l c1 c2). Qed.
(** ** search_: for strictly increasing knots the result is the bracketing interval, whatever the initial guess *)
Lemma bisect_spec x t : forall fuel il iu, (x il <= t)%R -> (t < x iu)%R -> il < iu -> (Z.to_nat (iu - il) <= fuel)%nat ->
  let l := bisect ROps x t fuel il iu in il <= l < iu /\ (x l <= t)%R /\ (t < x (l + 1)%Z)%R.
Proof. induction fuel as [| f IH]; intros il iu Hl Hu Hlt Hf; [lia|].
  cbv zeta. cbn [bisect]. cbv zeta.
  assert (Hm : il <= (il + iu) / 2 < iu).
  { split; [apply Z.div_le_lower_bound | apply Z.div_lt_upper_bound]; lia. }
  destruct (iu - il <=? 1) eqn:E.
  - apply Z.leb_le in E. assert (iu = il + 1) by lia. subst iu.
    replace ((il + (il + 1)) / 2) with il by (apply Z.div_unique with (r := 1); lia). repeat split; auto; lia.
  - apply Z.leb_gt in E.
    assert (Hm2 : il + 1 <= (il + iu) / 2). { apply Z.div_le_lower_bound; lia. }
    change (nltb ROps t (x ((il + iu) / 2))) with (Rltb t (x ((il + iu) / 2))). destruct (Rltb t (x ((il + iu) / 2))) eqn:C.
    + apply Rltb_true in C. assert (F1 : il < (il + iu) / 2) by lia. assert (F2 : (Z.to_nat ((il + iu) / 2 - il) <= f)%nat) by lia. assert (P := IH il ((il + iu) / 2) Hl C F1 F2). cbv zeta in P. destruct P as [A B]. split; [lia | exact B].
    + apply Rltb_false in C. assert (F1 : (il + iu) / 2 < iu) by lia. assert (F2 : (Z.to_nat (iu - (il + iu) / 2) <= f)%nat) by lia. assert (P := IH ((il + iu) / 2) iu C Hu F1 F2). cbv zeta in P. destruct P as [A B]. split; [lia | exact B].
Qed.
Lemma bracket_unique n x t l l' : knots_increasing n x -> 1 <= l -> l < n -> 1 <= l' -> l' < n ->
  (x l <= t < x (l + 1)%Z)%R -> (x l' <= t < x (l' + 1)%Z)%R -> l = l'.
Proof. intros H Hl1 Hl2 Hl1' Hl2' B B'. destruct (Z.lt_trichotomy l l') as [C | [C | C]]; auto; exfalso.
  - assert (x (l + 1)%Z <= x l')%R. { destruct (Z.eq_dec (l + 1) l') as [-> | ?]; [lra|]. apply Rlt_le, H; lia. } lra.
  - assert (x (l' + 1)%Z <= x l)%R. { destruct (Z.eq_dec (l' + 1) l) as [-> | ?]; [lra|]. apply Rlt_le, H; lia. } lra.
Qed.
Lemma search_spec n x t l0 : 2 <= n -> knots_increasing n x ->
  let l := search ROps n x t l0 in
  ((t < x 1%Z)%R -> l = 0) /\ ((x n <= t)%R -> l = n) /\
  ((x 1%Z <= t < x n)%R -> 1 <= l < n /\ (x l <= t < x (l + 1)%Z)%R).
Proof. intros Hn H. cbv zeta. unfold search. change (nltb ROps) with Rltb. change (nleb ROps) with Rleb.
  destruct (Rltb t (x 1)) eqn:C1.
  { apply Rltb_true in C1. repeat split; auto; intros; try lra. assert (x 1%Z < x n)%R by (apply H; lia). lra. }
  apply Rltb_false in C1. destruct (Rleb (x n) t) eqn:C2.
  { apply Rleb_true in C2. repeat split; auto; intros; lra. }
  apply Rleb_false in C2. split; [intros; lra|]. split; [intros; lra|]. intros _.
  set (la := Z.max l0 1). set (lb := if n <=? la then n - 1 else la).
  assert (Hlb : 1 <= lb < n). { unfold lb. destruct (n <=? la) eqn:E; [apply Z.leb_le in E | apply Z.leb_gt in E]; unfold la in *; lia. }
  destruct (Rleb (x lb) t) eqn:C3.
  - apply Rleb_true in C3. destruct (Rltb t (x (lb + 1)%Z)) eqn:C4.
    + apply Rltb_true in C4. split; [lia | lra].
    + apply Rltb_false in C4. destruct (Rltb t (x (lb + 1 + 1))) eqn:C5.
      * apply Rltb_true in C5. assert (lb + 1 < n). { destruct (Z.eq_dec (lb + 1) n) as [E | E]; [rewrite E in C4; lra | lia]. }
        split; [lia | lra].
      * apply Rltb_false in C5.
        assert (lb + 1 < n). { destruct (Z.eq_dec (lb + 1) n) as [E | E]; [rewrite E in C4; lra | lia]. }
        assert (lb + 1 + 1 < n). { destruct (Z.eq_dec (lb + 1 + 1) n) as [E | E]; [rewrite E in C5; lra | lia]. }
        assert (F1 : lb + 1 + 1 < n) by lia. assert (F2 : (Z.to_nat (n - (lb + 1 + 1)) <= Z.to_nat n)%nat) by lia. assert (P := bisect_spec x t (Z.to_nat n) (lb + 1 + 1) n C5 C2 F1 F2). cbv zeta in P. destruct P as [A B]. split; [lia | lra].
  - apply Rleb_false in C3. destruct (Rleb (x (lb - 1)) t) eqn:C6.
    + apply Rleb_true in C6. assert (1 < lb). { destruct (Z.eq_dec lb 1) as [E | E]; [rewrite E in C3; lra | lia]. }
      replace (lb - 1 + 1) with lb by ring. split; [lia | lra].
    + apply Rleb_false in C6. assert (1 < lb). { destruct (Z.eq_dec lb 1) as [E | E]; [rewrite E in C3; lra | lia]. }
      assert (1 < lb - 1). { destruct (Z.eq_dec (lb - 1) 1) as [E | E]; [rewrite E in C6; lra | lia]. }
      assert (F1 : 1 < lb - 1) by lia. assert (F2 : (Z.to_nat (lb - 1 - 1) <= Z.to_nat n)%nat) by lia. assert (P := bisect_spec x t (Z.to_nat n) 1 (lb - 1) C1 C6 F1 F2). cbv zeta in P. destruct P as [A B]. split; [lia | lra].
Qed.
(** the result does not depend on the initial guess, and it is locally constant inside a knot interval *)
Lemma search_guess_irrelevant n x t l0 l0' : 2 <= n -> knots_increasing n x ->
  search ROps n x t l0 = search ROps n x t l0'.
Proof. intros Hn H. destruct (search_spec n x t l0 Hn H) as [A [B C]]. destruct (search_spec n x t l0' Hn H) as [A' [B' C']].
  destruct (Rlt_dec t (x 1)) as [D | D]; [rewrite A, A'; auto|].
  destruct (Rle_dec (x n) t) as [E | E]; [rewrite B, B'; auto|].
  assert (F : (x 1%Z <= t < x n)%R) by lra. destruct (C F) as [G1 G2]. destruct (C' F) as [G1' G2'].
  apply (bracket_unique n x t); auto; lia. Qed.
Lemma search_in_interval n x t l l0 : 2 <= n -> knots_increasing n x -> 1 <= l < n -> (x l <= t < x (l + 1)%Z)%R ->
  search ROps n x t l0 = l.
Proof. intros Hn H Hl B. destruct (search_spec n x t l0 Hn H) as [_ [_ C]].
  assert (F : (x 1%Z <= t < x n)%R).
  { split. - destruct (Z.eq_dec l 1) as [-> | ?]; [lra|]. assert (x 1%Z < x l)%R by (apply H; lia). lra.
    - destruct (Z.eq_dec (l + 1) n) as [<- | ?]; [lra|]. assert (x (l + 1)%Z < x n)%R by (apply H; lia). lra. }
  destruct (C F) as [G1 G2]. symmetry. apply (bracket_unique n x t); auto; lia. Qed.
(** ** from a polynomial piece to the spline with its interval search: strictly inside a knot interval the search result is
    locally constant (whatever guess the caller supplies, even one that depends on t as in GCVSPLUtil::splder) *)
Lemma derive_inside_interval k m n x c l (g : R -> Z) t0 : 2 <= n -> knots_increasing n x -> 1 <= l < n ->
  (x l < t0 < x (l + 1)%Z)%R ->
  is_derive (fun t => splder_at ROps k m n t x c l) t0 (splder_at ROps (k + 1) m n t0 x c l) ->
  is_derive (fun t => splder ROps k m n t x c (g t)) t0 (splder ROps (k + 1) m n t0 x c (g t0)).
Proof. intros Hn H Hl B D. unfold splder at 2. rewrite (search_in_interval n x t0 l) by (auto; lra).
  apply is_derive_ext_loc with (f := fun t => splder_at ROps k m n t x c l); auto.
  assert (Hd : (0 < Rmin (t0 - x l) (x (l + 1)%Z - t0))%R) by (apply Rmin_pos; lra).
  exists (mkposreal _ Hd). intros t Ht. unfold ball in Ht; simpl in Ht. unfold AbsRing_ball, abs, minus, plus, opp in Ht; simpl in Ht.
  apply Rabs_def2 in Ht. generalize (Rmin_l (t0 - x l) (x (l + 1)%Z - t0)) (Rmin_r (t0 - x l) (x (l + 1)%Z - t0)); intros.
  unfold splder. rewrite (search_in_interval n x t l); auto. lra. Qed.

(** ** degree 1 (m = 1): every knot count n >= 2, every interval 1 <= l <= n-1 *)
Section Degree1.
Variables (n l : Z) (x c : Z -> R).
Lemma d1_form0 : 1 <= l <= n - 1 -> { F : R -> R | forall t, splder_at ROps 0 1 n t x c l = F t }.
Proof. intros. mkform. Defined.
Lemma d1_form1 : 1 <= l <= n - 1 -> { F : R -> R | forall t, splder_at ROps 1 1 n t x c l = F t }.
Proof. intros. mkform. Defined.
Lemma d1_formE : 2 <= n -> { F : R -> R | forall t, splder_at ROps 0 1 n t x c n = F t }.
Proof. intros. mkform. Defined.
End Degree1.

(** the order-0 piece is the straight line through (x_l, c_l) and (x_{l+1}, c_{l+1}); order 1 its slope; order 2 zero *)
Lemma deg1_linear_interpolation n l x c t : 1 <= l <= n - 1 ->
  splder_at ROps 0 1 n t x c l = (c (l + 1)%Z + (x (l + 1)%Z - t) * (c l - c (l + 1)%Z) / (x (l + 1)%Z - x l))%R /\
  splder_at ROps 1 1 n t x c l = ((c (l + 1)%Z - c l) / (x (l + 1)%Z - x l))%R.
Proof. intros H. rewrite (proj2_sig (d1_form0 n l x c H)), (proj2_sig (d1_form1 n l x c H)).
  cbv [proj1_sig d1_form0 d1_form1]. split; [reflexivity | apply Rmult_1_r]. Qed.
Lemma deg1_derivative_chain n l x c t : 1 <= l <= n - 1 -> knots_increasing n x ->
  is_derive (fun t => splder_at ROps 0 1 n t x c l) t (splder_at ROps 1 1 n t x c l) /\
  is_derive (fun t => splder_at ROps 1 1 n t x c l) t (splder_at ROps 2 1 n t x c l).
Proof. intros H K. split.
  - apply is_derive_ext with (f := proj1_sig (d1_form0 n l x c H)). { intros u. symmetry. apply (proj2_sig (d1_form0 n l x c H)). }
    rewrite (proj2_sig (d1_form1 n l x c H)). cbv [proj1_sig d1_form0 d1_form1].
    auto_derive; [exact I | field; nz K].
  - apply is_derive_ext with (f := proj1_sig (d1_form1 n l x c H)). { intros u. symmetry. apply (proj2_sig (d1_form1 n l x c H)). }
    rewrite order_above_degree_zero by lia. cbv [proj1_sig d1_form1]. auto_derive; [exact I | ring]. Qed.
(** the degree-1 spline passes through its control points (x_j, c_j), j = 1..n, and is continuous at every interior knot *)
Lemma deg1_interpolates n x c : 2 <= n -> knots_increasing n x ->
  (forall l, 1 <= l <= n - 1 -> splder_at ROps 0 1 n (x l) x c l = c l /\ splder_at ROps 0 1 n (x (l + 1)) x c l = c (l + 1)) /\
  splder_at ROps 0 1 n (x n) x c n = c n.
Proof. intros Hn K. split.
  - intros l H. rewrite !(proj2_sig (d1_form0 n l x c H)). cbv [proj1_sig d1_form0]. split; field; nz K.
  - rewrite (proj2_sig (d1_formE n x c Hn)). cbv [proj1_sig d1_formE]. ring. Qed.
Lemma deg1_value_continuous n l x c : 1 <= l <= n - 2 -> knots_increasing n x ->
  splder_at ROps 0 1 n (x (l + 1)) x c l = splder_at ROps 0 1 n (x (l + 1)) x c (l + 1).
Proof. intros H K. assert (Hn : 2 <= n) by lia. destruct (deg1_interpolates n x c Hn K) as [A _].
  destruct (A l) as [_ E1]; [lia|]. destruct (A (l + 1)) as [E2 _]; [lia|]. rewrite E1, E2. reflexivity. Qed.
(** with the interval search: strictly inside a knot interval the reported first derivative of a degree-1 spline is the
    derivative of its value, and the reported second derivative (0) that of the first *)
Lemma deg1_spline_derivative_inside n l x c (g : R -> Z) t0 : 2 <= n -> knots_increasing n x -> 1 <= l < n ->
  (x l < t0 < x (l + 1)%Z)%R ->
  is_derive (fun t => splder ROps 0 1 n t x c (g t)) t0 (splder ROps 1 1 n t0 x c (g t0)) /\
  is_derive (fun t => splder ROps 1 1 n t x c (g t)) t0 (splder ROps 2 1 n t0 x c (g t0)).
Proof. intros Hn K Hl B. assert (Hl' : 1 <= l <= n - 1) by lia. destruct (deg1_derivative_chain n l x c t0 Hl' K) as [D1 D2].
  split; [apply (derive_inside_interval 0 1 n x c l g t0) | apply (derive_inside_interval 1 1 n x c l g t0)]; auto. Qed.
