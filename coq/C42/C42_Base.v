(** C42: proofs, part 4: mustBeBaseBody.  Step 1 of generateGraph gives every must-be-base body a tree-eligible joint to
    Ground (a given one, or an added free joint); the body then ends at level 1, or else was mobilized by the
    massless-chain extension outboard of a body that is not massful (DESIGN 7.19 pattern (ii)). *)
From Coq Require Import List ZArith Bool Arith Lia.
Import ListNotations.
Require Import C42_Model C42_Proofs C42_Fuel.

Section Base.
Variable T : list jtype.
Variable B : list body.
Variable F : nat.
Variable b : nat.
Hypothesis b_pos : b <> 0.

Definition link (J : list joint) (jn : nat) : Prop :=
  (jpar (nth jn J jd) = 0 /\ jchi (nth jn J jd) = b) \/ (jpar (nth jn J jd) = b /\ jchi (nth jn J jd) = 0).
Definition groundLink (J : list joint) (jn : nat) : Prop := jn < length J /\ jloop (nth jn J jd) = false /\ link J jn.

Lemma groundLink_snoc J x jn : groundLink J jn -> groundLink (J ++ [x]) jn.
Proof.
  intros (H1 & H2 & H3). unfold groundLink, link in *. rewrite app_length, app_nth1 by auto. repeat split; auto. lia.
Qed.

Lemma treeJoint_true J : treeJointToGround J b = true -> exists jn, groundLink J jn.
Proof.
  unfold treeJointToGround. intros H. apply orb_true_iff in H. destruct H as [H|H];
    apply existsb_exists in H; destruct H as (jn & H1 & H2); apply andb_true_iff in H2; destruct H2 as [H2 H3];
    apply Nat.eqb_eq in H2; apply negb_true_iff in H3; exists jn.
  - apply in_asParent in H1. destruct H1 as [H1 H4]. repeat split; auto. right. auto.
  - apply in_asChild in H1. destruct H1 as [H1 H4]. repeat split; auto. left. auto.
Qed.

(* ------------------------------------------------------------------ step 1 provides the Ground joint *)
Lemma precheck_link_mono : forall bns J J', (exists jn, groundLink J jn) -> precheck T B bns J = Ok J' -> exists jn, groundLink J' jn.
Proof.
  induction bns as [|bn r IH]; simpl; intros J J' HG H.
  - inv H. auto.
  - repeat dm; try discriminate; eapply IH; try exact H; auto;
      destruct HG as (jn & HG); exists jn; apply groundLink_snoc; auto.
Qed.

Lemma precheck_link : baseOf B b = true -> forall bns J J',
  In b bns -> precheck T B bns J = Ok J' -> exists jn, groundLink J' jn.
Proof.
  intros Hbase. induction bns as [|bn r IH]; simpl; intros J J' Hin H; [destruct Hin|].
  destruct (Nat.eq_dec bn b) as [->|Hne].
  - match type of H with match ?bad with _ => _ end = _ => destruct bad; [discriminate|] end.
    match type of H with (if ?c then _ else _) = _ => destruct c eqn:Ec end.
    + eapply precheck_link_mono; [|exact H].
      exists (length J). unfold groundLink, link. rewrite app_length, app_nth2, Nat.sub_diag by auto. simpl.
      repeat split; auto. lia.
    + eapply precheck_link_mono; [|exact H]. apply treeJoint_true.
      rewrite Hbase in Ec. simpl in Ec. apply orb_false_iff in Ec. destruct Ec as [_ Ec]. apply negb_false_iff in Ec. exact Ec.
  - destruct Hin as [E|Hin]; [congruence|].
    match type of H with match ?bad with _ => _ end = _ => destruct bad; [discriminate|] end.
    match type of H with (if ?c then _ else _) = _ => destruct c end; eapply IH; eauto.
Qed.

(* ------------------------------------------------------------------ the first level-1 sweep reaches the Ground joint *)
Definition NotMassful (x : nat) : Prop := Z.gtb (massOf B x) 0 = false.
Definition BaseOK (m : mob) : Prop := mlevel m = 1 \/ NotMassful (minb m).
Definition GoodB (s : tstate) : Prop := forall m, In m (mobs s) -> moutb m = b -> BaseOK m.

Lemma goodb_snoc s s1 y : GoodB s -> mobs s1 = mobs s ++ [y] -> (moutb y = b -> BaseOK y) -> GoodB s1.
Proof.
  intros HG E Hy m Hm Hb. rewrite E in Hm. apply in_app_or in Hm. destruct Hm as [Hm|[<-|[]]]; auto.
Qed.

Lemma chain_goodb J : forall fuel s added s' added',
  Inv J s -> GoodB s -> NotMassful (lastOutb s) -> chain B fuel J s added = Ok (s', added') -> GoodB s'.
Proof.
  induction fuel as [|f IH]; simpl; intros s added s' added' HI HG HN H; [discriminate|].
  destruct (findFwd B J s (lastOutb s)) as [jf|] eqn:Ef.
  - destruct (fwd_pre B J s jf HI Ef) as (P1 & P2 & P3 & P4).
    destruct (chain_step_fwd B J s jf HI Ef) as (y & Y1 & Y2 & Y3).
    assert (GY : GoodB (addMob J jf s)) by (eapply goodb_snoc; [exact HG|exact Y1|]; intros _; right; unfold NotMassful; rewrite Y2; auto).
    destruct (Z.gtb (massOf B (jchi (nth jf J jd))) 0) eqn:Em.
    + inv H. auto.
    + destruct (findRev B J s (lastOutb s)) as [jr|] eqn:Er.
      * destruct (rev_pre B J s jr HI Er) as (Q1 & Q2 & Q3 & Q4).
        destruct (chain_step_rev B J s jr HI Er) as (z & Z1 & Z2 & Z3).
        destruct (Z.gtb (massOf B (jpar (nth jr J jd))) 0) eqn:Em2.
        -- inv H. eapply goodb_snoc; [exact HG|exact Z1|]. intros _. right. unfold NotMassful. rewrite Z2. auto.
        -- eapply IH; [| | |exact H]; auto. { apply addMob_inv; auto. }
           unfold NotMassful. rewrite (lastOutb_snoc _ _ _ Y1), Y3. auto.
      * eapply IH; [| | |exact H]; auto. { apply addMob_inv; auto. }
        unfold NotMassful. rewrite (lastOutb_snoc _ _ _ Y1), Y3. auto.
  - destruct (findRev B J s (lastOutb s)) as [jr|] eqn:Er.
    + destruct (rev_pre B J s jr HI Er) as (Q1 & Q2 & Q3 & Q4).
      destruct (chain_step_rev B J s jr HI Er) as (z & Z1 & Z2 & Z3).
      assert (GZ : GoodB (addMob J jr s)) by (eapply goodb_snoc; [exact HG|exact Z1|]; intros _; right; unfold NotMassful; rewrite Z2; auto).
      destruct (Z.gtb (massOf B (jpar (nth jr J jd))) 0) eqn:Em2.
      * inv H. auto.
      * eapply IH; [| | |exact H]; auto. { apply addMob_inv; auto. }
        unfold NotMassful. rewrite (lastOutb_snoc _ _ _ Z1), Z3. auto.
    + discriminate.
Qed.

(** the mobilizer a level sweep adds directly is at the sweep's level *)
Lemma direct_level J s jn l0 m :
  xorb (inTree s (jpar (nth jn J jd))) (inTree s (jchi (nth jn J jd))) = true ->
  optEqb (if inTree s (jpar (nth jn J jd)) then lev s (jpar (nth jn J jd)) else lev s (jchi (nth jn J jd))) l0 = true ->
  mobs (addMob J jn s) = mobs s ++ [m] -> mlevel m = S l0.
Proof.
  intros Hx Ho Hm. unfold inTree in Ho.
  destruct (addMob_ext J jn s Hx) as [(l & E1 & E2 & E)|(l & E1 & E2 & E)]; rewrite E in Hm; simpl in Hm;
    apply app_inj_tail in Hm; destruct Hm as [_ <-]; simpl.
  - rewrite E1 in Ho. simpl in Ho. apply Nat.eqb_eq in Ho. lia.
  - rewrite E2, E1 in Ho. simpl in Ho. apply Nat.eqb_eq in Ho. lia.
Qed.

Lemma sweep0_goodb J : forall jns s added any s' added' any',
  Inv J s -> GoodB s -> Forall (fun jn => jn < length J) jns ->
  sweep T B F J 0 jns s added any = Ok (s', added', any') -> GoodB s'.
Proof.
  induction jns as [|jn r IH]; simpl; intros s added any s' added' any' HI HG HF H.
  - inv H. auto.
  - apply Forall_cons_iff in HF. destruct HF as [Hjn HF].
    destruct (jm s jn) eqn:Ejm.
    { eapply IH; eauto. }
    destruct (jloop (nth jn J jd)) eqn:El.
    { eapply IH; eauto. }
    destruct (negb (xorb (inTree s (jpar (nth jn J jd))) (inTree s (jchi (nth jn J jd))))) eqn:Ex.
    { eapply IH; eauto. }
    apply negb_false_iff in Ex.
    match type of H with (if negb ?c then _ else _) = _ => destruct c eqn:Elv end; simpl in H.
    2:{ eapply IH; eauto. }
    assert (HI1 : Inv J (addMob J jn s)) by (apply addMob_inv; auto).
    destruct (addMob_mobs_snoc J jn s Ex) as (m & Hm & _).
    pose proof (direct_level J s jn 0 m Ex Elv Hm) as Hl.
    assert (HG1 : GoodB (addMob J jn s)) by (eapply goodb_snoc; [exact HG|exact Hm|]; intros _; left; auto).
    rewrite (lastOutb_snoc _ _ _ Hm) in H.
    destruct (Nat.eqb (dofOf T (nth jn J jd)) 0 || Z.gtb (massOf B (moutb m)) 0) eqn:Ec.
    { eapply IH; [| | |exact H]; auto. }
    destruct (chain B F J (addMob J jn s) (jn :: added)) as [[s2 added2]| |] eqn:Ech; try discriminate.
    apply orb_false_iff in Ec. destruct Ec as [_ Ec].
    eapply IH; [| | |exact H]; auto.
    + eapply chain_inv; eauto.
    + eapply chain_goodb; eauto. unfold NotMassful. rewrite (lastOutb_snoc _ _ _ Hm). auto.
Qed.

Lemma sweep0_linked J jn : groundLink J jn -> forall jns s added any s' added' any',
  Inv J s -> Forall (fun x => x < length J) jns -> In jn jns ->
  sweep T B F J 0 jns s added any = Ok (s', added', any') -> lev s' b <> None.
Proof.
  intros (G1 & G4 & GL). induction jns as [|x r IH]; simpl; intros s added any s' added' any' HI HF Hin H; [destruct Hin|].
  apply Forall_cons_iff in HF. destruct HF as [Hxl HF].
  assert (Hdone : forall s1 a1 y1, Inv J s1 -> lev s1 b <> None -> sweep T B F J 0 r s1 a1 y1 = Ok (s', added', any') -> lev s' b <> None).
  { intros s1 a1 y1 HI1 Hb Hs. destruct (lev s1 b) as [l|] eqn:El; [|congruence].
    assert (HM : LevMono s1 s') by (eapply sweep_gen; [apply levmono_step|exact HI1|apply levmono_refl| |exact Hs]; auto).
    rewrite (HM _ _ El). discriminate. }
  assert (Hjm : forall s1, Inv J s1 -> jm s1 jn <> None -> lev s1 b <> None).
  { intros s1 HI1 Hj. destruct (jm s1 jn) as [i|] eqn:Ej; [|congruence].
    destruct (I_jm _ _ HI1 _ _ Ej) as (m & Hm & Hmj). destruct (I_mob _ _ HI1 _ _ Hm) as (_ & _ & M3 & M4 & M5 & _).
    rewrite Hmj in M3. destruct GL as [[G2 G3]|[G2 G3]]; destruct M3 as [(_ & _ & E)|(_ & _ & E)];
      rewrite ?G2, ?G3 in E; try congruence; rewrite <- E; congruence. }
  destruct (Nat.eq_dec x jn) as [->|Hne].
  - (* the Ground joint itself *)
    destruct (jm s jn) as [i|] eqn:Ejm.
    { eapply Hdone; [exact HI| |exact H]. apply Hjm; auto. congruence. }
    rewrite G4 in H. assert (E0 := I_ground _ _ HI).
    destruct (lev s b) as [lb|] eqn:Eb.
    { assert (Hx0 : xorb (inTree s (jpar (nth jn J jd))) (inTree s (jchi (nth jn J jd))) = false)
        by (unfold inTree; destruct GL as [[G2 G3]|[G2 G3]]; rewrite G2, G3, E0, Eb; reflexivity).
      rewrite Hx0 in H. simpl in H. eapply Hdone; [exact HI| |exact H]. congruence. }
    assert (Hx : xorb (inTree s (jpar (nth jn J jd))) (inTree s (jchi (nth jn J jd))) = true)
      by (unfold inTree; destruct GL as [[G2 G3]|[G2 G3]]; rewrite G2, G3, E0, Eb; reflexivity).
    assert (Hopt : optEqb (if inTree s (jpar (nth jn J jd)) then lev s (jpar (nth jn J jd)) else lev s (jchi (nth jn J jd))) 0 = true)
      by (unfold inTree; destruct GL as [[G2 G3]|[G2 G3]]; rewrite G2, G3, ?E0, ?Eb; simpl; rewrite ?E0; reflexivity).
    rewrite Hx, Hopt in H. simpl in H.
    assert (HI1 : Inv J (addMob J jn s)) by (apply addMob_inv; auto).
    assert (Hb1 : lev (addMob J jn s) b <> None).
    { apply Hjm; auto. destruct (addMob_ext J jn s Hx) as [(l & _ & _ & ->)|(l & _ & _ & ->)]; simpl; rewrite upd_same; discriminate. }
    match type of H with (if ?c then _ else _) = _ => destruct c end.
    { eapply Hdone; [| |exact H]; auto. }
    destruct (chain B F J (addMob J jn s) (jn :: added)) as [[s2 added2]| |] eqn:Ec; try discriminate.
    eapply Hdone; [| |exact H].
    + eapply chain_inv; eauto.
    + destruct (lev (addMob J jn s) b) as [l1|] eqn:El1; [|congruence].
      assert (HM : LevMono (addMob J jn s) s2) by (eapply chain_gen; [apply levmono_step|exact HI1|apply levmono_refl|exact Ec]).
      rewrite (HM _ _ El1). discriminate.
  - destruct Hin as [Hin|Hin]; [congruence|].
    destruct (jm s x) eqn:Ejm.
    { eapply IH; eauto. }
    destruct (jloop (nth x J jd)) eqn:El.
    { eapply IH; eauto. }
    destruct (negb (xorb (inTree s (jpar (nth x J jd))) (inTree s (jchi (nth x J jd))))) eqn:Ex.
    { eapply IH; eauto. }
    apply negb_false_iff in Ex.
    match type of H with (if negb ?c then _ else _) = _ => destruct c end; simpl in H.
    2:{ eapply IH; eauto. }
    assert (HI1 : Inv J (addMob J x s)) by (apply addMob_inv; auto).
    match type of H with (if ?c then _ else _) = _ => destruct c end.
    { eapply IH; [| | |exact H]; auto. }
    destruct (chain B F J (addMob J x s) (x :: added)) as [[s2 added2]| |] eqn:Ec; try discriminate.
    eapply IH; [| | |exact H]; auto. eapply chain_inv; eauto.
Qed.

(* ------------------------------------------------------------------ once in the tree at a good place, forever *)
Definition Settled (s : tstate) : Prop := lev s b <> None /\ GoodB s.

Lemma settled_step J s jn : Inv J s -> Settled s -> legal J s jn -> Settled (addMob J jn s).
Proof.
  intros HI [Hb HG] L. destruct (lev s b) as [l|] eqn:Eb; [|congruence]. split.
  - rewrite (addMob_lev_mono J s jn b l L Eb). discriminate.
  - destruct L as (_ & _ & _ & Hx). destruct (addMob_mobs_snoc J jn s Hx) as (m & Hm & _ & _ & _ & Hout & _).
    eapply goodb_snoc; [exact HG|exact Hm|]. intros E. rewrite E in Hout. congruence.
Qed.

Lemma growTree_settles J jn s s' : groundLink J jn -> Inv J s -> GoodB s -> growTree T B F J s = Ok s' -> Settled s'.
Proof.
  intros G HI HG H. unfold growTree in H.
  destruct F as [|f] eqn:EF; [discriminate|]. rewrite <- EF in H. rewrite EF in H at 2. simpl in H.
  destruct (sweep T B F J 0 (seq 0 (length J)) s [] false) as [[[s1 added1] any1]| |] eqn:Es; try discriminate.
  assert (HI1 : Inv J s1) by (eapply sweep_inv; eauto using seq_lt).
  assert (HS1 : Settled s1).
  { split.
    - eapply sweep0_linked; [exact G|exact HI|apply seq_lt| |exact Es]. apply in_seq. destruct G; lia.
    - eapply sweep0_goodb; [exact HI|exact HG|apply seq_lt|exact Es]. }
  destruct any1.
  - eapply levels_gen; [apply settled_step|exact HI1|exact HS1|exact H].
  - inv H. auto.
Qed.

Lemma mainloop_settles : forall fuel J s J' s',
  Inv J s -> (Settled s \/ (GoodB s /\ exists jn, groundLink J jn)) ->
  mainloop T B F fuel J s = Ok (J', s') -> Settled s'.
Proof.
  induction fuel as [|f IH]; simpl; intros J s J' s' HI HS H; [discriminate|].
  destruct (growTree T B F J s) as [s1| |] eqn:Eg; try discriminate.
  assert (HI1 : Inv J s1) by (eapply growTree_inv; eauto).
  assert (HS1 : Settled s1).
  { destruct HS as [HS|[HG (jn & G)]].
    - unfold growTree in Eg. eapply levels_gen; [apply settled_step|exact HI|exact HS|exact Eg].
    - eapply growTree_settles; [exact G|exact HI|exact HG|exact Eg]. }
  destruct (chooseNewBase B J s1) as [b'|] eqn:Ec.
  - eapply IH; [| |exact H]; auto using inv_snoc.
  - inv H. auto.
Qed.

End Base.
