(** C42: proofs, part 2: breakLoops in closed form, the shape of every graph the model returns
    ([generate_ok]), and the property theorems derived from it. *)
From Coq Require Import List ZArith Bool Arith Lia.
Import ListNotations.
Require Import C42_Model C42_Proofs.

(* ------------------------------------------------------------------ counting *)
Definition occ {A} (p : A -> bool) (l : list A) : nat := length (filter p l).

Lemma occ_app {A} (p : A -> bool) l1 l2 : occ p (l1 ++ l2) = occ p l1 + occ p l2.
Proof. unfold occ. rewrite filter_app, app_length. reflexivity. Qed.
Lemma occ_cons {A} (p : A -> bool) x l : occ p (x :: l) = (if p x then 1 else 0) + occ p l.
Proof. unfold occ. simpl. destruct (p x); reflexivity. Qed.
Lemma occ_map {A C} (f : A -> C) (p : C -> bool) l : occ p (map f l) = occ (fun x => p (f x)) l.
Proof. induction l as [|x l IH]; auto. simpl map. rewrite !occ_cons, IH. reflexivity. Qed.
Lemma occ_zero {A} (p : A -> bool) l : (forall x, In x l -> p x = false) -> occ p l = 0.
Proof.
  induction l as [|x l IH]; intros H; auto. rewrite occ_cons, (H x), IH; simpl; auto.
  intros y Hy. apply H. simpl; auto.
Qed.
Lemma occ_pos_in {A} (p : A -> bool) l : occ p l <> 0 -> exists x, In x l /\ p x = true.
Proof.
  induction l as [|x l IH]; intros H. { exfalso; auto. }
  rewrite occ_cons in H. destruct (p x) eqn:E.
  - exists x. simpl; auto.
  - destruct IH as (y & Hy & Hp); auto. exists y. simpl; auto.
Qed.

Lemma occ_one_nth {A} (p : A -> bool) l :
  (exists i m, nth_error l i = Some m /\ p m = true) ->
  (forall i i' m m', nth_error l i = Some m -> nth_error l i' = Some m' -> p m = true -> p m' = true -> i = i') ->
  occ p l = 1.
Proof.
  induction l as [|x l IH]; intros (i & m & H1 & H2) Hu.
  - destruct i; discriminate.
  - rewrite occ_cons. destruct (p x) eqn:E.
    + rewrite occ_zero; auto. intros y Hy. destruct (p y) eqn:Ey; auto.
      apply In_nth_error in Hy. destruct Hy as (k & Hk).
      specialize (Hu 0 (S k) x y eq_refl Hk E Ey). discriminate.
    + destruct i as [|i]. { simpl in H1. inv H1. congruence. }
      simpl. apply IH. { exists i, m. auto. }
      intros a a' u u' Ha Ha' Pu Pu'. specialize (Hu (S a) (S a') u u' Ha Ha' Pu Pu'). lia.
Qed.

Lemma occ_filter {A} (p q : A -> bool) l : occ p (filter q l) = occ (fun x => q x && p x) l.
Proof.
  induction l as [|x l IH]; auto. simpl. destruct (q x) eqn:E; rewrite ?occ_cons, IH, ?E; simpl; auto.
Qed.
Lemma occ_ext {A} (p q : A -> bool) l : (forall x, In x l -> p x = q x) -> occ p l = occ q l.
Proof.
  induction l as [|x l IH]; intros H; auto. rewrite !occ_cons, (H x), IH; simpl; auto.
  intros y Hy. apply H. simpl; auto.
Qed.
Lemma occ_seq j : forall n a, occ (fun x => Nat.eqb x j) (seq a n) = if (a <=? j) && (j <? a + n) then 1 else 0.
Proof.
  induction n as [|n IH]; intros a; simpl seq.
  - unfold occ; simpl. destruct (a <=? j) eqn:E1, (j <? a + 0) eqn:E2; auto.
    apply Nat.leb_le in E1. apply Nat.ltb_lt in E2. lia.
  - rewrite occ_cons, IH.
    destruct (Nat.eqb a j) eqn:E0; destruct (a <=? j) eqn:E1; destruct (S a <=? j) eqn:E3;
    destruct (j <? S a + n) eqn:E4; destruct (j <? a + S n) eqn:E5; simpl; auto;
    rewrite ?Nat.eqb_eq, ?Nat.eqb_neq, ?Nat.leb_le, ?Nat.leb_gt, ?Nat.ltb_lt, ?Nat.ltb_ge in *; lia.
Qed.
Lemma occ_filter_seq (q : nat -> bool) j n : j < n ->
  occ (fun x => Nat.eqb x j) (filter q (seq 0 n)) = if q j then 1 else 0.
Proof.
  intros H. rewrite occ_filter.
  rewrite (occ_ext _ (fun x => if q j then Nat.eqb x j else false)).
  - destruct (q j).
    + rewrite occ_seq. simpl. apply Nat.ltb_lt in H. rewrite H. reflexivity.
    + apply occ_zero. auto.
  - intros x _. destruct (Nat.eqb x j) eqn:E.
    + apply Nat.eqb_eq in E. subst. destruct (q j); auto.
    + rewrite andb_false_r. destruct (q j); auto.
Qed.

Section Final.
Variable T : list jtype.
Variable B : list body.
Variable F : nat.

(* ------------------------------------------------------------------ breakLoops in closed form *)
Definition conP (J : list joint) (s : tstate) (jx : nat) : bool :=
  negb (isSome (jm s jx)) && tloop (typeOf T (nth jx J jd)).
Definition slvP (J : list joint) (s : tstate) (jx : nat) : bool :=
  negb (isSome (jm s jx)) && negb (tloop (typeOf T (nth jx J jd))).
Definition mkCon (J : list joint) (jx : nat) : lcon :=
  {| cjoint := jx; cpar := jpar (nth jx J jd); cchi := jchi (nth jx J jd); ctype := jty (nth jx J jd) |}.
Definition mkSlaveMob (J : list joint) (s : tstate) (jx k : nat) : mob :=
  {| mjoint := jx; mlevel := match lev s (jpar (nth jx J jd)) with Some l => S l | None => 0 end;
     minb := jpar (nth jx J jd); moutb := nb B + k; mrev := false |}.
Fixpoint slaveMobs (J : list joint) (s : tstate) (k0 : nat) (l : list nat) : list mob :=
  match l with [] => [] | jx :: r => mkSlaveMob J s jx k0 :: slaveMobs J s (S k0) r end.
Definition masterOf (J : list joint) (jx : nat) : nat := jchi (nth jx J jd).

Lemma breakL_closed J s : forall jxs b,
  breakL T B J s jxs b =
  {| bmobs := bmobs b ++ slaveMobs J s (length (bslaves b)) (filter (slvP J s) jxs);
     bcons := bcons b ++ map (mkCon J) (filter (conP J s) jxs);
     bslaves := bslaves b ++ map (masterOf J) (filter (slvP J s) jxs) |}.
Proof.
  induction jxs as [|jx r IH]; intros b; simpl.
  - rewrite !app_nil_r. destruct b; reflexivity.
  - assert (Hc : conP J s jx = match jm s jx with Some _ => false | None => tloop (typeOf T (nth jx J jd)) end)
      by (unfold conP; destruct (jm s jx); reflexivity).
    assert (Hs : slvP J s jx = match jm s jx with Some _ => false | None => negb (tloop (typeOf T (nth jx J jd))) end)
      by (unfold slvP; destruct (jm s jx); reflexivity).
    rewrite Hc, Hs. destruct (jm s jx) eqn:Ej; [apply IH|].
    destruct (tloop (typeOf T (nth jx J jd))) eqn:Et; simpl; rewrite IH; simpl.
    + rewrite <- app_assoc. reflexivity.
    + rewrite <- !app_assoc, app_length. simpl. rewrite Nat.add_1_r. reflexivity.
Qed.

Lemma slaveMobs_nth J s : forall l k0 k m,
  nth_error (slaveMobs J s k0 l) k = Some m <-> exists jx, nth_error l k = Some jx /\ m = mkSlaveMob J s jx (k0 + k).
Proof.
  induction l as [|x l IH]; intros k0 k m; simpl.
  - destruct k; simpl; split; try discriminate; intros (jx & H & _); discriminate.
  - destruct k as [|k]; simpl.
    + rewrite Nat.add_0_r. split. { intros H; inv H. eauto. } intros (jx & H & ->). inv H. reflexivity.
    + rewrite IH. replace (S k0 + k) with (k0 + S k) by lia. reflexivity.
Qed.
Lemma slaveMobs_length J s : forall l k0, length (slaveMobs J s k0 l) = length l.
Proof. induction l; simpl; auto. Qed.
Lemma slaveMobs_in J s l k0 m : In m (slaveMobs J s k0 l) -> exists k jx, nth_error l k = Some jx /\ m = mkSlaveMob J s jx (k0 + k).
Proof. intros H. apply In_nth_error in H. destruct H as (k & H). apply slaveMobs_nth in H. eauto. Qed.
Lemma occ_slaveMobs_joint J s j : forall l k0,
  occ (fun m => Nat.eqb (mjoint m) j) (slaveMobs J s k0 l) = occ (fun x => Nat.eqb x j) l.
Proof. induction l as [|x l IH]; intros k0; auto. simpl. rewrite !occ_cons, IH. reflexivity. Qed.
Lemma occ_slaveMobs_outb J s b : forall l k0,
  occ (fun m => Nat.eqb (moutb m) b) (slaveMobs J s k0 l) = if (nb B + k0 <=? b) && (b <? nb B + k0 + length l) then 1 else 0.
Proof.
  induction l as [|x l IH]; intros k0; simpl.
  - unfold occ; simpl. destruct (nb B + k0 <=? b) eqn:E1, (b <? nb B + k0 + 0) eqn:E2; auto.
    apply Nat.leb_le in E1. apply Nat.ltb_lt in E2. lia.
  - rewrite occ_cons, IH. simpl.
    destruct (Nat.eqb (nb B + k0) b) eqn:E0; destruct (nb B + k0 <=? b) eqn:E1; destruct (nb B + S k0 <=? b) eqn:E3;
    destruct (b <? nb B + S k0 + length l) eqn:E4; destruct (b <? nb B + k0 + S (length l)) eqn:E5; simpl; auto;
    rewrite ?Nat.eqb_eq, ?Nat.eqb_neq, ?Nat.leb_le, ?Nat.leb_gt, ?Nat.ltb_lt, ?Nat.ltb_ge in *; lia.
Qed.

(* ------------------------------------------------------------------ the shape of every returned graph *)
Definition slaveJoints (J : list joint) (s : tstate) : list nat := filter (slvP J s) (seq 0 (length J)).
Definition conJoints (J : list joint) (s : tstate) : list nat := filter (conP J s) (seq 0 (length J)).

Record Shape (J0 : list joint) (g : graph) (s : tstate) : Prop := {
  S_inv : Inv (g_joints g) s;
  S_nt : NT T B (g_joints g) (mobs s);
  S_range : JRange B (g_joints g);
  S_ext : Extends B J0 (g_joints g);
  S_all : forall b, 1 <= b < nb B -> inTree s b = true;
  S_nb : g_nb g = nb B;
  S_nb1 : 1 <= nb B;
  S_mobs : g_mobs g = mobs s ++ slaveMobs (g_joints g) s 0 (slaveJoints (g_joints g) s);
  S_cons : g_cons g = map (mkCon (g_joints g)) (conJoints (g_joints g) s);
  S_slaves : g_slaves g = map (masterOf (g_joints g)) (slaveJoints (g_joints g) s);
  S_levels : g_levels g = map (lev s) (seq 0 (nb B))
}.

Lemma generateGraph_shape_ex J0 g : 1 <= nb B -> JRange B J0 -> generateGraph T B F J0 = Ok g ->
  exists J1 s, precheck T B (seq 1 (nb B - 1)) J0 = Ok J1 /\ mainloop T B F F J1 init_state = Ok (g_joints g, s) /\ Shape J0 g s.
Proof.
  unfold generateGraph. intros Hnb HR H.
  destruct (precheck T B (seq 1 (nb B - 1)) J0) as [J1| |] eqn:Ep; try discriminate.
  pose proof Ep as Ep'.
  apply precheck_spec in Ep; auto. 2:{ intros b Hb. apply in_seq in Hb. lia. }
  destruct Ep as [HR1 HE1].
  destruct (mainloop T B F F J1 init_state) as [[J s]| |] eqn:Em; try discriminate.
  pose proof Em as Em'.
  apply mainloop_spec in Em; auto using init_inv. 2:{ intros m []. }
  destruct Em as ((HI & HNT) & HR2 & HE2 & Hall).
  inv H. exists J1, s. rewrite breakL_closed. simpl. split; auto. split; auto. constructor; simpl; auto.
  eapply extends_trans; eauto.
Qed.

Lemma generateGraph_shape J0 g : 1 <= nb B -> JRange B J0 -> generateGraph T B F J0 = Ok g -> exists s, Shape J0 g s.
Proof. intros H1 H2 H3. destruct (generateGraph_shape_ex J0 g H1 H2 H3) as (J1 & s & _ & _ & SH). eauto. Qed.

(* ------------------------------------------------------------------ consequences of Shape *)
Section Conseq.
Variables (J0 : list joint) (g : graph) (s : tstate).
Hypothesis SH : Shape J0 g s.
Local Notation J := (g_joints g).

Lemma tree_mob_facts i m : nth_error (mobs s) i = Some m ->
  mjoint m < length J /\ jloop (nth (mjoint m) J jd) = false /\ oriented (nth (mjoint m) J jd) m /\
  1 <= moutb m < nb B /\ minb m < nb B.
Proof.
  intros H. destruct (I_mob _ _ (S_inv _ _ _ SH) _ _ H) as (M1 & M2 & M3 & M4 & _).
  destruct (S_range _ _ _ SH _ M1) as [R1 R2].
  assert (1 <= moutb m < nb B /\ minb m < nb B) as [X1 X2]
    by (destruct M3 as [(_ & E1 & E2)|(_ & E1 & E2)]; rewrite E2 in M4; rewrite E1, E2; lia).
  repeat split; auto; lia.
Qed.

Lemma slave_joint_facts k jx : nth_error (slaveJoints J s) k = Some jx ->
  jx < length J /\ jm s jx = None /\ tloop (typeOf T (nth jx J jd)) = false.
Proof.
  intros H. apply nth_error_In in H. unfold slaveJoints in H. apply filter_In in H. destruct H as [H1 H2].
  apply in_seq in H1. unfold slvP in H2. apply andb_true_iff in H2. destruct H2 as [H2 H3].
  apply negb_true_iff in H2, H3. apply isSome_false in H2. repeat split; auto. lia.
Qed.

Lemma final_mob_cases i m : nth_error (g_mobs g) i = Some m ->
  (i < length (mobs s) /\ nth_error (mobs s) i = Some m) \/
  (exists k jx, i = length (mobs s) + k /\ nth_error (slaveJoints J s) k = Some jx /\ m = mkSlaveMob J s jx k).
Proof.
  rewrite (S_mobs _ _ _ SH). intros H.
  destruct (Nat.lt_ge_cases i (length (mobs s))) as [Hlt|Hge].
  - left. split; auto. rewrite nth_error_app1 in H; auto.
  - right. rewrite nth_error_app2 in H; auto. apply slaveMobs_nth in H. destruct H as (jx & H1 & H2).
    exists (i - length (mobs s)), jx. repeat split; auto. lia.
Qed.

Lemma body_level b : b < nb B -> exists l, lev s b = Some l.
Proof.
  intros H. destruct b.
  - exists 0. apply (I_ground _ _ (S_inv _ _ _ SH)).
  - apply isSome_true. apply (S_all _ _ _ SH). lia.
Qed.

(** every body is the outboard body of exactly one mobilizer *)
Lemma sh_body_once b : 1 <= b < nb B -> occ (fun m => Nat.eqb (moutb m) b) (g_mobs g) = 1.
Proof.
  intros Hb. rewrite (S_mobs _ _ _ SH), occ_app, occ_slaveMobs_outb.
  replace ((nb B + 0 <=? b) && _) with false.
  2:{ symmetry. apply andb_false_iff. left. apply Nat.leb_gt. lia. }
  rewrite Nat.add_0_r. apply occ_one_nth.
  - destruct (body_level b) as (l & Hl); [lia|].
    destruct (I_lev _ _ (S_inv _ _ _ SH) _ _ Hl) as [->|(i & m & H1 & H2)]; [lia|].
    exists i, m. split; auto. apply Nat.eqb_eq; auto.
  - intros i i' m m' H H' P P'. apply Nat.eqb_eq in P, P'.
    eapply (I_inj _ _ (S_inv _ _ _ SH)); eauto. congruence.
Qed.

Lemma sh_slave_once k : k < length (g_slaves g) -> occ (fun m => Nat.eqb (moutb m) (nb B + k)) (g_mobs g) = 1.
Proof.
  intros Hk. rewrite (S_slaves _ _ _ SH), map_length in Hk.
  rewrite (S_mobs _ _ _ SH), occ_app, occ_slaveMobs_outb.
  rewrite occ_zero.
  - replace ((nb B + 0 <=? nb B + k) && _) with true; auto.
    symmetry. apply andb_true_iff. split; [apply Nat.leb_le|apply Nat.ltb_lt]; lia.
  - intros m Hm. apply In_nth_error in Hm. destruct Hm as (i & Hi).
    destruct (tree_mob_facts _ _ Hi) as (_ & _ & _ & Ho & _). apply Nat.eqb_neq. lia.
Qed.


Lemma sh_ground_never_outboard m : In m (g_mobs g) -> moutb m <> 0.
Proof.
  rewrite (S_mobs _ _ _ SH). intros H. apply in_app_or in H. destruct H as [H|H].
  - apply In_nth_error in H. destruct H as (i & Hi). destruct (tree_mob_facts _ _ Hi) as (_ & _ & _ & Ho & _). lia.
  - apply slaveMobs_in in H. destruct H as (k & jx & _ & ->). simpl. pose proof (S_nb1 _ _ _ SH). lia.
Qed.

(** every joint (input or added) is used exactly once: as a mobilizer or as a loop constraint *)
Lemma occ_tree_joint j : occ (fun m => Nat.eqb (mjoint m) j) (mobs s) = if isSome (jm s j) then 1 else 0.
Proof.
  destruct (jm s j) as [i|] eqn:E; simpl.
  - apply occ_one_nth.
    + destruct (I_jm _ _ (S_inv _ _ _ SH) _ _ E) as (m & H1 & H2). exists i, m. split; auto. apply Nat.eqb_eq; auto.
    + intros a a' u u' Ha Ha' P P'. apply Nat.eqb_eq in P, P'.
      destruct (I_mob _ _ (S_inv _ _ _ SH) _ _ Ha) as (_ & _ & _ & _ & _ & _ & _ & M8).
      destruct (I_mob _ _ (S_inv _ _ _ SH) _ _ Ha') as (_ & _ & _ & _ & _ & _ & _ & M8').
      rewrite P in M8. rewrite P' in M8'. congruence.
  - apply occ_zero. intros m Hm. apply Nat.eqb_neq. intros P.
    apply In_nth_error in Hm. destruct Hm as (i & Hi).
    destruct (I_mob _ _ (S_inv _ _ _ SH) _ _ Hi) as (_ & _ & _ & _ & _ & _ & _ & M8). rewrite P in M8. congruence.
Qed.

Lemma sh_joint_once j : j < length J ->
  occ (fun m => Nat.eqb (mjoint m) j) (g_mobs g) + occ (fun c => Nat.eqb (cjoint c) j) (g_cons g) = 1.
Proof.
  intros Hj. rewrite (S_mobs _ _ _ SH), (S_cons _ _ _ SH), occ_app, occ_tree_joint, occ_slaveMobs_joint, occ_map.
  simpl. unfold slaveJoints, conJoints. rewrite !occ_filter_seq by auto.
  unfold slvP, conP. destruct (jm s j); simpl; auto. destruct (tloop _); reflexivity.
Qed.

(** inboard-first order and levels *)
Lemma sh_inboard_first i m : nth_error (g_mobs g) i = Some m ->
  (minb m = 0 /\ mlevel m = 1) \/
  (exists i' m', i' < i /\ nth_error (g_mobs g) i' = Some m' /\ moutb m' = minb m /\ mlevel m = S (mlevel m')).
Proof.
  intros H. destruct (final_mob_cases _ _ H) as [[Hlt Ht]|(k & jx & -> & Hk & ->)].
  - destruct (I_mob _ _ (S_inv _ _ _ SH) _ _ Ht) as (_ & _ & _ & _ & _ & (lp & M6 & M6') & M7 & _).
    destruct M7 as [M7|(i' & m' & L1 & L2 & L3)].
    + left. split; auto. rewrite M7, (I_ground _ _ (S_inv _ _ _ SH)) in M6. inv M6. auto.
    + right. exists i', m'. repeat split; auto.
      * rewrite (S_mobs _ _ _ SH). rewrite nth_error_app1; auto. eapply nth_error_lt; eauto.
      * destruct (I_mob _ _ (S_inv _ _ _ SH) _ _ L2) as (_ & _ & _ & _ & M5 & _). rewrite L3 in M5. congruence.
  - destruct (slave_joint_facts _ _ Hk) as (Hjx & _ & _).
    destruct (S_range _ _ _ SH _ Hjx) as [R1 _].
    destruct (body_level _ R1) as (l & Hl). simpl. rewrite Hl.
    destruct (I_lev _ _ (S_inv _ _ _ SH) _ _ Hl) as [E0|(i' & m' & L1 & L2)].
    + left. split; auto. rewrite E0, (I_ground _ _ (S_inv _ _ _ SH)) in Hl. inv Hl. auto.
    + right. exists i', m'. repeat split; auto.
      * apply nth_error_lt in L1. lia.
      * rewrite (S_mobs _ _ _ SH). rewrite nth_error_app1; auto. eapply nth_error_lt; eauto.
      * destruct (I_mob _ _ (S_inv _ _ _ SH) _ _ L1) as (_ & _ & _ & _ & M5 & _). rewrite L2 in M5. congruence.
Qed.

(** what each mobilizer is: a tree mobilizer realising a tree-eligible joint between its two bodies,
    or a slave mobilizer realising a loop joint between the joint's parent and a slave of the joint's child *)
Lemma sh_mobilizer_kinds m : In m (g_mobs g) ->
  mjoint m < length J /\
  ((1 <= moutb m < nb B /\ minb m < nb B /\ jloop (nth (mjoint m) J jd) = false /\ oriented (nth (mjoint m) J jd) m) \/
   (exists k, moutb m = nb B + k /\ nth_error (g_slaves g) k = Some (jchi (nth (mjoint m) J jd)) /\
              minb m = jpar (nth (mjoint m) J jd) /\ mrev m = false /\
              tloop (typeOf T (nth (mjoint m) J jd)) = false)).
Proof.
  intros H. apply In_nth_error in H. destruct H as (i & H).
  destruct (final_mob_cases _ _ H) as [[Hlt Ht]|(k & jx & -> & Hk & ->)].
  - destruct (tree_mob_facts _ _ Ht) as (F1 & F2 & F3 & F4 & F5). split; auto.
  - destruct (slave_joint_facts _ _ Hk) as (Hjx & Hjm & Htl). simpl. split; auto. right.
    exists k. repeat split; auto. rewrite (S_slaves _ _ _ SH). change (jchi (nth jx J jd)) with (masterOf J jx). apply map_nth_error. auto.
Qed.

(** slaves: the k-th slave body is the outboard body of a mobilizer that realises a loop joint whose child is the
    slave's master, inboard body the joint's parent; the master is an input body or Ground *)
Lemma sh_slaves k master : nth_error (g_slaves g) k = Some master ->
  master < nb B /\
  exists i m, nth_error (g_mobs g) i = Some m /\ moutb m = nb B + k /\ mrev m = false /\
              mjoint m < length J /\ jchi (nth (mjoint m) J jd) = master /\ minb m = jpar (nth (mjoint m) J jd) /\
              tloop (typeOf T (nth (mjoint m) J jd)) = false.
Proof.
  rewrite (S_slaves _ _ _ SH). intros H. rewrite nth_error_map in H.
  destruct (nth_error (slaveJoints J s) k) as [jx|] eqn:Hk; simpl in H; [|discriminate]. inv H. unfold masterOf. destruct (slave_joint_facts _ _ Hk) as (Hjx & Hjm & Htl).
  destruct (S_range _ _ _ SH _ Hjx) as [_ R2]. split; auto.
  exists (length (mobs s) + k), (mkSlaveMob J s jx k). rewrite (S_mobs _ _ _ SH). simpl. repeat split; auto.
  rewrite nth_error_app2 by lia. replace (length (mobs s) + k - length (mobs s)) with k by lia.
  apply slaveMobs_nth. exists jx. auto.
Qed.

Lemma sh_loop_constraints c : In c (g_cons g) ->
  cjoint c < length J /\ cpar c = jpar (nth (cjoint c) J jd) /\ cchi c = jchi (nth (cjoint c) J jd) /\
  ctype c = jty (nth (cjoint c) J jd) /\ tloop (typeOf T (nth (cjoint c) J jd)) = true.
Proof.
  rewrite (S_cons _ _ _ SH). intros H. apply in_map_iff in H. destruct H as (jx & <- & H).
  unfold conJoints in H. apply filter_In in H. destruct H as [H1 H2]. apply in_seq in H1.
  unfold conP in H2. apply andb_true_iff in H2. destruct H2 as [_ H2]. simpl. repeat split; auto. lia.
Qed.

(** no massless body with mobilities ends a branch: a tree mobilizer with a massless outboard body and a mobile joint
    has a tree mobilizer (outboard body an input body) hanging off that body *)
Lemma sh_no_terminal m : In m (g_mobs g) -> moutb m < nb B ->
  massOf B (moutb m) = 0%Z -> 0 < dofOf T (nth (mjoint m) J jd) ->
  exists m', In m' (g_mobs g) /\ minb m' = moutb m /\ 1 <= moutb m' < nb B.
Proof.
  rewrite (S_mobs _ _ _ SH). intros H Ho Hm Hd. apply in_app_or in H. destruct H as [H|H].
  - destruct (S_nt _ _ _ SH m H (conj Hm Hd)) as (m' & H1 & H2).
    exists m'. split; [apply in_or_app; auto|]. split; auto.
    apply In_nth_error in H1. destruct H1 as (i & Hi). destruct (tree_mob_facts _ _ Hi) as (_ & _ & _ & F4 & _). auto.
  - apply slaveMobs_in in H. destruct H as (k & jx & _ & ->). simpl in Ho. lia.
Qed.

End Conseq.
End Final.

(* ------------------------------------------------------------------ from [generate] to [Shape] *)
Lemma checkJoints_none nt nbod : forall js k, checkJoints nt nbod k js = None ->
  forall j, In j js -> ji_ty j < nt /\ ji_par j < nbod /\ ji_chi j < nbod.
Proof.
  induction js as [|x r IH]; simpl; intros k H j Hj. { destruct Hj. }
  destruct (negb (ji_ty x <? nt)) eqn:E1; [discriminate|].
  destruct (negb (ji_par x <? nbod)) eqn:E2; [discriminate|].
  destruct (negb (ji_chi x <? nbod)) eqn:E3; [discriminate|].
  apply negb_false_iff in E1, E2, E3. apply Nat.ltb_lt in E1, E2, E3.
  destruct Hj as [<-|Hj]; auto. eapply IH; eauto.
Qed.

Lemma nth_map_mkJoint js jn : jn < length js -> exists x, In x js /\ nth jn (map mkJoint js) jd = mkJoint x.
Proof.
  intros H. exists (nth jn js {| ji_ty := 0; ji_par := 0; ji_chi := 0; ji_loop := false |}). split.
  - apply nth_In; auto.
  - rewrite (nth_indep _ jd (mkJoint {| ji_ty := 0; ji_par := 0; ji_chi := 0; ji_loop := false |})).
    + apply map_nth.
    + rewrite map_length; auto.
Qed.

Definition inputJoints (inp : input) : list joint := map mkJoint (in_joints inp).

Lemma input_jrange inp : checkJoints (length (allTypes inp)) (length (allBodies inp)) 0 (in_joints inp) = None ->
  JRange (allBodies inp) (inputJoints inp).
Proof.
  intros Ej jn Hjn. unfold inputJoints in *. rewrite map_length in Hjn.
  destruct (nth_map_mkJoint _ _ Hjn) as (x & Hx & ->).
  destruct (checkJoints_none _ _ _ _ Ej _ Hx) as (_ & H2 & H3). simpl. unfold nb. auto.
Qed.

Lemma generate_shape_ex fuel inp g : generate fuel inp = Ok g ->
  checkJoints (length (allTypes inp)) (length (allBodies inp)) 0 (in_joints inp) = None /\
  exists J1 s, precheck (allTypes inp) (allBodies inp) (seq 1 (nb (allBodies inp) - 1)) (inputJoints inp) = Ok J1 /\
               mainloop (allTypes inp) (allBodies inp) fuel fuel J1 init_state = Ok (g_joints g, s) /\
               Shape (allTypes inp) (allBodies inp) (inputJoints inp) g s.
Proof.
  unfold generate. intros H.
  destruct (checkTypes 2 (in_types inp)); [discriminate|].
  destruct (checkBodies 1 (in_bodies inp)); [discriminate|].
  destruct (checkJoints _ _ 0 (in_joints inp)) eqn:Ej; [discriminate|]. split; auto.
  eapply generateGraph_shape_ex; eauto.
  - unfold nb, allBodies. simpl. lia.
  - apply input_jrange; auto.
Qed.

Lemma generate_shape fuel inp g : generate fuel inp = Ok g ->
  exists s, Shape (allTypes inp) (allBodies inp) (inputJoints inp) g s.
Proof. intros H. destruct (generate_shape_ex _ _ _ H) as (_ & J1 & s & _ & _ & SH). eauto. Qed.

Lemma nb_allBodies inp : nb (allBodies inp) = S (length (in_bodies inp)).
Proof. reflexivity. Qed.

