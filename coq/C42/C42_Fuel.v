(** C42: proofs, part 3: generic induction over the loops of growTree, monotonicity of the tree state,
    and termination ([fuel_suffices]: the model never runs out of fuel when fuel >= bodies + 2). *)
From Coq Require Import List ZArith Bool Arith Lia.
Import ListNotations.
Require Import C42_Model C42_Proofs.

Definition bindR {A C} (r : result A) (f : A -> result C) : result C :=
  match r with Ok a => f a | Error e => Error e | OutOfFuel => OutOfFuel end.

Section Fuel.
Variable T : list jtype.
Variable B : list body.
Variable F : nat.

(* ------------------------------------------------------------------ anything preserved by legal addMob calls is
   preserved by chain / sweep / levels / growTree *)
Section Gen.
Variable J : list joint.
Variable P : tstate -> Prop.
Hypothesis Pstep : forall s jn, Inv J s -> P s -> legal J s jn -> P (addMob J jn s).

Lemma chain_gen : forall fuel s added s' added',
  Inv J s -> P s -> chain B fuel J s added = Ok (s', added') -> P s'.
Proof.
  induction fuel as [|f IH]; simpl; intros s added s' added' HI HP H; [discriminate|].
  destruct (findFwd B J s (lastOutb s)) as [jf|] eqn:Ef.
  - pose proof (fwd_pre B J s jf HI Ef) as L. destruct L as (P1 & P2 & P3 & P4).
    destruct (Z.gtb (massOf B (jchi (nth jf J jd))) 0) eqn:Em.
    + inv H. apply Pstep; auto. repeat split; auto.
    + destruct (findRev B J s (lastOutb s)) as [jr|] eqn:Er.
      * destruct (rev_pre B J s jr HI Er) as (Q1 & Q2 & Q3 & Q4).
        destruct (Z.gtb (massOf B (jpar (nth jr J jd))) 0) eqn:Em2.
        -- inv H. apply Pstep; auto. repeat split; auto.
        -- eapply IH; [| |exact H]. { apply addMob_inv; auto. } apply Pstep; auto. repeat split; auto.
      * eapply IH; [| |exact H]. { apply addMob_inv; auto. } apply Pstep; auto. repeat split; auto.
  - destruct (findRev B J s (lastOutb s)) as [jr|] eqn:Er.
    + destruct (rev_pre B J s jr HI Er) as (Q1 & Q2 & Q3 & Q4).
      destruct (Z.gtb (massOf B (jpar (nth jr J jd))) 0) eqn:Em2.
      * inv H. apply Pstep; auto. repeat split; auto.
      * eapply IH; [| |exact H]. { apply addMob_inv; auto. } apply Pstep; auto. repeat split; auto.
    + discriminate.
Qed.

Lemma sweep_gen l0 : forall jns s added any s' added' any',
  Inv J s -> P s -> Forall (fun jn => jn < length J) jns ->
  sweep T B F J l0 jns s added any = Ok (s', added', any') -> P s'.
Proof.
  induction jns as [|jn r IH]; simpl; intros s added any s' added' any' HI HP HF H.
  - inv H. auto.
  - inv HF. destruct (jm s jn) eqn:Ejm.
    { eapply IH; eauto. }
    destruct (jloop (nth jn J jd)) eqn:El.
    { eapply IH; eauto. }
    destruct (negb (xorb (inTree s (jpar (nth jn J jd))) (inTree s (jchi (nth jn J jd))))) eqn:Ex.
    { eapply IH; eauto. }
    apply negb_false_iff in Ex.
    match type of H with (if negb ?c then _ else _) = _ => destruct c end; simpl in H.
    2:{ eapply IH; eauto. }
    assert (HI1 : Inv J (addMob J jn s)) by (apply addMob_inv; auto).
    assert (HP1 : P (addMob J jn s)) by (apply Pstep; auto; repeat split; auto).
    match type of H with (if ?c then _ else _) = _ => destruct c end.
    { eapply IH; [| | |exact H]; auto. }
    destruct (chain B F J (addMob J jn s) (jn :: added)) as [[s2 added2]| |] eqn:Ec; try discriminate.
    eapply IH; [| | |exact H]; auto.
    + eapply chain_inv; eauto.
    + eapply chain_gen; eauto.
Qed.

Lemma levels_gen : forall fuel l0 s added s',
  Inv J s -> P s -> levels T B F fuel J l0 s added = Ok s' -> P s'.
Proof.
  induction fuel as [|f IH]; simpl; intros l0 s added s' HI HP H; [discriminate|].
  destruct (sweep T B F J l0 (seq 0 (length J)) s added false) as [[[s1 added1] any1]| |] eqn:Es; try discriminate.
  assert (Inv J s1) by (eapply sweep_inv; eauto using seq_lt).
  assert (P s1) by (eapply sweep_gen; [exact HI|exact HP|apply seq_lt|exact Es]).
  destruct any1.
  - eapply IH; eauto.
  - inv H. auto.
Qed.
End Gen.

(* ------------------------------------------------------------------ monotonicity *)
Lemma addMob_lev_mono J s jn b l : legal J s jn -> lev s b = Some l -> lev (addMob J jn s) b = Some l.
Proof.
  intros (_ & _ & _ & Hx) Hb. destruct (addMob_mobs_snoc J jn s Hx) as (m & _ & _ & _ & _ & Hn & Hu & _).
  rewrite Hu; auto. intros ->. congruence.
Qed.
Lemma addMob_prefix J s jn : exists l, mobs (addMob J jn s) = mobs s ++ l.
Proof.
  unfold addMob. destruct (lev s (jpar (nth jn J jd))); [|destruct (lev s (jchi (nth jn J jd)))]; simpl; eauto.
  exists []. rewrite app_nil_r. reflexivity.
Qed.

Definition LevMono (s0 s : tstate) : Prop := forall b l, lev s0 b = Some l -> lev s b = Some l.
Definition Prefix (s0 s : tstate) : Prop := exists l, mobs s = mobs s0 ++ l.

Lemma levmono_step J s0 s jn : Inv J s -> LevMono s0 s -> legal J s jn -> LevMono s0 (addMob J jn s).
Proof. intros _ H L b l Hb. eapply addMob_lev_mono; eauto. Qed.
Lemma prefix_step J s0 s jn : Inv J s -> Prefix s0 s -> legal J s jn -> Prefix s0 (addMob J jn s).
Proof.
  intros _ (l & H) _. destruct (addMob_prefix J s jn) as (l' & H'). exists (l ++ l'). rewrite H', H, app_assoc. reflexivity.
Qed.
Lemma levmono_refl s : LevMono s s. Proof. intros b l H; auto. Qed.
Lemma prefix_refl s : Prefix s s. Proof. exists []. rewrite app_nil_r. reflexivity. Qed.

(* ------------------------------------------------------------------ no OutOfFuel in chain and sweep *)
Lemma chain_no_oof J f s added : chain B (S f) J s added <> OutOfFuel.
Proof.
  simpl. destruct (findFwd B J s (lastOutb s)) as [jf|] eqn:Ef.
  - apply findFwd_spec in Ef. destruct Ef as (_ & _ & _ & _ & _ & Hm).
    assert (E : Z.gtb (massOf B (jchi (nth jf J jd))) 0 = true) by (apply Z.gtb_lt; lia). rewrite E. discriminate.
  - destruct (findRev B J s (lastOutb s)) as [jr|] eqn:Er.
    + apply findRev_spec in Er. destruct Er as (_ & _ & _ & _ & _ & Hm).
      assert (E : Z.gtb (massOf B (jpar (nth jr J jd))) 0 = true) by (apply Z.gtb_lt; lia). rewrite E. discriminate.
    + discriminate.
Qed.

(** the massless-chain loop never goes round twice: findHeaviest* start from maxMass = 0 with a strict comparison, so
    they only ever return a joint to a massful body, and the "add another massless body and keep trying" branches of
    growTree are unreachable *)
Lemma chain_one_step J f s added : chain B (S f) J s added = chain B 1 J s added.
Proof.
  simpl. destruct (findFwd B J s (lastOutb s)) as [jf|] eqn:Ef.
  - apply findFwd_spec in Ef. destruct Ef as (_ & _ & _ & _ & _ & Hm).
    assert (E : Z.gtb (massOf B (jchi (nth jf J jd))) 0 = true) by (apply Z.gtb_lt; lia). rewrite E. reflexivity.
  - destruct (findRev B J s (lastOutb s)) as [jr|] eqn:Er; auto.
    apply findRev_spec in Er. destruct Er as (_ & _ & _ & _ & _ & Hm).
    assert (E : Z.gtb (massOf B (jpar (nth jr J jd))) 0 = true) by (apply Z.gtb_lt; lia). rewrite E. reflexivity.
Qed.

Hypothesis F_pos : 1 <= F.

Lemma sweep_no_oof J l0 : forall jns s added any, sweep T B F J l0 jns s added any <> OutOfFuel.
Proof.
  induction jns as [|jn r IH]; simpl; intros s added any; [discriminate|].
  assert (exists f, F = S f) as [f Ef] by (exists (F - 1); lia).
  repeat dm; auto; try discriminate; exfalso;
    match goal with H : chain _ _ _ _ _ = OutOfFuel |- _ => rewrite Ef in H; eapply chain_no_oof; eauto end.
Qed.

(* ------------------------------------------------------------------ a level sweep that reports progress has a mobilizer at that level *)
Lemma sweep_any J l0 : forall jns s added any s' added' any',
  Inv J s -> Forall (fun jn => jn < length J) jns ->
  sweep T B F J l0 jns s added any = Ok (s', added', any') -> any' = true ->
  any = true \/ exists m, In m (mobs s') /\ mlevel m = S l0.
Proof.
  induction jns as [|jn r IH]; simpl; intros s added any s' added' any' HI HF H Hany.
  - inv H. auto.
  - revert Hany. inv HF. intros Hany.
    assert (Hpre : forall s1 a1 y1, Inv J s1 -> Prefix s s1 -> sweep T B F J l0 r s1 a1 y1 = Ok (s', added', any') ->
                   Prefix s s').
    { intros s1 a1 y1 HI1 Hp Hs. eapply sweep_gen; [apply prefix_step|exact HI1|exact Hp| |exact Hs]; auto. }
    destruct (jm s jn) as [i|] eqn:Ejm.
    { destruct (existsb (Nat.eqb jn) added && optEqb (levelOfMob s i) (S l0)) eqn:Ea.
      - right. apply andb_true_iff in Ea. destruct Ea as [_ Ea]. unfold levelOfMob, optEqb in Ea.
        destruct (nth_error (mobs s) i) as [m|] eqn:En; [|discriminate]. apply Nat.eqb_eq in Ea.
        destruct (Hpre s added true HI (prefix_refl s) H) as (l & Hl).
        exists m. split; auto. rewrite Hl. apply in_or_app. left. eapply nth_error_In; eauto.
      - eapply IH; eauto. }
    destruct (jloop (nth jn J jd)) eqn:El.
    { eapply IH; eauto. }
    destruct (negb (xorb (inTree s (jpar (nth jn J jd))) (inTree s (jchi (nth jn J jd))))) eqn:Ex.
    { eapply IH; eauto. }
    apply negb_false_iff in Ex.
    match type of H with (if negb ?c then _ else _) = _ => destruct c eqn:Elv end; simpl in H.
    2:{ eapply IH; eauto. }
    right.
    assert (HI1 : Inv J (addMob J jn s)) by (apply addMob_inv; auto).
    destruct (addMob_mobs_snoc J jn s Ex) as (m & Hm & Hmj & Hor & Hin & Hout & _ & _ & Hlv & Hl0).
    assert (Hml : mlevel m = S l0).
    { unfold inTree in Elv, Ex.
      destruct Hor as [(_ & E1 & E2)|(_ & E1 & E2)]; rewrite E1 in Hlv, Hin; rewrite E2 in Hout.
      - rewrite Hout in Ex. destruct (lev s (jpar (nth jn J jd))) eqn:Ep; [|congruence]. simpl in Elv.
        apply Nat.eqb_eq in Elv. inv Hlv. lia.
      - rewrite Hout in Ex, Elv. destruct (lev s (jchi (nth jn J jd))) eqn:Ep; [|congruence]. simpl in Elv.
        apply Nat.eqb_eq in Elv. inv Hlv. lia. }
    assert (Hfin : forall s1 a1 y1, Inv J s1 -> Prefix (addMob J jn s) s1 ->
                   sweep T B F J l0 r s1 a1 y1 = Ok (s', added', any') -> exists m, In m (mobs s') /\ mlevel m = S l0).
    { intros s1 a1 y1 HI2 Hp Hs.
      assert (Hp' : Prefix (addMob J jn s) s').
      { eapply sweep_gen; [apply prefix_step|exact HI2|exact Hp| |exact Hs]; auto. }
      destruct Hp' as (l & Hl). exists m. split; auto. rewrite Hl, Hm. apply in_or_app. left. apply in_or_app. right. simpl; auto. }
    match type of H with (if ?c then _ else _) = _ => destruct c end.
    { eapply Hfin; [| |exact H]; auto using prefix_refl. }
    destruct (chain B F J (addMob J jn s) (jn :: added)) as [[s2 added2]| |] eqn:Ec; try discriminate.
    eapply Hfin; [| |exact H].
    + eapply chain_inv; eauto.
    + eapply chain_gen; [apply prefix_step|exact HI1|apply prefix_refl|exact Ec].
Qed.

(* ------------------------------------------------------------------ levels are bounded by the number of bodies *)
Lemma level_le_index J s : Inv J s -> forall i m, nth_error (mobs s) i = Some m -> mlevel m <= S i.
Proof.
  intros HI i. induction i as [i IH] using lt_wf_ind. intros m H.
  destruct (I_mob _ _ HI _ _ H) as (_ & _ & _ & _ & _ & (lp & M6 & M6') & M7 & _).
  destruct M7 as [M7|(i' & m' & L1 & L2 & L3)].
  - rewrite M7, (I_ground _ _ HI) in M6. inv M6. lia.
  - specialize (IH i' L1 m' L2). destruct (I_mob _ _ HI _ _ L2) as (_ & _ & _ & _ & M5 & _).
    rewrite L3 in M5. assert (lp = mlevel m') by congruence. lia.
Qed.

Lemma mobs_length_bound J s : Inv J s -> JRange B J -> length (mobs s) <= nb B - 1.
Proof.
  intros HI HR.
  assert (Hnd : NoDup (map moutb (mobs s))).
  { apply NoDup_nth_error. intros i j Hi E. rewrite map_length in Hi. rewrite !nth_error_map in E.
    destruct (nth_error (mobs s) i) as [m|] eqn:E1. 2:{ apply nth_error_None in E1. lia. }
    destruct (nth_error (mobs s) j) as [m'|] eqn:E2; simpl in E; [|discriminate]. inv E.
    eapply (I_inj _ _ HI); eauto. }
  assert (Hinc : incl (map moutb (mobs s)) (seq 1 (nb B - 1))).
  { intros b Hb. apply in_map_iff in Hb. destruct Hb as (m & <- & Hm). apply In_nth_error in Hm. destruct Hm as (i & Hi).
    destruct (I_mob _ _ HI _ _ Hi) as (M1 & _ & M3 & M4 & _). destruct (HR _ M1) as [R1 R2].
    apply in_seq. destruct M3 as [(_ & _ & E)|(_ & _ & E)]; rewrite E in *; lia. }
  pose proof (NoDup_incl_length Hnd Hinc) as Hl. rewrite map_length, seq_length in Hl. exact Hl.
Qed.

Lemma level_bound J s m : Inv J s -> JRange B J -> In m (mobs s) -> mlevel m <= nb B - 1.
Proof.
  intros HI HR Hm. apply In_nth_error in Hm. destruct Hm as (i & Hi).
  pose proof (level_le_index J s HI i m Hi). pose proof (mobs_length_bound J s HI HR).
  apply nth_error_lt in Hi. lia.
Qed.

Lemma levels_no_oof J : JRange B J -> forall fuel l0 s added,
  Inv J s -> l0 <= nb B -> nb B + 1 <= fuel + l0 -> levels T B F fuel J l0 s added <> OutOfFuel.
Proof.
  intros HR. induction fuel as [|f IH]; simpl; intros l0 s added HI Hl Hf; [lia|].
  destruct (sweep T B F J l0 (seq 0 (length J)) s added false) as [[[s1 added1] any1]| |] eqn:Es; try discriminate.
  2:{ exfalso. eapply sweep_no_oof; eauto. }
  destruct any1; [|discriminate].
  assert (HI1 : Inv J s1) by (eapply sweep_inv; eauto using seq_lt).
  destruct (sweep_any J l0 _ _ _ _ _ _ _ HI (seq_lt _) Es eq_refl) as [?|(m & Hm & Hlv)]; [discriminate|].
  pose proof (level_bound J s1 m HI1 HR Hm). apply IH; auto; lia.
Qed.

(* ------------------------------------------------------------------ growTree picks up a Ground joint waiting at level 1 *)
Definition groundJoint (J : list joint) (jn b : nat) : Prop :=
  jn < length J /\ jpar (nth jn J jd) = 0 /\ jchi (nth jn J jd) = b /\ jloop (nth jn J jd) = false.

Lemma sweep0_pending J jn b : groundJoint J jn b -> forall jns s added any s' added' any',
  Inv J s -> Forall (fun x => x < length J) jns -> In jn jns ->
  sweep T B F J 0 jns s added any = Ok (s', added', any') -> lev s' b <> None.
Proof.
  intros (G1 & G2 & G3 & G4). induction jns as [|x r IH]; simpl; intros s added any s' added' any' HI HF Hin H; [destruct Hin|].
  apply Forall_cons_iff in HF. destruct HF as [Hxl HF].
  assert (Hdone : forall s1 a1 y1, Inv J s1 -> lev s1 b <> None -> sweep T B F J 0 r s1 a1 y1 = Ok (s', added', any') -> lev s' b <> None).
  { intros s1 a1 y1 HI1 Hb Hs. destruct (lev s1 b) as [l|] eqn:El; [|congruence].
    assert (HM : LevMono s1 s') by (eapply sweep_gen; [apply levmono_step|exact HI1|apply levmono_refl| |exact Hs]; auto).
    rewrite (HM _ _ El). discriminate. }
  assert (Hjm : forall s1, Inv J s1 -> jm s1 jn <> None -> lev s1 b <> None).
  { intros s1 HI1 Hj. destruct (jm s1 jn) as [i|] eqn:Ej; [|congruence].
    destruct (I_jm _ _ HI1 _ _ Ej) as (m & Hm & Hmj). destruct (I_mob _ _ HI1 _ _ Hm) as (_ & _ & M3 & M4 & M5 & _).
    rewrite Hmj in M3. destruct M3 as [(_ & _ & E)|(_ & _ & E)].
    - rewrite G3 in E. rewrite <- E. congruence.
    - rewrite G2 in E. congruence. }
  destruct (Nat.eq_dec x jn) as [->|Hne].
  - (* the Ground joint itself *)
    destruct (jm s jn) as [i|] eqn:Ejm.
    { eapply Hdone; [exact HI| |exact H]. apply Hjm; auto. congruence. }
    rewrite G4 in H. unfold inTree in H. rewrite G2, G3, (I_ground _ _ HI) in H. simpl in H.
    destruct (lev s b) as [lb|] eqn:Eb; simpl in H.
    { eapply Hdone; [exact HI| |exact H]. congruence. }
    assert (Hx : xorb (inTree s (jpar (nth jn J jd))) (inTree s (jchi (nth jn J jd))) = true).
    { unfold inTree. rewrite G2, G3, (I_ground _ _ HI), Eb. reflexivity. }
    assert (HI1 : Inv J (addMob J jn s)) by (apply addMob_inv; auto).
    assert (Hb1 : lev (addMob J jn s) b <> None).
    { apply Hjm; auto. unfold addMob. rewrite G2, (I_ground _ _ HI). simpl. rewrite upd_same. discriminate. }
    match type of H with (if ?c then _ else _) = _ => destruct c end.
    { eapply Hdone; [| |exact H]; auto. }
    destruct (chain B F J (addMob J jn s) (jn :: added)) as [[s2 added2]| |] eqn:Ec; try discriminate.
    eapply Hdone; [| |exact H].
    + eapply chain_inv; eauto.
    + destruct (lev (addMob J jn s) b) as [l1|] eqn:El1; [|congruence].
      assert (HM : LevMono (addMob J jn s) s2) by (eapply chain_gen; [apply levmono_step|exact HI1|apply levmono_refl|exact Ec]).
      rewrite (HM _ _ El1). discriminate.
  - destruct Hin as [Hin|Hin]; [congruence|].
    destruct (jm s x) eqn:Ejm.
    { eapply IH; eauto. }
    destruct (jloop (nth x J jd)) eqn:El.
    { eapply IH; eauto. }
    destruct (negb (xorb (inTree s (jpar (nth x J jd))) (inTree s (jchi (nth x J jd))))) eqn:Ex.
    { eapply IH; eauto. }
    apply negb_false_iff in Ex.
    match type of H with (if negb ?c then _ else _) = _ => destruct c end; simpl in H.
    2:{ eapply IH; eauto. }
    assert (HI1 : Inv J (addMob J x s)) by (apply addMob_inv; auto).
    match type of H with (if ?c then _ else _) = _ => destruct c end.
    { eapply IH; [| | |exact H]; auto. }
    destruct (chain B F J (addMob J x s) (x :: added)) as [[s2 added2]| |] eqn:Ec; try discriminate.
    eapply IH; [| | |exact H]; auto. eapply chain_inv; eauto.
Qed.

Lemma growTree_levmono J s s' : Inv J s -> growTree T B F J s = Ok s' -> LevMono s s'.
Proof.
  unfold growTree. intros HI H. eapply levels_gen; [apply levmono_step|exact HI|apply levmono_refl|exact H].
Qed.

Lemma growTree_pending J jn b s s' : groundJoint J jn b -> Inv J s -> growTree T B F J s = Ok s' -> lev s' b <> None.
Proof.
  intros G HI H. unfold growTree in H.
  assert (exists f, F = S f) as [f Ef] by (exists (F - 1); lia). rewrite Ef in H at 2. simpl in H.
  destruct (sweep T B F J 0 (seq 0 (length J)) s [] false) as [[[s1 added1] any1]| |] eqn:Es; try discriminate.
  assert (HI1 : Inv J s1) by (eapply sweep_inv; eauto using seq_lt).
  assert (Hb : lev s1 b <> None).
  { eapply sweep0_pending; [exact G|exact HI|apply seq_lt| |exact Es]. apply in_seq. destruct G; lia. }
  destruct (lev s1 b) as [l|] eqn:El; [|congruence].
  destruct any1.
  - assert (HM : LevMono s1 s') by (eapply levels_gen; [apply levmono_step|exact HI1|apply levmono_refl|exact H]).
    rewrite (HM _ _ El). discriminate.
  - inv H. congruence.
Qed.

(* ------------------------------------------------------------------ the outer loop: the number of bodies outside the tree decreases *)
Definition unassigned (s : tstate) : nat := length (filter (fun b => negb (inTree s b)) (seq 1 (nb B - 1))).

Lemma filter_length_le {A} (p q : A -> bool) l :
  (forall x, In x l -> q x = true -> p x = true) -> length (filter q l) <= length (filter p l).
Proof.
  induction l as [|x l IH]; intros H; simpl; auto.
  assert (IH' : length (filter q l) <= length (filter p l)) by (apply IH; intros; apply H; simpl; auto).
  destruct (q x) eqn:Eq.
  - rewrite (H x); simpl; auto. lia.
  - destruct (p x); simpl; lia.
Qed.
Lemma filter_length_lt {A} (p q : A -> bool) l x0 :
  (forall x, In x l -> q x = true -> p x = true) -> In x0 l -> p x0 = true -> q x0 = false ->
  length (filter q l) < length (filter p l).
Proof.
  induction l as [|x l IH]; intros H Hin Hp Hq; simpl; [destruct Hin|].
  assert (Hle : length (filter q l) <= length (filter p l)) by (apply filter_length_le; intros; apply H; simpl; auto).
  destruct Hin as [->|Hin].
  - rewrite Hp, Hq. simpl. lia.
  - assert (IH' : length (filter q l) < length (filter p l)) by (apply IH; auto; intros; apply H; simpl; auto).
    destruct (q x) eqn:Eq.
    + rewrite (H x); simpl; auto. lia.
    + destruct (p x); simpl; lia.
Qed.

Lemma unassigned_le s s' : LevMono s s' -> unassigned s' <= unassigned s.
Proof.
  intros H. apply filter_length_le. intros b _ Hb. unfold inTree in *.
  destruct (lev s b) as [l|] eqn:E; auto. rewrite (H _ _ E) in Hb. discriminate.
Qed.
Lemma unassigned_lt s s' b : LevMono s s' -> 1 <= b < nb B -> lev s b = None -> lev s' b <> None -> unassigned s' < unassigned s.
Proof.
  intros H Hb E E'. apply (filter_length_lt _ _ _ b).
  - intros x _ Hx. unfold inTree in *. destruct (lev s x) as [l|] eqn:Ex; auto. rewrite (H _ _ Ex) in Hx. discriminate.
  - apply in_seq. lia.
  - unfold inTree. rewrite E. reflexivity.
  - unfold inTree. destruct (lev s' b); auto. congruence.
Qed.
Lemma unassigned_bound s : unassigned s <= nb B - 1.
Proof.
  unfold unassigned. rewrite <- (seq_length (nb B - 1) 1) at 2.
  generalize (seq 1 (nb B - 1)). induction l as [|x l IH]; simpl; auto. destruct (negb (inTree s x)); simpl; lia.
Qed.

Hypothesis F_big : nb B + 1 <= F.

Lemma growTree_no_oof J s : JRange B J -> Inv J s -> growTree T B F J s <> OutOfFuel.
Proof. intros HR HI. unfold growTree. apply levels_no_oof; auto; lia. Qed.

Lemma groundJoint_snoc J b : groundJoint (J ++ [baseJoint b]) (length J) b.
Proof.
  unfold groundJoint. rewrite app_length, app_nth2, Nat.sub_diag; auto. simpl. repeat split; auto. lia.
Qed.

(** with a base joint for a body outside the tree waiting, fuel >= (number of bodies outside the tree) is enough *)
Lemma mainloop_no_oof_pending : forall fuel J s jn b,
  JRange B J -> Inv J s -> groundJoint J jn b -> 1 <= b < nb B -> lev s b = None ->
  unassigned s <= fuel -> mainloop T B F fuel J s <> OutOfFuel.
Proof.
  induction fuel as [|f IH]; intros J s jn b HR HI G Hb Eb Hf.
  - exfalso. assert (unassigned s < unassigned s); [|lia].
    (* b is outside the tree, so unassigned s >= 1 *)
    assert (0 < unassigned s); [|lia].
    unfold unassigned. destruct (filter (fun b0 => negb (inTree s b0)) (seq 1 (nb B - 1))) eqn:E; simpl; [|lia].
    assert (In b (filter (fun b0 => negb (inTree s b0)) (seq 1 (nb B - 1)))).
    { apply filter_In. split; [apply in_seq; lia|]. unfold inTree. rewrite Eb. reflexivity. }
    rewrite E in H. destruct H.
  - simpl. destruct (growTree T B F J s) as [s1| |] eqn:Eg; try discriminate.
    2:{ exfalso. eapply growTree_no_oof; eauto. }
    assert (HI1 : Inv J s1) by (eapply growTree_inv; eauto).
    pose proof (growTree_levmono J s s1 HI Eg) as Hmono.
    pose proof (growTree_pending J jn b s s1 G HI Eg) as Hb1.
    pose proof (unassigned_lt s s1 b Hmono Hb Eb Hb1) as Hlt.
    destruct (chooseNewBase B J s1) as [b'|] eqn:Ec; [|discriminate].
    apply chooseNewBase_some in Ec. destruct Ec as [Hb' Hn]. apply isSome_false in Hn.
    eapply (IH _ _ (length J) b'); auto using inv_snoc, jrange_snoc, groundJoint_snoc. lia.
Qed.

Lemma mainloop_no_oof fuel J s : 1 <= nb B -> JRange B J -> Inv J s -> nb B <= fuel -> mainloop T B F fuel J s <> OutOfFuel.
Proof.
  intros Hnb HR HI Hf. destruct fuel as [|f]; [lia|].
  simpl. destruct (growTree T B F J s) as [s1| |] eqn:Eg; try discriminate.
  2:{ exfalso. eapply growTree_no_oof; eauto. }
  assert (HI1 : Inv J s1) by (eapply growTree_inv; eauto).
  destruct (chooseNewBase B J s1) as [b'|] eqn:Ec; [|discriminate].
  apply chooseNewBase_some in Ec. destruct Ec as [Hb' Hn]. apply isSome_false in Hn.
  eapply (mainloop_no_oof_pending _ _ _ (length J) b'); auto using inv_snoc, jrange_snoc, groundJoint_snoc.
  pose proof (unassigned_bound s1). lia.
Qed.

End Fuel.
