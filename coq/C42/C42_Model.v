(** C42: executable model of SimTK::MultibodyGraphMaker::generateGraph()
    (SimTKmath/src/MultibodyGraphMaker.cpp, as compiled in Release mode: asserts are absent).

    Bodies, joints, joint types are referred to by index (the code's own numbering:
    body 0 = Ground, joint types 0 = weld, 1 = free, user types from 2; joints in addJoint order,
    base joints added by connectBodyToGround appended after them; slave bodies numbered after
    the input bodies).  Masses are integers (the harness feeds the same integers as doubles).
    [Error] is returned exactly where the code throws; [OutOfFuel] only when the fuel given
    to the three loops (generateGraph's while(true), growTree's level loop, growTree's
    massless-chain while(true)) runs out.  No proofs in this file. *)
From Coq Require Import List ZArith Bool Arith.
Import ListNotations.

(* ------------------------------------------------------------------ data *)
Record jtype := { tdof : nat; tloop : bool }.            (* numMobilities, haveGoodLoopJointAvailable *)
Record body  := { bmass : Z; bbase : bool }.             (* mass, mustBeBaseBody *)
Record joint := { jty : nat; jpar : nat; jchi : nat; jloop : bool; jadded : bool }.
                                                          (* type, parent, child, mustBeLoopJoint, isAddedBaseJoint *)
Record jin   := { ji_ty : nat; ji_par : nat; ji_chi : nat; ji_loop : bool }.
Record input := { in_types : list jtype;                 (* user joint types (numbered from 2) *)
                  in_bodies : list body;                 (* bodies 1..n (Ground is implicit body 0) *)
                  in_joints : list jin }.

Record mob  := { mjoint : nat; mlevel : nat; minb : nat; moutb : nat; mrev : bool }.
Record lcon := { cjoint : nat; cpar : nat; cchi : nat; ctype : nat }.

Inductive err :=
| EBadDof (t:nat)            (* addJointType: numMobilities > 6 *)
| ENegMass (b:nat)           (* addBody: negative mass *)
| EBadType (j:nat) | EBadParent (j:nat) | EBadChild (j:nat)   (* addJoint: unrecognized ... *)
| EMasslessFree (b:nat)      (* generateGraph: massless but free (no joint) *)
| EMasslessDangling (b:nat)  (* generateGraph: massless, one joint, mobile *)
| ETerminalMassless (b:nat). (* growTree: terminal massless body *)

Inductive result (A:Type) := Ok (a:A) | Error (e:err) | OutOfFuel.
Arguments Ok {A} a. Arguments Error {A} e. Arguments OutOfFuel {A}.

Record graph := { g_nb : nat;                    (* Ground + input bodies *)
                  g_joints : list joint;         (* input joints then added base joints *)
                  g_mobs : list mob;             (* mobilizers in the order generated *)
                  g_cons : list lcon;            (* loop constraints *)
                  g_slaves : list nat;           (* k-th entry = master of slave body g_nb+k *)
                  g_levels : list (option nat) }. (* level of bodies 0..g_nb-1 *)

Definition jd : joint := {| jty := 0; jpar := 0; jchi := 0; jloop := false; jadded := false |}.
Definition td : jtype := {| tdof := 0; tloop := false |}.
Definition bd : body  := {| bmass := 0; bbase := false |}.

Definition upd {A} (f : nat -> A) (k : nat) (v : A) : nat -> A := fun x => if Nat.eqb x k then v else f x.
Definition isSome {A} (o : option A) : bool := match o with Some _ => true | None => false end.

(* ------------------------------------------------------------------ static context *)
Section Alg.
Variable T : list jtype.      (* weld :: free :: user types *)
Variable B : list body.       (* B[0] is a placeholder for Ground (its mass, Infinity in the code, is never read) *)
Variable F : nat.             (* fuel handed to every loop *)

Definition nb : nat := length B.
Definition massOf (b : nat) : Z := bmass (nth b B bd).
Definition baseOf (b : nat) : bool := bbase (nth b B bd).
Definition typeOf (j : joint) : jtype := nth (jty j) T td.
Definition dofOf (j : joint) : nat := tdof (typeOf j).

(** Body::jointsAsParent / jointsAsChild: joint numbers in addJoint order *)
Definition jointsAsParent (J : list joint) (b : nat) : list nat :=
  filter (fun jn => Nat.eqb (jpar (nth jn J jd)) b) (seq 0 (length J)).
Definition jointsAsChild (J : list joint) (b : nat) : list nat :=
  filter (fun jn => Nat.eqb (jchi (nth jn J jd)) b) (seq 0 (length J)).

(** bodiesAreConnected(b1,b2) (no longer used by generateGraph) *)
Definition connected (J : list joint) (b1 b2 : nat) : bool :=
  existsb (fun jn => Nat.eqb (jchi (nth jn J jd)) b2) (jointsAsParent J b1) ||
  existsb (fun jn => Nat.eqb (jpar (nth jn J jd)) b2) (jointsAsChild J b1).

(** generateGraph() step 1: is there a joint between b and Ground that may become a mobilizer (not mustBeLoopJoint)? *)
Definition treeJointToGround (J : list joint) (b : nat) : bool :=
  existsb (fun jn => Nat.eqb (jchi (nth jn J jd)) 0 && negb (jloop (nth jn J jd))) (jointsAsParent J b) ||
  existsb (fun jn => Nat.eqb (jpar (nth jn J jd)) 0 && negb (jloop (nth jn J jd))) (jointsAsChild J b).

(** connectBodyToGround(b): free joint Ground -> b *)
Definition baseJoint (b : nat) : joint := {| jty := 1; jpar := 0; jchi := b; jloop := false; jadded := true |}.

(** generateGraph() step 1 for bodies [bns] *)
Fixpoint precheck (bns : list nat) (J : list joint) : result (list joint) :=
  match bns with
  | [] => Ok J
  | bn :: r =>
    let asP := jointsAsParent J bn in
    let asC := jointsAsChild J bn in
    let nJ := length asP + length asC in
    let bad :=
      if Z.eqb (massOf bn) 0 then
        if Nat.eqb nJ 0 then Some (EMasslessFree bn)
        else if Nat.eqb nJ 1 then
          let jnum := match asC with [] => hd 0 asP | c :: _ => c end in
          if Nat.ltb 0 (dofOf (nth jnum J jd)) then Some (EMasslessDangling bn) else None
        else None
      else None in
    match bad with
    | Some e => Error e
    | None =>
      if Nat.eqb nJ 0 || (baseOf bn && negb (treeJointToGround J bn))
      then precheck r (J ++ [baseJoint bn]) else precheck r J
    end
  end.

(* ------------------------------------------------------------------ tree state *)
Record tstate := { lev : nat -> option nat;      (* Body::level, None = -1 *)
                   jm  : nat -> option nat;      (* Joint::mobilizer, None = -1 *)
                   mobs : list mob }.

Definition inTree (s : tstate) (b : nat) : bool := isSome (lev s b).

Definition init_state : tstate :=
  {| lev := fun b => if Nat.eqb b 0 then Some 0 else None; jm := fun _ => None; mobs := [] |}.

(** addMobilizerForJoint(jn) (Release build: the asserts are not there) *)
Definition addMob (J : list joint) (jn : nat) (s : tstate) : tstate :=
  let j := nth jn J jd in
  let mobNum := length (mobs s) in
  match lev s (jpar j) with
  | Some lp =>
      {| lev := upd (lev s) (jchi j) (Some (S lp)); jm := upd (jm s) jn (Some mobNum);
         mobs := mobs s ++ [ {| mjoint := jn; mlevel := S lp; minb := jpar j; moutb := jchi j; mrev := false |} ] |}
  | None =>
    match lev s (jchi j) with
    | Some lc =>
      {| lev := upd (lev s) (jpar j) (Some (S lc)); jm := upd (jm s) jn (Some mobNum);
         mobs := mobs s ++ [ {| mjoint := jn; mlevel := S lc; minb := jchi j; moutb := jpar j; mrev := true |} ] |}
    | None => {| lev := lev s; jm := upd (jm s) jn (Some mobNum); mobs := mobs s |}
    end
  end.

(** findHeaviestUnassignedForwardJoint / ReverseJoint: scan with (jointNum, maxMass) starting at (-1, 0) *)
Fixpoint findH (other : joint -> nat) (J : list joint) (s : tstate) (cands : list nat)
               (best : option nat) (maxM : Z) : option nat :=
  match cands with
  | [] => best
  | jn :: r =>
    let j := nth jn J jd in
    if isSome (jm s jn) then findH other J s r best maxM
    else if jloop j then findH other J s r best maxM
    else if inTree s (other j) then findH other J s r best maxM
    else if Z.gtb (massOf (other j)) maxM then findH other J s r (Some jn) (massOf (other j))
    else findH other J s r best maxM
  end.
Definition findFwd (J : list joint) (s : tstate) (b : nat) : option nat :=
  findH jchi J s (jointsAsParent J b) None 0%Z.
Definition findRev (J : list joint) (s : tstate) (b : nat) : option nat :=
  findH jpar J s (jointsAsChild J b) None 0%Z.

(** mobilizers.back().outboardBody *)
Definition lastOutb (s : tstate) : nat := moutb (last (mobs s) {| mjoint := 0; mlevel := 0; minb := 0; moutb := 0; mrev := false |}).

(** growTree(): the inner while(true) that extends a branch past a massless mobile body *)
Fixpoint chain (fuel : nat) (J : list joint) (s : tstate) (added : list nat) : result (tstate * list nat) :=
  match fuel with
  | 0 => OutOfFuel
  | S f =>
    let bNum := lastOutb s in
    let jf := findFwd J s bNum in
    let fwdMassful := match jf with Some j => Z.gtb (massOf (jchi (nth j J jd))) 0 | None => false end in
    match jf, fwdMassful with
    | Some j, true => Ok (addMob J j s, j :: added)
    | _, _ =>
      let jr := findRev J s bNum in
      let revMassful := match jr with Some j => Z.gtb (massOf (jpar (nth j J jd))) 0 | None => false end in
      match jr, revMassful with
      | Some j, true => Ok (addMob J j s, j :: added)
      | _, _ =>
        match jf with
        | Some j => chain f J (addMob J j s) (j :: added)
        | None =>
          match jr with
          | Some j => chain f J (addMob J j s) (j :: added)
          | None => Error (ETerminalMassless bNum)
          end
        end
      end
    end
  end.

Definition levelOfMob (s : tstate) (i : nat) : option nat :=
  match nth_error (mobs s) i with Some m => Some (mlevel m) | None => None end.
Definition optEqb (o : option nat) (n : nat) : bool := match o with Some k => Nat.eqb k n | None => false end.

(** growTree(): one pass "for (jNum=0; jNum<getNumJoints(); ++jNum)" at outboard level [S l0] *)
Fixpoint sweep (J : list joint) (l0 : nat) (jns : list nat) (s : tstate) (added : list nat) (any : bool)
  : result (tstate * list nat * bool) :=
  match jns with
  | [] => Ok (s, added, any)
  | jn :: r =>
    let j := nth jn J jd in
    match jm s jn with
    | Some i =>
      let any' := if existsb (Nat.eqb jn) added && optEqb (levelOfMob s i) (S l0) then true else any in
      sweep J l0 r s added any'
    | None =>
      if jloop j then sweep J l0 r s added any else
      let pin := inTree s (jpar j) in
      let cin := inTree s (jchi j) in
      if negb (xorb pin cin) then sweep J l0 r s added any else
      if negb (optEqb (if pin then lev s (jpar j) else lev s (jchi j)) l0) then sweep J l0 r s added any else
      let s1 := addMob J jn s in
      let added1 := jn :: added in
      if Nat.eqb (dofOf j) 0 || Z.gtb (massOf (lastOutb s1)) 0 then sweep J l0 r s1 added1 true
      else match chain F J s1 added1 with
           | Ok (s2, added2) => sweep J l0 r s2 added2 true
           | Error e => Error e
           | OutOfFuel => OutOfFuel
           end
    end
  end.

(** growTree(): "for (level=1; ; ++level)" *)
Fixpoint levels (fuel : nat) (J : list joint) (l0 : nat) (s : tstate) (added : list nat) : result tstate :=
  match fuel with
  | 0 => OutOfFuel
  | S f =>
    match sweep J l0 (seq 0 (length J)) s added false with
    | Ok (s', added', any) => if any then levels f J (S l0) s' added' else Ok s'
    | Error e => Error e
    | OutOfFuel => OutOfFuel
    end
  end.
Definition growTree (J : list joint) (s : tstate) : result tstate := levels F J 0 s [].

(** chooseNewBaseBody() over bodies [bxs] with (parentOnlyBodySeen, bestBody, nChildren) *)
Fixpoint choose (J : list joint) (s : tstate) (bxs : list nat) (seen : bool) (best : option nat) (nch : Z) : option nat :=
  match bxs with
  | [] => best
  | bx :: r =>
    if inTree s bx then choose J s r seen best nch else
    let noChild := match jointsAsChild J bx with [] => true | _ => false end in
    let np := Z.of_nat (length (jointsAsParent J bx)) in
    if seen && negb noChild then choose J s r seen best nch
    else if negb seen && noChild then choose J s r true (Some bx) np
    else if Z.gtb np nch then choose J s r seen (Some bx) np
    else choose J s r seen best nch
  end.
Definition chooseNewBase (J : list joint) (s : tstate) : option nat :=
  choose J s (seq 1 (nb - 1)) false None (-1)%Z.

(** generateGraph() step 2 *)
Fixpoint mainloop (fuel : nat) (J : list joint) (s : tstate) : result (list joint * tstate) :=
  match fuel with
  | 0 => OutOfFuel
  | S f =>
    match growTree J s with
    | Ok s' =>
      match chooseNewBase J s' with
      | None => Ok (J, s')
      | Some b => mainloop f (J ++ [baseJoint b]) s'
      end
    | Error e => Error e
    | OutOfFuel => OutOfFuel
    end
  end.

(** breakLoops() *)
Record bstate := { bmobs : list mob; bcons : list lcon; bslaves : list nat }.
Fixpoint breakL (J : list joint) (s : tstate) (jxs : list nat) (b : bstate) : bstate :=
  match jxs with
  | [] => b
  | jx :: r =>
    match jm s jx with
    | Some _ => breakL J s r b
    | None =>
      let j := nth jx J jd in
      if tloop (typeOf j) then
        breakL J s r {| bmobs := bmobs b; bslaves := bslaves b;
                        bcons := bcons b ++ [ {| cjoint := jx; cpar := jpar j; cchi := jchi j; ctype := jty j |} ] |}
      else
        let sx := nb + length (bslaves b) in
        let level := match lev s (jpar j) with Some l => S l | None => 0 end in
        breakL J s r {| bmobs := bmobs b ++ [ {| mjoint := jx; mlevel := level; minb := jpar j; moutb := sx; mrev := false |} ];
                        bcons := bcons b; bslaves := bslaves b ++ [jchi j] |}
    end
  end.

Definition generateGraph (J0 : list joint) : result graph :=
  match precheck (seq 1 (nb - 1)) J0 with
  | Ok J1 =>
    match mainloop F J1 init_state with
    | Ok (J, s) =>
      let b := breakL J s (seq 0 (length J)) {| bmobs := mobs s; bcons := []; bslaves := [] |} in
      Ok {| g_nb := nb; g_joints := J; g_mobs := bmobs b; g_cons := bcons b; g_slaves := bslaves b;
            g_levels := map (lev s) (seq 0 nb) |}
    | Error e => Error e
    | OutOfFuel => OutOfFuel
    end
  | Error e => Error e
  | OutOfFuel => OutOfFuel
  end.
End Alg.

(* ------------------------------------------------------------------ addJointType / addBody / addJoint *)
Fixpoint checkTypes (k : nat) (ts : list jtype) : option err :=
  match ts with [] => None | t :: r => if Nat.ltb 6 (tdof t) then Some (EBadDof k) else checkTypes (S k) r end.
Fixpoint checkBodies (k : nat) (bs : list body) : option err :=
  match bs with [] => None | b :: r => if Z.ltb (bmass b) 0 then Some (ENegMass k) else checkBodies (S k) r end.
Fixpoint checkJoints (nt nbod k : nat) (js : list jin) : option err :=
  match js with
  | [] => None
  | j :: r => if negb (Nat.ltb (ji_ty j) nt) then Some (EBadType k)
              else if negb (Nat.ltb (ji_par j) nbod) then Some (EBadParent k)
              else if negb (Nat.ltb (ji_chi j) nbod) then Some (EBadChild k)
              else checkJoints nt nbod (S k) r
  end.

Definition weldT : jtype := {| tdof := 0; tloop := true |}.
Definition freeT : jtype := {| tdof := 6; tloop := true |}.
Definition groundB : body := {| bmass := 1; bbase := false |}.   (* mass never read *)
Definition allTypes (inp : input) : list jtype := weldT :: freeT :: in_types inp.
Definition allBodies (inp : input) : list body := groundB :: in_bodies inp.
Definition mkJoint (j : jin) : joint :=
  {| jty := ji_ty j; jpar := ji_par j; jchi := ji_chi j; jloop := ji_loop j; jadded := false |}.

(** default fuel: bodies + joints + slack *)
Definition defaultFuel (inp : input) : nat := length (in_bodies inp) + length (in_joints inp) + 3.

(** the whole client sequence: addJointType*, addBody*, addJoint*, generateGraph *)
Definition generate (fuel : nat) (inp : input) : result graph :=
  match checkTypes 2 (in_types inp) with
  | Some e => Error e
  | None =>
    match checkBodies 1 (in_bodies inp) with
    | Some e => Error e
    | None =>
      match checkJoints (length (allTypes inp)) (length (allBodies inp)) 0 (in_joints inp) with
      | Some e => Error e
      | None => generateGraph (allTypes inp) (allBodies inp) fuel (map mkJoint (in_joints inp))
      end
    end
  end.

(* ------------------------------------------------------------------ the two DESIGN 7.19 witnesses *)
Definition pinT  : jtype := {| tdof := 1; tloop := false |}.
Definition ballT : jtype := {| tdof := 3; tloop := true |}.
(* user types: 2 = pin, 3 = ball *)
Definition witness_i : input :=
  {| in_types := [pinT; ballT];
     in_bodies := [ {| bmass := 0; bbase := false |}; {| bmass := 1; bbase := true |};
                    {| bmass := 3; bbase := false |}; {| bmass := 2; bbase := false |} ];
     in_joints := [ {| ji_ty := 0; ji_par := 1; ji_chi := 3; ji_loop := false |};
                    {| ji_ty := 2; ji_par := 2; ji_chi := 1; ji_loop := false |};
                    {| ji_ty := 2; ji_par := 4; ji_chi := 3; ji_loop := false |};
                    {| ji_ty := 3; ji_par := 0; ji_chi := 2; ji_loop := true |} ] |}.
Definition witness_ii : input :=
  {| in_types := [pinT; ballT];
     in_bodies := [ {| bmass := 2; bbase := false |}; {| bmass := 1; bbase := true |}; {| bmass := 0; bbase := false |} ];
     in_joints := [ {| ji_ty := 1; ji_par := 3; ji_chi := 2; ji_loop := false |};
                    {| ji_ty := 3; ji_par := 0; ji_chi := 3; ji_loop := false |} ] |}.
