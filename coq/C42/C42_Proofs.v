(** C42: proofs about the model of MultibodyGraphMaker::generateGraph (C42_Model.v).
    Part 1: the tree invariant [Inv] and its preservation by addMob / chain / sweep / levels / mainloop. *)
From Coq Require Import List ZArith Bool Arith Lia.
Import ListNotations.
Require Import C42_Model.

Ltac inv H := inversion H; subst; clear H.
Ltac dm :=
  match goal with
  | H : context[match ?x with _ => _ end] |- _ => destruct x eqn:?
  | |- context[match ?x with _ => _ end] => destruct x eqn:?
  end.

(* ------------------------------------------------------------------ small list facts *)
Lemma nth_error_snoc {A} (l : list A) (x m : A) i :
  nth_error (l ++ [x]) i = Some m -> (i < length l /\ nth_error l i = Some m) \/ (i = length l /\ m = x).
Proof.
  intros H. destruct (Nat.lt_ge_cases i (length l)) as [Hlt|Hge].
  - left. split; auto. rewrite nth_error_app1 in H; auto.
  - right. rewrite nth_error_app2 in H; auto.
    destruct (i - length l) as [|k] eqn:E.
    + simpl in H. inv H. split; auto. lia.
    + simpl in H. destruct k; discriminate.
Qed.

Lemma nth_error_snoc_old {A} (l : list A) (x m : A) i :
  nth_error l i = Some m -> nth_error (l ++ [x]) i = Some m.
Proof. intros H. rewrite nth_error_app1; auto. apply nth_error_Some. congruence. Qed.

Lemma nth_error_snoc_new {A} (l : list A) (x : A) : nth_error (l ++ [x]) (length l) = Some x.
Proof. rewrite nth_error_app2; auto. rewrite Nat.sub_diag. reflexivity. Qed.

Lemma nth_error_lt {A} (l : list A) i m : nth_error l i = Some m -> i < length l.
Proof. intros H. apply nth_error_Some. congruence. Qed.

Lemma upd_same {A} (f : nat -> A) k v : upd f k v k = v.
Proof. unfold upd. rewrite Nat.eqb_refl. reflexivity. Qed.
Lemma upd_other {A} (f : nat -> A) k v x : x <> k -> upd f k v x = f x.
Proof. unfold upd. intros H. apply Nat.eqb_neq in H. rewrite H. reflexivity. Qed.

Lemma isSome_true {A} (o : option A) : isSome o = true <-> exists x, o = Some x.
Proof. destruct o; simpl; split; intros; eauto; try discriminate. destruct H; discriminate. Qed.
Lemma isSome_false {A} (o : option A) : isSome o = false <-> o = None.
Proof. destruct o; simpl; split; intros; auto; discriminate. Qed.

(* ------------------------------------------------------------------ the tree invariant *)
Definition oriented (j : joint) (m : mob) : Prop :=
  (mrev m = false /\ minb m = jpar j /\ moutb m = jchi j) \/
  (mrev m = true  /\ minb m = jchi j /\ moutb m = jpar j).

Definition mob_ok (J : list joint) (s : tstate) (i : nat) (m : mob) : Prop :=
  mjoint m < length J /\
  jloop (nth (mjoint m) J jd) = false /\
  oriented (nth (mjoint m) J jd) m /\
  moutb m <> 0 /\
  lev s (moutb m) = Some (mlevel m) /\
  (exists lp, lev s (minb m) = Some lp /\ mlevel m = S lp) /\
  (minb m = 0 \/ exists i' m', i' < i /\ nth_error (mobs s) i' = Some m' /\ moutb m' = minb m) /\
  jm s (mjoint m) = Some i.

Record Inv (J : list joint) (s : tstate) : Prop := {
  I_ground : lev s 0 = Some 0;
  I_mob : forall i m, nth_error (mobs s) i = Some m -> mob_ok J s i m;
  I_jm  : forall j i, jm s j = Some i -> exists m, nth_error (mobs s) i = Some m /\ mjoint m = j;
  I_lev : forall b l, lev s b = Some l -> b = 0 \/ exists i m, nth_error (mobs s) i = Some m /\ moutb m = b;
  I_inj : forall i i' m m', nth_error (mobs s) i = Some m -> nth_error (mobs s) i' = Some m' -> moutb m = moutb m' -> i = i'
}.

Lemma init_inv J : Inv J init_state.
Proof.
  constructor; simpl.
  - reflexivity.
  - intros i m H. destruct i; discriminate.
  - intros; discriminate.
  - intros b l H. destruct b; auto. discriminate.
  - intros i i' m m' H. destruct i; discriminate.
Qed.

(** extending the tree by one mobilizer: body [b] (not in the tree) goes outboard of [a] (in the tree, level l) *)
Definition ext (s : tstate) (jn l a b : nat) (r : bool) : tstate :=
  {| lev := upd (lev s) b (Some (S l)); jm := upd (jm s) jn (Some (length (mobs s)));
     mobs := mobs s ++ [ {| mjoint := jn; mlevel := S l; minb := a; moutb := b; mrev := r |} ] |}.

Lemma ext_inv J s jn l a b r :
  Inv J s -> jn < length J -> jloop (nth jn J jd) = false -> jm s jn = None ->
  lev s a = Some l -> lev s b = None ->
  oriented (nth jn J jd) {| mjoint := jn; mlevel := S l; minb := a; moutb := b; mrev := r |} ->
  Inv J (ext s jn l a b r).
Proof.
  intros HI Hjn Hloop Hjm Ha Hb Hor.
  assert (Hb0 : b <> 0). { intros ->. rewrite (I_ground _ _ HI) in Hb. discriminate. }
  assert (Hab : a <> b). { intros ->. congruence. }
  constructor; simpl.
  - rewrite upd_other; auto. apply (I_ground _ _ HI).
  - intros i m H. apply nth_error_snoc in H. destruct H as [[Hlt H]|[Hi Hm]].
    + destruct (I_mob _ _ HI _ _ H) as (M1 & M2 & M3 & M4 & M5 & (lp & M6 & M6') & M7 & M8).
      unfold mob_ok; simpl. repeat split; auto.
      * rewrite upd_other; auto. intros E. rewrite E in M5. congruence.
      * exists lp. split; auto. rewrite upd_other; auto. intros E. rewrite E in M6. congruence.
      * destruct M7 as [M7|(i' & m' & L1 & L2 & L3)]; auto. right. exists i', m'. repeat split; auto.
        apply nth_error_snoc_old; auto.
      * rewrite upd_other; auto. intros E. rewrite E in M8. congruence.
    + subst i m. unfold mob_ok; simpl. repeat split; auto.
      * apply upd_same.
      * exists l. split; auto. rewrite upd_other; auto.
      * destruct (I_lev _ _ HI _ _ Ha) as [A0|(i' & m' & L1 & L2)]; auto.
        right. exists i', m'. repeat split; auto. { eapply nth_error_lt; eauto. } apply nth_error_snoc_old; auto.
      * apply upd_same.
  - intros j i H. unfold upd in H. destruct (Nat.eqb j jn) eqn:E.
    + apply Nat.eqb_eq in E. subst j. inv H. eexists. split. { apply nth_error_snoc_new. } reflexivity.
    + destruct (I_jm _ _ HI _ _ H) as (m & H1 & H2). exists m. split; auto. apply nth_error_snoc_old; auto.
  - intros x l' H. unfold upd in H. destruct (Nat.eqb x b) eqn:E.
    + apply Nat.eqb_eq in E. subst x. right. eexists _, _. split. { apply nth_error_snoc_new. } reflexivity.
    + destruct (I_lev _ _ HI _ _ H) as [A0|(i' & m' & L1 & L2)]; auto.
      right. exists i', m'. split; auto. apply nth_error_snoc_old; auto.
  - intros i i' m m' H H' E.
    apply nth_error_snoc in H. apply nth_error_snoc in H'.
    destruct H as [[Hlt H]|[Hi Hm]], H' as [[Hlt' H']|[Hi' Hm']].
    + eapply (I_inj _ _ HI); eauto.
    + exfalso. subst m'. simpl in E. destruct (I_mob _ _ HI _ _ H) as (_ & _ & _ & _ & M5 & _). rewrite E in M5. congruence.
    + exfalso. subst m. simpl in E. destruct (I_mob _ _ HI _ _ H') as (_ & _ & _ & _ & M5 & _). rewrite <- E in M5. congruence.
    + lia.
Qed.

(** addMob under the code's assert: exactly one of parent/child in the tree *)
Lemma addMob_ext J jn s :
  xorb (inTree s (jpar (nth jn J jd))) (inTree s (jchi (nth jn J jd))) = true ->
  (exists l, lev s (jpar (nth jn J jd)) = Some l /\ lev s (jchi (nth jn J jd)) = None /\
             addMob J jn s = ext s jn l (jpar (nth jn J jd)) (jchi (nth jn J jd)) false) \/
  (exists l, lev s (jchi (nth jn J jd)) = Some l /\ lev s (jpar (nth jn J jd)) = None /\
             addMob J jn s = ext s jn l (jchi (nth jn J jd)) (jpar (nth jn J jd)) true).
Proof.
  unfold inTree, addMob. intros H.
  destruct (lev s (jpar (nth jn J jd))) as [lp|] eqn:E1; destruct (lev s (jchi (nth jn J jd))) as [lc|] eqn:E2;
    simpl in H; try discriminate.
  - left. exists lp. repeat split; auto.
  - right. exists lc. repeat split; auto.
Qed.

Lemma addMob_inv J jn s :
  Inv J s -> jn < length J -> jloop (nth jn J jd) = false -> jm s jn = None ->
  xorb (inTree s (jpar (nth jn J jd))) (inTree s (jchi (nth jn J jd))) = true ->
  Inv J (addMob J jn s).
Proof.
  intros HI Hjn Hl Hjm Hx.
  destruct (addMob_ext J jn s Hx) as [(l & E1 & E2 & ->)|(l & E1 & E2 & ->)];
    apply ext_inv; auto; [left|right]; simpl; auto.
Qed.

Lemma addMob_mobs_snoc J jn s :
  xorb (inTree s (jpar (nth jn J jd))) (inTree s (jchi (nth jn J jd))) = true ->
  exists m, mobs (addMob J jn s) = mobs s ++ [m] /\ mjoint m = jn /\ oriented (nth jn J jd) m /\
            lev s (minb m) <> None /\ lev s (moutb m) = None /\
            (forall x, x <> moutb m -> lev (addMob J jn s) x = lev s x) /\ lev (addMob J jn s) (moutb m) = Some (mlevel m) /\
            lev s (minb m) = Some (pred (mlevel m)) /\ mlevel m <> 0.
Proof.
  intros Hx.
  destruct (addMob_ext J jn s Hx) as [(l & E1 & E2 & ->)|(l & E1 & E2 & ->)]; eexists; (split; [reflexivity|]); simpl;
    repeat split; auto; try congruence; try (intros; apply upd_other; auto); try apply upd_same.
  - left; auto.
  - right; auto.
Qed.

(* ------------------------------------------------------------------ jointsAsParent / jointsAsChild *)
Lemma in_asParent J b jn : In jn (jointsAsParent J b) <-> jn < length J /\ jpar (nth jn J jd) = b.
Proof.
  unfold jointsAsParent. rewrite filter_In, in_seq, Nat.eqb_eq. split; intros [H1 H2]; split; auto; lia.
Qed.
Lemma in_asChild J b jn : In jn (jointsAsChild J b) <-> jn < length J /\ jchi (nth jn J jd) = b.
Proof.
  unfold jointsAsChild. rewrite filter_In, in_seq, Nat.eqb_eq. split; intros [H1 H2]; split; auto; lia.
Qed.

Section WithBodies.
Variable T : list jtype.
Variable B : list body.
Variable F : nat.

(* ------------------------------------------------------------------ findHeaviest* *)
Lemma findH_spec other J s cands : forall best maxM jn,
  findH B other J s cands best maxM = Some jn ->
  best = Some jn \/
  (In jn cands /\ jm s jn = None /\ jloop (nth jn J jd) = false /\ lev s (other (nth jn J jd)) = None /\
   (massOf B (other (nth jn J jd)) > maxM)%Z).
Proof.
  induction cands as [|c r IH]; simpl; intros best maxM jn H; auto.
  destruct (isSome (jm s c)) eqn:E1.
  { apply IH in H. destruct H as [H|(H1 & H2)]; [auto | right; split; auto]. }
  destruct (jloop (nth c J jd)) eqn:E2.
  { apply IH in H. destruct H as [H|(H1 & H2)]; [auto | right; split; auto]. }
  destruct (inTree s (other (nth c J jd))) eqn:E3.
  { apply IH in H. destruct H as [H|(H1 & H2)]; [auto | right; split; auto]. }
  destruct (Z.gtb (massOf B (other (nth c J jd))) maxM) eqn:E4.
  - apply IH in H. apply isSome_false in E1. apply isSome_false in E3. apply Z.gtb_lt in E4.
    destruct H as [H|(H1 & H2 & H3 & H4 & H5)].
    + inv H. right. repeat split; auto. lia.
    + right. repeat split; auto. lia.
  - apply IH in H. destruct H as [H|(H1 & H2)]; [auto | right; split; auto].
Qed.

Lemma findFwd_spec J s b jn : findFwd B J s b = Some jn ->
  jn < length J /\ jpar (nth jn J jd) = b /\ jm s jn = None /\ jloop (nth jn J jd) = false /\
  lev s (jchi (nth jn J jd)) = None /\ (massOf B (jchi (nth jn J jd)) > 0)%Z.
Proof.
  unfold findFwd. intros H. apply findH_spec in H. destruct H as [H|(H1 & H2 & H3 & H4 & H5)]; [discriminate|].
  apply in_asParent in H1. destruct H1. repeat split; auto.
Qed.
Lemma findRev_spec J s b jn : findRev B J s b = Some jn ->
  jn < length J /\ jchi (nth jn J jd) = b /\ jm s jn = None /\ jloop (nth jn J jd) = false /\
  lev s (jpar (nth jn J jd)) = None /\ (massOf B (jpar (nth jn J jd)) > 0)%Z.
Proof.
  unfold findRev. intros H. apply findH_spec in H. destruct H as [H|(H1 & H2 & H3 & H4 & H5)]; [discriminate|].
  apply in_asChild in H1. destruct H1. repeat split; auto.
Qed.

(* ------------------------------------------------------------------ lastOutb *)
Lemma last_snoc {A} (l : list A) (x d : A) : last (l ++ [x]) d = x.
Proof. induction l as [|a l IH]; simpl; auto. destruct (l ++ [x]) eqn:E; auto. destruct l; discriminate. Qed.

Lemma last_nth_error {A} (l : list A) (d : A) : l <> [] -> nth_error l (length l - 1) = Some (last l d).
Proof.
  intros H. destruct (exists_last H) as (l' & x & ->). rewrite last_snoc, app_length. simpl.
  replace (length l' + 1 - 1) with (length l') by lia. apply nth_error_snoc_new.
Qed.

Lemma lastOutb_inTree J s : Inv J s -> exists l, lev s (lastOutb s) = Some l.
Proof.
  intros HI. unfold lastOutb.
  set (d := {| mjoint := 0; mlevel := 0; minb := 0; moutb := 0; mrev := false |}).
  destruct (mobs s) as [|m0 l0] eqn:E.
  - simpl. exists 0. apply (I_ground _ _ HI).
  - assert (Hne : m0 :: l0 <> []) by discriminate.
    pose proof (last_nth_error (m0 :: l0) d Hne) as Hl. rewrite <- E in Hl. rewrite <- E.
    destruct (I_mob _ _ HI _ _ Hl) as (_ & _ & _ & _ & M5 & _). eauto.
Qed.

(** the two ways the chain loop calls addMob are legal *)
Lemma fwd_pre J s jn : Inv J s -> findFwd B J s (lastOutb s) = Some jn ->
  jn < length J /\ jloop (nth jn J jd) = false /\ jm s jn = None /\
  xorb (inTree s (jpar (nth jn J jd))) (inTree s (jchi (nth jn J jd))) = true.
Proof.
  intros HI H. apply findFwd_spec in H. destruct H as (H1 & H2 & H3 & H4 & H5 & H6).
  repeat split; auto. unfold inTree. rewrite H2, H5. destruct (lastOutb_inTree J s HI) as (l & ->). reflexivity.
Qed.
Lemma rev_pre J s jn : Inv J s -> findRev B J s (lastOutb s) = Some jn ->
  jn < length J /\ jloop (nth jn J jd) = false /\ jm s jn = None /\
  xorb (inTree s (jpar (nth jn J jd))) (inTree s (jchi (nth jn J jd))) = true.
Proof.
  intros HI H. apply findRev_spec in H. destruct H as (H1 & H2 & H3 & H4 & H5 & H6).
  repeat split; auto. unfold inTree. rewrite H2, H5. destruct (lastOutb_inTree J s HI) as (l & ->). reflexivity.
Qed.

(* ------------------------------------------------------------------ a generic "every addMob call is legal" induction *)
(** [P] is any state predicate preserved by legal addMob calls; the loops preserve it. *)
Definition legal (J : list joint) (s : tstate) (jn : nat) : Prop :=
  jn < length J /\ jloop (nth jn J jd) = false /\ jm s jn = None /\
  xorb (inTree s (jpar (nth jn J jd))) (inTree s (jchi (nth jn J jd))) = true.

Lemma chain_inv J : forall fuel s added s' added',
  Inv J s -> chain B fuel J s added = Ok (s', added') -> Inv J s'.
Proof.
  induction fuel as [|f IH]; simpl; intros s added s' added' HI H; [discriminate|].
  destruct (findFwd B J s (lastOutb s)) as [jf|] eqn:Ef.
  - destruct (fwd_pre J s jf HI Ef) as (P1 & P2 & P3 & P4).
    destruct (Z.gtb (massOf B (jchi (nth jf J jd))) 0) eqn:Em.
    + inv H. apply addMob_inv; auto.
    + destruct (findRev B J s (lastOutb s)) as [jr|] eqn:Er.
      * destruct (rev_pre J s jr HI Er) as (Q1 & Q2 & Q3 & Q4).
        destruct (Z.gtb (massOf B (jpar (nth jr J jd))) 0) eqn:Em2.
        -- inv H. apply addMob_inv; auto.
        -- eapply IH; [|exact H]. apply addMob_inv; auto.
      * eapply IH; [|exact H]. apply addMob_inv; auto.
  - destruct (findRev B J s (lastOutb s)) as [jr|] eqn:Er.
    + destruct (rev_pre J s jr HI Er) as (Q1 & Q2 & Q3 & Q4).
      destruct (Z.gtb (massOf B (jpar (nth jr J jd))) 0) eqn:Em2.
      * inv H. apply addMob_inv; auto.
      * eapply IH; [|exact H]. apply addMob_inv; auto.
    + discriminate.
Qed.

Lemma sweep_inv J l0 : forall jns s added any s' added' any',
  Inv J s -> Forall (fun jn => jn < length J) jns ->
  sweep T B F J l0 jns s added any = Ok (s', added', any') -> Inv J s'.
Proof.
  induction jns as [|jn r IH]; simpl; intros s added any s' added' any' HI HF H.
  - inv H. auto.
  - inv HF. destruct (jm s jn) eqn:Ejm.
    { eapply IH; eauto. }
    destruct (jloop (nth jn J jd)) eqn:El.
    { eapply IH; eauto. }
    destruct (negb (xorb (inTree s (jpar (nth jn J jd))) (inTree s (jchi (nth jn J jd))))) eqn:Ex.
    { eapply IH; eauto. }
    apply negb_false_iff in Ex.
    match type of H with (if negb ?c then _ else _) = _ => destruct c end; simpl in H.
    2:{ eapply IH; eauto. }
    assert (HI1 : Inv J (addMob J jn s)) by (apply addMob_inv; auto).
    match type of H with (if ?c then _ else _) = _ => destruct c end.
    { eapply IH; eauto. }
    destruct (chain B F J (addMob J jn s) (jn :: added)) as [[s2 added2]| |] eqn:Ec; try discriminate.
    eapply IH; [| |exact H]; auto. eapply chain_inv; eauto.
Qed.

Lemma seq_lt n : Forall (fun jn => jn < n) (seq 0 n).
Proof. apply Forall_forall. intros x H. apply in_seq in H. lia. Qed.

Lemma levels_inv J : forall fuel l0 s added s',
  Inv J s -> levels T B F fuel J l0 s added = Ok s' -> Inv J s'.
Proof.
  induction fuel as [|f IH]; simpl; intros l0 s added s' HI H; [discriminate|].
  destruct (sweep T B F J l0 (seq 0 (length J)) s added false) as [[[s1 added1] any1]| |] eqn:Es; try discriminate.
  assert (Inv J s1) by (eapply sweep_inv; eauto using seq_lt).
  destruct any1.
  - eapply IH; eauto.
  - inv H. auto.
Qed.

Lemma growTree_inv J s s' : Inv J s -> growTree T B F J s = Ok s' -> Inv J s'.
Proof. unfold growTree. intros. eapply levels_inv; eauto. Qed.

Lemma inv_snoc J x s : Inv J s -> Inv (J ++ [x]) s.
Proof.
  intros HI. constructor.
  - apply (I_ground _ _ HI).
  - intros i m H. destruct (I_mob _ _ HI _ _ H) as (M1 & M2 & M3 & M4 & M5 & M6 & M7 & M8).
    unfold mob_ok. rewrite app_length, app_nth1 by auto. repeat split; auto. lia.
  - apply (I_jm _ _ HI).
  - apply (I_lev _ _ HI).
  - apply (I_inj _ _ HI).
Qed.

(* ------------------------------------------------------------------ chooseNewBaseBody *)
Lemma choose_none J s : forall bxs seen best nch,
  (best = None -> seen = false /\ nch = (-1)%Z) ->
  choose J s bxs seen best nch = None ->
  best = None /\ forall bx, In bx bxs -> inTree s bx = true.
Proof.
  induction bxs as [|bx r IH]; simpl; intros seen best nch Hb H.
  - split; auto; intros ? [].
  - destruct (inTree s bx) eqn:Et.
    + destruct (IH _ _ _ Hb H) as [H1 H2]. split; auto. intros x [<-|Hx]; auto.
    + exfalso.
      destruct (seen && negb match jointsAsChild J bx with [] => true | _ :: _ => false end) eqn:E1.
      { destruct (IH _ _ _ Hb H) as [H1 _]. destruct (Hb H1) as [-> _]. discriminate. }
      destruct (negb seen && match jointsAsChild J bx with [] => true | _ :: _ => false end) eqn:E2.
      { destruct (IH true (Some bx) (Z.of_nat (length (jointsAsParent J bx)))) as [H1 _]; auto; try discriminate. }
      destruct (Z.gtb (Z.of_nat (length (jointsAsParent J bx))) nch) eqn:E3.
      { destruct (IH seen (Some bx) (Z.of_nat (length (jointsAsParent J bx)))) as [H1 _]; auto; discriminate. }
      destruct (IH _ _ _ Hb H) as [H1 _]. destruct (Hb H1) as [_ ->].
      rewrite Z.gtb_ltb in E3. apply Z.ltb_ge in E3. lia.
Qed.

Lemma choose_some_in J s : forall bxs seen best nch b,
  choose J s bxs seen best nch = Some b -> best = Some b \/ (In b bxs /\ inTree s b = false).
Proof.
  induction bxs as [|bx r IH]; simpl; intros seen best nch b H; auto.
  destruct (inTree s bx) eqn:Et.
  { apply IH in H. destruct H as [H|[H H']]; auto. }
  repeat dm; apply IH in H; destruct H as [H|[H H']]; auto; inv H; auto.
Qed.

Lemma chooseNewBase_none J s : chooseNewBase B J s = None -> forall b, 1 <= b < nb B -> inTree s b = true.
Proof.
  unfold chooseNewBase. intros H b Hb. apply choose_none in H; auto.
  destruct H as [_ H]. apply H. apply in_seq. lia.
Qed.
Lemma chooseNewBase_some J s b : chooseNewBase B J s = Some b -> 1 <= b < nb B /\ inTree s b = false.
Proof.
  unfold chooseNewBase. intros H. apply choose_some_in in H. destruct H as [H|[H H']]; [discriminate|].
  apply in_seq in H. split; auto. lia.
Qed.

(* ------------------------------------------------------------------ joints stay in range, and what was added *)
Definition JRange (J : list joint) : Prop := forall jn, jn < length J -> jpar (nth jn J jd) < nb B /\ jchi (nth jn J jd) < nb B.

Lemma jrange_snoc J b : JRange J -> 1 <= b < nb B -> JRange (J ++ [baseJoint b]).
Proof.
  intros HR Hb jn Hjn. rewrite app_length in Hjn. simpl in Hjn.
  destruct (Nat.lt_ge_cases jn (length J)).
  - rewrite app_nth1; auto.
  - assert (jn = length J) by lia. subst jn. rewrite app_nth2, Nat.sub_diag; auto. simpl. lia.
Qed.

(** [Extends J0 J]: J is J0 followed by base joints Ground -> b for input bodies b *)
Definition Extends (J0 J : list joint) : Prop :=
  exists added, J = J0 ++ added /\ Forall (fun j => exists b, 1 <= b < nb B /\ j = baseJoint b) added.
Lemma extends_refl J : Extends J J.
Proof. exists []. rewrite app_nil_r. auto. Qed.
Lemma extends_snoc J0 J b : Extends J0 J -> 1 <= b < nb B -> Extends J0 (J ++ [baseJoint b]).
Proof.
  intros (a & -> & Ha) Hb. exists (a ++ [baseJoint b]). rewrite app_assoc. split; auto.
  apply Forall_app. split; auto. constructor; eauto.
Qed.
Lemma extends_trans J0 J1 J2 : Extends J0 J1 -> Extends J1 J2 -> Extends J0 J2.
Proof.
  intros (a & -> & Ha) (a' & -> & Ha'). exists (a ++ a'). rewrite app_assoc. split; auto. apply Forall_app; auto.
Qed.

Lemma precheck_spec : forall bns J J', (forall b, In b bns -> 1 <= b < nb B) -> JRange J ->
  precheck T B bns J = Ok J' -> JRange J' /\ Extends J J'.
Proof.
  induction bns as [|bn r IH]; simpl; intros J J' Hb HR H.
  - inv H. split; auto using extends_refl.
  - assert (Hbn : 1 <= bn < nb B) by (apply Hb; auto).
    assert (Hr : forall b, In b r -> 1 <= b < nb B) by auto.
    repeat dm; try discriminate;
      (apply IH in H; [| auto | auto using jrange_snoc]);
      destruct H; split; auto;
      try (eapply extends_trans; [|eauto]; apply extends_snoc; auto using extends_refl).
Qed.

(* ------------------------------------------------------------------ no terminal massless mobile body *)
Definition needsChild (J : list joint) (m : mob) : Prop :=
  massOf B (moutb m) = 0%Z /\ 0 < dofOf T (nth (mjoint m) J jd).
Definition hasChild (l : list mob) (m : mob) : Prop := exists m', In m' l /\ minb m' = moutb m.
Definition NT (J : list joint) (l : list mob) : Prop := forall m, In m l -> needsChild J m -> hasChild l m.
(** the same for all but the last mobilizer (the one whose branch is being extended) *)
Definition NTp (J : list joint) (l : list mob) : Prop := forall m, In m (removelast l) -> needsChild J m -> hasChild l m.

Lemma hasChild_app l l' m : hasChild l m -> hasChild (l ++ l') m.
Proof. intros (m' & H1 & H2). exists m'. split; auto. apply in_or_app; auto. Qed.

Lemma NT_NTp_snoc J l x : NT J l -> NTp J (l ++ [x]).
Proof. intros H m Hm Hn. rewrite removelast_last in Hm. apply hasChild_app. auto. Qed.

Lemma NTp_close J l x : NTp J (l ++ [x]) -> ~ needsChild J x -> NT J (l ++ [x]).
Proof.
  intros H Hx m Hm Hn. apply in_app_or in Hm. destruct Hm as [Hm|[<-|[]]].
  - apply H; auto. rewrite removelast_last. auto.
  - contradiction.
Qed.

Lemma NTp_extend J l x y : NTp J (l ++ [x]) -> minb y = moutb x -> NTp J ((l ++ [x]) ++ [y]).
Proof.
  intros H Hy m Hm Hn. rewrite removelast_last in Hm. apply in_app_or in Hm. destruct Hm as [Hm|[<-|[]]].
  - apply hasChild_app. apply H; auto. rewrite removelast_last. auto.
  - exists y. split; auto. apply in_or_app. right. simpl; auto.
Qed.

Lemma lastOutb_snoc s l x : mobs s = l ++ [x] -> lastOutb s = moutb x.
Proof. intros H. unfold lastOutb. rewrite H, last_snoc. reflexivity. Qed.

(** the mobilizer the chain loop adds hangs off the last outboard body *)
Lemma chain_step_fwd J s jn : Inv J s -> findFwd B J s (lastOutb s) = Some jn ->
  exists y, mobs (addMob J jn s) = mobs s ++ [y] /\ minb y = lastOutb s /\ moutb y = jchi (nth jn J jd).
Proof.
  intros HI Hf. destruct (fwd_pre J s jn HI Hf) as (_ & _ & _ & Hx).
  apply findFwd_spec in Hf. destruct Hf as (_ & Hp & _ & _ & Hc & _).
  destruct (lastOutb_inTree J s HI) as (lb & Hlb).
  destruct (addMob_ext J jn s Hx) as [(l & E1 & E2 & ->)|(l & E1 & E2 & ->)].
  - eexists. split; [reflexivity|]. simpl. auto.
  - rewrite Hp in E2. congruence.
Qed.
Lemma chain_step_rev J s jn : Inv J s -> findRev B J s (lastOutb s) = Some jn ->
  exists y, mobs (addMob J jn s) = mobs s ++ [y] /\ minb y = lastOutb s /\ moutb y = jpar (nth jn J jd).
Proof.
  intros HI Hf. destruct (rev_pre J s jn HI Hf) as (_ & _ & _ & Hx).
  apply findRev_spec in Hf. destruct Hf as (_ & Hp & _ & _ & Hc & _).
  destruct (lastOutb_inTree J s HI) as (lb & Hlb).
  destruct (addMob_ext J jn s Hx) as [(l & E1 & E2 & ->)|(l & E1 & E2 & ->)].
  - congruence.
  - eexists. split; [reflexivity|]. simpl. auto.
Qed.

Lemma chain_nt J : forall fuel s added s' added',
  Inv J s -> mobs s <> [] -> NTp J (mobs s) -> chain B fuel J s added = Ok (s', added') -> NT J (mobs s').
Proof.
  induction fuel as [|f IH]; simpl; intros s added s' added' HI Hne HN H; [discriminate|].
  destruct (exists_last Hne) as (l & x & El).
  pose proof (lastOutb_snoc _ _ _ El) as Hlast.
  assert (Hmassful : forall y, mobs s ++ [y] = (l ++ [x]) ++ [y] -> minb y = lastOutb s ->
                     (massOf B (moutb y) >? 0)%Z = true -> NT J (mobs s ++ [y])).
  { intros y _ Hy Hm. rewrite El. apply NTp_close.
    - apply NTp_extend; [rewrite <- El; auto| congruence].
    - intros [Hz _]. apply Z.gtb_lt in Hm. lia. }
  assert (Hcont : forall y, minb y = lastOutb s -> NTp J (mobs s ++ [y])).
  { intros y Hy. rewrite El. apply NTp_extend; [rewrite <- El; auto| congruence]. }
  assert (Hne' : forall y, mobs s ++ [y] <> []) by (intros y E; destruct (mobs s); discriminate).
  destruct (findFwd B J s (lastOutb s)) as [jf|] eqn:Ef.
  - destruct (fwd_pre J s jf HI Ef) as (P1 & P2 & P3 & P4).
    destruct (chain_step_fwd J s jf HI Ef) as (y & Y1 & Y2 & Y3).
    destruct (Z.gtb (massOf B (jchi (nth jf J jd))) 0) eqn:Em.
    + inv H. rewrite Y1. apply Hmassful; auto; congruence.
    + destruct (findRev B J s (lastOutb s)) as [jr|] eqn:Er.
      * destruct (rev_pre J s jr HI Er) as (Q1 & Q2 & Q3 & Q4).
        destruct (chain_step_rev J s jr HI Er) as (z & Z1 & Z2 & Z3).
        destruct (Z.gtb (massOf B (jpar (nth jr J jd))) 0) eqn:Em2.
        -- inv H. rewrite Z1. apply Hmassful; auto; congruence.
        -- eapply IH; [| | |exact H]; [apply addMob_inv; auto| rewrite Y1; auto | rewrite Y1; auto].
      * eapply IH; [| | |exact H]; [apply addMob_inv; auto| rewrite Y1; auto | rewrite Y1; auto].
  - destruct (findRev B J s (lastOutb s)) as [jr|] eqn:Er.
    + destruct (rev_pre J s jr HI Er) as (Q1 & Q2 & Q3 & Q4).
      destruct (chain_step_rev J s jr HI Er) as (z & Z1 & Z2 & Z3).
      destruct (Z.gtb (massOf B (jpar (nth jr J jd))) 0) eqn:Em2.
      * inv H. rewrite Z1. apply Hmassful; auto; congruence.
      * eapply IH; [| | |exact H]; [apply addMob_inv; auto| rewrite Z1; auto | rewrite Z1; auto].
    + discriminate.
Qed.

Lemma sweep_nt J l0 : forall jns s added any s' added' any',
  Inv J s -> NT J (mobs s) -> Forall (fun jn => jn < length J) jns ->
  sweep T B F J l0 jns s added any = Ok (s', added', any') -> NT J (mobs s').
Proof.
  induction jns as [|jn r IH]; simpl; intros s added any s' added' any' HI HN HF H.
  - inv H. auto.
  - inv HF. destruct (jm s jn) eqn:Ejm.
    { eapply IH; eauto. }
    destruct (jloop (nth jn J jd)) eqn:El.
    { eapply IH; eauto. }
    destruct (negb (xorb (inTree s (jpar (nth jn J jd))) (inTree s (jchi (nth jn J jd))))) eqn:Ex.
    { eapply IH; eauto. }
    apply negb_false_iff in Ex.
    match type of H with (if negb ?c then _ else _) = _ => destruct c end; simpl in H.
    2:{ eapply IH; eauto. }
    assert (HI1 : Inv J (addMob J jn s)) by (apply addMob_inv; auto).
    destruct (addMob_mobs_snoc J jn s Ex) as (m & Hm & Hmj & _).
    assert (HNp : NTp J (mobs (addMob J jn s))) by (rewrite Hm; apply NT_NTp_snoc; auto).
    assert (Hlast : lastOutb (addMob J jn s) = moutb m) by (eapply lastOutb_snoc; eauto).
    rewrite Hlast in H.
    destruct (Nat.eqb (dofOf T (nth jn J jd)) 0 || Z.gtb (massOf B (moutb m)) 0) eqn:Ec.
    { eapply IH; [| | |exact H]; auto. rewrite Hm. apply NTp_close; [rewrite <- Hm; auto|].
      intros [N1 N2]. rewrite Hmj in N2. apply orb_true_iff in Ec. destruct Ec as [Ec|Ec].
      - apply Nat.eqb_eq in Ec. lia.
      - apply Z.gtb_lt in Ec. lia. }
    destruct (chain B F J (addMob J jn s) (jn :: added)) as [[s2 added2]| |] eqn:Ech; try discriminate.
    eapply IH; [| | |exact H]; auto.
    + eapply chain_inv; eauto.
    + eapply chain_nt; eauto. rewrite Hm. intros E; destruct (mobs s); discriminate.
Qed.

Lemma levels_nt J : forall fuel l0 s added s',
  Inv J s -> NT J (mobs s) -> levels T B F fuel J l0 s added = Ok s' -> NT J (mobs s').
Proof.
  induction fuel as [|f IH]; simpl; intros l0 s added s' HI HN H; [discriminate|].
  destruct (sweep T B F J l0 (seq 0 (length J)) s added false) as [[[s1 added1] any1]| |] eqn:Es; try discriminate.
  assert (Inv J s1) by (eapply sweep_inv; eauto using seq_lt).
  assert (NT J (mobs s1)) by (eapply sweep_nt; [exact HI|exact HN|apply seq_lt|exact Es]).
  destruct any1.
  - eapply IH; eauto.
  - inv H. auto.
Qed.

Lemma nt_snoc J x s : Inv J s -> NT J (mobs s) -> NT (J ++ [x]) (mobs s).
Proof.
  intros HI HN m Hm [N1 N2]. apply HN; auto. split; auto.
  apply In_nth_error in Hm. destruct Hm as (i & Hi).
  destruct (I_mob _ _ HI _ _ Hi) as (M1 & _). rewrite app_nth1 in N2; auto.
Qed.

Lemma mainloop_spec : forall fuel J s J' s',
  Inv J s -> NT J (mobs s) -> JRange J -> mainloop T B F fuel J s = Ok (J', s') ->
  (Inv J' s' /\ NT J' (mobs s')) /\ JRange J' /\ Extends J J' /\ (forall b, 1 <= b < nb B -> inTree s' b = true).
Proof.
  induction fuel as [|f IH]; simpl; intros J s J' s' HI HN HR H; [discriminate|].
  destruct (growTree T B F J s) as [s1| |] eqn:Eg; try discriminate.
  assert (HI1 : Inv J s1) by (eapply growTree_inv; eauto).
  assert (HN1 : NT J (mobs s1)) by (eapply levels_nt; [exact HI|exact HN|exact Eg]).
  destruct (chooseNewBase B J s1) as [b|] eqn:Ec.
  - apply chooseNewBase_some in Ec. destruct Ec as [Hb _].
    apply IH in H; auto using inv_snoc, jrange_snoc, nt_snoc.
    destruct H as (H1 & H2 & H3 & H4). split; [auto|split; [auto|split; [|auto]]].
    eapply extends_trans; [|eauto]. apply extends_snoc; auto using extends_refl.
  - inv H. split; [auto|split; [auto|split; [apply extends_refl|]]]. eapply chooseNewBase_none; eauto.
Qed.

End WithBodies.
