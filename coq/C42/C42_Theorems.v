(** C42: the property theorems (statements re-exported verbatim by Props/Properties_C42.v).
    All are about [generate fuel inp] = the model of: addJointType*, addBody*, addJoint*, generateGraph(). *)
From Coq Require Import List ZArith Bool Arith Lia.
Import ListNotations.
Require Import C42_Model C42_Proofs C42_Final.

(* ================================================================== property theorems ===== *)
(** Notation for readers: body 0 is Ground, bodies 1 .. g_nb-1 are the input bodies, bodies g_nb .. g_nb+|g_slaves|-1
    are slave bodies; [occ p l] counts the elements of [l] satisfying [p]. *)

(** (1) every input body and every slave body is the outboard body of exactly one mobilizer; Ground of none *)
Lemma each_body_mobilized_once fuel inp g : generate fuel inp = Ok g ->
  g_nb g = S (length (in_bodies inp)) /\
  (forall b, 1 <= b < g_nb g + length (g_slaves g) -> occ (fun m => Nat.eqb (moutb m) b) (g_mobs g) = 1) /\
  (forall m, In m (g_mobs g) -> 1 <= moutb m < g_nb g + length (g_slaves g)).
Proof.
  intros H. destruct (generate_shape _ _ _ H) as (s & SH).
  pose proof (S_nb _ _ _ _ _ SH) as Hnb. rewrite Hnb. split; [apply nb_allBodies|]. split.
  - intros b Hb. destruct (Nat.lt_ge_cases b (nb (allBodies inp))).
    + eapply sh_body_once; eauto. lia.
    + replace b with (nb (allBodies inp) + (b - nb (allBodies inp))) by lia.
      eapply sh_slave_once; eauto. lia.
  - intros m Hm. destruct (sh_mobilizer_kinds _ _ _ _ _ SH m Hm) as (_ & [(K1 & _)|(k & K1 & K2 & _)]).
    + lia.
    + apply nth_error_lt in K2. pose proof (S_nb1 _ _ _ _ _ SH). lia.
Qed.

(** (2) inboard-first order: a mobilizer's inboard body is Ground (then its level is 1) or the outboard body of an
    earlier mobilizer (then its level is that mobilizer's level + 1) *)
Lemma inboard_first fuel inp g : generate fuel inp = Ok g ->
  forall i m, nth_error (g_mobs g) i = Some m ->
  (minb m = 0 /\ mlevel m = 1) \/
  (exists i' m', i' < i /\ nth_error (g_mobs g) i' = Some m' /\ moutb m' = minb m /\ mlevel m = S (mlevel m')).
Proof.
  intros H. destruct (generate_shape _ _ _ H) as (s & SH). eapply sh_inboard_first; eauto.
Qed.

(** (3) the joint list is the input joints followed by added Ground->body free joints, and every joint of it
    (in particular every input joint) is used exactly once, as a mobilizer or as a loop constraint *)
Lemma each_joint_once fuel inp g : generate fuel inp = Ok g ->
  (exists added, g_joints g = inputJoints inp ++ added /\
                 Forall (fun j => exists b, 1 <= b < g_nb g /\ j = baseJoint b) added) /\
  (forall j, j < length (g_joints g) ->
     occ (fun m => Nat.eqb (mjoint m) j) (g_mobs g) + occ (fun c => Nat.eqb (cjoint c) j) (g_cons g) = 1) /\
  (forall m, In m (g_mobs g) -> mjoint m < length (g_joints g)) /\
  (forall c, In c (g_cons g) -> cjoint c < length (g_joints g)).
Proof.
  intros H. destruct (generate_shape _ _ _ H) as (s & SH). split; [|split; [|split]].
  - rewrite (S_nb _ _ _ _ _ SH). apply (S_ext _ _ _ _ _ SH).
  - intros j Hj. eapply sh_joint_once; eauto.
  - intros m Hm. eapply sh_mobilizer_kinds; eauto.
  - intros c Hc. eapply sh_loop_constraints; eauto.
Qed.

(** what the mobilizers and loop constraints are *)
Lemma mobilizer_kinds fuel inp g : generate fuel inp = Ok g ->
  forall m, In m (g_mobs g) ->
  let j := nth (mjoint m) (g_joints g) jd in
  (1 <= moutb m < g_nb g /\ minb m < g_nb g /\ jloop j = false /\ oriented j m) \/
  (exists k, moutb m = g_nb g + k /\ nth_error (g_slaves g) k = Some (jchi j) /\
             minb m = jpar j /\ mrev m = false /\ tloop (typeOf (allTypes inp) j) = false).
Proof.
  intros H m Hm. destruct (generate_shape _ _ _ H) as (s & SH). rewrite (S_nb _ _ _ _ _ SH).
  apply (sh_mobilizer_kinds _ _ _ _ _ SH m Hm).
Qed.

Lemma loop_constraints_ok fuel inp g : generate fuel inp = Ok g ->
  forall c, In c (g_cons g) ->
  let j := nth (cjoint c) (g_joints g) jd in
  cpar c = jpar j /\ cchi c = jchi j /\ ctype c = jty j /\ tloop (typeOf (allTypes inp) j) = true.
Proof.
  intros H c Hc. destruct (generate_shape _ _ _ H) as (s & SH). eapply sh_loop_constraints; eauto.
Qed.

(** (4) each slave is "welded to its master": the k-th slave body (number g_nb+k) has a master that is an input body
    (or Ground) and is the outboard body of a forward mobilizer realising a joint whose child is that master *)
Lemma slaves_welded_to_master fuel inp g : generate fuel inp = Ok g ->
  forall k master, nth_error (g_slaves g) k = Some master ->
  master < g_nb g /\
  exists i m, nth_error (g_mobs g) i = Some m /\ moutb m = g_nb g + k /\ mrev m = false /\
              mjoint m < length (g_joints g) /\
              jchi (nth (mjoint m) (g_joints g) jd) = master /\ minb m = jpar (nth (mjoint m) (g_joints g) jd) /\
              tloop (typeOf (allTypes inp) (nth (mjoint m) (g_joints g) jd)) = false.
Proof.
  intros H k master Hk. destruct (generate_shape _ _ _ H) as (s & SH). rewrite (S_nb _ _ _ _ _ SH).
  eapply sh_slaves; eauto.
Qed.

(** (5) joints marked mustBeLoopJoint are never tree mobilizers: a mobilizer realising one has a slave as outboard body *)
Lemma must_be_loop_honoured fuel inp g : generate fuel inp = Ok g ->
  forall m, In m (g_mobs g) -> jloop (nth (mjoint m) (g_joints g) jd) = true -> g_nb g <= moutb m.
Proof.
  intros H m Hm Hl. destruct (mobilizer_kinds _ _ _ H m Hm) as [(_ & _ & K & _)|(k & -> & _)].
  - congruence.
  - lia.
Qed.

(** (6) no massless body with mobilities ends a branch: if a mobilizer of an input body has a massless outboard body and a
    joint type with mobilities, some mobilizer of an input body has that body as its inboard body *)
Lemma no_terminal_massless_mobile fuel inp g : generate fuel inp = Ok g ->
  forall m, In m (g_mobs g) -> moutb m < g_nb g ->
  massOf (allBodies inp) (moutb m) = 0%Z -> 0 < dofOf (allTypes inp) (nth (mjoint m) (g_joints g) jd) ->
  exists m', In m' (g_mobs g) /\ minb m' = moutb m /\ 1 <= moutb m' < g_nb g.
Proof.
  intros H m Hm. destruct (generate_shape _ _ _ H) as (s & SH). rewrite (S_nb _ _ _ _ _ SH).
  apply (sh_no_terminal _ _ _ _ _ SH m Hm).
Qed.

(* ------------------------------------------------------------------ the DESIGN 7.19 witnesses: mustBeBaseBody *)
(** level of input body b in the returned graph *)
Definition levelOf (g : graph) (b : nat) : option nat := nth b (g_levels g) None.

(** the full-strength statement "every mustBeBaseBody body is a base body (level 1)" is false for the model
    (and for the code: both witnesses are replayed on the implementation by the check) *)
Definition base_honoured (inp : input) (g : graph) : Prop :=
  forall b, 1 <= b < g_nb g -> baseOf (allBodies inp) b = true -> levelOf g b = Some 1.

Lemma must_be_base_refuted_loop_joint_only :
  exists inp g, generate (defaultFuel inp) inp = Ok g /\ ~ base_honoured inp g.
Proof.
  exists witness_i. eexists. split. { vm_compute. reflexivity. }
  intros H. specialize (H 2). vm_compute in H. assert (E : Some 4 = Some 1) by (apply H; auto). discriminate.
Qed.

Lemma must_be_base_refuted_massless_chain :
  exists inp g, generate (defaultFuel inp) inp = Ok g /\ ~ base_honoured inp g.
Proof.
  exists witness_ii. eexists. split. { vm_compute. reflexivity. }
  intros H. specialize (H 2). vm_compute in H. assert (E : Some 2 = Some 1) by (apply H; auto). discriminate.
Qed.

(* ------------------------------------------------------------------ non-vacuity *)
(** four-bar with an extra must-be-loop ball joint: one slave body, one loop constraint *)
Definition fourbar : input :=
  {| in_types := [pinT; ballT];
     in_bodies := [ {| bmass := 1; bbase := false |}; {| bmass := 1; bbase := false |}; {| bmass := 1; bbase := false |} ];
     in_joints := [ {| ji_ty := 2; ji_par := 0; ji_chi := 1; ji_loop := false |};
                    {| ji_ty := 2; ji_par := 1; ji_chi := 2; ji_loop := false |};
                    {| ji_ty := 2; ji_par := 2; ji_chi := 3; ji_loop := false |};
                    {| ji_ty := 2; ji_par := 3; ji_chi := 0; ji_loop := false |};
                    {| ji_ty := 3; ji_par := 1; ji_chi := 3; ji_loop := true |} ] |}.
Example fourbar_ok : exists g, generate (defaultFuel fourbar) fourbar = Ok g /\
  length (g_mobs g) = 4 /\ length (g_slaves g) = 1 /\ length (g_cons g) = 1.
Proof. eexists. split. { vm_compute. reflexivity. } vm_compute. auto. Qed.

(** a massless mobile body in the middle of a chain (non-vacuity of [no_terminal_massless_mobile]) *)
Definition massless_link : input :=
  {| in_types := [pinT; ballT];
     in_bodies := [ {| bmass := 0; bbase := false |}; {| bmass := 2; bbase := false |} ];
     in_joints := [ {| ji_ty := 2; ji_par := 0; ji_chi := 1; ji_loop := false |};
                    {| ji_ty := 2; ji_par := 1; ji_chi := 2; ji_loop := false |} ] |}.
Example massless_link_ok : exists g m, generate (defaultFuel massless_link) massless_link = Ok g /\ In m (g_mobs g) /\
  moutb m < g_nb g /\ massOf (allBodies massless_link) (moutb m) = 0%Z /\
  0 < dofOf (allTypes massless_link) (nth (mjoint m) (g_joints g) jd).
Proof. eexists. eexists. split. { vm_compute. reflexivity. } split. { left. reflexivity. } vm_compute. auto. Qed.
