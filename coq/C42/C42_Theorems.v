(** C42: the property theorems (statements re-exported verbatim by Props/Properties_C42.v).
    All are about [generate fuel inp] = the model of: addJointType*, addBody*, addJoint*, generateGraph(). *)
From Coq Require Import List ZArith Bool Arith Lia.
Import ListNotations.
Require Import C42_Model C42_Proofs C42_Final C42_Fuel C42_Base.

(* ================================================================== property theorems ===== *)
(** Notation for readers: body 0 is Ground, bodies 1 .. g_nb-1 are the input bodies, bodies g_nb .. g_nb+|g_slaves|-1
    are slave bodies; [occ p l] counts the elements of [l] satisfying [p]. *)

(** (1) every input body and every slave body is the outboard body of exactly one mobilizer; Ground of none *)
Lemma each_body_mobilized_once fuel inp g : generate fuel inp = Ok g ->
  g_nb g = S (length (in_bodies inp)) /\
  (forall b, 1 <= b < g_nb g + length (g_slaves g) -> occ (fun m => Nat.eqb (moutb m) b) (g_mobs g) = 1) /\
  (forall m, In m (g_mobs g) -> 1 <= moutb m < g_nb g + length (g_slaves g)).
Proof.
  intros H. destruct (generate_shape _ _ _ H) as (s & SH).
  pose proof (S_nb _ _ _ _ _ SH) as Hnb. rewrite Hnb. split; [apply nb_allBodies|]. split.
  - intros b Hb. destruct (Nat.lt_ge_cases b (nb (allBodies inp))).
    + eapply sh_body_once; eauto. lia.
    + replace b with (nb (allBodies inp) + (b - nb (allBodies inp))) by lia.
      eapply sh_slave_once; eauto. lia.
  - intros m Hm. destruct (sh_mobilizer_kinds _ _ _ _ _ SH m Hm) as (_ & [(K1 & _)|(k & K1 & K2 & _)]).
    + lia.
    + apply nth_error_lt in K2. pose proof (S_nb1 _ _ _ _ _ SH). lia.
Qed.

(** (2) inboard-first order: a mobilizer's inboard body is Ground (then its level is 1) or the outboard body of an
    earlier mobilizer (then its level is that mobilizer's level + 1) *)
Lemma inboard_first fuel inp g : generate fuel inp = Ok g ->
  forall i m, nth_error (g_mobs g) i = Some m ->
  (minb m = 0 /\ mlevel m = 1) \/
  (exists i' m', i' < i /\ nth_error (g_mobs g) i' = Some m' /\ moutb m' = minb m /\ mlevel m = S (mlevel m')).
Proof.
  intros H. destruct (generate_shape _ _ _ H) as (s & SH). eapply sh_inboard_first; eauto.
Qed.

(** (3) the joint list is the input joints followed by added Ground->body free joints, and every joint of it
    (in particular every input joint) is used exactly once, as a mobilizer or as a loop constraint *)
Lemma each_joint_once fuel inp g : generate fuel inp = Ok g ->
  (exists added, g_joints g = inputJoints inp ++ added /\
                 Forall (fun j => exists b, 1 <= b < g_nb g /\ j = baseJoint b) added) /\
  (forall j, j < length (g_joints g) ->
     occ (fun m => Nat.eqb (mjoint m) j) (g_mobs g) + occ (fun c => Nat.eqb (cjoint c) j) (g_cons g) = 1) /\
  (forall m, In m (g_mobs g) -> mjoint m < length (g_joints g)) /\
  (forall c, In c (g_cons g) -> cjoint c < length (g_joints g)).
Proof.
  intros H. destruct (generate_shape _ _ _ H) as (s & SH). split; [|split; [|split]].
  - rewrite (S_nb _ _ _ _ _ SH). apply (S_ext _ _ _ _ _ SH).
  - intros j Hj. eapply sh_joint_once; eauto.
  - intros m Hm. eapply sh_mobilizer_kinds; eauto.
  - intros c Hc. eapply sh_loop_constraints; eauto.
Qed.

(** what the mobilizers and loop constraints are *)
Lemma mobilizer_kinds fuel inp g : generate fuel inp = Ok g ->
  forall m, In m (g_mobs g) ->
  let j := nth (mjoint m) (g_joints g) jd in
  (1 <= moutb m < g_nb g /\ minb m < g_nb g /\ jloop j = false /\ oriented j m) \/
  (exists k, moutb m = g_nb g + k /\ nth_error (g_slaves g) k = Some (jchi j) /\
             minb m = jpar j /\ mrev m = false /\ tloop (typeOf (allTypes inp) j) = false).
Proof.
  intros H m Hm. destruct (generate_shape _ _ _ H) as (s & SH). rewrite (S_nb _ _ _ _ _ SH).
  apply (sh_mobilizer_kinds _ _ _ _ _ SH m Hm).
Qed.

Lemma loop_constraints_ok fuel inp g : generate fuel inp = Ok g ->
  forall c, In c (g_cons g) ->
  let j := nth (cjoint c) (g_joints g) jd in
  cpar c = jpar j /\ cchi c = jchi j /\ ctype c = jty j /\ tloop (typeOf (allTypes inp) j) = true.
Proof.
  intros H c Hc. destruct (generate_shape _ _ _ H) as (s & SH). eapply sh_loop_constraints; eauto.
Qed.

(** (4) each slave is "welded to its master": the k-th slave body (number g_nb+k) has a master that is an input body
    (or Ground) and is the outboard body of a forward mobilizer realising a joint whose child is that master *)
Lemma slaves_welded_to_master fuel inp g : generate fuel inp = Ok g ->
  forall k master, nth_error (g_slaves g) k = Some master ->
  master < g_nb g /\
  exists i m, nth_error (g_mobs g) i = Some m /\ moutb m = g_nb g + k /\ mrev m = false /\
              mjoint m < length (g_joints g) /\
              jchi (nth (mjoint m) (g_joints g) jd) = master /\ minb m = jpar (nth (mjoint m) (g_joints g) jd) /\
              tloop (typeOf (allTypes inp) (nth (mjoint m) (g_joints g) jd)) = false.
Proof.
  intros H k master Hk. destruct (generate_shape _ _ _ H) as (s & SH). rewrite (S_nb _ _ _ _ _ SH).
  eapply sh_slaves; eauto.
Qed.

(** (5) joints marked mustBeLoopJoint are never tree mobilizers: a mobilizer realising one has a slave as outboard body *)
Lemma must_be_loop_honoured fuel inp g : generate fuel inp = Ok g ->
  forall m, In m (g_mobs g) -> jloop (nth (mjoint m) (g_joints g) jd) = true -> g_nb g <= moutb m.
Proof.
  intros H m Hm Hl. destruct (mobilizer_kinds _ _ _ H m Hm) as [(_ & _ & K & _)|(k & -> & _)].
  - congruence.
  - lia.
Qed.

(** (6) no massless body with mobilities ends a branch: if a mobilizer of an input body has a massless outboard body and a
    joint type with mobilities, some mobilizer of an input body has that body as its inboard body *)
Lemma no_terminal_massless_mobile fuel inp g : generate fuel inp = Ok g ->
  forall m, In m (g_mobs g) -> moutb m < g_nb g ->
  massOf (allBodies inp) (moutb m) = 0%Z -> 0 < dofOf (allTypes inp) (nth (mjoint m) (g_joints g) jd) ->
  exists m', In m' (g_mobs g) /\ minb m' = moutb m /\ 1 <= moutb m' < g_nb g.
Proof.
  intros H m Hm. destruct (generate_shape _ _ _ H) as (s & SH). rewrite (S_nb _ _ _ _ _ SH).
  apply (sh_no_terminal _ _ _ _ _ SH m Hm).
Qed.

(** (7) termination: with fuel >= (number of input bodies) + 2 the model never runs out of fuel, whatever the joints
    (so on such fuel the model's answer is Ok or one of the errors the code throws) *)
Lemma precheck_no_oof T B : forall bns J, precheck T B bns J <> OutOfFuel.
Proof. induction bns as [|bn r IH]; simpl; intros J; [discriminate|]. repeat dm; auto; discriminate. Qed.

Lemma fuel_suffices fuel inp : length (in_bodies inp) + 2 <= fuel -> generate fuel inp <> OutOfFuel.
Proof.
  intros Hf. unfold generate.
  destruct (checkTypes 2 (in_types inp)); [discriminate|].
  destruct (checkBodies 1 (in_bodies inp)); [discriminate|].
  destruct (checkJoints _ _ 0 (in_joints inp)) eqn:Ej; [discriminate|].
  unfold generateGraph.
  destruct (precheck (allTypes inp) (allBodies inp) _ (map mkJoint (in_joints inp))) as [J1| |] eqn:Ep; try discriminate.
  2:{ exfalso. eapply precheck_no_oof; eauto. }
  assert (HR0 : JRange (allBodies inp) (map mkJoint (in_joints inp))).
  { intros jn Hjn. rewrite map_length in Hjn. destruct (nth_map_mkJoint _ _ Hjn) as (x & Hx & ->).
    destruct (checkJoints_none _ _ _ _ Ej _ Hx) as (_ & H2 & H3). simpl. unfold nb. auto. }
  apply precheck_spec in Ep; auto. 2:{ intros b Hb. apply in_seq in Hb. lia. }
  destruct Ep as [HR1 _].
  pose proof (nb_allBodies inp) as Hnb.
  destruct (mainloop (allTypes inp) (allBodies inp) fuel fuel J1 init_state) as [[J s]| |] eqn:Em; try discriminate.
  exfalso. eapply (mainloop_no_oof (allTypes inp) (allBodies inp) fuel); try exact Em; auto using init_inv; lia.
Qed.

(** observation (not a violation of C42, which allows an error): the massless-chain extension of growTree is a single
    step; its "add another massless body and keep trying" branches are dead code, so two adjacent massless mobile bodies
    always end in the "terminal massless body" error even when a valid tree exists *)
Lemma massless_chain_extension_is_single_step B f J s added : chain B (S f) J s added = chain B 1 J s added.
Proof. apply chain_one_step. Qed.

Definition two_massless : input :=
  {| in_types := [pinT; ballT];
     in_bodies := [ {| bmass := 0; bbase := false |}; {| bmass := 0; bbase := false |}; {| bmass := 1; bbase := false |} ];
     in_joints := [ {| ji_ty := 2; ji_par := 0; ji_chi := 1; ji_loop := false |};
                    {| ji_ty := 2; ji_par := 1; ji_chi := 2; ji_loop := false |};
                    {| ji_ty := 2; ji_par := 2; ji_chi := 3; ji_loop := false |} ] |}.
Example two_massless_in_a_row_is_an_error : generate (defaultFuel two_massless) two_massless = Error (ETerminalMassless 1).
Proof. vm_compute. reflexivity. Qed.

(* ------------------------------------------------------------------ the DESIGN 7.19 witnesses: mustBeBaseBody *)
(** level of input body b in the returned graph *)
Definition levelOf (g : graph) (b : nat) : option nat := nth b (g_levels g) None.

(** the full-strength statement "every mustBeBaseBody body is a base body (level 1)" is false for the model
    (and for the code: both witnesses are replayed on the implementation by the check) *)
Definition base_honoured (inp : input) (g : graph) : Prop :=
  forall b, 1 <= b < g_nb g -> baseOf (allBodies inp) b = true -> levelOf g b = Some 1.

Lemma must_be_base_refuted_massless_chain :
  exists inp g, generate (defaultFuel inp) inp = Ok g /\ ~ base_honoured inp g.
Proof.
  exists witness_ii. eexists. split. { vm_compute. reflexivity. }
  intros H. specialize (H 2). vm_compute in H. assert (E : Some 2 = Some 1) by (apply H; auto). discriminate.
Qed.

(** (8) mustBeBaseBody: a must-be-base body is at level 1 (inboard body Ground), or it was mobilized outboard of a body
    that is not massful (pattern (ii), the massless-chain extension). *)
Lemma must_be_base_honoured fuel inp g b : generate fuel inp = Ok g -> 1 <= b < g_nb g ->
  baseOf (allBodies inp) b = true ->
  exists m, In m (g_mobs g) /\ moutb m = b /\ levelOf g b = Some (mlevel m) /\
    ((mlevel m = 1 /\ minb m = 0) \/ Z.gtb (massOf (allBodies inp) (minb m)) 0 = false).
Proof.
  intros H Hb Hbase.
  destruct (generate_shape_ex _ _ _ H) as (Ej & J1 & s & Ep & Em & SH).
  rewrite (S_nb _ _ _ _ _ SH) in Hb. assert (b_pos : b <> 0) by lia.
  set (T := allTypes inp) in *. set (B := allBodies inp) in *.
  assert (HG1 : exists jn, groundLink b J1 jn) by (eapply precheck_link; [exact b_pos|exact Hbase| |exact Ep]; apply in_seq; lia).
  assert (HS : Settled B b s).
  { eapply (mainloop_settles T B fuel b b_pos); [apply init_inv| |exact Em]. right. split; auto. intros m []. }
  destruct HS as [Hlev HGood].
  destruct (lev s b) as [l|] eqn:El; [|congruence].
  destruct (I_lev _ _ (S_inv _ _ _ _ _ SH) _ _ El) as [E0|(i & m & Hi & Hm)]; [congruence|].
  destruct (I_mob _ _ (S_inv _ _ _ _ _ SH) _ _ Hi) as (_ & _ & _ & _ & M5 & (lp & M6 & M6') & M7 & _).
  exists m. split; [|split; [auto|split]].
  - rewrite (S_mobs _ _ _ _ _ SH). apply in_or_app. left. eapply nth_error_In; eauto.
  - unfold levelOf. rewrite (S_levels _ _ _ _ _ SH).
    assert (E : nth_error (map (lev s) (seq 0 (nb B))) b = Some (lev s b)).
    { apply map_nth_error. rewrite nth_error_nth' with (d := 0) by (rewrite seq_length; lia). rewrite seq_nth by lia. reflexivity. }
    rewrite (nth_error_nth _ _ None E). rewrite Hm in M5. congruence.
  - destruct (HGood m (nth_error_In _ _ Hi) Hm) as [L1|NM]; [left|right; exact NM]. split; auto.
    destruct M7 as [M7|(i' & m' & L1' & L2 & L3)]; auto. exfalso.
    destruct (I_mob _ _ (S_inv _ _ _ _ _ SH) _ _ L2) as (_ & _ & _ & _ & M5' & (lp' & _ & M6'') & _).
    rewrite L3 in M5'. assert (lp = mlevel m') by congruence. lia.
Qed.

(** corollary in input terms: if moreover no input joint connects the body to a body that is not massful, it is at level 1 *)
Definition no_massless_neighbour (inp : input) (b : nat) : Prop :=
  forall j, In j (in_joints inp) ->
    (ji_par j = b -> Z.gtb (massOf (allBodies inp) (ji_chi j)) 0 = true) /\
    (ji_chi j = b -> Z.gtb (massOf (allBodies inp) (ji_par j)) 0 = true).

Lemma must_be_base_honoured_level1 fuel inp g b : generate fuel inp = Ok g -> 1 <= b < g_nb g ->
  baseOf (allBodies inp) b = true -> no_massless_neighbour inp b ->
  levelOf g b = Some 1.
Proof.
  intros H Hb Hbase Hnm.
  destruct (must_be_base_honoured _ _ _ _ H Hb Hbase) as (m & Hin & Hout & Hlev & [[L1 _]|NM]); [congruence|].
  exfalso. destruct (generate_shape _ _ _ H) as (s & SH).
  destruct (sh_mobilizer_kinds _ _ _ _ _ SH m Hin) as (Hj & [(_ & _ & _ & Hor)|(k & K1 & _)]).
  2:{ rewrite (S_nb _ _ _ _ _ SH) in Hb. lia. }
  destruct (S_ext _ _ _ _ _ SH) as (added & EJ & Hadd).
  rewrite EJ in Hor, Hj. rewrite app_length in Hj.
  destruct (Nat.lt_ge_cases (mjoint m) (length (inputJoints inp))) as [Hlt|Hge].
  - rewrite app_nth1 in Hor by auto. unfold inputJoints in Hlt, Hor. rewrite map_length in Hlt.
    destruct (nth_map_mkJoint _ _ Hlt) as (x & Hx & E). rewrite E in Hor. simpl in Hor.
    destruct (Hnm x Hx) as [N1 N2].
    destruct Hor as [(_ & E1 & E2)|(_ & E1 & E2)]; rewrite E1 in NM; rewrite Hout in E2; simpl in NM, E2.
    + rewrite N2 in NM; auto; discriminate.
    + rewrite N1 in NM; auto; discriminate.
  - rewrite app_nth2 in Hor by auto.
    assert (Hk : mjoint m - length (inputJoints inp) < length added) by lia.
    pose proof (nth_In added jd Hk) as HIn. rewrite Forall_forall in Hadd. destruct (Hadd _ HIn) as (b' & _ & E).
    rewrite E in Hor. simpl in Hor.
    destruct Hor as [(_ & E1 & E2)|(_ & E1 & E2)].
    + rewrite E1 in NM. vm_compute in NM. discriminate.
    + simpl in E2. rewrite Hout in E2. lia.
Qed.

(* ------------------------------------------------------------------ non-vacuity *)
(** four-bar with an extra must-be-loop ball joint: one slave body, one loop constraint *)
Definition fourbar : input :=
  {| in_types := [pinT; ballT];
     in_bodies := [ {| bmass := 1; bbase := false |}; {| bmass := 1; bbase := false |}; {| bmass := 1; bbase := false |} ];
     in_joints := [ {| ji_ty := 2; ji_par := 0; ji_chi := 1; ji_loop := false |};
                    {| ji_ty := 2; ji_par := 1; ji_chi := 2; ji_loop := false |};
                    {| ji_ty := 2; ji_par := 2; ji_chi := 3; ji_loop := false |};
                    {| ji_ty := 2; ji_par := 3; ji_chi := 0; ji_loop := false |};
                    {| ji_ty := 3; ji_par := 1; ji_chi := 3; ji_loop := true |} ] |}.
Example fourbar_ok : exists g, generate (defaultFuel fourbar) fourbar = Ok g /\
  length (g_mobs g) = 4 /\ length (g_slaves g) = 1 /\ length (g_cons g) = 1.
Proof. eexists. split. { vm_compute. reflexivity. } vm_compute. auto. Qed.

(** a massless mobile body in the middle of a chain (non-vacuity of [no_terminal_massless_mobile]) *)
Definition massless_link : input :=
  {| in_types := [pinT; ballT];
     in_bodies := [ {| bmass := 0; bbase := false |}; {| bmass := 2; bbase := false |} ];
     in_joints := [ {| ji_ty := 2; ji_par := 0; ji_chi := 1; ji_loop := false |};
                    {| ji_ty := 2; ji_par := 1; ji_chi := 2; ji_loop := false |} ] |}.
Example massless_link_ok : exists g m, generate (defaultFuel massless_link) massless_link = Ok g /\ In m (g_mobs g) /\
  moutb m < g_nb g /\ massOf (allBodies massless_link) (moutb m) = 0%Z /\
  0 < dofOf (allTypes massless_link) (nth (mjoint m) (g_joints g) jd).
Proof. eexists. eexists. split. { vm_compute. reflexivity. } split. { left. reflexivity. } vm_compute. auto. Qed.

(** the default fuel used by the correspondence driver satisfies the bound of [fuel_suffices] *)
Lemma default_fuel_suffices inp : generate (defaultFuel inp) inp <> OutOfFuel.
Proof. apply fuel_suffices. unfold defaultFuel. lia. Qed.

(** non-vacuity of [must_be_base_honoured]: a must-be-base body with a tree-eligible Ground joint and massful neighbours *)
Definition base_ok_input : input :=
  {| in_types := [pinT; ballT];
     in_bodies := [ {| bmass := 2; bbase := false |}; {| bmass := 1; bbase := true |} ];
     in_joints := [ {| ji_ty := 2; ji_par := 0; ji_chi := 1; ji_loop := false |};
                    {| ji_ty := 2; ji_par := 1; ji_chi := 2; ji_loop := false |} ] |}.
Example base_ok_input_hyps : (exists g, generate (defaultFuel base_ok_input) base_ok_input = Ok g) /\
  baseOf (allBodies base_ok_input) 2 = true /\ no_massless_neighbour base_ok_input 2.
Proof.
  split. { eexists. vm_compute. reflexivity. } split; [reflexivity|].
  intros j [<-|[<-|[]]]; simpl; split; intros; try lia; reflexivity.
Qed.
