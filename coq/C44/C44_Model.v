(** C44 hand-written executable model (no proofs) of Simbody/src/PGSImpulseSolver.cpp, PGSImpulseSolver::solve:
    the helpers doRowSum(s), doUpdate(s), boundUnilateral, boundScalar, boundVector, boundFriction, one sweep in the
    order of the C++ (unconditional, unilateral normals, unilateral friction, bounded, state-limited friction,
    constraint-limited friction), and the outer loop (error norms, SOR reduction when the error grows, convergence test)
    with the iteration limit as fuel.  Polymorphic in [NumOps T]; vectors are lists, A is a list of rows.
    PLUSImpulseSolver is NOT modelled (only its outputs are checked against the documented inequalities by checks/C44.py). *)
From Coq Require Import ZArith List Bool Arith.
Require Import Num.
Import ListNotations.

Section Model.
Context {T : Type} (K : NumOps T).

Definition vget (v : list T) (i : nat) : T := nth i v (n0 K).
Definition mget (A : list (list T)) (r c : nat) : T := vget (nth r A []) c.
Fixpoint vset (v : list T) (i : nat) (x : T) : list T :=
  match v, i with
  | [], _ => []
  | _ :: t, O => x :: t
  | h :: t, S j => h :: vset t j x
  end.
Definition sq (x : T) : T := nmul K x x.

(** doRowSum: (A+D)[row]*pi over the participating columns:  rowSum = sum_c A(row,c)*pi[c];  rowSum += D[row]*pi[row] *)
Definition row_sum (part : list nat) (A : list (list T)) (D pi : list T) (row : nat) : T :=
  nadd K (fold_left (fun acc c => nadd K acc (nmul K (mget A row c) (vget pi c))) part (n0 K))
         (nmul K (vget D row) (vget pi row)).

(** doUpdate: Arr = A(row,row)+D[row]; er = rhs[row]-rowSum; if (Arr > 0) pi[row] += SOR*er/Arr; return er^2 *)
Definition upd (A : list (list T)) (D rhs : list T) (sor : T) (pi : list T) (row : nat) (rs : T) : list T * T :=
  let arr := nadd K (mget A row row) (vget D row) in
  let er := nsub K (vget rhs row) rs in
  (if nltb K (n0 K) arr then vset pi row (nadd K (vget pi row) (ndiv K (nmul K sor er) arr)) else pi, sq er).

(** doRowSums + doUpdates: all row sums of the block from the SAME pi, then the updates; returns the summed squared error *)
Definition block_update (part : list nat) (A : list (list T)) (D rhs : list T) (sor : T) (pi : list T) (rows : list nat)
  : list T * T :=
  let rss := map (row_sum part A D pi) rows in
  fold_left (fun (st : list T * T) (rr : nat * T) =>
               let '(p', e) := upd A D rhs sor (fst st) (fst rr) (snd rr) in (p', nadd K (snd st) e))
            (combine rows rss) (pi, n0 K).
(** doRowSum + doUpdate for one row *)
Definition row_update (part : list nat) (A : list (list T)) (D rhs : list T) (sor : T) (pi : list T) (row : nat) : list T * T :=
  upd A D rhs sor pi row (row_sum part A D pi row).

Definition sumsq (ix : list nat) (pi : list T) : T := fold_left (fun acc i => nadd K acc (sq (vget pi i))) ix (n0 K).
Definition scale_at (ix : list nat) (s : T) (pi : list T) : list T :=
  fold_left (fun p i => vset p i (nmul K (vget p i) s)) ix pi.

(** condition codes as in ImpulseSolver.h: UniOff=0 UniActive=1; Sliding=1 Rolling=3; SlipLow=0 Engaged=2 SlipHigh=4 *)
(** boundUnilateral: if (sign*pi > 0) {pi=0; UniOff} else UniActive *)
Definition bound_unilateral (sign : T) (pi : list T) (i : nat) : list T * nat :=
  if nltb K (n0 K) (nmul K sign (vget pi i)) then (vset pi i (n0 K), 0%nat) else (pi, 1%nat).
(** boundScalar: if (pi > ub) {pi=ub; SlipHigh} else if (pi < lb) {pi=lb; SlipLow} else Engaged *)
Definition bound_scalar (lb ub : T) (pi : list T) (i : nat) : list T * nat :=
  if nltb K ub (vget pi i) then (vset pi i ub, 4%nat)
  else if nltb K (vget pi i) lb then (vset pi i lb, 0%nat) else (pi, 2%nat).
(** boundVector: if (||pi[IV]||^2 <= maxLen^2) Rolling else { scale = sqrt(maxLen^2/||pi[IV]||^2); pi[IV] *= scale; Sliding } *)
Definition bound_vector (maxLen : T) (iv : list nat) (pi : list T) : list T * nat :=
  let maxLen2 := sq maxLen in
  let n2 := sumsq iv pi in
  if nleb K n2 maxLen2 then (pi, 3%nat)
  else (scale_at iv (nsqrt K (ndiv K maxLen2 n2)) pi, 1%nat).
(** boundFriction: N2 = ||pi[IN]||^2, F2 = ||pi[IF]||^2, mu2N2 = mu*mu*N2; if (F2 <= mu2N2) Rolling else scale by sqrt(mu2N2/F2) *)
Definition bound_friction (mu : T) (inn iff : list nat) (pi : list T) : list T * nat :=
  let n2 := sumsq inn pi in
  let f2 := sumsq iff pi in
  let mu2n2 := nmul K (nmul K mu mu) n2 in
  if nleb K f2 mu2n2 then (pi, 3%nat)
  else (scale_at iff (nsqrt K (ndiv K mu2n2 f2)) pi, 1%nat).

(** the steps of one sweep, in the order of the C++ loop body *)
Inductive step : Type :=
| SUncond (rows : list nat)                         (* unconditional[k].m_mults *)
| SNormal (nk : nat) (sign : T)                     (* participating unilateral contact normal *)
| SFric (fk : list nat) (nk : nat) (mu : T)         (* unilateral contact friction, limit mu*|pi[Nk]+piExpand[Nk]| *)
| SBounded (ix : nat) (lb ub : T)
| SState (fk : list nat) (mu knownN : T)            (* state-limited friction, limit mu*knownN *)
| SCons (fk nk : list nat) (mu : T).                (* constraint-limited friction, limit mu*||pi[Nk]|| *)

(** sweep state: pi, sum2all, sum2enf, reported conditions (most recent first; -1 is coded as 9 = "none") *)
Definition sstate : Type := (list T * (T * T) * list nat)%type.

Definition do_step (part : list nat) (A : list (list T)) (D rhs piE : list T) (sor : T) (s : step) (st : sstate) : sstate :=
  let '(pi, (s2all, s2enf), conds) := st in
  match s with
  | SUncond rows =>
      let '(pi1, e2) := block_update part A D rhs sor pi rows in
      (pi1, (nadd K s2all e2, nadd K s2enf e2), 9%nat :: conds)
  | SNormal nk sign =>
      let '(pi1, e2) := row_update part A D rhs sor pi nk in
      let '(pi2, c) := bound_unilateral sign pi1 nk in
      (pi2, (nadd K s2all e2, if Nat.eqb c 1 then nadd K s2enf e2 else s2enf), c :: conds)
  | SFric fk nk mu =>
      let '(pi1, e2) := block_update part A D rhs sor pi fk in
      let n := nabs K (nadd K (vget pi1 nk) (vget piE nk)) in
      let '(pi2, c) := bound_vector (nmul K mu n) fk pi1 in
      (pi2, (nadd K s2all e2, if Nat.eqb c 3 then nadd K s2enf e2 else s2enf), c :: conds)
  | SBounded ix lb ub =>
      let '(pi1, e2) := row_update part A D rhs sor pi ix in
      let '(pi2, c) := bound_scalar lb ub pi1 ix in
      (pi2, (nadd K s2all e2, if Nat.eqb c 2 then nadd K s2enf e2 else s2enf), c :: conds)
  | SState fk mu kn =>
      let '(pi1, e2) := block_update part A D rhs sor pi fk in
      let '(pi2, c) := bound_vector (nmul K mu kn) fk pi1 in
      (pi2, (nadd K s2all e2, if Nat.eqb c 3 then nadd K s2enf e2 else s2enf), c :: conds)
  | SCons fk nk mu =>
      let '(pi1, e2) := block_update part A D rhs sor pi fk in
      let '(pi2, c) := bound_friction mu nk fk pi1 in
      (pi2, (nadd K s2all e2, if Nat.eqb c 3 then nadd K s2enf e2 else s2enf), c :: conds)
  end.

Definition sweep (part : list nat) (A : list (list T)) (D rhs piE : list T) (sor : T) (steps : list step) (pi : list T) : sstate :=
  fold_left (fun st s => do_step part A D rhs piE sor s st) steps (pi, (n0 K, n0 K), []).

(** the outer loop of solve():  for (its=1; its<=maxIters; ++its) { sweep; norms; if (rate>1 && sor>.1) sor=max(.8*sor,.1);
    if (normRMSenf < tol) {converged; break;} }      prev = None stands for the initial Infinity.
    Result: (converged, iterations done, pi, conditions of the last sweep, normRMSenf of the last sweep) *)
Definition tenth : T := ndiv K (nofZ K 1) (nofZ K 10).
Definition eight_tenths : T := ndiv K (nofZ K 8) (nofZ K 10).
Fixpoint pgs_loop (fuel : nat) (its : nat) (part : list nat) (A : list (list T)) (D rhs piE : list T) (tol : T) (steps : list step)
                  (sor : T) (prev : option T) (pi : list T) (conds : list nat) (lastenf : T)
  : bool * nat * list T * list nat * T :=
  match fuel with
  | O => (false, its, pi, conds, lastenf)
  | S fuel' =>
      let '(pi1, (s2all, s2enf), conds1) := sweep part A D rhs piE sor steps pi in
      let p := nofZ K (Z.of_nat (length part)) in
      let enf := nsqrt K (ndiv K s2enf p) in
      let rate_gt_1 := match prev with None => false | Some pv => nltb K (n1 K) (ndiv K enf pv) end in
      let sor1 := if rate_gt_1 && nltb K tenth sor
                  then (let a := nmul K eight_tenths sor in if nltb K a tenth then tenth else a) else sor in
      if nltb K enf tol then (true, S its, pi1, conds1, enf)
      else pgs_loop fuel' (S its) part A D rhs piE tol steps sor1 (Some enf) pi1 conds1 enf
  end.

(** rhs = verrStart + verrApplied - ([A]*piExpand over the expanding columns + D.*piExpand) *)
Definition make_rhs (A : list (list T)) (D verrStart verrApplied piE : list T) (expanding : list nat) (m : nat) : list T :=
  map (fun mx =>
         nsub K (nadd K (vget verrStart mx) (vget verrApplied mx))
                (nadd K (fold_left (fun acc c => nadd K acc (nmul K (mget A mx c) (vget piE c))) expanding (n0 K))
                        (nmul K (vget D mx) (vget piE mx))))
      (seq 0 m).
Definition zeros (m : nat) : list T := repeat (n0 K) m.

(** PGSImpulseSolver::solve: pi = 0; rhs as above; p = 0 -> converged at once; else the loop from sor0 = m_SOR *)
Definition pgs_solve (maxIters : nat) (part : list nat) (A : list (list T)) (D verrStart verrApplied piE : list T)
                     (expanding : list nat) (tol sor0 : T) (steps : list step)
  : bool * nat * list T * list nat * T :=
  let m := length A in
  let rhs := make_rhs A D verrStart verrApplied piE expanding m in
  match part with
  | [] => (true, O, zeros m, [], n0 K)
  | _ => pgs_loop maxIters O part A D rhs piE tol steps sor0 None (zeros m) [] (n0 K)
  end.

(** *** well-formedness of a step list and the checker of the documented inequalities (run on C++ outputs, PGS and PLUS) *)
Definition writes (s : step) : list nat :=
  match s with SUncond rows => rows | SNormal nk _ => [nk] | SFric fk _ _ => fk | SBounded ix _ _ => [ix]
             | SState fk _ _ => fk | SCons fk _ _ => fk end.
(** the multipliers the inequality of a step talks about *)
Definition reads (s : step) : list nat :=
  match s with SUncond _ => [] | SNormal nk _ => [nk] | SFric fk nk _ => nk :: fk | SBounded ix _ _ => [ix]
             | SState fk _ _ => fk | SCons fk nk _ => nk ++ fk end.
Definition memb (x : nat) (l : list nat) : bool := existsb (Nat.eqb x) l.
Definition disjointb (a b : list nat) : bool := forallb (fun x => negb (memb x b)) a.
Fixpoint nodupb (l : list nat) : bool := match l with [] => true | x :: t => negb (memb x t) && nodupb t end.
Definition step_wfb (m : nat) (s : step) : bool :=
  forallb (fun i => Nat.ltb i m) (writes s) && forallb (fun i => Nat.ltb i m) (reads s) && nodupb (writes s) &&
  match s with
  | SFric fk nk _ => negb (memb nk fk)
  | SCons fk nk _ => disjointb nk fk
  | SBounded _ lb ub => nleb K lb ub
  | _ => true
  end.
(** no later step of the sweep writes a multiplier that an earlier step's inequality talks about *)
Fixpoint later_ok (steps : list step) : bool :=
  match steps with [] => true | s :: l => forallb (fun s' => disjointb (writes s') (reads s)) l && later_ok l end.
Definition steps_wfb (m : nat) (steps : list step) : bool := forallb (step_wfb m) steps && later_ok steps.

(** the documented inequalities, to an absolute tolerance: unilateral normal impulses never pull (sign*pi <= 0), friction
    inside the cone / circle, bounded impulses within bounds *)
Definition step_ok (tol : T) (piE pi : list T) (s : step) : bool :=
  match s with
  | SUncond _ => true
  | SNormal nk sign => nleb K (nmul K sign (vget pi nk)) tol
  | SFric fk nk mu => nleb K (sumsq fk pi) (nadd K (sq (nmul K mu (nabs K (nadd K (vget pi nk) (vget piE nk))))) tol)
  | SBounded ix lb ub => nleb K (nsub K lb tol) (vget pi ix) && nleb K (vget pi ix) (nadd K ub tol)
  | SState fk mu kn => nleb K (sumsq fk pi) (nadd K (sq (nmul K mu kn)) tol)
  | SCons fk nk mu => nleb K (sumsq fk pi) (nadd K (nmul K (nmul K mu mu) (sumsq nk pi)) tol)
  end.
Definition inv_check (tol : T) (piE : list T) (steps : list step) (pi : list T) : bool := forallb (step_ok tol piE pi) steps.

(** residual of the participating rows:  rhs[row] - (A+D)[row]*pi  (what doUpdate calls er), for the fixed-point / bilateral statements *)
Definition row_resid (part : list nat) (A : list (list T)) (D rhs pi : list T) (row : nat) : T :=
  nsub K (vget rhs row) (row_sum part A D pi row).
Definition resid_check (tol : T) (part : list nat) (A : list (list T)) (D rhs pi : list T) (rows : list nat) : bool :=
  forallb (fun r => nleb K (nabs K (row_resid part A D rhs pi r)) tol) rows.

(** verrStart -= A*pi; verrStart -= D.*pi   (all m columns) *)
Definition final_verr (A : list (list T)) (D rhs pi : list T) (m : nat) : list T :=
  map (fun i => nsub K (nsub K (vget rhs i) (fold_left (fun acc c => nadd K acc (nmul K (mget A i c) (vget pi c))) (seq 0 m) (n0 K)))
                       (nmul K (vget D i) (vget pi i))) (seq 0 m).

(** *** solveBilateral (PGS and PLUS): only unconditional rows, P (A+D) ~P P pi = P rhs, pi = 0 off the participating set.
    PGSImpulseSolver::solveBilateral is the same loop with every participating row as a block of its own and pi0 = 0;
    PLUSImpulseSolver::solveBilateral hands the packed system to FactorQTZ (LAPACK, outside the model): its result is CERTIFIED by
    [bilateral_check] (a certificate suffices because the solution is unique for a positive definite participating block:
    C44_bilateral_certificate_unique). *)
Definition pgs_bilateral (maxIters : nat) (part : list nat) (A : list (list T)) (D rhs : list T) (tol sor0 : T)
  : bool * nat * list T * list nat * T :=
  let m := length A in
  match part with
  | [] => (true, O, zeros m, [], n0 K)
  | _ => pgs_loop maxIters O part A D rhs (zeros m) tol (map (fun k => SUncond [k]) part) sor0 None (zeros m) [] (n0 K)
  end.
Definition is_zero (x : T) : bool := nleb K x (n0 K) && nleb K (n0 K) x.
Definition offpart_zero (part : list nat) (pi : list T) (m : nat) : bool :=
  forallb (fun i => memb i part || is_zero (vget pi i)) (seq 0 m).
Definition bilateral_check (tol : T) (part : list nat) (A : list (list T)) (D rhs pi : list T) : bool :=
  resid_check tol part A D rhs pi part && offpart_zero part pi (length A).

End Model.
