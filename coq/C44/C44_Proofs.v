(** C44 proofs (over the reals) about the model C44_Model.v of PGSImpulseSolver::solve.
    Part 1: list vectors, frames (which impulses an update may change).
    Part 2: pgs_projection_invariants -- after EVERY sweep, for any A, D, rhs, SOR factor and starting impulses, every documented
            inequality holds (unilateral normals never pull, friction inside the cone / circle, bounded rows within bounds),
            by induction over the steps of the sweep; by induction over the sweeps the same for the outer loop and pgs_solve.
    Part 3: the extracted checker inv_check decides exactly these inequalities; uniqueness of the solution for positive definite A+D.
    Part 4: pgs_fixed_point_satisfies_conditions -- a fixed point of the sweep satisfies the complementarity conditions. *)
From Coq Require Import ZArith Reals Lra Lia Psatz List Bool Arith.
Require Import Num Tactics C44_Model.
Import ListNotations.
Local Open Scope R_scope.


(* ---------------------------------------------------------------- *)

Notation Rget := (vget ROps).
Notation Rset := (@vset R).
Notation step_R := (@step R).

(** *** lists as vectors *)
Lemma vset_length (v : list R) i x : length (Rset v i x) = length v.
Proof. revert i; induction v; destruct i; cbn; auto. Qed.
Lemma vget_vset_same (v : list R) i x : (i < length v)%nat -> Rget (Rset v i x) i = x.
Proof. revert i; induction v; destruct i; cbn; intros; try lia; auto. apply IHv. lia. Qed.
Lemma vget_vset_other (v : list R) i j x : i <> j -> Rget (Rset v i x) j = Rget v j.
Proof.
  revert i j; induction v; intros i j H; destruct i, j; cbn; auto; try congruence.
  apply IHv. congruence.
Qed.

(** fold_left of a sum is the initial value plus the sum from 0 *)
Lemma fold_add_shift {X} (f : X -> R) l a : fold_left (fun acc i => acc + f i) l a = a + fold_left (fun acc i => acc + f i) l 0.
Proof.
  revert a; induction l; intros a0; cbn. ring. rewrite IHl, (IHl (0 + f a)). ring.
Qed.
Lemma sumsq_nil (pi : list R) : sumsq ROps [] pi = 0. Proof. reflexivity. Qed.
Lemma sumsq_cons i ix (pi : list R) : sumsq ROps (i :: ix) pi = Rget pi i * Rget pi i + sumsq ROps ix pi.
Proof. unfold sumsq. cbn [fold_left]. rewrite fold_add_shift. cbn. ring. Qed.
Lemma sumsq_nonneg ix (pi : list R) : 0 <= sumsq ROps ix pi.
Proof. induction ix. rewrite sumsq_nil; lra. rewrite sumsq_cons. nra. Qed.
Lemma sumsq_ext ix (pi pi' : list R) : (forall i, In i ix -> Rget pi i = Rget pi' i) -> sumsq ROps ix pi = sumsq ROps ix pi'.
Proof.
  induction ix; intros H. reflexivity. rewrite !sumsq_cons. rewrite (H a) by (cbn; auto).
  rewrite IHix. reflexivity. intros i Hi. apply H. cbn; auto.
Qed.

(** scale_at *)
Lemma scale_at_length ix s (pi : list R) : length (scale_at ROps ix s pi) = length pi.
Proof. unfold scale_at. revert pi; induction ix; intros pi; cbn [fold_left]; auto. rewrite IHix, vset_length. reflexivity. Qed.
Lemma scale_at_other ix s (pi : list R) j : ~ In j ix -> Rget (scale_at ROps ix s pi) j = Rget pi j.
Proof.
  unfold scale_at. revert pi; induction ix; intros pi H; cbn [fold_left]; auto.
  rewrite IHix by (intros C; apply H; cbn; auto). apply vget_vset_other. intros ->. apply H; cbn; auto.
Qed.
Lemma scale_at_in ix s (pi : list R) j : NoDup ix -> In j ix -> (forall i, In i ix -> (i < length pi)%nat) ->
  Rget (scale_at ROps ix s pi) j = Rget pi j * s.
Proof.
  unfold scale_at. revert pi; induction ix; intros pi Hnd Hj Hlt; cbn [fold_left]. destruct Hj.
  inversion Hnd; subst. destruct Hj as [->|Hj].
  - fold (scale_at ROps ix s (Rset pi j (nmul ROps (Rget pi j) s))). rewrite scale_at_other by auto.
    rewrite vget_vset_same by (apply Hlt; cbn; auto). reflexivity.
  - rewrite IHix; auto.
    + rewrite vget_vset_other; auto. intros ->. auto.
    + intros i Hi. rewrite vset_length. apply Hlt; cbn; auto.
Qed.
Lemma sumsq_scale_at ix s (pi : list R) : NoDup ix -> (forall i, In i ix -> (i < length pi)%nat) ->
  sumsq ROps ix (scale_at ROps ix s pi) = s * s * sumsq ROps ix pi.
Proof.
  intros Hnd Hlt.
  assert (G : forall jx, (forall j, In j jx -> In j ix) -> sumsq ROps jx (scale_at ROps ix s pi) = s * s * sumsq ROps jx pi).
  { induction jx; intros H. rewrite !sumsq_nil. ring.
    rewrite !sumsq_cons, IHjx by (intros; apply H; cbn; auto).
    rewrite scale_at_in by (auto; apply H; cbn; auto). ring. }
  apply G; auto.
Qed.

(** *** frames: which entries an update may change *)
Lemma upd_length A D rhs sor (pi : list R) row rs : length (fst (upd ROps A D rhs sor pi row rs)) = length pi.
Proof. unfold upd. cbn [fst]. destruct (nltb ROps _ _); auto. apply vset_length. Qed.
Lemma upd_other A D rhs sor (pi : list R) row rs j : j <> row -> Rget (fst (upd ROps A D rhs sor pi row rs)) j = Rget pi j.
Proof. intros H. unfold upd. cbn [fst]. destruct (nltb ROps _ _); auto. apply vget_vset_other. auto. Qed.

Lemma block_fold_frame A D rhs sor (l : list (nat * R)) (st : list R * R) :
  length (fst (fold_left (fun (st : list R * R) (rr : nat * R) =>
               let '(p', e) := upd ROps A D rhs sor (fst st) (fst rr) (snd rr) in (p', nadd ROps (snd st) e)) l st)) = length (fst st) /\
  forall j, ~ In j (map fst l) ->
    Rget (fst (fold_left (fun (st : list R * R) (rr : nat * R) =>
               let '(p', e) := upd ROps A D rhs sor (fst st) (fst rr) (snd rr) in (p', nadd ROps (snd st) e)) l st)) j = Rget (fst st) j.
Proof.
  revert st. induction l as [|[row rs] l IH]; intros st; cbn [fold_left map fst snd]. split; auto.
  destruct (upd ROps A D rhs sor (fst st) row rs) as [p' e] eqn:E.
  specialize (IH (p', nadd ROps (snd st) e)). cbn [fst] in IH. destruct IH as [IH1 IH2].
  assert (Hp : p' = fst (upd ROps A D rhs sor (fst st) row rs)) by (rewrite E; reflexivity).
  split.
  - rewrite IH1, Hp. apply upd_length.
  - intros j Hj. rewrite IH2 by (intros C; apply Hj; cbn; auto). rewrite Hp. apply upd_other. intros ->. apply Hj; cbn; auto.
Qed.
Lemma block_update_length part A D rhs sor (pi : list R) rows : length (fst (block_update ROps part A D rhs sor pi rows)) = length pi.
Proof. unfold block_update. apply (proj1 (block_fold_frame A D rhs sor _ (pi, n0 ROps))). Qed.
Lemma block_update_other part A D rhs sor (pi : list R) rows j : ~ In j rows ->
  Rget (fst (block_update ROps part A D rhs sor pi rows)) j = Rget pi j.
Proof.
  intros H. unfold block_update. apply (proj2 (block_fold_frame A D rhs sor _ (pi, n0 ROps))).
  intros C. apply H. clear H.
  remember (map (row_sum ROps part A D pi) rows) as rss. clear Heqrss.
  revert rss C. induction rows; intros rss C; destruct rss; cbn in *; auto; try tauto. destruct C; auto. right. eapply IHrows; eauto.
Qed.
Lemma row_update_length part A D rhs sor (pi : list R) row : length (fst (row_update ROps part A D rhs sor pi row)) = length pi.
Proof. apply upd_length. Qed.
Lemma row_update_other part A D rhs sor (pi : list R) row j : j <> row -> Rget (fst (row_update ROps part A D rhs sor pi row)) j = Rget pi j.
Proof. apply upd_other. Qed.


(* ---------------------------------------------------------------- *)

Definition pi_of (st : sstate (T:=R)) : list R := fst (fst st).

(** the documented inequality of one constraint *)
Definition holds (piE pi : list R) (s : step_R) : Prop :=
  match s with
  | SUncond _ => True
  | SNormal nk sign => sign * Rget pi nk <= 0
  | SFric fk nk mu => sumsq ROps fk pi <= (mu * Rabs (Rget pi nk + Rget piE nk)) * (mu * Rabs (Rget pi nk + Rget piE nk))
  | SBounded ix lb ub => lb <= Rget pi ix <= ub
  | SState fk mu kn => sumsq ROps fk pi <= (mu * kn) * (mu * kn)
  | SCons fk nk mu => sumsq ROps fk pi <= mu * mu * sumsq ROps nk pi
  end.

Lemma memb_spec x l : memb x l = true <-> In x l.
Proof. unfold memb. rewrite existsb_exists. split. intros [y [H E]]. apply Nat.eqb_eq in E. subst; auto. intros H. exists x. split; auto. apply Nat.eqb_refl. Qed.
Lemma memb_false x l : memb x l = false <-> ~ In x l.
Proof. rewrite <- memb_spec. destruct (memb x l); split; congruence. Qed.
Lemma disjointb_spec a b : disjointb a b = true <-> forall x, In x a -> ~ In x b.
Proof.
  unfold disjointb. rewrite forallb_forall. split; intros H x Hx.
  - apply memb_false. specialize (H x Hx). destruct (memb x b); auto; discriminate.
  - apply negb_true_iff. apply memb_false. auto.
Qed.
Lemma nodupb_spec l : nodupb l = true -> NoDup l.
Proof.
  induction l; cbn; intros H. constructor. apply andb_true_iff in H. destruct H as [H1 H2].
  constructor; auto. apply memb_false. apply negb_true_iff; auto.
Qed.

(** [holds] depends only on the multipliers in [reads] *)
Lemma holds_ext piE (pi pi' : list R) (s : step_R) :
  (forall j, In j (reads s) -> Rget pi j = Rget pi' j) -> holds piE pi s -> holds piE pi' s.
Proof.
  destruct s; cbn [holds reads]; intros H Hh; auto.
  - rewrite <- (H nk) by (cbn; auto). auto.
  - rewrite <- (H nk) by (cbn; auto). rewrite <- (sumsq_ext fk pi pi'); auto. intros i Hi. apply H. cbn; auto.
  - rewrite <- (H ix) by (cbn; auto). auto.
  - rewrite <- (sumsq_ext fk pi pi'); auto.
  - rewrite <- (sumsq_ext fk pi pi'), <- (sumsq_ext nk pi pi'); auto; intros i Hi; apply H; apply in_or_app; auto.
Qed.

Section Sweep.
Variables (part : list nat) (A : list (list R)) (D rhs piE : list R) (sor : R).
Notation dostep := (do_step ROps part A D rhs piE sor).

(** a step changes only the multipliers it owns *)
Lemma do_step_frame (s : step_R) (st : sstate) :
  length (pi_of (dostep s st)) = length (pi_of st) /\
  forall j, ~ In j (writes s) -> Rget (pi_of (dostep s st)) j = Rget (pi_of st) j.
Proof.
  destruct st as [[pi [s2a s2e]] conds]. unfold pi_of. cbn [fst].
  destruct s; cbn [do_step writes].
  - destruct (block_update ROps part A D rhs sor pi rows) as [pi1 e2] eqn:E. cbn [fst].
    assert (pi1 = fst (block_update ROps part A D rhs sor pi rows)) as -> by (rewrite E; auto).
    split. apply block_update_length. intros j Hj. apply block_update_other; auto.
  - destruct (row_update ROps part A D rhs sor pi nk) as [pi1 e2] eqn:E.
    assert (pi1 = fst (row_update ROps part A D rhs sor pi nk)) as Hp by (rewrite E; auto).
    unfold bound_unilateral. destruct (nltb ROps _ _); cbn [fst]; rewrite Hp.
    + split. rewrite vset_length. apply row_update_length.
      intros j Hj. rewrite vget_vset_other by (intros ->; apply Hj; cbn; auto). apply row_update_other. intros ->; apply Hj; cbn; auto.
    + split. apply row_update_length. intros j Hj. apply row_update_other. intros ->; apply Hj; cbn; auto.
  - destruct (block_update ROps part A D rhs sor pi fk) as [pi1 e2] eqn:E.
    assert (pi1 = fst (block_update ROps part A D rhs sor pi fk)) as Hp by (rewrite E; auto).
    unfold bound_vector. destruct (nleb ROps _ _); cbn [fst]; rewrite Hp.
    + split. apply block_update_length. intros j Hj. apply block_update_other; auto.
    + split. rewrite scale_at_length. apply block_update_length.
      intros j Hj. rewrite scale_at_other by auto. apply block_update_other; auto.
  - destruct (row_update ROps part A D rhs sor pi ix) as [pi1 e2] eqn:E.
    assert (pi1 = fst (row_update ROps part A D rhs sor pi ix)) as Hp by (rewrite E; auto).
    unfold bound_scalar. destruct (nltb ROps ub _); [|destruct (nltb ROps _ lb)]; cbn [fst]; rewrite Hp.
    + split. rewrite vset_length. apply row_update_length.
      intros j Hj. rewrite vget_vset_other by (intros ->; apply Hj; cbn; auto). apply row_update_other. intros ->; apply Hj; cbn; auto.
    + split. rewrite vset_length. apply row_update_length.
      intros j Hj. rewrite vget_vset_other by (intros ->; apply Hj; cbn; auto). apply row_update_other. intros ->; apply Hj; cbn; auto.
    + split. apply row_update_length. intros j Hj. apply row_update_other. intros ->; apply Hj; cbn; auto.
  - destruct (block_update ROps part A D rhs sor pi fk) as [pi1 e2] eqn:E.
    assert (pi1 = fst (block_update ROps part A D rhs sor pi fk)) as Hp by (rewrite E; auto).
    unfold bound_vector. destruct (nleb ROps _ _); cbn [fst]; rewrite Hp.
    + split. apply block_update_length. intros j Hj. apply block_update_other; auto.
    + split. rewrite scale_at_length. apply block_update_length.
      intros j Hj. rewrite scale_at_other by auto. apply block_update_other; auto.
  - destruct (block_update ROps part A D rhs sor pi fk) as [pi1 e2] eqn:E.
    assert (pi1 = fst (block_update ROps part A D rhs sor pi fk)) as Hp by (rewrite E; auto).
    unfold bound_friction. destruct (nleb ROps _ _); cbn [fst]; rewrite Hp.
    + split. apply block_update_length. intros j Hj. apply block_update_other; auto.
    + split. rewrite scale_at_length. apply block_update_length.
      intros j Hj. rewrite scale_at_other by auto. apply block_update_other; auto.
Qed.

(** scaling a vector that is too long by sqrt(L2/n2) puts it exactly on the limit *)
Lemma scaled_sumsq fk (p : list R) L2 : NoDup fk -> (forall i, In i fk -> (i < length p)%nat) ->
  0 <= L2 -> L2 < sumsq ROps fk p ->
  sumsq ROps fk (scale_at ROps fk (sqrt (L2 / sumsq ROps fk p)) p) = L2.
Proof.
  intros Hnd Hlt H0 Hgt. rewrite sumsq_scale_at by auto. rewrite sqrt_sqrt.
  - field. lra.
  - apply Rmult_le_pos; auto. left. apply Rinv_0_lt_compat. lra.
Qed.

(** each step establishes its own inequality *)
Lemma do_step_holds (m : nat) (s : step_R) (st : sstate) :
  step_wfb ROps m s = true -> length (pi_of st) = m -> holds piE (pi_of (dostep s st)) s.
Proof.
  intros Hwf Hlen. destruct st as [[pi [s2a s2e]] conds]. unfold pi_of in *. cbn [fst] in *.
  unfold step_wfb in Hwf. rewrite !andb_true_iff in Hwf. destruct Hwf as [[[Hw Hr] Hnd] Hx].
  rewrite forallb_forall in Hw, Hr. apply nodupb_spec in Hnd.
  assert (Hwlt : forall i, In i (writes s) -> (i < m)%nat) by (intros i Hi; apply Nat.ltb_lt; auto).
  destruct s; cbn [do_step holds writes reads] in *; auto.
  - (* normal *)
    destruct (row_update ROps part A D rhs sor pi nk) as [pi1 e2] eqn:E.
    assert (L1 : length pi1 = m) by (replace pi1 with (fst (row_update ROps part A D rhs sor pi nk)) by (rewrite E; auto); rewrite row_update_length; auto).
    unfold bound_unilateral. cbn [ROps n0 nmul nltb]. destruct (Rltb 0 (sign * Rget pi1 nk)) eqn:Eb; cbn [fst].
    + rewrite vget_vset_same by (rewrite L1; apply Hwlt; cbn; auto). lra.
    + apply Rltb_false in Eb. auto.
  - (* contact friction *)
    destruct (block_update ROps part A D rhs sor pi fk) as [pi1 e2] eqn:E.
    assert (L1 : length pi1 = m) by (replace pi1 with (fst (block_update ROps part A D rhs sor pi fk)) by (rewrite E; auto); rewrite block_update_length; auto).
    apply negb_true_iff in Hx. apply memb_false in Hx.
    unfold bound_vector. cbn [ROps n0 nmul nadd nabs nleb nsqrt ndiv sq].
    set (L := mu * Rabs (Rget pi1 nk + Rget piE nk)).
    destruct (Rleb (sumsq ROps fk pi1) (L * L)) eqn:Eb; cbn [fst].
    + apply Rleb_true in Eb. exact Eb.
    + apply Rleb_false in Eb. rewrite scale_at_other by auto. fold L.
      rewrite scaled_sumsq; auto; try nra. rewrite L1. auto.
  - (* bounded *)
    destruct (row_update ROps part A D rhs sor pi ix) as [pi1 e2] eqn:E.
    assert (L1 : length pi1 = m) by (replace pi1 with (fst (row_update ROps part A D rhs sor pi ix)) by (rewrite E; auto); rewrite row_update_length; auto).
    cbn [ROps nleb] in Hx. apply Rleb_true in Hx.
    unfold bound_scalar. cbn [ROps nltb]. destruct (Rltb ub (Rget pi1 ix)) eqn:E1; [|destruct (Rltb (Rget pi1 ix) lb) eqn:E2]; cbn [fst].
    + rewrite vget_vset_same by (rewrite L1; apply Hwlt; cbn; auto). lra.
    + rewrite vget_vset_same by (rewrite L1; apply Hwlt; cbn; auto). lra.
    + apply Rltb_false in E1, E2. lra.
  - (* state-limited friction *)
    destruct (block_update ROps part A D rhs sor pi fk) as [pi1 e2] eqn:E.
    assert (L1 : length pi1 = m) by (replace pi1 with (fst (block_update ROps part A D rhs sor pi fk)) by (rewrite E; auto); rewrite block_update_length; auto).
    unfold bound_vector. cbn [ROps n0 nmul nadd nabs nleb nsqrt ndiv sq].
    destruct (Rleb (sumsq ROps fk pi1) (mu * knownN * (mu * knownN))) eqn:Eb; cbn [fst].
    + apply Rleb_true in Eb. exact Eb.
    + apply Rleb_false in Eb. rewrite scaled_sumsq; auto; try nra. rewrite L1. auto.
  - (* constraint-limited friction *)
    destruct (block_update ROps part A D rhs sor pi fk) as [pi1 e2] eqn:E.
    assert (L1 : length pi1 = m) by (replace pi1 with (fst (block_update ROps part A D rhs sor pi fk)) by (rewrite E; auto); rewrite block_update_length; auto).
    rewrite disjointb_spec in Hx.
    unfold bound_friction. cbn [ROps n0 nmul nadd nabs nleb nsqrt ndiv sq].
    destruct (Rleb (sumsq ROps fk pi1) (mu * mu * sumsq ROps nk pi1)) eqn:Eb; cbn [fst].
    + apply Rleb_true in Eb. exact Eb.
    + apply Rleb_false in Eb.
      rewrite (sumsq_ext nk (scale_at ROps fk (sqrt (mu * mu * sumsq ROps nk pi1 / sumsq ROps fk pi1)) pi1) pi1).
      * rewrite scaled_sumsq; auto; try lra. rewrite L1; auto. pose proof (sumsq_nonneg nk pi1). nra.
      * intros i Hi. apply scale_at_other. intros C. apply (Hx i Hi C).
Qed.

(** *** pgs_projection_invariants: after a sweep every documented inequality holds, for ANY A, D, rhs, sor and start pi *)
Lemma fold_frame (l : list step_R) (st : sstate) :
  length (pi_of (fold_left (fun st s => dostep s st) l st)) = length (pi_of st) /\
  forall j, (forall s', In s' l -> ~ In j (writes s')) -> Rget (pi_of (fold_left (fun st s => dostep s st) l st)) j = Rget (pi_of st) j.
Proof.
  revert st. induction l as [|s l IH]; intros st; cbn [fold_left]. split; auto.
  destruct (IH (dostep s st)) as [I1 I2]. destruct (do_step_frame s st) as [F1 F2]. split.
  - rewrite I1, F1. reflexivity.
  - intros j Hj. rewrite I2 by (intros s' Hs'; apply Hj; cbn; auto). apply F2. apply Hj; cbn; auto.
Qed.

Lemma later_ok_spec (s : step_R) l : later_ok (s :: l) = true ->
  (forall s', In s' l -> forall j, In j (writes s') -> ~ In j (reads s)) /\ later_ok l = true.
Proof.
  cbn [later_ok]. rewrite andb_true_iff, forallb_forall. intros [H1 H2]. split; auto.
  intros s' Hs' j Hj. apply (proj1 (disjointb_spec _ _) (H1 s' Hs')); auto.
Qed.

Lemma sweep_invariants_from (m : nat) (l : list step_R) (st : sstate) :
  forallb (step_wfb ROps m) l = true -> later_ok l = true -> length (pi_of st) = m ->
  Forall (holds piE (pi_of (fold_left (fun st s => dostep s st) l st))) l.
Proof.
  revert st. induction l as [|s l IH]; intros st Hwf Hlo Hlen; cbn [fold_left]. constructor.
  cbn [forallb] in Hwf. apply andb_true_iff in Hwf. destruct Hwf as [Hs Hl].
  destruct (later_ok_spec s l Hlo) as [Hdis Hlo'].
  destruct (do_step_frame s st) as [F1 F2].
  constructor.
  - apply (holds_ext piE (pi_of (dostep s st))).
    + intros j Hj. symmetry. apply (proj2 (fold_frame l (dostep s st))). intros s' Hs' C. apply (Hdis s' Hs' j C Hj).
    + apply (do_step_holds m); auto.
  - apply IH; auto. rewrite F1. auto.
Qed.
End Sweep.

Theorem pgs_projection_invariants (m : nat) part A D rhs piE sor (steps : list step_R) (pi : list R) :
  steps_wfb ROps m steps = true -> length pi = m ->
  Forall (holds piE (pi_of (sweep ROps part A D rhs piE sor steps pi))) steps.
Proof.
  unfold steps_wfb, sweep. rewrite andb_true_iff. intros [H1 H2] Hlen.
  apply (sweep_invariants_from part A D rhs piE sor m); auto.
Qed.


(* ---------------------------------------------------------------- *)

Lemma sweep_length part A D rhs piE sor (steps : list step_R) (pi : list R) :
  length (pi_of (sweep ROps part A D rhs piE sor steps pi)) = length pi.
Proof. unfold sweep. apply (proj1 (fold_frame part A D rhs piE sor steps (pi, (n0 ROps, n0 ROps), []))). Qed.

Definition loop_pi (r : bool * nat * list R * list nat * R) : list R := snd (fst (fst r)).

(** induction over the sweeps of the outer loop: whatever the SOR factor becomes and whenever the loop stops *)
Lemma pgs_loop_invariants (m : nat) part A D rhs piE tol (steps : list step_R) :
  steps_wfb ROps m steps = true ->
  forall fuel its sor prev (pi : list R) conds enf,
    length pi = m -> (fuel = O -> Forall (holds piE pi) steps) ->
    Forall (holds piE (loop_pi (pgs_loop ROps fuel its part A D rhs piE tol steps sor prev pi conds enf))) steps.
Proof.
  intros Hwf. induction fuel as [|fuel IH]; intros its sor prev pi conds enf Hlen H0; cbn [pgs_loop].
  - cbn. auto.
  - pose proof (pgs_projection_invariants m part A D rhs piE sor steps pi Hwf Hlen) as Hinv.
    pose proof (sweep_length part A D rhs piE sor steps pi) as Hl.
    destruct (sweep ROps part A D rhs piE sor steps pi) as [[pi1 [s2a s2e]] conds1] eqn:E.
    unfold pi_of in Hinv, Hl. cbn [fst] in Hinv, Hl.
    destruct (nltb ROps _ tol).
    + cbn. auto.
    + apply IH. lia. intros _. auto.
Qed.

(** *** the impulses returned by the model of PGSImpulseSolver::solve satisfy every documented inequality as soon as one
        sweep was made (participating rows present, iteration limit > 0), converged or not *)
Theorem pgs_solve_invariants (maxIters : nat) part (A : list (list R)) D verrStart verrApplied piE expanding tol sor0 (steps : list step_R) :
  steps_wfb ROps (length A) steps = true -> part <> [] -> (0 < maxIters)%nat ->
  Forall (holds piE (loop_pi (pgs_solve ROps maxIters part A D verrStart verrApplied piE expanding tol sor0 steps))) steps.
Proof.
  intros Hwf Hp Hm. unfold pgs_solve. destruct part as [|p0 part]; [congruence|].
  apply (pgs_loop_invariants (length A)); auto.
  - unfold zeros. apply repeat_length.
  - intros ->. lia.
Qed.

(** the extracted checker at tolerance 0 decides exactly these inequalities *)
Lemma step_ok_spec piE (pi : list R) (s : step_R) : step_ok ROps 0 piE pi s = true <-> holds piE pi s.
Proof.
  destruct s; cbn [step_ok holds ROps n0 nmul nadd nsub nabs nleb sq].
  - tauto.
  - rewrite Rleb_true. tauto.
  - rewrite Rleb_true, Rplus_0_r. tauto.
  - rewrite andb_true_iff, !Rleb_true, Rminus_0_r, Rplus_0_r. tauto.
  - rewrite Rleb_true, Rplus_0_r. tauto.
  - rewrite Rleb_true, Rplus_0_r. tauto.
Qed.
Theorem inv_check_spec piE (steps : list step_R) (pi : list R) : inv_check ROps 0 piE steps pi = true <-> Forall (holds piE pi) steps.
Proof.
  unfold inv_check. rewrite forallb_forall, Forall_forall. split; intros H s Hs; apply step_ok_spec; auto.
Qed.
Theorem pgs_sweep_passes_inv_check (m : nat) part A D rhs piE sor (steps : list step_R) (pi : list R) :
  steps_wfb ROps m steps = true -> length pi = m ->
  inv_check ROps 0 piE steps (pi_of (sweep ROps part A D rhs piE sor steps pi)) = true.
Proof. intros. apply inv_check_spec. eapply pgs_projection_invariants; eauto. Qed.

(** *** unconditional_solution_unique: for a positive definite M = A+D (given as a quadratic form on lists) the linear
        system has at most one solution *)
Definition ldot (x y : list R) : R := fold_right Rplus 0 (map (fun p => fst p * snd p) (combine x y)).
Definition lmv (M : list (list R)) (x : list R) : list R := map (fun row => ldot row x) M.
Definition lsub (x y : list R) : list R := map (fun p => fst p - snd p) (combine x y).
Lemma ldot_cons a r x xs : ldot (a :: r) (x :: xs) = a * x + ldot r xs. Proof. reflexivity. Qed.
Lemma ldot_nil_r r : ldot r [] = 0. Proof. destruct r; reflexivity. Qed.
Lemma lsub_cons x xs y ys : lsub (x :: xs) (y :: ys) = (x - y) :: lsub xs ys. Proof. reflexivity. Qed.
Lemma ldot_sub_r row (x y : list R) : length x = length y -> ldot row (lsub x y) = ldot row x - ldot row y.
Proof.
  revert x y. induction row; intros x y H. destruct x, y; cbn; ring.
  destruct x, y; cbn [length] in H; try lia.
  - change (lsub [] []) with (@nil R). rewrite !ldot_nil_r. ring.
  - rewrite lsub_cons, !ldot_cons, IHrow by lia. ring.
Qed.
Lemma lmv_sub M (x y : list R) : length x = length y -> lmv M (lsub x y) = lsub (lmv M x) (lmv M y).
Proof.
  intros H. unfold lmv. induction M; cbn [map]. reflexivity. rewrite lsub_cons, IHM, ldot_sub_r by auto. reflexivity.
Qed.
Lemma lsub_self_zero (x : list R) : lsub x x = repeat 0 (length x).
Proof. unfold lsub. induction x; cbn; auto. rewrite IHx. f_equal. ring. Qed.
Lemma ldot_zero_r (x : list R) n : ldot x (repeat 0 n) = 0.
Proof. revert n; induction x; destruct n; cbn [repeat]; auto; try apply ldot_nil_r. rewrite ldot_cons, IHx. ring. Qed.
Lemma lsub_zero_eq (x y : list R) : length x = length y -> lsub x y = repeat 0 (length x) -> x = y.
Proof.
  revert y; induction x; destruct y; cbn [length]; intros H E; try lia; auto.
  rewrite lsub_cons in E. cbn [repeat] in E. injection E as E1 E2. f_equal. lra. apply IHx; auto.
Qed.
Theorem unconditional_solution_unique (M : list (list R)) (x y b : list R) :
  length x = length y ->
  (forall v, length v = length x -> v <> repeat 0 (length x) -> 0 < ldot v (lmv M v)) ->   (* M positive definite *)
  lmv M x = b -> lmv M y = b -> x = y.
Proof.
  intros Hlen Hpd Hx Hy.
  assert (Hd : lmv M (lsub x y) = repeat 0 (length M)).
  { rewrite lmv_sub by auto. rewrite Hx, Hy, lsub_self_zero. subst b. unfold lmv. rewrite map_length. reflexivity. }
  assert (Hl : length (lsub x y) = length x).
  { unfold lsub. rewrite map_length, combine_length. lia. }
  apply lsub_zero_eq; auto.
  destruct (list_eq_dec Req_EM_T (lsub x y) (repeat 0 (length x))) as [E|E]; auto.
  exfalso. specialize (Hpd (lsub x y) Hl E). rewrite Hd, ldot_zero_r in Hpd. lra.
Qed.


(* ---------------------------------------------------------------- *)

Lemma nodup_app_r {X} (a b : list X) : NoDup (a ++ b) -> NoDup b.
Proof. induction a; cbn; auto. intros H. inversion H; auto. Qed.
Lemma nodup_app_disj {X} (a b : list X) x : NoDup (a ++ b) -> In x a -> ~ In x b.
Proof.
  induction a; cbn; intros H Hx. destruct Hx. inversion H; subst. destruct Hx as [->|Hx].
  - intros C. apply H2. apply in_or_app; auto.
  - apply IHa; auto.
Qed.

(** *** fixed points of the sweep *)
Section Fixed.
Variables (part : list nat) (A : list (list R)) (D rhs piE : list R) (sor : R).
Hypothesis Hsor : sor <> 0.
Notation dostep := (do_step ROps part A D rhs piE sor).
Definition arr (r : nat) : R := mget ROps A r r + Rget D r.
Definition er (pi : list R) (r : nat) : R := row_resid ROps part A D rhs pi r.

Lemma upd_at (p : list R) r rs : (r < length p)%nat ->
  Rget (fst (upd ROps A D rhs sor p r rs)) r = if Rltb 0 (arr r) then Rget p r + sor * (Rget rhs r - rs) / arr r else Rget p r.
Proof.
  intros H. unfold upd, arr. cbn [fst ROps n0 nadd nsub nmul ndiv nltb].
  destruct (Rltb 0 (mget ROps A r r + Rget D r)); auto. rewrite vget_vset_same by auto. reflexivity.
Qed.

Lemma fold_at (l : list (nat * R)) (p : list R) (acc : R) r rs :
  NoDup (map fst l) -> In (r, rs) l -> (r < length p)%nat ->
  Rget (fst (fold_left (fun (st : list R * R) (rr : nat * R) =>
               let '(p', e) := upd ROps A D rhs sor (fst st) (fst rr) (snd rr) in (p', nadd ROps (snd st) e)) l (p, acc))) r
  = Rget (fst (upd ROps A D rhs sor p r rs)) r.
Proof.
  revert p acc. induction l as [|[r0 rs0] l IH]; intros p acc Hnd Hin Hlt. destruct Hin.
  cbn [map fst] in Hnd. inversion Hnd as [|x y Hnotin Hnd']; subst.
  cbn [fold_left fst snd].
  destruct (upd ROps A D rhs sor p r0 rs0) as [p' e] eqn:E.
  assert (Hp : p' = fst (upd ROps A D rhs sor p r0 rs0)) by (rewrite E; auto).
  destruct Hin as [Heq|Hin].
  - injection Heq as -> ->.
    rewrite (proj2 (block_fold_frame A D rhs sor l (p', nadd ROps acc e))) by auto. cbn [fst]. rewrite Hp. reflexivity.
  - assert (Hne : r <> r0). { intros ->. apply Hnotin. change r0 with (fst (r0, rs)). apply in_map. auto. }
    rewrite IH; auto.
    + rewrite !upd_at; auto. rewrite Hp, upd_other by auto. reflexivity. rewrite Hp, upd_length. auto.
    + rewrite Hp, upd_length. auto.
Qed.

Lemma block_update_at (pi : list R) rows r : NoDup rows -> In r rows -> (r < length pi)%nat ->
  Rget (fst (block_update ROps part A D rhs sor pi rows)) r =
  if Rltb 0 (arr r) then Rget pi r + sor * er pi r / arr r else Rget pi r.
Proof.
  intros Hnd Hin Hlt. unfold block_update.
  rewrite (fold_at _ pi (n0 ROps) r (row_sum ROps part A D pi r)); auto.
  - rewrite upd_at by auto. reflexivity.
  - clear Hin. induction rows; cbn [map combine fst]. constructor. inversion Hnd; subst. constructor; auto.
    intros C. apply H1. clear - C. induction rows; cbn in *; auto. destruct C; auto.
  - clear Hnd. induction rows; cbn [map combine] in *. destruct Hin. destruct Hin as [->|Hin]; [left; reflexivity | right; auto].
Qed.

Lemma list_ext (p q : list R) : length p = length q -> (forall i, (i < length p)%nat -> Rget p i = Rget q i) -> p = q.
Proof. intros Hl H. apply (nth_ext p q 0 0); auto. Qed.

(** a row with positive diagonal that the update leaves unchanged has zero residual *)
Lemma er_zero_of_fixed r (pi : list R) : Rltb 0 (arr r) = true -> Rget pi r + sor * er pi r / arr r = Rget pi r -> er pi r = 0.
Proof.
  intros Ha H. apply Rltb_true in Ha.
  assert (E : sor * er pi r / arr r = 0) by lra.
  unfold Rdiv in E. apply Rmult_integral in E. destruct E as [E|E].
  - apply Rmult_integral in E. destruct E; [contradiction|auto].
  - exfalso. assert (/ arr r > 0) by (apply Rinv_0_lt_compat; auto). lra.
Qed.

(** unconditional rows: the equation of every row with positive diagonal holds *)
Lemma fixed_uncond m rows (pi : list R) acc conds : step_wfb ROps m (SUncond rows) = true -> length pi = m ->
  pi_of (dostep (SUncond rows) (pi, acc, conds)) = pi ->
  forall r, In r rows -> 0 < arr r -> er pi r = 0.
Proof.
  intros Hwf Hlen Hfix r Hr Ha. unfold step_wfb in Hwf. rewrite !andb_true_iff in Hwf. destruct Hwf as [[[Hw _] Hnd] _].
  rewrite forallb_forall in Hw. apply nodupb_spec in Hnd. cbn [writes] in *.
  destruct acc as [s2a s2e]. unfold pi_of in Hfix. cbn [do_step] in Hfix.
  destruct (block_update ROps part A D rhs sor pi rows) as [pi1 e2] eqn:E. cbn [fst] in Hfix. subst pi1.
  assert (Hat := block_update_at pi rows r Hnd Hr). rewrite E in Hat. cbn [fst] in Hat.
  assert (Hlt : (r < length pi)%nat) by (rewrite Hlen; apply Nat.ltb_lt; auto).
  specialize (Hat Hlt). assert (Hb : Rltb 0 (arr r) = true) by (apply Rltb_true; auto). rewrite Hb in Hat.
  apply er_zero_of_fixed; auto.
Qed.

(** unilateral normal: complementarity  sign*pi <= 0,  and either the row equation holds or pi = 0 and the residual pushes
    further into the forbidden side *)
Lemma fixed_normal m nk sign (pi : list R) acc conds : step_wfb ROps m (SNormal nk sign) = true -> length pi = m ->
  pi_of (dostep (SNormal nk sign) (pi, acc, conds)) = pi -> 0 < arr nk ->
  sign * Rget pi nk <= 0 /\ (er pi nk = 0 \/ (Rget pi nk = 0 /\ 0 < sign * (sor * er pi nk / arr nk))).
Proof.
  intros Hwf Hlen Hfix Ha. unfold step_wfb in Hwf. rewrite !andb_true_iff in Hwf. destruct Hwf as [[[Hw _] _] _].
  rewrite forallb_forall in Hw. cbn [writes] in Hw.
  assert (Hlt : (nk < length pi)%nat) by (rewrite Hlen; apply Nat.ltb_lt; apply Hw; cbn; auto).
  destruct acc as [s2a s2e]. unfold pi_of in Hfix. cbn [do_step] in Hfix.
  destruct (row_update ROps part A D rhs sor pi nk) as [pi1 e2] eqn:E.
  assert (Hp : pi1 = fst (row_update ROps part A D rhs sor pi nk)) by (rewrite E; auto).
  assert (H1 : Rget pi1 nk = Rget pi nk + sor * er pi nk / arr nk).
  { rewrite Hp. unfold row_update. rewrite upd_at by auto. replace (Rltb 0 (arr nk)) with true by (symmetry; apply Rltb_true; auto). reflexivity. }
  assert (L1 : length pi1 = length pi) by (rewrite Hp; apply row_update_length).
  unfold bound_unilateral in Hfix. cbn [ROps n0 nmul nltb] in Hfix.
  destruct (Rltb 0 (sign * Rget pi1 nk)) eqn:Eb; cbn [fst] in Hfix.
  - apply Rltb_true in Eb. assert (Z : Rget pi nk = 0).
    { rewrite <- Hfix at 1. apply vget_vset_same. rewrite L1; auto. }
    split. rewrite Z; lra. right. split; auto. rewrite H1, Z in Eb. replace (0 + sor * er pi nk / arr nk) with (sor * er pi nk / arr nk) in Eb by ring. auto.
  - apply Rltb_false in Eb. subst pi1. split; auto. left.
    apply er_zero_of_fixed. apply Rltb_true; auto. lra.
Qed.

(** bounded row: lb <= pi <= ub, and either the row equation holds or pi sits on a bound with the residual pointing outward *)
Lemma fixed_bounded m ix lb ub (pi : list R) acc conds : step_wfb ROps m (SBounded ix lb ub) = true -> length pi = m ->
  pi_of (dostep (SBounded ix lb ub) (pi, acc, conds)) = pi -> 0 < arr ix ->
  lb <= Rget pi ix <= ub /\
  (er pi ix = 0 \/ (Rget pi ix = ub /\ 0 < sor * er pi ix / arr ix) \/ (Rget pi ix = lb /\ sor * er pi ix / arr ix < 0)).
Proof.
  intros Hwf Hlen Hfix Ha. pose proof Hwf as Hwf0. unfold step_wfb in Hwf. rewrite !andb_true_iff in Hwf. destruct Hwf as [[[Hw _] _] Hx].
  rewrite forallb_forall in Hw. cbn [writes] in Hw. cbn [ROps nleb] in Hx. apply Rleb_true in Hx.
  assert (Hlt : (ix < length pi)%nat) by (rewrite Hlen; apply Nat.ltb_lt; apply Hw; cbn; auto).
  pose proof (do_step_holds part A D rhs piE sor m (SBounded ix lb ub) (pi, acc, conds) Hwf0 Hlen) as Hh. rewrite Hfix in Hh. cbn [holds] in Hh.
  split; auto.
  destruct acc as [s2a s2e]. unfold pi_of in Hfix. cbn [do_step] in Hfix.
  destruct (row_update ROps part A D rhs sor pi ix) as [pi1 e2] eqn:E.
  assert (Hp : pi1 = fst (row_update ROps part A D rhs sor pi ix)) by (rewrite E; auto).
  assert (H1 : Rget pi1 ix = Rget pi ix + sor * er pi ix / arr ix).
  { rewrite Hp. unfold row_update. rewrite upd_at by auto. replace (Rltb 0 (arr ix)) with true by (symmetry; apply Rltb_true; auto). reflexivity. }
  assert (L1 : length pi1 = length pi) by (rewrite Hp; apply row_update_length).
  unfold bound_scalar in Hfix. cbn [ROps nltb] in Hfix.
  destruct (Rltb ub (Rget pi1 ix)) eqn:E1; [|destruct (Rltb (Rget pi1 ix) lb) eqn:E2]; cbn [fst] in Hfix.
  - apply Rltb_true in E1. assert (Z : Rget pi ix = ub). { rewrite <- Hfix at 1. apply vget_vset_same. rewrite L1; auto. }
    right. left. split; auto. lra.
  - apply Rltb_true in E2. assert (Z : Rget pi ix = lb). { rewrite <- Hfix at 1. apply vget_vset_same. rewrite L1; auto. }
    right. right. split; auto. lra.
  - subst pi1. left. apply er_zero_of_fixed. apply Rltb_true; auto. lra.
Qed.

(** friction vectors strictly inside their limit: every friction row equation holds (rolling) *)
Lemma fixed_state_interior m fk mu kn (pi : list R) acc conds : step_wfb ROps m (SState fk mu kn) = true -> length pi = m ->
  pi_of (dostep (SState fk mu kn) (pi, acc, conds)) = pi ->
  sumsq ROps fk pi < (mu * kn) * (mu * kn) -> forall r, In r fk -> 0 < arr r -> er pi r = 0.
Proof.
  intros Hwf Hlen Hfix Hint r Hr Ha. unfold step_wfb in Hwf. rewrite !andb_true_iff in Hwf. destruct Hwf as [[[Hw _] Hnd] _].
  rewrite forallb_forall in Hw. apply nodupb_spec in Hnd. cbn [writes] in *.
  assert (Hwlt : forall i, In i fk -> (i < length pi)%nat) by (intros i Hi; rewrite Hlen; apply Nat.ltb_lt; auto).
  destruct acc as [s2a s2e]. unfold pi_of in Hfix. cbn [do_step] in Hfix.
  destruct (block_update ROps part A D rhs sor pi fk) as [pi1 e2] eqn:E.
  assert (Hp : pi1 = fst (block_update ROps part A D rhs sor pi fk)) by (rewrite E; auto).
  assert (L1 : length pi1 = length pi) by (rewrite Hp; apply block_update_length).
  unfold bound_vector in Hfix. cbn [ROps n0 nmul nleb nsqrt ndiv sq] in Hfix.
  destruct (Rleb (sumsq ROps fk pi1) (mu * kn * (mu * kn))) eqn:Eb; cbn [fst] in Hfix.
  - subst pi1. assert (Hat := block_update_at pi fk r Hnd Hr (Hwlt r Hr)). rewrite <- Hp in Hat.
    replace (Rltb 0 (arr r)) with true in Hat by (symmetry; apply Rltb_true; auto).
    apply er_zero_of_fixed. apply Rltb_true; auto. lra.
  - exfalso. apply Rleb_false in Eb.
    assert (S : sumsq ROps fk pi = mu * kn * (mu * kn)).
    { rewrite <- Hfix at 1. apply scaled_sumsq; auto; try nra. intros i Hi. rewrite L1. auto. }
    lra.
Qed.
Lemma fixed_fric_interior m fk nk mu (pi : list R) acc conds : step_wfb ROps m (SFric fk nk mu) = true -> length pi = m ->
  pi_of (dostep (SFric fk nk mu) (pi, acc, conds)) = pi ->
  sumsq ROps fk pi < (mu * Rabs (Rget pi nk + Rget piE nk)) * (mu * Rabs (Rget pi nk + Rget piE nk)) ->
  forall r, In r fk -> 0 < arr r -> er pi r = 0.
Proof.
  intros Hwf Hlen Hfix Hint r Hr Ha. unfold step_wfb in Hwf. rewrite !andb_true_iff in Hwf. destruct Hwf as [[[Hw _] Hnd] Hx].
  rewrite forallb_forall in Hw. apply nodupb_spec in Hnd. cbn [writes] in *. apply negb_true_iff in Hx. apply memb_false in Hx.
  assert (Hwlt : forall i, In i fk -> (i < length pi)%nat) by (intros i Hi; rewrite Hlen; apply Nat.ltb_lt; auto).
  destruct acc as [s2a s2e]. unfold pi_of in Hfix. cbn [do_step] in Hfix.
  destruct (block_update ROps part A D rhs sor pi fk) as [pi1 e2] eqn:E.
  assert (Hp : pi1 = fst (block_update ROps part A D rhs sor pi fk)) by (rewrite E; auto).
  assert (L1 : length pi1 = length pi) by (rewrite Hp; apply block_update_length).
  assert (Hnk : Rget pi1 nk = Rget pi nk) by (rewrite Hp; apply block_update_other; auto).
  unfold bound_vector in Hfix. cbn [ROps n0 nmul nadd nabs nleb nsqrt ndiv sq] in Hfix. rewrite Hnk in Hfix.
  set (L := mu * Rabs (Rget pi nk + Rget piE nk)) in *.
  destruct (Rleb (sumsq ROps fk pi1) (L * L)) eqn:Eb; cbn [fst] in Hfix.
  - subst pi1. assert (Hat := block_update_at pi fk r Hnd Hr (Hwlt r Hr)). rewrite <- Hp in Hat.
    replace (Rltb 0 (arr r)) with true in Hat by (symmetry; apply Rltb_true; auto).
    apply er_zero_of_fixed. apply Rltb_true; auto. lra.
  - exfalso. apply Rleb_false in Eb.
    assert (S : sumsq ROps fk pi = L * L).
    { rewrite <- Hfix at 1. apply scaled_sumsq; auto; try nra. intros i Hi. rewrite L1. auto. }
    lra.
Qed.

Lemma fixed_cons_interior m fk nk mu (pi : list R) acc conds : step_wfb ROps m (SCons fk nk mu) = true -> length pi = m ->
  pi_of (dostep (SCons fk nk mu) (pi, acc, conds)) = pi ->
  sumsq ROps fk pi < mu * mu * sumsq ROps nk pi -> forall r, In r fk -> 0 < arr r -> er pi r = 0.
Proof.
  intros Hwf Hlen Hfix Hint r Hr Ha. unfold step_wfb in Hwf. rewrite !andb_true_iff in Hwf. destruct Hwf as [[[Hw _] Hnd] Hx].
  rewrite forallb_forall in Hw. apply nodupb_spec in Hnd. cbn [writes] in *. rewrite disjointb_spec in Hx.
  assert (Hwlt : forall i, In i fk -> (i < length pi)%nat) by (intros i Hi; rewrite Hlen; apply Nat.ltb_lt; auto).
  destruct acc as [s2a s2e]. unfold pi_of in Hfix. cbn [do_step] in Hfix.
  destruct (block_update ROps part A D rhs sor pi fk) as [pi1 e2] eqn:E.
  assert (Hp : pi1 = fst (block_update ROps part A D rhs sor pi fk)) by (rewrite E; auto).
  assert (L1 : length pi1 = length pi) by (rewrite Hp; apply block_update_length).
  assert (Hnk : sumsq ROps nk pi1 = sumsq ROps nk pi).
  { apply sumsq_ext. intros i Hi. rewrite Hp. apply block_update_other. intros C. apply (Hx i Hi C). }
  unfold bound_friction in Hfix. cbn [ROps n0 nmul nadd nabs nleb nsqrt ndiv sq] in Hfix. rewrite Hnk in Hfix.
  destruct (Rleb (sumsq ROps fk pi1) (mu * mu * sumsq ROps nk pi)) eqn:Eb; cbn [fst] in Hfix.
  - subst pi1. assert (Hat := block_update_at pi fk r Hnd Hr (Hwlt r Hr)). rewrite <- Hp in Hat.
    replace (Rltb 0 (arr r)) with true in Hat by (symmetry; apply Rltb_true; auto).
    apply er_zero_of_fixed. apply Rltb_true; auto. lra.
  - exfalso. apply Rleb_false in Eb.
    assert (S : sumsq ROps fk pi = mu * mu * sumsq ROps nk pi).
    { rewrite <- Hfix at 1. apply scaled_sumsq; auto. intros i Hi. rewrite L1. auto. pose proof (sumsq_nonneg nk pi). nra. }
    lra.
Qed.

(** what a fixed point of the sweep satisfies, constraint by constraint (rows with positive diagonal) *)
Definition fp_cond (pi : list R) (s : step_R) : Prop :=
  match s with
  | SUncond rows => forall r, In r rows -> 0 < arr r -> er pi r = 0
  | SNormal nk sign => 0 < arr nk ->
      sign * Rget pi nk <= 0 /\ (er pi nk = 0 \/ (Rget pi nk = 0 /\ 0 < sign * (sor * er pi nk / arr nk)))
  | SBounded ix lb ub => 0 < arr ix ->
      lb <= Rget pi ix <= ub /\
      (er pi ix = 0 \/ (Rget pi ix = ub /\ 0 < sor * er pi ix / arr ix) \/ (Rget pi ix = lb /\ sor * er pi ix / arr ix < 0))
  | SFric fk nk mu =>
      sumsq ROps fk pi < (mu * Rabs (Rget pi nk + Rget piE nk)) * (mu * Rabs (Rget pi nk + Rget piE nk)) ->
      forall r, In r fk -> 0 < arr r -> er pi r = 0
  | SState fk mu kn => sumsq ROps fk pi < (mu * kn) * (mu * kn) -> forall r, In r fk -> 0 < arr r -> er pi r = 0
  | SCons fk nk mu => sumsq ROps fk pi < mu * mu * sumsq ROps nk pi -> forall r, In r fk -> 0 < arr r -> er pi r = 0
  end.

Lemma fp_cond_of_fixed_step m (s : step_R) (pi : list R) acc conds : step_wfb ROps m s = true -> length pi = m ->
  pi_of (dostep s (pi, acc, conds)) = pi -> fp_cond pi s.
Proof.
  intros Hwf Hlen Hfix. destruct s; cbn [fp_cond].
  - eapply fixed_uncond; eauto.
  - intros Ha. eapply fixed_normal; eauto.
  - eapply fixed_fric_interior; eauto.
  - intros Ha. eapply fixed_bounded; eauto.
  - eapply fixed_state_interior; eauto.
  - eapply fixed_cons_interior; eauto.
Qed.

(** if the whole sweep returns the impulses it started from, every single step did *)
Lemma fixed_each (m : nat) (l : list step_R) (st : sstate) :
  NoDup (concat (map (@writes R) l)) ->
  pi_of (fold_left (fun st s => dostep s st) l st) = pi_of st ->
  forall s, In s l -> exists acc conds, pi_of (dostep s (pi_of st, acc, conds)) = pi_of st.
Proof.
  revert st. induction l as [|s0 l IH]; intros st Hnd Hfix s Hs. destruct Hs.
  cbn [map concat] in Hnd. cbn [fold_left] in Hfix.
  assert (Hnd' : NoDup (concat (map (@writes R) l))) by (eapply nodup_app_r; eauto).
  assert (Hdis : forall j, In j (writes s0) -> forall s', In s' l -> ~ In j (writes s')).
  { intros j Hj s' Hs' C. apply (nodup_app_disj _ _ j Hnd Hj).
    apply in_concat. exists (writes s'). split; auto. apply in_map; auto. }
  destruct (do_step_frame part A D rhs piE sor s0 st) as [F1 F2].
  destruct (fold_frame part A D rhs piE sor l (dostep s0 st)) as [G1 G2].
  assert (E1 : pi_of (dostep s0 st) = pi_of st).
  { apply list_ext; auto. intros i Hi.
    destruct (in_dec Nat.eq_dec i (writes s0)) as [Hin|Hnin].
    - rewrite <- (G2 i) by (intros s' Hs'; apply (Hdis i Hin s' Hs')). rewrite Hfix. reflexivity.
    - apply F2; auto. }
  destruct Hs as [<-|Hs].
  - destruct st as [[pi acc] conds]. exists acc, conds. exact E1.
  - rewrite <- E1. apply (IH (dostep s0 st)); auto. rewrite Hfix, E1. reflexivity.
Qed.
End Fixed.

(** *** pgs_fixed_point_satisfies_conditions *)
Theorem pgs_fixed_point_satisfies_conditions (m : nat) part A D rhs piE sor (steps : list step_R) (pi : list R) :
  sor <> 0 -> steps_wfb ROps m steps = true -> NoDup (concat (map (@writes R) steps)) -> length pi = m ->
  pi_of (sweep ROps part A D rhs piE sor steps pi) = pi ->
  Forall (fp_cond part A D rhs piE sor pi) steps.
Proof.
  intros Hsor Hwf Hnd Hlen Hfix. apply Forall_forall. intros s Hs.
  unfold steps_wfb in Hwf. apply andb_true_iff in Hwf. destruct Hwf as [Hwf _]. rewrite forallb_forall in Hwf.
  unfold sweep in Hfix.
  destruct (fixed_each part A D rhs piE sor m steps (pi, (n0 ROps, n0 ROps), []) Hnd Hfix s Hs) as [acc [conds E]].
  unfold pi_of in E at 1. cbn [fst] in E.
  eapply fp_cond_of_fixed_step; eauto.
Qed.


(* ---------------------------------------------------------------- *)

(** non-vacuity: a well-formed step list with every kind of constraint (5 unconditional/normal/friction rows, one bounded row,
    state- and constraint-limited friction) *)
Example wf_example :
  steps_wfb ROps 9 [SUncond [0; 1]%nat; SNormal 2%nat 1; SFric [3; 4]%nat 2%nat (1 / 2); SBounded 5%nat (-1) 1;
                    SState [6]%nat (1 / 2) 2; SCons [7; 8]%nat [0; 1]%nat (1 / 2)] = true.
Proof.
  unfold steps_wfb. cbn -[nleb]. cbn [ROps nleb]. replace (Rleb (-1) 1) with true by (symmetry; apply Rleb_true; lra). reflexivity.
Qed.
(** hence (pgs_projection_invariants) every sweep from any 9 impulses, for any A, D, rhs, sor, ends inside all limits *)
Example invariants_example part A D rhs piE sor (pi : list R) : length pi = 9%nat ->
  let steps := [SUncond [0; 1]%nat; SNormal 2%nat 1; SFric [3; 4]%nat 2%nat (1 / 2); SBounded 5%nat (-1) 1;
                SState [6]%nat (1 / 2) 2; SCons [7; 8]%nat [0; 1]%nat (1 / 2)] in
  inv_check ROps 0 piE steps (pi_of (sweep ROps part A D rhs piE sor steps pi)) = true.
Proof. intros H steps. apply (pgs_sweep_passes_inv_check 9); auto. apply wf_example. Qed.

(** a fixed point: 2 x = 4 with x = 2 *)
Example fixed_point_example :
  pi_of (sweep ROps [0%nat] [[2]] [0] [4] [0] (12 / 10) [SUncond [0%nat]] [2]) = [2].
Proof.
  unfold sweep, pi_of. cbn [fold_left do_step block_update map combine row_sum fst snd upd].
  cbn [mget vget nth ROps n0 nadd nsub nmul ndiv nltb sq vset fold_left].
  replace (Rltb 0 (2 + 0)) with true by (symmetry; apply Rltb_true; lra). cbn. f_equal. field.
Qed.
Example unique_example : forall x y : list R, length x = length y ->
  lmv [[2; 0]; [0; 3]] x = [4; 9] -> lmv [[2; 0]; [0; 3]] y = [4; 9] -> length x = 2%nat -> x = y.
Proof.
  intros x y Hl Hx Hy H2. apply (unconditional_solution_unique [[2; 0]; [0; 3]] x y [4; 9]); auto.
  intros v Hv Hnz. rewrite H2 in *. destruct v as [|a [|b [|c v]]]; cbn in Hv; try lia.
  unfold lmv, ldot. cbn. assert (a <> 0 \/ b <> 0).
  { destruct (Req_dec a 0), (Req_dec b 0); auto. subst. exfalso. apply Hnz. reflexivity. }
  nra.
Qed.

(* ---------------------------------------------------------------- *)

(** *** the bilateral certificate (solveBilateral of PGS and PLUS) *)
Lemma resid_check_spec part A D rhs (pi : list R) rows :
  resid_check ROps 0 part A D rhs pi rows = true <-> forall r, In r rows -> row_sum ROps part A D pi r = Rget rhs r.
Proof.
  unfold resid_check. rewrite forallb_forall. split; intros H r Hr; specialize (H r Hr).
  - apply Rleb_true in H. cbn [ROps nabs] in H. unfold row_resid in H. cbn [ROps nsub] in H.
    assert (E : Rget rhs r - row_sum ROps part A D pi r = 0).
    { destruct (Req_dec (Rget rhs r - row_sum ROps part A D pi r) 0); auto. pose proof (Rabs_pos_lt _ H0). lra. }
    lra.
  - apply Rleb_true. cbn [ROps nabs]. unfold row_resid. cbn [ROps nsub]. rewrite H, Rminus_diag_eq, Rabs_R0 by auto. lra.
Qed.
Lemma offpart_zero_spec part (pi : list R) m :
  offpart_zero ROps part pi m = true <-> forall i, (i < m)%nat -> ~ In i part -> Rget pi i = 0.
Proof.
  unfold offpart_zero. rewrite forallb_forall. split.
  - intros H i Hi Hn. specialize (H i). rewrite in_seq in H. specialize (H ltac:(lia)).
    apply orb_true_iff in H. destruct H as [H|H]. apply memb_spec in H. contradiction.
    unfold is_zero in H. cbn [ROps nleb n0] in H. apply andb_true_iff in H. destruct H as [H1 H2]. apply Rleb_true in H1, H2. lra.
  - intros H i Hi. apply in_seq in Hi. apply orb_true_iff. destruct (in_dec Nat.eq_dec i part) as [Hin|Hn].
    + left. apply memb_spec; auto.
    + right. unfold is_zero. cbn [ROps nleb n0]. rewrite (H i) by (auto; lia). apply andb_true_iff; split; apply Rleb_true; lra.
Qed.
Theorem bilateral_check_spec part A D rhs (pi : list R) :
  bilateral_check ROps 0 part A D rhs pi = true <->
  (forall r, In r part -> row_sum ROps part A D pi r = Rget rhs r) /\
  (forall i, (i < length A)%nat -> ~ In i part -> Rget pi i = 0).
Proof. unfold bilateral_check. rewrite andb_true_iff, resid_check_spec, offpart_zero_spec. tauto. Qed.

(** row_sum is linear in the impulses *)
Lemma vget_lsub (x y : list R) i : length x = length y -> Rget (lsub x y) i = Rget x i - Rget y i.
Proof.
  revert y i; induction x; destruct y; intros i H; cbn [length] in H; try lia.
  - destruct i; cbn; ring.
  - rewrite lsub_cons. destruct i; cbn [vget nth]. reflexivity. apply IHx. lia.
Qed.
Lemma fold_sub {X} (f g : X -> R) l a b :
  fold_left (fun acc c => acc + (f c - g c)) l (a - b) = fold_left (fun acc c => acc + f c) l a - fold_left (fun acc c => acc + g c) l b.
Proof.
  revert a b; induction l; intros a0 b0; cbn [fold_left]. reflexivity.
  replace (a0 - b0 + (f a - g a)) with ((a0 + f a) - (b0 + g a)) by ring. apply IHl.
Qed.
Lemma fold_left_ext' {X} (f g : R -> X -> R) l a : (forall acc c, f acc c = g acc c) -> fold_left f l a = fold_left g l a.
Proof. intros H. revert a; induction l; intros a0; cbn; auto. rewrite H. apply IHl. Qed.
Lemma row_sum_lsub part A D (x y : list R) r : length x = length y ->
  row_sum ROps part A D (lsub x y) r = row_sum ROps part A D x r - row_sum ROps part A D y r.
Proof.
  intros H. unfold row_sum. cbn [ROps nadd nmul n0].
  rewrite (fold_left_ext' _ (fun acc c => acc + (mget ROps A r c * Rget x c - mget ROps A r c * Rget y c))).
  - replace 0 with (0 - 0) at 1 by ring. rewrite fold_sub, vget_lsub by auto. ring.
  - intros acc c. rewrite vget_lsub by auto. ring.
Qed.

(** the quadratic form of the participating block P (A+D) ~P *)
Definition qform part A D (v : list R) : R := fold_right Rplus 0 (map (fun r => Rget v r * row_sum ROps part A D v r) part).

(** *** two impulses that both pass the exact bilateral certificate coincide when the participating block is positive definite:
        this is why certifying the output of PLUSImpulseSolver::solveBilateral (FactorQTZ inside) decides it *)
Theorem bilateral_certificate_unique part A D rhs (pi pi' : list R) :
  length pi = length A -> length pi' = length A ->
  (forall v, length v = length A -> (exists r, In r part /\ Rget v r <> 0) -> 0 < qform part A D v) ->
  bilateral_check ROps 0 part A D rhs pi = true -> bilateral_check ROps 0 part A D rhs pi' = true -> pi = pi'.
Proof.
  intros L1 L2 Hpd H1 H2. apply bilateral_check_spec in H1, H2. destruct H1 as [E1 Z1], H2 as [E2 Z2].
  set (d := lsub pi pi').
  assert (Ld : length d = length A). { unfold d, lsub. rewrite map_length, combine_length. lia. }
  assert (Hrow : forall r, In r part -> row_sum ROps part A D d r = 0).
  { intros r Hr. unfold d. rewrite row_sum_lsub by lia. rewrite E1, E2 by auto. ring. }
  assert (Hq : qform part A D d = 0).
  { unfold qform. assert (G : forall l, (forall r, In r l -> In r part) -> fold_right Rplus 0 (map (fun r => Rget d r * row_sum ROps part A D d r) l) = 0).
    { induction l; intros Hl; cbn [map fold_right]. reflexivity. rewrite IHl by (intros; apply Hl; cbn; auto). rewrite Hrow by (apply Hl; cbn; auto). ring. }
    apply G; auto. }
  assert (Hd : forall r, In r part -> Rget d r = 0).
  { intros r Hr. destruct (Req_dec (Rget d r) 0) as [|Hne]; auto. exfalso.
    specialize (Hpd d Ld (ex_intro _ r (conj Hr Hne))). lra. }
  apply list_ext. lia. intros i Hi.
  destruct (in_dec Nat.eq_dec i part) as [Hin|Hn].
  - specialize (Hd i Hin). unfold d in Hd. rewrite vget_lsub in Hd by lia. lra.
  - rewrite Z1, Z2 by (auto; lia). reflexivity.
Qed.

Example bilateral_example :
  bilateral_check ROps 0 [1%nat] [[5; 1]; [1; 2]] [0; 1] [7; 6] [0; 2] = true.
Proof.
  apply bilateral_check_spec. split.
  - intros r [<-|[]]. unfold row_sum. cbn. ring.
  - intros i Hi Hn. destruct i as [|[|i]]; cbn in Hi; try lia. reflexivity. exfalso. apply Hn. cbn; auto.
Qed.
