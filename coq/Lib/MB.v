(** Multibody tree algorithms (DESIGN 2.3/2.4), generic in an abstract spatial-vector structure so
    that one definition serves the proofs (scalars = R) and the extracted float/rational runs.
    Everything is expressed in the Ground frame, as simbody's O(n) operators are:
      V_b = phiT l_b V_parent + H_b u_b          (outward)
      Z_b = F_b + sum_children phi l_c Z_c        (inward),   tau_b = H_b^T Z_b                     *)
From Coq Require Import List.
Import ListNotations.
Require Import Tree.

Record VSp (S V L I : Type) := mkVSp {
  s0 : S; s1 : S; sadd : S -> S -> S; smul : S -> S -> S;
  vzero : V; vadd : V -> V -> V; vscale : S -> V -> V; dot : V -> V -> S;
  phi : L -> V -> V;      (* shift a spatial force from a child's origin to its parent's origin *)
  phiT : L -> V -> V;     (* shift a spatial velocity from the parent's origin to the child's   *)
  mapply : I -> V -> V }. (* spatial inertia times spatial velocity/acceleration *)
Arguments s0 {S V L I}. Arguments s1 {S V L I}. Arguments sadd {S V L I}. Arguments smul {S V L I}.
Arguments vzero {S V L I}. Arguments vadd {S V L I}. Arguments vscale {S V L I}. Arguments dot {S V L I}.
Arguments phi {S V L I}. Arguments phiT {S V L I}. Arguments mapply {S V L I}.

(** per-body data: shift from the parent's origin to this body's origin, hinge matrix columns
    (one spatial vector per mobility), spatial inertia about the body origin -- all in Ground *)
Record node (V L I : Type) := mkNode { n_l : L; n_H : list V; n_M : I }.
Arguments n_l {V L I}. Arguments n_H {V L I}. Arguments n_M {V L I}. Arguments mkNode {V L I}.

Section Alg.
Context {S V L I X : Type} (K : VSp S V L I) (nd : X -> node V L I).

Fixpoint Hmul (H : list V) (u : list S) : V :=
  match H, u with h :: H', x :: u' => vadd K (vscale K x h) (Hmul H' u') | _, _ => vzero K end.
Definition Htmul (H : list V) (Z : V) : list S := map (fun h => dot K Z h) H.
Fixpoint dotU (a b : list S) : S :=
  match a, b with x :: a', y :: b' => sadd K (smul K x y) (dotU a' b') | _, _ => s0 K end.

(** outward kinematic pass with an extra per-body term (zero for velocities; the Coriolis
    acceleration for accelerations) *)
Definition kin (u : X -> list S) (extra : X -> V) (Vp : V) (t : tree X) : tree (X * V) :=
  outward (fun Vpar x => vadd K (vadd K (phiT K (n_l (nd x)) Vpar) (Hmul (n_H (nd x)) (u x))) (extra x)) Vp t.
(** J * u : the spatial velocity of every body *)
Definition mulJ (u : X -> list S) (t : tree X) : tree (X * V) := kin u (fun _ => vzero K) (vzero K) t.

(** inward force accumulation *)
Definition gather (F : X -> V) (x : X) (rs : list (X * V)) : V :=
  vadd K (F x) (fold_right (fun r z => vadd K (phi K (n_l (nd (fst r))) (snd r)) z) (vzero K) rs).
Definition accum (F : X -> V) (t : tree X) : tree (X * V) := inward (gather F) t.
(** J^T * F : generalized forces *)
Definition mulJt (F : X -> V) (t : tree X) : tree (X * list S) :=
  tmap (fun xz => (fst xz, Htmul (n_H (nd (fst xz))) (snd xz))) (accum F t).
End Alg.

Section Mass.
Context {S V L I X : Type} (K : VSp S V L I) (nd : X -> node V L I).
(** M * udot = J^T (Mk (J udot)) : simbody's multiplyByM (outward accelerations, inward forces) *)
Definition mulM (udot : X -> list S) (t : tree X) : tree ((X * V) * list S) :=
  mulJt K (fun xv => nd (fst xv)) (fun xv => mapply K (n_M (nd (fst xv))) (snd xv)) (mulJ K nd udot t).
(** twice the kinetic energy: sum_b <Mk V_b, V_b> *)
Definition ke2_terms (u : X -> list S) (t : tree X) : tree S :=
  tmap (fun xv => dot K (mapply K (n_M (nd (fst xv))) (snd xv)) (snd xv)) (mulJ K nd u t).
End Mass.
