(** Executable entry points for the correspondence runs: build the tree from simbody's parent
    indices and evaluate the operators of MB.v on the concrete spatial algebra.  Extracted to OCaml;
    the driver only parses inputs and prints outputs. *)
From Coq Require Import List Arith.
Import ListNotations.
Require Import Num Vec Tree MB Spatial.

Section Run. Context {T:Type} (K:NumOps T).
Definition SV := SpatialVec T.
Record bx := mkBx { b_idx : nat; b_par : nat; b_nd : node SV (Vec3 T) (SpInertia (T:=T));
                    b_u : list T; b_w : list T; b_ud : list T; b_F : SV; b_cor : SV }.
Definition svzero : SV := (v3_zero K, v3_zero K).
Definition ground (F0 : SV) : bx :=
  mkBx 0 0 (mkNode (v3_zero K) [] (n0 K, v3_zero K, (v3_zero K, v3_zero K))) [] [] [] F0 svzero.

(** children of body [me] are the bodies whose parent index is [me]; simbody numbers parents before
    children, so recursion depth <= number of bodies = fuel *)
Fixpoint buildT (fuel : nat) (bodies : list bx) (x : bx) : tree bx :=
  match fuel with
  | O => Node x []
  | S f => Node x (map (buildT f bodies) (filter (fun b => andb (Nat.eqb (b_par b) (b_idx x)) (negb (Nat.eqb (b_idx b) 0))) bodies))
  end.
Definition mkTree (F0 : SV) (bodies : list bx) : tree bx := buildT (S (length bodies)) bodies (ground F0).

Definition KK := svK K.
Definition out_vel (t : tree bx) : list (nat * SV) := map (fun xv => (b_idx (fst xv), snd xv)) (flatten (mulJ KK b_nd b_u t)).
Definition out_jw  (t : tree bx) : list (nat * SV) := map (fun xv => (b_idx (fst xv), snd xv)) (flatten (mulJ KK b_nd b_w t)).
Definition out_jtf (t : tree bx) : list (nat * list T) := map (fun xt => (b_idx (fst xt), snd xt)) (flatten (mulJt KK b_nd b_F t)).
Definition out_bias (t : tree bx) : list (nat * SV) :=
  map (fun xv => (b_idx (fst xv), snd xv)) (flatten (kin KK b_nd (fun _ => []) b_cor svzero t)).
Definition out_acc (t : tree bx) : list (nat * SV) :=
  map (fun xv => (b_idx (fst xv), snd xv)) (flatten (kin KK b_nd b_ud b_cor svzero t)).
Definition out_mw (t : tree bx) : list (nat * list T) :=
  map (fun xt => (b_idx (fst (fst xt)), snd xt)) (flatten (mulM KK b_nd b_w t)).
(** M applied to an arbitrary speed assignment (used for the columns of M) *)
Definition out_mcol (sel : bx -> list T) (t : tree bx) : list (nat * list T) :=
  map (fun xt => (b_idx (fst (fst xt)), snd xt)) (flatten (mulM KK b_nd sel t)).
Definition out_ke2 (t : tree bx) : T := fold_right (nadd K) (n0 K) (flatten (ke2_terms KK b_nd b_u t)).
(** station / frame Jacobian rows are shifts of the body rows *)
Definition frame_of (p : Vec3 T) (Vb : SV) : SV := shiftVel K p Vb.
(** a force f applied at station p of a body is the spatial force (p x f, f) at the body origin *)
Definition station_force (p f : Vec3 T) : SV := shiftForce K p (v3_zero K, f).
Definition frame_force (p : Vec3 T) (F : SV) : SV := shiftForce K p F.
Definition out_jt_custom (F : bx -> SV) (t : tree bx) : list (nat * list T) :=
  map (fun xt => (b_idx (fst xt), snd xt)) (flatten (mulJt KK b_nd F t)).
End Run.
