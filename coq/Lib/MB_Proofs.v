(** Theorems about the tree algorithms of MB.v for EVERY tree and every per-node data,
    over real scalars, from the vector-space laws only. *)
From Coq Require Import List Reals Lra.
Import ListNotations.
Require Import Tree MB.
Local Open Scope R_scope.

Section Laws.
Context {V L I : Type} (K : VSp R V L I).
Hypothesis s0_is : s0 K = 0.
Hypothesis sadd_is : forall a b, sadd K a b = a + b.
Hypothesis smul_is : forall a b, smul K a b = a * b.
Hypothesis dot_add_l : forall a b c, dot K (vadd K a b) c = dot K a c + dot K b c.
Hypothesis dot_add_r : forall a b c, dot K a (vadd K b c) = dot K a b + dot K a c.
Hypothesis dot_scale_r : forall s a b, dot K a (vscale K s b) = s * dot K a b.
Hypothesis dot_zero_r : forall a, dot K a (vzero K) = 0.
Hypothesis dot_zero_l : forall a, dot K (vzero K) a = 0.
Hypothesis phi_adj : forall l f a, dot K (phi K l f) a = dot K f (phiT K l a).

Section Adj.
Context {X : Type} (nd : X -> node V L I).

Lemma Ht_adj H Z u : dot K Z (Hmul K H u) = dotU K (Htmul K H Z) u.
Proof. unfold Htmul. revert u; induction H as [|h H IH]; intros [|x u]; cbn; rewrite ?dot_zero_r, ?s0_is; auto.
  rewrite dot_add_r, dot_scale_r, IH, sadd_is, smul_is. ring. Qed.

Definition ksum {Y} (f : tree Y -> R) (cs : list (tree Y)) : R := fold_right (fun c s => f c + s) 0 cs.
Lemma tsum_node {Y} (g : Y -> R) (a : Y) (cs : list (tree Y)) :
  tsum (tmap g (Node a cs)) = g a + ksum (fun c => tsum (tmap g c)) cs.
Proof. cbn. f_equal. unfold ksum. induction cs as [|c r IHr]; cbn; auto. rewrite IHr; auto. Qed.

(** value accumulated at the root of a subtree by the inward pass *)
Definition Zroot (F : X -> V) (t : tree X) : V := snd (root (accum K nd F t)).

Lemma accum_node F x cs :
  accum K nd F (Node x cs) = Node (x, gather K nd F x (map root (map (accum K nd F) cs))) (map (accum K nd F) cs).
Proof. reflexivity. Qed.
Lemma kin_node u e Vp x cs :
  kin K nd u e Vp (Node x cs) =
  let Vb := vadd K (vadd K (phiT K (n_l (nd x)) Vp) (Hmul K (n_H (nd x)) (u x))) (e x) in
  Node (x, Vb) (map (kin K nd u e Vb) cs).
Proof. reflexivity. Qed.
Lemma root_accum_fst F t : fst (root (accum K nd F t)) = root t.
Proof. destruct t; reflexivity. Qed.

(** Generalised adjoint identity for a subtree hanging below a parent moving with [Vp]:
    sum_b <F_b, V_b> = <Z_root, phiT l_root Vp> + sum_b ( (H_b^T Z_b) . u_b + <Z_b, extra_b> ) *)
Theorem adjoint_gen (u : X -> list R) (e F : X -> V) : forall t Vp,
  tsum (tmap (fun xv => dot K (F (fst xv)) (snd xv)) (kin K nd u e Vp t))
  = dot K (Zroot F t) (phiT K (n_l (nd (root t))) Vp)
    + tsum (tmap (fun xz => dotU K (Htmul K (n_H (nd (fst xz))) (snd xz)) (u (fst xz)) + dot K (snd xz) (e (fst xz)))
                 (accum K nd F t)).
Proof.
  induction t as [x cs IH] using tree_ind'. intros Vp.
  rewrite kin_node. cbv zeta. set (Vb := vadd K (vadd K (phiT K (n_l (nd x)) Vp) (Hmul K (n_H (nd x)) (u x))) (e x)).
  unfold Zroot. rewrite accum_node. rewrite !tsum_node. cbn [root fst snd].
  set (Z := gather K nd F x (map root (map (accum K nd F) cs))).
  set (T := fun xz : X * V => dotU K (Htmul K (n_H (nd (fst xz))) (snd xz)) (u (fst xz)) + dot K (snd xz) (e (fst xz))).
  assert (Hk : ksum (fun c => tsum (tmap (fun xv => dot K (F (fst xv)) (snd xv)) c)) (map (kin K nd u e Vb) cs)
             = dot K (fold_right (fun r z => vadd K (phi K (n_l (nd (fst r))) (snd r)) z) (vzero K) (map root (map (accum K nd F) cs))) Vb
               + ksum (fun c => tsum (tmap T c)) (map (accum K nd F) cs)).
  { clear Z. unfold ksum. induction cs as [|c r IHr]; cbn [map fold_right].
    - rewrite dot_zero_l; lra.
    - inversion IH as [|? ? IHc IHrest]; subst.
      rewrite (IHc Vb), (IHr IHrest), dot_add_l, phi_adj. unfold Zroot.
      rewrite root_accum_fst. fold T. lra. }
  rewrite Hk. unfold Z, gather. rewrite !dot_add_l.
  set (Zk := fold_right (fun r z => vadd K (phi K (n_l (nd (fst r))) (snd r)) z) (vzero K) (map root (map (accum K nd F) cs))).
  unfold T at 1. cbn [fst snd]. fold Z. 
  replace (dot K (F x) Vb) with (dot K (F x) (phiT K (n_l (nd x)) Vp) + dot K (F x) (Hmul K (n_H (nd x)) (u x)) + dot K (F x) (e x))
    by (unfold Vb; rewrite !dot_add_r; lra).
  replace (dot K Zk Vb) with (dot K Zk (phiT K (n_l (nd x)) Vp) + dot K Zk (Hmul K (n_H (nd x)) (u x)) + dot K Zk (e x))
    by (unfold Vb; rewrite !dot_add_r; lra).
  rewrite <- Ht_adj. unfold Z, gather. fold Zk. rewrite !dot_add_l. unfold T. lra.
Qed.

(** J and J^T are exact adjoints:  <F, J u> = <J^T F, u>  (sum over all bodies / all mobilities) *)
Theorem mulJt_adjoint (u : X -> list R) (F : X -> V) (t : tree X) :
  tsum (tmap (fun xv => dot K (F (fst xv)) (snd xv)) (mulJ K nd u t))
  = tsum (tmap (fun xt => dotU K (snd xt) (u (fst xt))) (mulJt K nd F t)).
Proof.
  unfold mulJ, mulJt. rewrite adjoint_gen. rewrite tmap_tmap. cbn [fst snd].
  assert (Hp : forall l, dot K (Zroot F t) (phiT K l (vzero K)) = 0).
  { intros l. rewrite <- phi_adj. apply dot_zero_r. }
  rewrite Hp. rewrite Rplus_0_l. f_equal. apply tmap_ext. intros [x z]; cbn. rewrite dot_zero_r. lra.
Qed.
End Adj.

Section MassP.
Context {X : Type} (nd : X -> node V L I).
(** ** the mass-matrix operator M = J^T Mk J *)
Definition pairkin (u v : X -> list R) : (V * V) -> X -> (V * V) :=
  fun bc x => (vadd K (vadd K (phiT K (n_l (nd x)) (fst bc)) (Hmul K (n_H (nd x)) (u x))) (vzero K),
               vadd K (vadd K (phiT K (n_l (nd x)) (snd bc)) (Hmul K (n_H (nd x)) (v x))) (vzero K)).
(** sum_b <Mk V_b(u), V_b(v)>, both velocity fields computed in one outward pass *)
Definition Mform (u v : X -> list R) (t : tree X) : R :=
  tsum (tmap (fun xab => dot K (mapply K (n_M (nd (fst xab))) (fst (snd xab))) (snd (snd xab)))
             (outward (pairkin u v) (vzero K, vzero K) t)).

(** v^T (M u) computed by the O(n) operator equals the bilinear form sum_b <Mk J_b u, J_b v> *)
Theorem mulM_is_form (u v : X -> list R) (t : tree X) :
  tsum (tmap (fun xt => dotU K (snd xt) (v (fst (fst xt)))) (mulM K nd u t)) = Mform u v t.
Proof.
  unfold mulM, Mform.
  rewrite <- (mulJt_adjoint (fun xv : X * V => nd (fst xv))
               (fun xv => v (fst xv)) (fun xv => mapply K (n_M (nd (fst xv))) (snd xv)) (mulJ K nd u t)).
  unfold mulJ, kin, pairkin.
  rewrite <- (outward_outward
     (fun Vpar x => vadd K (vadd K (phiT K (n_l (nd x)) Vpar) (Hmul K (n_H (nd x)) (u x))) (vzero K))
     (fun Vpar x => vadd K (vadd K (phiT K (n_l (nd x)) Vpar) (Hmul K (n_H (nd x)) (v x))) (vzero K)) t (vzero K) (vzero K)).
  rewrite tmap_tmap. cbn [fst snd]. reflexivity.
Qed.

Hypothesis M_sym : forall i a b, dot K (mapply K i a) b = dot K a (mapply K i b).
Hypothesis dot_sym : forall a b, dot K a b = dot K b a.

Lemma Mform_sym u v t : Mform u v t = Mform v u t.
Proof.
  unfold Mform.
  pose proof (outward_conj (pairkin v u) (pairkin u v) (fun p => (snd p, fst p)) (fun b a => eq_refl) t (vzero K, vzero K)) as E.
  cbn [fst snd] in E. rewrite <- E.
  rewrite tmap_tmap. cbn [fst snd]. f_equal. apply tmap_ext. intros [x [a b]]; cbn.
  rewrite M_sym. apply dot_sym.
Qed.

(** M is symmetric:  v^T (M u) = u^T (M v)  for every tree *)
Theorem mulM_symmetric (u v : X -> list R) (t : tree X) :
  tsum (tmap (fun xt => dotU K (snd xt) (v (fst (fst xt)))) (mulM K nd u t))
  = tsum (tmap (fun xt => dotU K (snd xt) (u (fst (fst xt)))) (mulM K nd v t)).
Proof. rewrite !mulM_is_form. apply Mform_sym. Qed.

(** u^T M u = sum_b <Mk V_b, V_b> = 2 KE, and it is non-negative when every Mk is PSD *)
Theorem uMu_is_2ke (u : X -> list R) (t : tree X) :
  tsum (tmap (fun xt => dotU K (snd xt) (u (fst (fst xt)))) (mulM K nd u t)) = tsum (ke2_terms K nd u t).
Proof.
  rewrite mulM_is_form. unfold Mform, ke2_terms, mulJ, kin.
  pose proof (outward_conj (fun Vpar x => vadd K (vadd K (phiT K (n_l (nd x)) Vpar) (Hmul K (n_H (nd x)) (u x))) (vzero K))
                           (pairkin u u) (fun a => (a, a)) (fun b a => eq_refl) t (vzero K)) as E.
  cbn [fst snd] in E. rewrite <- E.
  rewrite !tmap_tmap. reflexivity.
Qed.
Theorem M_psd (u : X -> list R) (t : tree X) :
  (forall x, In x (flatten t) -> forall a, 0 <= dot K (mapply K (n_M (nd x)) a) a) ->
  0 <= tsum (tmap (fun xt => dotU K (snd xt) (u (fst (fst xt)))) (mulM K nd u t)).
Proof. intros Hp. rewrite uMu_is_2ke. unfold ke2_terms. apply tsum_nonneg_in. intros xv Hin. apply Hp.
  unfold mulJ, kin in Hin. apply (in_map fst) in Hin. rewrite <- flatten_tmap, tmap_fst_outward in Hin. exact Hin. Qed.
End MassP.
End Laws.
