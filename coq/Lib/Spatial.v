(** Concrete spatial-vector structure over a [NumOps T]: spatial vectors (angular, linear) in Ground,
    shifts by a Ground vector, rigid-body spatial inertia (mass, mass-centre offset, inertia about the
    body origin), all expressed in Ground -- the instance of MB.VSp the correspondence runs use. *)
Require Import Num Vec MB.

Section S. Context {T:Type} (K:NumOps T).
(** spatial inertia about the body origin OB, expressed in G: mass, vector OB->COM, inertia about OB *)
Definition SpInertia := (T * Vec3 T * SymMat33 T)%type.
(** shift a velocity from point P to point P + l:  (w, v + w x l) *)
Definition shiftVel (l:Vec3 T) (V:SpatialVec T) : SpatialVec T := (fst V, v3_add K (snd V) (v3_cross K (fst V) l)).
(** shift a force applied at P + l to the equivalent at P:  (n + l x f, f) *)
Definition shiftForce (l:Vec3 T) (F:SpatialVec T) : SpatialVec T := (v3_add K (fst F) (v3_cross K l (snd F)), snd F).
(** momentum / force of a rigid body:  (I w + m p x v,  m (v + w x p)) *)
Definition spInertiaMul (M:SpInertia) (V:SpatialVec T) : SpatialVec T :=
  let '(m, p, Io) := M in
  (v3_add K (sym_mulv K Io (fst V)) (v3_scale K m (v3_cross K p (snd V))),
   v3_scale K m (v3_add K (snd V) (v3_cross K (fst V) p))).
Definition svK : VSp T (SpatialVec T) (Vec3 T) SpInertia :=
  mkVSp T (SpatialVec T) (Vec3 T) SpInertia (n0 K) (n1 K) (nadd K) (nmul K)
        (v3_zero K, v3_zero K) (sv_add K) (sv_scale K) (sv_dot K) shiftForce shiftVel spInertiaMul.
End S.
